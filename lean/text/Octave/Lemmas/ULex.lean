/-
Lexer half (and the emitter) of the UNIFIED document-level round trip: lines whose values are scalars, LISTS OF SCALARS or operator
EXPRESSIONS, nested in BLOCKS and SECTIONS of any depth and width.

* content: `UValue` (`scalar` | `list` | `expr`), `UNode` (`line key value` | `block key children` | `sect id key children`);
* spellings: `VSp` per line (the list layout `ULay`: one line, or one item per line behind `ind` spaces with the closing bracket
  behind `cind` spaces; the spelling `List OpSp` of the operator occurrences of an expression: Unicode operator, ASCII alias or
  `vs`, spaces around it), `UT` = a forest with a spelling on every line, `hash : Bool` for the section markers (`§` / `#`);
  the CANONICAL spelling `UNode.canonT` is what the emitter writes: the layout `needsMulti` dictates, at the node's
  indentation — the items of a multi-line list inside a block at depth `d` behind `2·(d+1)` spaces, its closing bracket behind
  `2·d` spaces —, Unicode operators without spaces, `§`;
* `ULexes` / `At`: some iterations of the main loop read a prefix as given tokens and receipts (both in reading order);
* `lex_cmulti` (the multi-line layout with an indented closing bracket: the INDENT token in front of `]`), `lex_uvalue` (the three
  kinds of values: `ListDoc.lex_item`, `ListDoc.lex_inline`, `lex_cmulti`, `Expr.run_expr`), `lex_uline`, and ONE mutual
  induction over `UT`: `lex_ut` / `lex_uts` (lines as above, block headers by `run_header`, section headers by `run_sheader`);
* `ut_fine`: every physical line of the text is fence-free and tab-free; `tokenize_ut`: the whole document;
* the emitter: `emitValue_ulist` (`emit_value` on a list at ANY indentation), `emitNode_unode` / `emit_udoc_matches`.
-/
import Octave.Lemmas.SectLex
import Octave.Lemmas.ListBridge
import Octave.Lemmas.ExprBridge
namespace Octave.U
open Octave Lexer Scan Emitter
open Octave.ListDoc (At Lexes toksReps tokReps toksReps_append toksReps_cons tLb tRb tComma indToks spacesL inlineText inlineTail
  inlineToks lex_inline lex_item lex_nl lex_comma lex_lb lex_rb lex_indent lex_itemLine lex_ident lex_assign itemTerm_nl ItemTerm)
open Octave.Expr (Expr OpSp OpEnv run_expr EVal tailToksRev tailRepsRev)

/-! ### values, spellings -/

/-- the value of a line: a scalar, a list of scalars, an operator expression. -/
inductive UValue where
  | scalar (s : FScalar)
  | list (items : List FScalar)
  | expr (e : Expr)
  deriving Repr, DecidableEq

/-- how a list is laid out: on one line, or one item per line behind `ind` spaces with the closing bracket behind `cind` spaces. -/
inductive ULay where
  | inline
  | multi (ind cind : Nat)
  deriving Repr, DecidableEq

/-- the spelling freedoms of one line's value: the layout (lists), the spelling of each operator occurrence (expressions). -/
structure VSp where
  lay : ULay := .inline
  ops : List OpSp := []
  deriving Repr, DecidableEq

def UValue.OK : UValue → Prop
  | .scalar s => s.OK
  | .list items => ∀ x ∈ items, x.OK
  | .expr e => e.OK

def UValue.isExpr : UValue → Bool
  | .expr _ => true
  | _ => false

/-! ### the multi-line layout with an indented closing bracket -/

/-- after an item: `,⏎␣␣item` … `⏎␣]`. -/
def cmultiTail (ind cind : Nat) : List FScalar → Str
  | [] => '\n' :: (spacesL cind ++ [']'])
  | x :: r => ',' :: '\n' :: (spacesL ind ++ (x.text ++ cmultiTail ind cind r))

/-- `[⏎␣␣a,⏎␣␣b⏎␣]`; `[⏎␣]`. -/
def cmultiText (ind cind : Nat) : List FScalar → Str
  | [] => '[' :: '\n' :: (spacesL cind ++ [']'])
  | x :: r => '[' :: '\n' :: (spacesL ind ++ (x.text ++ cmultiTail ind cind r))

/-- the closing line: INDENT (when indented), `]`. -/
def closeToks (cind l : Nat) : List Token := indToks cind l ++ [tRb l (1 + cind)]

def cmultiTailToks (ind cind l c : Nat) : List FScalar → List Token
  | [] => tNewline l c :: closeToks cind (l + 1)
  | x :: r => tComma l c :: tNewline l (c + 1) :: (indToks ind (l + 1) ++ x.tok (l + 1) (1 + ind)
      :: cmultiTailToks ind cind (l + 1) (1 + ind + x.text.length) r)

def cmultiToks (ind cind l c : Nat) : List FScalar → List Token
  | [] => tLb l c :: tNewline l (c + 1) :: closeToks cind (l + 1)
  | x :: r => tLb l c :: tNewline l (c + 1) :: (indToks ind (l + 1) ++ x.tok (l + 1) (1 + ind)
      :: cmultiTailToks ind cind (l + 1) (1 + ind + x.text.length) r)

theorem lex_closeLine (env : Env) (lenient : Bool) (st : LState) (cind : Nat) (rest : Str) (l : Nat) (top : Nat × Nat)
    (stk : List (Nat × Nat)) (h : At st l 1 (top :: stk)) :
    ∃ st', Lexes env lenient st (spacesL cind ++ ']' :: rest) st' rest (closeToks cind l) ∧ At st' l (2 + cind) stk := by
  by_cases hc : cind = 0
  · subst hc
    obtain ⟨s1, x1, a1, _⟩ := lex_rb env lenient st rest l 1 top stk h
    exact ⟨s1, by simpa [spacesL, closeToks, indToks] using x1, a1.cast rfl (by omega)⟩
  · obtain ⟨s1, x1, a1, _⟩ := lex_indent env lenient st cind ']' rest l _ h (by omega) (by decide) (by decide)
    obtain ⟨s2, x2, a2, _⟩ := lex_rb env lenient s1 rest l (1 + cind) top stk a1
    exact ⟨s2, by simpa [closeToks, indToks, hc] using x1.trans x2, a2.cast rfl (by omega)⟩

theorem itemTerm_cmultiTail (ind cind : Nat) (r : List FScalar) (rest : Str) : ItemTerm (cmultiTail ind cind r ++ rest) := by
  cases r with
  | nil => exact ⟨'\n', _, rfl, Or.inr (Or.inr rfl)⟩
  | cons x r => exact ⟨',', _, rfl, Or.inl rfl⟩

theorem lex_cmultiTail (env : Env) (lenient : Bool) (ind cind : Nat) (items : List FScalar) :
    ∀ (st : LState) (rest : Str) (l c : Nat) (top : Nat × Nat) (stk : List (Nat × Nat)), At st l c (top :: stk) →
    (∀ x ∈ items, x.OK) →
    ∃ st', Lexes env lenient st (cmultiTail ind cind items ++ rest) st' rest (cmultiTailToks ind cind l c items) ∧
      At st' (l + items.length + 1) (2 + cind) stk := by
  induction items with
  | nil =>
    intro st rest l c top stk h _
    obtain ⟨s1, x1, a1, _⟩ := lex_nl env lenient st (spacesL cind ++ ']' :: rest) l c _ h
    obtain ⟨s2, x2, a2⟩ := lex_closeLine env lenient s1 cind rest (l + 1) top stk a1
    exact ⟨s2, by simpa [cmultiTail, cmultiTailToks, List.append_assoc] using x1.trans x2, a2.cast (by simp) rfl⟩
  | cons x r ih =>
    intro st rest l c top stk h hok
    obtain ⟨s1, x1, a1, _⟩ := lex_comma env lenient st ('\n' :: (spacesL ind ++ (x.text ++ (cmultiTail ind cind r ++ rest)))) l c _ h
    obtain ⟨s2, x2, a2, p2⟩ := lex_nl env lenient s1 (spacesL ind ++ (x.text ++ (cmultiTail ind cind r ++ rest))) l (c + 1) _ a1
    obtain ⟨s3, x3, a3⟩ := lex_itemLine env lenient s2 ind x (cmultiTail ind cind r ++ rest) (l + 1) _ a2 p2
      (itemTerm_cmultiTail ind cind r rest) (hok x (by simp))
    obtain ⟨s4, x4, a4⟩ := ih s3 rest (l + 1) (1 + ind + x.text.length) top stk a3 (fun y hy => hok y (by simp [hy]))
    refine ⟨s4, ?_, a4.cast (by simp; omega) rfl⟩
    have := ((x1.trans x2).trans x3).trans x4
    simpa [cmultiTail, cmultiTailToks, List.append_assoc] using this

/-- **a list in the multi-line layout**, items behind `ind` spaces, closing bracket behind `cind` spaces: the INDENT and
NEWLINE tokens between the brackets, one INDENT in front of `]` when it is indented. -/
theorem lex_cmulti (env : Env) (lenient : Bool) (ind cind : Nat) (items : List FScalar) (st : LState) (rest : Str)
    (l c : Nat) (stk : List (Nat × Nat)) (h : At st l c stk) (hok : ∀ x ∈ items, x.OK) :
    ∃ st', Lexes env lenient st (cmultiText ind cind items ++ rest) st' rest (cmultiToks ind cind l c items) ∧
      At st' (l + items.length + 1) (2 + cind) stk := by
  cases items with
  | nil =>
    obtain ⟨s1, x1, a1, _⟩ := lex_lb env lenient st ('\n' :: (spacesL cind ++ ']' :: rest)) l c stk h
    obtain ⟨s2, x2, a2, _⟩ := lex_nl env lenient s1 (spacesL cind ++ ']' :: rest) l (c + 1) _ a1
    obtain ⟨s3, x3, a3⟩ := lex_closeLine env lenient s2 cind rest (l + 1) _ _ a2
    exact ⟨s3, by simpa [cmultiText, cmultiToks, List.append_assoc] using (x1.trans x2).trans x3, a3.cast (by simp) rfl⟩
  | cons x r =>
    obtain ⟨s1, x1, a1, _⟩ := lex_lb env lenient st ('\n' :: (spacesL ind ++ (x.text ++ (cmultiTail ind cind r ++ rest)))) l c stk h
    obtain ⟨s2, x2, a2, p2⟩ := lex_nl env lenient s1 (spacesL ind ++ (x.text ++ (cmultiTail ind cind r ++ rest))) l (c + 1) _ a1
    obtain ⟨s3, x3, a3⟩ := lex_itemLine env lenient s2 ind x (cmultiTail ind cind r ++ rest) (l + 1) _ a2 p2
      (itemTerm_cmultiTail ind cind r rest) (hok x (by simp))
    obtain ⟨s4, x4, a4⟩ := lex_cmultiTail env lenient ind cind r s3 rest (l + 1) (1 + ind + x.text.length) _ stk a3 (fun y hy => hok y (by simp [hy]))
    refine ⟨s4, ?_, a4.cast (by simp; omega) rfl⟩
    have := ((x1.trans x2).trans x3).trans x4
    simpa [cmultiText, cmultiToks, List.append_assoc] using this

/-! ### reading a prefix: tokens and receipts in reading order -/

/-- some iterations of the main loop take `(st, s)` to `(st', s')` and append exactly `toks` and `reps` (reading order). -/
def ULexes (env : Env) (lenient : Bool) (st : LState) (s : Str) (st' : LState) (s' : Str) (toks : List Token)
    (reps : List Repair) : Prop :=
  ∃ n, Run env lenient n st s st' s' ∧ st'.toks = toks.reverse ++ st.toks ∧ st'.repairs = reps.reverse ++ st.repairs

theorem ULexes.refl (env : Env) (lenient : Bool) (st : LState) (s : Str) : ULexes env lenient st s st s [] [] :=
  ⟨0, Run.refl _ _, by simp, by simp⟩

theorem ULexes.trans {env : Env} {lenient : Bool} {a b c : LState} {s t u : Str} {t1 t2 : List Token} {r1 r2 : List Repair}
    (h1 : ULexes env lenient a s b t t1 r1) (h2 : ULexes env lenient b t c u t2 r2) :
    ULexes env lenient a s c u (t1 ++ t2) (r1 ++ r2) := by
  obtain ⟨n, x1, e1, p1⟩ := h1
  obtain ⟨m, x2, e2, p2⟩ := h2
  refine ⟨n + m, Run.trans x1 x2, ?_, ?_⟩
  · rw [e2, e1, List.reverse_append, List.append_assoc]
  · rw [p2, p1, List.reverse_append, List.append_assoc]

theorem ULexes.of_lexes {env : Env} {lenient : Bool} {st st' : LState} {s s' : Str} {toks : List Token}
    (h : Lexes env lenient st s st' s' toks) : ULexes env lenient st s st' s' toks (toksReps toks) := h

theorem ulexes_of_adv {env : Env} {lenient : Bool} {n : Nat} {st st' : LState} {s s' : Str} {tr : List Token} {rr : List Repair}
    {dl c' : Nat} {p : Option Char} {l c : Nat} {stk : List (Nat × Nat)}
    (r : Run env lenient n st s st' s') (a : Adv st st' tr rr dl c' p) (h : At st l c stk) :
    ULexes env lenient st s st' s' tr.reverse rr.reverse ∧ At st' (l + dl) c' stk ∧ st'.prev = p :=
  ⟨⟨n, r, by rw [a.toks, List.reverse_reverse], by rw [a.repairs, List.reverse_reverse]⟩,
   ⟨a.ready, by rw [a.line, h.line], a.col, by rw [a.stack, h.stack]⟩, a.prev⟩

theorem ulexes_of_advL {env : Env} {lenient : Bool} {n : Nat} {st st' : LState} {s s' : Str} {tr : List Token} {rr : List Repair}
    {dl : Nat} {l c : Nat} {stk : List (Nat × Nat)}
    (r : Run env lenient n st s st' s') (a : AdvL st st' tr rr dl) (h : At st l c stk) :
    ULexes env lenient st s st' s' tr.reverse rr.reverse ∧ At st' (l + dl) 1 stk :=
  ⟨⟨n, r, by rw [a.toks, List.reverse_reverse], by rw [a.repairs, List.reverse_reverse]⟩,
   ⟨a.ready, by rw [a.line, h.line], a.col, by rw [a.stack, h.stack]⟩⟩

/-! ### values -/

def UValue.text (sp : VSp) : UValue → Str
  | .scalar s => s.text
  | .list items => (match sp.lay with | .inline => inlineText items | .multi i ci => cmultiText i ci items)
  | .expr e => e.spell sp.ops

/-- tokens of the value at line `l`, column `c` (reading order). -/
def UValue.toks (sp : VSp) (l c : Nat) : UValue → List Token
  | .scalar s => [s.tok l c]
  | .list items => (match sp.lay with | .inline => inlineToks l c items | .multi i ci => cmultiToks i ci l c items)
  | .expr e => tIdent e.head l c :: (tailToksRev l (c + e.head.length) e.tail sp.ops).reverse

/-- receipts of the value (reading order): identifier notes; for an expression the receipts of its aliased operators. -/
def UValue.reps (sp : VSp) (l c : Nat) : UValue → List Repair
  | .expr e => identifierRepairs e.head l c ++ (tailRepsRev l (c + e.head.length) e.tail sp.ops).reverse
  | v => toksReps (v.toks sp l c)

/-- number of line breaks inside the value. -/
def UValue.height (sp : VSp) : UValue → Nat
  | .list items => (match sp.lay with | .inline => 0 | .multi _ _ => items.length + 1)
  | _ => 0

/-- column right after the value. -/
def UValue.endCol (sp : VSp) (c : Nat) : UValue → Nat
  | .scalar s => c + s.text.length
  | .list items => (match sp.lay with | .inline => c + (inlineText items).length | .multi _ ci => 2 + ci)
  | .expr e => c + (e.spell sp.ops).length

/-- **the value of a line**, right after `::`, up to the line end — the three kinds. -/
theorem lex_uvalue (env : Env) (lenient : Bool) (v : UValue) (sp : VSp) (st : LState) (rest : Str) (l c : Nat)
    (stk : List (Nat × Nat)) (h : At st l c stk) (hp : st.prev = some ':') (hc : 2 ≤ c) (hv : v.OK)
    (he : v.isExpr = true → OpEnv env) :
    ∃ st', ULexes env lenient st (v.text sp ++ '\n' :: rest) st' ('\n' :: rest) (v.toks sp l c) (v.reps sp l c) ∧
      At st' (l + v.height sp) (v.endCol sp c) stk := by
  cases v with
  | scalar s =>
    obtain ⟨s1, x1, a1⟩ := lex_item env lenient st s ':' ('\n' :: rest) l c stk h hp (Or.inr (Or.inr (Or.inr (Or.inl rfl)))) (itemTerm_nl rest) hv
    exact ⟨s1, ULexes.of_lexes x1, a1⟩
  | list items =>
    obtain ⟨lay, ops⟩ := sp
    cases lay with
    | inline =>
      obtain ⟨s1, x1, a1⟩ := lex_inline env lenient items st ('\n' :: rest) l c stk h hv
      exact ⟨s1, ULexes.of_lexes x1, a1⟩
    | multi ind cind =>
      obtain ⟨s1, x1, a1⟩ := lex_cmulti env lenient ind cind items st ('\n' :: rest) l c stk h hv
      exact ⟨s1, ULexes.of_lexes x1, a1⟩
  | expr e =>
    obtain ⟨n, s1, p1, r1, a1⟩ := run_expr env (he rfl) lenient st e sp.ops rest h.ready (by rw [h.col]; exact hc) hv
    rw [h.line, h.col] at a1
    have := ulexes_of_adv r1 a1 h
    refine ⟨s1, ?_, this.2.1⟩
    simpa [UValue.text, UValue.toks, UValue.reps, EVal.toksRev, EVal.repsRev] using this.1

/-! ### one line at depth `d` -/

theorem indentToksRev_reverse' (d l : Nat) : (indentToksRev d l).reverse = indentToks d l := indentToksRev_reverse d l

/-- the indentation of a line at depth `d`, followed by a char that is neither a space nor a line end. -/
theorem lex_uindent (env : Env) (lenient : Bool) (st : LState) (d : Nat) (c : Char) (rest : Str) (l : Nat)
    (stk : List (Nat × Nat)) (h : At st l 1 stk) (hc : c ≠ ' ') (hnl : c ≠ '\n') :
    ∃ st', ULexes env lenient st (indentStr d ++ c :: rest) st' (c :: rest) (indentToks d l) [] ∧ At st' l (1 + 2 * d) stk := by
  obtain ⟨s1, p1, r1, a1⟩ := run_indent env lenient st d c rest h.ready h.col hc hnl
  rw [h.line] at a1
  have := ulexes_of_adv r1 a1 h
  rw [indentToksRev_reverse] at this
  exact ⟨s1, this.1, this.2.1⟩

/-- tokens of the line `KEY::value` at depth `d` whose first physical line is line `l` (reading order). -/
def lineToks (key : Str) (v : UValue) (sp : VSp) (d l : Nat) : List Token :=
  indentToks d l ++ (tIdent key l (1 + 2 * d) :: tAssign l (1 + 2 * d + key.length) ::
    (v.toks sp l (1 + 2 * d + key.length + 2) ++ [tNewline (l + v.height sp) (v.endCol sp (1 + 2 * d + key.length + 2))]))

/-- its receipts (reading order): the notes of the key, then those of the value. -/
def lineReps (key : Str) (v : UValue) (sp : VSp) (d l : Nat) : List Repair :=
  identifierRepairs key l (1 + 2 * d) ++ v.reps sp l (1 + 2 * d + key.length + 2)

theorem toksReps_ident (s : Str) (l c : Nat) : toksReps [tIdent s l c] = identifierRepairs s l c := by
  simp [toksReps, tokReps, tIdent, tvalStr]

/-- **one line `KEY::value` at depth `d`**, whatever the kind of value. -/
theorem lex_uline (env : Env) (lenient : Bool) (key : Str) (v : UValue) (sp : VSp) (d : Nat) (st : LState)
    (rest : Str) (l : Nat) (stk : List (Nat × Nat)) (h : At st l 1 stk)
    (hk1 : isIdentifierText key = true) (hk2 : hasReservedPrefix key = false) (hv : v.OK) (he : v.isExpr = true → OpEnv env) :
    ∃ st', ULexes env lenient st (indentStr d ++ (key ++ (':' :: ':' :: (v.text sp ++ '\n' :: rest)))) st' rest
        (lineToks key v sp d l) (lineReps key v sp d l) ∧ At st' (l + (1 + v.height sp)) 1 stk := by
  obtain ⟨kc, kt, hkey, h1, h2, _⟩ := identText_cons key hk1
  have hshape : key ++ (':' :: ':' :: (v.text sp ++ '\n' :: rest)) = kc :: (kt ++ (':' :: ':' :: (v.text sp ++ '\n' :: rest))) := by
    rw [hkey]; rfl
  obtain ⟨s1, x1, a1⟩ := lex_uindent env lenient st d kc (kt ++ (':' :: ':' :: (v.text sp ++ '\n' :: rest))) l stk h h1 h2
  rw [← hshape] at x1
  obtain ⟨s2, x2, a2⟩ := lex_ident env lenient s1 key (':' :: ':' :: (v.text sp ++ '\n' :: rest)) l (1 + 2 * d) stk a1 hk1 hk2 (termOK_colon env _)
  obtain ⟨s3, x3, a3, p3⟩ := lex_assign env lenient s2 (v.text sp ++ '\n' :: rest) l (1 + 2 * d + key.length) stk a2
  obtain ⟨s4, x4, a4⟩ := lex_uvalue env lenient v sp s3 rest l (1 + 2 * d + key.length + 2) stk a3 p3 (by omega) hv he
  obtain ⟨s5, x5, a5, _⟩ := lex_nl env lenient s4 rest _ _ stk a4
  refine ⟨s5, ?_, a5.cast (by omega) rfl⟩
  have := (((x1.trans (ULexes.of_lexes x2)).trans (ULexes.of_lexes x3)).trans x4).trans (ULexes.of_lexes x5)
  have e1 : toksReps [tAssign l (1 + 2 * d + key.length)] = [] := rfl
  have e2 : ∀ a b, toksReps [tNewline a b] = [] := fun _ _ => rfl
  rw [toksReps_ident, e1, e2] at this
  simpa [lineToks, lineReps, List.append_assoc] using this

/-! ### forests with a spelling on every line -/

/-- content of a document body: `KEY::value` lines, `KEY:` blocks and `§ID::NAME` sections with children, any depth and width,
the three kinds mixed at every level. -/
inductive UNode where
  | line (key : Str) (v : UValue)
  | block (key : Str) (children : List UNode)
  | sect (id : SecId) (key : Str) (children : List UNode)
  deriving Repr

/-- the same with a spelling `VSp` on every line. -/
inductive UT where
  | line (key : Str) (v : UValue) (sp : VSp)
  | block (key : Str) (children : List UT)
  | sect (id : SecId) (key : Str) (children : List UT)
  deriving Repr

mutual
/-- keys, names and bare words are identifier-shaped without a reserved-word prefix; section ids satisfy `SecId.OK`; integers
have at most 4300 digits; expressions have at least one operator (`UValue.OK`). -/
def UT.OK : UT → Prop
  | .line key v _ => isIdentifierText key = true ∧ hasReservedPrefix key = false ∧ v.OK
  | .block key cs => isIdentifierText key = true ∧ hasReservedPrefix key = false ∧ utOK cs
  | .sect id key cs => id.OK ∧ isIdentifierText key = true ∧ hasReservedPrefix key = false ∧ utOK cs
def utOK : List UT → Prop
  | [] => True
  | n :: ns => n.OK ∧ utOK ns
end

mutual
/-- text of a node at depth `d` (with its line ends); `hash = false` spells the section markers `§`. -/
def UT.text (hash : Bool) (d : Nat) : UT → Str
  | .line key v sp => indentStr d ++ (key ++ (':' :: ':' :: (v.text sp ++ ['\n'])))
  | .block key cs => indentStr d ++ (key ++ ':' :: '\n' :: utText hash (d + 1) cs)
  | .sect id key cs => indentStr d ++ (sheaderText hash id key ++ '\n' :: utText hash (d + 1) cs)
def utText (hash : Bool) (d : Nat) : List UT → Str
  | [] => []
  | n :: ns => n.text hash d ++ utText hash d ns
end

mutual
/-- number of physical text lines of a node. -/
def UT.nlines : UT → Nat
  | .line _ v sp => 1 + v.height sp
  | .block _ cs => 1 + utNLines cs
  | .sect _ _ cs => 1 + utNLines cs
def utNLines : List UT → Nat
  | [] => 0
  | n :: ns => n.nlines + utNLines ns
end

mutual
/-- tokens of a node at depth `d` whose first line is line `l` (reading order). -/
def UT.toks (hash : Bool) (d l : Nat) : UT → List Token
  | .line key v sp => lineToks key v sp d l
  | .block key cs => headerToks key d l ++ utToks hash (d + 1) (l + 1) cs
  | .sect id key cs => sheaderToks hash id key d l ++ utToks hash (d + 1) (l + 1) cs
def utToks (hash : Bool) (d l : Nat) : List UT → List Token
  | [] => []
  | n :: ns => n.toks hash d l ++ utToks hash d (l + n.nlines) ns
end

mutual
/-- receipts (reading order): identifier notes, one normalisation receipt per marker spelled `#` and per aliased operator. -/
def UT.reps (hash : Bool) (d l : Nat) : UT → List Repair
  | .line key v sp => lineReps key v sp d l
  | .block key cs => identifierRepairs key l (1 + 2 * d) ++ utReps hash (d + 1) (l + 1) cs
  | .sect id key cs => (sheaderRepsRev hash id key d l).reverse ++ utReps hash (d + 1) (l + 1) cs
def utReps (hash : Bool) (d l : Nat) : List UT → List Repair
  | [] => []
  | n :: ns => n.reps hash d l ++ utReps hash d (l + n.nlines) ns
end

mutual
/-- an operator expression occurs in the node. -/
def UT.hasExpr : UT → Bool
  | .line _ v _ => v.isExpr
  | .block _ cs => utHasExpr cs
  | .sect _ _ cs => utHasExpr cs
def utHasExpr : List UT → Bool
  | [] => false
  | n :: ns => n.hasExpr || utHasExpr ns
end

mutual
/-- a section marker occurs in the node. -/
def UT.hasSect : UT → Bool
  | .line _ _ _ => false
  | .block _ cs => utHasSect cs
  | .sect _ _ _ => true
def utHasSect : List UT → Bool
  | [] => false
  | n :: ns => n.hasSect || utHasSect ns
end

theorem headerToksRev_reverse (key : Str) (d l : Nat) : (headerToksRev key d l).reverse = headerToks key d l := by
  simp [headerToksRev, headerToks, indentToksRev_reverse]

theorem sheaderToksRev_reverse (hash : Bool) (id : SecId) (key : Str) (d l : Nat) :
    (sheaderToksRev hash id key d l).reverse = sheaderToks hash id key d l := by
  simp [sheaderToksRev, sheaderToks, indentToksRev_reverse, SecId.toksRev_reverse]

mutual
/-- **one node at depth `d`** (a line with any value, or a block / a section with all its descendants).  About the outside
world the lexer needs: the operator characters are symbols (`OpEnv`) — only if an expression occurs; `\\d` does not match `§` —
only if a section marker occurs and is spelled `§`. -/
theorem lex_ut (env : Env) (lenient : Bool) (hash : Bool) :
    ∀ (n : UT) (d : Nat) (st : LState) (rest : Str) (l : Nat) (stk : List (Nat × Nat)), At st l 1 stk → n.OK →
    (n.hasExpr = true → OpEnv env) → (hash = false → n.hasSect = true → env.isDigit '§' = false) →
    ∃ st', ULexes env lenient st (n.text hash d ++ rest) st' rest (n.toks hash d l) (n.reps hash d l) ∧
      At st' (l + n.nlines) 1 stk
  | .line key v sp, d, st, rest, l, stk, h, hok, he, _ => by
    simp only [UT.OK] at hok
    obtain ⟨s1, x1, a1⟩ := lex_uline env lenient key v sp d st rest l stk h hok.1 hok.2.1 hok.2.2 he
    refine ⟨s1, ?_, a1⟩
    simpa [UT.text, UT.toks, UT.reps, List.append_assoc] using x1
  | .block key cs, d, st, rest, l, stk, h, hok, he, hsec => by
    simp only [UT.OK] at hok
    obtain ⟨s1, r1, a1⟩ := run_header env lenient st key d (utText hash (d + 1) cs ++ rest) h.ready h.col hok.1 hok.2.1
    rw [h.line] at a1
    obtain ⟨x1, b1⟩ := ulexes_of_advL r1 a1 h
    rw [headerToksRev_reverse, List.reverse_reverse] at x1
    obtain ⟨s2, x2, a2⟩ := lex_uts env lenient hash cs (d + 1) s1 rest (l + 1) stk b1 hok.2.2
      (fun hh => he (by simpa [UT.hasExpr] using hh)) (fun h1 hh => hsec h1 (by simpa [UT.hasSect] using hh))
    refine ⟨s2, ?_, a2.cast (by simp only [UT.nlines]; omega) rfl⟩
    have := x1.trans x2
    simpa [UT.text, UT.toks, UT.reps, List.append_assoc] using this
  | .sect id key cs, d, st, rest, l, stk, h, hok, he, hsec => by
    simp only [UT.OK] at hok
    obtain ⟨s1, r1, a1⟩ := run_sheader env lenient st hash id key d (utText hash (d + 1) cs ++ rest) h.ready h.col
      (fun hh => hsec hh rfl) hok.1 hok.2.1 hok.2.2.1
    rw [h.line] at a1
    obtain ⟨x1, b1⟩ := ulexes_of_advL r1 a1 h
    rw [sheaderToksRev_reverse] at x1
    obtain ⟨s2, x2, a2⟩ := lex_uts env lenient hash cs (d + 1) s1 rest (l + 1) stk b1 hok.2.2.2
      (fun hh => he (by simpa [UT.hasExpr] using hh)) (fun hh _ => hsec hh rfl)
    refine ⟨s2, ?_, a2.cast (by simp only [UT.nlines]; omega) rfl⟩
    have := x1.trans x2
    simpa [UT.text, UT.toks, UT.reps, List.append_assoc] using this
/-- **a list of sibling nodes at depth `d`**, any depth and width below. -/
theorem lex_uts (env : Env) (lenient : Bool) (hash : Bool) :
    ∀ (ns : List UT) (d : Nat) (st : LState) (rest : Str) (l : Nat) (stk : List (Nat × Nat)), At st l 1 stk → utOK ns →
    (utHasExpr ns = true → OpEnv env) → (hash = false → utHasSect ns = true → env.isDigit '§' = false) →
    ∃ st', ULexes env lenient st (utText hash d ns ++ rest) st' rest (utToks hash d l ns) (utReps hash d l ns) ∧
      At st' (l + utNLines ns) 1 stk
  | [], d, st, rest, l, stk, h, _, _, _ =>
    ⟨st, by simpa [utText, utToks, utReps] using ULexes.refl env lenient st rest, h.cast (by simp [utNLines]) rfl⟩
  | n :: ns, d, st, rest, l, stk, h, hok, he, hsec => by
    simp only [utOK] at hok
    obtain ⟨s1, x1, a1⟩ := lex_ut env lenient hash n d st (utText hash d ns ++ rest) l stk h hok.1
      (fun hh => he (by simp [utHasExpr, hh])) (fun h1 hh => hsec h1 (by simp [utHasSect, hh]))
    obtain ⟨s2, x2, a2⟩ := lex_uts env lenient hash ns d s1 rest (l + n.nlines) stk a1 hok.2
      (fun hh => he (by simp [utHasExpr, hh])) (fun h1 hh => hsec h1 (by simp [utHasSect, hh]))
    refine ⟨s2, ?_, a2.cast (by simp only [utNLines]; omega) rfl⟩
    have := x1.trans x2
    simpa [utText, utToks, utReps, List.append_assoc] using this
end

/-! ### every physical line of the text is fence-free and tab-free -/

open Octave.Spell (AllLines LineFine allLines_cons allLines_nil tokenize_of_run)
open Octave.ListDoc (SafePre fenceLine_safe scalar_text_head inlineText_clean)

/-- a line prefix that is clean (no line break, no tab) and holds a first non-space char that is not a backtick: whatever
clean text follows on the line, the line is no fence line. -/
def Safe (pre : Str) : Prop := Clean pre ∧ SafePre pre

theorem Safe.append {pre : Str} (h : Safe pre) {x : Str} (hx : Clean x) : Safe (pre ++ x) :=
  ⟨Clean.append h.1 hx, h.2.append x⟩

theorem Safe.fine {pre : Str} (h : Safe pre) : LineFine pre :=
  ⟨by simpa using fenceLine_safe pre [] h.2, fun d hd => (h.1 d hd).2⟩

theorem spacesL_clean (n : Nat) : Clean (spacesL n) := by
  intro d hd
  have : d = ' ' := by simp [spacesL, List.mem_replicate] at hd; exact hd.2
  subst this; decide

theorem safe_start (n : Nat) (c : Char) (t : Str) (h1 : c ≠ ' ') (h2 : c ≠ '`') (hc : Clean (c :: t)) : Safe (spacesL n ++ c :: t) :=
  ⟨Clean.append (spacesL_clean n) hc, n, c, t, rfl, h1, h2⟩

theorem safe_item (ind : Nat) (x : FScalar) (hx : x.OK) : Safe (spacesL ind ++ x.text) := by
  obtain ⟨c, t, hct, h1, h2, _⟩ := scalar_text_head x hx
  have hc := scalar_clean x hx
  rw [hct] at hc ⊢
  exact safe_start ind c t h1 h2 hc

theorem safe_close (cind : Nat) : Safe (spacesL cind ++ [']']) :=
  safe_start cind ']' [] (by decide) (by decide) (clean_lit _ (by decide))

theorem fine_line (pre : Str) (Y : Str) (h : Safe pre) (hY : AllLines LineFine Y) : AllLines LineFine (pre ++ '\n' :: Y) :=
  allLines_cons LineFine pre Y h.1 h.fine hY

theorem fine_cmultiTail (ind cind : Nat) (r : List FScalar) (Y : Str) (hr : ∀ x ∈ r, x.OK) (hY : AllLines LineFine Y) :
    ∀ (pre : Str), Safe pre → AllLines LineFine (pre ++ (cmultiTail ind cind r ++ '\n' :: Y)) := by
  induction r with
  | nil =>
    intro pre hpre
    have := fine_line pre _ hpre (fine_line _ Y (safe_close cind) hY)
    simpa [cmultiTail, List.append_assoc] using this
  | cons x r ih =>
    intro pre hpre
    have h2 := ih (fun y hy => hr y (by simp [hy])) (spacesL ind ++ x.text) (safe_item ind x (hr x (by simp)))
    have := fine_line (pre ++ [',']) _ (hpre.append (clean_lit [','] (by decide))) h2
    simpa [cmultiTail, List.append_assoc] using this

theorem fine_cmulti (ind cind : Nat) (items : List FScalar) (Y : Str) (hr : ∀ x ∈ items, x.OK) (hY : AllLines LineFine Y)
    (pre : Str) (hpre : Safe pre) : AllLines LineFine (pre ++ (cmultiText ind cind items ++ '\n' :: Y)) := by
  cases items with
  | nil =>
    have := fine_line (pre ++ ['[']) _ (hpre.append (clean_lit ['['] (by decide))) (fine_line _ Y (safe_close cind) hY)
    simpa [cmultiText, List.append_assoc] using this
  | cons x r =>
    have h2 := fine_cmultiTail ind cind r Y (fun y hy => hr y (by simp [hy])) hY (spacesL ind ++ x.text) (safe_item ind x (hr x (by simp)))
    have := fine_line (pre ++ ['[']) _ (hpre.append (clean_lit ['['] (by decide))) h2
    simpa [cmultiText, List.append_assoc] using this

theorem espell_clean' (e : Expr) (sps : List OpSp) (h : e.OK) : Clean (e.spell sps) :=
  Clean.append (identText_clean e.head h.1.1) (Expr.tailSpell_clean e.tail sps h.2.1)

/-- the value of a line behind a safe prefix, then the line end and fence-free lines: all lines are fine. -/
theorem fine_value (v : UValue) (sp : VSp) (pre : Str) (Y : Str) (hv : v.OK) (hpre : Safe pre) (hY : AllLines LineFine Y) :
    AllLines LineFine (pre ++ (v.text sp ++ '\n' :: Y)) := by
  cases v with
  | scalar s =>
    have := fine_line (pre ++ s.text) Y (hpre.append (scalar_clean s hv)) hY
    simpa [UValue.text, List.append_assoc] using this
  | list items =>
    obtain ⟨lay, ops⟩ := sp
    cases lay with
    | inline =>
      have := fine_line (pre ++ inlineText items) Y (hpre.append (inlineText_clean items hv)) hY
      simpa [UValue.text, List.append_assoc] using this
    | multi ind cind => exact fine_cmulti ind cind items Y hv hY pre hpre
  | expr e =>
    have := fine_line (pre ++ e.spell sp.ops) Y (hpre.append (espell_clean' e sp.ops hv)) hY
    simpa [UValue.text, List.append_assoc] using this

theorem fine_row (d : Nat) (b : Str) (Y : Str) (h : BodyOK b) (hY : AllLines LineFine Y) :
    AllLines LineFine (indentStr d ++ (b ++ '\n' :: Y)) := by
  have hc := rowText_clean (d, b) h
  have hf := rowText_fence (d, b) h
  have := allLines_cons LineFine (rowText (d, b)) Y hc ⟨hf, fun x hx => (hc x hx).2⟩ hY
  simpa [rowText, List.append_assoc] using this

mutual
theorem ut_fine (hash : Bool) : ∀ (n : UT) (d : Nat) (Y : Str), n.OK → AllLines LineFine Y →
    AllLines LineFine (n.text hash d ++ Y)
  | .line key v sp, d, Y, hok, hY => by
    simp only [UT.OK] at hok
    obtain ⟨kc, kt, hkey, h1, _, h3⟩ := identText_cons key hok.1
    have hck := identText_clean key hok.1
    have hpre : Safe (indentStr d ++ (key ++ [':', ':'])) := by
      have hc : Clean (kc :: (kt ++ [':', ':'])) := by
        have := Clean.append hck (clean_lit [':', ':'] (by decide))
        rw [hkey] at this; exact this
      have := safe_start (2 * d) kc (kt ++ [':', ':']) h1 h3 hc
      rw [hkey]; exact this
    have := fine_value v sp _ Y hok.2.2 hpre hY
    simpa [UT.text, List.append_assoc] using this
  | .block key cs, d, Y, hok, hY => by
    simp only [UT.OK] at hok
    have := fine_row d (key ++ [':']) _ (bodyOK_header key hok.1) (uts_fine hash cs (d + 1) Y hok.2.2 hY)
    simpa [UT.text, List.append_assoc] using this
  | .sect id key cs, d, Y, hok, hY => by
    simp only [UT.OK] at hok
    have := fine_row d (sheaderText hash id key) _ (bodyOK_sheader hash id key hok.1 hok.2.1) (uts_fine hash cs (d + 1) Y hok.2.2.2 hY)
    simpa [UT.text, List.append_assoc] using this
theorem uts_fine (hash : Bool) : ∀ (ns : List UT) (d : Nat) (Y : Str), utOK ns → AllLines LineFine Y →
    AllLines LineFine (utText hash d ns ++ Y)
  | [], d, Y, _, hY => by simpa [utText] using hY
  | n :: ns, d, Y, hok, hY => by
    simp only [utOK] at hok
    have := ut_fine hash n d _ hok.1 (uts_fine hash ns d Y hok.2 hY)
    simpa [utText, List.append_assoc] using this
end

/-! ### the whole document -/

/-- text of a document whose body is a spelled forest; `hash = false` with the canonical spellings: the canonical text. -/
def utDocText (hash : Bool) (name : Str) (ts : List UT) : Str :=
  "===".toList ++ name ++ "===".toList ++ '\n' :: (utText hash 0 ts ++ ("===END===".toList ++ ['\n']))

/-- its tokens in reading order, EOF included. -/
def utDocToks (hash : Bool) (name : Str) (ts : List UT) : List Token :=
  tEnvStart name 1 1 :: tNewline 1 (1 + (name.length + 6)) :: (utToks hash 0 2 ts ++
    [tEnvEnd (utNLines ts + 2) 1, tNewline (utNLines ts + 2) 10, tEof (utNLines ts + 3) 1])

theorem utDoc_fine (hash : Bool) (name : Str) (ts : List UT) (hn : isEnvName name = true) (hok : utOK ts) :
    AllLines LineFine (utDocText hash name ts) := by
  have hend : AllLines LineFine ("===END===".toList ++ ['\n']) :=
    allLines_cons LineFine "===END===".toList [] (clean_lit _ (by decide)) ⟨by decide, by decide⟩
      (allLines_nil LineFine ⟨by decide, by decide⟩)
  have henv : LineFine ("===".toList ++ name ++ "===".toList) := by
    have := Spell.envLine_fine name 0 hn
    simpa [Spell.spaces] using this
  exact allLines_cons LineFine _ _ (envLine_clean name hn) henv (uts_fine hash ts 0 _ hok hend)

/-- **the whole document** from the initial state. -/
theorem lex_utdoc (env : Env) (lenient : Bool) (hash : Bool) (name : Str) (ts : List UT)
    (he : utHasExpr ts = true → OpEnv env) (hsec : hash = false → utHasSect ts = true → env.isDigit '§' = false)
    (hn : isEnvName name = true) (hne : name ≠ "END".toList) (hok : utOK ts) :
    ∃ st', ULexes env lenient ({ spans := [] } : LState) (utDocText hash name ts) st' [] (utDocToks hash name ts).dropLast
        (utReps hash 0 2 ts) ∧ At st' (utNLines ts + 3) 1 [] := by
  let st0 : LState := { spans := [] }
  obtain ⟨s1, e1, a1⟩ := step_envStart env lenient st0 name ('\n' :: (utText hash 0 ts ++ ("===END===".toList ++ ['\n']))) rfl hn hne
  have h1 : Lexes env lenient st0 (utDocText hash name ts) s1 ('\n' :: (utText hash 0 ts ++ ("===END===".toList ++ ['\n']))) [tEnvStart name 1 1] := by
    refine Lexes.step (by simp [utDocText]) (by simpa [utDocText] using e1) (by rw [a1.toks]; rfl) (by rw [a1.repairs]; rfl)
  have at1 : At s1 1 (1 + (name.length + 6)) [] := ⟨a1.ready, by rw [a1.line], a1.col, by rw [a1.stack]⟩
  obtain ⟨s2, x2, a2, _⟩ := lex_nl env lenient s1 (utText hash 0 ts ++ ("===END===".toList ++ ['\n'])) _ _ _ at1
  obtain ⟨s3, x3, a3⟩ := lex_uts env lenient hash ts 0 s2 ("===END===".toList ++ ['\n']) 2 [] a2 hok he hsec
  obtain ⟨s4, x4, a4⟩ := ListDoc.lex_envEnd env lenient s3 ['\n'] _ _ _ a3
  obtain ⟨s5, x5, a5, _⟩ := lex_nl env lenient s4 [] _ _ _ a4
  refine ⟨s5, ?_, a5.cast (by omega) rfl⟩
  have := ((((ULexes.of_lexes h1).trans (ULexes.of_lexes x2)).trans x3).trans (ULexes.of_lexes x4)).trans (ULexes.of_lexes x5)
  have e : (utDocToks hash name ts).dropLast = [tEnvStart name 1 1] ++ [tNewline 1 (1 + (name.length + 6))] ++ utToks hash 0 2 ts ++
      [tEnvEnd (2 + utNLines ts) 1] ++ [tNewline (2 + utNLines ts) (1 + 9)] := by
    have : utDocToks hash name ts = ([tEnvStart name 1 1] ++ [tNewline 1 (1 + (name.length + 6))] ++ utToks hash 0 2 ts ++
      [tEnvEnd (2 + utNLines ts) 1] ++ [tNewline (2 + utNLines ts) (1 + 9)]) ++ [tEof (utNLines ts + 3) 1] := by
      simp [utDocToks, Nat.add_comm]
    rw [this, List.dropLast_concat]
  have r0 : toksReps [tEnvStart name 1 1] = [] := rfl
  have r1 : ∀ a b, toksReps [tNewline a b] = [] := fun _ _ => rfl
  have r2 : ∀ a b, toksReps [tEnvEnd a b] = [] := fun _ _ => rfl
  rw [r0, r1, r2, r1] at this
  rw [e]
  simpa using this

/-- **The lexer on the text of a unified document** (any name, any forest of lines — scalar, list and expression values —,
blocks and sections, any depth and width; any spelling: list layouts, operator aliases and spaces, `§` / `#`; both lexer
modes; every environment whose NFC leaves the lines alone, that knows the operator characters as symbols (`OpEnv`: needed only
if an expression occurs) and whose `\d` does not match `§` (needed only if a marker is written `§`)): `tokenize` succeeds with
exactly `utDocToks`, positions included, and exactly the receipts `utReps`. -/
theorem tokenize_ut (env : Env) (lenient : Bool) (hash : Bool) (name : Str) (ts : List UT)
    (he : utHasExpr ts = true → OpEnv env) (hsec : hash = false → utHasSect ts = true → env.isDigit '§' = false)
    (hn : isEnvName name = true) (hne : name ≠ "END".toList) (hok : utOK ts)
    (hnfc : ∀ l ∈ splitLines (utDocText hash name ts), env.nfc l = l) :
    tokenize env (utDocText hash name ts) lenient = .ok (utDocToks hash name ts, utReps hash 0 2 ts) := by
  obtain ⟨st', ⟨n, run, ht, hr⟩, hat⟩ := lex_utdoc env lenient hash name ts he hsec hn hne hok
  refine tokenize_of_run env lenient _ _ _ (utDoc_fine hash name ts hn hok) hnfc ⟨n, st', run, ?_, ?_, hat.stack⟩
  · rw [hat.line, hat.col, ht]
    have : utDocToks hash name ts = (utDocToks hash name ts).dropLast ++ [tEof (utNLines ts + 3) 1] := by
      have h2 : utDocToks hash name ts = (tEnvStart name 1 1 :: tNewline 1 (1 + (name.length + 6)) :: (utToks hash 0 2 ts ++
        [tEnvEnd (utNLines ts + 2) 1, tNewline (utNLines ts + 2) 10])) ++ [tEof (utNLines ts + 3) 1] := by
        simp [utDocToks]
      rw [h2, List.dropLast_concat]
    conv => rhs; rw [this]
    simp
  · rw [hr]; simp

/-! ### the emitter -/

open Octave.ListDoc (needsMulti ItemEmitOK emitValue_scalar emitFlatParts_items emitMultiParts_items joinWith_inlineTail
  joinWith_cons_ne needsMultiline_items)

/-- the AST value: a scalar's value; a list of the items' values; for an expression the STRING of its canonical text. -/
def UValue.value : UValue → Value
  | .scalar s => s.value
  | .list items => .list (items.map FScalar.value)
  | .expr e => .str e.text

/-- the spelling the emitter chooses for a value at depth `d` (a function of the content and the depth only): a list on one
line, or — `needsMulti`: three or more items, or an annotation-shaped string among them — one item per line behind
`2·(d+1)` spaces with the closing bracket behind `2·d` spaces; operators in Unicode, no spaces. -/
def UValue.canonSp (d : Nat) : UValue → VSp
  | .list items => if needsMulti items then { lay := .multi (2 * (d + 1)) (2 * d) } else {}
  | _ => {}

theorem joinWith_cmultiTail (i c : Nat) (x : FScalar) (r : List FScalar) :
    joinWith ['\n'] (multilineLines (spacesL i) ((x :: r).map FScalar.text) ++ [spacesL c ++ [']']])
      = spacesL i ++ (x.text ++ cmultiTail i c r) := by
  induction r generalizing x with
  | nil => simp [multilineLines, joinWith, cmultiTail]
  | cons y r ih =>
    have h := ih y
    simp only [List.map_cons] at h ⊢
    rw [multilineLines, List.cons_append, joinWith_cons_ne _ _ _ (by simp), h]
    simp [cmultiTail]

/-- **`emit_value` on a list of scalars at ANY indentation `ind`**: `[]`, the one-line layout, or the multi-line layout with
the items behind `2·(ind+1)` spaces and the closing bracket behind `2·ind` spaces — chosen by `needsMulti` (content only). -/
theorem emitValue_ulist (items : List FScalar) (h : ∀ x ∈ items, ItemEmitOK x) (ind : Nat) :
    emitValue (.list (items.map FScalar.value)) ind
      = some (if needsMulti items then cmultiText (2 * (ind + 1)) (2 * ind) items else inlineText items) := by
  cases items with
  | nil => rfl
  | cons x r =>
    have hne : ((x :: r).map FScalar.value).isEmpty = false := by simp
    rw [emitValue]
    simp only [hne, Bool.false_eq_true, if_false, needsMultiline_items]
    cases hm : needsMulti (x :: r) with
    | true =>
      simp only [if_true, emitMultiParts_items (x :: r) h ind, Option.map_some]
      have hp : ((x :: r).map FScalar.text).isEmpty = false := by simp
      simp only [hp, Bool.false_eq_true, if_false]
      have e : indentStr ind ++ [']'] = spacesL (2 * ind) ++ [']'] := rfl
      have e2 : indentStr (ind + 1) = spacesL (2 * (ind + 1)) := rfl
      rw [e, e2, List.cons_append, joinWith_cons_ne _ _ _ (by simp), joinWith_cmultiTail]
      simp [cmultiText]
    | false =>
      simp only [Bool.false_eq_true, if_false, emitFlatParts_items (x :: r) h ind, Option.map_some]
      have := joinWith_inlineTail x r
      simp only [List.cons_append, inlineText]
      rw [this]

/-- when the emitter spells the value of a line the way the canonical text does (decidable): a scalar as for flat documents
(`FLine.EmitOK`: quoting as `needs_quotes` decides, no bare word under `PATTERN` / `REGEX`); list items by `needs_quotes` only;
an expression (which `needs_quotes` leaves bare whenever it is `Expr.OK`) not under `PATTERN` / `REGEX`. -/
def lineEmitOK (key : Str) : UValue → Prop
  | .scalar s => (FLine.mk key s).EmitOK
  | .list items => ∀ x ∈ items, ItemEmitOK x
  | .expr _ => alwaysQuoteKey key = false

/-- the canonical line (without indentation and line end). -/
def lineCanon (key : Str) (v : UValue) (d : Nat) : Str := key ++ (':' :: ':' :: v.text (v.canonSp d))

/-- an assignment line with any of the three kinds of values, at any depth, inside or outside a block. -/
theorem emitNode_uline (env : Env) (key : Str) (v : UValue) (l c d : Nat) (b : Bool) (hok : v.OK) (h : lineEmitOK key v) :
    emitNode env (.assign key v.value l c [] none) d b = some [indentStr d ++ lineCanon key v d] := by
  cases v with
  | scalar s => exact emitNode_line env ⟨key, s⟩ l c d b h
  | list items =>
    have hv := emitValue_ulist items h d
    simp only [UValue.value, emitNode, emitAssignment, hv, Option.map_some, forceQuote, leadingLines, List.map_nil,
      List.nil_append, lineCanon, UValue.text, UValue.canonSp]
    cases needsMulti items <;> simp
  | expr e =>
    have hq : needsQuotes e.text = false := Expr.needsQuotes_expr e hok
    have ha : alwaysQuoteKey key = false := h
    simp [UValue.value, emitNode, emitAssignment, emitValue, emitStr, hq, forceQuote, ha, leadingLines, lineCanon, UValue.text,
      UValue.canonSp, Expr.Expr.spell_nil]

mutual
def UNode.OK : UNode → Prop
  | .line key v => isIdentifierText key = true ∧ hasReservedPrefix key = false ∧ v.OK
  | .block key cs => isIdentifierText key = true ∧ hasReservedPrefix key = false ∧ unodesOK cs
  | .sect id key cs => id.OK ∧ isIdentifierText key = true ∧ hasReservedPrefix key = false ∧ unodesOK cs
def unodesOK : List UNode → Prop
  | [] => True
  | n :: ns => n.OK ∧ unodesOK ns
end

mutual
/-- when the emitter spells every value the way the canonical text does (`lineEmitOK`). -/
def UNode.EmitOK : UNode → Prop
  | .line key v => lineEmitOK key v
  | .block _ cs => unodesEmitOK cs
  | .sect _ _ cs => unodesEmitOK cs
def unodesEmitOK : List UNode → Prop
  | [] => True
  | n :: ns => n.EmitOK ∧ unodesEmitOK ns
end

mutual
/-- the AST node carries this content, with ANY source positions (no comments, no block target, no annotation). -/
def UNode.Matches : UNode → Node → Prop
  | .line key v, n => ∃ l c, n = .assign key v.value l c [] none
  | .block key cs, n => ∃ children l c, n = .block key children l c [] none ∧ unodesMatch cs children
  | .sect id key cs, n => ∃ children l c, n = .sect id.text key none children l c [] ∧ unodesMatch cs children
def unodesMatch : List UNode → List Node → Prop
  | [], ns => ns = []
  | t :: ts, ns => ∃ n ns', ns = n :: ns' ∧ t.Matches n ∧ unodesMatch ts ns'
end

mutual
/-- what `emit_assignment` / `emit_block` / `emit_section` return for the node at depth `d`: one string per line of the forest
(the string of a line whose value is a multi-line list holds line breaks). -/
def UNode.rows (d : Nat) : UNode → List Str
  | .line key v => [indentStr d ++ lineCanon key v d]
  | .block key cs => (indentStr d ++ (key ++ [':'])) :: unodeRows (d + 1) cs
  | .sect id key cs => (indentStr d ++ sheaderText false id key) :: unodeRows (d + 1) cs
def unodeRows (d : Nat) : List UNode → List Str
  | [] => []
  | n :: ns => n.rows d ++ unodeRows d ns
end

mutual
theorem emitNode_unode (env : Env) : ∀ (t : UNode) (n : Node) (d : Nat) (b : Bool), t.Matches n → t.OK → t.EmitOK →
    emitNode env n d b = some (t.rows d)
  | .line key v, n, d, b, hm, hok, he => by
    simp only [UNode.Matches] at hm
    obtain ⟨l, c, rfl⟩ := hm
    simp only [UNode.OK] at hok
    rw [emitNode_uline env key v l c d b hok.2.2 (by simpa [UNode.EmitOK] using he)]
    rfl
  | .block key cs, n, d, b, hm, hok, he => by
    simp only [UNode.Matches] at hm
    obtain ⟨children, l, c, rfl, hch⟩ := hm
    simp only [UNode.EmitOK] at he
    simp only [UNode.OK] at hok
    have ih := emitChildren_unodes env cs children (d + 1) true hch hok.2.2 he
    simp only [emitNode, ih, Option.map_some, leadingLines, List.map_nil, List.nil_append, List.append_nil, UNode.rows,
      List.cons_append, List.append_assoc]
  | .sect id key cs, n, d, b, hm, hok, he => by
    simp only [UNode.Matches] at hm
    obtain ⟨children, l, c, rfl, hch⟩ := hm
    simp only [UNode.EmitOK] at he
    simp only [UNode.OK] at hok
    have ih := emitChildren_unodes env cs children (d + 1) false hch hok.2.2.2 he
    rw [emitNode_sect_header env id.text key children l c d b hok.2.1, ih]
    simp only [Option.map_some, UNode.rows, sheaderText, markerChar, Bool.false_eq_true, if_false]
theorem emitChildren_unodes (env : Env) : ∀ (ts : List UNode) (ns : List Node) (d : Nat) (b : Bool),
    unodesMatch ts ns → unodesOK ts → unodesEmitOK ts → emitChildren env ns d b = some (unodeRows d ts)
  | [], ns, d, b, hm, _, _ => by
    simp only [unodesMatch] at hm
    subst hm; rfl
  | t :: ts, ns, d, b, hm, hok, he => by
    simp only [unodesMatch] at hm
    obtain ⟨n, ns', rfl, h1, h2⟩ := hm
    simp only [unodesEmitOK] at he
    simp only [unodesOK] at hok
    simp only [emitChildren, emitNode_unode env t n d b h1 hok.1 he.1, emitChildren_unodes env ts ns' d b h2 hok.2 he.2, unodeRows]
end

theorem emitTop_unodes (env : Env) : ∀ (ts : List UNode) (ns : List Node), unodesMatch ts ns → unodesOK ts → unodesEmitOK ts →
    emitTop env ns = some (unodeRows 0 ts)
  | [], ns, hm, _, _ => by
    simp only [unodesMatch] at hm
    subst hm; rfl
  | t :: ts, ns, hm, hok, he => by
    simp only [unodesMatch] at hm
    obtain ⟨n, ns', rfl, h1, h2⟩ := hm
    simp only [unodesEmitOK] at he
    simp only [unodesOK] at hok
    have hn := emitNode_unode env t n 0 false h1 hok.1 he.1
    have ih := emitTop_unodes env ts ns' h2 hok.2 he.2
    cases t with
    | line key v =>
      simp only [UNode.Matches] at h1
      obtain ⟨l, c, rfl⟩ := h1
      simp only [emitTop, hn, ih, unodeRows]
    | block key cs =>
      simp only [UNode.Matches] at h1
      obtain ⟨children, l, c, rfl, _⟩ := h1
      simp only [emitTop, hn, ih, unodeRows]
    | sect id key cs =>
      simp only [UNode.Matches] at h1
      obtain ⟨children, l, c, rfl, _⟩ := h1
      simp only [emitTop, hn, ih, unodeRows]

mutual
/-- the canonical spelling of a forest at depth `d`: what the emitter writes. -/
def UNode.canonT (d : Nat) : UNode → UT
  | .line key v => .line key v (v.canonSp d)
  | .block key cs => .block key (canonTs (d + 1) cs)
  | .sect id key cs => .sect id key (canonTs (d + 1) cs)
def canonTs (d : Nat) : List UNode → List UT
  | [] => []
  | n :: ns => n.canonT d :: canonTs d ns
end

mutual
theorem UNode.canonT_rows : ∀ (n : UNode) (d : Nat), (n.canonT d).text false d = unlines (n.rows d)
  | .line key v, d => by simp [UNode.canonT, UT.text, UNode.rows, lineCanon, unlines]
  | .block key cs, d => by simp [UNode.canonT, UT.text, UNode.rows, unlines, canonTs_rows cs (d + 1)]
  | .sect id key cs, d => by simp [UNode.canonT, UT.text, UNode.rows, unlines, canonTs_rows cs (d + 1)]
theorem canonTs_rows : ∀ (ns : List UNode) (d : Nat), utText false d (canonTs d ns) = unlines (unodeRows d ns)
  | [], d => rfl
  | n :: ns, d => by simp [canonTs, utText, unodeRows, unlines_append, UNode.canonT_rows n d, canonTs_rows ns d]
end

mutual
theorem UNode.canonT_ok : ∀ (n : UNode) (d : Nat), n.OK → (n.canonT d).OK
  | .line key v, d, h => by simpa [UNode.canonT, UT.OK, UNode.OK] using h
  | .block key cs, d, h => by
    simp only [UNode.OK] at h
    simp only [UNode.canonT, UT.OK]
    exact ⟨h.1, h.2.1, canonTs_ok cs (d + 1) h.2.2⟩
  | .sect id key cs, d, h => by
    simp only [UNode.OK] at h
    simp only [UNode.canonT, UT.OK]
    exact ⟨h.1, h.2.1, h.2.2.1, canonTs_ok cs (d + 1) h.2.2.2⟩
theorem canonTs_ok : ∀ (ns : List UNode) (d : Nat), unodesOK ns → utOK (canonTs d ns)
  | [], d, _ => trivial
  | n :: ns, d, h => by
    simp only [unodesOK] at h
    simp only [canonTs, utOK]
    exact ⟨UNode.canonT_ok n d h.1, canonTs_ok ns d h.2⟩
end

/-- **the canonical text** of a unified document: what the emitter writes. -/
def uDocText (name : Str) (nodes : List UNode) : Str := utDocText false name (canonTs 0 nodes)

/-- **The emitter on a unified document** writes exactly the canonical text `uDocText`, whatever positions the nodes carry. -/
theorem emit_udoc_matches (env : Env) (name : Str) (nodes : List UNode) (sections : List Node)
    (hm : unodesMatch nodes sections) (hok : unodesOK nodes) (h : unodesEmitOK nodes) :
    emit env { name := name, sections := sections } = some (uDocText name nodes) := by
  have ht := emitTop_unodes env nodes sections hm hok h
  have hj := joinWith_unlines (unodeRows 0 nodes) "===END===".toList
  unfold emit emitBody
  simp only [emitMetaLines, ht, leadingLines, List.map_nil, List.isEmpty_nil, Bool.true_or, if_true,
    Bool.false_eq_true, if_false, List.nil_append, List.append_nil, bind, Option.bind, pure, Option.map]
  show some (finishText (joinWith ['\n'] (("===".toList ++ name ++ "===".toList) :: (unodeRows 0 nodes ++ ["===END===".toList])))) = _
  have hne : unodeRows 0 nodes ++ ["===END===".toList] ≠ [] := by simp
  obtain ⟨x, xs, hx⟩ := List.exists_cons_of_ne_nil hne
  rw [hx, joinWith, ← hx, hj]
  have hlast : (("===".toList ++ name ++ "===".toList) ++ ['\n'] ++ (unlines (unodeRows 0 nodes) ++ "===END===".toList)).getLast? = some '=' := by
    rw [List.getLast?_append, List.getLast?_append]; rfl
  simp only [finishText, hlast]
  simp [uDocText, utDocText, canonTs_rows]

/-! ### the canonical text through the lexer -/

mutual
/-- an operator expression occurs in the node. -/
def UNode.hasExpr : UNode → Bool
  | .line _ v => v.isExpr
  | .block _ cs => unodesHasExpr cs
  | .sect _ _ cs => unodesHasExpr cs
def unodesHasExpr : List UNode → Bool
  | [] => false
  | n :: ns => n.hasExpr || unodesHasExpr ns
end

mutual
/-- a section occurs in the node. -/
def UNode.hasSect : UNode → Bool
  | .line _ _ => false
  | .block _ cs => unodesHasSect cs
  | .sect _ _ _ => true
def unodesHasSect : List UNode → Bool
  | [] => false
  | n :: ns => n.hasSect || unodesHasSect ns
end

mutual
theorem UNode.hasExpr_canonT : ∀ (n : UNode) (d : Nat), (n.canonT d).hasExpr = n.hasExpr
  | .line key v, d => rfl
  | .block key cs, d => by simp only [UNode.canonT, UT.hasExpr, UNode.hasExpr, utHasExpr_canonTs cs (d + 1)]
  | .sect id key cs, d => by simp only [UNode.canonT, UT.hasExpr, UNode.hasExpr, utHasExpr_canonTs cs (d + 1)]
theorem utHasExpr_canonTs : ∀ (ns : List UNode) (d : Nat), utHasExpr (canonTs d ns) = unodesHasExpr ns
  | [], d => rfl
  | n :: ns, d => by simp only [canonTs, utHasExpr, unodesHasExpr, UNode.hasExpr_canonT n d, utHasExpr_canonTs ns d]
end

mutual
theorem UNode.hasSect_canonT : ∀ (n : UNode) (d : Nat), (n.canonT d).hasSect = n.hasSect
  | .line key v, d => rfl
  | .block key cs, d => by simp only [UNode.canonT, UT.hasSect, UNode.hasSect, utHasSect_canonTs cs (d + 1)]
  | .sect id key cs, d => rfl
theorem utHasSect_canonTs : ∀ (ns : List UNode) (d : Nat), utHasSect (canonTs d ns) = unodesHasSect ns
  | [], d => rfl
  | n :: ns, d => by simp only [canonTs, utHasSect, unodesHasSect, UNode.hasSect_canonT n d, utHasSect_canonTs ns d]
end

/-- the tokens / the receipts of the canonical text. -/
def uDocToks (name : Str) (nodes : List UNode) : List Token := utDocToks false name (canonTs 0 nodes)
def uDocReps (nodes : List UNode) : List Repair := utReps false 0 2 (canonTs 0 nodes)

/-- **The lexer on the canonical text of a unified document**: exactly `uDocToks` and `uDocReps`, in both lexer modes. -/
theorem tokenize_udoc (env : Env) (lenient : Bool) (name : Str) (nodes : List UNode)
    (he : unodesHasExpr nodes = true → OpEnv env) (hsec : unodesHasSect nodes = true → env.isDigit '§' = false)
    (hn : isEnvName name = true) (hne : name ≠ "END".toList) (hok : unodesOK nodes)
    (hnfc : ∀ l ∈ splitLines (uDocText name nodes), env.nfc l = l) :
    tokenize env (uDocText name nodes) lenient = .ok (uDocToks name nodes, uDocReps nodes) :=
  tokenize_ut env lenient false name (canonTs 0 nodes) (by rw [utHasExpr_canonTs]; exact he)
    (by rw [utHasSect_canonTs]; exact fun _ => hsec) hn hne (canonTs_ok nodes 0 hok) hnfc

end Octave.U
