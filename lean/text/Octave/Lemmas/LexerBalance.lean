import Octave.Lemmas.LexerClosed
import Octave.Lemmas.ParserWp
/-!
What the parser's termination argument needs from the lexer: every token list that `tokenize` returns
* ends with an EOF token (`tokenize_eofEnd`), and
* contains as many `[` as `]` tokens (`tokenize_balanced`; the lexer keeps a bracket stack and refuses with
  `E_UNBALANCED_BRACKET` otherwise), hence its weighted size `cA` is at most twice its length (`tokenize_cA_le`).
-/
namespace Octave
open Lexer Scan Parser

def nS : List Token → Nat
  | [] => 0
  | t :: ts => (if t.type = .listStart then 1 else 0) + nS ts

def nE : List Token → Nat
  | [] => 0
  | t :: ts => (if t.type = .listEnd then 1 else 0) + nE ts

theorem nS_append (a b : List Token) : nS (a ++ b) = nS a + nS b := by
  induction a with
  | nil => simp [nS]
  | cons t ts ih => simp only [List.cons_append, nS, ih]; omega

theorem nE_append (a b : List Token) : nE (a ++ b) = nE a + nE b := by
  induction a with
  | nil => simp [nE]
  | cons t ts ih => simp only [List.cons_append, nE, ih]; omega

theorem cA_append (a b : List Token) : cA (a ++ b) = cA a + cA b := by
  induction a with
  | nil => simp [cA]
  | cons t ts ih => simp only [List.cons_append, cA, ih]; omega

theorem nS_reverse (a : List Token) : nS a.reverse = nS a := by
  induction a with
  | nil => rfl
  | cons t ts ih => simp only [List.reverse_cons, nS_append, ih, nS]; omega

theorem nE_reverse (a : List Token) : nE a.reverse = nE a := by
  induction a with
  | nil => rfl
  | cons t ts ih => simp only [List.reverse_cons, nE_append, ih, nE]; omega

theorem cA_reverse (a : List Token) : cA a.reverse = cA a := by
  induction a with
  | nil => rfl
  | cons t ts ih => simp only [List.reverse_cons, cA_append, ih, cA]; omega

/-- per token: `[` costs 4 = 2 + 2, `]` costs 0 + 2 = 2, anything else at most 2. -/
theorem cA_bound : ∀ l : List Token, cA l + 2 * nE l ≤ 2 * l.length + 2 * nS l
  | [] => by simp [cA, nE, nS]
  | t :: ts => by
    have ih := cA_bound ts
    simp only [cA, nE, nS, List.length_cons, wtA]
    split
    · rename_i h; simp [h]; omega
    · split
      · omega
      · split <;> omega

theorem cA_le_of_balanced {l : List Token} (h : nS l = nE l) : cA l ≤ 2 * l.length := by
  have := cA_bound l; omega

/-- the bracket stack of the lexer counts the unmatched `[` tokens. -/
def BalInv (st : LState) : Prop := nS st.toks = nE st.toks + st.stack.length

theorem step_bal (env : Env) (lenient : Bool) (st st' : LState) (s s' : Str)
    (hb : BalInv st) (h : step env lenient st s = .ok (st', s')) : BalInv st' := by
  unfold BalInv at *
  cases s with
  | nil => simp [step] at h; obtain ⟨rfl, _⟩ := h; exact hb
  | cons c r =>
    unfold step at h
    simp only at h
    split at h
    · -- fence span: FENCE_OPEN, LITERAL_CONTENT, FENCE_CLOSE (, NEWLINE)
      split at h
      · simp only [Except.ok.injEq, Prod.mk.injEq] at h; obtain ⟨rfl, _⟩ := h; exact hb
      · split at h <;>
        · simp only [Except.ok.injEq, Prod.mk.injEq] at h
          obtain ⟨rfl, _⟩ := h
          simp [nS, nE, hb]
    · split at h
      · split at h
        · split at h
          · split at h <;>
            · simp only [Except.ok.injEq, Prod.mk.injEq] at h
              obtain ⟨rfl, _⟩ := h
              simp [nS, nE, hb]
          · simp only [Except.ok.injEq, Prod.mk.injEq] at h
            obtain ⟨rfl, _⟩ := h
            exact hb
        · simp only [Except.ok.injEq, Prod.mk.injEq] at h
          obtain ⟨rfl, _⟩ := h
          exact hb
      · simp only [bind, Except.bind] at h
        split at h
        · simp at h
        · rename_i m? hm
          cases m? with
          | some m =>
            simp only at h
            split at h
            · simp at h
            · rename_i stack hstack
              simp only [Except.ok.injEq, Prod.mk.injEq] at h
              obtain ⟨rfl, _⟩ := h
              simp only [nS, nE]
              split at hstack
              · rename_i hty
                simp only [pure, Except.pure, Except.ok.injEq] at hstack
                subst hstack
                simp [hty, hb]; omega
              · rename_i hty
                split at hstack
                · simp [throw, throwThe, MonadExceptOf.throw] at hstack
                · rename_i hd rest hst
                  simp only [pure, Except.pure, Except.ok.injEq] at hstack
                  subst hstack
                  rw [hst] at hb
                  simp [hty, hb]; omega
              · rename_i hns hne
                simp only [pure, Except.pure, Except.ok.injEq] at hstack
                subst hstack
                have h1 : ¬ m.type = TT.listStart := fun hc => hns hc
                have h2 : ¬ m.type = TT.listEnd := fun hc => hne hc
                simp [h1, h2, hb]
          | none =>
            simp only at h
            split at h
            · simp at h
            · split at h
              · simp only [Except.ok.injEq, Prod.mk.injEq] at h
                obtain ⟨rfl, _⟩ := h
                simp [nS, nE, hb]
              · split at h
                · simp only [Except.ok.injEq, Prod.mk.injEq] at h
                  obtain ⟨rfl, _⟩ := h
                  simp [nS, nE, hb]
                · split at h
                  · rename_i res heq
                    simp only [Except.ok.injEq] at h
                    subst h
                    -- the `%` merge replaces the last NUMBER / IDENTIFIER token by an IDENTIFIER token
                    split at heq
                    · split at heq
                      · rename_i last before hto
                        split at heq
                        · rename_i hcond
                          split at heq
                          · split at heq
                            · simp only [Option.some.injEq, Prod.mk.injEq] at heq
                              obtain ⟨rfl, _⟩ := heq
                              rw [hto] at hb
                              have hl : ¬ last.type = TT.listStart ∧ ¬ last.type = TT.listEnd := by
                                simp only [Bool.and_eq_true, Bool.or_eq_true, beq_iff_eq] at hcond
                                rcases hcond.1 with h | h <;> simp [h]
                              simp only [nS, nE] at hb ⊢
                              simp [hl.1, hl.2] at hb
                              simp [hb]
                            · simp at heq
                          · simp at heq
                        · simp at heq
                      · simp at heq
                    · simp at heq
                  · simp at h

theorem loop_bal (env : Env) (lenient : Bool) : ∀ (fuel : Nat) (st st' : LState) (s : Str),
    BalInv st → loop env lenient fuel st s = .ok st' → BalInv st' := by
  intro fuel
  induction fuel with
  | zero =>
    intro st st' s hb h
    cases s with
    | nil => simp [loop] at h; subst h; exact hb
    | cons c r => simp [loop] at h
  | succ n ih =>
    intro st st' s hb h
    cases s with
    | nil => simp [loop] at h; subst h; exact hb
    | cons c r =>
      unfold loop at h
      simp only [bind, Except.bind] at h
      cases hst : step env lenient st (c :: r) with
      | error e => simp [hst] at h
      | ok p =>
        obtain ⟨st1, s1⟩ := p
        simp only [hst] at h
        exact ih st1 st' s1 (step_bal env lenient st st1 (c :: r) s1 hb hst) h

/-- shape of a successful `tokenize`: the reversed accumulator of a loop state with an empty bracket stack, EOF last. -/
theorem tokenize_shape (env : Env) (content : Str) (lenient : Bool) (toks : List Token) (reps : List Repair)
    (h : tokenize env content lenient = .ok (toks, reps)) :
    ∃ (st : LState) (eof : Token), BalInv st ∧ st.stack = [] ∧ eof.type = .eof ∧ toks = (eof :: st.toks).reverse := by
  unfold tokenize at h
  simp only [bind, Except.bind] at h
  cases hn : normalize env content with
  | error e => simp [hn] at h
  | ok p =>
    obtain ⟨norm, spans⟩ := p
    simp only [hn] at h
    cases ht : tabCheck spans norm 0 1 1 with
    | error e => simp [ht] at h
    | ok u =>
      simp only [ht] at h
      cases hl : loop env lenient (norm.length + 1) { spans := spans } norm with
      | error e => simp [hl] at h
      | ok st =>
        simp only [hl] at h
        have hb : BalInv st := loop_bal env lenient _ _ st norm (by simp [BalInv, nS, nE]) hl
        split at h
        · simp at h
        · rename_i hlast
          simp only [Except.ok.injEq, Prod.mk.injEq] at h
          obtain ⟨rfl, _⟩ := h
          exact ⟨st, _, hb, List.getLast?_eq_none_iff.mp hlast, rfl, rfl⟩

/-- **every token list of the lexer ends with EOF.** -/
theorem tokenize_eofEnd (env : Env) (content : Str) (lenient : Bool) (toks : List Token) (reps : List Repair)
    (h : tokenize env content lenient = .ok (toks, reps)) : EofEnd toks := by
  obtain ⟨st, eof, _, _, he, rfl⟩ := tokenize_shape env content lenient toks reps h
  exact ⟨eof, by simp, he⟩

/-- **every token list of the lexer has as many `[` as `]`.** -/
theorem tokenize_balanced (env : Env) (content : Str) (lenient : Bool) (toks : List Token) (reps : List Repair)
    (h : tokenize env content lenient = .ok (toks, reps)) : nS toks = nE toks := by
  obtain ⟨st, eof, hb, hs, he, rfl⟩ := tokenize_shape env content lenient toks reps h
  unfold BalInv at hb
  rw [hs] at hb
  rw [nS_reverse, nE_reverse]
  simp [nS, nE, he, hb]

theorem tokenize_cA_le (env : Env) (content : Str) (lenient : Bool) (toks : List Token) (reps : List Repair)
    (h : tokenize env content lenient = .ok (toks, reps)) : cA toks ≤ 2 * toks.length :=
  cA_le_of_balanced (tokenize_balanced env content lenient toks reps h)

end Octave
