import Octave.Lemmas.MwFloatParse
import Octave.Lemmas.MwNumBridge
/-!
MULTI-WORD VALUES HEADED BY ANY NUMBER LEXEME (`1.50`, `1e3`, `007`, `-0.0`, `2.5E+10`) as values of a flat document —
emitter half and glue (port of `MwBoolBridge` with the wider head type `MfHead`: one more constructor `.num s sc`).

* the canonical line of a multi-word line with any head: `KEY::"h w1 … wn"` (`MfLine.canon`, an `FLine` with a QUOTED
  string): `K::1.50 mice` → `K::"1.50 mice"` (RAW lexeme), `K::true mice` → `K::"true mice"`;
* `needsQuotes_fw`: the emitter quotes EVERY joined string of the class (it contains a space; the `+` of an exponent, which
  is not an identifier character, is allowed for);
* the glue between the lexer half (`MwFloatLex`) and the parser half (`MwFloatParse`);
* the receipts owed (`mwfReceipts`: one `multi_word_coalesce` record per multi-word line, with the context of its head) and
  `mwfWarns_filter`.
-/
namespace Octave.MWF
open Octave Lexer Emitter Parser FlatParse Spell Expr MW MWN MWB

/-- every character of a non-string head's text is an identifier-body character (digits, `.`, `-`, `e`, `E` included) or the
`+` of an exponent. -/
theorem mwf_head_body (h : MfHead) (hok : h.OK) (hs : h.isStr = false) : ∀ d ∈ h.part, isIdentBodyA d = true ∨ d = '+' := by
  cases h with
  | num s sc =>
    obtain ⟨p, hp, rfl⟩ := C13.pyNumberFull_shape s hok.1
    intro d hd
    rcases p.mem hp d hd with rfl | rfl | rfl | rfl | rfl | hdig
    · left; decide
    · left; decide
    · left; decide
    · left; decide
    · right; rfl
    · left; simp only [isIdentBodyA, isAlnumA, hdig, Bool.or_true, Bool.true_or]
  | word w => exact fun d hd => Or.inl (identText_body w hok.1 d hd)
  | int i =>
    intro d hd
    left
    rcases intStr_mem i d hd with rfl | hdig
    · decide
    · simp only [isIdentBodyA, isAlnumA, hdig, Bool.or_true, Bool.true_or]
  | str sv => simp [MfHead.isStr] at hs
  | bool b => cases b <;> exact (fun d hd => Or.inl ((by decide : ∀ d ∈ _, isIdentBodyA d = true) d hd))
  | null => exact (fun d hd => Or.inl ((by decide : ∀ d ∈ "null".toList, isIdentBodyA d = true) d hd))
  | ver d1 d2 d3 =>
    intro d hd
    left
    rcases verText_mem d1 d2 d3 hok.1 hok.2.1 hok.2.2 d hd with rfl | hdig
    · decide
    · simp only [isIdentBodyA, isAlnumA, hdig, Bool.or_true, Bool.true_or]

theorem mwf_head_pwf (h : MfHead) (hok : h.OK) : h.PWF := by
  cases h with
  | word w => exact hasAnnotation_word w hok.1
  | int i => trivial
  | str sv => trivial
  | bool b => trivial
  | null => trivial
  | ver d1 d2 d3 => trivial
  | num s sc => exact hok.2

theorem mwf_head_part_ne_nil (h : MfHead) (hok : h.OK) : h.part ≠ [] := by
  cases h with
  | word w => exact wordOK_ne_nil hok
  | int i => exact intStr_ne_nil i
  | str sv => simp [MfHead.part]
  | bool b => cases b <;> simp [MfHead.part]
  | null => simp [MfHead.part]
  | ver d1 d2 d3 => exact verText_ne_nil d1 d2 d3
  | num s sc =>
    obtain ⟨p, hp, rfl⟩ := C13.pyNumberFull_shape s hok.1
    exact p.ne_nil hp

/-- **the emitter quotes every joined multi-word string of the class** (any head). -/
theorem needsQuotes_fw (m : MfWords) (h : m.OK) : needsQuotes m.result = true := by
  obtain ⟨hh, ht, hne⟩ := h
  obtain ⟨q, r, hqr⟩ := List.exists_cons_of_ne_nil hne
  cases hs : m.head.isStr with
  | true =>
    obtain ⟨sv, hsv⟩ : ∃ sv, m.head = .str sv := by
      cases hm : m.head with
      | word w => rw [hm] at hs; simp [MfHead.isStr] at hs
      | int i => rw [hm] at hs; simp [MfHead.isStr] at hs
      | str sv => exact ⟨sv, rfl⟩
      | bool b => rw [hm] at hs; simp [MfHead.isStr] at hs
      | null => rw [hm] at hs; simp [MfHead.isStr] at hs
      | ver d1 d2 d3 => rw [hm] at hs; simp [MfHead.isStr] at hs
      | num s sc =>
        rw [hm] at hh
        cases sc <;> first | (simp [MfHead.OK, mwfRaw] at hh; done) | (rw [hm] at hs; simp [MfHead.isStr] at hs)
    have hres : m.result = '"' :: (sv ++ '"' :: ' ' :: spaceJoin (q.2 :: r.map Prod.snd)) := by
      simp [MfWords.result, MfWords.words, hsv, MfHead.part, hqr, spaceJoin, joinWith]
    rw [hres]; exact needsQuotes_head_quote _
  | false =>
    have hch : ∀ d ∈ m.result, d = ' ' ∨ isIdentBodyA d = true ∨ d = '+' := by
      intro d hd
      rcases mem_spaceJoin m.words d hd with h1 | ⟨w, hw, hdw⟩
      · exact Or.inl h1
      · simp only [MfWords.words, List.mem_cons, List.mem_map] at hw
        rcases hw with rfl | ⟨p, hp, rfl⟩
        · exact Or.inr (mwf_head_body m.head hh hs d hdw)
        · exact Or.inr (Or.inl (identText_body _ (ht p hp).1 d hdw))
    obtain ⟨c, t, hct⟩ := List.exists_cons_of_ne_nil (mwf_head_part_ne_nil m.head hh)
    have hres : m.result = c :: (t ++ ' ' :: spaceJoin (q.2 :: r.map Prod.snd)) := by
      simp [MfWords.result, MfWords.words, hct, hqr, spaceJoin, joinWith]
    have hc : isIdentBodyA c = true ∨ c = '+' := mwf_head_body m.head hh hs c (by rw [hct]; simp)
    apply needsQuotes_plain
    · rw [hres]; simp only [List.head?_cons, ne_eq, Option.some.injEq]
      intro e; subst e; rcases hc with hc | hc <;> revert hc <;> decide
    · intro d hd
      rcases hch d hd with rfl | hb | rfl
      · decide
      · rw [beq_eq_false_iff_ne]; intro e; subst e; revert hb; decide
      · decide
    · intro d hd
      rcases hch d hd with rfl | hb | rfl
      · decide
      · exact identBody_not_unicodeOp d hb
      · decide
    · rw [hres]
      have : (t ++ ' ' :: spaceJoin (q.2 :: r.map Prod.snd)).all isIdentBodyA = false := by
        rw [List.all_eq_false]
        exact ⟨' ', by simp, by decide⟩
      simp only [isIdentifierText, this, Bool.and_false, Bool.false_and]

/-! ### the canonical line, the document -/

/-- the canonical form of a value: a multi-word value becomes the QUOTED string of its words joined by one space. -/
def MfVal.canon : MfVal → FScalar
  | .sc v => v
  | .nw m => .qstr m.result

/-- the canonical line `KEY::"w0 w1 … wn"` (a scalar line is its own canonical form). -/
def MfLine.canon (ln : MfLine) : FLine := ⟨ln.key, ln.v.canon⟩

/-- the lines of the canonical flat document. -/
def mwfCanonLines (sl : List MfLine) : List FLine := sl.map MfLine.canon

/-- when the emitter spells the line the way its canonical text does (decidable): as `FLine.EmitOK` for a scalar line;
ALWAYS for a multi-word line (`needsQuotes_fw`). -/
def MfLine.EmitOK (ln : MfLine) : Prop :=
  match ln.v with
  | .sc v => FLine.EmitOK ⟨ln.key, v⟩
  | .nw _ => True

theorem mwfcanon_emitOK (ln : MfLine) (hok : ln.OK) (h : ln.EmitOK) : ln.canon.EmitOK := by
  obtain ⟨key, v⟩ := ln
  cases v with
  | sc v => exact h
  | nw m => exact needsQuotes_fw m hok.2.2

/-- first key is not `META`. -/
def mwfFirstNotMeta (sl : List MfLine) : Bool :=
  match sl with | ln :: _ => !(ln.key == "META".toList) | [] => true

/-! ### glue between the lexer half (concrete positions) and the parser half (arbitrary positions) -/

/-- the line written at text line `l` as the parser half describes it. -/
def toMfQLine (x : MfLine) (l : Nat) : MfQLine :=
  match x.v with
  | .sc v => .sc ((FLine.mk x.key v).toP l)
  | .nw m => .nw { key := x.key, l := l, c1 := 1, c2 := 1 + x.key.length, hd := m.head, hl := l, hc := 1 + x.key.length + 2,
                   ws := m.tail.map Prod.snd,
                   ts := (mwTailToksRev l (1 + x.key.length + 2 + m.head.text.length) m.tail).reverse,
                   nlL := l, nlC := 1 + x.key.length + 2 + m.spell.length }

def toMfQLines (l : Nat) : List MfLine → List MfQLine
  | [] => []
  | x :: r => toMfQLine x l :: toMfQLines (l + 1) r

theorem toMfQLines_length (sl : List MfLine) : ∀ l, (toMfQLines l sl).length = sl.length := by
  induction sl with
  | nil => intro l; rfl
  | cons x r ih => intro l; simp [toMfQLines, ih]

theorem toMfQLine_wf (x : MfLine) (l : Nat) (h : x.OK) : (toMfQLine x l).WF := by
  obtain ⟨key, v⟩ := x
  cases v with
  | sc v => trivial
  | nw m =>
    obtain ⟨hh, ht, hne⟩ := h.2.2
    refine ⟨mwTailToks_bridge l m.tail _, ?_, mwf_head_pwf m.head hh, ?_⟩
    · simpa using hne
    · intro w hw
      obtain ⟨p, hp, rfl⟩ := List.mem_map.mp hw
      exact hasAnnotation_word _ (ht p hp).1

theorem toMfQLines_wf (sl : List MfLine) (hok : ∀ x ∈ sl, x.OK) : ∀ l, ∀ ln ∈ toMfQLines l sl, ln.WF := by
  induction sl with
  | nil => intro l ln h; simp [toMfQLines] at h
  | cons x r ih =>
    intro l ln h
    simp only [toMfQLines, List.mem_cons] at h
    rcases h with rfl | h
    · exact toMfQLine_wf x l (hok x (by simp))
    · exact ih (fun y hy => hok y (by simp [hy])) (l + 1) ln h

theorem mwfline_toks_bridge (x : MfLine) (l : Nat) : (x.toksRev l 1).reverse = (toMfQLine x l).toks := by
  obtain ⟨key, v⟩ := x
  cases v with
  | sc v => exact line_toks_bridge ⟨key, v⟩ l
  | nw m =>
    simp only [MfLine.toksRev, MfVal.toksRev, MfVal.spell, toMfQLine, MfQLine.toks, MfTLine.toks, MfTLine.nlTok, List.reverse_cons,
      List.reverse_append, List.reverse_nil, List.nil_append, List.cons_append, List.append_assoc]

theorem mwflines_toks_bridge (sl : List MfLine) : ∀ l, (mwfLinesToksRev l sl).reverse = (toMfQLines l sl).flatMap MfQLine.toks := by
  induction sl with
  | nil => intro l; rfl
  | cons x r ih =>
    intro l
    simp only [mwfLinesToksRev, toMfQLines, List.reverse_append, List.flatMap_cons, mwfline_toks_bridge, ih]

/-- the two descriptions of the token list agree. -/
theorem mwfdocToks_bridge (name : Str) (sl : List MfLine) :
    mwfdocToks name sl = mwfToks (flatFrame name sl.length) name (toMfQLines 2 sl) := by
  simp only [mwfdocToks, mwfdocToksRev, mwfToks, List.reverse_cons, List.reverse_append, mwflines_toks_bridge]
  simp [flatFrame, Frame.envTok, Frame.nl0Tok, Frame.endTok, Frame.nl1Tok, Frame.eofTok, tEof, tNewline, tEnvEnd, tEnvStart]

/-- the node read from the line IS the node of its canonical line (same key, same value, same position). -/
theorem mwf_qnode_bridge (x : MfLine) (l : Nat) : (toMfQLine x l).node = x.canon.node l 1 := by
  obtain ⟨key, v⟩ := x
  cases v with
  | sc v => exact node_bridge ⟨key, v⟩ l
  | nw m => rfl

theorem mwf_qnodes_bridge (sl : List MfLine) : ∀ (i : Nat),
    (toMfQLines (i + 2) sl).map MfQLine.node = flatNodes (fun i => (i + 2, 1)) i (mwfCanonLines sl) := by
  induction sl with
  | nil => intro i; rfl
  | cons x r ih =>
    intro i
    simp only [toMfQLines, List.map_cons, mwfCanonLines, flatNodes, mwf_qnode_bridge]
    rw [show i + 2 + 1 = (i + 1) + 2 by omega, ih (i + 1)]
    rfl

theorem mwf_qkey_bridge (x : MfLine) (l : Nat) : (toMfQLine x l).key = x.key := by
  obtain ⟨key, v⟩ := x
  cases v <;> rfl

theorem mwf_ql_bridge (x : MfLine) (l : Nat) : (toMfQLine x l).l = l := by
  obtain ⟨key, v⟩ := x
  cases v <;> rfl

theorem mwfMetaFirst_bridge (sl : List MfLine) (l : Nat) (h : mwfFirstNotMeta sl = true) :
    mwfMetaFirst (toMfQLines l sl) = false := by
  cases sl with
  | nil => rfl
  | cons x r =>
    simp only [toMfQLines, mwfMetaFirst, mwf_qkey_bridge]
    simpa [mwfFirstNotMeta] using h

theorem stripFrontmatter_mwfdoc (env : Env) (name : Str) (sl : List MfLine) :
    Parser.stripFrontmatter env (mwfdocText name sl) = (mwfdocText name sl, none) := by
  unfold Parser.stripFrontmatter
  have : startsWith "---".toList (mwfdocText name sl) = false := by
    simp [mwfdocText, startsWith, List.isPrefixOf]
  rw [this]; rfl

/-! ### the receipts owed -/

/-- the receipt owed to the line written at text line `l`: for a multi-word line ONE `multi_word_coalesce` record —
the parts as written (head lexeme, words), the string they became, the context (`number_identifier` for a NUMBER head,
none for a word head), the line, and the column of the head (right after `KEY::`); a scalar line: none. -/
def mwfLineReceipt (l : Nat) (x : MfLine) : List Warning :=
  match x.v with
  | .nw m => [.multiWord m.words m.result m.head.ctx l (1 + x.key.length + 2)]
  | .sc _ => []

/-- the receipts owed to the document, in reading order (first body line = text line `l`). -/
def mwfReceipts (l : Nat) : List MfLine → List Warning
  | [] => []
  | x :: r => mwfLineReceipt l x ++ mwfReceipts (l + 1) r

/-- number of multi-word lines. -/
def mwfCount : List MfLine → Nat
  | [] => 0
  | x :: r => (match x.v with | .nw _ => 1 | .sc _ => 0) + mwfCount r

/-- exactly one receipt per multi-word line. -/
theorem mwfReceipts_length (sl : List MfLine) : ∀ l, (mwfReceipts l sl).length = mwfCount sl := by
  induction sl with
  | nil => intro l; rfl
  | cons x r ih =>
    intro l
    obtain ⟨key, v⟩ := x
    cases v <;> simp [mwfReceipts, mwfLineReceipt, mwfCount, ih] <;> omega

theorem mwf_qline_warns_filter (x : MfLine) (l : Nat) : (toMfQLine x l).warns.filter isMultiWord = mwfLineReceipt l x := by
  obtain ⟨key, v⟩ := x
  cases v with
  | sc v => exact line_warns_filter _
  | nw m =>
    have hf : ∀ (b : Bool) (val : Str), (if b = true then [] else autoquote key val l 1).filter isMultiWord = [] := by
      intro b val; cases b
      · exact autoquote_filter key val l 1
      · rfl
    simp only [toMfQLine, MfQLine.warns, MfTLine.warnsRev, List.reverse_append, List.reverse_cons, List.reverse_nil, List.nil_append,
      List.filter_append, List.filter_reverse, hf, List.append_nil]
    rfl

/-- **the `multi_word_coalesce` records among the parser warnings** are, in reading order, exactly `mwfReceipts` — whatever
other warnings (duplicate keys, `PATTERN` auto-quote) the lines raise. -/
theorem mwfWarns_filter (sl : List MfLine) : ∀ (l : Nat) (kp : KeyPos),
    (mwfWarns kp (toMfQLines l sl)).filter isMultiWord = mwfReceipts l sl := by
  induction sl with
  | nil => intro l kp; rfl
  | cons x r ih =>
    intro l kp
    simp only [toMfQLines, mwfWarns, List.filter_append, mwf_qline_warns_filter, trackPure_filter, List.append_nil, ih, mwfReceipts]

end Octave.MWF
