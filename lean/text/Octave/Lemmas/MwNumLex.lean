import Octave.Lemmas.MultiWordLex
/-!
NUMBER-HEADED and STRING-HEADED MULTI-WORD VALUES (`K::3 blind mice`, `K::"a b" c d`) as values of a flat document —
lexer half.

Extends `MultiWordLex`: the head of a multi-word value is an identifier-shaped word (`NHead.word`, the class of
`MultiWordLex`), an INTEGER lexeme (`NHead.int i`, written `intStr i`: optional `-`, decimal digits without leading
zero) or a QUOTED STRING (`NHead.str s`, ANY content `s`, written `quoted s` = `"` escaped content `"`).  It is followed
by `n ≥ 1` identifier-shaped words, each preceded by `gap + 1` spaces.

* `mwn_run_words`   the value after `::`: ONE token for the head (IDENTIFIER, or NUMBER with its raw lexeme) and one
                    IDENTIFIER token per further word (reuses `MW.mw_run_tail`, `step_int`);
* `mwn_run_line`, `mwn_run_lines`, `mwn_run_doc`, `tokenize_mwndoc`   the whole document, both lexer modes.
-/
namespace Octave.MWN
open Octave Lexer Scan Emitter Spell Expr MW

/-- the head of a multi-word value: an identifier-shaped word or an integer lexeme. -/
inductive NHead where
  | word (w : Str)
  | int (i : Int)
  | str (s : Str)
  deriving Repr, DecidableEq

/-- the head as written. -/
def NHead.text : NHead → Str
  | .word w => w
  | .int i => intStr i
  | .str s => quoted s

/-- the string `_token_to_str` gives for the head's token: the word, the RAW number lexeme, or `"` + the string's
(unescaped) CONTENT + `"`. -/
def NHead.part : NHead → Str
  | .word w => w
  | .int i => intStr i
  | .str s => '"' :: s ++ ['"']

/-- the head's token. -/
def NHead.tok (h : NHead) (l c : Nat) : Token :=
  match h with
  | .word w => tIdent w l c
  | .int i => tInt i l c
  | .str s => tString s l c

/-- lexer notes of the head (identifier notes only). -/
def NHead.reps (h : NHead) (l c : Nat) : List Repair :=
  match h with
  | .word w => identifierRepairs w l c
  | .int _ => []
  | .str _ => []

/-- a word: `wordOK`; an integer: within Python's digit limit (4300; beyond it the lexer raises E005). -/
def NHead.OK : NHead → Prop
  | .word w => wordOK w
  | .int i => (natStr i.natAbs).length ≤ 4300
  | .str _ => True

instance (h : NHead) : Decidable h.OK := by cases h <;> (unfold NHead.OK; infer_instance)

/-- the `context` field of the receipt: empty for a word head, `number_identifier` for a NUMBER head,
`string_multiword` for a STRING head. -/
def NHead.ctx : NHead → Str
  | .word _ => []
  | .int _ => "number_identifier".toList
  | .str _ => "string_multiword".toList

/-- a multi-word value with either kind of head. -/
structure NWords where
  head : NHead
  tail : List (Nat × Str)
  deriving Repr, DecidableEq

def NWords.spell (m : NWords) : Str := m.head.text ++ mwTailSpell m.tail
/-- the parts as the reader sees them. -/
def NWords.words (m : NWords) : List Str := m.head.part :: m.tail.map Prod.snd
/-- what the reader makes of it: the head's lexeme and the words joined by ONE space each. -/
def NWords.result (m : NWords) : Str := Parser.spaceJoin m.words
def NWords.OK (m : NWords) : Prop := m.head.OK ∧ (∀ p ∈ m.tail, wordOK p.2) ∧ m.tail ≠ []

instance (m : NWords) : Decidable m.OK := by unfold NWords.OK; infer_instance

inductive NVal where
  | sc (v : FScalar)
  | nw (m : NWords)
  deriving Repr, DecidableEq

structure NWLine where
  key : Str
  v : NVal
  deriving Repr, DecidableEq

def NVal.OK : NVal → Prop
  | .sc v => v.OK
  | .nw m => m.OK

def NWLine.OK (ln : NWLine) : Prop := isIdentifierText ln.key = true ∧ hasReservedPrefix ln.key = false ∧ ln.v.OK

def NVal.spell : NVal → Str
  | .sc v => v.text
  | .nw m => m.spell

def NWLine.spell (ln : NWLine) : Str := ln.key ++ (':' :: ':' :: ln.v.spell)

def NVal.toksRev (l c : Nat) : NVal → List Token
  | .sc v => [v.tok l c]
  | .nw m => mwTailToksRev l (c + m.head.text.length) m.tail ++ [m.head.tok l c]

def NVal.repsRev (l c : Nat) : NVal → List Repair
  | .sc v => (v.reps l c).reverse
  | .nw m => mwTailRepsRev l (c + m.head.text.length) m.tail ++ (m.head.reps l c).reverse

def NWLine.toksRev (ln : NWLine) (l c : Nat) : List Token :=
  tNewline l (c + ln.key.length + 2 + ln.v.spell.length) ::
    (ln.v.toksRev l (c + ln.key.length + 2) ++ [tAssign l (c + ln.key.length), tIdent ln.key l c])

def NWLine.repsRev (ln : NWLine) (l c : Nat) : List Repair :=
  ln.v.repsRev l (c + ln.key.length + 2) ++ (identifierRepairs ln.key l c).reverse

theorem mwn_numTerm_tail (env : Env) (tail : List (Nat × Str)) (rest : Str) :
    NumTerm env (mwTailSpell tail ++ '\n' :: rest) := by
  cases tail with
  | nil => exact (floatTerm_nl env rest).num
  | cons q r =>
    obtain ⟨g, w⟩ := q
    simp only [mwTailSpell, spaces_succ]
    exact (floatTerm_space env _).num

theorem mwn_head_text_ne_nil (h : NHead) (hok : h.OK) : h.text ≠ [] := by
  cases h with
  | word w => exact wordOK_ne_nil hok
  | int i => exact intStr_ne_nil i
  | str s => simp [NHead.text, quoted]

theorem mwn_tail_head_ne_quote (tail : List (Nat × Str)) (rest : Str) :
    (mwTailSpell tail ++ '\n' :: rest).head? ≠ some '"' := by
  cases tail with
  | nil => simp [mwTailSpell]
  | cons q r =>
    obtain ⟨g, w⟩ := q
    simp [mwTailSpell, spaces_succ]

/-- the head: one step, one token. -/
theorem mwn_step_head (env : Env) (lenient : Bool) (st : LState) (h : NHead) (tail : List (Nat × Str)) (rest : Str)
    (hr : Ready st) (hok : h.OK) :
    ∃ st' p, step env lenient st (h.text ++ (mwTailSpell tail ++ '\n' :: rest)) = .ok (st', mwTailSpell tail ++ '\n' :: rest) ∧
      Adv st st' [h.tok st.line st.col] (h.reps st.line st.col).reverse 0 (st.col + h.text.length) p := by
  cases h with
  | word w =>
    obtain ⟨s1, e1, a1⟩ := step_ident env lenient st w _ hr hok.1 hok.2 (mwTermOK_tail env tail rest)
    exact ⟨s1, _, e1, a1⟩
  | int i =>
    obtain ⟨s1, e1, a1⟩ := step_int env lenient st i _ hr (mwn_numTerm_tail env tail rest) hok
    exact ⟨s1, _, e1, a1⟩
  | str s =>
    obtain ⟨s1, e1, a1⟩ := step_quoted env lenient st s _ hr (mwn_tail_head_ne_quote tail rest)
    exact ⟨s1, _, e1, a1⟩

/-- **one multi-word value** after `::`, before the line end. -/
theorem mwn_run_words (env : Env) (lenient : Bool) (st : LState) (m : NWords) (rest : Str)
    (hr : Ready st) (hc : 2 ≤ st.col) (hok : m.OK) :
    ∃ n st' p, Run env lenient n st (m.spell ++ '\n' :: rest) st' ('\n' :: rest) ∧
      Adv st st' ((NVal.nw m).toksRev st.line st.col) ((NVal.nw m).repsRev st.line st.col) 0
        (st.col + m.spell.length) p := by
  obtain ⟨hh, ht, hne⟩ := hok
  let R1 := mwTailSpell m.tail ++ '\n' :: rest
  obtain ⟨s1, p1, e1, a1⟩ := mwn_step_head env lenient st m.head m.tail rest hr hh
  have c1 : s1.col = st.col + m.head.text.length := a1.col
  have l1 : s1.line = st.line := by rw [a1.line]; rfl
  obtain ⟨n2, s2, p2, r2, a2⟩ := mw_run_tail env lenient m.tail s1 rest a1.ready (by rw [c1]; omega) ht
  have hne1 : m.head.text ++ R1 ≠ [] := by simp [mwn_head_text_ne_nil m.head hh]
  have run := Run.trans (Run.step1 e1 hne1) r2
  have hshape : m.spell ++ '\n' :: rest = m.head.text ++ R1 := by simp [NWords.spell, R1, List.append_assoc]
  refine ⟨_, s2, p2, by rw [hshape]; exact run, ?_⟩
  refine ⟨a2.ready, ?_, ?_, ?_, ?_, ?_, a2.prev⟩
  · rw [a2.toks, a1.toks, l1, c1]; simp [NVal.toksRev]
  · rw [a2.repairs, a1.repairs, l1, c1]; simp [NVal.repsRev]
  · rw [a2.stack, a1.stack]
  · rw [a2.line, l1]
  · rw [a2.col, c1]; simp [NWords.spell]; omega

/-- **one line** `KEY::value` with its line end. -/
theorem mwn_run_line (env : Env) (lenient : Bool) (st : LState) (ln : NWLine) (rest : Str)
    (hr : Ready st) (hok : ln.OK) :
    ∃ n st', Run env lenient n st (ln.spell ++ '\n' :: rest) st' rest ∧
      Adv st st' (ln.toksRev st.line st.col) (ln.repsRev st.line st.col) 1 1 (some '\n') := by
  obtain ⟨key, v⟩ := ln
  obtain ⟨hk1, hk2, hv⟩ := hok
  cases v with
  | sc v =>
    obtain ⟨s4, r4, a4⟩ := run_line env lenient st ⟨key, v⟩ rest hr ⟨hk1, hk2, hv⟩
    exact ⟨4, s4, r4, a4⟩
  | nw m =>
    let R3 := m.spell ++ '\n' :: rest
    obtain ⟨s1, e1, a1⟩ := step_ident env lenient st key (':' :: ':' :: R3) hr hk1 hk2 (termOK_colon env _)
    obtain ⟨s2, e2, a2⟩ := step_assign env lenient s1 R3 a1.ready
    have l1 : s1.line = st.line := by rw [a1.line]; rfl
    have l2 : s2.line = st.line := by rw [a2.line, l1]; rfl
    have c1 : s1.col = st.col + key.length := a1.col
    have c2 : s2.col = st.col + key.length + 2 := by rw [a2.col, c1]
    obtain ⟨n3, s3, p3, r3, a3⟩ := mwn_run_words env lenient s2 m rest a2.ready (by rw [c2]; omega) hv
    obtain ⟨s4, e4, a4⟩ := step_newline env lenient s3 rest a3.ready
    have l3 : s3.line = st.line := by rw [a3.line, l2]; rfl
    have c3 : s3.col = st.col + key.length + 2 + m.spell.length := by rw [a3.col, c2]
    have hne : key ≠ [] := by intro h; rw [h] at hk1; simp [isIdentifierText] at hk1
    have run := Run.trans (Run.trans (Run.trans (Run.step1 e1 (by simp [hne])) (Run.one e2)) r3) (Run.one e4)
    have hshape : (NWLine.mk key (.nw m)).spell ++ '\n' :: rest = key ++ (':' :: ':' :: R3) := by
      simp [NWLine.spell, NVal.spell, R3]
    refine ⟨_, s4, by rw [hshape]; exact run, ?_⟩
    refine ⟨a4.ready, ?_, ?_, ?_, ?_, a4.col, a4.prev⟩
    · rw [a4.toks, a3.toks, a2.toks, a1.toks, l3, c3, l2, c2, l1, c1]; simp [NWLine.toksRev, NVal.spell]
    · rw [a4.repairs, a3.repairs, a2.repairs, a1.repairs, l2, c2]; simp [NWLine.repsRev]
    · rw [a4.stack, a3.stack, a2.stack, a1.stack]
    · rw [a4.line, l3]

/-! ### all lines, the whole document -/

def mwnLinesText : List NWLine → Str
  | [] => []
  | x :: r => x.spell ++ '\n' :: mwnLinesText r

def mwnLinesToksRev (l : Nat) : List NWLine → List Token
  | [] => []
  | x :: r => mwnLinesToksRev (l + 1) r ++ x.toksRev l 1

def mwnLinesRepsRev (l : Nat) : List NWLine → List Repair
  | [] => []
  | x :: r => mwnLinesRepsRev (l + 1) r ++ x.repsRev l 1

theorem mwn_run_lines (env : Env) (lenient : Bool) (sl : List NWLine) :
    ∀ (st : LState) (rest : Str), Ready st → st.col = 1 → (∀ x ∈ sl, x.OK) →
    ∃ n st', Run env lenient n st (mwnLinesText sl ++ rest) st' rest ∧
      AdvL st st' (mwnLinesToksRev st.line sl) (mwnLinesRepsRev st.line sl) sl.length := by
  induction sl with
  | nil =>
    intro st rest hr hc _
    exact ⟨0, st, Run.refl _ _, ⟨hr, rfl, rfl, rfl, rfl, hc⟩⟩
  | cons x r ih =>
    intro st rest hr hc hok
    obtain ⟨n1, s1, r1, a1⟩ := mwn_run_line env lenient st x (mwnLinesText r ++ rest) hr (hok x (by simp))
    obtain ⟨n2, s2, r2, a2⟩ := ih s1 rest a1.ready a1.col (fun y hy => hok y (by simp [hy]))
    refine ⟨n1 + n2, s2, ?_, ?_⟩
    · have := Run.trans r1 r2
      simpa [mwnLinesText, List.append_assoc] using this
    · have hl : s1.line = st.line + 1 := a1.line
      rw [hl] at a2
      rw [hc] at a1
      refine ⟨a2.ready, ?_, ?_, ?_, ?_, a2.col⟩
      · rw [a2.toks, a1.toks]; simp [mwnLinesToksRev, List.append_assoc]
      · rw [a2.repairs, a1.repairs]; simp [mwnLinesRepsRev, List.append_assoc]
      · rw [a2.stack, a1.stack]
      · rw [a2.line, hl]; simp; omega

/-- **the text of the document as written**: envelope line, the lines, `===END===`. -/
def mwndocText (name : Str) (sl : List NWLine) : Str :=
  "===".toList ++ name ++ "===".toList ++ '\n' :: (mwnLinesText sl ++ ("===END===".toList ++ ['\n']))

def mwndocToksRev (name : Str) (sl : List NWLine) : List Token :=
  [tEof (sl.length + 3) 1, tNewline (sl.length + 2) 10, tEnvEnd (sl.length + 2) 1] ++ mwnLinesToksRev 2 sl ++
    [tNewline 1 (1 + (name.length + 6)), tEnvStart name 1 1]

/-- **the tokens of the document**, in reading order. -/
def mwndocToks (name : Str) (sl : List NWLine) : List Token := (mwndocToksRev name sl).reverse

/-- its lexer repair log, in order (identifier notes only). -/
def mwndocReps (sl : List NWLine) : List Repair := (mwnLinesRepsRev 2 sl).reverse

theorem mwn_run_doc (env : Env) (lenient : Bool) (name : Str) (sl : List NWLine)
    (hn : isEnvName name = true) (hne : name ≠ "END".toList) (hok : ∀ x ∈ sl, x.OK) :
    ∃ n st', Run env lenient n ({ spans := [] } : LState) (mwndocText name sl) st' [] ∧
      (tEof st'.line st'.col :: st'.toks).reverse = mwndocToks name sl ∧ st'.repairs.reverse = mwndocReps sl ∧ st'.stack = [] := by
  let st0 : LState := { spans := [] }
  let T2 := mwnLinesText sl ++ ("===END===".toList ++ ['\n'])
  obtain ⟨s1, e1, a1⟩ := step_envStart env lenient st0 name ('\n' :: T2) rfl hn hne
  obtain ⟨s2, e2, a2⟩ := step_newline env lenient s1 T2 a1.ready
  obtain ⟨n3, s3, r3, a3⟩ := mwn_run_lines env lenient sl s2 ("===END===".toList ++ ['\n']) a2.ready a2.col hok
  obtain ⟨s4, e4, a4⟩ := step_envEnd env lenient s3 ['\n'] a3.ready
  obtain ⟨s5, e5, a5⟩ := step_newline env lenient s4 [] a4.ready
  have e4' : step env lenient s3 ('=' :: ("==END===".toList ++ ['\n'])) = .ok (s4, ['\n']) := e4
  have hne1 : "===".toList ++ name ++ "===".toList ++ '\n' :: T2 ≠ [] := by simp
  have run := Run.trans (Run.trans (Run.step1 e1 hne1) (Run.one e2)) (Run.trans r3 (Run.cons e4' (Run.one e5)))
  have l1 : s1.line = 1 := by rw [a1.line]
  have l2 : s2.line = 2 := by rw [a2.line, l1]
  have l3 : s3.line = sl.length + 2 := by rw [a3.line, l2]; omega
  have l4 : s4.line = sl.length + 2 := by rw [a4.line, l3]
  have l5 : s5.line = sl.length + 3 := by rw [a5.line, l4]
  have c1 : s1.col = 1 + (name.length + 6) := a1.col
  have c3 : s3.col = 1 := a3.col
  have c4 : s4.col = 10 := by rw [a4.col, c3]
  refine ⟨_, s5, run, ?_, ?_, ?_⟩
  · rw [a5.toks, a4.toks, a3.toks, a2.toks, a1.toks, l5, a5.col, l1, l2, l3, l4, c1, c3, c4]
    simp [mwndocToks, mwndocToksRev, st0]
  · rw [a5.repairs, a4.repairs, a3.repairs, a2.repairs, a1.repairs, l2]
    simp [mwndocReps, st0]
  · rw [a5.stack, a4.stack, a3.stack, a2.stack, a1.stack]

/-! ### `normalize` and the tab check: every line is fence-free and tab-free -/

theorem mwn_head_clean (h : NHead) (hok : h.OK) : Clean h.text := by
  cases h with
  | word w => exact identText_clean w hok.1
  | int i => exact intStr_clean i
  | str s => exact quoted_clean s

theorem mwnspell_clean (ln : NWLine) (h : ln.OK) : Clean ln.spell := by
  obtain ⟨key, v⟩ := ln
  obtain ⟨hk1, _, hv⟩ := h
  have hval : Clean v.spell := by
    cases v with
    | sc v => exact scalar_clean v hv
    | nw m => exact Clean.append (mwn_head_clean m.head hv.1) (mwTailSpell_clean m.tail hv.2.1)
  have h2 : Clean (':' :: ':' :: v.spell) := by
    have := Clean.append (clean_lit "::".toList (by decide)) hval
    simpa using this
  exact Clean.append (identText_clean key hk1) h2

theorem mwnspell_fine (ln : NWLine) (h : ln.OK) : LineFine ln.spell := by
  refine ⟨fenceLine_none_of_head _ ?_, fun d hd => (mwnspell_clean ln h d hd).2⟩
  intro c hc
  apply identText_head ln.key h.1 c
  have hne : ln.key ≠ [] := by
    intro e; have := h.1; rw [e] at this; simp [isIdentifierText] at this
  obtain ⟨k, t, hk⟩ := List.exists_cons_of_ne_nil hne
  simp only [NWLine.spell, hk, List.cons_append, List.head?_cons] at hc ⊢
  exact hc

theorem mwnlines_fine (sl : List NWLine) (rest : Str) (hok : ∀ x ∈ sl, x.OK) (hr : AllLines LineFine rest) :
    AllLines LineFine (mwnLinesText sl ++ rest) := by
  induction sl with
  | nil => exact hr
  | cons x r ih =>
    have := allLines_cons LineFine x.spell (mwnLinesText r ++ rest) (mwnspell_clean x (hok x (by simp)))
      (mwnspell_fine x (hok x (by simp))) (ih (fun y hy => hok y (by simp [hy])))
    simpa [mwnLinesText, List.append_assoc] using this

theorem mwndoc_fine (name : Str) (sl : List NWLine) (hn : isEnvName name = true) (hok : ∀ x ∈ sl, x.OK) :
    AllLines LineFine (mwndocText name sl) := by
  have hend : AllLines LineFine ("===END===".toList ++ ['\n']) :=
    allLines_cons LineFine "===END===".toList [] (clean_lit _ (by decide)) ⟨by decide, by decide⟩
      (allLines_nil LineFine ⟨by decide, by decide⟩)
  have henv : LineFine ("===".toList ++ name ++ "===".toList) := by
    have := envLine_fine name 0 hn
    simpa [spaces] using this
  exact allLines_cons LineFine _ _ (envLine_clean name hn) henv (mwnlines_fine sl _ hok hend)

/-- **The lexer on a flat document whose values are scalars or multi-word values with a word, INTEGER or STRING head** (both
lexer modes, every environment whose NFC leaves the lines alone): `tokenize` succeeds with exactly `mwndocToks` — one
token for the head (a NUMBER token carrying its raw lexeme when the head is an integer, a STRING token holding the
unescaped content when it is a quoted string), one IDENTIFIER token per further
word at the word's own column — and `mwndocReps`. -/
theorem tokenize_mwndoc (env : Env) (lenient : Bool) (name : Str) (sl : List NWLine)
    (hn : isEnvName name = true) (hne : name ≠ "END".toList) (hok : ∀ x ∈ sl, x.OK)
    (hnfc : ∀ l ∈ splitLines (mwndocText name sl), env.nfc l = l) :
    tokenize env (mwndocText name sl) lenient = .ok (mwndocToks name sl, mwndocReps sl) :=
  tokenize_of_run env lenient _ _ _ (mwndoc_fine name sl hn hok) hnfc (mwn_run_doc env lenient name sl hn hne hok)

end Octave.MWN
