import Octave.Lemmas.ParserFuelMutual
/-! C20, parser side: **no hang** — `parse_value` itself (one fuel level), and the assembled induction. -/
namespace Octave
namespace Parser

-- the proofs below execute every path of large `do` blocks symbolically: 5× the default budget, so that no proof
-- sits at the edge of the deterministic timeout
set_option maxHeartbeats 1000000

theorem fs_identifier : fs .identifier = 1 := rfl
theorem fs_flow : fs .flow = 1 := rfl
theorem fs_variable : fs .variable = 1 := rfl


theorem parseValue_step {n : Nat} (ihN : SpecN n) (ihP : SpecP n) (ihA : SpecA n) (ihL : SpecL n) : SpecV (n + 1) := by
  unfold SpecV SpecN SpecP SpecA SpecL at *
  intro r h
  unfold parseValue
  wp_ind [ihN, ihP, ihA, ihL]
  all_goals try wp_fin
  all_goals
    generalize (hd r).type = x at *
    subst_vars
    simp only [fs_identifier, fs_flow, fs_variable] at *
    wt_norm
    omega

/-- **Fuel of the `parse_value` block**: with `cA rest + 2 ≤ fuel` the block never runs out of fuel. -/
theorem value_spec : ∀ fuel : Nat,
    SpecV fuel ∧ SpecN fuel ∧ SpecP fuel ∧ SpecA fuel ∧ SpecL fuel ∧ SpecLL fuel ∧ SpecI fuel := by
  intro fuel
  induction fuel with
  | zero =>
    refine ⟨?_, ?_, ?_, ?_, ?_, ?_, ?_⟩
    · intro r h; omega
    · intro _ _ r h; omega
    · intro _ _ r h; omega
    · intro _ _ r h; omega
    · intro r h; omega
    · intro _ r h; omega
    · intro r h; omega
  | succ n ih =>
    obtain ⟨ihV, ihN, ihP, ihA, ihL, ihLL, ihI⟩ := ih
    exact ⟨parseValue_step ihN ihP ihA ihL, numberWords_step ihN, plainWords_step ihP, annotatedLoop_step ihA,
      parseList_step ihLL, listLoop_step ihLL ihI, parseListItem_step ihV⟩

theorem parseValue_spec {fuel : Nat} {r : List Token} (h : EofEnd r ∧ cA r + 2 ≤ fuel) :
    wpr (parseValue fuel) r (fun _ r' => Le r r' ∧ cA r' + wtA (hd r).type ≤ cA r) := (value_spec fuel).1 h
macro_rules
  | `(tactic| wp_lemma) => `(tactic| with_reducible refine wpr_mono (parseValue_spec ?_) (fun _ _ _ => ?_))

end Parser
end Octave
