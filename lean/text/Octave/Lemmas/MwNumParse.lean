import Octave.Lemmas.MultiWordParse
import Octave.Lemmas.MwNumLex
/-!
NUMBER-HEADED MULTI-WORD VALUES as values of a flat document — parser half (token lists with ARBITRARY positions).

The token list of such a value is `NUMBER IDENTIFIER+`, followed by a token that ends the value.

* `numberWords_run`      the accumulation loop of `parse_value`'s NUMBER branch over the words;
* `parseValue_nwint`     `parse_value` returns `.str (lexeme and words joined by one space)` and pushes exactly ONE warning:
                         `multi_word_coalesce`, context `number_identifier`, with the parts, the result, the position of the
                         NUMBER token;
* `parseValue_nw`        either head (`NHead`): word head by `MW.parseValue_mw`, integer head by `parseValue_nwint`;
* `parseSection_mwnline`, `docLoop_mwn`, `parseDocument_mwn`   lines, body loop, whole document, exact warnings `mwnWarns`.
-/
namespace Octave.MWN
open Octave Parser FlatParse Expr MW

local macro "step_simp" "[" ts:Lean.Parser.Tactic.simpLemma,* "]" : tactic =>
  `(tactic| simp only [bind, StateT.bind, Except.bind, pure, StateT.pure, Except.pure, current_mk, peek_mk, advance_mk,
      curType_mk, isAdjacentBracket_mk, budget_mk, warn_mk, get, getThe, MonadStateOf.get, StateT.get,
      Bool.false_eq_true, if_false, if_true, Bool.false_and, Bool.and_false, Bool.or_false, Bool.false_or,
      List.length_cons, List.length_nil, beq_iff_eq, bne_iff_ne, ne_eq, reduceCtorEq, not_true_eq_false, not_false_eq_true,
      Bool.and_eq_true, Bool.or_eq_true, Bool.not_eq_true', beq_eq_false_iff_ne, false_and, and_false, true_and, and_true,
      false_or, or_false, true_or, or_true, decide_eq_true_eq,
      beq_self_eq_true, Bool.true_or, Bool.or_true, Bool.true_and, Bool.and_true, Bool.not_true, Bool.not_false, $ts,*])

theorem tokStr_tInt (i : Int) (l c : Nat) : tokStr (tInt i l c) = intStr i := rfl

/-- one word in the accumulation loop of the NUMBER branch (not followed by an operator). -/
theorem numberWords_ident (fuel : Nat) (start : Token) (words : List Str) (x : Str) (l c : Nat)
    (u : Token) (K : List Token) (hu1 : isExprOp u.type = false)
    (p : Option Token) (n : Nat) (la : Token) (w : List Warning) (d : Nat) (wd : List Nat) (s : Bool) (th : Nat) (al : Char → Bool) :
    numberWords (fuel + 1) start words
        { rest := tIdent x l c :: u :: K, prev := p, pos := n, last := la, warnings := w, depth := d, warned := wd, strict := s, threshold := th, alpha := al }
      = numberWords fuel start (words ++ [x])
        { rest := u :: K, prev := some (tIdent x l c), pos := n + 1, last := la, warnings := w, depth := d, warned := wd, strict := s, threshold := th, alpha := al } := by
  have ht : (tIdent x l c).type = TT.identifier := rfl
  have hv : isValueTok TT.identifier = true := rfl
  rw [numberWords]
  step_simp [ht, hv, hu1, tokStr_tIdent]

/-- **the accumulation loop over the words**: each is appended to the part list. -/
theorem numberWords_run {ws : List Str} {ts : List Token} (h : MWToks ws ts) :
    ∀ (fuel : Nat) (start : Token) (words : List Str) (next : Token) (k : List Token),
    isExprOp next.type = false → next.type ≠ .listStart →
    ∀ (p : Option Token) (n : Nat) (la : Token) (w : List Warning) (d : Nat) (wd : List Nat) (s : Bool) (th : Nat) (al : Char → Bool),
    ∃ p', numberWords (fuel + ts.length) start words
        { rest := ts ++ next :: k, prev := p, pos := n, last := la, warnings := w, depth := d, warned := wd, strict := s, threshold := th, alpha := al }
      = numberWords fuel start (words ++ ws)
        { rest := next :: k, prev := p', pos := n + ts.length, last := la, warnings := w, depth := d, warned := wd, strict := s, threshold := th, alpha := al } := by
  induction h with
  | nil =>
    intro fuel start words next k _ _ p n la w d wd s th al
    exact ⟨p, by simp only [List.length_nil, Nat.add_zero, List.nil_append, List.append_nil]⟩
  | cons x l c h' ih =>
    rename_i ws' ts'
    intro fuel start words next k h1 h2 p n la w d wd s th al
    obtain ⟨u, K, hK, hu1, hu2⟩ := mw_head h' next k h1 h2
    obtain ⟨p', hih⟩ := ih fuel start (words ++ [x]) next k h1 h2 (some (tIdent x l c)) (n + 1) la w d wd s th al
    refine ⟨p', ?_⟩
    have hf : fuel + (tIdent x l c :: ts').length = (fuel + ts'.length) + 1 := by simp only [List.length_cons]; omega
    rw [hf, List.cons_append, hK, numberWords_ident (hu1 := hu1), ← hK, hih]
    have hp : n + 1 + ts'.length = n + (tIdent x l c :: ts').length := by simp only [List.length_cons]; omega
    rw [hp, List.append_assoc]; rfl

/-- the end of the loop: the parts are joined by ONE space and exactly one `multi_word_coalesce` warning with context
`number_identifier` is pushed, positioned at the NUMBER token (`start`). -/
theorem numberWords_end (fuel : Nat) (start : Token) (words : List Str) (t : Token) (r : List Token)
    (hv : isValueTok t.type = false) (hl : t.type ≠ TT.listStart)
    (p : Option Token) (n : Nat) (la : Token) (w : List Warning) (d : Nat) (wd : List Nat) (s : Bool) (th : Nat) (al : Char → Bool) :
    numberWords (fuel + 1) start words
        { rest := t :: r, prev := p, pos := n, last := la, warnings := w, depth := d, warned := wd, strict := s, threshold := th, alpha := al }
      = .ok (.str (spaceJoin words),
        { rest := t :: r, prev := p, pos := n, last := la,
          warnings := .multiWord words (spaceJoin words) "number_identifier".toList start.line start.col :: w, depth := d, warned := wd, strict := s, threshold := th, alpha := al }) := by
  rw [numberWords]
  step_simp [hv, trailingBracket_stop, hl]

/-- **`parse_value` on `NUMBER IDENTIFIER+`** (arbitrary positions) followed by a token that ends the value: the value is
the STRING of the number's raw lexeme and the words joined by one space each, and exactly one warning is pushed —
`multi_word_coalesce`, context `number_identifier`, with the parts, that string, and the line / column of the NUMBER
token.  The cursor is left on the terminating token; nothing else changes. -/
theorem parseValue_nwint (i : Int) (l c : Nat) {ws : List Str} {ts : List Token} (h : MWToks ws ts) (hne : ws ≠ [])
    (next : Token) (k : List Token) (hn : endsValue next.type = true) (fuel : Nat)
    (p : Option Token) (n : Nat) (la : Token) (w : List Warning) (d : Nat) (wd : List Nat) (s : Bool) (th : Nat) (al : Char → Bool) :
    ∃ p', parseValue (fuel + ts.length + 2)
        { rest := tInt i l c :: (ts ++ next :: k), prev := p, pos := n, last := la, warnings := w, depth := d, warned := wd, strict := s, threshold := th, alpha := al }
      = .ok (.str (spaceJoin (intStr i :: ws)),
             { rest := next :: k, prev := p', pos := n + 1 + ts.length, last := la,
               warnings := .multiWord (intStr i :: ws) (spaceJoin (intStr i :: ws)) "number_identifier".toList l c :: w, depth := d,
               warned := wd, strict := s, threshold := th, alpha := al }) := by
  obtain ⟨hv, he, hl', hb'⟩ := (endsValue_iff _).1 hn
  cases h with
  | nil => exact absurd rfl hne
  | cons x l1 c1 h' =>
    rename_i ws' ts'
    have hcons : MWToks (x :: ws') (tIdent x l1 c1 :: ts') := MWToks.cons x l1 c1 h'
    obtain ⟨p', hrun⟩ := numberWords_run hcons (fuel + 1) (tInt i l c) [intStr i] next k he hl' (some (tInt i l c)) (n + 1) la w d wd s th al
    refine ⟨p', ?_⟩
    have ht1 : (tInt i l c).type = TT.number := rfl
    have ht2 : (tIdent x l1 c1).type = TT.identifier := rfl
    have hv2 : isValueTok TT.identifier = true := rfl
    have hf : fuel + (tIdent x l1 c1 :: ts').length + 2 = (fuel + 1 + (tIdent x l1 c1 :: ts').length) + 1 := by omega
    rw [hf, parseValue]
    simp only [List.cons_append, List.nil_append, List.length_cons] at hrun
    step_simp [List.cons_append, ht1, ht2, hv2, tokStr_tInt]
    rw [hrun, numberWords_end (hv := hv) (hl := hl')]
    rfl

/-! ### STRING head: `multiWordSimple` -/

theorem tokStr_tString (sv : Str) (l c : Nat) : tokStr (tString sv l c) = '"' :: sv ++ ['"'] := rfl

/-- **the accumulation loop of the STRING / BOOLEAN / NULL / VERSION contexts over the words**, for any sufficient fuel. -/
theorem takeValueToks_words {ws : List Str} {ts : List Token} (h : MWToks ws ts) :
    ∀ (fuel : Nat) (acc : List Str) (next : Token) (k : List Token), isValueTok next.type = false → ts.length < fuel →
    ∀ (p : Option Token) (n : Nat) (la : Token) (w : List Warning) (d : Nat) (wd : List Nat) (s : Bool) (th : Nat) (al : Char → Bool),
    ∃ p', takeValueToks fuel acc
        { rest := ts ++ next :: k, prev := p, pos := n, last := la, warnings := w, depth := d, warned := wd, strict := s, threshold := th, alpha := al }
      = .ok (acc ++ ws,
        { rest := next :: k, prev := p', pos := n + ts.length, last := la, warnings := w, depth := d, warned := wd, strict := s, threshold := th, alpha := al }) := by
  induction h with
  | nil =>
    intro fuel acc next k hv hf p n la w d wd s th al
    obtain ⟨f, rfl⟩ : ∃ f, fuel = f + 1 := ⟨fuel - 1, by simp only [List.length_nil] at hf; omega⟩
    refine ⟨p, ?_⟩
    rw [List.nil_append, takeValueToks]
    step_simp [hv, List.append_nil, Nat.add_zero]
  | cons x l c h' ih =>
    rename_i ws' ts'
    intro fuel acc next k hv hf p n la w d wd s th al
    obtain ⟨f, rfl⟩ : ∃ f, fuel = f + 1 := ⟨fuel - 1, by simp only [List.length_cons] at hf; omega⟩
    obtain ⟨p', hih⟩ := ih f (acc ++ [x]) next k hv (by simp only [List.length_cons] at hf; omega) (some (tIdent x l c)) (n + 1) la w d wd s th al
    refine ⟨p', ?_⟩
    have ht : (tIdent x l c).type = TT.identifier := rfl
    have hvi : isValueTok TT.identifier = true := rfl
    obtain ⟨u, K, hK⟩ : ∃ u K, ts' ++ next :: k = u :: K := by
      cases ts' with
      | nil => exact ⟨next, k, rfl⟩
      | cons a b => exact ⟨a, b ++ next :: k, rfl⟩
    rw [List.cons_append, takeValueToks, hK]
    step_simp [ht, hvi, tokStr_tIdent]
    rw [← hK, hih]
    have hp : n + 1 + ts'.length = n + (ts'.length + 1) := by omega
    rw [hp, List.append_assoc]; rfl

/-- **`parse_value` on `STRING IDENTIFIER+`** (arbitrary positions, ANY string content) followed by a token that ends the
value: the value is the STRING made of `"` + the content + `"` (the quotes become part of the value) and the words, joined
by one space each; exactly one warning is pushed — `multi_word_coalesce`, context `string_multiword`, at the STRING token. -/
theorem parseValue_nwstr (sv : Str) (l c : Nat) {ws : List Str} {ts : List Token} (h : MWToks ws ts) (hne : ws ≠ [])
    (next : Token) (k : List Token) (hn : endsValue next.type = true) (fuel : Nat)
    (p : Option Token) (n : Nat) (la : Token) (w : List Warning) (d : Nat) (wd : List Nat) (s : Bool) (th : Nat) (al : Char → Bool) :
    ∃ p', parseValue (fuel + ts.length + 2)
        { rest := tString sv l c :: (ts ++ next :: k), prev := p, pos := n, last := la, warnings := w, depth := d, warned := wd, strict := s, threshold := th, alpha := al }
      = .ok (.str (spaceJoin (('"' :: sv ++ ['"']) :: ws)),
             { rest := next :: k, prev := p', pos := n + 1 + ts.length, last := la,
               warnings := .multiWord (('"' :: sv ++ ['"']) :: ws) (spaceJoin (('"' :: sv ++ ['"']) :: ws)) "string_multiword".toList l c :: w, depth := d,
               warned := wd, strict := s, threshold := th, alpha := al }) := by
  obtain ⟨hv, he, hl', hb'⟩ := (endsValue_iff _).1 hn
  cases h with
  | nil => exact absurd rfl hne
  | cons x l1 c1 h' =>
    rename_i ws' ts'
    have hcons : MWToks (x :: ws') (tIdent x l1 c1 :: ts') := MWToks.cons x l1 c1 h'
    obtain ⟨p', hrun⟩ := takeValueToks_words hcons ((ts' ++ next :: k).length + 1 + 2) ['"' :: sv ++ ['"']] next k hv
      (by simp only [List.length_cons, List.length_append]; omega) (some (tString sv l c)) (n + 1) la w d wd s th al
    refine ⟨p', ?_⟩
    have ht1 : (tString sv l c).type = TT.string := rfl
    have ht2 : (tIdent x l1 c1).type = TT.identifier := rfl
    have hv2 : isValueTok TT.identifier = true := rfl
    have hli : (tString sv l c).line = l := rfl
    have hci : (tString sv l c).col = c := rfl
    have hf : fuel + (tIdent x l1 c1 :: ts').length + 2 = (fuel + 1 + (tIdent x l1 c1 :: ts').length) + 1 := by omega
    rw [hf, parseValue]
    simp only [List.cons_append, List.nil_append] at hrun
    step_simp [List.cons_append, ht1, ht2, hv2, multiWordSimple, tokStr_tString]
    rw [hrun]
    step_simp [trailingBracket_stop, hl', hli, hci, List.cons_append]

/-- the head is a quoted string (its token is a STRING token). -/
def NHead.isStr : NHead → Bool
  | .str _ => true
  | _ => false

theorem mwn_isStr_true (hd : NHead) (l c : Nat) (h : hd.isStr = true) : (hd.tok l c).type = TT.string := by
  cases hd <;> first | rfl | simp [NHead.isStr] at h
theorem mwn_isStr_false (hd : NHead) (l c : Nat) (h : hd.isStr = false) : (hd.tok l c).type ≠ TT.string := by
  cases hd with
  | word w => simp [NHead.tok, tIdent]
  | int i => simp [NHead.tok, tInt]
  | str sv => simp [NHead.isStr] at h

/-- parser-side condition on the head: a word head carries no `<annotation>`. -/
def NHead.PWF : NHead → Prop
  | .word w => hasAnnotation w = false
  | .int _ => True
  | .str _ => True

/-- **`parse_value` on a multi-word value with either head.** -/
theorem parseValue_nw (hd : NHead) (l c : Nat) {ws : List Str} {ts : List Token} (h : MWToks ws ts) (hne : ws ≠ [])
    (hah : hd.PWF) (haw : ∀ w ∈ ws, hasAnnotation w = false)
    (next : Token) (k : List Token) (hn : endsValue next.type = true) (fuel : Nat)
    (p : Option Token) (n : Nat) (la : Token) (w : List Warning) (d : Nat) (wd : List Nat) (s : Bool) (th : Nat) (al : Char → Bool) :
    ∃ p', parseValue (fuel + ts.length + 2)
        { rest := hd.tok l c :: (ts ++ next :: k), prev := p, pos := n, last := la, warnings := w, depth := d, warned := wd, strict := s, threshold := th, alpha := al }
      = .ok (.str (spaceJoin (hd.part :: ws)),
             { rest := next :: k, prev := p', pos := n + 1 + ts.length, last := la,
               warnings := .multiWord (hd.part :: ws) (spaceJoin (hd.part :: ws)) hd.ctx l c :: w, depth := d,
               warned := wd, strict := s, threshold := th, alpha := al }) := by
  cases hd with
  | word x => exact parseValue_mw x l c h hne hah haw next k hn fuel p n la w d wd s th al
  | int i => exact parseValue_nwint i l c h hne next k hn fuel p n la w d wd s th al
  | str sv => exact parseValue_nwstr sv l c h hne next k hn fuel p n la w d wd s th al

/-! ### `parseSection` on one line `KEY::w0 w1 … wn` -/

/-- one line `KEY::w0 w1 … wn NEWLINE` at token level: every position arbitrary. -/
structure NTLine where
  key : Str
  /-- line and column of the key token -/
  l : Nat
  c1 : Nat
  /-- column of `::` -/
  c2 : Nat
  /-- the first word and its position -/
  hd : NHead
  hl : Nat
  hc : Nat
  /-- the further words and their tokens -/
  ws : List Str
  ts : List Token
  /-- position of the NEWLINE -/
  nlL : Nat
  nlC : Nat

/-- the tokens are tokens of the words; at least two words; no word carries an annotation. -/
def NTLine.WF (x : NTLine) : Prop :=
  MWToks x.ws x.ts ∧ x.ws ≠ [] ∧ x.hd.PWF ∧ ∀ w ∈ x.ws, hasAnnotation w = false

def NTLine.nlTok (x : NTLine) : Token := tNewline x.nlL x.nlC
def NTLine.toks (x : NTLine) : List Token :=
  tIdent x.key x.l x.c1 :: tAssign x.l x.c2 :: x.hd.tok x.hl x.hc :: (x.ts ++ [x.nlTok])
/-- the string the reader makes of the words. -/
def NTLine.result (x : NTLine) : Str := spaceJoin (x.hd.part :: x.ws)
/-- the Assignment node: the value is the words joined by one space, as a string. -/
def NTLine.node (x : NTLine) : Node := .assign x.key (.str x.result) x.l x.c1 [] none
/-- **the receipt**: `multi_word_coalesce` with the words, the result, line and column of the first word. -/
def NTLine.receipt (x : NTLine) : Warning := .multiWord (x.hd.part :: x.ws) x.result x.hd.ctx x.hl x.hc
/-- the parser warnings of the line, newest first (W_PATTERN_AUTOQUOTE only under the keys `PATTERN` / `REGEX`, and not
when the value starts with a quoted STRING). -/
def NTLine.warnsRev (x : NTLine) : List Warning :=
  (if x.hd.isStr then [] else autoquote x.key x.result x.l x.c1) ++ [x.receipt]

theorem parseSection_mwnline (x : NTLine) (hx : x.WF) (k : List Token) (fuel : Nat)
    (p : Option Token) (n : Nat) (la : Token) (w : List Warning) (wd : List Nat) (s : Bool) (th : Nat) (al : Char → Bool) :
    ∃ p', parseSection (fuel + x.ts.length + 3) []
        { rest := x.toks ++ k, prev := p, pos := n, last := la, warnings := w, depth := 0, warned := wd, strict := s, threshold := th, alpha := al }
      = .ok (some x.node,
             { rest := x.nlTok :: k, prev := p', pos := n + 3 + x.ts.length, last := la, warnings := x.warnsRev ++ w, depth := 0,
               warned := wd, strict := s, threshold := th, alpha := al }) := by
  obtain ⟨key, l, c1, c2, hd, hl, hc, ws, ts, nlL, nlC⟩ := x
  obtain ⟨hts, hne, hah, haw⟩ := hx
  simp only at hts hne hah haw
  obtain ⟨p', hpv⟩ := parseValue_nw hd hl hc hts hne hah haw (tNewline nlL nlC) k rfl fuel (some (tAssign l c2)) (n + 1 + 1) la w 0 wd s th al
  refine ⟨p', ?_⟩
  have hshape : NTLine.toks ⟨key, l, c1, c2, hd, hl, hc, ws, ts, nlL, nlC⟩ ++ k
      = tIdent key l c1 :: tAssign l c2 :: (hd.tok hl hc :: (ts ++ tNewline nlL nlC :: k)) := by
    simp [NTLine.toks, NTLine.nlTok, List.append_assoc]
  have ht1 : (tIdent key l c1).type = TT.identifier := rfl
  have ht2 : (tAssign l c2).type = TT.assign := rfl
  have ht4 : (tNewline nlL nlC).type = TT.newline := rfl
  have hv1 : (tIdent key l c1).value = TVal.str key := rfl
  have hf : fuel + ts.length + 3 = (fuel + ts.length + 2) + 1 := by omega
  dsimp only
  rw [hshape, hf, parseSection]
  cases hq : hd.isStr with
  | false =>
    have ht3 : (hd.tok hl hc).type ≠ TT.string := mwn_isStr_false hd hl hc hq
    step_simp [ht1, ht2, ht3, hv1, pyStrVal_str]
    rw [hpv]
    by_cases hk : key = "PATTERN".toList ∨ key = "REGEX".toList
    · step_simp [hk, hq, ht4, NTLine.node, NTLine.warnsRev, NTLine.receipt, NTLine.result, NTLine.nlTok, autoquote, List.cons_append, List.nil_append]
      have hp : n + 1 + 1 + 1 + ts.length = n + 3 + ts.length := by omega
      rw [hp]; rfl
    · step_simp [hk, hq, ht4, NTLine.node, NTLine.warnsRev, NTLine.receipt, NTLine.result, NTLine.nlTok, autoquote, List.cons_append, List.nil_append]
      have hp : n + 1 + 1 + 1 + ts.length = n + 3 + ts.length := by omega
      rw [hp]; rfl
  | true =>
    have ht3 : (hd.tok hl hc).type = TT.string := mwn_isStr_true hd hl hc hq
    step_simp [ht1, ht2, ht3, hv1, pyStrVal_str]
    rw [hpv]
    step_simp [hq, ht4, NTLine.node, NTLine.warnsRev, NTLine.receipt, NTLine.result, NTLine.nlTok, List.cons_append, List.nil_append]
    have hp : n + 1 + 1 + 1 + ts.length = n + 3 + ts.length := by omega
    rw [hp]; rfl

/-! ### the body loop of `parseDocument` on lines with scalar or multi-word values -/

/-- a line of the body at token level: a scalar line (`FlatParse.Line`) or a multi-word line. -/
inductive NQLine where
  | sc (ln : Line)
  | nw (x : NTLine)

def NQLine.toks : NQLine → List Token
  | .sc ln => ln.toks
  | .nw x => x.toks
def NQLine.node : NQLine → Node
  | .sc ln => ln.node
  | .nw x => x.node
def NQLine.key : NQLine → Str
  | .sc ln => ln.key
  | .nw x => x.key
def NQLine.l : NQLine → Nat
  | .sc ln => ln.l
  | .nw x => x.l
/-- the warnings of the line's value, in emission order. -/
def NQLine.warns : NQLine → List Warning
  | .sc ln => ln.warns
  | .nw x => x.warnsRev.reverse
def NQLine.WF : NQLine → Prop
  | .sc _ => True
  | .nw x => x.WF
/-- fuel `parse_section` needs on the line. -/
def NQLine.need : NQLine → Nat
  | .sc _ => 3
  | .nw x => x.ts.length + 3

/-- all parser warnings of the body loop, in emission order (cf. `FlatParse.docWarns`): per line the warnings of its value,
then the duplicate-key warning if the key was seen before. -/
def mwnWarns : KeyPos → List NQLine → List Warning
  | _, [] => []
  | kp, ln :: r => ln.warns ++ (trackPure kp ln.key ln.l).2 ++ mwnWarns (trackPure kp ln.key ln.l).1 r

theorem mwn_qline_toks_length_pos (ln : NQLine) : 2 ≤ ln.toks.length := by
  cases ln with
  | sc ln => simp [NQLine.toks, Line.toks]
  | nw x => simp [NQLine.toks, NTLine.toks]

theorem mwn_qline_need_le (ln : NQLine) : ln.need ≤ ln.toks.length := by
  cases ln with
  | sc ln => simp [NQLine.toks, Line.toks, NQLine.need]
  | nw x => simp [NQLine.toks, NTLine.toks, NQLine.need]

/-- **the body loop on any number of lines whose values are scalars or multi-word values**, in any order: one Assignment
per line, in order; `vf` (the fuel handed to `parse_section`) must cover the longest line. -/
theorem docLoop_mwn (vf : Nat) (lines : List NQLine) (e : Token) (tail : List Token)
    (he : e.type = .envelopeEnd ∨ e.type = .eof) (hwf : ∀ ln ∈ lines, ln.WF) (hvf : ∀ ln ∈ lines, ln.need ≤ vf) :
    ∀ (acc : List Node) (kp : KeyPos) (extra : Nat)
      (p : Option Token) (n : Nat) (la : Token) (w : List Warning) (wd : List Nat) (s : Bool) (th : Nat) (al : Char → Bool),
    ∃ p' n', docLoop vf (2 * lines.length + 1 + extra) [] acc kp
        { rest := lines.flatMap NQLine.toks ++ e :: tail, prev := p, pos := n, last := la, warnings := w, depth := 0, warned := wd, strict := s, threshold := th, alpha := al }
      = .ok ((acc ++ lines.map NQLine.node, []),
             { rest := e :: tail, prev := p', pos := n', last := la, warnings := (mwnWarns kp lines).reverse ++ w, depth := 0,
               warned := wd, strict := s, threshold := th, alpha := al }) := by
  induction lines with
  | nil =>
    intro acc kp extra p n la w wd s th al
    refine ⟨p, n, ?_⟩
    have hf : 2 * ([] : List NQLine).length + 1 + extra = extra + 1 := by simp only [List.length_nil]; omega
    rw [hf, List.flatMap_nil, List.nil_append, docLoop]
    step_simp [he]
    simp only [List.map_nil, List.append_nil, mwnWarns, List.reverse_nil, List.nil_append]
  | cons ln r ih =>
    intro acc kp extra p n la w wd s th al
    have hf : 2 * (ln :: r).length + 1 + extra = (2 * r.length + 1 + extra) + 2 := by
      simp only [List.length_cons]; omega
    have hR' : r.flatMap NQLine.toks ++ e :: tail ≠ [] := by simp
    have hwf' : ∀ x ∈ r, x.WF := fun x hx => hwf x (List.mem_cons_of_mem _ hx)
    have hvf' : ∀ x ∈ r, x.need ≤ vf := fun x hx => hvf x (List.mem_cons_of_mem _ hx)
    have hneed := hvf ln (List.mem_cons_self ..)
    cases ln with
    | sc ln =>
      obtain ⟨vf0, rfl⟩ : ∃ vf0, vf = vf0 + 3 := ⟨vf - 3, by simp only [NQLine.need] at hneed; omega⟩
      have hps := parseSection_flat_line
        { rest := ln.toks ++ (r.flatMap NQLine.toks ++ e :: tail), prev := p, pos := n, last := la, warnings := w, depth := 0, warned := wd, strict := s, threshold := th, alpha := al }
        ln (r.flatMap NQLine.toks ++ e :: tail) vf0 rfl
      obtain ⟨p', n', hih⟩ := ih hwf' hvf' (acc ++ [Node.assign ln.key ln.v.val ln.l ln.c1 [] none]) (trackPure kp ln.key ln.l).1 extra (some ln.nlTok) (n + 3 + 1) la
        ((trackPure kp ln.key ln.l).2 ++ (ln.warns ++ w)) wd s th al
      refine ⟨p', n', ?_⟩
      have hshape : (NQLine.sc ln :: r).flatMap NQLine.toks ++ e :: tail
          = ln.keyTok :: ([ln.assignTok, ln.valTok, ln.nlTok] ++ (r.flatMap NQLine.toks ++ e :: tail)) := by
        simp only [List.flatMap_cons, NQLine.toks, Line.toks, List.cons_append, List.nil_append]
      have hps' : parseSection (vf0 + 3) []
          { rest := ln.keyTok :: ([ln.assignTok, ln.valTok, ln.nlTok] ++ (r.flatMap NQLine.toks ++ e :: tail)), prev := p, pos := n, last := la, warnings := w, depth := 0, warned := wd, strict := s, threshold := th, alpha := al }
          = .ok (some (.assign ln.key ln.v.val ln.l ln.c1 [] none),
             { rest := ln.nlTok :: (r.flatMap NQLine.toks ++ e :: tail), prev := some ln.valTok, pos := n + 3, last := la, warnings := ln.warns ++ w, depth := 0,
               warned := wd, strict := s, threshold := th, alpha := al }) := hps
      rw [hf, hshape, docLoop_assign_step (ht := rfl) (hnl := rfl) (hR' := hR') (hps := hps'), hih]
      simp only [List.map_cons, NQLine.node, Line.node, List.append_assoc, List.cons_append, List.nil_append, mwnWarns, NQLine.warns,
        NQLine.key, NQLine.l, List.reverse_append, trackPure_warns_reverse, Line.warns_reverse]
    | nw x =>
      obtain ⟨vf0, rfl⟩ : ∃ vf0, vf = vf0 + x.ts.length + 3 := ⟨vf - (x.ts.length + 3), by simp only [NQLine.need] at hneed; omega⟩
      obtain ⟨p1, hps⟩ := parseSection_mwnline x (hwf _ (List.mem_cons_self ..)) (r.flatMap NQLine.toks ++ e :: tail) vf0 p n la w wd s th al
      obtain ⟨p', n', hih⟩ := ih hwf' hvf' (acc ++ [Node.assign x.key (.str x.result) x.l x.c1 [] none]) (trackPure kp x.key x.l).1 extra (some x.nlTok) (n + 3 + x.ts.length + 1) la
        ((trackPure kp x.key x.l).2 ++ (x.warnsRev ++ w)) wd s th al
      refine ⟨p', n', ?_⟩
      have hshape : (NQLine.nw x :: r).flatMap NQLine.toks ++ e :: tail
          = tIdent x.key x.l x.c1 :: (tAssign x.l x.c2 :: x.hd.tok x.hl x.hc :: (x.ts ++ [x.nlTok]) ++ (r.flatMap NQLine.toks ++ e :: tail)) := by
        simp only [List.flatMap_cons, NQLine.toks, NTLine.toks, List.append_assoc, List.cons_append, List.nil_append]
      have hps' : parseSection (vf0 + x.ts.length + 3) []
          { rest := tIdent x.key x.l x.c1 :: (tAssign x.l x.c2 :: x.hd.tok x.hl x.hc :: (x.ts ++ [x.nlTok]) ++ (r.flatMap NQLine.toks ++ e :: tail)), prev := p, pos := n, last := la, warnings := w, depth := 0, warned := wd, strict := s, threshold := th, alpha := al }
          = .ok (some (.assign x.key (.str x.result) x.l x.c1 [] none),
             { rest := x.nlTok :: (r.flatMap NQLine.toks ++ e :: tail), prev := p1, pos := n + 3 + x.ts.length, last := la, warnings := x.warnsRev ++ w, depth := 0,
               warned := wd, strict := s, threshold := th, alpha := al }) := hps
      rw [hf, hshape, docLoop_assign_step (ht := rfl) (hnl := rfl) (hR' := hR') (hps := hps'), hih]
      simp only [List.map_cons, NQLine.node, NTLine.node, List.append_assoc, List.cons_append, List.nil_append, mwnWarns, NQLine.warns,
        NQLine.key, NQLine.l, List.reverse_append, trackPure_warns_reverse, List.reverse_reverse]

/-! ### `parseDocument` on the whole document -/

/-- the token list of the document:
`ENVELOPE_START(name) NEWLINE [IDENTIFIER ASSIGN (scalar | IDENTIFIER IDENTIFIER+) NEWLINE]* ENVELOPE_END NEWLINE EOF`. -/
def mwnToks (f : Frame) (name : Str) (lines : List NQLine) : List Token :=
  f.envTok name :: f.nl0Tok :: (lines.flatMap NQLine.toks ++ [f.endTok, f.nl1Tok, f.eofTok])

/-- the first line's key is `META`. -/
def mwnMetaFirst : List NQLine → Bool
  | ln :: _ => ln.key == "META".toList
  | [] => false

theorem mwn_toks_length (lines : List NQLine) : 2 * lines.length ≤ (lines.flatMap NQLine.toks).length := by
  induction lines with
  | nil => simp
  | cons ln r ih =>
    have := mwn_qline_toks_length_pos ln
    simp only [List.flatMap_cons, List.length_append, List.length_cons]; omega

theorem mwn_need_le (lines : List NQLine) : ∀ ln ∈ lines, ln.need ≤ (lines.flatMap NQLine.toks).length := by
  induction lines with
  | nil => intro ln h; simp at h
  | cons x r ih =>
    intro ln h
    simp only [List.flatMap_cons, List.length_append]
    rcases List.mem_cons.mp h with rfl | h
    · have := mwn_qline_need_le ln; omega
    · have := ih ln h; omega

theorem mwn_body_head (f : Frame) (lines : List NQLine) (hm : mwnMetaFirst lines = false) :
    ∃ u K, lines.flatMap NQLine.toks ++ [f.endTok, f.nl1Tok, f.eofTok] = u :: K ∧ SpellParse.BodyHead u := by
  cases lines with
  | nil => exact ⟨f.endTok, _, rfl, SpellParse.bodyHead_end _ (Or.inl rfl)⟩
  | cons ln r =>
    cases ln with
    | sc ln =>
      refine ⟨ln.keyTok, _, rfl, SpellParse.bodyHead_key ln ?_⟩
      simpa [mwnMetaFirst, NQLine.key] using hm
    | nw x =>
      have hk : x.key ≠ "META".toList := by simpa [mwnMetaFirst, NQLine.key] using hm
      refine ⟨tIdent x.key x.l x.c1, _, rfl, ?_⟩
      refine ⟨by simp [tIdent], by simp [tIdent], by simp [tIdent], by simp [tIdent], by simp [tIdent], fun hh => hk ?_⟩
      have := hh.2; simp only [tIdent, TVal.str.injEq] at this; exact this

/-- **`parse_document` on a flat document whose values are scalars or multi-word bare values** (token level, every
position arbitrary, strict or lenient): the document with that name and one Assignment per line — a multi-word value is
the string of its words joined by one space — and exactly the warnings `mwnWarns`. -/
theorem parseDocument_mwn (f : Frame) (name : Str) (lines : List NQLine) (hwf : ∀ ln ∈ lines, ln.WF)
    (hm : mwnMetaFirst lines = false) (st : PState) (hd : st.depth = 0) (hr : st.rest = mwnToks f name lines) :
    ∃ st', parseDocument st = .ok ({ name := name, sections := lines.map NQLine.node }, st') ∧
      st'.warnings = (mwnWarns [] lines).reverse ++ st.warnings := by
  obtain ⟨u, K, hK, h1, h2, h3, h4, h5, h6⟩ := mwn_body_head f lines hm
  obtain ⟨rest, prev, pos, last, warnings, depth, warned, strict, threshold, alpha⟩ := st
  simp only at hd hr
  subst hd
  have hrest : rest = f.envTok name :: f.nl0Tok :: u :: K := by rw [hr, mwnToks, hK]
  subst hrest
  have hlenK : (u :: K).length = (lines.flatMap NQLine.toks).length + 3 := by
    have := congrArg List.length hK
    simp only [List.length_append, List.length_cons, List.length_nil] at this ⊢
    omega
  have hlen : 2 * lines.length + 3 ≤ (u :: K).length := by
    have h2 := mwn_toks_length lines
    omega
  unfold parseDocument
  simp (config := {zeta := false}) only [bind, StateT.bind, Except.bind, budget_mk]
  extract_lets n doc0 jp5 jp4 jp3 jp2 jp1
  step_simp [Frame.envTok, Frame.nl0Tok, skipWhitespace_stop]
  simp only [jp1]
  step_simp []
  simp only [jp2]
  step_simp [skipWhitespace_newline, pyStrVal_str, h1, h2]
  simp only [jp3]
  step_simp [h6]
  simp only [jp4]
  step_simp [h3]
  simp only [jp5]
  step_simp []
  obtain ⟨extra, hextra⟩ : ∃ extra, 2 * n = 2 * lines.length + 1 + extra :=
    ⟨2 * n - (2 * lines.length + 1), by simp only [n, List.length_cons] at hlen ⊢; omega⟩
  have hvf : ∀ ln ∈ lines, ln.need ≤ n := by
    intro ln hln
    have := mwn_need_le lines ln hln
    simp only [n, List.length_cons] at hlenK ⊢; omega
  obtain ⟨p', n', hdl⟩ := docLoop_mwn n lines f.endTok [f.nl1Tok, f.eofTok] (Or.inl rfl) hwf hvf [] [] extra
    (some { type := TT.newline, value := TVal.str "\n".toList, line := f.nl0L, col := f.nl0C }) (pos + 1 + 1) last warnings warned strict threshold alpha
  rw [hK, ← hextra] at hdl
  rw [hdl]
  step_simp [List.nil_append]
  exact SpellParse.finish_doc _ _ f.endTok


/-! ### non-vacuity: symbolic positions -/

/-- `3 blind mice` at arbitrary positions: the value is the string `3 blind mice`, one `multi_word_coalesce` warning with
context `number_identifier` at the number. -/
example (l c l1 c1 l2 c2 l3 c3 : Nat) (k : List Token)
    (p : Option Token) (n : Nat) (la : Token) (w : List Warning) (d : Nat) (wd : List Nat) (s : Bool) (th : Nat) (al : Char → Bool) :
    ∃ p', parseValue (0 + 2 + 2)
        { rest := tInt 3 l c :: ([tIdent "blind".toList l1 c1, tIdent "mice".toList l2 c2] ++ tNewline l3 c3 :: k), prev := p, pos := n, last := la,
          warnings := w, depth := d, warned := wd, strict := s, threshold := th, alpha := al }
      = .ok (.str "3 blind mice".toList,
             { rest := tNewline l3 c3 :: k, prev := p', pos := n + 1 + 2, last := la,
               warnings := .multiWord ["3".toList, "blind".toList, "mice".toList] "3 blind mice".toList "number_identifier".toList l c :: w, depth := d,
               warned := wd, strict := s, threshold := th, alpha := al }) :=
  parseValue_nwint 3 l c (MWToks.cons "blind".toList l1 c1 (MWToks.cons "mice".toList l2 c2 MWToks.nil)) (by simp)
    (tNewline l3 c3) k rfl 0 p n la w d wd s th al

end Octave.MWN
