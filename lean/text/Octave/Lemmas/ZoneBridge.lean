import Octave.Lemmas.ZoneLex
import Octave.Lemmas.ZoneParse
import Octave.Lemmas.FlatBridge
/-!
Glue between the lexer half (`ZoneLex`: concrete positions, content as LINES `C`) and the parser half (`ZoneParse`: arbitrary
positions) of the literal-zone round trip (C05), and the emitter on a zone followed by flat lines.

* `zoneAt`, `zoneFrame`, `zoneItems`: the lexer's token positions as `ZoneParse.Zone` / `FlatParse.Frame` / `ZoneParse.Item`s;
  `zoneFlatDocToks_bridge` (the two descriptions of the token list agree), `zoneFlatDoc` (the document), `itemDoc_bridge`;
* `parse_zoneFlatDocLines` / `parseWithWarnings_zoneFlatDocLines`: **lexer ∘ parser** on the text `zoneFlatDocLines` through
  the real entry points `Parser.parse` (strict) / `Parser.parseWithWarnings` (lenient, exact receipts and warnings);
* `contentLines`, `emit_zoneFlatDoc`: the emitter writes exactly `zoneFlatDocLines … (contentLines content) lines`
  (content `""` → the EMPTY zone, no content line).
-/
namespace Octave
open Lexer Emitter

/-- the zone assignment as the lexer positions it in `zoneFlatDocLines` (key on line 2, `n` content lines). -/
def zoneAt (key content : Str) (tag : Option Str) (marker : Str) (n : Nat) : ZoneParse.Zone :=
  { key := key, content := content, tag := tag, marker := marker,
    p := { kl := 2, kc := 1, al := 2, ac := key.length + 1, n0l := 2, n0c := key.length + 3, ol := 3, oc := 1, ll := 4, lc := 1,
           cl := n + 4, cc := 1, n1l := n + 4, n1c := marker.length + 1 } }

/-- positions of the frame tokens: `n` content lines, `m` flat lines after the zone. -/
def zoneFrame (name : Str) (n m : Nat) : FlatParse.Frame :=
  { envL := 1, envC := 1, nl0L := 1, nl0C := name.length + 7, endL := n + m + 5, endC := 1, nl1L := n + m + 5, nl1C := 10,
    eofL := n + m + 6, eofC := 1 }

/-- the body: the zone assignment, then the flat lines (first one on line `n + 5`). -/
def zoneItems (key content : Str) (tag : Option Str) (marker : Str) (n : Nat) (lines : List FLine) : List ZoneParse.Item :=
  .zone (zoneAt key content tag marker n) :: (toPLines (n + 5) lines).map .line

theorem flatMap_lineItems (ls : List FlatParse.Line) :
    (ls.map ZoneParse.Item.line).flatMap ZoneParse.Item.toks = ls.flatMap FlatParse.Line.toks := by
  induction ls with
  | nil => rfl
  | cons a r ih => simp only [List.map_cons, List.flatMap_cons, ih, ZoneParse.Item.toks]

/-- the two descriptions of the token list agree. -/
theorem zoneFlatDocToks_bridge (env : Env) (name key marker trailing : Str) (C : List Str) (lines : List FLine) :
    zoneFlatDocToks env name key marker trailing C lines =
      ZoneParse.itemToks (zoneFrame name C.length lines.length) name
        (zoneItems key (joinWith ['\n'] C) (tagOf env trailing) marker C.length lines) := by
  simp only [zoneFlatDocToks, zoneFlatDocToksRev, ZoneParse.itemToks, zoneItems, List.reverse_cons, List.reverse_append,
    lines_toks_bridge, List.flatMap_cons, flatMap_lineItems]
  simp [zoneFrame, zoneAt, FlatParse.Frame.envTok, FlatParse.Frame.nl0Tok, FlatParse.Frame.endTok, FlatParse.Frame.nl1Tok,
    FlatParse.Frame.eofTok, ZoneParse.Item.toks, ZoneParse.Zone.toks, ZoneParse.Zone.head, ZoneParse.Zone.keyTok,
    ZoneParse.Zone.assignTok, ZoneParse.Zone.nl0Tok, ZoneParse.Zone.openTok, ZoneParse.Zone.litTok, ZoneParse.Zone.closeTok,
    ZoneParse.Zone.nlTok, tEof, tNewline, tEnvEnd, tEnvStart, tIdent, tAssign, tFenceOpen, tLiteral, tFenceClose]

/-- the document: `KEY::` + zone (node position `l`, `c`), then flat assignments (positions `pos i`). -/
def zoneFlatDoc (name key marker : Str) (tag : Option Str) (content : Str) (l c : Nat) (pos : Nat → Nat × Nat) (lines : List FLine) :
    Document :=
  { name := name, sections := .assign key (.zone content tag marker) l c [] none :: flatNodes pos 0 lines }

theorem lineNodes_bridge (k : Nat) : ∀ (ls : List FLine) (i : Nat),
    (toPLines (i + k) ls).map FlatParse.Line.node = flatNodes (fun i => (i + k, 1)) i ls := by
  intro ls
  induction ls with
  | nil => intro i; rfl
  | cons ln r ih =>
    intro i
    simp only [toPLines, List.map_cons, flatNodes, node_bridge]
    rw [show i + k + 1 = (i + 1) + k by omega, ih (i + 1)]

theorem itemDoc_bridge (name key content : Str) (tag : Option Str) (marker : Str) (n : Nat) (lines : List FLine) :
    ZoneParse.itemDoc name (zoneItems key content tag marker n lines) =
      zoneFlatDoc name key marker tag content 2 1 (fun i => (i + (n + 5), 1)) lines := by
  have h := lineNodes_bridge (n + 5) lines 0
  rw [Nat.zero_add] at h
  simp only [ZoneParse.itemDoc, zoneItems, zoneFlatDoc, List.map_cons, List.map_map]
  have : (toPLines (n + 5) lines).map (ZoneParse.Item.node ∘ ZoneParse.Item.line) = (toPLines (n + 5) lines).map FlatParse.Line.node := rfl
  rw [this, h]
  rfl

theorem metaFirstI_zoneItems (key content : Str) (tag : Option Str) (marker : Str) (n : Nat) (lines : List FLine) :
    ZoneParse.metaFirstI (zoneItems key content tag marker n lines) = (key == "META".toList) := rfl

theorem stripFrontmatter_zone (env : Env) (name key marker trailing : Str) (C : List Str) (lines : List FLine) :
    Parser.stripFrontmatter env (zoneFlatDocLines name key marker trailing C lines)
      = (zoneFlatDocLines name key marker trailing C lines, none) := by
  unfold Parser.stripFrontmatter
  have : startsWith "---".toList (zoneFlatDocLines name key marker trailing C lines) = false := by
    simp [zoneFlatDocLines, zonedText, lineBlock, envLine, startsWith, List.isPrefixOf]
  rw [this]; rfl

/-- receipts of the document: the identifier notes of the zone key and of the flat lines — none from the zone. -/
def zoneFlatReps (key : Str) (n : Nat) (lines : List FLine) : List Repair :=
  identifierRepairs key 2 1 ++ (linesRepsRev (n + 5) lines).reverse

/-- **Lexer ∘ parser, strict entry point, on a zone assignment followed by flat lines** (content given by its lines `C`):
`Parser.parse` returns exactly the document — the zone carries the content lines joined by line breaks, the tag and
the marker; the following lines are read as they are in a flat document.  Hypotheses: those of `tokenize_zoneFlatDoc`
and `key ≠ "META"` (the zone assignment is the FIRST body item). -/
theorem parse_zoneFlatDocLines (env : Env) (name key marker trailing : Str) (C : List Str) (lines : List FLine)
    (hn : isEnvName name = true) (hne : name ≠ "END".toList)
    (hk : isIdentifierText key = true) (hkr : hasReservedPrefix key = false) (hkm : key ≠ "META".toList)
    (hm : isMarker marker = true) (ht : tagTextOK trailing = true)
    (hC : ∀ l ∈ C, NoNl l ∧ contentLineOK marker l = true)
    (hok : ∀ ln ∈ lines, ln.OK)
    (hnfc : ∀ l ∈ zoneDocPlain name key marker trailing ++ lines.map FLine.text, env.nfc l = l) :
    Parser.parse env (zoneFlatDocLines name key marker trailing C lines) =
      .ok (zoneFlatDoc name key marker (tagOf env trailing) (joinWith ['\n'] C) 2 1 (fun i => (i + (C.length + 5), 1)) lines) := by
  have hlex := tokenize_zoneFlatDoc env false name key marker trailing C lines hn hne hk hkr hm ht hC hok hnfc
  rw [zoneFlatDocToks_bridge] at hlex
  have hmf : ZoneParse.metaFirstI (zoneItems key (joinWith ['\n'] C) (tagOf env trailing) marker C.length lines) = false := by
    rw [metaFirstI_zoneItems]; simpa using hkm
  have hp := ZoneParse.parseDocument_items (zoneFrame name C.length lines.length) name
    (zoneItems key (joinWith ['\n'] C) (tagOf env trailing) marker C.length lines)
    (Parser.initState env (ZoneParse.itemToks (zoneFrame name C.length lines.length) name
      (zoneItems key (joinWith ['\n'] C) (tagOf env trailing) marker C.length lines)) true) hmf rfl
  unfold Parser.parse
  simp only [stripFrontmatter_zone, hlex, bind, Except.bind, StateT.run, hp, pure, Except.pure, itemDoc_bridge]
  rfl

/-- … and the lenient entry point: the same document, the receipts `zoneFlatReps` (identifier notes only), the parser
warnings `itemWarns` (W_PATTERN_AUTOQUOTE / duplicate keys of the items; none from the zone itself). -/
theorem parseWithWarnings_zoneFlatDocLines (env : Env) (name key marker trailing : Str) (C : List Str) (lines : List FLine)
    (hn : isEnvName name = true) (hne : name ≠ "END".toList)
    (hk : isIdentifierText key = true) (hkr : hasReservedPrefix key = false) (hkm : key ≠ "META".toList)
    (hm : isMarker marker = true) (ht : tagTextOK trailing = true)
    (hC : ∀ l ∈ C, NoNl l ∧ contentLineOK marker l = true)
    (hok : ∀ ln ∈ lines, ln.OK)
    (hnfc : ∀ l ∈ zoneDocPlain name key marker trailing ++ lines.map FLine.text, env.nfc l = l) :
    Parser.parseWithWarnings env (zoneFlatDocLines name key marker trailing C lines) =
      .ok (zoneFlatDoc name key marker (tagOf env trailing) (joinWith ['\n'] C) 2 1 (fun i => (i + (C.length + 5), 1)) lines,
           zoneFlatReps key C.length lines,
           ZoneParse.itemWarns [] (zoneItems key (joinWith ['\n'] C) (tagOf env trailing) marker C.length lines)) := by
  have hlex := tokenize_zoneFlatDoc env false name key marker trailing C lines hn hne hk hkr hm ht hC hok hnfc
  rw [zoneFlatDocToks_bridge] at hlex
  have hmf : ZoneParse.metaFirstI (zoneItems key (joinWith ['\n'] C) (tagOf env trailing) marker C.length lines) = false := by
    rw [metaFirstI_zoneItems]; simpa using hkm
  have hp := ZoneParse.parseDocument_items (zoneFrame name C.length lines.length) name
    (zoneItems key (joinWith ['\n'] C) (tagOf env trailing) marker C.length lines)
    (Parser.initState env (ZoneParse.itemToks (zoneFrame name C.length lines.length) name
      (zoneItems key (joinWith ['\n'] C) (tagOf env trailing) marker C.length lines)) false) hmf rfl
  unfold Parser.parseWithWarnings
  simp only [stripFrontmatter_zone, hlex, bind, Except.bind, StateT.run, hp, pure, Except.pure, itemDoc_bridge, zoneFlatReps]
  simp [Parser.initState]
  rfl

/-! ### the emitter on a zone followed by flat lines -/

/-- the content lines the emitter writes: none for content `""` (`if content.isEmpty then [] else [content]`). -/
def contentLines (content : Str) : List Str := if content.isEmpty then [] else splitLines content

theorem joinWith_contentLines (content : Str) : joinWith ['\n'] (contentLines content) = content := by
  unfold contentLines
  cases content with
  | nil => rfl
  | cons c r => simp only [List.isEmpty_cons, Bool.false_eq_true, if_false, joinWith_splitLines]

theorem lineBlock_contentLines (content : Str) :
    lineBlock (contentLines content) = lineBlock (if content.isEmpty then [] else [content]) := by
  unfold contentLines
  cases content with
  | nil => rfl
  | cons c r => simp only [List.isEmpty_cons, Bool.false_eq_true, if_false, lineBlock_splitLines, lineBlock]

theorem joinWith_lineBlock (ls : List Str) (x : Str) : joinWith ['\n'] (ls ++ [x]) = lineBlock ls ++ x := by
  induction ls with
  | nil => rfl
  | cons l ls ih =>
    cases ls with
    | nil => simp [joinWith, lineBlock]
    | cons m ms =>
      simp only [List.cons_append, joinWith, lineBlock] at ih ⊢
      rw [ih]; simp

theorem lineBlock_lines (lines : List FLine) : lineBlock (lines.map FLine.text) = linesText lines := by
  induction lines with
  | nil => rfl
  | cons ln r ih => simp only [List.map_cons, lineBlock, linesText, ih]

/-- **The emitter on a zone followed by flat lines** writes exactly `zoneFlatDocLines` with the content lines
`contentLines content`: the content between the fence lines, not a character added, removed or escaped; the flat lines
after it as in a flat document. -/
theorem emit_zoneFlatDoc (env : Env) (name key marker : Str) (tag : Option Str) (content : Str) (l c : Nat)
    (pos : Nat → Nat × Nat) (lines : List FLine) (h : ∀ ln ∈ lines, ln.EmitOK) :
    emit env (zoneFlatDoc name key marker tag content l c pos lines) =
      some (zoneFlatDocLines name key marker (tag.getD []) (contentLines content) lines) := by
  have ht := emitTop_flat env pos lines 0 h
  have hbody : emitBody env (zoneFlatDoc name key marker tag content l c pos lines) =
      some (joinWith ['\n'] (([envLine name, keyLine key] ++ fenceLines 0 content tag marker ++ lines.map FLine.text) ++ ["===END===".toList])) := by
    unfold emitBody
    simp only [zoneFlatDoc, emitMetaLines, emitTop, emitNode, emitAssignment, ht, leadingLines, List.map_nil, List.isEmpty_nil,
      Bool.true_or, if_true, Bool.false_eq_true, if_false, List.nil_append, List.append_nil, bind, Option.bind, pure, indentStr,
      List.replicate, Bool.false_and]
    rfl
  unfold emit
  rw [hbody, Option.map_some, joinWith_lineBlock]
  have hfin : ∀ s : Str, finishText (s ++ "===END===".toList) = s ++ "===END===\n".toList := by
    intro s; simp [finishText]
  rw [hfin]
  simp only [zoneFlatDocLines, zonedText, zoneSpanText, lineBlock_append, lineBlock_lines, lineBlock_contentLines]
  cases tag <;> simp [fenceLines, lineBlock, lineBlock_append, fenceOpenLine, fenceCloseLine, spaces, indentStr, List.append_assoc]

end Octave
