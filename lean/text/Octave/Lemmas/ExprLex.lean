import Octave.Lemmas.FlatSpell
/-!
OPERATOR EXPRESSIONS as values of a flat document, and their ASCII-alias spellings — lexer half.

An expression value `w0 op1 w1 … opn wn` (n ≥ 1) is, in the AST, the string `w0 ++ op1 ++ w1 ++ …` (`Expr.text`); the
emitter writes it bare (`isExpressionText`).  The operators are the seven the emitter's `_UNICODE_OPS` and the parser's
`EXPRESSION_OPERATORS` agree on: `→ ⊕ ⧺ ⇌ ∨ ∧ @` (`Op`).  A *spelling* chooses, per operator occurrence and
independently (`OpSp`): the form — the Unicode operator, its ASCII alias (`->` `+` `~` `<->` `|` `&`; `@` has none), or
for `⇌` the word `vs` (which the lexer only recognises between word boundaries: it is written with at least one space on
either side) — and any number of spaces before and after the operator.

This file proves, on the `Run` / `Adv` infrastructure of `FlatLexBase`:

* per-operator steps (`step_core`): the Unicode operator gives one token and no receipt; each alias gives the SAME token
  type and value with `normFrom := some alias` and exactly one `Repair.normalization alias value line col`;
* an operand (identifier-shaped word without reserved prefix) followed by an operator in any form, by spaces or by the
  line end is one IDENTIFIER token (`step_operand`; new cases: a following `->` — the hyphen is first taken into the
  identifier run and given back — and a following `<->`, which is not an annotation tail);
* the expression run (`run_expr`), lines, the whole document (`run_edoc`) and `tokenize_edoc`: exactly the expected
  tokens and exactly the receipts of the chosen aliases with their positions.

Environment: the Unicode operators are not ASCII, so the lexer consults `Env` for them (`OpEnv`: no operator character is
an identifier-body char or a digit — they are symbols — category Sm, `⇌` So, `§` Po —; true for CPython's `unicodedata`, trivially for `Env.ascii`).
-/
namespace Octave.Expr
open Octave Lexer Scan Emitter Spell

/-! ### operators -/

/-- the expression operators (`_UNICODE_OPS` of the emitter = `EXPRESSION_OPERATORS` of the parser). -/
inductive Op where
  | flow | synth | concat | tension | alt | constr | at_
  deriving DecidableEq, Repr

/-- the canonical (Unicode) character. -/
def Op.ch : Op → Char
  | .flow => '→' | .synth => '⊕' | .concat => '⧺' | .tension => '⇌' | .alt => '∨' | .constr => '∧' | .at_ => '@'

/-- the token type. -/
def Op.tt : Op → TT
  | .flow => .flow | .synth => .synthesis | .concat => .concat | .tension => .tension | .alt => .alternative
  | .constr => .constraint | .at_ => .at_

/-- the ASCII alias (none for `@`). -/
def Op.ascii : Op → Option Str
  | .flow => some "->".toList | .synth => some "+".toList | .concat => some "~".toList | .tension => some "<->".toList
  | .alt => some "|".toList | .constr => some "&".toList | .at_ => none

/-- the written form of one occurrence. -/
inductive Form where
  | canon | alias | word
  deriving DecidableEq, Repr

/-- the `normFrom` of the token (= the original text of the receipt): `none` for the canonical form. -/
def coreNf : Op → Form → Option Str
  | _, .canon => none
  | o, .alias => o.ascii
  | .tension, .word => some "vs".toList
  | _, .word => none

/-- the operator as written (without the spaces around it). -/
def coreText (o : Op) (f : Form) : Str := (coreNf o f).getD [o.ch]

/-- the word form `vs` (needs a space on either side). -/
def isWordForm (o : Op) (f : Form) : Bool := o == .tension && f == .word

/-- the operator token: same type and value for every form; `normFrom` records the alias. -/
def tOp (o : Op) (nf : Option Str) (l c : Nat) : Token :=
  { type := o.tt, value := .str [o.ch], line := l, col := c, normFrom := nf }

/-- the receipt of an occurrence written with an alias (newest-first list, at most one). -/
def opReps (o : Op) (nf : Option Str) (l c : Nat) : List Repair :=
  match nf with
  | some a => [Repair.normalization a (.str [o.ch]) l c]
  | none => []

/-- what the lexer needs to know about the non-ASCII operator characters: they are neither identifier-body chars nor
digits (they are symbols: Unicode categories Sm, So, Po). -/
structure OpEnv (env : Env) : Prop where
  idChar : ∀ c, isOperatorChar c = true → env.idCharU c = false
  digit : ∀ c, isOperatorChar c = true → env.digitU c = none

theorem opEnv_ascii : OpEnv Env.ascii := ⟨fun _ _ => rfl, fun _ _ => rfl⟩

/-! ### one pattern-branch step, generically -/

/-- a pattern match whose text holds no line break: one token, the receipt of its `normFrom`, same line, column + length. -/
theorem step_of_match (env : Env) (lenient : Bool) (st : LState) (c : Char) (r : Str) (m : Match) (hr : Ready st)
    (hc : c ≠ ' ') (hm : matchPattern env false st.prev (c :: r) = .ok (some m))
    (h1 : m.type ≠ .listEnd) (h2 : m.type ≠ .listStart) (hnl : ∀ d ∈ m.text, d ≠ '\n') :
    ∃ st', step env lenient st (c :: r) = .ok (st', m.rest) ∧
      Adv st st' [{ type := m.type, value := m.value, line := st.line, col := st.col, normFrom := m.normFrom, raw := m.raw }]
        (match m.normFrom with | some o => [Repair.normalization o m.value st.line st.col] | none => [])
        0 (st.col + m.text.length) (m.text.getLast?.orElse (fun _ => st.prev)) := by
  have hm' : matchPattern env st.blank st.prev (c :: r) = .ok (some m) := by rw [hr.blank]; exact hm
  refine ⟨_, pattern_step_eq env lenient st c r m hr.noSpan hc hm' h1 h2, ?_⟩
  have hadv := advancePos_noNl st.line st.col m.text hnl
  refine ⟨⟨hr.spans, by simp [patNext, hr.blank]⟩, rfl, ?_, rfl, ?_, ?_, rfl⟩
  · simp only [patNext]
    cases m.normFrom <;> rfl
  · simp [patNext, hadv]
  · simp [patNext, hadv]

/-! ### `matchPattern` on the operator forms -/

theorem isDigit_opChar (env : Env) (he : OpEnv env) (c : Char) (h : isOperatorChar c = true) (ha : isAscii c = false) :
    env.isDigit c = false := by
  simp [Env.isDigit, Env.digit?, ha, he.digit c h]

/-- the one-character operator / punctuation patterns. -/
theorem matchPattern_single (env : Env) (prev : Option Char) (c : Char) (t : TT) (r : Str)
    (hd : env.isDigit c = false) (hsc : singleCharType c = some t)
    (hne : (c == '=' || c == '-' || c == '"' || c == 'v' || c == 't' || c == 'f' || c == 'n' || c == '/' || c == ':' ||
            c == '<' || c == '$' || c == '\n') = false) :
    matchPattern env false prev (c :: r) = .ok (some (simple t [c] r)) := by
  simp only [Bool.or_eq_false_iff] at hne
  obtain ⟨⟨⟨⟨⟨⟨⟨⟨⟨⟨⟨e1, e2⟩, e3⟩, e4⟩, e5⟩, e6⟩, e7⟩, e8⟩, e9⟩, e10⟩, e11⟩, e12⟩ := hne
  unfold matchPattern
  simp only [Bool.false_eq_true, if_false, hd, e1, e2, e3, e4, e5, e6, e7, Bool.or_self, matchPunct, e8, e9, e10, e11, e12, hsc,
    Option.map_some]

theorem matchPattern_arrow (env : Env) (prev : Option Char) (r : Str) :
    matchPattern env false prev ('-' :: '>' :: r) = .ok (some (simple .flow "->".toList r)) := by
  have hd : env.isDigit '-' = false := isDigit_dash env
  unfold matchPattern
  simp only [Bool.false_eq_true, if_false, hd]
  rw [if_neg (by decide), if_pos (by decide)]
  have h1 : lit "---".toList ('-' :: '>' :: r) = none := by simp [lit]
  have h2 : lit "->".toList ('-' :: '>' :: r) = some r := lit_append "->".toList r
  unfold matchDash
  rw [h1, h2]

theorem matchPattern_lrarrow (env : Env) (prev : Option Char) (r : Str) :
    matchPattern env false prev ('<' :: '-' :: '>' :: r) = .ok (some (simple .tension "<->".toList r)) := by
  have hd : env.isDigit '<' = false := isDigit_ascii_false env '<' (by decide) (by decide)
  have h2 : lit "<->".toList ('<' :: '-' :: '>' :: r) = some r := lit_append "<->".toList r
  unfold matchPattern
  simp only [Bool.false_eq_true, if_false, hd]
  rw [if_neg (by decide), if_neg (by decide), if_neg (by decide), if_neg (by decide)]
  unfold matchPunct
  rw [if_neg (by decide), if_neg (by decide), if_pos (by decide), h2]
  rfl

theorem matchPattern_plus (env : Env) (prev : Option Char) (r : Str) :
    matchPattern env false prev ('+' :: r) = .ok none := by
  have hd : env.isDigit '+' = false := isDigit_plus env
  unfold matchPattern
  simp only [Bool.false_eq_true, if_false, hd]
  rw [if_neg (by decide), if_neg (by decide), if_neg (by decide), if_neg (by decide)]
  unfold matchPunct
  rw [if_neg (by decide), if_neg (by decide), if_neg (by decide), if_neg (by decide), if_neg (by decide)]
  have : singleCharType '+' = none := by decide
  rw [this]; rfl

theorem matchPattern_vs (env : Env) (prev : Option Char) (rest : Str)
    (hp : NonWord env prev) (hn : NonWord env rest.head?) :
    matchPattern env false prev ('v' :: 's' :: rest) = .ok (some (simple .tension "vs".toList rest)) := by
  have hd : env.isDigit 'v' = false := isDigit_ascii_false env 'v' (by decide) (by decide)
  have hk : kw env prev "vs".toList ('v' :: ("s".toList ++ rest)) = some rest :=
    kw_ok env prev 'v' "s".toList rest 's' (by decide) (word_lower env 'v' (by decide)) (word_lower env 's' (by decide)) hp hn
  unfold matchPattern
  simp only [Bool.false_eq_true, if_false, hd]
  rw [if_neg (by decide), if_neg (by decide), if_neg (by decide), if_pos (by decide)]
  unfold matchKeyword
  rw [if_pos (by decide)]
  have hk' : kw env prev "vs".toList ('v' :: 's' :: rest) = some rest := hk
  rw [hk']
  rfl

def mOp (o : Op) (f : Form) (rest : Str) : Match :=
  { type := o.tt, value := .str [o.ch], text := coreText o f, rest := rest, normFrom := coreNf o f }

theorem singleCharType_ch (o : Op) : singleCharType o.ch = some o.tt := by cases o <;> rfl

theorem isOperatorChar_ch (o : Op) (h : o ≠ .at_) : isOperatorChar o.ch = true := by
  cases o <;> first | rfl | exact absurd rfl h

theorem isDigit_ch (env : Env) (he : OpEnv env) (o : Op) : env.isDigit o.ch = false := by
  by_cases h : o = .at_
  · subst h; exact isDigit_ascii_false env '@' (by decide) (by decide)
  · exact isDigit_opChar env he o.ch (isOperatorChar_ch o h) (by cases o <;> first | rfl | exact absurd rfl h)

theorem simple_canon (o : Op) (rest : Str) : simple o.tt [o.ch] rest = mOp o .canon rest := by
  cases o <;> rfl

theorem matchPattern_canon (env : Env) (he : OpEnv env) (prev : Option Char) (o : Op) (rest : Str) :
    matchPattern env false prev (o.ch :: rest) = .ok (some (mOp o .canon rest)) := by
  rw [matchPattern_single env prev o.ch o.tt rest (isDigit_ch env he o) (singleCharType_ch o) (by cases o <;> rfl), simple_canon]

theorem matchPattern_single_ascii (env : Env) (prev : Option Char) (c : Char) (t : TT) (r : Str)
    (ha : isAscii c = true) (hd : isDigitA c = false) (hsc : singleCharType c = some t)
    (hne : (c == '=' || c == '-' || c == '"' || c == 'v' || c == 't' || c == 'f' || c == 'n' || c == '/' || c == ':' ||
            c == '<' || c == '$' || c == '\n') = false) :
    matchPattern env false prev (c :: r) = .ok (some (simple t [c] r)) :=
  matchPattern_single env prev c t r (isDigit_ascii_false env c ha hd) hsc hne

/-- the match of every form except `+` (which no pattern matches: the fallback branch of `step` handles it). -/
theorem matchPattern_core (env : Env) (he : OpEnv env) (prev : Option Char) (o : Op) (f : Form) (rest : Str)
    (hplus : ¬(o = .synth ∧ f = .alias))
    (hvs : isWordForm o f = true → NonWord env prev ∧ NonWord env rest.head?) :
    matchPattern env false prev (coreText o f ++ rest) = .ok (some (mOp o f rest)) := by
  cases o <;> cases f
  all_goals first
    | exact matchPattern_canon env he prev _ rest
    | exact absurd ⟨rfl, rfl⟩ hplus
    | exact matchPattern_arrow env prev rest
    | exact matchPattern_lrarrow env prev rest
    | exact matchPattern_vs env prev rest (hvs rfl).1 (hvs rfl).2
    | exact matchPattern_single_ascii env prev '~' .concat rest (by decide) (by decide) (by decide) (by decide)
    | exact matchPattern_single_ascii env prev '|' .alternative rest (by decide) (by decide) (by decide) (by decide)
    | exact matchPattern_single_ascii env prev '&' .constraint rest (by decide) (by decide) (by decide) (by decide)

theorem coreText_props (o : Op) (f : Form) :
    ∃ c t, coreText o f = c :: t ∧ c ≠ ' ' ∧ (∀ d ∈ c :: t, d ≠ '\n' ∧ d ≠ '\t') ∧ c ≠ '`' := by
  cases o <;> cases f <;> exact ⟨_, _, rfl, by decide, by decide, by decide⟩

/-- **one operator occurrence** in any form: one token of the operator's type carrying the Unicode operator; for an
alias `normFrom := some alias` and exactly one normalisation receipt at the token's position; for the canonical form
neither.  (`vs` needs non-word chars around it.) -/
theorem step_core (env : Env) (he : OpEnv env) (lenient : Bool) (st : LState) (o : Op) (f : Form) (rest : Str) (hr : Ready st)
    (hvs : isWordForm o f = true → NonWord env st.prev ∧ NonWord env rest.head?) :
    ∃ st' p, step env lenient st (coreText o f ++ rest) = .ok (st', rest) ∧
      Adv st st' [tOp o (coreNf o f) st.line st.col] (opReps o (coreNf o f) st.line st.col) 0
        (st.col + (coreText o f).length) p := by
  by_cases hplus : o = .synth ∧ f = .alias
  · obtain ⟨rfl, rfl⟩ := hplus
    refine ⟨{ st with pos := st.pos + 1, prev := some '+', col := st.col + 1,
                      toks := tOp .synth (some ['+']) st.line st.col :: st.toks,
                      repairs := Repair.normalization ['+'] (.str ['⊕']) st.line st.col :: st.repairs, blank := false }, some '+', ?_, ?_⟩
    · show step env lenient st ('+' :: rest) = _
      have h3 : startsWith "===".toList ('+' :: rest) = false := by simp [startsWith, List.isPrefixOf]
      unfold step
      simp only [hr.noSpan, hr.blank, matchPattern_plus, h3, Bool.false_eq_true, if_false, bind, Except.bind, Bool.false_and]
      rw [if_neg (by decide)]
      simp only [if_true, beq_self_eq_true]
      rfl
    · exact ⟨⟨hr.spans, rfl⟩, rfl, rfl, rfl, rfl, rfl, rfl⟩
  · have hm := matchPattern_core env he st.prev o f rest hplus hvs
    obtain ⟨c, t, hct, hc, hnl, _⟩ := coreText_props o f
    rw [hct, List.cons_append] at hm ⊢
    obtain ⟨st', h1, h2⟩ := step_of_match env lenient st c (t ++ rest) (mOp o f rest) hr hc hm
      (by cases o <;> simp [mOp, Op.tt]) (by cases o <;> simp [mOp, Op.tt])
      (by intro d hd; exact (hnl d (by rw [← hct]; exact hd)).1)
    refine ⟨st', (mOp o f rest).text.getLast?.orElse (fun _ => st.prev), h1, ?_⟩
    have hlen : (mOp o f rest).text.length = (c :: t).length := by rw [← hct]; rfl
    rw [hlen] at h2
    exact h2

/-! ### the per-alias instances of `step_core`, spelled out (non-vacuity) -/

/-- `→`: FLOW(→), no `normFrom`, no receipt. -/
example (env : Env) (he : OpEnv env) (lenient : Bool) (st : LState) (rest : Str) (hr : Ready st) :
    ∃ st' p, step env lenient st ('→' :: rest) = .ok (st', rest) ∧
      Adv st st' [tOp .flow none st.line st.col] [] 0 (st.col + 1) p :=
  step_core env he lenient st .flow .canon rest hr (fun h => absurd h (by decide))
/-- `->`: the SAME token type and value, `normFrom := some "->"`, exactly one receipt. -/
example (env : Env) (he : OpEnv env) (lenient : Bool) (st : LState) (rest : Str) (hr : Ready st) :
    ∃ st' p, step env lenient st ('-' :: '>' :: rest) = .ok (st', rest) ∧
      Adv st st' [tOp .flow (some "->".toList) st.line st.col] [Repair.normalization "->".toList (.str ['→']) st.line st.col] 0
        (st.col + 2) p :=
  step_core env he lenient st .flow .alias rest hr (fun h => absurd h (by decide))
/-- `+` (no pattern matches it: the fallback branch of the main loop). -/
example (env : Env) (he : OpEnv env) (lenient : Bool) (st : LState) (rest : Str) (hr : Ready st) :
    ∃ st' p, step env lenient st ('+' :: rest) = .ok (st', rest) ∧
      Adv st st' [tOp .synth (some "+".toList) st.line st.col] [Repair.normalization "+".toList (.str ['⊕']) st.line st.col] 0
        (st.col + 1) p :=
  step_core env he lenient st .synth .alias rest hr (fun h => absurd h (by decide))
/-- `~`. -/
example (env : Env) (he : OpEnv env) (lenient : Bool) (st : LState) (rest : Str) (hr : Ready st) :
    ∃ st' p, step env lenient st ('~' :: rest) = .ok (st', rest) ∧
      Adv st st' [tOp .concat (some "~".toList) st.line st.col] [Repair.normalization "~".toList (.str ['⧺']) st.line st.col] 0
        (st.col + 1) p :=
  step_core env he lenient st .concat .alias rest hr (fun h => absurd h (by decide))
/-- `<->`. -/
example (env : Env) (he : OpEnv env) (lenient : Bool) (st : LState) (rest : Str) (hr : Ready st) :
    ∃ st' p, step env lenient st ('<' :: '-' :: '>' :: rest) = .ok (st', rest) ∧
      Adv st st' [tOp .tension (some "<->".toList) st.line st.col] [Repair.normalization "<->".toList (.str ['⇌']) st.line st.col] 0
        (st.col + 3) p :=
  step_core env he lenient st .tension .alias rest hr (fun h => absurd h (by decide))
/-- `|`. -/
example (env : Env) (he : OpEnv env) (lenient : Bool) (st : LState) (rest : Str) (hr : Ready st) :
    ∃ st' p, step env lenient st ('|' :: rest) = .ok (st', rest) ∧
      Adv st st' [tOp .alt (some "|".toList) st.line st.col] [Repair.normalization "|".toList (.str ['∨']) st.line st.col] 0
        (st.col + 1) p :=
  step_core env he lenient st .alt .alias rest hr (fun h => absurd h (by decide))
/-- `&`. -/
example (env : Env) (he : OpEnv env) (lenient : Bool) (st : LState) (rest : Str) (hr : Ready st) :
    ∃ st' p, step env lenient st ('&' :: rest) = .ok (st', rest) ∧
      Adv st st' [tOp .constr (some "&".toList) st.line st.col] [Repair.normalization "&".toList (.str ['∧']) st.line st.col] 0
        (st.col + 1) p :=
  step_core env he lenient st .constr .alias rest hr (fun h => absurd h (by decide))
/-- `vs` between non-word chars (`\bvs\b`). -/
example (env : Env) (he : OpEnv env) (lenient : Bool) (st : LState) (rest : Str) (hr : Ready st)
    (hp : NonWord env st.prev) (hn : NonWord env rest.head?) :
    ∃ st' p, step env lenient st ('v' :: 's' :: rest) = .ok (st', rest) ∧
      Adv st st' [tOp .tension (some "vs".toList) st.line st.col] [Repair.normalization "vs".toList (.str ['⇌']) st.line st.col] 0
        (st.col + 2) p :=
  step_core env he lenient st .tension .word rest hr (fun _ => ⟨hp, hn⟩)

/-! ### operands: an identifier followed by an operator in any form -/

/-- `kw_none` with a weaker condition on what follows: the keyword patterns do not match at the start of `s ++ rest`
when `s` does not begin with the keyword followed by a non-word char / its end, and `rest` does not continue with a
lower-case letter (every keyword is made of lower-case letters). -/
theorem kw_none' (env : Env) (prev : Option Char) (w s rest : Str) (lastc : Char)
    (hwb : ∀ d ∈ w, isLower d = true) (hwl : w.getLast? = some lastc) (hlw : isWordA lastc = true)
    (hres : w.isPrefixOf s = true → ((s.drop w.length).head?.map isWordA).getD false = true)
    (hrest : ∀ d, rest.head? = some d → isLower d = false) :
    kw env prev w (s ++ rest) = none := by
  unfold kw
  cases hl : lit w (s ++ rest) with
  | none => rfl
  | some r =>
    have heq := lit_eq hl
    have hb : env.boundary w.getLast? r.head? = false := by
      by_cases hp : w.isPrefixOf s = true
      · have hnext := hres hp
        obtain ⟨s', hs'⟩ := List.isPrefixOf_iff_prefix.mp hp
        subst hs'
        rw [List.append_assoc] at heq
        have hr : r = s' ++ rest := (List.append_cancel_left heq).symm
        simp only [List.drop_left] at hnext
        cases s' with
        | nil => simp at hnext
        | cons d s'' =>
          simp at hnext
          subst hr
          simp only [hwl, List.cons_append, List.head?_cons, Env.boundary, word_of_isWordA env d hnext, word_of_isWordA env lastc hlw]
          rfl
      · exfalso
        have hp2 : w.isPrefixOf (s ++ rest) = true := by rw [heq]; simp
        rw [List.isPrefixOf_iff_prefix] at hp2
        obtain ⟨k, hk⟩ := hp2
        rcases List.append_eq_append_iff.mp hk.symm with ⟨a, h1, h2⟩ | ⟨a, h1, h2⟩
        · cases a with
          | nil => simp at h1; subst h1; simp at hp
          | cons d a' =>
            have hd : isLower d = true := hwb d (by rw [h1]; simp)
            have := hrest d (by rw [h2]; rfl)
            rw [hd] at this; cases this
        · apply hp; rw [h1]; simp
    simp [hb]

theorem stripHyphens_one (c : Char) (t : Str) (h : (c :: t).getLast? ≠ some '-') :
    stripHyphens (c :: (t ++ ['-'])) = (c :: t, ['-']) := by
  have h0 : t.reverse.takeWhile (· == '-') = [] := by
    cases ht : t.reverse with
    | nil => rfl
    | cons x xs =>
      have hx : (c :: t).getLast? = some x := by
        have : t = (x :: xs).reverse := by rw [← ht]; simp
        rw [this, List.reverse_cons, ← List.cons_append, List.getLast?_append]; simp
      have hne : (x == '-') = false := by
        rw [beq_eq_false_iff_ne]; intro e; subst e; exact h hx
      simp [List.takeWhile, hne]
  have h1 : (t ++ ['-']).reverse.takeWhile (· == '-') = ['-'] := by
    rw [List.reverse_append]
    show List.takeWhile (· == '-') ('-' :: t.reverse) = ['-']
    rw [List.takeWhile_cons]
    simp [h0]
  unfold stripHyphens
  simp only [h1, List.length_append, List.length_cons, List.length_nil, Nat.zero_add, Nat.add_sub_cancel]
  simp

/-- what may follow an operand: a terminator in the sense of `TermOK` (line end, space, a one-character operator …), or
`->`, or `<-` (the start of `<->`). -/
def TermX (env : Env) (rest : Str) : Prop :=
  TermOK env rest ∨ (∃ r, rest = '-' :: '>' :: r) ∨ (∃ r, rest = '<' :: '-' :: r)

theorem idStart_of_identStart (env : Env) (c : Char) (hc : isIdentStartA c = true) : env.idStart c = true := by
  obtain ⟨ha, _⟩ := identStart_props c hc
  simp only [Env.idStart, ha, if_true]
  simp only [isIdentStartA, Bool.or_eq_true] at hc
  simp only [Bool.or_eq_true]
  rcases hc with h | h
  · exact Or.inl (Or.inl (Or.inl h))
  · exact Or.inl (Or.inl (Or.inr h))

theorem idChar_gt (env : Env) : env.idChar '>' = false := by
  simp [Env.idChar, isAscii, isAlnumA, isAlphaA, isDigitA, isUpper, isLower]
theorem idChar_lt (env : Env) : env.idChar '<' = false := by
  simp [Env.idChar, isAscii, isAlnumA, isAlphaA, isDigitA, isUpper, isLower]
theorem idChar_dash (env : Env) : env.idChar '-' = true := by
  simp [Env.idChar, isAscii]
theorem idStart_dash (env : Env) : env.idStart '-' = false := by
  simp [Env.idStart, isAscii, isAlphaA, isUpper, isLower]

/-- an identifier followed by `->`: the hyphen is taken into the identifier run and given back. -/
theorem matchIdentifier_arrow (env : Env) (lenient : Bool) (c : Char) (t r : Str)
    (hc : isIdentStartA c = true) (ht : t.all isIdentBodyA = true) (hl : (c :: t).getLast? ≠ some '-') :
    matchIdentifier env lenient (c :: t ++ '-' :: '>' :: r) = some (c :: t, '-' :: '>' :: r, none) := by
  have hstart := idStart_of_identStart env c hc
  have htw : takeWhile env.idChar (t ++ '-' :: '>' :: r) = (t ++ ['-'], '>' :: r) := by
    have := takeWhile_append_stop env.idChar (t ++ ['-']) ('>' :: r)
      (fun x hx => by
        rcases List.mem_append.mp hx with h | h
        · exact idChar_of_identBody env x ((List.all_eq_true.mp ht) x h)
        · have : x = '-' := by simpa using h
          subst this; exact idChar_dash env)
      (fun d hd => by
        have : d = '>' := by simpa using hd.symm
        subst this; exact idChar_gt env)
    simpa [List.append_assoc] using this
  have hrun : idRun env (c :: t ++ '-' :: '>' :: r) = some (c :: t, '-' :: '>' :: r) := by
    simp only [idRun, List.cons_append, hstart, if_true, htw, stripHyphens_one c t hl]
    rfl
  have hangle : angleTail env ('-' :: '>' :: r) = none := by simp [angleTail]
  have hcurly : curlyTail env ('-' :: '>' :: r) = none := by simp [curlyTail]
  simp only [matchIdentifier, hrun, hangle, hcurly]

/-- an identifier followed by `<-…` (the alias `<->`): `<-` does not open an annotation tail. -/
theorem matchIdentifier_lrarrow (env : Env) (lenient : Bool) (c : Char) (t r : Str)
    (hc : isIdentStartA c = true) (ht : t.all isIdentBodyA = true) (hl : (c :: t).getLast? ≠ some '-') :
    matchIdentifier env lenient (c :: t ++ '<' :: '-' :: r) = some (c :: t, '<' :: '-' :: r, none) := by
  have hstart := idStart_of_identStart env c hc
  have htw : takeWhile env.idChar (t ++ '<' :: '-' :: r) = (t, '<' :: '-' :: r) :=
    takeWhile_append_stop env.idChar t ('<' :: '-' :: r)
      (fun x hx => idChar_of_identBody env x ((List.all_eq_true.mp ht) x hx))
      (fun d hd => by
        have : d = '<' := by simpa using hd.symm
        subst this; exact idChar_lt env)
  have hrun : idRun env (c :: t ++ '<' :: '-' :: r) = some (c :: t, '<' :: '-' :: r) := by
    simp only [idRun, List.cons_append, hstart, if_true, htw, stripHyphens_id c t hl, List.nil_append]
  have hangle : angleTail env ('<' :: '-' :: r) = none := by
    simp [angleTail, idStart_dash]
  have hcurly : curlyTail env ('<' :: '-' :: r) = none := by simp [curlyTail]
  simp only [matchIdentifier, hrun, hangle, hcurly]

theorem isLower_identBody {d : Char} (h : isLower d = true) : isIdentBodyA d = true := by
  simp [isIdentBodyA, isAlnumA, isAlphaA, h]

/-- **an operand**: an identifier-shaped word without reserved prefix, followed by anything in `TermX`, is exactly one
IDENTIFIER token; what follows is left in the input. -/
theorem step_operand (env : Env) (lenient : Bool) (st : LState) (s rest : Str) (hr : Ready st)
    (hid : isIdentifierText s = true) (hres : hasReservedPrefix s = false) (hterm : TermX env rest) :
    ∃ st', step env lenient st (s ++ rest) = .ok (st', rest) ∧
      Adv st st' [tIdent s st.line st.col] (identifierRepairs s st.line st.col).reverse 0 (st.col + s.length)
        (s.getLast?.orElse (fun _ => st.prev)) := by
  rcases hterm with hterm | hterm
  · exact step_ident env lenient st s rest hr hid hres hterm
  -- the two new cases: same proof as `bare_identifier_step`, with the new `matchIdentifier` facts
  have hkwrest : ∀ d, rest.head? = some d → isLower d = false := by
    intro d hd
    rcases hterm with ⟨r, rfl⟩ | ⟨r, rfl⟩
    · have : d = '-' := by simpa using hd.symm
      subst this; decide
    · have : d = '<' := by simpa using hd.symm
      subst this; decide
  cases s with
  | nil => simp [isIdentifierText] at hid
  | cons c t =>
    simp only [isIdentifierText, Bool.and_eq_true, bne_iff_ne, ne_eq] at hid
    obtain ⟨⟨hc, ht⟩, hl⟩ := hid
    have hmi : matchIdentifier env lenient (c :: t ++ rest) = some (c :: t, rest, none) := by
      rcases hterm with ⟨r, rfl⟩ | ⟨r, rfl⟩
      · exact matchIdentifier_arrow env lenient c t r hc ht (by simpa using hl)
      · exact matchIdentifier_lrarrow env lenient c t r hc ht (by simpa using hl)
    have hra : reservedAt (c :: t) = false := by
      simp only [hasReservedPrefix, Bool.or_eq_false_iff] at hres; exact hres.1
    have hkw : ∀ (w : Str) (lastc : Char), w ∈ ["true".toList, "false".toList, "null".toList, "vs".toList] →
        (∀ d ∈ w, isLower d = true) → w.getLast? = some lastc → isWordA lastc = true →
        kw env st.prev w (c :: t ++ rest) = none := fun w lastc hw hwb hwl hlw =>
      kw_none' env st.prev w (c :: t) rest lastc hwb hwl hlw (reservedAt_false (c :: t) w hra hw) hkwrest
    have hmp : matchPattern env false st.prev (c :: (t ++ rest)) = .ok none :=
      matchPattern_identStart env st.prev c (t ++ rest) hc
        (fun _ => hkw ['v', 's'] 's' (by simp) (by decide) (by decide) (by decide))
        (fun _ => hkw ['t', 'r', 'u', 'e'] 'e' (by simp) (by decide) (by decide) (by decide))
        (fun _ => hkw ['f', 'a', 'l', 's', 'e'] 'e' (by simp) (by decide) (by decide) (by decide))
        (fun _ => hkw ['n', 'u', 'l', 'l'] 'l' (by simp) (by decide) (by decide) (by decide))
    have hsp : (c == ' ') = false := identStart_ne c ' ' hc (by decide)
    have heq3 : startsWith "===".toList (c :: (t ++ rest)) = false := by
      have hne : c ≠ '=' := by
        have := identStart_ne c '=' hc (by decide); simpa using this
      show List.isPrefixOf ['=', '=', '='] (c :: (t ++ rest)) = false
      simp only [List.isPrefixOf]
      have : ('=' == c) = false := by rw [beq_eq_false_iff_ne]; exact hne.symm
      simp [this]
    have hplus : (c == '+') = false := identStart_ne c '+' hc (by decide)
    simp only [List.cons_append] at hmi ⊢
    refine ⟨{ st with
        pos := st.pos + (c :: t).length, prev := (c :: t).getLast?.orElse (fun _ => st.prev), col := st.col + (c :: t).length,
        toks := { type := .identifier, value := .str (c :: t), line := st.line, col := st.col } :: st.toks,
        repairs := (identifierRepairs (c :: t) st.line st.col).reverse ++ st.repairs, blank := false }, ?_, ?_⟩
    · unfold step
      simp only [hr.noSpan, hsp, hr.blank, hmp, heq3, hplus, hmi, Bool.false_eq_true, if_false, bind, Except.bind, Bool.false_and]
      simp [List.take_left']
    · exact ⟨⟨hr.spans, rfl⟩, rfl, rfl, rfl, rfl, rfl, rfl⟩

/-! ### what follows an operand -/

theorem termOK_of_head (env : Env) (d : Char) (rest : Str) (h1 : env.idChar d = false) (h2 : isIdentBodyA d = false)
    (h3 : d ≠ '<') (h4 : d ≠ '{') : TermOK env (d :: rest) := by
  intro x hx
  have : x = d := by simpa using hx.symm
  subst this
  exact ⟨h1, h2, h3, h4⟩

theorem idChar_opChar (env : Env) (he : OpEnv env) (c : Char) (h : isOperatorChar c = true) (ha : isAscii c = false) :
    env.idChar c = false := by
  simp [Env.idChar, Env.idStart, ha, h, he.idChar c h]

theorem idChar_ch (env : Env) (he : OpEnv env) (o : Op) : env.idChar o.ch = false := by
  by_cases h : o = .at_
  · subst h; simp [Op.ch, Env.idChar, isAscii, isAlnumA, isAlphaA, isDigitA, isUpper, isLower]
  · exact idChar_opChar env he o.ch (isOperatorChar_ch o h) (by cases o <;> first | rfl | exact absurd rfl h)

theorem termOK_ch (env : Env) (he : OpEnv env) (o : Op) (rest : Str) : TermOK env (o.ch :: rest) :=
  termOK_of_head env o.ch rest (idChar_ch env he o) (by cases o <;> decide) (by cases o <;> decide) (by cases o <;> decide)

theorem termOK_asciiPunct (env : Env) (d : Char) (rest : Str) (ha : isAscii d = true)
    (hb : (isAlnumA d || d == '_' || d == '.' || d == '/' || d == '-') = false) (h2 : isIdentBodyA d = false)
    (h3 : d ≠ '<') (h4 : d ≠ '{') : TermOK env (d :: rest) :=
  termOK_of_head env d rest (by simp only [Env.idChar, ha, if_true]; exact hb) h2 h3 h4

/-- an operator in any form but the word form may follow an operand directly. -/
theorem termX_core (env : Env) (he : OpEnv env) (o : Op) (f : Form) (rest : Str) (h : isWordForm o f = false) :
    TermX env (coreText o f ++ rest) := by
  cases o <;> cases f
  all_goals first
    | exact Or.inl (termOK_ch env he _ rest)
    | exact Or.inr (Or.inl ⟨_, rfl⟩)
    | exact Or.inr (Or.inr ⟨_, rfl⟩)
    | exact Or.inl (termOK_asciiPunct env '+' rest (by decide) (by decide) (by decide) (by decide) (by decide))
    | exact Or.inl (termOK_asciiPunct env '~' rest (by decide) (by decide) (by decide) (by decide) (by decide))
    | exact Or.inl (termOK_asciiPunct env '|' rest (by decide) (by decide) (by decide) (by decide) (by decide))
    | exact Or.inl (termOK_asciiPunct env '&' rest (by decide) (by decide) (by decide) (by decide) (by decide))
    | exact absurd h (by decide)

/-! ### one spelled operator occurrence: spaces, the operator in some form, spaces -/

/-- the lenient freedoms of one operator occurrence. -/
structure OpSp where
  /-- spaces before the operator -/
  pre : Nat := 0
  /-- Unicode operator, ASCII alias, or (`⇌` only) the word `vs` -/
  form : Form := .canon
  /-- spaces after the operator -/
  post : Nat := 0
  deriving Repr, DecidableEq

/-- the canonical spelling: the Unicode operator, no spaces. -/
def OpSp.canon : OpSp := {}

/-- the word form `vs` is written with at least one space on either side. -/
def wordPad (o : Op) (sp : OpSp) : Nat := if isWordForm o sp.form then 1 else 0
def opPre (o : Op) (sp : OpSp) : Nat := sp.pre + wordPad o sp
def opPost (o : Op) (sp : OpSp) : Nat := sp.post + wordPad o sp

/-- one operator occurrence as written. -/
def opText (o : Op) (sp : OpSp) : Str := spaces (opPre o sp) ++ (coreText o sp.form ++ spaces (opPost o sp))

theorem opText_canon (o : Op) : opText o OpSp.canon = [o.ch] := by cases o <;> rfl

theorem termX_opText (env : Env) (he : OpEnv env) (o : Op) (sp : OpSp) (rest : Str) : TermX env (opText o sp ++ rest) := by
  unfold opText
  cases hp : opPre o sp with
  | succ n => rw [List.append_assoc, spaces_succ]; exact Or.inl (termOK_space env _)
  | zero =>
    have hw : isWordForm o sp.form = false := by
      unfold opPre wordPad at hp
      cases h : isWordForm o sp.form with
      | false => rfl
      | true => rw [h] at hp; simp at hp
    simp only [spaces, List.replicate_zero, List.nil_append, List.append_assoc]
    exact termX_core env he o sp.form _ hw

theorem termX_nl (env : Env) (rest : Str) : TermX env ('\n' :: rest) := Or.inl (termOK_nl env rest)

/-- **one spelled operator occurrence** in the middle of a line: spaces are skipped, the operator gives one token at its
own column, with exactly the receipt of its form. -/
theorem run_op (env : Env) (he : OpEnv env) (lenient : Bool) (st : LState) (o : Op) (sp : OpSp) (rest : Str)
    (hr : Ready st) (hc : 2 ≤ st.col) :
    ∃ n st' p, Run env lenient n st (opText o sp ++ rest) st' rest ∧
      Adv st st' [tOp o (coreNf o sp.form) st.line (st.col + opPre o sp)]
        (opReps o (coreNf o sp.form) st.line (st.col + opPre o sp)) 0 (st.col + (opText o sp).length) p := by
  let R2 := spaces (opPost o sp) ++ rest
  let R1 := coreText o sp.form ++ R2
  obtain ⟨s1, r1, a1⟩ := run_spaces env lenient (opPre o sp) st R1 hr hc
  have hvs : isWordForm o sp.form = true → NonWord env s1.prev ∧ NonWord env R2.head? := by
    intro hw
    have h1 : opPre o sp = sp.pre + 1 := by simp [opPre, wordPad, hw]
    have h2 : opPost o sp = sp.post + 1 := by simp [opPost, wordPad, hw]
    constructor
    · rw [a1.prev, h1]; simp only [prevAfterSpaces]; exact nonWord_space env
    · simp only [R2, h2, spaces_succ, List.head?_cons]; exact nonWord_space env
  obtain ⟨s2, p2, e2, a2⟩ := step_core env he lenient s1 o sp.form R2 a1.ready hvs
  obtain ⟨s3, r3, a3⟩ := run_spaces env lenient (opPost o sp) s2 rest a2.ready (by rw [a2.col, a1.col]; omega)
  have hne : R1 ≠ [] := by
    obtain ⟨c, t, hct, _⟩ := coreText_props o sp.form
    simp [R1, hct]
  have run := Run.trans (Run.trans r1 (Run.step1 e2 hne)) r3
  have hshape : opText o sp ++ rest = spaces (opPre o sp) ++ R1 := by simp [opText, R1, R2, List.append_assoc]
  refine ⟨_, s3, prevAfterSpaces (opPost o sp) s2.prev, by rw [hshape]; exact run, ?_⟩
  have l1 : s1.line = st.line := by rw [a1.line]; rfl
  have l2 : s2.line = st.line := by rw [a2.line, l1]; rfl
  have c1 : s1.col = st.col + opPre o sp := a1.col
  refine ⟨a3.ready, ?_, ?_, ?_, ?_, ?_, a3.prev⟩
  · rw [a3.toks, a2.toks, a1.toks, l1, c1]; simp
  · rw [a3.repairs, a2.repairs, a1.repairs, l1, c1]; simp
  · rw [a3.stack, a2.stack, a1.stack]
  · rw [a3.line, l2]
  · rw [a3.col, a2.col, c1]; simp [opText, spaces]; omega

/-! ### expressions -/

/-- an operator expression `head op1 w1 … opn wn`. -/
structure Expr where
  head : Str
  tail : List (Op × Str)
  deriving Repr, DecidableEq

def tailText : List (Op × Str) → Str
  | [] => []
  | (o, w) :: r => o.ch :: (w ++ tailText r)

/-- the canonical text = the string the AST holds. -/
def Expr.text (e : Expr) : Str := e.head ++ tailText e.tail

/-- the tail as spelled: occurrence `i` is written as `sps[i]` says (canonically when the list is too short). -/
def tailSpell : List (Op × Str) → List OpSp → Str
  | [], _ => []
  | (o, w) :: r, sps => opText o (sps.headD {}) ++ (w ++ tailSpell r sps.tail)

def Expr.spell (e : Expr) (sps : List OpSp) : Str := e.head ++ tailSpell e.tail sps

theorem tailSpell_nil (t : List (Op × Str)) : tailSpell t [] = tailText t := by
  induction t with
  | nil => rfl
  | cons p r ih =>
    obtain ⟨o, w⟩ := p
    simp only [tailSpell, tailText, List.headD_nil, List.tail_nil, ih]
    have := opText_canon o
    simp only [OpSp.canon] at this
    rw [this]; rfl

/-- with no freedom used the spelling is the canonical text. -/
theorem Expr.spell_nil (e : Expr) : e.spell [] = e.text := by
  simp only [Expr.spell, Expr.text, tailSpell_nil]

/-- an operand: identifier-shaped, no reserved-word prefix (`true…`, `false…`, `null…`, `vs…` followed by a non-word char). -/
def wordOK (w : Str) : Prop := isIdentifierText w = true ∧ hasReservedPrefix w = false

instance (w : Str) : Decidable (wordOK w) := by unfold wordOK; infer_instance

/-- the conditions on an expression (decidable): every operand is a `wordOK` word, there is at least one operator. -/
def Expr.OK (e : Expr) : Prop := wordOK e.head ∧ (∀ p ∈ e.tail, wordOK p.2) ∧ e.tail ≠ []

instance (e : Expr) : Decidable e.OK := by unfold Expr.OK; infer_instance

/-- tokens of the tail, newest first; `c` is the column right after the previous operand. -/
def tailToksRev (l : Nat) : Nat → List (Op × Str) → List OpSp → List Token
  | _, [], _ => []
  | c, (o, w) :: r, sps =>
    tailToksRev l (c + (opText o (sps.headD {})).length + w.length) r sps.tail ++
      [tIdent w l (c + (opText o (sps.headD {})).length), tOp o (coreNf o (sps.headD {}).form) l (c + opPre o (sps.headD {}))]

/-- receipts of the tail, newest first: per occurrence the receipt of its form (if it is an alias), then the
(non-normalisation) notes of the operand. -/
def tailRepsRev (l : Nat) : Nat → List (Op × Str) → List OpSp → List Repair
  | _, [], _ => []
  | c, (o, w) :: r, sps =>
    tailRepsRev l (c + (opText o (sps.headD {})).length + w.length) r sps.tail ++
      ((identifierRepairs w l (c + (opText o (sps.headD {})).length)).reverse ++
        opReps o (coreNf o (sps.headD {}).form) l (c + opPre o (sps.headD {})))

theorem wordOK_ne_nil {w : Str} (h : wordOK w) : w ≠ [] := by
  intro e; have := h.1; rw [e] at this; simp [isIdentifierText] at this

/-- **the tail of an expression** in any spelling: per occurrence one operator token and one IDENTIFIER token, and
exactly the receipts of the occurrences written with an alias. -/
theorem run_tail (env : Env) (he : OpEnv env) (lenient : Bool) (tail : List (Op × Str)) :
    ∀ (sps : List OpSp) (st : LState) (rest : Str), Ready st → 2 ≤ st.col → (∀ p ∈ tail, wordOK p.2) → TermX env rest →
    ∃ n st' p, Run env lenient n st (tailSpell tail sps ++ rest) st' rest ∧
      Adv st st' (tailToksRev st.line st.col tail sps) (tailRepsRev st.line st.col tail sps) 0
        (st.col + (tailSpell tail sps).length) p := by
  induction tail with
  | nil =>
    intro sps st rest hr _ _ _
    exact ⟨0, st, st.prev, Run.refl _ _, ⟨hr, rfl, rfl, rfl, rfl, rfl, rfl⟩⟩
  | cons q r ih =>
    intro sps st rest hr hc hok hterm
    obtain ⟨o, w⟩ := q
    have hw : wordOK w := hok (o, w) (by simp)
    let sp := sps.headD {}
    let R2 := tailSpell r sps.tail ++ rest
    obtain ⟨n1, s1, p1, r1, a1⟩ := run_op env he lenient st o sp (w ++ R2) hr hc
    have hR2 : TermX env R2 := by
      cases r with
      | nil => simpa [R2, tailSpell] using hterm
      | cons q' r' =>
        obtain ⟨o', w'⟩ := q'
        simp only [R2, tailSpell, List.append_assoc]
        exact termX_opText env he o' _ _
    obtain ⟨s2, e2, a2⟩ := step_operand env lenient s1 w R2 a1.ready hw.1 hw.2 hR2
    have c1 : s1.col = st.col + (opText o sp).length := a1.col
    have c2 : s2.col = st.col + (opText o sp).length + w.length := by rw [a2.col, c1]
    have l1 : s1.line = st.line := by rw [a1.line]; rfl
    have l2 : s2.line = st.line := by rw [a2.line, l1]; rfl
    obtain ⟨n3, s3, p3, r3, a3⟩ := ih sps.tail s2 rest a2.ready (by rw [c2]; omega) (fun p hp => hok p (by simp [hp])) hterm
    have hne : w ++ R2 ≠ [] := by simp [wordOK_ne_nil hw]
    have run := Run.trans (Run.trans r1 (Run.step1 e2 hne)) r3
    have hshape : tailSpell ((o, w) :: r) sps ++ rest = opText o sp ++ (w ++ R2) := by
      simp [tailSpell, sp, R2, List.append_assoc]
    refine ⟨_, s3, p3, by rw [hshape]; exact run, ?_⟩
    refine ⟨a3.ready, ?_, ?_, ?_, ?_, ?_, a3.prev⟩
    · rw [a3.toks, a2.toks, a1.toks, l2, c2, l1, c1]; simp [tailToksRev, sp]
    · rw [a3.repairs, a2.repairs, a1.repairs, l2, c2, l1, c1]; simp [tailRepsRev, sp]
    · rw [a3.stack, a2.stack, a1.stack]
    · rw [a3.line, l2]
    · rw [a3.col, c2]; simp [tailSpell, sp]; omega

/-! ### lines `KEY::value` whose value is a scalar or an expression -/

inductive EVal where
  | sc (v : FScalar)
  | ex (e : Expr)
  deriving Repr, DecidableEq

structure ELine where
  key : Str
  v : EVal
  deriving Repr, DecidableEq

def EVal.OK : EVal → Prop
  | .sc v => v.OK
  | .ex e => e.OK

def ELine.OK (ln : ELine) : Prop := isIdentifierText ln.key = true ∧ hasReservedPrefix ln.key = false ∧ ln.v.OK

/-- the value as spelled (`sps`: the spellings of the operator occurrences of this line; a scalar has none). -/
def EVal.spell : EVal → List OpSp → Str
  | .sc v, _ => v.text
  | .ex e, sps => e.spell sps

/-- `KEY::value` (without the line end). -/
def ELine.spell (ln : ELine) (sps : List OpSp) : Str := ln.key ++ (':' :: ':' :: ln.v.spell sps)

/-- tokens of the value (newest first); `c` is the value's column. -/
def EVal.toksRev (l c : Nat) : EVal → List OpSp → List Token
  | .sc v, _ => [v.tok l c]
  | .ex e, sps => tailToksRev l (c + e.head.length) e.tail sps ++ [tIdent e.head l c]

def EVal.repsRev (l c : Nat) : EVal → List OpSp → List Repair
  | .sc v, _ => (v.reps l c).reverse
  | .ex e, sps => tailRepsRev l (c + e.head.length) e.tail sps ++ (identifierRepairs e.head l c).reverse

/-- tokens of a line that starts at line `l`, column `c`, newest first. -/
def ELine.toksRev (ln : ELine) (sps : List OpSp) (l c : Nat) : List Token :=
  tNewline l (c + ln.key.length + 2 + (ln.v.spell sps).length) ::
    (ln.v.toksRev l (c + ln.key.length + 2) sps ++ [tAssign l (c + ln.key.length), tIdent ln.key l c])

def ELine.repsRev (ln : ELine) (sps : List OpSp) (l c : Nat) : List Repair :=
  ln.v.repsRev l (c + ln.key.length + 2) sps ++ (identifierRepairs ln.key l c).reverse

/-- **one expression value** after `::`, before the line end. -/
theorem run_expr (env : Env) (he : OpEnv env) (lenient : Bool) (st : LState) (e : Expr) (sps : List OpSp) (rest : Str)
    (hr : Ready st) (hc : 2 ≤ st.col) (hok : e.OK) :
    ∃ n st' p, Run env lenient n st (e.spell sps ++ '\n' :: rest) st' ('\n' :: rest) ∧
      Adv st st' ((EVal.ex e).toksRev st.line st.col sps) ((EVal.ex e).repsRev st.line st.col sps) 0
        (st.col + (e.spell sps).length) p := by
  obtain ⟨hh, ht, hne⟩ := hok
  let R1 := tailSpell e.tail sps ++ '\n' :: rest
  have hR1 : TermX env R1 := by
    cases htl : e.tail with
    | nil => exact absurd htl hne
    | cons q r =>
      obtain ⟨o, w⟩ := q
      simp only [R1, htl, tailSpell, List.append_assoc]
      exact termX_opText env he o _ _
  obtain ⟨s1, e1, a1⟩ := step_operand env lenient st e.head R1 hr hh.1 hh.2 hR1
  have c1 : s1.col = st.col + e.head.length := a1.col
  have l1 : s1.line = st.line := by rw [a1.line]; rfl
  obtain ⟨n2, s2, p2, r2, a2⟩ := run_tail env he lenient e.tail sps s1 ('\n' :: rest) a1.ready (by rw [c1]; omega) ht (termX_nl env rest)
  have hne1 : e.head ++ R1 ≠ [] := by simp [wordOK_ne_nil hh]
  have run := Run.trans (Run.step1 e1 hne1) r2
  have hshape : e.spell sps ++ '\n' :: rest = e.head ++ R1 := by simp [Expr.spell, R1, List.append_assoc]
  refine ⟨_, s2, p2, by rw [hshape]; exact run, ?_⟩
  refine ⟨a2.ready, ?_, ?_, ?_, ?_, ?_, a2.prev⟩
  · rw [a2.toks, a1.toks, l1, c1]; simp [EVal.toksRev]
  · rw [a2.repairs, a1.repairs, l1, c1]; simp [EVal.repsRev]
  · rw [a2.stack, a1.stack]
  · rw [a2.line, l1]
  · rw [a2.col, c1]; simp [Expr.spell]; omega

/-- **one line** `KEY::value` with its line end: the tokens of the line, next line, column 1. -/
theorem run_eline (env : Env) (he : OpEnv env) (lenient : Bool) (st : LState) (ln : ELine) (sps : List OpSp) (rest : Str)
    (hr : Ready st) (hok : ln.OK) :
    ∃ n st', Run env lenient n st (ln.spell sps ++ '\n' :: rest) st' rest ∧
      Adv st st' (ln.toksRev sps st.line st.col) (ln.repsRev sps st.line st.col) 1 1 (some '\n') := by
  obtain ⟨key, v⟩ := ln
  obtain ⟨hk1, hk2, hv⟩ := hok
  cases v with
  | sc v =>
    obtain ⟨s4, r4, a4⟩ := run_line env lenient st ⟨key, v⟩ rest hr ⟨hk1, hk2, hv⟩
    exact ⟨4, s4, r4, a4⟩
  | ex e =>
    let R3 := e.spell sps ++ '\n' :: rest
    obtain ⟨s1, e1, a1⟩ := step_ident env lenient st key (':' :: ':' :: R3) hr hk1 hk2 (termOK_colon env _)
    obtain ⟨s2, e2, a2⟩ := step_assign env lenient s1 R3 a1.ready
    have l1 : s1.line = st.line := by rw [a1.line]; rfl
    have l2 : s2.line = st.line := by rw [a2.line, l1]; rfl
    have c1 : s1.col = st.col + key.length := a1.col
    have c2 : s2.col = st.col + key.length + 2 := by rw [a2.col, c1]
    obtain ⟨n3, s3, p3, r3, a3⟩ := run_expr env he lenient s2 e sps rest a2.ready (by rw [c2]; omega) hv
    obtain ⟨s4, e4, a4⟩ := step_newline env lenient s3 rest a3.ready
    have l3 : s3.line = st.line := by rw [a3.line, l2]; rfl
    have c3 : s3.col = st.col + key.length + 2 + (e.spell sps).length := by rw [a3.col, c2]
    have hne : key ≠ [] := by intro h; rw [h] at hk1; simp [isIdentifierText] at hk1
    have run := Run.trans (Run.trans (Run.trans (Run.step1 e1 (by simp [hne])) (Run.one e2)) r3) (Run.one e4)
    have hshape : (ELine.mk key (.ex e)).spell sps ++ '\n' :: rest = key ++ (':' :: ':' :: R3) := by
      simp [ELine.spell, EVal.spell, R3]
    refine ⟨_, s4, by rw [hshape]; exact run, ?_⟩
    refine ⟨a4.ready, ?_, ?_, ?_, ?_, a4.col, a4.prev⟩
    · rw [a4.toks, a3.toks, a2.toks, a1.toks, l3, c3, l2, c2, l1, c1]; simp [ELine.toksRev, EVal.spell]
    · rw [a4.repairs, a3.repairs, a2.repairs, a1.repairs, l2, c2]; simp [ELine.repsRev]
    · rw [a4.stack, a3.stack, a2.stack, a1.stack]
    · rw [a4.line, l3]

/-! ### all lines, the whole document -/

/-- a line with the spellings of its operator occurrences. -/
abbrev SE := ELine × List OpSp

def elinesText : List SE → Str
  | [] => []
  | x :: r => x.1.spell x.2 ++ '\n' :: elinesText r

def elinesToksRev (l : Nat) : List SE → List Token
  | [] => []
  | x :: r => elinesToksRev (l + 1) r ++ x.1.toksRev x.2 l 1

def elinesRepsRev (l : Nat) : List SE → List Repair
  | [] => []
  | x :: r => elinesRepsRev (l + 1) r ++ x.1.repsRev x.2 l 1

theorem run_elines (env : Env) (he : OpEnv env) (lenient : Bool) (sl : List SE) :
    ∀ (st : LState) (rest : Str), Ready st → st.col = 1 → (∀ x ∈ sl, x.1.OK) →
    ∃ n st', Run env lenient n st (elinesText sl ++ rest) st' rest ∧
      AdvL st st' (elinesToksRev st.line sl) (elinesRepsRev st.line sl) sl.length := by
  induction sl with
  | nil =>
    intro st rest hr hc _
    exact ⟨0, st, Run.refl _ _, ⟨hr, rfl, rfl, rfl, rfl, hc⟩⟩
  | cons x r ih =>
    intro st rest hr hc hok
    obtain ⟨n1, s1, r1, a1⟩ := run_eline env he lenient st x.1 x.2 (elinesText r ++ rest) hr (hok x (by simp))
    obtain ⟨n2, s2, r2, a2⟩ := ih s1 rest a1.ready a1.col (fun y hy => hok y (by simp [hy]))
    refine ⟨n1 + n2, s2, ?_, ?_⟩
    · have := Run.trans r1 r2
      simpa [elinesText, List.append_assoc] using this
    · have hl : s1.line = st.line + 1 := a1.line
      rw [hl] at a2
      rw [hc] at a1
      refine ⟨a2.ready, ?_, ?_, ?_, ?_, a2.col⟩
      · rw [a2.toks, a1.toks]; simp [elinesToksRev, List.append_assoc]
      · rw [a2.repairs, a1.repairs]; simp [elinesRepsRev, List.append_assoc]
      · rw [a2.stack, a1.stack]
      · rw [a2.line, hl]; simp; omega

/-- **the text of a spelled document**: envelope line, the lines, `===END===`. -/
def edocText (name : Str) (sl : List SE) : Str :=
  "===".toList ++ name ++ "===".toList ++ '\n' :: (elinesText sl ++ ("===END===".toList ++ ['\n']))

/-- its tokens, newest first, EOF included. -/
def edocToksRev (name : Str) (sl : List SE) : List Token :=
  [tEof (sl.length + 3) 1, tNewline (sl.length + 2) 10, tEnvEnd (sl.length + 2) 1] ++ elinesToksRev 2 sl ++
    [tNewline 1 (1 + (name.length + 6)), tEnvStart name 1 1]

/-- **the tokens of the spelled document**, in reading order. -/
def edocToks (name : Str) (sl : List SE) : List Token := (edocToksRev name sl).reverse

/-- its receipts, in order. -/
def edocReps (sl : List SE) : List Repair := (elinesRepsRev 2 sl).reverse

theorem run_edoc (env : Env) (he : OpEnv env) (lenient : Bool) (name : Str) (sl : List SE)
    (hn : isEnvName name = true) (hne : name ≠ "END".toList) (hok : ∀ x ∈ sl, x.1.OK) :
    ∃ n st', Run env lenient n ({ spans := [] } : LState) (edocText name sl) st' [] ∧
      (tEof st'.line st'.col :: st'.toks).reverse = edocToks name sl ∧ st'.repairs.reverse = edocReps sl ∧ st'.stack = [] := by
  let st0 : LState := { spans := [] }
  let T2 := elinesText sl ++ ("===END===".toList ++ ['\n'])
  obtain ⟨s1, e1, a1⟩ := step_envStart env lenient st0 name ('\n' :: T2) rfl hn hne
  obtain ⟨s2, e2, a2⟩ := step_newline env lenient s1 T2 a1.ready
  obtain ⟨n3, s3, r3, a3⟩ := run_elines env he lenient sl s2 ("===END===".toList ++ ['\n']) a2.ready a2.col hok
  obtain ⟨s4, e4, a4⟩ := step_envEnd env lenient s3 ['\n'] a3.ready
  obtain ⟨s5, e5, a5⟩ := step_newline env lenient s4 [] a4.ready
  have e4' : step env lenient s3 ('=' :: ("==END===".toList ++ ['\n'])) = .ok (s4, ['\n']) := e4
  have hne1 : "===".toList ++ name ++ "===".toList ++ '\n' :: T2 ≠ [] := by simp
  have run := Run.trans (Run.trans (Run.step1 e1 hne1) (Run.one e2)) (Run.trans r3 (Run.cons e4' (Run.one e5)))
  have l1 : s1.line = 1 := by rw [a1.line]
  have l2 : s2.line = 2 := by rw [a2.line, l1]
  have l3 : s3.line = sl.length + 2 := by rw [a3.line, l2]; omega
  have l4 : s4.line = sl.length + 2 := by rw [a4.line, l3]
  have l5 : s5.line = sl.length + 3 := by rw [a5.line, l4]
  have c1 : s1.col = 1 + (name.length + 6) := a1.col
  have c3 : s3.col = 1 := a3.col
  have c4 : s4.col = 10 := by rw [a4.col, c3]
  refine ⟨_, s5, run, ?_, ?_, ?_⟩
  · rw [a5.toks, a4.toks, a3.toks, a2.toks, a1.toks, l5, a5.col, l1, l2, l3, l4, c1, c3, c4]
    simp [edocToks, edocToksRev, st0]
  · rw [a5.repairs, a4.repairs, a3.repairs, a2.repairs, a1.repairs, l2]
    simp [edocReps, st0]
  · rw [a5.stack, a4.stack, a3.stack, a2.stack, a1.stack]

/-! ### `normalize` and the tab check: every line is fence-free and tab-free -/

theorem coreText_clean (o : Op) (f : Form) : Clean (coreText o f) := by
  obtain ⟨c, t, hct, _, h, _⟩ := coreText_props o f
  rw [hct]; exact h

theorem opText_clean (o : Op) (sp : OpSp) : Clean (opText o sp) :=
  Clean.append (spaces_clean _) (Clean.append (coreText_clean o sp.form) (spaces_clean _))

theorem tailSpell_clean (tail : List (Op × Str)) : ∀ (sps : List OpSp), (∀ p ∈ tail, wordOK p.2) → Clean (tailSpell tail sps) := by
  induction tail with
  | nil => intro _ _ d hd; simp [tailSpell] at hd
  | cons q r ih =>
    intro sps hok
    obtain ⟨o, w⟩ := q
    exact Clean.append (opText_clean o _) (Clean.append (identText_clean w (hok (o, w) (by simp)).1)
      (ih sps.tail (fun p hp => hok p (by simp [hp]))))

theorem espell_clean (ln : ELine) (sps : List OpSp) (h : ln.OK) : Clean (ln.spell sps) := by
  obtain ⟨key, v⟩ := ln
  obtain ⟨hk1, _, hv⟩ := h
  have hval : Clean (v.spell sps) := by
    cases v with
    | sc v => exact scalar_clean v hv
    | ex e => exact Clean.append (identText_clean e.head hv.1.1) (tailSpell_clean e.tail sps hv.2.1)
  have h2 : Clean (':' :: ':' :: v.spell sps) := by
    have := Clean.append (clean_lit "::".toList (by decide)) hval
    simpa using this
  exact Clean.append (identText_clean key hk1) h2

theorem espell_fine (ln : ELine) (sps : List OpSp) (h : ln.OK) : LineFine (ln.spell sps) := by
  refine ⟨fenceLine_none_of_head _ ?_, fun d hd => (espell_clean ln sps h d hd).2⟩
  intro c hc
  apply identText_head ln.key h.1 c
  have hne : ln.key ≠ [] := by
    intro e; have := h.1; rw [e] at this; simp [isIdentifierText] at this
  obtain ⟨k, t, hk⟩ := List.exists_cons_of_ne_nil hne
  simp only [ELine.spell, hk, List.cons_append, List.head?_cons] at hc ⊢
  exact hc

theorem elines_fine (sl : List SE) (rest : Str) (hok : ∀ x ∈ sl, x.1.OK) (hr : AllLines LineFine rest) :
    AllLines LineFine (elinesText sl ++ rest) := by
  induction sl with
  | nil => exact hr
  | cons x r ih =>
    have := allLines_cons LineFine (x.1.spell x.2) (elinesText r ++ rest) (espell_clean x.1 x.2 (hok x (by simp)))
      (espell_fine x.1 x.2 (hok x (by simp))) (ih (fun y hy => hok y (by simp [hy])))
    simpa [elinesText, List.append_assoc] using this

theorem edoc_fine (name : Str) (sl : List SE) (hn : isEnvName name = true) (hok : ∀ x ∈ sl, x.1.OK) :
    AllLines LineFine (edocText name sl) := by
  have hend : AllLines LineFine ("===END===".toList ++ ['\n']) :=
    allLines_cons LineFine "===END===".toList [] (clean_lit _ (by decide)) ⟨by decide, by decide⟩
      (allLines_nil LineFine ⟨by decide, by decide⟩)
  have henv : LineFine ("===".toList ++ name ++ "===".toList) := by
    have := envLine_fine name 0 hn
    simpa [spaces] using this
  exact allLines_cons LineFine _ _ (envLine_clean name hn) henv (elines_fine sl _ hok hend)

/-- **The lexer on every alias spelling of a flat document with expression values** (any name, any lines, any expression,
any form and any spaces per operator occurrence, both lexer modes, every environment that knows the operator characters
as symbols and whose NFC leaves the lines alone): `tokenize` succeeds with exactly `edocToks` and `edocReps`. -/
theorem tokenize_edoc (env : Env) (he : OpEnv env) (lenient : Bool) (name : Str) (sl : List SE)
    (hn : isEnvName name = true) (hne : name ≠ "END".toList) (hok : ∀ x ∈ sl, x.1.OK)
    (hnfc : ∀ l ∈ splitLines (edocText name sl), env.nfc l = l) :
    tokenize env (edocText name sl) lenient = .ok (edocToks name sl, edocReps sl) :=
  tokenize_of_run env lenient _ _ _ (edoc_fine name sl hn hok) hnfc (run_edoc env he lenient name sl hn hne hok)

end Octave.Expr
