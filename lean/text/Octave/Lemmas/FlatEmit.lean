import Octave.Lemmas.FlatLex
/-! The emitter on flat documents: `emit` of an envelope with scalar assignments is exactly `flatText`. -/
namespace Octave
open Emitter

/-- when the emitter spells a scalar the way `FLine.text` does. -/
def FLine.EmitOK (ln : FLine) : Prop :=
  match ln.v with
  | .qstr s => needsQuotes s = true
  | .bare s => needsQuotes s = false ∧ alwaysQuoteKey ln.key = false
  | _ => True

def FLine.node (ln : FLine) (l c : Nat) : Node := .assign ln.key ln.v.value l c [] none

theorem emitNode_flat (env : Env) (ln : FLine) (l c : Nat) (h : ln.EmitOK) :
    emitNode env (ln.node l c) 0 false = some [ln.text] := by
  obtain ⟨key, v⟩ := ln
  cases v with
  | qstr s =>
    have hq : needsQuotes s = true := h
    simp [FLine.node, FScalar.value, emitNode, emitAssignment, emitValue, emitStr, hq, forceQuote, leadingLines, indentStr,
      FLine.text, FScalar.text, quoted]
  | bare s =>
    have hq : needsQuotes s = false := h.1
    have ha : alwaysQuoteKey key = false := h.2
    simp [FLine.node, FScalar.value, emitNode, emitAssignment, emitValue, emitStr, hq, forceQuote, ha, leadingLines, indentStr,
      FLine.text, FScalar.text]
  | bool b =>
    cases b <;>
    simp [FLine.node, FScalar.value, emitNode, emitAssignment, emitValue, forceQuote, leadingLines, indentStr, FLine.text, FScalar.text]
  | null =>
    simp [FLine.node, FScalar.value, emitNode, emitAssignment, emitValue, forceQuote, leadingLines, indentStr, FLine.text, FScalar.text]
  | int i =>
    simp [FLine.node, FScalar.value, emitNode, emitAssignment, emitValue, forceQuote, leadingLines, indentStr, FLine.text, FScalar.text]

/-- positions given to the nodes do not matter: any assignment of (line, column) to the lines. -/
def flatNodes (pos : Nat → Nat × Nat) : Nat → List FLine → List Node
  | _, [] => []
  | i, ln :: ls => ln.node (pos i).1 (pos i).2 :: flatNodes pos (i + 1) ls

theorem emitTop_flat (env : Env) (pos : Nat → Nat × Nat) : ∀ (lines : List FLine) (i : Nat), (∀ ln ∈ lines, ln.EmitOK) →
    emitTop env (flatNodes pos i lines) = some (lines.map FLine.text) := by
  intro lines
  induction lines with
  | nil => intro i _; rfl
  | cons ln ls ih =>
    intro i h
    have h1 := emitNode_flat env ln (pos i).1 (pos i).2 (h ln (by simp))
    have h2 := ih (i + 1) (fun l hl => h l (by simp [hl]))
    simp only [flatNodes, emitTop, FLine.node] at *
    rw [h1, h2]; rfl

def flatDoc (name : Str) (pos : Nat → Nat × Nat) (lines : List FLine) : Document :=
  { name := name, sections := flatNodes pos 0 lines }

theorem joinWith_lines (lines : List FLine) (tail : Str) :
    joinWith ['\n'] (lines.map FLine.text ++ [tail]) = linesText lines ++ tail := by
  induction lines with
  | nil => rfl
  | cons ln ls ih =>
    cases ls with
    | nil => simp [joinWith, linesText]
    | cons m ms =>
      simp only [List.map_cons, List.cons_append, joinWith, linesText] at ih ⊢
      rw [ih]; simp

/-- **The emitter on a flat document** writes exactly `flatText`. -/
theorem emit_flat (env : Env) (name : Str) (pos : Nat → Nat × Nat) (lines : List FLine) (h : ∀ ln ∈ lines, ln.EmitOK) :
    emit env (flatDoc name pos lines) = some (flatText name lines) := by
  have ht := emitTop_flat env pos lines 0 h
  have hj := joinWith_lines lines "===END===".toList
  unfold emit emitBody
  simp only [flatDoc, emitMetaLines, ht, leadingLines, List.map_nil, List.isEmpty_nil, Bool.true_or, if_true,
    Bool.false_eq_true, if_false, List.nil_append, List.append_nil, bind, Option.bind, pure, Option.map]
  show some (finishText (joinWith ['\n'] (("===".toList ++ name ++ "===".toList) :: (lines.map FLine.text ++ ["===END===".toList])))) = _
  have hne : lines.map FLine.text ++ ["===END===".toList] ≠ [] := by simp
  obtain ⟨x, xs, hx⟩ := List.exists_cons_of_ne_nil hne
  rw [hx, joinWith, ← hx, hj]
  have hlast : (("===".toList ++ name ++ "===".toList) ++ ['\n'] ++ (linesText lines ++ "===END===".toList)).getLast? = some '=' := by
    rw [List.getLast?_append, List.getLast?_append]; rfl
  simp only [finishText, hlast]
  simp [flatText]

end Octave
