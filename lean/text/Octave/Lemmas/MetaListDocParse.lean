/-
`parse_document` around the META loop for LIST values (step (1) of what `Props/C04metalist` left open): sed-port of
`MetaParse.parseMetaBlock_fields` / `parseDocument_meta` onto `MetaListParse.metaLoop_mfields`.

* `metaLoop_mfirst`          the loop entered with the cursor on the key of the FIRST field (its INDENT consumed by
                             `parse_meta_block`), then any number of further field lines, then a token that `metaStops`;
* `parseMetaBlock_mfields`   `parse_meta_block` on `KEY :` NEWLINE + n ≥ 1 field lines whose values are anything
                             `parse_value` reads (`Nest.NVOK`), the level of the block being the first line's INDENT value;
* `mdocToks` / `parseDocument_mlist`
                             the whole `parse_document` on envelope line, `META :` NEWLINE, the field lines, a body forest of
                             `BlockParse.TNode`s at depth 0 (lines and nested blocks, scalar values), `===END===` NEWLINE EOF:
                             `meta` = `metaListDict [] fields`, `sections` = the forest.  End state existential (a value parse
                             may file deep-nesting warnings), as in `Nest.parseDocument_nv`.
Everything lives in `namespace Octave.MetaListDoc`.
-/
import Octave.Lemmas.MetaListParse
set_option linter.unusedSimpArgs false
set_option linter.unusedVariables false
namespace Octave.MetaListDoc
open Octave Parser FlatParse BlockParse
open Octave.MetaParse (metaStops)
open Octave.MetaListParse (MLine metaListDict metaLoop_mline metaLoop_mfields)

local macro "step_simp" "[" ts:Lean.Parser.Tactic.simpLemma,* "]" : tactic =>
  `(tactic| simp only [bind, StateT.bind, Except.bind, pure, StateT.pure, Except.pure, current_mk, peek_mk, advance_mk,
      curType_mk, isAdjacentBracket_mk, budget_mk, warn_mk, get, getThe, MonadStateOf.get, StateT.get,
      Bool.false_eq_true, if_false, if_true, Bool.false_and, Bool.and_false, Bool.or_false, Bool.false_or,
      List.length_cons, List.length_nil, beq_iff_eq, bne_iff_ne, ne_eq, reduceCtorEq, not_true_eq_false, not_false_eq_true,
      Bool.and_eq_true, Bool.or_eq_true, Bool.not_eq_true', beq_eq_false_iff_ne, false_and, and_false, true_and, and_true,
      false_or, or_false, true_or, or_true, decide_eq_true_eq,
      beq_self_eq_true, Bool.true_or, Bool.or_true, Bool.true_and, Bool.and_true, Bool.not_true, Bool.not_false, $ts,*])

theorem mline_toks_length (m : MLine) : m.toks.length = m.ln.vr.length + 5 := by
  simp [MLine.toks, ListDocParse.VLine.toks]

/-- every field line has at least 5 tokens. -/
theorem mlines_length (ms : List MLine) : 5 * ms.length ≤ (ms.flatMap MLine.toks).length := by
  induction ms with
  | nil => simp
  | cons m ms ih =>
    simp only [List.flatMap_cons, List.length_append, List.length_cons, mline_toks_length]
    omega

theorem mline_vr_le (ms : List MLine) (m : MLine) (h : m ∈ ms) : m.ln.vr.length + 5 ≤ (ms.flatMap MLine.toks).length := by
  induction ms with
  | nil => cases h
  | cons x xs ih =>
    simp only [List.flatMap_cons, List.length_append, mline_toks_length]
    rcases List.mem_cons.1 h with h | h
    · subst h; omega
    · have := ih h; omega

theorem mlines_head (ms : List MLine) (e : Token) (k : List Token) :
    ∃ u K', ms.flatMap MLine.toks ++ e :: k = u :: K' := by
  cases hx : ms.flatMap MLine.toks ++ e :: k with
  | nil => simp at hx
  | cons u K' => exact ⟨u, K', rfl⟩

/-- **the META loop entered with the cursor on the key of the first field** (`has_indented = True`), then any number of
further field lines, then a token that `metaStops`. -/
theorem metaLoop_mfirst (vf lvl : Nat) (hl : 0 < lvl) (e : Token) (k : List Token) (hs : metaStops lvl e = true)
    (m : MLine) (ms : List MLine) (fuel : Nat) (acc : List (Str × MetaVal)) (kp : KeyPos) (st : PState)
    (hm : Nest.NVOK m.ln) (hok : ∀ f ∈ ms, f.OK lvl) (hvf : ∀ f ∈ m :: ms, 2 * (f.ln.vr.length + 1) ≤ vf) (hd : st.depth = 0)
    (hr : st.rest = m.ln.toks ++ (ms.flatMap MLine.toks ++ e :: k)) (hfuel : 3 * ms.length + 3 ≤ fuel) :
    ∃ st', metaLoop vf fuel lvl true acc kp st = .ok (metaListDict acc (m :: ms), st') ∧ st'.rest = e :: k ∧ st'.depth = 0 := by
  obtain ⟨u, K', hK⟩ := mlines_head ms e k
  obtain ⟨F, rfl⟩ : ∃ F, fuel = F + 2 := ⟨fuel - 2, by omega⟩
  obtain ⟨s', h1, h2, h3⟩ := metaLoop_mline vf F lvl m.ln hm (hvf m (by simp)) acc kp st u K' hd (by rw [hr, hK])
  obtain ⟨st', h4, h5, h6⟩ := metaLoop_mfields vf lvl hl e k hs ms F (dictSet acc m.ln.key (.val m.ln.v))
    (trackPure kp m.ln.key m.ln.kt.line).1 s' hok (fun x hx => hvf x (by simp [hx])) h3 (by rw [h2, hK]) (by omega)
  exact ⟨st', by rw [h1, h4]; rfl, h5, h6⟩

/-- **`parse_meta_block` on a header `KEY:` followed by at least one field line whose value is anything `parse_value` reads**
(then by a token that `metaStops`); the level of the block is the first line's INDENT value. -/
theorem parseMetaBlock_mfields (vf lvl : Nat) (hl : 0 < lvl) (key : Str) (q : LPos) (m : MLine) (ms : List MLine)
    (e : Token) (k : List Token) (st : PState)
    (hs : metaStops lvl e = true) (hok : ∀ f ∈ m :: ms, f.OK lvl) (hlvl : indentVal m.ind = lvl)
    (hvf : ∀ f ∈ m :: ms, 2 * (f.ln.vr.length + 1) ≤ vf) (hd : st.depth = 0)
    (hr : st.rest = hdrKeyTok key q :: hdrBlockTok q :: hdrNlTok q :: ((m :: ms).flatMap MLine.toks ++ e :: k)) :
    ∃ st', parseMetaBlock vf st = .ok (metaListDict [] (m :: ms), st') ∧ st'.rest = e :: k ∧ st'.depth = 0 := by
  have hm := hok m (by simp)
  obtain ⟨rest, p, n, la, w, d, wd, s, th, al⟩ := st
  simp only at hd hr
  subst hd
  have hr' : rest = hdrKeyTok key q :: hdrBlockTok q :: hdrNlTok q :: m.ind :: m.ln.kt ::
      (m.ln.a :: m.ln.vt :: (m.ln.vr ++ m.ln.nl :: (ms.flatMap MLine.toks ++ e :: k))) := by
    rw [hr]; simp [MLine.toks, ListDocParse.VLine.toks, List.append_assoc]
  subst hr'
  have hity := hm.ity
  have hfl := mlines_length ms
  obtain ⟨st', h1, h2, h3⟩ := metaLoop_mfirst vf lvl hl e k hs m ms
    (((m.ln.kt :: m.ln.a :: m.ln.vt :: (m.ln.vr ++ m.ln.nl :: (ms.flatMap MLine.toks ++ e :: k))).length + 2) * 2) [] []
    ({ rest := m.ln.kt :: m.ln.a :: m.ln.vt :: (m.ln.vr ++ m.ln.nl :: (ms.flatMap MLine.toks ++ e :: k)), prev := some m.ind,
       pos := n + 1 + 1 + 1 + 1, last := la, warnings := w, depth := 0, warned := wd, strict := s, threshold := th,
       alpha := al } : PState)
    hm.nv (fun x hx => hok x (by simp [hx])) hvf rfl (by simp [ListDocParse.VLine.toks, List.append_assoc])
    (by simp only [List.length_cons, List.length_append]; omega)
  refine ⟨st', ?_, h2, h3⟩
  rw [← h1]
  unfold parseMetaBlock
  simp only [bind, StateT.bind, Except.bind, expect_eq (tt := TT.identifier) (t := hdrKeyTok key q) (h := rfl),
    expect_eq (tt := TT.block) (t := hdrBlockTok q) (h := rfl)]
  rw [skipWhitespace_newline (h := rfl) (h1 := by simp [hity]) (h2 := by simp [hity])]
  step_simp [hity]
  simp only [indentVal] at hlvl
  cases hval : m.ind.value <;> simp only [hval] at hlvl ⊢ <;> subst hlvl <;> rfl

/-! ## `parseDocument` on a document whose META block carries list values -/

/-- the token list: envelope line, `META` `:` NEWLINE, the field lines (each with its INDENT), the forest at depth 0 (body
lines numbered from `i`), `===END===` NEWLINE EOF. -/
def mdocToks (f : Frame) (name : Str) (q : LPos) (ms : List MLine) (pos : Nat → LPos) (nodes : List TNode) (i : Nat) :
    List Token :=
  f.envTok name :: f.nl0Tok :: hdrKeyTok "META".toList q :: hdrBlockTok q :: hdrNlTok q ::
    (ms.flatMap MLine.toks ++ (toksList pos nodes 0 i ++ [f.endTok, f.nl1Tok, f.eofTok]))

/-- the document it denotes. -/
def mdoc (name : Str) (ms : List MLine) (pos : Nat → LPos) (nodes : List TNode) (i : Nat) : Document :=
  { name := name, metaKv := metaListDict [] ms, sections := nodeList pos nodes i }

/-- **`parse_document` on a document with ≥ 1 META field lines whose values are anything `parse_value` reads** and a body
forest of scalar lines and nested blocks: `meta[K] = value` for every field, the forest in `sections`. -/
theorem parseDocument_mlist (f : Frame) (name : Str) (q : LPos) (lvl : Nat) (hl : 0 < lvl) (m : MLine) (ms : List MLine)
    (pos : Nat → LPos) (nodes : List TNode) (i : Nat) (st : PState)
    (hok : ∀ x ∈ m :: ms, x.OK lvl) (hlvl : indentVal m.ind = lvl) (hd : st.depth = 0)
    (hc : colsOkList pos nodes 0 i = true) (hr : st.rest = mdocToks f name q (m :: ms) pos nodes i) :
    ∃ st', parseDocument st = .ok (mdoc name (m :: ms) pos nodes i, st') := by
  obtain ⟨e', k', hek, hty⟩ := MetaParse.body_head pos nodes i f.endTok [f.nl1Tok, f.eofTok] (Or.inl rfl)
  have h1 : e'.type ≠ TT.newline := by rcases hty with h | h | h <;> simp [h]
  have h2 : e'.type ≠ TT.comment := by rcases hty with h | h | h <;> simp [h]
  have h3 : e'.type ≠ TT.indent := by rcases hty with h | h | h <;> simp [h]
  have h4 : e'.type ≠ TT.separator := by rcases hty with h | h | h <;> simp [h]
  have hs : metaStops lvl e' = true := by simp [metaStops, h1, h3]
  have hst : st = { st with rest := (f.envTok name :: f.nl0Tok :: hdrKeyTok "META".toList q :: hdrBlockTok q ::
      hdrNlTok q :: ((m :: ms).flatMap MLine.toks ++ e' :: k')) } := by
    rw [← hek, ← mdocToks, ← hr]
  have t1 : (f.envTok name).type = .envelopeStart := rfl
  have t2 : (f.nl0Tok).type = .newline := rfl
  have t3 : (f.envTok name).value = .str name := rfl
  have t4 : (f.endTok).type = .envelopeEnd := rfl
  have t5 : (hdrKeyTok "META".toList q).type = .identifier := rfl
  have t6 : (hdrKeyTok "META".toList q).value = .str "META".toList := rfl
  have hlen : (toksList pos nodes 0 i).length + 2 = k'.length := by
    have := congrArg List.length hek
    simp only [List.length_append, List.length_cons, List.length_nil] at this
    omega
  have hnl := length_le_toks pos nodes 0 i
  rw [hst]
  unfold parseDocument
  simp (config := {zeta := false}) only [bind, StateT.bind, Except.bind, budget_mk]
  extract_lets n doc0 jp5 jp4 jp3 jp2 jp1
  obtain ⟨stM, hM1, hM2, hM3⟩ := parseMetaBlock_mfields n lvl hl "META".toList q m ms e' k'
    { st with rest := hdrKeyTok "META".toList q :: hdrBlockTok q :: hdrNlTok q :: ((m :: ms).flatMap MLine.toks ++ e' :: k'),
              prev := some f.nl0Tok, pos := st.pos + 1 + 1 }
    hs hok hlvl
    (by
      intro x hx
      have := mline_vr_le (m :: ms) x hx
      simp only [n, List.length_cons, List.length_append]
      omega)
    hd rfl
  have hsM : stM = { stM with rest := e' :: k' } := by rw [← hM2]
  step_simp [t1, t2, skipWhitespace_stop]
  simp only [jp1]
  step_simp [t1]
  simp only [jp2]
  step_simp [skipWhitespace_newline, pyStrVal_str, t1, t2, t3, t5, t6]
  simp only [jp3]
  step_simp [t5, t6]
  rw [hM1]
  simp only []
  rw [hsM]
  step_simp [skipWhitespace_stop, h1, h2]
  simp only [jp4]
  step_simp [h4]
  simp only [jp5]
  step_simp []
  rw [docLoop_tree' (pos := pos) (nodes := nodes) (e := f.endTok) (tail := [f.nl1Tok, f.eofTok]) (he := Or.inl rfl)
    (i := i) (hr := hek.symm) (hc := hc)
    (hvf := by simp only [n, List.length_cons, List.length_append]; omega)
    (hfuel := by simp only [n, List.length_cons, List.length_append]; omega)]
  step_simp [t4, List.nil_append]
  exact ⟨_, rfl⟩

end Octave.MetaListDoc
