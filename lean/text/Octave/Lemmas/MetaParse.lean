/-
Parser half of the "document with a META block" read theorem (C01 / C02), extending `Lemmas/BlockParse.lean`.

Content model: `fields : List (Str × Scalar)` (the META fields `KEY::scalar`, in order) and a body forest
`nodes : List BlockParse.TNode` (lines and nested blocks).  Token rendering at ARBITRARY line/column numbers, in the
vocabulary of `BlockParse` (`pos : Nat → LPos`, one record of positions per source line, lines numbered in reading order):

    ENVELOPE_START(name) NEWLINE
    IDENTIFIER(META) BLOCK NEWLINE                          body line 0
    INDENT(2) IDENTIFIER(key) ASSIGN scalar NEWLINE         body lines 1 … n   (one per field)
    forest(depth 0)                                         body lines n+1 …
    ENVELOPE_END NEWLINE EOF                                                                       (`metaToks`)

which IS the token list of the tree document whose first node is the block `META` with the fields as children
(`metaToks_eq_tree`) — the difference is what `parse_document` does with it.

What is proved about the model's parser (`metaLoop`, `parseMetaBlock`, `parseDocument` of `Model/ParserTop.lean`):

* `metaLoop_line`          one field with the cursor on its key: `meta[key] = value`, duplicate-key bookkeeping, its NEWLINE
* `metaLoop_stop`          what ends the META block at the start of a line (`metaStops`): every token except a blank line's
                           NEWLINE and an INDENT at least as deep as the fields — a key at depth 0 (ANY key), `===END===`, EOF,
                           a comment at depth 0, `§`, `---` …
* `metaLoop_fields`        the loop on any number of field lines (induction on the list), at indentation `2·(d+1)`
* `parseMetaBlock_fields` / `parseMetaBlock_empty` / `parseMetaBlock_any`
                           `parse_meta_block` on `KEY:` + n ≥ 1 / 0 / any number of field lines
* `parseDocument_meta`     the whole `parse_document` with the parser's own fuel: `meta = metaDict [] fields`, `sections` = the
                           forest (`BlockParse.nodeList`), warnings = `metaWarns` then `BlockParse.warnsList`
* `metaDict` / `metaDict_of_nodup` / `metaWarns_eq_nil`
                           the Python dict built by the loop (a repeated key overwrites IN PLACE: first position, last value —
                           and is reported, `metaWarns`); with distinct keys it is exactly the fields in order (`fieldKv`) and
                           the loop is silent
* `docEqM` … `isOkDocM_sound`   Boolean equality on documents with scalar META values, for closed `decide` checks

Conditions found in the code:
* NONE on the keys of the fields (`metaLoop` has no key-specific path: `META`, `END`, `PATTERN` … are ordinary keys there; a
  bare word under `PATTERN`/`REGEX` gives NO W_PATTERN_AUTOQUOTE inside META, unlike the body);
* NONE on the first body key: after the META block `parse_document` does not look for `META` again, so a body node keyed
  `META` (block or line) is an ordinary section (contrast `BlockParse.metaFirstT` for documents without a META block);
* the body may be empty, the field list may be empty (`META:` alone: `meta = {}`; the emitter never writes that);
* `colsOkList` on the body (the column of block keys, as in `BlockParse`); the field lines carry no position that matters;
* the INDENT value of the fields must be > 0 (`indent_level > 0 and not has_indented` is how a key at depth 0 ends the block):
  here it is `2·(d+1)`.
Out of scope (say so): the one nested dict level (`KEY:` inside META, `nestedMetaLoop`), list / expression values, comments
and blank lines inside META.  Everything lives in `namespace Octave.MetaParse`.
-/
import Octave.Lemmas.BlockParse
namespace Octave.MetaParse
open Octave Parser FlatParse BlockParse

/-- evaluation of the parser monad on explicit states (as in `Lemmas/FlatParse.lean`). -/
local macro "step_simp" "[" ts:Lean.Parser.Tactic.simpLemma,* "]" : tactic =>
  `(tactic| simp only [bind, StateT.bind, Except.bind, pure, StateT.pure, Except.pure, current_mk, peek_mk, advance_mk,
      curType_mk, isAdjacentBracket_mk, budget_mk, warn_mk, get, getThe, MonadStateOf.get, StateT.get,
      Bool.false_eq_true, if_false, if_true, Bool.false_and, Bool.and_false, Bool.or_false, Bool.false_or,
      List.length_cons, List.length_nil, beq_iff_eq, bne_iff_ne, ne_eq, reduceCtorEq, not_true_eq_false, not_false_eq_true,
      Bool.and_eq_true, Bool.or_eq_true, Bool.not_eq_true', beq_eq_false_iff_ne, false_and, and_false, true_and, and_true,
      false_or, or_false, true_or, or_true, decide_eq_true_eq,
      beq_self_eq_true, Bool.true_or, Bool.or_true, Bool.true_and, Bool.and_true, Bool.not_true, Bool.not_false, $ts,*])

/-- one field line with the cursor on its key (its INDENT consumed: `hasInd = true`): two iterations of the loop — the
field (`meta[key] = value`, duplicate-key bookkeeping) and its NEWLINE. -/
theorem metaLoop_line (vf fuel lvl : Nat) (ln : Line) (k : List Token) (hk : k ≠ []) (acc : List (Str × MetaVal)) (kp : KeyPos)
    (p : Option Token) (n : Nat) (la : Token) (w : List Warning) (d : Nat) (wd : List Nat) (s : Bool) (th : Nat) (al : Char → Bool) :
    metaLoop (vf + 2) (fuel + 2) lvl true acc kp
        { rest := ln.toks ++ k, prev := p, pos := n, last := la, warnings := w, depth := d, warned := wd, strict := s, threshold := th, alpha := al }
      = metaLoop (vf + 2) fuel lvl false (dictSet acc ln.key (.val ln.v.val)) (trackPure kp ln.key ln.l).1
        { rest := k, prev := some ln.nlTok, pos := n + 4, last := la, warnings := (trackPure kp ln.key ln.l).2 ++ w, depth := d, warned := wd, strict := s, threshold := th, alpha := al } := by
  obtain ⟨key, v, l, c1, c2, c3, c4⟩ := ln
  rw [metaLoop]
  step_simp [Line.toks, Line.keyTok, Line.assignTok, Line.valTok, Line.nlTok, List.cons_append, List.nil_append, pyStrVal_str]
  rw [parseValue_scalar (v := v) (l := l) (c := c3) (hn := rfl) (hr := rfl)]
  step_simp [trackKey_eq]
  rw [metaLoop]
  step_simp []
  rw [advance_ne (h := hk)]


/-! ## Content model -/

/-- the META fields as the (line) children of a block, in the vocabulary of `BlockParse`. -/
def fieldNodes (fields : List (Str × Scalar)) : List TNode := fields.map fun f => TNode.line f.1 f.2

/-- the Python dict `meta` after the loop went through the fields, starting from `acc`: `meta[key] = value` in order
(a repeated key overwrites IN PLACE: first position, last value). -/
def metaDict (acc : List (Str × MetaVal)) : List (Str × Scalar) → List (Str × MetaVal)
  | [] => acc
  | f :: fs => metaDict (dictSet acc f.1 (.val f.2.val)) fs

/-- the warnings of the META loop, in emission order: only the duplicate-key warning (no W_PATTERN_AUTOQUOTE in META). -/
def metaWarns (pos : Nat → LPos) : KeyPos → List (Str × Scalar) → Nat → List Warning
  | _, [], _ => []
  | kp, f :: fs, i => (trackPure kp f.1 (pos i).l).2 ++ metaWarns pos (trackPure kp f.1 (pos i).l).1 fs (i + 1)

/-- what ends the META block at the start of a line (`has_indented = False`): anything but a blank line or an INDENT that
is at least as deep as the fields — a key at depth 0, `===END===`, EOF, a comment at depth 0, a `§` marker, `---` …. -/
def metaStops (lvl : Nat) (e : Token) : Bool :=
  e.type != .newline && (e.type != .indent || decide (indentVal e < lvl))

theorem metaStops_of_stopsAt {ci lvl : Nat} (h : ci ≤ lvl) {e : Token} (hs : stopsAt ci e = true) : metaStops lvl e = true := by
  simp only [stopsAt, metaStops, Bool.and_eq_true, Bool.or_eq_true, bne_iff_ne, ne_eq, decide_eq_true_eq] at hs ⊢
  refine ⟨hs.1.1.1, ?_⟩
  rcases hs.2 with h1 | h1
  · exact Or.inl h1
  · exact Or.inr (by omega)

theorem fieldNodes_nil : fieldNodes [] = [] := rfl
theorem fieldNodes_cons (f : Str × Scalar) (fs : List (Str × Scalar)) :
    fieldNodes (f :: fs) = TNode.line f.1 f.2 :: fieldNodes fs := rfl

theorem fieldNodes_lines (fields : List (Str × Scalar)) : linesList (fieldNodes fields) = fields.length := by
  induction fields with
  | nil => rfl
  | cons f fs ih =>
    simp only [fieldNodes, List.map_cons, linesList, TNode.lines, List.length_cons] at ih ⊢
    rw [ih]; omega

theorem fieldToks_length (pos : Nat → LPos) (fields : List (Str × Scalar)) (d i : Nat) :
    (toksList pos (fieldNodes fields) (d + 1) i).length = 5 * fields.length := by
  induction fields generalizing i with
  | nil => rfl
  | cons f fs ih =>
    have := ih (i + 1)
    simp only [fieldNodes, List.map_cons, toksList, indentToks, TNode.body, TNode.lines, Line.toks, List.length_append,
      List.length_cons, List.length_nil] at this ⊢
    omega

/-- the loop stops at the start of a line on a token that `metaStops`. -/
theorem metaLoop_stop (vf fuel lvl : Nat) (hl : 0 < lvl) (acc : List (Str × MetaVal)) (kp : KeyPos) (e : Token) (r : List Token)
    (p : Option Token) (n : Nat) (la : Token) (w : List Warning) (d : Nat) (wd : List Nat) (s : Bool) (th : Nat) (al : Char → Bool)
    (hs : metaStops lvl e = true) :
    metaLoop vf (fuel + 1) lvl false acc kp { rest := e :: r, prev := p, pos := n, last := la, warnings := w, depth := d, warned := wd, strict := s, threshold := th, alpha := al }
      = .ok (acc, { rest := e :: r, prev := p, pos := n, last := la, warnings := w, depth := d, warned := wd, strict := s, threshold := th, alpha := al }) := by
  simp only [metaStops, Bool.and_eq_true, Bool.or_eq_true, bne_iff_ne, ne_eq, decide_eq_true_eq] at hs
  obtain ⟨h1, h4⟩ := hs
  rw [metaLoop]
  step_simp []
  by_cases he : e.type = TT.eof ∨ e.type = TT.envelopeEnd
  · rw [if_pos he]; rfl
  · rw [if_neg he]
    by_cases hi : e.type = TT.indent
    · have h5 : indentVal e < lvl := by
        rcases h4 with h | h
        · exact absurd hi h
        · exact h
      obtain ⟨ty, val, l, c, nf, raw⟩ := e
      simp only at hi
      subst hi
      cases val <;> simp only [indentVal] at h5 <;> step_simp [h5] <;> (try (rw [if_pos hl]))
    · step_simp [hi, h1, gt_iff_lt, hl]
      by_cases hc : e.type = TT.comment
      · rw [if_pos hc]; rfl
      · rw [if_neg hc]
        by_cases hid : e.type = TT.identifier
        · rw [if_pos hid]; rfl
        · rw [if_neg hid]; rfl


theorem fieldToks_cons_ne_nil (pos : Nat → LPos) (fs : List (Str × Scalar)) (d i : Nat) (e : Token) (k : List Token) :
    toksList pos (fieldNodes fs) (d + 1) i ++ e :: k ≠ [] := by
  cases fs <;> simp [fieldNodes, toksList, indentToks]

/-- **the META loop on any number of field lines**, from the start of a line (`has_indented = False`), at indentation
`2·(d+1)` (the lexer gives `d = 0`), followed by a token that `metaStops`: the dict is updated field by field, the cursor
ends on that token, only duplicate-key warnings are added. -/
theorem metaLoop_fields (pos : Nat → LPos) (vf d : Nat) (fields : List (Str × Scalar)) (i fuel : Nat)
    (acc : List (Str × MetaVal)) (kp : KeyPos) (e : Token) (k : List Token) (st : PState)
    (hr : st.rest = toksList pos (fieldNodes fields) (d + 1) i ++ e :: k)
    (hs : metaStops (2 * (d + 1)) e = true) (hvf : 2 ≤ vf) (hfuel : 3 * fields.length + 1 ≤ fuel) :
    metaLoop vf fuel (2 * (d + 1)) false acc kp st
      = .ok (metaDict acc fields,
             { st with rest := e :: k, prev := prevAfterList pos st.prev (fieldNodes fields) i,
                       pos := st.pos + 5 * fields.length,
                       warnings := (metaWarns pos kp fields i).reverse ++ st.warnings }) := by
  obtain ⟨vf0, rfl⟩ : ∃ vf0, vf = vf0 + 2 := ⟨vf - 2, by omega⟩
  induction fields generalizing i fuel acc kp st with
  | nil =>
    obtain ⟨rest, p, n, la, w, dp, wd, s, th, al⟩ := st
    simp only [fieldNodes_nil, toksList, List.nil_append] at hr
    subst hr
    obtain ⟨F, rfl⟩ : ∃ F, fuel = F + 1 := ⟨fuel - 1, by omega⟩
    rw [metaLoop_stop (hl := by omega) (hs := hs)]
    simp only [metaDict, fieldNodes_nil, prevAfterList, List.length_nil, Nat.mul_zero, Nat.add_zero, metaWarns,
      List.reverse_nil, List.nil_append]
  | cons f fs ih =>
    obtain ⟨rest, p, n, la, w, dp, wd, s, th, al⟩ := st
    simp only [fieldNodes_cons, toksList, indentToks, TNode.body, TNode.lines, List.cons_append, List.nil_append,
      List.append_assoc] at hr
    subst hr
    simp only [List.length_cons] at hfuel
    obtain ⟨F, rfl⟩ : ∃ F, fuel = F + 3 := ⟨fuel - 3, by omega⟩
    rw [metaLoop]
    step_simp [indentTok, Nat.lt_irrefl]
    rw [advance_ne (h := by simp [Line.toks])]
    simp only []
    rw [metaLoop_line (hk := fieldToks_cons_ne_nil pos fs d (i + 1) e k)]
    rw [ih (i + 1) F _ _ _ rfl (by omega)]
    simp only [metaDict, mkLine, fieldNodes_cons, prevAfterList_some, prevAfterList_cons, TNode.lastTok, TNode.lines,
      metaWarns, List.reverse_append, trackPure_warns_reverse, List.append_assoc]
    apply ok_pos_congr
    omega


/-- `metaLoop_fields` entered with the cursor on the key of the first field (its INDENT already consumed by
`parse_meta_block`). -/
theorem metaLoop_first (pos : Nat → LPos) (vf d : Nat) (f : Str × Scalar) (fs : List (Str × Scalar)) (i fuel : Nat)
    (acc : List (Str × MetaVal)) (kp : KeyPos) (e : Token) (k : List Token)
    (p : Option Token) (n : Nat) (la : Token) (w : List Warning) (dp : Nat) (wd : List Nat) (s : Bool) (th : Nat) (al : Char → Bool)
    (hs : metaStops (2 * (d + 1)) e = true) (hvf : 2 ≤ vf) (hfuel : 3 * fs.length + 3 ≤ fuel) :
    metaLoop vf fuel (2 * (d + 1)) true acc kp
        { rest := (mkLine f.1 f.2 (pos i)).toks ++ (toksList pos (fieldNodes fs) (d + 1) (i + 1) ++ e :: k), prev := p, pos := n,
          last := la, warnings := w, depth := dp, warned := wd, strict := s, threshold := th, alpha := al }
      = .ok (metaDict acc (f :: fs),
             { rest := e :: k, prev := prevAfterList pos p (fieldNodes (f :: fs)) i, pos := n + 4 + 5 * fs.length,
               last := la, warnings := (metaWarns pos kp (f :: fs) i).reverse ++ w, depth := dp, warned := wd, strict := s,
               threshold := th, alpha := al }) := by
  obtain ⟨vf0, rfl⟩ : ∃ vf0, vf = vf0 + 2 := ⟨vf - 2, by omega⟩
  obtain ⟨F, rfl⟩ : ∃ F, fuel = F + 2 := ⟨fuel - 2, by omega⟩
  rw [metaLoop_line (hk := fieldToks_cons_ne_nil pos fs d (i + 1) e k)]
  rw [metaLoop_fields pos (vf0 + 2) d fs (i + 1) F _ _ e k _ rfl hs (by omega) (by omega)]
  simp only [metaDict, mkLine, fieldNodes_cons, prevAfterList_some, prevAfterList_cons, TNode.lastTok, TNode.lines,
    metaWarns, List.reverse_append, trackPure_warns_reverse, List.append_assoc]

/-- **`parse_meta_block` on a header `KEY:` followed by at least one field line** (then by a token that `metaStops`). -/
theorem parseMetaBlock_fields (pos : Nat → LPos) (vf d i : Nat) (key : Str) (f : Str × Scalar) (fs : List (Str × Scalar))
    (e : Token) (k : List Token)
    (p : Option Token) (n : Nat) (la : Token) (w : List Warning) (dp : Nat) (wd : List Nat) (s : Bool) (th : Nat) (al : Char → Bool)
    (hs : metaStops (2 * (d + 1)) e = true) (hvf : 2 ≤ vf) :
    parseMetaBlock vf
        { rest := hdrKeyTok key (pos i) :: hdrBlockTok (pos i) :: hdrNlTok (pos i) :: (toksList pos (fieldNodes (f :: fs)) (d + 1) (i + 1) ++ e :: k),
          prev := p, pos := n, last := la, warnings := w, depth := dp, warned := wd, strict := s, threshold := th, alpha := al }
      = .ok (metaDict [] (f :: fs),
             { rest := e :: k, prev := prevAfterList pos p (fieldNodes (f :: fs)) (i + 1), pos := n + 3 + 5 * (fs.length + 1),
               last := la, warnings := (metaWarns pos [] (f :: fs) (i + 1)).reverse ++ w, depth := dp, warned := wd, strict := s,
               threshold := th, alpha := al }) := by
  simp only [fieldNodes_cons, toksList, indentToks, TNode.body, TNode.lines, List.cons_append, List.nil_append, List.append_assoc]
  unfold parseMetaBlock
  simp only [bind, StateT.bind, Except.bind, expect_eq (tt := TT.identifier) (t := hdrKeyTok key (pos i)) (h := rfl),
    expect_eq (tt := TT.block) (t := hdrBlockTok (pos i)) (h := rfl)]
  rw [skipWhitespace_newline (h := rfl) (h1 := by simp [indentTok]) (h2 := by simp [indentTok])]
  step_simp [indentTok]
  rw [advance_ne (h := by simp [Line.toks])]
  simp only []
  rw [metaLoop_first pos vf d f fs (i + 1) _ [] [] e k _ _ _ _ _ _ _ _ _ hs hvf
    (by simp only [List.length_append, Line.toks, List.length_cons, List.length_nil, fieldToks_length]; omega)]
  simp only [fieldNodes_cons, prevAfterList_cons]
  apply ok_pos_congr
  omega


/-- **`parse_meta_block` on a header `KEY:` with NO indented line after it** (next token not a blank line, a comment or an
INDENT): the empty dict, the cursor on that token.  (The emitter never writes this: an empty META is not emitted.) -/
theorem parseMetaBlock_empty (vf : Nat) (key : Str) (q : LPos) (e : Token) (k : List Token)
    (p : Option Token) (n : Nat) (la : Token) (w : List Warning) (dp : Nat) (wd : List Nat) (s : Bool) (th : Nat) (al : Char → Bool)
    (h1 : e.type ≠ TT.newline) (h2 : e.type ≠ TT.comment) (h3 : e.type ≠ TT.indent) :
    parseMetaBlock vf
        { rest := hdrKeyTok key q :: hdrBlockTok q :: hdrNlTok q :: e :: k,
          prev := p, pos := n, last := la, warnings := w, depth := dp, warned := wd, strict := s, threshold := th, alpha := al }
      = .ok ([], { rest := e :: k, prev := some (hdrNlTok q), pos := n + 3,
                   last := la, warnings := w, depth := dp, warned := wd, strict := s, threshold := th, alpha := al }) := by
  unfold parseMetaBlock
  simp only [bind, StateT.bind, Except.bind, expect_eq (tt := TT.identifier) (t := hdrKeyTok key q) (h := rfl),
    expect_eq (tt := TT.block) (t := hdrBlockTok q) (h := rfl)]
  rw [skipWhitespace_newline (h := rfl) (h1 := h1) (h2 := h2)]
  step_simp [h3]

/-- **`parse_meta_block` on `KEY:` followed by any number (also zero) of field lines at `INDENT(2)`**, then by the first
token of an unindented line (a key — any key —, `===END===`, EOF). -/
theorem parseMetaBlock_any (pos : Nat → LPos) (vf i : Nat) (key : Str) (fields : List (Str × Scalar)) (e : Token) (k : List Token)
    (p : Option Token) (n : Nat) (la : Token) (w : List Warning) (dp : Nat) (wd : List Nat) (s : Bool) (th : Nat) (al : Char → Bool)
    (hty : e.type = TT.identifier ∨ e.type = TT.envelopeEnd ∨ e.type = TT.eof) (hvf : 2 ≤ vf) :
    parseMetaBlock vf
        { rest := hdrKeyTok key (pos i) :: hdrBlockTok (pos i) :: hdrNlTok (pos i) :: (toksList pos (fieldNodes fields) 1 (i + 1) ++ e :: k),
          prev := p, pos := n, last := la, warnings := w, depth := dp, warned := wd, strict := s, threshold := th, alpha := al }
      = .ok (metaDict [] fields,
             { rest := e :: k, prev := prevAfterList pos (some (hdrNlTok (pos i))) (fieldNodes fields) (i + 1),
               pos := n + 3 + 5 * fields.length,
               last := la, warnings := (metaWarns pos [] fields (i + 1)).reverse ++ w, depth := dp, warned := wd, strict := s,
               threshold := th, alpha := al }) := by
  have h1 : e.type ≠ TT.newline := by rcases hty with h | h | h <;> simp [h]
  have h2 : e.type ≠ TT.comment := by rcases hty with h | h | h <;> simp [h]
  have h3 : e.type ≠ TT.indent := by rcases hty with h | h | h <;> simp [h]
  cases fields with
  | nil =>
    simp only [fieldNodes_nil, toksList, List.nil_append]
    rw [parseMetaBlock_empty (h1 := h1) (h2 := h2) (h3 := h3)]
    simp only [metaDict, prevAfterList, List.length_nil, Nat.mul_zero, Nat.add_zero, metaWarns, List.reverse_nil, List.nil_append]
  | cons f fs =>
    have hs : metaStops (2 * (0 + 1)) e = true := by simp [metaStops, h1, h3]
    have := parseMetaBlock_fields pos vf 0 i key f fs e k p n la w dp wd s th al hs hvf
    simp only [Nat.zero_add] at this
    rw [this]
    simp only [fieldNodes_cons, prevAfterList_cons, List.length_cons]

/-! ## `parseDocument` on a document with a META block -/

/-- the token list: envelope line, `META` `:` NEWLINE (body line 0), the fields at `INDENT(2)` (body lines `1 … n`), the
forest at depth 0 (body lines from `n + 1`), `===END===`. -/
def metaToks (f : Frame) (name : Str) (pos : Nat → LPos) (fields : List (Str × Scalar)) (nodes : List TNode) : List Token :=
  f.envTok name :: f.nl0Tok :: hdrKeyTok "META".toList (pos 0) :: hdrBlockTok (pos 0) :: hdrNlTok (pos 0) ::
    (toksList pos (fieldNodes fields) 1 1 ++ (toksList pos nodes 0 (1 + fields.length) ++ [f.endTok, f.nl1Tok, f.eofTok]))

/-- it is the token list of the tree document whose first node is the block `META` with the fields as children. -/
theorem metaToks_eq_tree (f : Frame) (name : Str) (pos : Nat → LPos) (fields : List (Str × Scalar)) (nodes : List TNode) :
    metaToks f name pos fields nodes = treeToks f name pos (TNode.block "META".toList (fieldNodes fields) :: nodes) := by
  simp only [metaToks, treeToks, toksList, indentToks, TNode.body, TNode.lines, fieldNodes_lines, List.nil_append,
    List.cons_append, List.append_assoc, Nat.zero_add]

/-- the document it denotes: the fields in `meta`, the forest in `sections`. -/
def metaDoc (name : Str) (pos : Nat → LPos) (fields : List (Str × Scalar)) (nodes : List TNode) : Document :=
  { name := name, metaKv := metaDict [] fields, sections := nodeList pos nodes (1 + fields.length) }

/-- what follows the META block: the first key of the body (ANY key — also `META`) or `===END===`. -/
theorem body_head (pos : Nat → LPos) (nodes : List TNode) (i : Nat) (e : Token) (tail : List Token)
    (he : e.type = .envelopeEnd ∨ e.type = .eof) :
    ∃ e' k', toksList pos nodes 0 i ++ e :: tail = e' :: k' ∧
      (e'.type = TT.identifier ∨ e'.type = TT.envelopeEnd ∨ e'.type = TT.eof) := by
  cases nodes with
  | nil => exact ⟨e, tail, rfl, Or.inr he⟩
  | cons c cs =>
    cases c with
    | line key v => exact ⟨_, _, rfl, Or.inl rfl⟩
    | block key cs' => exact ⟨_, _, rfl, Or.inl rfl⟩

theorem parseDocument_meta (f : Frame) (name : Str) (pos : Nat → LPos) (fields : List (Str × Scalar)) (nodes : List TNode)
    (st : PState) (hc : colsOkList pos nodes 0 (1 + fields.length) = true) (hr : st.rest = metaToks f name pos fields nodes) :
    parseDocument st
      = .ok (metaDoc name pos fields nodes,
             { st with rest := [f.nl1Tok, f.eofTok], prev := some f.endTok,
                       pos := st.pos + (5 * fields.length + (toksList pos nodes 0 (1 + fields.length)).length + 6),
                       warnings := (warnsList pos nodes [] (1 + fields.length)).reverse ++
                                   ((metaWarns pos [] fields 1).reverse ++ st.warnings) }) := by
  obtain ⟨e', k', hek, hty⟩ := body_head pos nodes (1 + fields.length) f.endTok [f.nl1Tok, f.eofTok] (Or.inl rfl)
  have h1 : e'.type ≠ TT.newline := by rcases hty with h | h | h <;> simp [h]
  have h2 : e'.type ≠ TT.comment := by rcases hty with h | h | h <;> simp [h]
  have h3 : e'.type ≠ TT.indent := by rcases hty with h | h | h <;> simp [h]
  have h4 : e'.type ≠ TT.separator := by rcases hty with h | h | h <;> simp [h]
  have hst : st = { st with rest := (f.envTok name :: f.nl0Tok :: hdrKeyTok "META".toList (pos 0) :: hdrBlockTok (pos 0) ::
      hdrNlTok (pos 0) :: (toksList pos (fieldNodes fields) 1 1 ++ e' :: k')) } := by
    rw [← hek, ← metaToks, ← hr]
  rw [hst]
  unfold parseDocument
  simp (config := {zeta := false}) only [bind, StateT.bind, Except.bind, budget_mk]
  extract_lets n doc0 jp5 jp4 jp3 jp2 jp1
  step_simp [Frame.envTok, Frame.nl0Tok, skipWhitespace_stop]
  simp only [jp1]
  step_simp []
  simp only [jp2]
  step_simp [skipWhitespace_newline, pyStrVal_str, hdrKeyTok]
  simp only [jp3]
  step_simp [hdrKeyTok]
  have hmb := parseMetaBlock_any pos n 0 "META".toList fields e' k'
    (some { type := TT.newline, value := TVal.str "\n".toList, line := f.nl0L, col := f.nl0C }) (st.pos + 1 + 1) st.last
    st.warnings st.depth st.warned st.strict st.threshold st.alpha hty (by simp only [n]; omega)
  simp only [hdrKeyTok, Nat.zero_add] at hmb
  rw [hmb]
  step_simp [skipWhitespace_stop, h1, h2]
  simp only [jp4]
  step_simp [h4]
  simp only [jp5]
  step_simp []
  have hlen : (toksList pos nodes 0 (1 + fields.length)).length + 2 = k'.length := by
    have := congrArg List.length hek
    simp only [List.length_append, List.length_cons, List.length_nil] at this
    omega
  have hnl := length_le_toks pos nodes 0 (1 + fields.length)
  rw [docLoop_tree' (pos := pos) (nodes := nodes) (e := f.endTok) (tail := [f.nl1Tok, f.eofTok]) (he := Or.inl rfl)
    (i := 1 + fields.length) (hr := hek.symm) (hc := hc)
    (hvf := by simp only [n, List.length_cons, List.length_append]; omega)
    (hfuel := by simp only [n, List.length_cons, List.length_append]; omega)]
  step_simp [Frame.endTok]
  have hp : st.pos + 1 + 1 + 3 + 5 * fields.length + (toksList pos nodes 0 (1 + fields.length)).length + 1
      = st.pos + (5 * fields.length + (toksList pos nodes 0 (1 + fields.length)).length + 6) := by omega
  rw [hp, List.nil_append]
  rfl


/-! ## Distinct keys: the dict is the list of fields, and the reader is silent -/

theorem dictSet_fresh {α : Type} (d : List (Str × α)) (k : Str) (v : α) (h : k ∉ d.map Prod.fst) : dictSet d k v = d ++ [(k, v)] := by
  have : d.any (fun p => p.1 == k) = false := by
    rw [List.any_eq_false]
    intro p hp hpk
    exact h (List.mem_map.2 ⟨p, hp, by simpa using hpk⟩)
  simp only [dictSet, this, Bool.false_eq_true, if_false]

/-- the fields as dict entries, in order. -/
def fieldKv (fields : List (Str × Scalar)) : List (Str × MetaVal) := fields.map fun f => (f.1, MetaVal.val f.2.val)

theorem metaDict_nodup (acc : List (Str × MetaVal)) (fields : List (Str × Scalar))
    (h : (acc.map Prod.fst ++ fields.map Prod.fst).Nodup) : metaDict acc fields = acc ++ fieldKv fields := by
  induction fields generalizing acc with
  | nil => simp [metaDict, fieldKv]
  | cons f fs ih =>
    have hf : f.1 ∉ acc.map Prod.fst := by
      intro hm
      have := List.nodup_append.1 h
      exact this.2.2 _ hm _ (by simp) rfl
    rw [metaDict, dictSet_fresh acc f.1 _ hf, ih]
    · simp [fieldKv]
    · simpa [List.map_append, List.append_assoc] using h

/-- **distinct keys**: `meta` is exactly the fields, in order, with their values and types. -/
theorem metaDict_of_nodup (fields : List (Str × Scalar)) (h : (fields.map Prod.fst).Nodup) :
    metaDict [] fields = fieldKv fields := by
  have := metaDict_nodup [] fields (by simpa using h)
  simpa using this

/-- no duplicate-key warning when the keys are distinct (and not already in the table). -/
theorem metaWarns_eq_nil (pos : Nat → LPos) (kp : KeyPos) (fields : List (Str × Scalar)) (i : Nat)
    (hnd : (fields.map Prod.fst).Nodup) (hkp : ∀ key ∈ fields.map Prod.fst, kp.lookup key = none) :
    metaWarns pos kp fields i = [] := by
  induction fields generalizing kp i with
  | nil => rfl
  | cons f fs ih =>
    have h0 : kp.lookup f.1 = none := hkp f.1 (by simp)
    have htp : trackPure kp f.1 (pos i).l = (kp ++ [(f.1, [(pos i).l])], []) := by
      unfold trackPure; rw [h0]
    rw [List.map_cons, List.nodup_cons] at hnd
    simp only [metaWarns, htp, List.nil_append]
    apply ih _ _ hnd.2
    intro x hx
    apply lookup_append_none _ _ _ (hkp x (by simp only [List.map_cons, List.mem_cons]; exact Or.inr hx))
    have hne : x ≠ f.1 := fun h => hnd.1 (h ▸ hx)
    simp only [List.lookup_cons, List.lookup_nil]
    rw [beq_eq_false_iff_ne.2 hne]

/-- a repeated key overwrites in place (first position, last value) and is reported once per repetition. -/
example (pos : Nat → LPos) (a b c : Scalar) :
    metaDict [] [("A".toList, a), ("B".toList, b), ("A".toList, c)] = [("A".toList, .val c.val), ("B".toList, .val b.val)]
    ∧ metaWarns pos [] [("A".toList, a), ("B".toList, b), ("A".toList, c)] 1
        = [.duplicateKey "A".toList (pos 1).l (pos 3).l [(pos 1).l, (pos 3).l]] := by
  constructor
  · simp [metaDict, dictSet]
  · simp [metaWarns, trackPure, List.lookup]


/-! ## Boolean equality on documents with scalar META values (for closed `decide` checks) -/

def metaValEqB : MetaVal → MetaVal → Bool
  | .val a, .val b => valEqB a b
  | _, _ => false

def metaKvEqB : List (Str × MetaVal) → List (Str × MetaVal) → Bool
  | [], [] => true
  | a :: as, b :: bs => a.1 == b.1 && metaValEqB a.2 b.2 && metaKvEqB as bs
  | _, _ => false

theorem metaValEqB_sound {a b : MetaVal} (h : metaValEqB a b = true) : a = b := by
  cases a <;> cases b <;> simp only [metaValEqB, Bool.false_eq_true] at h
  rw [valEqB_sound h]

theorem metaKvEqB_sound : ∀ {a b : List (Str × MetaVal)}, metaKvEqB a b = true → a = b
  | [], [], _ => rfl
  | [], _ :: _, h => by simp [metaKvEqB] at h
  | _ :: _, [], h => by simp [metaKvEqB] at h
  | (k, a) :: as, (k', b) :: bs, h => by
    simp only [metaKvEqB, Bool.and_eq_true, beq_iff_eq] at h
    rw [h.1.1, metaValEqB_sound h.1.2, metaKvEqB_sound h.2]

def docEqM (a b : Document) : Bool :=
  a.name == b.name && metaKvEqB a.metaKv b.metaKv && a.hasSeparator == b.hasSeparator &&
  nodesEqT a.sections b.sections && a.grammarVersion == b.grammarVersion &&
  a.rawFrontmatter == b.rawFrontmatter && a.trailingComments == b.trailingComments

theorem docEqM_sound {a b : Document} (h : docEqM a b = true) : a = b := by
  obtain ⟨n, m, hs, s, g, rf, tc⟩ := a
  obtain ⟨n', m', hs', s', g', rf', tc'⟩ := b
  simp only [docEqM, Bool.and_eq_true, beq_iff_eq] at h
  obtain ⟨⟨⟨⟨⟨⟨h1, h2⟩, h3⟩, h4⟩, h5⟩, h6⟩, h7⟩ := h
  rw [h1, metaKvEqB_sound h2, h3, nodesEqT_sound h4, h5, h6, h7]

/-- Boolean test `r = .ok d`. -/
def isOkDocM (r : Except Exc Document) (d : Document) : Bool :=
  match r with | .ok x => docEqM x d | .error _ => false

theorem isOkDocM_sound {r : Except Exc Document} {d : Document} (h : isOkDocM r d = true) : r = .ok d := by
  cases r with
  | error e => simp [isOkDocM] at h
  | ok x => rw [docEqM_sound (a := x) (b := d) h]


/-! ## non-vacuity -/

/-- what ends the META block at the start of a line, what does not. -/
example (p : LPos) (key : Str) (f : Frame) (c : Token) (hc : c.type = .comment) (sm : Token) (hs : sm.type = .section) :
    metaStops 2 (hdrKeyTok key p) = true ∧ metaStops 2 f.endTok = true ∧ metaStops 2 f.eofTok = true
    ∧ metaStops 2 c = true ∧ metaStops 2 sm = true ∧ metaStops 2 (indentTok 0 p) = true
    ∧ metaStops 2 (indentTok 1 p) = false ∧ metaStops 2 (indentTok 2 p) = false ∧ metaStops 2 (hdrNlTok p) = false := by
  simp [metaStops, indentTok, indentVal, hdrKeyTok, hdrNlTok, Frame.endTok, Frame.eofTok, hc, hs]

/-- the loop on two fields with a repeated key, from any state, with the minimal fuel `3·2 + 1`, all positions symbolic. -/
example (pos : Nat → LPos) (st : PState) (a b : Scalar) (e : Token) (k : List Token) (he : e.type = .identifier) :
    metaLoop 2 7 2 false [] [] { st with rest := toksList pos (fieldNodes [("A".toList, a), ("A".toList, b)]) 1 5 ++ e :: k }
      = .ok ([("A".toList, .val b.val)],
             { st with rest := e :: k, prev := some (mkLine "A".toList b (pos 6)).nlTok, pos := st.pos + 10,
                       warnings := .duplicateKey "A".toList (pos 5).l (pos 6).l [(pos 5).l, (pos 6).l] :: st.warnings }) := by
  have := metaLoop_fields pos 2 0 [("A".toList, a), ("A".toList, b)] 5 7 [] [] e k
    { st with rest := toksList pos (fieldNodes [("A".toList, a), ("A".toList, b)]) 1 5 ++ e :: k } rfl
    (by simp [metaStops, he]) (Nat.le_refl _) (Nat.le_refl _)
  rw [this]
  simp [metaDict, dictSet, metaWarns, trackPure, List.lookup, fieldNodes, prevAfterList, lastTokList, TNode.lastTok, TNode.lines]

/-- `parse_meta_block` from any state: two fields, then a key at depth 0 — also when that key is `META`. -/
example (pos : Nat → LPos) (vf : Nat) (a b : Scalar) (p : Option Token) (n : Nat) (la : Token) (w : List Warning) (dp : Nat)
    (wd : List Nat) (s : Bool) (th : Nat) (al : Char → Bool) (k : List Token) :
    parseMetaBlock (vf + 2)
        { rest := hdrKeyTok "META".toList (pos 0) :: hdrBlockTok (pos 0) :: hdrNlTok (pos 0) ::
            (toksList pos (fieldNodes [("TYPE".toList, a), ("VERSION".toList, b)]) 1 (0 + 1) ++ hdrKeyTok "META".toList (pos 3) :: k),
          prev := p, pos := n, last := la, warnings := w, depth := dp, warned := wd, strict := s, threshold := th, alpha := al }
      = .ok ([("TYPE".toList, .val a.val), ("VERSION".toList, .val b.val)],
             { rest := hdrKeyTok "META".toList (pos 3) :: k, prev := some (mkLine "VERSION".toList b (pos 2)).nlTok, pos := n + 3 + 5 * 2,
               last := la, warnings := w, depth := dp, warned := wd, strict := s, threshold := th, alpha := al }) := by
  rw [parseMetaBlock_any pos (vf + 2) 0 "META".toList _ _ k p n la w dp wd s th al (Or.inl rfl) (by omega)]
  simp [metaDict, dictSet, metaWarns, trackPure, List.lookup, fieldNodes, prevAfterList, lastTokList, TNode.lastTok, TNode.lines]

end Octave.MetaParse
