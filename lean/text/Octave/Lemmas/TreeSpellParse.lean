/-
C03 on NESTED BLOCKS, all line-level freedoms together — content model, the EXACT indentation class, and the PARSER half.

`SNode` = a block tree (`TNode` of `BlockLex`) spelled with
  * per node:  `x`, extra leading spaces relative to the BASE indentation of its siblings (0 = written at the base);
  * per block: the width `w` (the base indentation of its children is the header's indentation plus `w`), `trail` trailing
    spaces after the `KEY:` header, blank lines after the header (`blank`: one entry per blank line = the spaces it holds);
  * per `KEY::value` line: an `LSpell` of `Lemmas/FlatSpell` — spaces before / after `::`, trailing spaces, blank lines after
    the line, a bare word in quotes, triple quotes (the `indent` field of the `LSpell` is overridden by the tree).
`SNode.erase` is the tree that is spelled.

THE CLASS (`SNode.ok`, `forestOk`, `topOk`) is what `parse_section` / the child loop of Model/ParserDoc.lean compare, no more:
  the child indentation of a block is the INDENT value of its FIRST child, which must exceed `block_indent = key.column - 1`
  (`w ≥ 1`, first child at the base: `headX0`); a later child may be written DEEPER (`x > 0`, any amount: `v ≥ child_indent`
  is all the loop asks) — but the line that FOLLOWS a node must close every block that the node leaves open: it must be
  shallower than the children's base of a block with children (`nx < q + w`, recursively for the last descendants) and not
  deeper than the header of an EMPTY block (`nx ≤ q`: otherwise it is read as that block's first child).  Uniform spellings
  (every `x = 0`, every `w ≥ 1`: `Props/C03indent`, `uniformList` in `Props/C03tree`) satisfy it.  Top-level nodes are unindented
  (`allX0`).  On the real reader the class is exact: see the prover's report (30000 random ragged spellings).

Tokens at the lexer's CONCRETE positions (`stoks b l`: forest with base indentation `b`, first text line `l`), in the vocabulary
of `FlatSpellParse` (`SLine`, `nlAt`, `indAt`): there is no separate bridge.  The parser half follows `BlockParse` /
`IndentSpellParse` (`SecOK` / `ChildOK` / `LoopOK` indexed by the fuel); what follows a node is described by the indentation of
its line (`StopAt nx e`, `indOf`); the resulting parser state is described up to `prev`, `pos`, `warnings` (`Res`).

NEWLINE tokens of blank lines are swallowed by `skip_whitespace` right after a header, by the child loop of the innermost open
block everywhere else (also in front of a dedent), by the body loop at top level; the value token may be a STRING for a bare
word and may carry `normFrom`.  Results: `parseSection_block`, `docLoop_tree`, `parseDocument_stree` (canonical frame),
`parseDocument_framed` (blank lines after the envelope line; `===END===` followed by anything, or EOF).
-/
import Octave.Lemmas.FlatSpellBridge
import Octave.Lemmas.BlockBridge
namespace Octave.C03.TreeSpell
open Octave Parser FlatParse SpellParse Spell BlockParse

/-- a block tree with every lenient freedom of its lines chosen. -/
inductive SNode where
  | line (x : Nat) (ln : FLine) (sp : LSpell)
  | block (x : Nat) (key : Str) (w trail : Nat) (blank : List Nat) (children : List SNode)

/-- the extra indentation of a node, relative to the base indentation of its siblings. -/
def SNode.x : SNode → Nat
  | .line x _ _ => x
  | .block x _ _ _ _ _ => x

mutual
/-- the tree that is spelled. -/
def SNode.erase : SNode → Octave.TNode
  | .line _ ln _ => .line ln
  | .block _ key _ _ _ cs => .block key (eraseList cs)
def eraseList : List SNode → List Octave.TNode
  | [] => []
  | n :: ns => n.erase :: eraseList ns
end

/-- the indentation of the line that follows the first node of `c :: cs` in a forest with base indentation `b`: the next
sibling's, or `nx` (what follows the forest). -/
def nextInd (b : Nat) (cs : List SNode) (nx : Nat) : Nat :=
  match cs with
  | [] => nx
  | c :: _ => b + c.x

/-- the first node of a forest is written at the base indentation. -/
def headX0 : List SNode → Bool
  | [] => true
  | c :: _ => c.x == 0

mutual
/-- **the class, exactly what `parse_section` / the child loop need**: a node written with `q` leading spaces, followed by a
line with `nx` leading spaces (0 for an unindented line, `===END===`, the end).  A block WITH children: `w ≥ 1`, the next line is
shallower than its children's base `q + w` (the first child sits AT the base; later children may be deeper), and the same holds
inside; an EMPTY block: the next line is not deeper than the block's own header. -/
def SNode.ok : SNode → Nat → Nat → Bool
  | .line _ _ _, _, _ => true
  | .block _ _ w _ _ cs, q, nx =>
    if cs.isEmpty then decide (nx ≤ q) else decide (0 < w) && decide (nx < q + w) && headX0 cs && forestOk cs (q + w) nx
/-- a forest with base indentation `b` (every node at `b + x`), followed by a line with `nx` leading spaces. -/
def forestOk : List SNode → Nat → Nat → Bool
  | [], _, _ => true
  | c :: cs, b, nx => c.ok (b + c.x) (nextInd b cs nx) && forestOk cs b nx
end

/-- the line's spelling with the indentation the tree prescribes. -/
def withInd (sp : LSpell) (d : Nat) : LSpell := { sp with indent := d }

/-- a spelled line with `d` leading spaces at text line `l`, as the parser half of `FlatSpell` describes it. -/
def sline (ln : FLine) (sp : LSpell) (d l : Nat) : SLine := toSLine ln (withInd sp d) l

mutual
/-- number of text lines a node occupies (blank lines included). -/
def SNode.height : SNode → Nat
  | .line _ _ sp => 1 + sp.blank.length
  | .block _ _ _ _ bl cs => 1 + bl.length + heightList cs
def heightList : List SNode → Nat
  | [] => 0
  | c :: cs => c.height + heightList cs
end

def hKey (key : Str) (d l : Nat) : Token := { type := .identifier, value := .str key, line := l, col := 1 + d }
def hBlock (key : Str) (d l : Nat) : Token := { type := .block, value := .str ":".toList, line := l, col := 1 + d + key.length }
def hNl (key : Str) (tr d l : Nat) : Token := { type := .newline, value := .str "\n".toList, line := l, col := 1 + d + key.length + 1 + tr }

mutual
/-- tokens of a node with `d` leading spaces whose first text line is `l`, WITHOUT its INDENT token. -/
def SNode.body (d l : Nat) : SNode → List Token
  | .line _ ln sp => (sline ln sp d l).head3 ++ (sline ln sp d l).base.nlTok :: (blankPos (l + 1) sp.blank).map nlAt
  | .block _ key w tr bl cs =>
    hKey key d l :: hBlock key d l :: hNl key tr d l :: ((blankPos (l + 1) bl).map nlAt ++ stoks (d + w) (l + (1 + bl.length)) cs)
/-- tokens of a forest with base indentation `d` (node `c` has `d + c.x` leading spaces), starting at text line `l`. -/
def stoks (d l : Nat) : List SNode → List Token
  | [] => []
  | c :: cs => (indPos (d + c.x) l).map indAt ++ (c.body (d + c.x) l ++ stoks d (l + c.height) cs)
end

mutual
/-- the AST node the reader produces: positioned at the key (text line, column `1 + d`). -/
def SNode.node (d l : Nat) : SNode → Node
  | .line _ ln sp => (sline ln sp d l).node
  | .block _ key w _ bl cs => .block key (snodes (d + w) (l + (1 + bl.length)) cs) l (1 + d) [] none
def snodes (d l : Nat) : List SNode → List Node
  | [] => []
  | c :: cs => c.node (d + c.x) l :: snodes d (l + c.height) cs
end

/-! ## Evaluation on explicit states -/

local macro "step_simp" "[" ts:Lean.Parser.Tactic.simpLemma,* "]" : tactic =>
  `(tactic| simp only [bind, StateT.bind, Except.bind, pure, StateT.pure, Except.pure, current_mk, peek_mk, advance_mk,
      curType_mk, isAdjacentBracket_mk, budget_mk, warn_mk, get, getThe, MonadStateOf.get, StateT.get,
      Bool.false_eq_true, if_false, if_true, Bool.false_and, Bool.and_false, Bool.or_false, Bool.false_or,
      List.length_cons, List.length_nil, beq_iff_eq, bne_iff_ne, ne_eq, reduceCtorEq, not_true_eq_false, not_false_eq_true,
      Bool.and_eq_true, Bool.or_eq_true, Bool.not_eq_true', beq_eq_false_iff_ne, false_and, and_false, true_and, and_true,
      false_or, or_false, true_or, or_true, decide_eq_true_eq,
      beq_self_eq_true, Bool.true_or, Bool.or_true, Bool.true_and, Bool.and_true, Bool.not_true, Bool.not_false, $ts,*])

/-- `st'` is `st` with the cursor on `R`; `prev`, `pos`, `warnings` unspecified; everything else unchanged. -/
def Res (st : PState) (R : List Token) (st' : PState) : Prop :=
  ∃ p n ws, st' = { st with rest := R, prev := p, pos := n, warnings := ws }

theorem Res.trans {a b c : PState} {R R' : List Token} (h1 : Res a R b) (h2 : Res b R' c) : Res a R' c := by
  obtain ⟨p, n, ws, rfl⟩ := h1
  obtain ⟨p', n', ws', rfl⟩ := h2
  exact ⟨p', n', ws', rfl⟩

theorem Res.of_eq {a a' b : PState} {R : List Token} (h : Res a' R b)
    (he : ∃ r p n ws, a' = { a with rest := r, prev := p, pos := n, warnings := ws }) : Res a R b := by
  obtain ⟨p, n, ws, rfl⟩ := h
  obtain ⟨r', p', n', ws', rfl⟩ := he
  exact ⟨p, n, ws, rfl⟩

theorem body_ne_nil (c : SNode) (d l : Nat) (r : List Token) : c.body d l ++ r ≠ [] := by
  cases c <;> simp [SNode.body, SLine.head3]

theorem indPos_succ (d l : Nat) : (indPos (d + 1) l).map indAt = [indAt (d + 1, l, 1)] := by
  simp [indPos]

theorem blankPos_len : ∀ (ks : List Nat) (l : Nat), (blankPos l ks).length = ks.length
  | [], _ => rfl
  | _ :: ks, l => by simp only [blankPos, List.length_cons, blankPos_len ks (l + 1)]

theorem indPos_zero (l : Nat) : (indPos 0 l).map indAt = [] := by
  simp [indPos]

/-! ## What may follow: the indentation of the next line -/

/-- the indentation of the line a token starts: the INDENT value, 0 for any other token (an unindented line, `===END===`, EOF). -/
def indOf (e : Token) : Nat := if e.type = .indent then indentVal e else 0

/-- `e` is the first token of a line with `nx` leading spaces (not a blank line, a comment or a fence). -/
def StopAt (nx : Nat) (e : Token) : Prop :=
  e.type ≠ .newline ∧ e.type ≠ .comment ∧ e.type ≠ .fenceOpen ∧ indOf e = nx

theorem StopAt.stops {nx : Nat} {e : Token} (h : StopAt nx e) {b : Nat} (hb : nx < b) : stopsAt b e = true := by
  obtain ⟨h1, h2, h3, h4⟩ := h
  simp only [stopsAt, Bool.and_eq_true, Bool.or_eq_true, bne_iff_ne, ne_eq, decide_eq_true_eq]
  refine ⟨⟨⟨h1, h2⟩, h3⟩, ?_⟩
  by_cases hi : e.type = TT.indent
  · right; simp only [indOf, hi, if_true] at h4; omega
  · left; exact hi

theorem stopAt_indAt (v l c : Nat) : StopAt v (indAt (v, l, c)) := by
  simp [StopAt, indAt, indOf, indentVal]

/-! ## The three mutually dependent statements, indexed by the fuel -/

def SecOK (F : Nat) : Prop :=
  ∀ (xo : Nat) (key : Str) (bw tr : Nat) (bl : List Nat) (cs : List SNode) (d l : Nat) (st : PState) (e : Token) (k : List Token) (nx : Nat),
    st.rest = (SNode.block xo key bw tr bl cs).body d l ++ e :: k →
    StopAt nx e →
    (SNode.block xo key bw tr bl cs).ok d nx = true →
    ((SNode.block xo key bw tr bl cs).body d l).length ≤ F →
    ∃ st', parseSection F [] st = .ok (some ((SNode.block xo key bw tr bl cs).node d l), st') ∧ Res st (e :: k) st'

def ChildOK (F : Nat) : Prop :=
  ∀ (c : SNode) (cs : List SNode) (d l li : Nat) (st : PState) (e : Token) (k : List Token) (acc : List Node) (kp : KeyPos) (nx : Nat),
    st.rest = c.body (d + 1 + c.x) l ++ (stoks (d + 1) (l + c.height) cs ++ e :: k) →
    d + 1 ≤ li →
    StopAt nx e → nx < d + 1 →
    forestOk (c :: cs) (d + 1) nx = true →
    (c.body (d + 1 + c.x) l).length + (stoks (d + 1) (l + c.height) cs).length + 1 ≤ F →
    ∃ st', blockLoop F (d + 1) li [] acc kp st = .ok (acc ++ snodes (d + 1) l (c :: cs), st') ∧ Res st (e :: k) st'

def LoopOK (F : Nat) : Prop :=
  ∀ (ps : List (Nat × Nat)) (cs : List SNode) (d l : Nat) (st : PState) (e : Token) (k : List Token) (acc : List Node) (kp : KeyPos) (nx : Nat),
    st.rest = ps.map nlAt ++ (stoks (d + 1) l cs ++ e :: k) →
    StopAt nx e → nx < d + 1 →
    forestOk cs (d + 1) nx = true →
    ps.length + (stoks (d + 1) l cs).length + 1 ≤ F →
    ∃ st', blockLoop F (d + 1) 0 [] acc kp st = .ok (acc ++ snodes (d + 1) l cs, st') ∧ Res st (e :: k) st'

theorem loop_of : ∀ (ps : List (Nat × Nat)) (F : Nat) (_ : ∀ F' < F, ChildOK F')
    (cs : List SNode) (d l : Nat) (st : PState) (e : Token) (k : List Token) (acc : List Node) (kp : KeyPos) (nx : Nat),
    st.rest = ps.map nlAt ++ (stoks (d + 1) l cs ++ e :: k) →
    StopAt nx e → nx < d + 1 →
    forestOk cs (d + 1) nx = true →
    ps.length + (stoks (d + 1) l cs).length + 1 ≤ F →
    ∃ st', blockLoop F (d + 1) 0 [] acc kp st = .ok (acc ++ snodes (d + 1) l cs, st') ∧ Res st (e :: k) st'
  | [], F, ih, cs, d, l, st, e, k, acc, kp, nx, hr, hs, hnx, hc, hF => by
    obtain ⟨rest, p, n, la, w, dp, wd, s, th, al⟩ := st
    simp only [List.map_nil, List.nil_append] at hr
    subst hr
    obtain ⟨F', rfl⟩ : ∃ F', F = F' + 1 := ⟨F - 1, by omega⟩
    cases cs with
    | nil =>
      simp only [stoks, List.nil_append]
      rw [blockLoop_stop (hci := by omega) (hs := hs.stops hnx), show acc ++ snodes (d + 1) l [] = acc by simp only [snodes, List.append_nil]]
      exact ⟨_, rfl, ⟨_, _, _, rfl⟩⟩
    | cons c cs =>
      have hx : d + 1 + c.x = (d + c.x) + 1 := by omega
      have hnl : ¬ (d + c.x + 1 < d + 1) := by omega
      simp only [stoks, hx, indPos_succ, List.cons_append, List.nil_append, List.append_assoc,
        List.length_cons, List.length_append, List.length_nil] at hF ⊢
      rw [blockLoop]
      step_simp [indAt, hnl]
      rw [advance_ne (h := body_ne_nil c _ l _)]
      simp only []
      obtain ⟨st', h, hres⟩ := ih F' (Nat.lt_succ_self _) c cs d l (d + c.x + 1)
        { rest := c.body (d + c.x + 1) l ++ (stoks (d + 1) (l + c.height) cs ++ e :: k),
          prev := some { type := .indent, value := .nat (d + c.x + 1), line := l, col := 1 }, pos := n + 1, last := la,
          warnings := w, depth := dp, warned := wd, strict := s, threshold := th, alpha := al }
        e k acc kp nx (by rw [hx]) (by omega) hs hnx hc (by rw [hx]; omega)
      exact ⟨st', h, hres.of_eq ⟨_, _, _, _, rfl⟩⟩
  | q :: qs, F, ih, cs, d, l, st, e, k, acc, kp, nx, hr, hs, hnx, hc, hF => by
    obtain ⟨rest, p, n, la, w, dp, wd, s, th, al⟩ := st
    simp only [List.map_cons, List.cons_append] at hr
    subst hr
    obtain ⟨F', rfl⟩ : ∃ F', F = F' + 1 := ⟨F - 1, by simp only [List.length_cons] at hF; omega⟩
    rw [blockLoop]
    step_simp [nlAt]
    rw [advance_ne (h := by cases cs <;> simp [stoks])]
    simp only []
    exact Exists.imp (fun st' hh => ⟨hh.1, hh.2.of_eq ⟨_, _, _, _, rfl⟩⟩)
      (loop_of qs F' (fun F'' h'' => ih F'' (by omega)) cs d l _ e k acc kp nx (by rfl) hs hnx hc
        (by simp only [List.length_cons] at hF; omega))

/-- the first token after a node of a forest with base indentation `b` is the first token of a line with `nextInd b cs nx`
leading spaces: the next sibling's line, or what follows the forest. -/
theorem cont_head (cs : List SNode) (b l : Nat) (e : Token) (k : List Token) (nx : Nat) (hs : StopAt nx e) :
    ∃ e' k', stoks b l cs ++ e :: k = e' :: k' ∧ StopAt (nextInd b cs nx) e' := by
  cases cs with
  | nil => exact ⟨e, k, rfl, hs⟩
  | cons c cs =>
    simp only [nextInd]
    cases hq : b + c.x with
    | zero =>
      cases c with
      | line xo ln sp => exact ⟨_, _, by simp only [stoks, hq, indPos_zero, SNode.body, SLine.head3, List.nil_append, List.cons_append]; rfl,
          by simp [StopAt, Line.keyTok, indOf]⟩
      | block xo key bw tr bl cs' => exact ⟨_, _, by simp only [stoks, hq, indPos_zero, SNode.body, List.nil_append, List.cons_append]; rfl,
          by simp [StopAt, hKey, indOf]⟩
    | succ q => exact ⟨_, _, by simp only [stoks, hq, indPos_succ, List.cons_append, List.nil_append]; rfl, stopAt_indAt _ _ _⟩

theorem child_of (F : Nat) (ihS : ∀ F' < F, SecOK F') (ihL : ∀ F' < F, LoopOK F') : ChildOK F := by
  intro c cs d l li st e k acc kp nx hr hli hs hnx hc hF
  have hnlt : ¬ li < d + 1 := by omega
  simp only [forestOk, Bool.and_eq_true] at hc
  obtain ⟨hc, hcs⟩ := hc
  cases c with
  | line xo ln sp =>
    obtain ⟨rest, p, n, la, w, dp, wd, s, th, al⟩ := st
    simp only at hr
    subst hr
    simp only [SNode.body, SNode.height, SNode.x, SLine.head3, List.cons_append, List.nil_append, List.length_cons,
      List.length_map] at hF ⊢
    obtain ⟨G, rfl⟩ : ∃ G, F = G + 5 := ⟨F - 5, by omega⟩
    rw [blockLoop]
    step_simp [Line.keyTok, hnlt]
    rw [parseSection_sline (s := sline ln sp (d + 1 + xo) l) (next := (sline ln sp (d + 1 + xo) l).base.nlTok) (fuel := G + 1)
      (k := (blankPos (l + 1) sp.blank).map nlAt ++ (stoks (d + 1) (l + (1 + sp.blank.length)) cs ++ e :: k))
      (hn := rfl) (hc := by simp [Line.nlTok]) (hr := rfl)]
    step_simp [SLine.node, Line.node, nodeAssignKey?, trackKey_eq]
    rw [blockLoop]
    step_simp [Line.nlTok]
    rw [advance_ne (h := by cases cs <;> simp [stoks])]
    simp only []
    rw [show acc ++ snodes (d + 1) l (SNode.line xo ln sp :: cs)
        = (acc ++ [(sline ln sp (d + 1 + xo) l).node]) ++ snodes (d + 1) (l + (1 + sp.blank.length)) cs by
      simp only [snodes, SNode.node, SNode.height, SNode.x, List.append_assoc, List.cons_append, List.nil_append]]
    simp only [SLine.node, Line.node]
    exact Exists.imp (fun st' hh => ⟨hh.1, hh.2.of_eq ⟨_, _, _, _, rfl⟩⟩)
      (ihL (G + 3) (by omega) (blankPos (l + 1) sp.blank) cs d (l + (1 + sp.blank.length)) _ e k _ _ nx (by rfl) hs hnx hcs
        (by have := blankPos_len sp.blank (l + 1); simp only [blankPos_len]; omega))
  | block xo' key' bw' tr' bl' cs' =>
    obtain ⟨e', k', hek, hs'⟩ := cont_head cs (d + 1) (l + (SNode.block xo' key' bw' tr' bl' cs').height) e k nx hs
    rw [hek] at hr
    obtain ⟨rest, p, n, la, w, dp, wd, s, th, al⟩ := st
    simp only [SNode.x] at hr hc hF ⊢
    subst hr
    obtain ⟨F', rfl⟩ : ∃ F', F = F' + 1 := ⟨F - 1, by omega⟩
    have hlen3 : 3 ≤ ((SNode.block xo' key' bw' tr' bl' cs').body (d + 1 + xo') l).length := by
      simp only [SNode.body, List.length_cons]; omega
    obtain ⟨st1, hsec, p1, n1, ws1, rfl⟩ := ihS F' (Nat.lt_succ_self _) xo' key' bw' tr' bl' cs' (d + 1 + xo') l
      { rest := (SNode.block xo' key' bw' tr' bl' cs').body (d + 1 + xo') l ++ e' :: k', prev := p, pos := n, last := la, warnings := w, depth := dp,
        warned := wd, strict := s, threshold := th, alpha := al } e' k' _ rfl hs' hc (by omega)
    rw [blockLoop]
    simp only [SNode.body, List.cons_append] at hsec ⊢
    step_simp [hKey, hnlt]
    simp only [hKey] at hsec
    rw [hsec]
    step_simp [SNode.node, nodeAssignKey?]
    rw [show acc ++ snodes (d + 1) l (SNode.block xo' key' bw' tr' bl' cs' :: cs)
        = (acc ++ [(SNode.block xo' key' bw' tr' bl' cs').node (d + 1 + xo') l]) ++ snodes (d + 1) (l + (SNode.block xo' key' bw' tr' bl' cs').height) cs by
      simp only [snodes, SNode.x, List.append_assoc, List.cons_append, List.nil_append]]
    simp only [SNode.node]
    exact Exists.imp (fun st' hh => ⟨hh.1, hh.2.of_eq ⟨_, _, _, _, rfl⟩⟩)
      (ihL F' (Nat.lt_succ_self _) [] cs d (l + (SNode.block xo' key' bw' tr' bl' cs').height) _ e k _ _ nx
        (by simp only [List.map_nil, List.nil_append]; exact hek.symm) hs hnx hcs (by simp only [List.length_nil]; omega))

theorem sec_of (F : Nat) (ih : ∀ F' < F, ChildOK F') : SecOK F := by
  intro xo key bw tr bl cs d l st e k nx hr hs hc hF
  obtain ⟨rest, p, n, la, w, dp, wd, s, th, al⟩ := st
  simp only at hr
  subst hr
  obtain ⟨h1, h2, h3, h4⟩ := hs
  cases cs with
  | nil =>
    simp only [SNode.ok, List.isEmpty_nil, if_true, decide_eq_true_eq] at hc
    simp only [SNode.body, stoks, List.cons_append, List.append_nil, List.length_cons] at hF ⊢
    obtain ⟨F', rfl⟩ : ∃ F', F = F' + 1 := ⟨F - 1, by omega⟩
    rw [parseSection]
    step_simp [hKey, hBlock, hNl, pyStrVal_str]
    obtain ⟨p', n', hsk⟩ := skipWhitespace_newlines_cons false (l, 1 + d + key.length + 1 + tr) (blankPos (l + 1) bl) e k h1 h2
      (some { type := .block, value := .str ":".toList, line := l, col := 1 + d + key.length }) (n + 1 + 1) la w dp wd s th al
    simp only [nlAt] at hsk
    rw [hsk]
    step_simp []
    rw [preIndentComments_stop (h1 := h2) (h2 := h1)]
    step_simp []
    simp only [SNode.node, snodes]
    by_cases hi : e.type = TT.indent
    · have h5 : indentVal e ≤ d := by
        simp only [indOf, hi, if_true] at h4; omega
      cases hv : e.value with
      | nat m =>
        simp only [indentVal, hv] at h5
        have h6 : ¬ (m > 1 + d - 1) := by omega
        step_simp [hi, h3, h6, set_mk, decide_false, eq_self, Option.isSome_none]
        exact ⟨_, rfl, ⟨_, _, _, rfl⟩⟩
      | _ =>
        step_simp [hi, h3, set_mk, decide_false, eq_self, Option.isSome_none, gt_iff_lt, Nat.not_lt_zero]
        exact ⟨_, rfl, ⟨_, _, _, rfl⟩⟩
    · have hib : (e.type == TT.indent) = false := by simp [hi]
      step_simp [hi, hib, h3, set_mk, decide_false, eq_self, Option.isSome_none]
      exact ⟨_, rfl, ⟨_, _, _, rfl⟩⟩
  | cons c cs =>
    simp only [SNode.ok, List.isEmpty_cons, Bool.false_eq_true, if_false, headX0, Bool.and_eq_true, decide_eq_true_eq,
      beq_iff_eq] at hc
    obtain ⟨⟨⟨hw, hnx⟩, hx0⟩, hfo⟩ := hc
    obtain ⟨q, hq⟩ : ∃ q, d + bw = q + 1 := ⟨d + bw - 1, by omega⟩
    rw [hq] at hfo hnx
    simp only [SNode.body, hq, stoks, hx0, Nat.add_zero, indPos_succ, List.cons_append, List.nil_append, List.append_assoc, List.length_cons,
      List.length_append, List.length_map] at hF ⊢
    obtain ⟨F', rfl⟩ : ∃ F', F = F' + 1 := ⟨F - 1, by omega⟩
    rw [parseSection]
    step_simp [hKey, hBlock, hNl, pyStrVal_str]
    obtain ⟨p', n', hsk⟩ := skipWhitespace_newlines_cons false (l, 1 + d + key.length + 1 + tr) (blankPos (l + 1) bl)
      (indAt (q + 1, l + (1 + bl.length), 1))
      (c.body (q + 1) (l + (1 + bl.length)) ++ (stoks (q + 1) (l + (1 + bl.length) + c.height) cs ++ e :: k))
      (by simp [indAt]) (by simp [indAt])
      (some { type := .block, value := .str ":".toList, line := l, col := 1 + d + key.length }) (n + 1 + 1) la w dp wd s th al
    simp only [nlAt] at hsk
    rw [hsk]
    step_simp []
    rw [preIndentComments_stop (h1 := by simp [indAt]) (h2 := by simp [indAt])]
    have h6 : q + 1 > 1 + d - 1 := by omega
    step_simp [indAt, h6, decide_true, Option.isSome_none]
    rw [advance_ne (h := body_ne_nil c _ _ _)]
    simp only []
    obtain ⟨st', h, hres⟩ := ih F' (Nat.lt_succ_self _) c cs q (l + (1 + bl.length)) (q + 1)
      { rest := c.body (q + 1) (l + (1 + bl.length)) ++ (stoks (q + 1) (l + (1 + bl.length) + c.height) cs ++ e :: k),
        prev := some { type := .indent, value := .nat (q + 1), line := l + (1 + bl.length), col := 1 }, pos := n' + 1, last := la,
        warnings := w, depth := dp, warned := wd, strict := s, threshold := th, alpha := al }
      e k [] [] nx (by rw [hx0]) (Nat.le_refl _) ⟨h1, h2, h3, h4⟩ hnx hfo (by simp only [hx0, Nat.add_zero]; omega)
    rw [h]
    refine ⟨_, ?_, hres.of_eq ⟨_, _, _, _, rfl⟩⟩
    simp only [SNode.node, hq, snodes, List.nil_append]

theorem all_ok (F : Nat) : SecOK F ∧ ChildOK F ∧ LoopOK F := by
  induction F using Nat.strongRecOn with
  | _ F ih =>
    have hC : ∀ F' < F, ChildOK F' := fun F' h => (ih F' h).2.1
    exact ⟨sec_of F hC, child_of F (fun F' h => (ih F' h).1) (fun F' h => (ih F' h).2.2),
      fun ps cs d l st e k acc kp nx => loop_of ps F hC cs d l st e k acc kp nx⟩

theorem parseSection_block (xo : Nat) (key : Str) (bw tr : Nat) (bl : List Nat) (cs : List SNode) (d l : Nat) (st : PState) (e : Token)
    (k : List Token) (nx F : Nat) (hr : st.rest = (SNode.block xo key bw tr bl cs).body d l ++ e :: k) (hs : StopAt nx e)
    (hc : (SNode.block xo key bw tr bl cs).ok d nx = true) (hF : ((SNode.block xo key bw tr bl cs).body d l).length ≤ F) :
    ∃ st', parseSection F [] st = .ok (some ((SNode.block xo key bw tr bl cs).node d l), st') ∧ Res st (e :: k) st' :=
  (all_ok F).1 xo key bw tr bl cs d l st e k nx hr hs hc hF

/-! ## The body loop of `parseDocument` on a spelled forest -/

/-- every node of the (top-level) forest is written at the base indentation. -/
def allX0 : List SNode → Bool
  | [] => true
  | c :: cs => (c.x == 0) && allX0 cs

/-- **the class of whole documents**: top-level nodes unindented, and `forestOk` from there (what follows is `===END===` or the
end: indentation 0). -/
def topOk (nodes : List SNode) : Bool := allX0 nodes && forestOk nodes 0 0

theorem stopAt_end (e : Token) (he : e.type = .envelopeEnd ∨ e.type = .eof) : StopAt 0 e := by
  rcases he with h | h <;> simp [StopAt, indOf, h]


/-- iterations of the body loop a top-level node costs: a line — one for the section, one per NEWLINE; a block — one. -/
def SNode.dfuel : SNode → Nat
  | .line _ _ sp => 2 + sp.blank.length
  | .block .. => 1
def dfuelList : List SNode → Nat
  | [] => 0
  | c :: cs => c.dfuel + dfuelList cs

theorem sline_ind0 (ln : FLine) (sp : LSpell) (l : Nat) : (sline ln sp 0 l).ind = [] := by
  simp [sline, toSLine, withInd, indPos]

theorem docLoop_tree (vf : Nat) (e : Token) (tail : List Token) (he : e.type = .envelopeEnd ∨ e.type = .eof) :
    ∀ (nodes : List SNode) (l : Nat) (acc : List Node) (kp : KeyPos) (extra : Nat),
    allX0 nodes = true → forestOk nodes 0 0 = true → (stoks 0 l nodes).length + 3 ≤ vf →
    ∀ (p : Option Token) (n : Nat) (la : Token) (w : List Warning) (dp : Nat) (wd : List Nat) (s : Bool) (th : Nat) (al : Char → Bool),
    ∃ p' n' ws', docLoop vf (dfuelList nodes + 1 + extra) [] acc kp
        { rest := stoks 0 l nodes ++ e :: tail, prev := p, pos := n, last := la, warnings := w, depth := dp, warned := wd, strict := s, threshold := th, alpha := al }
      = .ok ((acc ++ snodes 0 l nodes, []),
        { rest := e :: tail, prev := p', pos := n', last := la, warnings := ws', depth := dp, warned := wd, strict := s, threshold := th, alpha := al })
  | [], l, acc, kp, extra, _, _, _, p, n, la, w, dp, wd, s, th, al => by
    refine ⟨p, n, w, ?_⟩
    have hf : dfuelList [] + 1 + extra = extra + 1 := by simp only [dfuelList]; omega
    rw [hf]
    simp only [stoks, List.nil_append, snodes, List.append_nil]
    exact docLoop_stop vf extra [] acc kp e tail he p n la w dp wd s th al
  | .line xo ln sp :: r, l, acc, kp, extra, hx, hc, hvf, p, n, la, w, dp, wd, s, th, al => by
    simp only [allX0, SNode.x, Bool.and_eq_true, beq_iff_eq] at hx
    obtain ⟨hx0, hxr⟩ := hx
    simp only [forestOk, Bool.and_eq_true] at hc
    have hrest : stoks 0 l (SNode.line xo ln sp :: r) ++ e :: tail
        = (sline ln sp 0 l).cutToks ++ (sline ln sp 0 l).base.nlTok ::
            ((blankPos (l + 1) sp.blank).map nlAt ++ (stoks 0 (l + (1 + sp.blank.length)) r ++ e :: tail)) := by
      simp only [stoks, SNode.x, hx0, Nat.add_zero, SNode.body, SNode.height, SLine.cutToks, sline_ind0, indPos_zero, List.map_nil, List.nil_append,
        List.append_assoc, List.cons_append]
    have hlen : (stoks 0 l (SNode.line xo ln sp :: r)).length = 4 + sp.blank.length + (stoks 0 (l + (1 + sp.blank.length)) r).length := by
      simp only [stoks, SNode.x, hx0, Nat.add_zero, SNode.body, SNode.height, indPos_zero, SLine.head3, List.nil_append, List.cons_append, List.length_cons,
        List.length_append, List.length_map, blankPos_len]
      omega
    obtain ⟨vf0, rfl⟩ : ∃ vf0, vf = vf0 + 3 := ⟨vf - 3, by omega⟩
    obtain ⟨p1, n1, h1⟩ := docLoop_cutline vf0 (sline ln sp 0 l) (sline ln sp 0 l).base.nlTok
      ((blankPos (l + 1) sp.blank).map nlAt ++ (stoks 0 (l + (1 + sp.blank.length)) r ++ e :: tail))
      ((dfuelList r + 1 + extra) + (1 + sp.blank.length)) rfl (by simp [Line.nlTok]) acc kp p n la w dp wd s th al
    obtain ⟨p2, n2, h2⟩ := docLoop_skip (vf0 + 3) ((sline ln sp 0 l).base.nlTok :: (blankPos (l + 1) sp.blank).map nlAt)
      (stoks 0 (l + (1 + sp.blank.length)) r ++ e :: tail) (by cases r <;> simp [stoks]) (dfuelList r + 1 + extra) []
      (acc ++ [(sline ln sp 0 l).node]) (trackPure kp (sline ln sp 0 l).base.key (sline ln sp 0 l).base.l).1
      (by intro t ht
          simp only [List.mem_cons, List.mem_map] at ht
          rcases ht with rfl | ⟨q, _, rfl⟩
          · exact Or.inl rfl
          · exact Or.inl rfl)
      p1 n1 la ((docWarns kp [(sline ln sp 0 l).base]).reverse ++ w) dp wd s th al
    obtain ⟨p3, n3, ws3, h3⟩ := docLoop_tree (vf0 + 3) e tail he r (l + (1 + sp.blank.length)) (acc ++ [(sline ln sp 0 l).node])
      (trackPure kp (sline ln sp 0 l).base.key (sline ln sp 0 l).base.l).1 extra hxr hc.2 (by omega)
      p2 n2 la ((docWarns kp [(sline ln sp 0 l).base]).reverse ++ w) dp wd s th al
    refine ⟨p3, n3, ws3, ?_⟩
    have hf : dfuelList (SNode.line xo ln sp :: r) + 1 + extra
        = (dfuelList r + 1 + extra) + (1 + sp.blank.length) + 1 + (sline ln sp 0 l).ind.length := by
      simp only [dfuelList, SNode.dfuel, sline_ind0, List.length_nil]; omega
    have hf2 : (dfuelList r + 1 + extra) + (1 + sp.blank.length)
        = (dfuelList r + 1 + extra) + ((sline ln sp 0 l).base.nlTok :: (blankPos (l + 1) sp.blank).map nlAt).length := by
      simp only [List.length_cons, List.length_map, blankPos_len]; omega
    rw [hrest, hf, h1, hf2]
    simp only [List.cons_append] at h2
    rw [h2, h3]
    simp only [snodes, SNode.x, hx0, Nat.add_zero, SNode.node, SNode.height, List.append_assoc, List.cons_append, List.nil_append]
  | .block xo key bw tr bl cs :: r, l, acc, kp, extra, hx, hc, hvf, p, n, la, w, dp, wd, s, th, al => by
    simp only [allX0, SNode.x, Bool.and_eq_true, beq_iff_eq] at hx
    obtain ⟨hx0, hxr⟩ := hx
    subst hx0
    simp only [forestOk, SNode.x, Nat.add_zero, Bool.and_eq_true] at hc
    obtain ⟨e', k', hek, hs'⟩ := cont_head r 0 (l + (SNode.block 0 key bw tr bl cs).height) e tail 0 (stopAt_end e he)
    simp only [stoks, SNode.x, Nat.add_zero, indPos_zero, List.nil_append, List.append_assoc, List.length_append] at hvf ⊢
    rw [hek]
    obtain ⟨st1, hsec, p1, n1, ws1, rfl⟩ := parseSection_block 0 key bw tr bl cs 0 l
      { rest := (SNode.block 0 key bw tr bl cs).body 0 l ++ e' :: k', prev := p, pos := n, last := la, warnings := w, depth := dp,
        warned := wd, strict := s, threshold := th, alpha := al } e' k' (nextInd 0 r 0) vf rfl hs' hc.1 (by omega)
    obtain ⟨p3, n3, ws3, h3⟩ := docLoop_tree vf e tail he r (l + (SNode.block 0 key bw tr bl cs).height)
      (acc ++ [(SNode.block 0 key bw tr bl cs).node 0 l]) kp extra hxr hc.2 (by omega) p1 n1 la ws1 dp wd s th al
    refine ⟨p3, n3, ws3, ?_⟩
    have hf : dfuelList (SNode.block 0 key bw tr bl cs :: r) + 1 + extra = (dfuelList r + 1 + extra) + 1 := by
      simp only [dfuelList, SNode.dfuel]; omega
    rw [hf, docLoop]
    simp only [SNode.body, List.cons_append] at hsec ⊢
    step_simp [hKey]
    simp only [hKey] at hsec
    rw [hsec]
    step_simp [SNode.node, nodeAssignKey?]
    rw [← hek]
    simp only [SNode.node] at h3
    rw [h3]
    simp only [snodes, SNode.x, Nat.add_zero, SNode.node, List.append_assoc, List.cons_append, List.nil_append]

theorem dfuel_le : ∀ (nodes : List SNode) (l : Nat), dfuelList nodes ≤ (stoks 0 l nodes).length
  | [], _ => Nat.le_refl _
  | .line xo ln sp :: r, l => by
    have := dfuel_le r (l + (SNode.line xo ln sp).height)
    simp only [dfuelList, SNode.dfuel, stoks, SNode.body, SLine.head3, List.nil_append, List.cons_append,
      List.length_cons, List.length_append, List.length_map, blankPos_len]
    omega
  | .block xo key bw tr bl cs :: r, l => by
    have := dfuel_le r (l + (SNode.block xo key bw tr bl cs).height)
    simp only [dfuelList, SNode.dfuel, stoks, SNode.body, List.cons_append,
      List.length_cons, List.length_append, List.length_map]
    omega

/-! ## `parseDocument` on a whole spelled document -/

/-- the token list: envelope line (canonical frame `f`), the forest from text line `l`, `===END===`. -/
def sdocToks (f : Frame) (name : Str) (l : Nat) (nodes : List SNode) : List Token :=
  f.envTok name :: f.nl0Tok :: (stoks 0 l nodes ++ [f.endTok, f.nl1Tok, f.eofTok])

/-- the document read back. -/
def sdoc (name : Str) (l : Nat) (nodes : List SNode) : Document := { name := name, sections := snodes 0 l nodes }

theorem stree_body_head (f : Frame) (l : Nat) (nodes : List SNode) (hx : allX0 nodes = true)
    (hm : firstKeyIsMeta (eraseList nodes) = false) :
    ∃ u K, stoks 0 l nodes ++ [f.endTok, f.nl1Tok, f.eofTok] = u :: K ∧
      u.type ≠ TT.newline ∧ u.type ≠ TT.comment ∧ u.type ≠ TT.separator ∧ u.type ≠ TT.grammarSentinel ∧
      u.type ≠ TT.envelopeStart ∧ ¬(u.type = TT.identifier ∧ u.value = TVal.str "META".toList) := by
  cases nodes with
  | nil => exact ⟨f.endTok, _, rfl, by simp [Frame.endTok], by simp [Frame.endTok], by simp [Frame.endTok], by simp [Frame.endTok], by simp [Frame.endTok], fun h => by cases h.1⟩
  | cons c r =>
    simp only [allX0, Bool.and_eq_true, beq_iff_eq] at hx
    have hx0 := hx.1
    cases c with
    | line xo ln sp =>
      simp only [SNode.x] at hx0
      simp only [eraseList, SNode.erase, firstKeyIsMeta, Octave.TNode.key, beq_eq_false_iff_ne, ne_eq] at hm
      refine ⟨(sline ln sp 0 l).base.keyTok, _, by simp only [stoks, SNode.x, hx0, Nat.add_zero, indPos_zero, SNode.body, SLine.head3, List.nil_append, List.cons_append]; rfl,
        by simp [Line.keyTok], by simp [Line.keyTok], by simp [Line.keyTok], by simp [Line.keyTok], by simp [Line.keyTok], fun h => ?_⟩
      have := h.2
      simp only [Line.keyTok, sline, toSLine, TVal.str.injEq] at this
      exact hm this
    | block xo key bw tr bl cs =>
      simp only [SNode.x] at hx0
      simp only [eraseList, SNode.erase, firstKeyIsMeta, Octave.TNode.key, beq_eq_false_iff_ne, ne_eq] at hm
      refine ⟨hKey key 0 l, _, by simp only [stoks, SNode.x, hx0, Nat.add_zero, indPos_zero, SNode.body, List.nil_append, List.cons_append]; rfl,
        by simp [hKey], by simp [hKey], by simp [hKey], by simp [hKey], by simp [hKey], fun h => ?_⟩
      have := h.2
      simp only [hKey, TVal.str.injEq] at this
      exact hm this

theorem parseDocument_stree (f : Frame) (name : Str) (l : Nat) (nodes : List SNode) (st : PState)
    (hm : firstKeyIsMeta (eraseList nodes) = false) (hc : topOk nodes = true) (hr : st.rest = sdocToks f name l nodes) :
    ∃ st', parseDocument st = .ok (sdoc name l nodes, st') := by
  simp only [topOk, Bool.and_eq_true] at hc
  obtain ⟨u, K, hK, h1, h2, h3, h4, h5, h6⟩ := stree_body_head f l nodes hc.1 hm
  have hlen : (stoks 0 l nodes).length + 2 = K.length := by
    have := congrArg List.length hK
    simp only [List.length_append, List.length_cons, List.length_nil] at this
    omega
  have hnl := dfuel_le nodes l
  have hst : st = { st with rest := f.envTok name :: f.nl0Tok :: u :: K } := by rw [← hK, ← sdocToks, ← hr]
  rw [hst]
  unfold parseDocument
  simp (config := {zeta := false}) only [bind, StateT.bind, Except.bind, budget_mk]
  extract_lets n doc0 jp5 jp4 jp3 jp2 jp1
  step_simp [Frame.envTok, Frame.nl0Tok, skipWhitespace_stop]
  simp only [jp1]
  step_simp []
  simp only [jp2]
  step_simp [skipWhitespace_newline, pyStrVal_str, h1, h2]
  simp only [jp3]
  step_simp [h6]
  simp only [jp4]
  step_simp [h3]
  simp only [jp5]
  step_simp []
  obtain ⟨extra, hex⟩ : ∃ extra, 2 * n = dfuelList nodes + 1 + extra :=
    ⟨2 * n - (dfuelList nodes + 1), by simp only [n, List.length_cons]; omega⟩
  obtain ⟨p', n', ws', h⟩ := docLoop_tree n f.endTok [f.nl1Tok, f.eofTok] (Or.inl rfl) nodes l [] [] extra hc.1 hc.2
    (by simp only [n, List.length_cons]; omega)
    (some { type := TT.newline, value := TVal.str "\n".toList, line := f.nl0L, col := f.nl0C }) (st.pos + 1 + 1) st.last
    st.warnings st.depth st.warned st.strict st.threshold st.alpha
  rw [hK] at h
  rw [hex, h]
  step_simp [Frame.endTok]
  exact ⟨_, rfl⟩

/-! ## … with a spelled FRAME: blank lines after the envelope line, `===END===` present (followed by anything) or omitted -/

/-- `ENVELOPE_START(name) NEWLINE+ forest e …` where `e` is ENVELOPE_END or EOF; every position arbitrary. -/
def fdocToks (name : Str) (el ec : Nat) (q : Nat × Nat) (qs : List (Nat × Nat)) (l : Nat) (nodes : List SNode)
    (e : Token) (tail : List Token) : List Token :=
  envTokAt name el ec :: nlAt q :: (qs.map nlAt ++ (stoks 0 l nodes ++ e :: tail))

theorem stree_body_head' (l : Nat) (nodes : List SNode) (e : Token) (tail : List Token) (he : e.type = .envelopeEnd ∨ e.type = .eof)
    (hx : allX0 nodes = true) (hm : firstKeyIsMeta (eraseList nodes) = false) :
    ∃ u K, stoks 0 l nodes ++ e :: tail = u :: K ∧
      u.type ≠ TT.newline ∧ u.type ≠ TT.comment ∧ u.type ≠ TT.separator ∧ u.type ≠ TT.grammarSentinel ∧
      u.type ≠ TT.envelopeStart ∧ ¬(u.type = TT.identifier ∧ u.value = TVal.str "META".toList) := by
  cases nodes with
  | nil =>
    refine ⟨e, tail, rfl, ?_, ?_, ?_, ?_, ?_, fun h => ?_⟩ <;> rcases he with h' | h' <;> simp_all
  | cons c r =>
    simp only [allX0, Bool.and_eq_true, beq_iff_eq] at hx
    have hx0 := hx.1
    cases c with
    | line xo ln sp =>
      simp only [SNode.x] at hx0
      simp only [eraseList, SNode.erase, firstKeyIsMeta, Octave.TNode.key, beq_eq_false_iff_ne, ne_eq] at hm
      refine ⟨(sline ln sp 0 l).base.keyTok, _, by simp only [stoks, SNode.x, hx0, Nat.add_zero, indPos_zero, SNode.body, SLine.head3, List.nil_append, List.cons_append]; rfl,
        by simp [Line.keyTok], by simp [Line.keyTok], by simp [Line.keyTok], by simp [Line.keyTok], by simp [Line.keyTok], fun h => ?_⟩
      have := h.2
      simp only [Line.keyTok, sline, toSLine, TVal.str.injEq] at this
      exact hm this
    | block xo key bw tr bl cs =>
      simp only [SNode.x] at hx0
      simp only [eraseList, SNode.erase, firstKeyIsMeta, Octave.TNode.key, beq_eq_false_iff_ne, ne_eq] at hm
      refine ⟨hKey key 0 l, _, by simp only [stoks, SNode.x, hx0, Nat.add_zero, indPos_zero, SNode.body, List.nil_append, List.cons_append]; rfl,
        by simp [hKey], by simp [hKey], by simp [hKey], by simp [hKey], by simp [hKey], fun h => ?_⟩
      have := h.2
      simp only [hKey, TVal.str.injEq] at this
      exact hm this

theorem parseDocument_framed (name : Str) (el ec : Nat) (q : Nat × Nat) (qs : List (Nat × Nat)) (l : Nat) (nodes : List SNode)
    (e : Token) (tail : List Token) (he : e.type = .envelopeEnd ∨ e.type = .eof) (st : PState)
    (hm : firstKeyIsMeta (eraseList nodes) = false) (hc : topOk nodes = true)
    (hr : st.rest = fdocToks name el ec q qs l nodes e tail) :
    ∃ st', parseDocument st = .ok (sdoc name l nodes, st') := by
  simp only [topOk, Bool.and_eq_true] at hc
  obtain ⟨u, K, hK, h1, h2, h3, h4, h5, h6⟩ := stree_body_head' l nodes e tail he hc.1 hm
  have hlen : (stoks 0 l nodes).length ≤ K.length := by
    have := congrArg List.length hK
    simp only [List.length_append, List.length_cons] at this
    omega
  have hnl := dfuel_le nodes l
  have hst : st = { st with rest := envTokAt name el ec :: nlAt q :: (qs.map nlAt ++ u :: K) } := by
    rw [← hK, ← fdocToks, ← hr]
  rw [hst]
  obtain ⟨p0, n0, hskip⟩ := skipWhitespace_newlines_cons false q qs u K h1 h2 (some (envTokAt name el ec)) (st.pos + 1) st.last st.warnings
    st.depth st.warned st.strict st.threshold st.alpha
  unfold parseDocument
  simp (config := {zeta := false}) only [bind, StateT.bind, Except.bind, budget_mk]
  extract_lets n doc0 jp5 jp4 jp3 jp2 jp1
  step_simp [envTokAt, skipWhitespace_stop]
  simp only [jp1]
  step_simp []
  simp only [jp2]
  simp only [envTokAt] at hskip
  step_simp [hskip, pyStrVal_str, h1, h2]
  simp only [jp3]
  step_simp [h6]
  simp only [jp4]
  step_simp [h3]
  simp only [jp5]
  step_simp []
  obtain ⟨extra, hex⟩ : ∃ extra, 2 * n = dfuelList nodes + 1 + extra :=
    ⟨2 * n - (dfuelList nodes + 1), by simp only [n, List.length_cons, List.length_append, List.length_map]; omega⟩
  obtain ⟨p', n', ws', h⟩ := docLoop_tree n e tail he nodes l [] [] extra hc.1 hc.2
    (by simp only [n, List.length_cons, List.length_append, List.length_map]; omega)
    p0 n0 st.last st.warnings st.depth st.warned st.strict st.threshold st.alpha
  rw [hK] at h
  rw [hex, h]
  step_simp [List.nil_append]
  obtain ⟨st', hfin, _⟩ := finish_doc (sdoc name l nodes) _ e
  exact ⟨st', hfin⟩

end Octave.C03.TreeSpell
