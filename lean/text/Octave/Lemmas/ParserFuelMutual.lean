import Octave.Lemmas.ParserFuelValue
/-!
C20, parser side: **no hang** — the mutual block of `parse_value`.

Fuel is burnt along ONE call chain only; each of `parseValue → parseList → listLoop → parseListItem → parseValue`
spends one unit, so a bracket level costs four: that is the weight of `[` in `cA`.  All other calls of the block
(`numberWords`, `plainWords`, `annotatedLoop`, the next `listLoop` iteration) first consume a token of weight ≥ 1.
-/
namespace Octave
namespace Parser

-- the proofs below execute every path of large `do` blocks symbolically: 5× the default budget, so that no proof
-- sits at the edge of the deterministic timeout
set_option maxHeartbeats 1000000

theorem wtA_pos_of_not_end {t : TT} (h : ¬(t == .listEnd || t == .eof || t == .envelopeEnd) = true) :
    1 ≤ wtA t := by
  cases t <;> first | decide | (exact absurd rfl h)

/-! the seven specifications at one fuel level -/

def SpecV (fuel : Nat) : Prop := ∀ {r : List Token}, (EofEnd r ∧ cA r + 2 ≤ fuel) →
  wpr (parseValue fuel) r (fun _ r' => Le r r' ∧ cA r' + wtA (hd r).type ≤ cA r)
def SpecN (fuel : Nat) : Prop := ∀ {s : Token} {w : List Str} {r : List Token}, (EofEnd r ∧ cA r + 1 ≤ fuel) →
  wpr (numberWords fuel s w) r (fun _ r' => Le r r')
def SpecP (fuel : Nat) : Prop := ∀ {s : Token} {w : List Str} {r : List Token}, (EofEnd r ∧ cA r + 1 ≤ fuel) →
  wpr (plainWords fuel s w) r (fun _ r' => Le r r')
def SpecA (fuel : Nat) : Prop := ∀ {b i : List Str} {r : List Token}, (EofEnd r ∧ cA r + 1 ≤ fuel) →
  wpr (annotatedLoop fuel b i) r (fun _ r' => Le r r')
def SpecL (fuel : Nat) : Prop := ∀ {r : List Token}, (EofEnd r ∧ cA r + 1 ≤ fuel) →
  wpr (parseList fuel) r (fun _ r' => Le r r' ∧ cA r' + 4 ≤ cA r)
def SpecLL (fuel : Nat) : Prop := ∀ {items : List Value} {r : List Token}, (EofEnd r ∧ cA r + 4 ≤ fuel) →
  wpr (listLoop fuel items) r (fun _ r' => Le r r')
def SpecI (fuel : Nat) : Prop := ∀ {r : List Token}, (EofEnd r ∧ cA r + 3 ≤ fuel) →
  wpr (parseListItem fuel) r (fun _ r' => Le r r' ∧ cA r' + wtA (hd r).type ≤ cA r)

theorem numberWords_step {n : Nat} (ihN : SpecN n) : SpecN (n + 1) := by
  unfold SpecN at *
  intro s w r h
  unfold numberWords
  wp_ind [ihN]
  all_goals wp_fin

theorem plainWords_step {n : Nat} (ihP : SpecP n) : SpecP (n + 1) := by
  unfold SpecP at *
  intro s w r h
  unfold plainWords
  wp_ind [ihP]
  all_goals wp_fin

theorem annotatedLoop_step {n : Nat} (ihA : SpecA n) : SpecA (n + 1) := by
  unfold SpecA at *
  intro b i r h
  unfold annotatedLoop
  wp_ind [ihA]
  all_goals wp_fin

theorem parseList_step {n : Nat} (ihLL : SpecLL n) : SpecL (n + 1) := by
  unfold SpecL SpecLL at *
  intro r h
  unfold parseList
  wp_ind [ihLL]
  all_goals wp_fin

theorem listLoop_step {n : Nat} (ihLL : SpecLL n) (ihI : SpecI n) : SpecLL (n + 1) := by
  unfold SpecLL SpecI at *
  intro items r h
  unfold listLoop
  wp_ind [ihLL, ihI]
  all_goals try wp_fin
  all_goals
    have := wtA_pos_of_not_end ‹¬(_ == TT.listEnd || _ == TT.eof || _ == TT.envelopeEnd) = true›
    omega

theorem parseListItem_step {n : Nat} (ihV : SpecV n) : SpecI (n + 1) := by
  unfold SpecV SpecI at *
  intro r h
  unfold parseListItem
  wp_ind [ihV]
  all_goals wp_fin

end Parser
end Octave
