import Octave.Lemmas.ListLex
/-!
The lexer on flat documents whose values are scalars or LISTS WHOSE ITEMS ARE scalars or single-pair INLINE-MAP items
`key::scalar` (`K::[a::1,b::"x y",zz,c::true]`), in either list layout (one line, or one item per line behind any number of
spaces, closing bracket at column 1).  Port of `Lemmas/ListLex` with a new item kind (`MItem`): an item is now SEVERAL tokens
(`MItem.toks`: one token for a scalar, IDENTIFIER ASSIGN value for an entry); the per-token steps (`lex_lb`, `lex_rb`,
`lex_comma`, `lex_nl`, `lex_indent`, `lex_ident`, `lex_assign`, `lex_item`), `At` / `Lexes`, `FF0` / `FFmid` / `NoTab` are
reused from `Lemmas/ListLex`.

* `MItem`, `MValue`, `MLine`; texts `mInlineText` / `mMultiText` / `MLine.text` / `mdocText`; tokens `mInlineToks` /
  `mMultiToks` / `MLine.toks` / `mdocToks` (reading order, concrete positions);
* `lex_mitem` (an item after any separator, before `,` `]` or a line end), `lex_mInline`, `lex_mMulti`, `lex_mvalue`,
  `lex_mline`, `lex_mlines`, `lex_mdoc`, and the result `tokenize_mdoc`.
Everything lives in `namespace Octave.Maps`.
-/
namespace Octave.Maps
open Lexer Scan Emitter
open Octave.ListDoc

/-! ### items, values, lines -/

/-- a list item: a scalar, or ONE inline-map pair `key::scalar` (what `parse_list_item` builds for `IDENTIFIER :: value`:
an `InlineMap` with exactly that pair — consecutive `k::v` items are NOT grouped). -/
inductive MItem where
  | scalar (s : FScalar)
  | entry (key : Str) (v : FScalar)
  deriving Repr, DecidableEq

def MItem.text : MItem → Str
  | .scalar s => s.text
  | .entry k v => k ++ (':' :: ':' :: v.text)

def MItem.toks (l c : Nat) : MItem → List Token
  | .scalar s => [s.tok l c]
  | .entry k v => [tIdent k l c, tAssign l (c + k.length), v.tok l (c + k.length + 2)]

/-- lexable: a scalar as in flat documents; an entry's key identifier-shaped without a reserved-word prefix. -/
def MItem.OK : MItem → Prop
  | .scalar s => s.OK
  | .entry k v => isIdentifierText k = true ∧ hasReservedPrefix k = false ∧ v.OK

/-- value of a line: a scalar or a list of items. -/
inductive MValue where
  | scalar (s : FScalar)
  | list (items : List MItem)
  deriving Repr, DecidableEq

structure MLine where
  key : Str
  v : MValue
  deriving Repr, DecidableEq

/-! ### texts -/

def mInlineTail : List MItem → Str
  | [] => [']']
  | x :: r => ',' :: (x.text ++ mInlineTail r)

def mInlineText : List MItem → Str
  | [] => ['[', ']']
  | x :: r => '[' :: (x.text ++ mInlineTail r)

def mMultiTail (ind : Nat) : List MItem → Str
  | [] => ['\n', ']']
  | x :: r => ',' :: '\n' :: (spacesL ind ++ (x.text ++ mMultiTail ind r))

def mMultiText (ind : Nat) : List MItem → Str
  | [] => ['[', '\n', ']']
  | x :: r => '[' :: '\n' :: (spacesL ind ++ (x.text ++ mMultiTail ind r))

def mListText (lay : Layout) (items : List MItem) : Str :=
  match lay with
  | .inline => mInlineText items
  | .multi ind => mMultiText ind items

def MValue.text (lay : Layout) : MValue → Str
  | .scalar s => s.text
  | .list items => mListText lay items

def MLine.text (ln : MLine) (lay : Layout) : Str := ln.key ++ (':' :: ':' :: ln.v.text lay)

abbrev ML := MLine × Layout

def mlinesText : List ML → Str
  | [] => []
  | x :: r => x.1.text x.2 ++ '\n' :: mlinesText r

def mdocText (name : Str) (ls : List ML) : Str :=
  "===".toList ++ name ++ "===".toList ++ '\n' :: (mlinesText ls ++ ("===END===".toList ++ ['\n']))

/-! ### tokens (reading order) -/

def mInlineTailToks (l c : Nat) : List MItem → List Token
  | [] => [tRb l c]
  | x :: r => tComma l c :: (x.toks l (c + 1) ++ mInlineTailToks l (c + 1 + x.text.length) r)

def mInlineToks (l c : Nat) : List MItem → List Token
  | [] => [tLb l c, tRb l (c + 1)]
  | x :: r => tLb l c :: (x.toks l (c + 1) ++ mInlineTailToks l (c + 1 + x.text.length) r)

def mMultiTailToks (ind l c : Nat) : List MItem → List Token
  | [] => [tNewline l c, tRb (l + 1) 1]
  | x :: r => tComma l c :: tNewline l (c + 1) :: (indToks ind (l + 1) ++ (x.toks (l + 1) (1 + ind)
      ++ mMultiTailToks ind (l + 1) (1 + ind + x.text.length) r))

def mMultiToks (ind l c : Nat) : List MItem → List Token
  | [] => [tLb l c, tNewline l (c + 1), tRb (l + 1) 1]
  | x :: r => tLb l c :: tNewline l (c + 1) :: (indToks ind (l + 1) ++ (x.toks (l + 1) (1 + ind)
      ++ mMultiTailToks ind (l + 1) (1 + ind + x.text.length) r))

def mListToks (lay : Layout) (l c : Nat) (items : List MItem) : List Token :=
  match lay with
  | .inline => mInlineToks l c items
  | .multi ind => mMultiToks ind l c items

def MValue.toks (lay : Layout) (l c : Nat) : MValue → List Token
  | .scalar s => [s.tok l c]
  | .list items => mListToks lay l c items

def MValue.height (lay : Layout) : MValue → Nat
  | .scalar _ => 0
  | .list items => match lay with
    | .inline => 0
    | .multi _ => items.length + 1

def MValue.endCol (lay : Layout) (c : Nat) : MValue → Nat
  | .scalar s => c + s.text.length
  | .list items => match lay with
    | .inline => c + (mInlineText items).length
    | .multi _ => 2

def MLine.toks (ln : MLine) (lay : Layout) (l : Nat) : List Token :=
  tIdent ln.key l 1 :: tAssign l (1 + ln.key.length) :: (ln.v.toks lay l (1 + ln.key.length + 2)
    ++ [tNewline (l + ln.v.height lay) (ln.v.endCol lay (1 + ln.key.length + 2))])

def MLine.height (ln : MLine) (lay : Layout) : Nat := ln.v.height lay + 1

def mlinesToks (l : Nat) : List ML → List Token
  | [] => []
  | x :: r => x.1.toks x.2 l ++ mlinesToks (l + x.1.height x.2) r

def mlinesHeight : List ML → Nat
  | [] => 0
  | x :: r => x.1.height x.2 + mlinesHeight r

def mdocToks (name : Str) (ls : List ML) : List Token :=
  tEnvStart name 1 1 :: tNewline 1 (1 + (name.length + 6)) :: (mlinesToks 2 ls ++
    [tEnvEnd (mlinesHeight ls + 2) 1, tNewline (mlinesHeight ls + 2) 10, tEof (mlinesHeight ls + 3) 1])

/-! ### one item -/

theorem mitem_clean (x : MItem) (hx : x.OK) : Clean x.text := by
  cases x with
  | scalar s => exact scalar_clean s hx
  | entry k v =>
    exact Clean.append (identText_clean k hx.1) (Clean.append (clean_lit [':', ':'] (by decide)) (scalar_clean v hx.2.2))

theorem mitem_noNl (x : MItem) (hx : x.OK) : NoNl x.text := fun d hd => (mitem_clean x hx d hd).1

/-- the first char of an item's text: not a space, not a backtick, not a line break. -/
theorem mitem_text_head (x : MItem) (hx : x.OK) : ∃ c t, x.text = c :: t ∧ c ≠ ' ' ∧ c ≠ '`' ∧ c ≠ '\n' := by
  cases x with
  | scalar s => exact scalar_text_head s hx
  | entry k v =>
    have hne : k ≠ [] := by intro e; have := hx.1; rw [e] at this; simp [isIdentifierText] at this
    obtain ⟨kc, kt, hkey⟩ := List.exists_cons_of_ne_nil hne
    have hh := identText_head k hx.1 kc (by rw [hkey]; rfl)
    have hcl := identText_clean k hx.1
    exact ⟨kc, kt ++ (':' :: ':' :: v.text), by simp [MItem.text, hkey], hh.1, hh.2, (hcl kc (by rw [hkey]; simp)).1⟩

/-- **one item** after any separator and before `,`, `]` or a line end: a scalar is one token; an entry `key::scalar` is
IDENTIFIER(key) ASSIGN value, the value token carrying exactly the scalar. -/
theorem lex_mitem (env : Env) (lenient : Bool) (st : LState) (x : MItem) (p : Char) (R : Str) (l c : Nat)
    (stk : List (Nat × Nat)) (h : At st l c stk) (hp : st.prev = some p) (hsep : SepChar p) (hterm : ItemTerm R) (hx : x.OK) :
    ∃ st', Lexes env lenient st (x.text ++ R) st' R (x.toks l c) ∧ At st' l (c + x.text.length) stk := by
  cases x with
  | scalar s => exact lex_item env lenient st s p R l c stk h hp hsep hterm hx
  | entry k v =>
    obtain ⟨hk1, hk2, hv⟩ := hx
    obtain ⟨s1, x1, a1⟩ := lex_ident env lenient st k (':' :: ':' :: (v.text ++ R)) l c stk h hk1 hk2 (termOK_colon env _)
    obtain ⟨s2, x2, a2, p2⟩ := lex_assign env lenient s1 (v.text ++ R) l (c + k.length) stk a1
    obtain ⟨s3, x3, a3⟩ := lex_item env lenient s2 v ':' R l (c + k.length + 2) stk a2 p2
      (Or.inr (Or.inr (Or.inr (Or.inl rfl)))) hterm hv
    refine ⟨s3, ?_, a3.cast rfl (by simp [MItem.text]; omega)⟩
    have := (x1.trans x2).trans x3
    simpa [MItem.text, MItem.toks, List.append_assoc] using this

/-! ### list values -/

theorem itemTerm_mInlineTail (r : List MItem) (rest : Str) : ItemTerm (mInlineTail r ++ rest) := by
  cases r with
  | nil => exact ⟨']', rest, rfl, Or.inr (Or.inl rfl)⟩
  | cons x r => exact ⟨',', _, rfl, Or.inl rfl⟩

theorem itemTerm_mMultiTail (ind : Nat) (r : List MItem) (rest : Str) : ItemTerm (mMultiTail ind r ++ rest) := by
  cases r with
  | nil => exact ⟨'\n', _, rfl, Or.inr (Or.inr rfl)⟩
  | cons x r => exact ⟨',', _, rfl, Or.inl rfl⟩

theorem itemTerm_nl (rest : Str) : ItemTerm ('\n' :: rest) := ⟨'\n', rest, rfl, Or.inr (Or.inr rfl)⟩

theorem lex_mInlineTail (env : Env) (lenient : Bool) (items : List MItem) :
    ∀ (st : LState) (rest : Str) (l c : Nat) (top : Nat × Nat) (stk : List (Nat × Nat)), At st l c (top :: stk) →
    (∀ x ∈ items, x.OK) →
    ∃ st', Lexes env lenient st (mInlineTail items ++ rest) st' rest (mInlineTailToks l c items) ∧
      At st' l (c + (mInlineTail items).length) stk := by
  induction items with
  | nil =>
    intro st rest l c top stk h _
    obtain ⟨s1, x1, a1, _⟩ := lex_rb env lenient st rest l c top stk h
    exact ⟨s1, x1, a1⟩
  | cons x r ih =>
    intro st rest l c top stk h hok
    obtain ⟨s1, x1, a1, p1⟩ := lex_comma env lenient st (x.text ++ (mInlineTail r ++ rest)) l c _ h
    obtain ⟨s2, x2, a2⟩ := lex_mitem env lenient s1 x ',' (mInlineTail r ++ rest) l (c + 1) _ a1 p1 (Or.inr (Or.inl rfl))
      (itemTerm_mInlineTail r rest) (hok x (by simp))
    obtain ⟨s3, x3, a3⟩ := ih s2 rest l (c + 1 + x.text.length) top stk a2 (fun y hy => hok y (by simp [hy]))
    refine ⟨s3, ?_, a3.cast rfl (by simp [mInlineTail]; omega)⟩
    have := (x1.trans x2).trans x3
    simpa [mInlineTail, mInlineTailToks, List.append_assoc] using this

theorem lex_mInline (env : Env) (lenient : Bool) (items : List MItem) (st : LState) (rest : Str) (l c : Nat)
    (stk : List (Nat × Nat)) (h : At st l c stk) (hok : ∀ x ∈ items, x.OK) :
    ∃ st', Lexes env lenient st (mInlineText items ++ rest) st' rest (mInlineToks l c items) ∧
      At st' l (c + (mInlineText items).length) stk := by
  cases items with
  | nil =>
    obtain ⟨s1, x1, a1, _⟩ := lex_lb env lenient st (']' :: rest) l c stk h
    obtain ⟨s2, x2, a2, _⟩ := lex_rb env lenient s1 rest l (c + 1) _ _ a1
    exact ⟨s2, by simpa [mInlineText, mInlineToks] using x1.trans x2, a2.cast rfl (by simp [mInlineText])⟩
  | cons x r =>
    obtain ⟨s1, x1, a1, p1⟩ := lex_lb env lenient st (x.text ++ (mInlineTail r ++ rest)) l c stk h
    obtain ⟨s2, x2, a2⟩ := lex_mitem env lenient s1 x '[' (mInlineTail r ++ rest) l (c + 1) _ a1 p1 (Or.inl rfl)
      (itemTerm_mInlineTail r rest) (hok x (by simp))
    obtain ⟨s3, x3, a3⟩ := lex_mInlineTail env lenient r s2 rest l (c + 1 + x.text.length) _ stk a2 (fun y hy => hok y (by simp [hy]))
    refine ⟨s3, ?_, a3.cast rfl (by simp [mInlineText]; omega)⟩
    have := (x1.trans x2).trans x3
    simpa [mInlineText, mInlineToks, List.append_assoc] using this

/-- an item line of a multi-line list, from column 1: INDENT (when indented), the item. -/
theorem lex_mItemLine (env : Env) (lenient : Bool) (st : LState) (ind : Nat) (x : MItem) (R : Str) (l : Nat)
    (stk : List (Nat × Nat)) (h : At st l 1 stk) (hp : st.prev = some '\n') (hterm : ItemTerm R) (hx : x.OK) :
    ∃ st', Lexes env lenient st (spacesL ind ++ (x.text ++ R)) st' R (indToks ind l ++ x.toks l (1 + ind)) ∧
      At st' l (1 + ind + x.text.length) stk := by
  by_cases hind : ind = 0
  · subst hind
    obtain ⟨s2, x2, a2⟩ := lex_mitem env lenient st x '\n' R l 1 stk h hp (Or.inr (Or.inr (Or.inr (Or.inr rfl)))) hterm hx
    exact ⟨s2, by simpa [spacesL, indToks] using x2, a2.cast rfl (by omega)⟩
  · obtain ⟨c0, t0, hct, h1, _, h3⟩ := mitem_text_head x hx
    have e : x.text ++ R = c0 :: (t0 ++ R) := by rw [hct]; simp
    obtain ⟨s1, x1, a1, p1⟩ := lex_indent env lenient st ind c0 (t0 ++ R) l stk h (by omega) h1 h3
    rw [← e] at x1
    obtain ⟨s2, x2, a2⟩ := lex_mitem env lenient s1 x ' ' R l (1 + ind) stk a1 p1 (Or.inr (Or.inr (Or.inl rfl))) hterm hx
    exact ⟨s2, by simpa [indToks, hind] using x1.trans x2, a2⟩

theorem lex_mMultiTail (env : Env) (lenient : Bool) (ind : Nat) (items : List MItem) :
    ∀ (st : LState) (rest : Str) (l c : Nat) (top : Nat × Nat) (stk : List (Nat × Nat)), At st l c (top :: stk) →
    (∀ x ∈ items, x.OK) →
    ∃ st', Lexes env lenient st (mMultiTail ind items ++ rest) st' rest (mMultiTailToks ind l c items) ∧
      At st' (l + items.length + 1) 2 stk := by
  induction items with
  | nil =>
    intro st rest l c top stk h _
    obtain ⟨s1, x1, a1, _⟩ := lex_nl env lenient st (']' :: rest) l c _ h
    obtain ⟨s2, x2, a2, _⟩ := lex_rb env lenient s1 rest (l + 1) 1 top stk a1
    exact ⟨s2, by simpa [mMultiTail, mMultiTailToks] using x1.trans x2, a2.cast (by simp) rfl⟩
  | cons x r ih =>
    intro st rest l c top stk h hok
    obtain ⟨s1, x1, a1, _⟩ := lex_comma env lenient st ('\n' :: (spacesL ind ++ (x.text ++ (mMultiTail ind r ++ rest)))) l c _ h
    obtain ⟨s2, x2, a2, p2⟩ := lex_nl env lenient s1 (spacesL ind ++ (x.text ++ (mMultiTail ind r ++ rest))) l (c + 1) _ a1
    obtain ⟨s3, x3, a3⟩ := lex_mItemLine env lenient s2 ind x (mMultiTail ind r ++ rest) (l + 1) _ a2 p2
      (itemTerm_mMultiTail ind r rest) (hok x (by simp))
    obtain ⟨s4, x4, a4⟩ := ih s3 rest (l + 1) (1 + ind + x.text.length) top stk a3 (fun y hy => hok y (by simp [hy]))
    refine ⟨s4, ?_, a4.cast (by simp; omega) rfl⟩
    have := ((x1.trans x2).trans x3).trans x4
    simpa [mMultiTail, mMultiTailToks, List.append_assoc] using this

theorem lex_mMulti (env : Env) (lenient : Bool) (ind : Nat) (items : List MItem) (st : LState) (rest : Str)
    (l c : Nat) (stk : List (Nat × Nat)) (h : At st l c stk) (hok : ∀ x ∈ items, x.OK) :
    ∃ st', Lexes env lenient st (mMultiText ind items ++ rest) st' rest (mMultiToks ind l c items) ∧
      At st' (l + items.length + 1) 2 stk := by
  cases items with
  | nil =>
    obtain ⟨s1, x1, a1, _⟩ := lex_lb env lenient st ('\n' :: ']' :: rest) l c stk h
    obtain ⟨s2, x2, a2, _⟩ := lex_nl env lenient s1 (']' :: rest) l (c + 1) _ a1
    obtain ⟨s3, x3, a3, _⟩ := lex_rb env lenient s2 rest (l + 1) 1 _ _ a2
    exact ⟨s3, by simpa [mMultiText, mMultiToks] using (x1.trans x2).trans x3, a3.cast (by simp) rfl⟩
  | cons x r =>
    obtain ⟨s1, x1, a1, _⟩ := lex_lb env lenient st ('\n' :: (spacesL ind ++ (x.text ++ (mMultiTail ind r ++ rest)))) l c stk h
    obtain ⟨s2, x2, a2, p2⟩ := lex_nl env lenient s1 (spacesL ind ++ (x.text ++ (mMultiTail ind r ++ rest))) l (c + 1) _ a1
    obtain ⟨s3, x3, a3⟩ := lex_mItemLine env lenient s2 ind x (mMultiTail ind r ++ rest) (l + 1) _ a2 p2
      (itemTerm_mMultiTail ind r rest) (hok x (by simp))
    obtain ⟨s4, x4, a4⟩ := lex_mMultiTail env lenient ind r s3 rest (l + 1) (1 + ind + x.text.length) _ stk a3 (fun y hy => hok y (by simp [hy]))
    refine ⟨s4, ?_, a4.cast (by simp; omega) rfl⟩
    have := ((x1.trans x2).trans x3).trans x4
    simpa [mMultiText, mMultiToks, List.append_assoc] using this


/-! ### values, lines, the whole document -/

def MValue.OK : MValue → Prop
  | .scalar s => s.OK
  | .list items => ∀ x ∈ items, x.OK

def MLine.OK (ln : MLine) : Prop := isIdentifierText ln.key = true ∧ hasReservedPrefix ln.key = false ∧ ln.v.OK

/-- the value of a line, right after `::`, up to the line end. -/
theorem lex_mvalue (env : Env) (lenient : Bool) (v : MValue) (lay : Layout) (st : LState) (rest : Str) (l c : Nat)
    (stk : List (Nat × Nat)) (h : At st l c stk) (hp : st.prev = some ':') (hv : v.OK) :
    ∃ st', Lexes env lenient st (v.text lay ++ '\n' :: rest) st' ('\n' :: rest) (v.toks lay l c) ∧
      At st' (l + v.height lay) (v.endCol lay c) stk := by
  cases v with
  | scalar s =>
    obtain ⟨s1, x1, a1⟩ := lex_item env lenient st s ':' ('\n' :: rest) l c stk h hp (Or.inr (Or.inr (Or.inr (Or.inl rfl)))) (itemTerm_nl rest) hv
    exact ⟨s1, x1, a1⟩
  | list items =>
    cases lay with
    | inline =>
      obtain ⟨s1, x1, a1⟩ := lex_mInline env lenient items st ('\n' :: rest) l c stk h hv
      exact ⟨s1, x1, a1⟩
    | multi ind =>
      obtain ⟨s1, x1, a1⟩ := lex_mMulti env lenient ind items st ('\n' :: rest) l c stk h hv
      exact ⟨s1, x1, a1⟩

/-- **one line** `KEY::value⏎` from column 1. -/
theorem lex_mline (env : Env) (lenient : Bool) (ln : MLine) (lay : Layout) (st : LState) (rest : Str) (l : Nat)
    (stk : List (Nat × Nat)) (h : At st l 1 stk) (hok : ln.OK) :
    ∃ st', Lexes env lenient st (ln.text lay ++ '\n' :: rest) st' rest (ln.toks lay l) ∧ At st' (l + ln.height lay) 1 stk := by
  obtain ⟨hk1, hk2, hv⟩ := hok
  obtain ⟨s1, x1, a1⟩ := lex_ident env lenient st ln.key (':' :: ':' :: (ln.v.text lay ++ '\n' :: rest)) l 1 stk h hk1 hk2 (termOK_colon env _)
  obtain ⟨s2, x2, a2, p2⟩ := lex_assign env lenient s1 (ln.v.text lay ++ '\n' :: rest) l (1 + ln.key.length) stk a1
  obtain ⟨s3, x3, a3⟩ := lex_mvalue env lenient ln.v lay s2 rest l (1 + ln.key.length + 2) stk a2 p2 hv
  obtain ⟨s4, x4, a4, _⟩ := lex_nl env lenient s3 rest _ _ stk a3
  refine ⟨s4, ?_, a4.cast (by simp [MLine.height]; omega) rfl⟩
  have := ((x1.trans x2).trans x3).trans x4
  simpa [MLine.text, MLine.toks, List.append_assoc] using this

theorem lex_mlines (env : Env) (lenient : Bool) (ls : List ML) :
    ∀ (st : LState) (rest : Str) (l : Nat) (stk : List (Nat × Nat)), At st l 1 stk → (∀ x ∈ ls, x.1.OK) →
    ∃ st', Lexes env lenient st (mlinesText ls ++ rest) st' rest (mlinesToks l ls) ∧ At st' (l + mlinesHeight ls) 1 stk := by
  induction ls with
  | nil =>
    intro st rest l stk h _
    exact ⟨st, by simpa [mlinesText, mlinesToks] using Lexes.refl env lenient st rest, h.cast (by simp [mlinesHeight]) rfl⟩
  | cons x r ih =>
    intro st rest l stk h hok
    obtain ⟨s1, x1, a1⟩ := lex_mline env lenient x.1 x.2 st (mlinesText r ++ rest) l stk h (hok x (by simp))
    obtain ⟨s2, x2, a2⟩ := ih s1 rest _ stk a1 (fun y hy => hok y (by simp [hy]))
    refine ⟨s2, ?_, a2.cast (by simp [mlinesHeight]; omega) rfl⟩
    have := x1.trans x2
    simpa [mlinesText, mlinesToks, List.append_assoc] using this

/-- **the whole document** from the initial state. -/
theorem lex_mdoc (env : Env) (lenient : Bool) (name : Str) (ls : List ML)
    (hn : isEnvName name = true) (hne : name ≠ "END".toList) (hok : ∀ x ∈ ls, x.1.OK) :
    ∃ st', Lexes env lenient ({ spans := [] } : LState) (mdocText name ls) st' [] (mdocToks name ls).dropLast ∧
      At st' (mlinesHeight ls + 3) 1 [] := by
  let st0 : LState := { spans := [] }
  obtain ⟨s1, e1, a1⟩ := step_envStart env lenient st0 name ('\n' :: (mlinesText ls ++ ("===END===".toList ++ ['\n']))) rfl hn hne
  have h1 : Lexes env lenient st0 (mdocText name ls) s1 ('\n' :: (mlinesText ls ++ ("===END===".toList ++ ['\n']))) [tEnvStart name 1 1] := by
    refine Lexes.step (by simp [mdocText]) (by simpa [mdocText] using e1) (by rw [a1.toks]; rfl) (by rw [a1.repairs]; rfl)
  have at1 : At s1 1 (1 + (name.length + 6)) [] := ⟨a1.ready, by rw [a1.line], a1.col, by rw [a1.stack]⟩
  obtain ⟨s2, x2, a2, _⟩ := lex_nl env lenient s1 (mlinesText ls ++ ("===END===".toList ++ ['\n'])) _ _ _ at1
  obtain ⟨s3, x3, a3⟩ := lex_mlines env lenient ls s2 ("===END===".toList ++ ['\n']) 2 [] a2 hok
  obtain ⟨s4, x4, a4⟩ := lex_envEnd env lenient s3 ['\n'] _ _ _ a3
  obtain ⟨s5, x5, a5, _⟩ := lex_nl env lenient s4 [] _ _ _ a4
  refine ⟨s5, ?_, a5.cast (by omega) rfl⟩
  have := (((h1.trans x2).trans x3).trans x4).trans x5
  have e : (mdocToks name ls).dropLast = [tEnvStart name 1 1] ++ [tNewline 1 (1 + (name.length + 6))] ++ mlinesToks 2 ls ++
      [tEnvEnd (2 + mlinesHeight ls) 1] ++ [tNewline (2 + mlinesHeight ls) (1 + 9)] := by
    have : mdocToks name ls = ([tEnvStart name 1 1] ++ [tNewline 1 (1 + (name.length + 6))] ++ mlinesToks 2 ls ++
      [tEnvEnd (2 + mlinesHeight ls) 1] ++ [tNewline (2 + mlinesHeight ls) (1 + 9)]) ++ [tEof (mlinesHeight ls + 3) 1] := by
      simp [mdocToks, Nat.add_comm]
    rw [this, List.dropLast_concat]
  rw [e]; exact this

theorem mitem_noNl' (x : MItem) (hx : x.OK) : NoNl x.text := mitem_noNl x hx

/-- an item line (indentation, item) followed by a fence-free rest of the line. -/
theorem FF0_mitem (ind : Nat) (x : MItem) (R : Str) (hx : x.OK) (h : FFmid R) : FF0 (spacesL ind ++ (x.text ++ R)) := by
  obtain ⟨c0, t0, hct, h1, h2, h3⟩ := mitem_text_head x hx
  have hn : NoNl t0 := fun d hd => mitem_noNl x hx d (by rw [hct]; simp [hd])
  rw [hct]
  exact FF0_start ind c0 (t0 ++ R) h1 h2 h3 (FFmid_append t0 R hn h)

theorem FFmid_mMultiTail (ind : Nat) (r : List MItem) (Y : Str) (hr : ∀ x ∈ r, x.OK) (hY : FFmid Y) : FFmid (mMultiTail ind r ++ Y) := by
  induction r with
  | nil =>
    show FFmid ('\n' :: ']' :: Y)
    exact FFmid_nl _ (FF0_start 0 ']' Y (by decide) (by decide) (by decide) hY)
  | cons x r ih =>
    show FFmid (',' :: '\n' :: (spacesL ind ++ (x.text ++ mMultiTail ind r)) ++ Y)
    have e : ',' :: '\n' :: (spacesL ind ++ (x.text ++ mMultiTail ind r)) ++ Y
        = ',' :: '\n' :: (spacesL ind ++ (x.text ++ (mMultiTail ind r ++ Y))) := by simp
    rw [e]
    exact FFmid_cons _ _ (by decide) (FFmid_nl _ (FF0_mitem ind x _ (hr x (by simp)) (ih (fun y hy => hr y (by simp [hy])))))

theorem mInlineTail_clean (r : List MItem) (hr : ∀ x ∈ r, x.OK) : Clean (mInlineTail r) := by
  induction r with
  | nil => exact clean_lit _ (by decide)
  | cons x r ih =>
    have := Clean.append (clean_lit [','] (by decide)) (Clean.append (mitem_clean x (hr x (by simp))) (ih (fun y hy => hr y (by simp [hy]))))
    simpa [mInlineTail] using this

theorem mInlineText_clean (items : List MItem) (h : ∀ x ∈ items, x.OK) : Clean (mInlineText items) := by
  cases items with
  | nil => exact clean_lit _ (by decide)
  | cons x r =>
    have := Clean.append (clean_lit ['['] (by decide)) (Clean.append (mitem_clean x (h x (by simp))) (mInlineTail_clean r (fun y hy => h y (by simp [hy]))))
    simpa [mInlineText] using this

theorem FFmid_mvalue (v : MValue) (lay : Layout) (Y : Str) (hv : v.OK) (hY : FFmid Y) : FFmid (v.text lay ++ Y) := by
  cases v with
  | scalar s => exact FFmid_append _ _ (scalar_noNl s hv) hY
  | list items =>
    cases lay with
    | inline => exact FFmid_append _ _ (fun d hd => (mInlineText_clean items hv d hd).1) hY
    | multi ind =>
      cases items with
      | nil =>
        show FFmid ('[' :: '\n' :: ']' :: Y)
        exact FFmid_cons _ _ (by decide) (FFmid_nl _ (FF0_start 0 ']' Y (by decide) (by decide) (by decide) hY))
      | cons x r =>
        show FFmid ('[' :: '\n' :: (spacesL ind ++ (x.text ++ mMultiTail ind r)) ++ Y)
        have e : '[' :: '\n' :: (spacesL ind ++ (x.text ++ mMultiTail ind r)) ++ Y
            = '[' :: '\n' :: (spacesL ind ++ (x.text ++ (mMultiTail ind r ++ Y))) := by simp
        rw [e]
        exact FFmid_cons _ _ (by decide) (FFmid_nl _ (FF0_mitem ind x _ (hv x (by simp))
          (FFmid_mMultiTail ind r Y (fun y hy => hv y (by simp [hy])) hY)))

theorem FF0_mline (ln : MLine) (lay : Layout) (Y : Str) (hok : ln.OK) (hY : FF0 Y) : FF0 (ln.text lay ++ '\n' :: Y) := by
  obtain ⟨hk1, _, hv⟩ := hok
  have hne : ln.key ≠ [] := by intro e; rw [e] at hk1; simp [isIdentifierText] at hk1
  obtain ⟨kc, kt, hkey⟩ := List.exists_cons_of_ne_nil hne
  have hh := identText_head ln.key hk1 kc (by rw [hkey]; rfl)
  have hcl := identText_clean ln.key hk1
  have e : ln.text lay ++ '\n' :: Y = spacesL 0 ++ kc :: (kt ++ (':' :: ':' :: (ln.v.text lay ++ '\n' :: Y))) := by
    simp [MLine.text, hkey, spacesL]
  rw [e]
  refine FF0_start 0 kc _ hh.1 hh.2 (hcl kc (by rw [hkey]; simp)).1 ?_
  refine FFmid_append kt _ (fun d hd => (hcl d (by rw [hkey]; simp [hd])).1) ?_
  exact FFmid_cons _ _ (by decide) (FFmid_cons _ _ (by decide) (FFmid_mvalue ln.v lay _ hv (FFmid_nl _ hY)))

theorem FF0_mlines (ls : List ML) (Y : Str) (hok : ∀ x ∈ ls, x.1.OK) (hY : FF0 Y) : FF0 (mlinesText ls ++ Y) := by
  induction ls with
  | nil => exact hY
  | cons x r ih =>
    have := FF0_mline x.1 x.2 (mlinesText r ++ Y) (hok x (by simp)) (ih (fun y hy => hok y (by simp [hy])))
    simpa [mlinesText, List.append_assoc] using this

theorem FF0_mdoc (name : Str) (ls : List ML) (hn : isEnvName name = true) (hok : ∀ x ∈ ls, x.1.OK) :
    FF0 (mdocText name ls) := by
  have hend : FF0 ("===END===".toList ++ ['\n']) := by
    intro l hl
    have h3 : splitLines ("===END===".toList ++ ['\n']) = ["===END===".toList, []] := by decide
    rw [h3] at hl
    simp only [List.mem_cons, List.mem_nil_iff, or_false] at hl
    rcases hl with h | h <;> subst h <;> decide
  have hbody := FF0_mlines ls _ hok hend
  have hcl := envLine_clean name hn
  have e : mdocText name ls = spacesL 0 ++ '=' :: ("==".toList ++ name ++ "===".toList ++ '\n' :: (mlinesText ls ++ ("===END===".toList ++ ['\n']))) := by
    simp [mdocText, spacesL]
  rw [e]
  refine FF0_start 0 '=' _ (by decide) (by decide) (by decide) ?_
  have e2 : "==".toList ++ name ++ "===".toList ++ '\n' :: (mlinesText ls ++ ("===END===".toList ++ ['\n']))
      = ("==".toList ++ name ++ "===".toList) ++ '\n' :: (mlinesText ls ++ ("===END===".toList ++ ['\n'])) := by simp
  rw [e2]
  refine FFmid_append _ _ ?_ (FFmid_nl _ hbody)
  intro d hd
  have e3 : "==".toList = ['=', '='] := rfl
  have e4 : "===".toList = ['=', '=', '='] := rfl
  refine (hcl d ?_).1
  rw [e3, e4] at hd; rw [e4]
  simp only [List.mem_append, List.mem_cons, List.mem_nil_iff, or_false, or_self] at hd ⊢
  rcases hd with (h | h) | h
  · exact Or.inl (Or.inl h)
  · exact Or.inl (Or.inr h)
  · exact Or.inr h

def NoTab (s : Str) : Prop := ∀ d ∈ s, d ≠ '\t'

theorem NoTab.append {a b : Str} (ha : NoTab a) (hb : NoTab b) : NoTab (a ++ b) := by
  intro d hd
  rcases List.mem_append.mp hd with h | h
  · exact ha d h
  · exact hb d h

theorem NoTab.cons {c : Char} {s : Str} (hc : c ≠ '\t') (hs : NoTab s) : NoTab (c :: s) := by
  intro d hd
  rcases List.mem_cons.mp hd with h | h
  · subst h; exact hc
  · exact hs d h

theorem noTab_of_clean {s : Str} (h : Clean s) : NoTab s := fun d hd => (h d hd).2

theorem noTab_spaces (n : Nat) : NoTab (spacesL n) := by
  intro d hd
  have : d = ' ' := by simp [spacesL, List.mem_replicate] at hd; exact hd.2
  subst this; decide

theorem noTab_mMultiTail (ind : Nat) (r : List MItem) (hr : ∀ x ∈ r, x.OK) : NoTab (mMultiTail ind r) := by
  induction r with
  | nil => exact noTab_of_clean (clean_lit [']'] (by decide)) |> NoTab.cons (by decide)
  | cons x r ih =>
    exact NoTab.cons (by decide) (NoTab.cons (by decide) ((noTab_spaces ind).append
      ((noTab_of_clean (mitem_clean x (hr x (by simp)))).append (ih (fun y hy => hr y (by simp [hy]))))))

theorem noTab_mvalue (v : MValue) (lay : Layout) (hv : v.OK) : NoTab (v.text lay) := by
  cases v with
  | scalar s => exact noTab_of_clean (scalar_clean s hv)
  | list items =>
    cases lay with
    | inline => exact noTab_of_clean (mInlineText_clean items hv)
    | multi ind =>
      cases items with
      | nil => exact fun d hd => by simp [MValue.text, mListText, mMultiText] at hd; rcases hd with h | h | h <;> subst h <;> decide
      | cons x r =>
        exact NoTab.cons (by decide) (NoTab.cons (by decide) ((noTab_spaces ind).append
          ((noTab_of_clean (mitem_clean x (hv x (by simp)))).append (noTab_mMultiTail ind r (fun y hy => hv y (by simp [hy]))))))

theorem noTab_mlines (ls : List ML) (hok : ∀ x ∈ ls, x.1.OK) : NoTab (mlinesText ls) := by
  induction ls with
  | nil => intro d hd; simp [mlinesText] at hd
  | cons x r ih =>
    have hx := hok x (by simp)
    have h1 : NoTab (x.1.text x.2) :=
      (noTab_of_clean (identText_clean x.1.key hx.1)).append (NoTab.cons (by decide) (NoTab.cons (by decide) (noTab_mvalue x.1.v x.2 hx.2.2)))
    exact h1.append (NoTab.cons (by decide) (ih (fun y hy => hok y (by simp [hy]))))

theorem noTab_mdoc (name : Str) (ls : List ML) (hn : isEnvName name = true) (hok : ∀ x ∈ ls, x.1.OK) :
    NoTab (mdocText name ls) := by
  have h1 : NoTab ("===".toList ++ name ++ "===".toList) := noTab_of_clean (envLine_clean name hn)
  have h2 : NoTab ("===END===".toList ++ ['\n']) := fun d hd => by
    intro e; subst e; revert hd; decide
  exact h1.append (NoTab.cons (by decide) ((noTab_mlines ls hok).append h2))

/-! ### `tokenize` -/

theorem mdocToks_eq (name : Str) (ls : List ML) :
    mdocToks name ls = (mdocToks name ls).dropLast ++ [tEof (mlinesHeight ls + 3) 1] := by
  have : mdocToks name ls = (tEnvStart name 1 1 :: tNewline 1 (1 + (name.length + 6)) :: (mlinesToks 2 ls ++
    [tEnvEnd (mlinesHeight ls + 2) 1, tNewline (mlinesHeight ls + 2) 10])) ++ [tEof (mlinesHeight ls + 3) 1] := by
    simp [mdocToks]
  rw [this, List.dropLast_concat]

/-- **The lexer on a flat document with list values** (any name, any number of lines, scalar values and lists of scalars of
any length, each list in either layout, both lexer modes, every environment whose NFC leaves the lines alone): `tokenize`
succeeds with exactly `mdocToks`, positions included, and with no receipt other than the notes of identifier tokens. -/
theorem tokenize_mdoc (env : Env) (lenient : Bool) (name : Str) (ls : List ML)
    (hn : isEnvName name = true) (hne : name ≠ "END".toList) (hok : ∀ x ∈ ls, x.1.OK)
    (hnfc : ∀ l ∈ splitLines (mdocText name ls), env.nfc l = l) :
    tokenize env (mdocText name ls) lenient = .ok (mdocToks name ls, toksReps (mdocToks name ls)) := by
  have hfence : ∀ l ∈ splitLines (mdocText name ls), fenceLine l = none ∧ env.nfc l = l :=
    fun l hl => ⟨FF0_mdoc name ls hn hok l hl, hnfc l hl⟩
  have hnorm := normalize_plain env (mdocText name ls) hfence
  have htab := tabCheck_noTab [] (mdocText name ls) 0 1 1 (noTab_mdoc name ls hn hok)
  obtain ⟨st', ⟨n, run, ht, hr⟩, hat⟩ := lex_mdoc env lenient name ls hn hne hok
  have hloop := loop_of_run env lenient _ _ st' (mdocText name ls) run (by intro sp hsp; simp at hsp)
  have hreps : toksReps (mdocToks name ls) = toksReps (mdocToks name ls).dropLast := by
    conv => lhs; rw [mdocToks_eq, toksReps_append]
    simp [toksReps, tokReps, tEof]
  unfold tokenize
  simp only [hnorm, htab, hloop, bind, Except.bind, hat.stack, List.getLast?_nil, ht, hr, hat.line, hat.col]
  rw [hreps]
  conv => rhs; rw [mdocToks_eq]
  simp [tEof]

end Octave.Maps
