/-
Parser half of the MASTER class: D's structure (`Lemmas/DParse`: leading comment lines on every node, trailing comment on
lines, blocks, sections, META block, the document's trailing comments) with U's GENERIC lines (`UParse.QLine`: the value is ANY
token list that `parseValue` reads — scalars, lists in any layout, operator expressions).

`PNode` is `DParse.ANode` with a `QLine` in the line constructor; `LineOK ln trail` is `QLine.OK` where `parse_value` stops on
the line's terminator `termTok` (the NEWLINE, or the trailing COMMENT).  The `HdrOK` / `ChildOK` / `LoopOK` scheme of
`DParse` is restated over `PNode`, result states in U's `After` style.  Everything lives in `namespace Octave.MParse`.
-/
import Octave.Lemmas.DParse
import Octave.Lemmas.UParse
set_option linter.unusedSimpArgs false
set_option linter.unusedVariables false
namespace Octave.MParse
open Octave Parser FlatParse
open Octave.UParse (QLine After)
open Octave.ListDocParse (Top lineWarns)
open Octave.BlockParse (indentVal ok_pos_congr set_mk preIndentComments_stop LPos)
open Octave.CommentParse (CPos cmtTok keyTok assignTok blockTok nlTok
  commentBelongsOuter_ge commentBelongsOuter_lt cmtRun preOK stopsL scanOuter_mono preOK_mono stopsL_mono
  cmtRun_scanOuter cmtRun_preOK stopsL_cmt blockLoop_stopL skipWhitespace_false_nl preIndentComments_stopsL stopsL_ne_nil)
open Octave.SectParse (PId SPos secTok secAssignTok secNameTok idNumTok idNameTok idLetterTok hdrNlTok childLoop childLoop_true
  childLoop_false consumeBracketAnnotation_none pyStrVal_int)
open Octave.DParse (texts indT indTs leadT firstInd afterInd afterInd_length lead_indent_eq afterInd_append_ne_nil
  childLoop_stopL childLoop_lead childLoop_indent childLoop_newline childLoop_call_hdr childLoop_call_assign
  sect_withLeading docLoop_newline docLoop_call_hdr docLoop_call_assign leadT0_length leadT0_append_ne_nil docLoop_lead
  cmtRun_lead0 stopsL_lead0 skipWhitespace_false_stop metaPart metaPart_length)

/-- evaluation of the parser monad on explicit states (as in `Lemmas/FlatParse.lean`). -/
local macro "step_simp" "[" ts:Lean.Parser.Tactic.simpLemma,* "]" : tactic =>
  `(tactic| simp only [bind, StateT.bind, Except.bind, pure, StateT.pure, Except.pure, current_mk, peek_mk, advance_mk,
      curType_mk, isAdjacentBracket_mk, budget_mk, warn_mk, get, getThe, MonadStateOf.get, StateT.get,
      Bool.false_eq_true, if_false, if_true, Bool.false_and, Bool.and_false, Bool.or_false, Bool.false_or,
      List.length_cons, List.length_nil, beq_iff_eq, bne_iff_ne, ne_eq, reduceCtorEq, not_true_eq_false, not_false_eq_true,
      Bool.and_eq_true, Bool.or_eq_true, Bool.not_eq_true', beq_eq_false_iff_ne, false_and, and_false, true_and, and_true,
      false_or, or_false, true_or, or_true, decide_eq_true_eq,
      beq_self_eq_true, Bool.true_or, Bool.or_true, Bool.true_and, Bool.and_true, Bool.not_true, Bool.not_false, $ts,*])

/-! ## Lines -/

/-- the COMMENT token of a trailing comment: text, line, column. -/
def trailT : Option (Str × Nat × Nat) → List Token
  | none => []
  | some (s, l, c) => [CommentParse.cmtTok s l c]

/-- first token after the value tokens: the trailing COMMENT, else the NEWLINE. -/
def termTok (ln : QLine) : Option (Str × Nat × Nat) → Token
  | none => ln.nl
  | some (s, l, c) => CommentParse.cmtTok s l c

/-- like `UParse.QLine.OK`, but `parse_value` stops on `termTok` (NEWLINE or the trailing COMMENT). -/
structure LineOK (ln : QLine) (trail : Option (Str × Nat × Nat)) : Prop where
  kt : ln.kt.type = .identifier
  kv : ln.kt.value = .str ln.key
  a : ln.a.type = .assign
  nl : ln.nl.type = .newline
  reads : ∀ (st : PState) (k : List Token) (fuel : Nat), Top st → st.rest = ln.vt :: (ln.vr ++ termTok ln trail :: k) →
    ln.vr.length + 7 ≤ fuel → ∃ s3, parseValue fuel st = .ok (ln.v, s3) ∧ After st (termTok ln trail :: k) ln.vw s3

theorem lineOK_of_qline {ln : QLine} (h : ln.OK) : LineOK ln none :=
  ⟨h.kt, h.kv, h.a, h.nl, h.reads⟩

theorem trailT_length (trail : Option (Str × Nat × Nat)) : (trailT trail).length = if trail.isSome then 1 else 0 := by
  cases trail with
  | none => rfl
  | some x => obtain ⟨s, l, c⟩ := x; rfl

/-- **`parse_section` on a line with any value**, called with the line's leading comments `L`, with or without a trailing
comment: the Assignment with exactly `L` and the trailing text; cursor left ON the line's NEWLINE; the warnings of the value
and W_PATTERN_AUTOQUOTE added. -/
theorem parseSection_mline (ln : QLine) (trail : Option (Str × Nat × Nat)) (h : LineOK ln trail) (L : List Str) (st : PState)
    (k : List Token) (fuel : Nat) (ht : Top st)
    (hr : st.rest = ln.kt :: ln.a :: ln.vt :: (ln.vr ++ (trailT trail ++ ln.nl :: k))) (hf : ln.vr.length + 8 ≤ fuel) :
    ∃ s3, parseSection fuel L st = .ok (some (.assign ln.key ln.v ln.kt.line ln.kt.col L (trail.map Prod.fst)), s3) ∧
      After st (ln.nl :: k) ln.warnsRev s3 := by
  obtain ⟨il, ic, kt, key, a, vt, vr, v, vw, nl⟩ := ln
  obtain ⟨hkt, hkv, ha, hnl, hreads⟩ := h
  simp only at hkt hkv ha hnl hreads hr hf
  obtain ⟨f, rfl⟩ : ∃ f, fuel = f + 1 := ⟨fuel - 1, by omega⟩
  obtain ⟨rest, p, n, la, w, dp, wd, s, th, al⟩ := st
  simp only at hr
  subst hr
  cases trail with
  | none =>
    obtain ⟨s3, hv, p3, n3, rfl⟩ := hreads
      { rest := vt :: (vr ++ nl :: k), prev := some a, pos := n + 1 + 1, last := la, warnings := w, depth := dp, warned := wd,
        strict := s, threshold := th, alpha := al } k f ht rfl (by omega)
    simp only [termTok] at hv
    refine ⟨{ rest := nl :: k, prev := p3, pos := n3, last := la, warnings := lineWarns key v vt kt ++ (vw ++ w), depth := dp,
              warned := wd, strict := s, threshold := th, alpha := al }, ?_, p3, n3, by simp only [QLine.warnsRev, List.append_assoc]⟩
    simp only [trailT, List.nil_append, Option.map_none]
    rw [parseSection]
    step_simp [hkt, ha, hkv, pyStrVal_str]
    rw [hv]
    simp only []
    cases v with
    | str s0 =>
      by_cases hc : (key = "PATTERN".toList ∨ key = "REGEX".toList) ∧ ¬ vt.type = .string
      · simp only [lineWarns]
        rw [if_pos hc, if_pos hc]
        step_simp [hnl, List.cons_append, List.nil_append]
      · simp only [lineWarns]
        rw [if_neg hc, if_neg hc]
        step_simp [hnl, List.nil_append]
    | _ => step_simp [hnl, lineWarns, List.nil_append]
  | some x =>
    obtain ⟨cs, cl, cc⟩ := x
    obtain ⟨s3, hv, p3, n3, rfl⟩ := hreads
      { rest := vt :: (vr ++ cmtTok cs cl cc :: nl :: k), prev := some a, pos := n + 1 + 1, last := la, warnings := w, depth := dp,
        warned := wd, strict := s, threshold := th, alpha := al } (nl :: k) f ht rfl (by omega)
    simp only [termTok] at hv
    refine ⟨{ rest := nl :: k, prev := some (cmtTok cs cl cc), pos := n3 + 1, last := la,
              warnings := lineWarns key v vt kt ++ (vw ++ w), depth := dp,
              warned := wd, strict := s, threshold := th, alpha := al }, ?_, some (cmtTok cs cl cc), n3 + 1, by simp only [QLine.warnsRev, List.append_assoc]⟩
    simp only [trailT, List.cons_append, List.nil_append, Option.map_some]
    rw [parseSection]
    step_simp [hkt, ha, hkv, pyStrVal_str]
    rw [hv]
    simp only []
    cases v with
    | str s0 =>
      by_cases hc : (key = "PATTERN".toList ∨ key = "REGEX".toList) ∧ ¬ vt.type = .string
      · simp only [lineWarns]
        rw [if_pos hc, if_pos hc]
        step_simp [cmtTok, pyStrVal_str, List.cons_append, List.nil_append]
      · simp only [lineWarns]
        rw [if_neg hc, if_neg hc]
        step_simp [cmtTok, pyStrVal_str, List.nil_append]
    | _ => step_simp [cmtTok, pyStrVal_str, lineWarns, List.nil_append]

/-! ## The three kinds of lines -/

open Octave.ListDocParse (ListToks parseValue_listToks)
open Octave.Expr (TailToks parseValue_expr exprWarnsRev stopsFlow)

theorem termTok_endsValue (ln : QLine) (trail : Option (Str × Nat × Nat)) (hnl : ln.nl.type = .newline) :
    endsValue (termTok ln trail).type = true := by
  cases trail with
  | none => simp only [termTok]; rw [hnl]; decide
  | some x => obtain ⟨s, l, c⟩ := x; simp only [termTok, cmtTok]; decide

theorem termTok_stopsFlow (ln : QLine) (trail : Option (Str × Nat × Nat)) (hnl : ln.nl.type = .newline) :
    stopsFlow (termTok ln trail).type = true := by
  cases trail with
  | none => simp only [termTok]; rw [hnl]; decide
  | some x => obtain ⟨s, l, c⟩ := x; simp only [termTok, cmtTok]; decide

/-- `KEY :: scalar [// trailing] NEWLINE`: no warning from `parse_value`. -/
theorem lineOK_scalar (il ic : Nat) (kt a nl : Token) (key : Str) (v : FlatParse.Scalar) (l c : Nat)
    (trail : Option (Str × Nat × Nat))
    (hkt : kt.type = .identifier) (hkv : kt.value = .str key) (ha : a.type = .assign) (hnl : nl.type = .newline) :
    LineOK ⟨il, ic, kt, key, a, v.tok l c, [], v.val, [], nl⟩ trail := by
  refine ⟨hkt, hkv, ha, hnl, ?_⟩
  intro st k fuel _ hr hf
  obtain ⟨f, rfl⟩ : ∃ f, fuel = f + 2 := ⟨fuel - 2, by simp only [List.length_nil] at hf; omega⟩
  have he := termTok_endsValue ⟨il, ic, kt, key, a, v.tok l c, [], v.val, [], nl⟩ trail hnl
  exact ⟨_, FlatParse.parseValue_scalar st v l c _ k f he hr, _, _, rfl⟩

/-- `KEY :: [ … ] [// trailing] NEWLINE` for a list of scalars in ANY layout; no warning. -/
theorem lineOK_list (il ic : Nat) (kt a nl : Token) (key : Str) (vs : List FlatParse.Scalar) (vt : Token) (vr : List Token)
    (h : ListToks vs (vt :: vr)) (trail : Option (Str × Nat × Nat))
    (hkt : kt.type = .identifier) (hkv : kt.value = .str key) (ha : a.type = .assign) (hnl : nl.type = .newline) :
    LineOK ⟨il, ic, kt, key, a, vt, vr, .list (vs.map FlatParse.Scalar.val), [], nl⟩ trail := by
  refine ⟨hkt, hkv, ha, hnl, ?_⟩
  intro st k fuel htop hr hf
  have hlen := UParse.listToks_length h
  simp only [List.length_cons] at hlen
  have hr' : st.rest = (vt :: vr) ++ termTok ⟨il, ic, kt, key, a, vt, vr, .list (vs.map FlatParse.Scalar.val), [], nl⟩ trail :: k := hr
  refine ⟨_, parseValue_listToks h st _ k fuel hr' (by simp only at hf; omega) (by rw [htop.1]; omega)
    (by rw [htop.1]; simpa using htop.2), _, _, rfl⟩

/-- `KEY :: IDENTIFIER (OP IDENTIFIER)+ [// trailing] NEWLINE`, an operator expression at bracket depth 0. -/
theorem lineOK_expr (il ic : Nat) (kt a nl : Token) (key : Str) (e : Expr.Expr) (hne : e.tail ≠ []) (l c : Nat) (ts : List Token)
    (h : TailToks e.tail ts) (trail : Option (Str × Nat × Nat))
    (hkt : kt.type = .identifier) (hkv : kt.value = .str key) (ha : a.type = .assign) (hnl : nl.type = .newline) :
    LineOK ⟨il, ic, kt, key, a, tIdent e.head l c, ts, .str e.text, exprWarnsRev ts, nl⟩ trail := by
  refine ⟨hkt, hkv, ha, hnl, ?_⟩
  intro st k fuel htop hr hf
  obtain ⟨rest, p, n, la, w, dp, wd, s, th, al⟩ := st
  obtain ⟨hd, _⟩ := htop
  simp only at hd hr
  subst hd; subst hr
  obtain ⟨f, rfl⟩ : ∃ f, fuel = f + 1 := ⟨fuel - 1, by omega⟩
  have hn := termTok_stopsFlow ⟨il, ic, kt, key, a, tIdent e.head l c, ts, .str e.text, exprWarnsRev ts, nl⟩ trail hnl
  obtain ⟨p', hp⟩ := parseValue_expr e hne l c h _ k hn f p n la w wd s th al
  exact ⟨_, hp, p', _, rfl⟩


/-! ## Content model -/

/-- document content below the envelope (and the META block): `DParse.ANode` with a generic line. -/
inductive PNode where
  | line (ln : QLine) (lead : List (Str × CommentParse.CPos)) (trail : Option (Str × Nat × Nat))
  | block (key : Str) (children : List PNode) (lead : List (Str × CommentParse.CPos)) (p : CommentParse.CPos)
  | sect (id : SectParse.PId) (key : Str) (children : List PNode) (lead : List (Str × CommentParse.CPos)) (p : SectParse.SPos)

/-- the leading comment lines (text and positions). -/
def PNode.lead : PNode → List (Str × CPos)
  | .line _ lead _ => lead
  | .block _ _ lead _ => lead
  | .sect _ _ _ lead _ => lead

/-- line and column of the INDENT token in front of the node's own line. -/
def PNode.ipos : PNode → Nat × Nat
  | .line ln _ _ => (ln.il, ln.ic)
  | .block _ _ _ p => (p.li, p.ci)
  | .sect _ _ _ _ p => (p.li, p.ci)

mutual
/-- tokens of a node at depth `d` from its first own token on, WITHOUT the leading comment lines and the INDENT of its own line. -/
def PNode.core : PNode → Nat → List Token
  | .line ln _ trail, _ => ln.kt :: ln.a :: ln.vt :: (ln.vr ++ (trailT trail ++ [ln.nl]))
  | .block key cs _ p, d => keyTok key p :: blockTok p :: nlTok p :: toksF cs (d + 1)
  | .sect id key cs _ p, d =>
    secTok p :: (id.toks p ++ secAssignTok p :: secNameTok key p :: hdrNlTok p :: toksF cs (d + 1))
/-- tokens of a forest at depth `d`: every node with its leading comment lines (indented like the node) and its INDENT. -/
def toksF : List PNode → Nat → List Token
  | [], _ => []
  | c :: cs, d => leadT d c.lead ++ (indTs d c.ipos ++ (c.core d ++ toksF cs d))
end

mutual
/-- the AST node the reader must produce. -/
def PNode.node : PNode → Node
  | .line ln lead trail => .assign ln.key ln.v ln.kt.line ln.kt.col (texts lead) (trail.map Prod.fst)
  | .block key cs lead p => .block key (nodesF cs) p.l p.c1 (texts lead) none
  | .sect id key cs lead p => .sect id.str key none (nodesF cs) p.l p.c0 (texts lead)
def nodesF : List PNode → List Node
  | [] => []
  | c :: cs => c.node :: nodesF cs
end

/-- duplicate-key bookkeeping of a child loop: only Assignment children are tracked. -/
def trackP (kp : KeyPos) : PNode → KeyPos × List Warning
  | .line ln _ _ => trackPure kp ln.key ln.kt.line
  | .block _ _ _ _ => (kp, [])
  | .sect _ _ _ _ _ => (kp, [])

mutual
/-- warnings `parseSection` emits on the node, in emission order. -/
def PNode.warns : PNode → List Warning
  | .line ln _ _ => ln.warnsRev.reverse
  | .block _ cs _ _ => warnsF cs []
  | .sect _ _ cs _ _ => warnsF cs []
/-- warnings of a child loop (block / section body, document body) on a forest, starting from key table `kp`. -/
def warnsF : List PNode → KeyPos → List Warning
  | [], _ => []
  | c :: cs, kp => c.warns ++ ((trackP kp c).2 ++ warnsF cs (trackP kp c).1)
end

mutual
/-- the conditions the code imposes: every line is `LineOK`; the column of a block key / a section marker is read as the node's
indentation (as `DParse.ANode.wf`); the letter of a `§2b` id is alphabetic for the parser. -/
def PNode.wf (al : Char → Bool) : PNode → Nat → Prop
  | .line ln _ trail, _ => LineOK ln trail
  | .block _ cs _ p, d => (if cs.isEmpty then 2 * d ≤ p.c1 - 1 else p.c1 - 1 < 2 * (d + 1)) ∧ wfF al cs (d + 1)
  | .sect id _ cs _ p, d =>
    id.letterOk al = true ∧ (if cs.isEmpty then 2 * d ≤ p.c0 - 1 else p.c0 - 1 < 2 * (d + 1)) ∧ wfF al cs (d + 1)
def wfF (al : Char → Bool) : List PNode → Nat → Prop
  | [], _ => True
  | c :: cs, d => c.wf al d ∧ wfF al cs d
end

/-- a block or a section (a node with a header line). -/
def PNode.isHdr : PNode → Bool
  | .line _ _ _ => false
  | _ => true

/-! ## The three mutually dependent statements, indexed by the fuel -/

def HdrOK (F : Nat) : Prop :=
  ∀ (c : PNode) (d : Nat) (st : PState) (fl : List Token),
    c.isHdr = true → Top st →
    st.rest = c.core d ++ fl →
    stopsL (2 * d + 1) fl = true →
    c.wf st.alpha d →
    (c.core d).length + 4 ≤ F →
    ∃ st', parseSection F (texts c.lead) st = .ok (some c.node, st') ∧ After st fl c.warns.reverse st'

def ChildOK (F : Nat) : Prop :=
  ∀ (b : Bool) (c : PNode) (cs : List PNode) (d : Nat) (st : PState) (fl : List Token) (acc : List Node) (kp : KeyPos),
    Top st →
    st.rest = afterInd (d + 1) c.lead c.ipos ++ (c.core (d + 1) ++ (toksF cs (d + 1) ++ fl)) →
    stopsL (2 * (d + 1)) fl = true →
    c.wf st.alpha (d + 1) → wfF st.alpha cs (d + 1) →
    3 * c.lead.length + (c.core (d + 1)).length + (toksF cs (d + 1)).length + 1 + 4 ≤ F →
    ∃ st', childLoop b F (2 * (d + 1)) (2 * (d + 1)) [] acc kp st = .ok (acc ++ nodesF (c :: cs), st') ∧
      After st fl (warnsF (c :: cs) kp).reverse st'

def LoopOK (F : Nat) : Prop :=
  ∀ (b : Bool) (cs : List PNode) (d : Nat) (st : PState) (fl : List Token) (acc : List Node) (kp : KeyPos),
    Top st →
    st.rest = toksF cs (d + 1) ++ fl →
    stopsL (2 * (d + 1)) fl = true →
    wfF st.alpha cs (d + 1) →
    (toksF cs (d + 1)).length + 1 + 4 ≤ F →
    ∃ st', childLoop b F (2 * (d + 1)) 0 [] acc kp st = .ok (acc ++ nodesF cs, st') ∧
      After st fl (warnsF cs kp).reverse st'

theorem core_ne_nil (c : PNode) (d : Nat) (r : List Token) : c.core d ++ r ≠ [] := by
  cases c <;> simp [PNode.core]

theorem toksF_cons_succ (c : PNode) (cs : List PNode) (d : Nat) (fl : List Token) :
    toksF (c :: cs) (d + 1) ++ fl
      = indT (d + 1) (firstInd c.lead c.ipos) :: (afterInd (d + 1) c.lead c.ipos ++ (c.core (d + 1) ++ (toksF cs (d + 1) ++ fl))) := by
  rw [toksF, List.append_assoc, List.append_assoc, List.append_assoc, lead_indent_eq]

theorem toksF_cons_succ_length (c : PNode) (cs : List PNode) (d : Nat) :
    (toksF (c :: cs) (d + 1)).length = 3 * c.lead.length + (c.core (d + 1)).length + (toksF cs (d + 1)).length + 1 := by
  have h := congrArg List.length (toksF_cons_succ c cs d [])
  simp only [List.append_nil, List.length_cons, List.length_append, afterInd_length] at h
  omega

theorem loop_of (F : Nat) (ih : ∀ F' < F, ChildOK F') : LoopOK F := by
  intro b cs d st fl acc kp ht hr hs hc hF
  obtain ⟨rest, p, n, la, w, dp, wd, s, th, al⟩ := st
  simp only at hr hc
  subst hr
  obtain ⟨F', rfl⟩ : ∃ F', F = F' + 1 := ⟨F - 1, by omega⟩
  cases cs with
  | nil =>
    obtain ⟨e, r, rfl⟩ : ∃ e r, fl = e :: r := by
      cases fl with
      | nil => exact absurd rfl (stopsL_ne_nil hs)
      | cons e r => exact ⟨e, r, rfl⟩
    refine ⟨_, ?_, p, n, rfl⟩
    simp only [toksF, List.nil_append]
    rw [childLoop_stopL (hci := by omega) (hs := hs)]
    simp only [nodesF, List.map_nil, List.append_nil, warnsF, List.reverse_nil, List.nil_append]
  | cons c cs =>
    rw [toksF_cons_succ_length] at hF
    simp only [wfF] at hc
    obtain ⟨st', hch, p', n', rfl⟩ := ih F' (Nat.lt_succ_self _) b c cs d
      { rest := afterInd (d + 1) c.lead c.ipos ++ (c.core (d + 1) ++ (toksF cs (d + 1) ++ fl)),
        prev := some (indT (d + 1) (firstInd c.lead c.ipos)), pos := n + 1, last := la, warnings := w, depth := dp,
        warned := wd, strict := s, threshold := th, alpha := al }
      fl acc kp ht rfl hs hc.1 hc.2 (by omega)
    refine ⟨_, ?_, p', n', rfl⟩
    simp only [toksF_cons_succ]
    simp only [indT] at hch ⊢
    rw [childLoop_indent (hv := Nat.lt_irrefl _)
      (hR := afterInd_append_ne_nil (d + 1) c.lead c.ipos _ (core_ne_nil c (d + 1) _)), hch]

/-- what follows a node at depth `d + 1` inside a block / a section `stopsL` the node's own depth. -/
theorem cont_head (cs : List PNode) (d : Nat) (fl : List Token)
    (hs : stopsL (2 * (d + 1)) fl = true) : stopsL (2 * (d + 1) + 1) (toksF cs (d + 1) ++ fl) = true := by
  cases cs with
  | nil => exact stopsL_mono (by omega) hs
  | cons c cs =>
    rw [toksF_cons_succ]
    simp [stopsL, indT, indentVal]

theorem hdr_head (c : PNode) (d : Nat) (hh : c.isHdr = true) :
    ∃ t r, c.core d = t :: r ∧ (t.type = TT.identifier ∨ t.type = TT.section) := by
  cases c with
  | line ln lead trail => cases hh
  | block key cs lead p => exact ⟨_, _, rfl, Or.inl rfl⟩
  | sect id key cs lead p => exact ⟨_, _, rfl, Or.inr rfl⟩

theorem hdr_node_key (c : PNode) (hh : c.isHdr = true) : nodeAssignKey? c.node = none := by
  cases c with
  | line ln lead trail => cases hh
  | block key cs lead p => rfl
  | sect id key cs lead p => rfl

theorem hdr_track (kp : KeyPos) (c : PNode) (hh : c.isHdr = true) : trackP kp c = (kp, []) := by
  cases c with
  | line ln lead trail => cases hh
  | block key cs lead p => rfl
  | sect id key cs lead p => rfl

theorem line_core_length (ln : QLine) (lead : List (Str × CPos)) (trail : Option (Str × Nat × Nat)) (d : Nat) :
    ((PNode.line ln lead trail).core d).length = ln.vr.length + 4 + (trailT trail).length := by
  simp only [PNode.core, List.length_cons, List.length_append, List.length_nil]
  omega

theorem line_core_append (ln : QLine) (lead : List (Str × CPos)) (trail : Option (Str × Nat × Nat)) (d : Nat) (X : List Token) :
    (PNode.line ln lead trail).core d ++ X = ln.kt :: ln.a :: ln.vt :: (ln.vr ++ (trailT trail ++ ln.nl :: X)) := by
  simp only [PNode.core, List.cons_append, List.append_assoc, List.nil_append]

theorem child_of (F : Nat) (ihS : ∀ F' < F, HdrOK F') (ihL : ∀ F' < F, LoopOK F') : ChildOK F := by
  intro b c cs d st fl acc kp ht hr hs hc hcs hF
  obtain ⟨rest, p, n, la, w, dp, wd, s, th, al⟩ := st
  simp only at hr hc hcs
  subst hr
  obtain ⟨G, rfl⟩ : ∃ G, F = 3 * c.lead.length + G := ⟨F - 3 * c.lead.length, by omega⟩
  obtain ⟨p1, hlead⟩ := childLoop_lead b d c.ipos (c.core (d + 1) ++ (toksF cs (d + 1) ++ fl))
    (core_ne_nil c (d + 1) _) G acc kp la w dp wd s th al c.lead [] p n
  rw [hlead, List.nil_append]
  have hfl := stopsL_ne_nil hs
  by_cases hh : c.isHdr = true
  · -- a block or a section
    have hs' := cont_head cs d fl hs
    obtain ⟨G', rfl⟩ : ∃ G', G = G' + 1 := ⟨G - 1, by omega⟩
    obtain ⟨t, R, hb, htt⟩ := hdr_head c (d + 1) hh
    have hlen1 : 1 ≤ (c.core (d + 1)).length := by rw [hb]; simp
    obtain ⟨s1, hsec, p2, n2, rfl⟩ := ihS G' (by omega) c (d + 1)
      { rest := c.core (d + 1) ++ (toksF cs (d + 1) ++ fl), prev := p1, pos := n + 3 * c.lead.length, last := la, warnings := w,
        depth := dp, warned := wd, strict := s, threshold := th, alpha := al } _ hh ht rfl hs' hc (by omega)
    obtain ⟨s2, hL, p3, n3, rfl⟩ := ihL G' (by omega) b cs d
      { rest := toksF cs (d + 1) ++ fl, prev := p2, pos := n2, last := la,
        warnings := c.warns.reverse ++ w, depth := dp, warned := wd, strict := s, threshold := th, alpha := al }
      fl (acc ++ [c.node]) kp ht rfl hs hcs (by omega)
    simp only [] at hsec hL
    refine ⟨_, ?_, p3, n3, rfl⟩
    rw [childLoop_call_hdr b G' _ _ (Nat.lt_irrefl _) (texts c.lead) acc kp _ t (R ++ (toksF cs (d + 1) ++ fl))
      (by rw [hb]; rfl) htt p1 _ la w dp wd s th al c.node (hdr_node_key c hh) _ hsec, hL]
    simp only [nodesF, warnsF, hdr_track kp c hh, List.append_assoc, List.cons_append, List.nil_append, List.reverse_append]
  · cases c with
    | block key cs' lead q => exact absurd rfl hh
    | sect id key cs' lead q => exact absurd rfl hh
    | line ln lead trail =>
      have hok : LineOK ln trail := hc
      simp only [PNode.lead] at hF ⊢
      rw [line_core_length] at hF
      obtain ⟨g, rfl⟩ : ∃ g, G = g + 3 := ⟨G - 3, by omega⟩
      rw [line_core_append]
      obtain ⟨s3, hps, p3, n3, rfl⟩ := parseSection_mline ln trail hok (texts lead)
        { rest := ln.kt :: ln.a :: ln.vt :: (ln.vr ++ (trailT trail ++ ln.nl :: (toksF cs (d + 1) ++ fl))),
          prev := p1, pos := n + 3 * lead.length, last := la, warnings := w, depth := dp, warned := wd, strict := s,
          threshold := th, alpha := al }
        (toksF cs (d + 1) ++ fl) (g + 2) ht rfl (by omega)
      obtain ⟨s4, hL, p4, n4, rfl⟩ := ihL (g + 1) (by omega) b cs d
        { rest := toksF cs (d + 1) ++ fl, prev := some ln.nl, pos := n3 + 1, last := la,
          warnings := (trackPure kp ln.key ln.kt.line).2 ++ (ln.warnsRev ++ w), depth := dp, warned := wd, strict := s,
          threshold := th, alpha := al }
        fl (acc ++ [Node.assign ln.key ln.v ln.kt.line ln.kt.col (texts lead) (trail.map Prod.fst)])
        (trackPure kp ln.key ln.kt.line).1 ht rfl hs hcs (by omega)
      simp only [] at hps hL
      refine ⟨_, ?_, p4, n4, rfl⟩
      rw [childLoop_call_assign b (g + 2) _ _ (Nat.lt_irrefl _) (texts lead) acc kp ln.kt _ hok.kt p1 _ la w dp wd s th al
        ln.key ln.v ln.kt.line ln.kt.col (texts lead) (trail.map Prod.fst) _ hps]
      simp only []
      rw [childLoop_newline b (g + 1) _ _ [] _ _ ln.nl hok.nl _ (by simp [hfl]), hL]
      simp only [nodesF, PNode.node, warnsF, PNode.warns, trackP, List.append_assoc, List.cons_append, List.nil_append,
        List.reverse_append, List.reverse_reverse, trackPure_warns_reverse]


/-! ## headers -/

theorem wf_block_nil {al : Char → Bool} {key : Str} {lead : List (Str × CPos)} {q : CPos} {d : Nat}
    (h : (PNode.block key [] lead q).wf al d) : 2 * d ≤ q.c1 - 1 := by
  simpa [PNode.wf, wfF] using h

theorem wf_block_cons {al : Char → Bool} {key : Str} {c : PNode} {cs : List PNode} {lead : List (Str × CPos)} {q : CPos} {d : Nat}
    (h : (PNode.block key (c :: cs) lead q).wf al d) :
    q.c1 - 1 < 2 * (d + 1) ∧ c.wf al (d + 1) ∧ wfF al cs (d + 1) := by
  simpa [PNode.wf, wfF, and_assoc] using h

theorem wf_sect_nil {al : Char → Bool} {id : PId} {key : Str} {lead : List (Str × CPos)} {q : SPos} {d : Nat}
    (h : (PNode.sect id key [] lead q).wf al d) : id.letterOk al = true ∧ 2 * d ≤ q.c0 - 1 := by
  simpa [PNode.wf, wfF] using h

theorem wf_sect_cons {al : Char → Bool} {id : PId} {key : Str} {c : PNode} {cs : List PNode} {lead : List (Str × CPos)} {q : SPos} {d : Nat}
    (h : (PNode.sect id key (c :: cs) lead q).wf al d) :
    id.letterOk al = true ∧ q.c0 - 1 < 2 * (d + 1) ∧ c.wf al (d + 1) ∧ wfF al cs (d + 1) := by
  simpa [PNode.wf, wfF, and_assoc] using h

/-- `advance` over a token followed by the (rest of the comment lines and the) tokens of a node. -/
theorem advance_afterInd (c : PNode) (d' : Nat) (X : List Token) (t : Token) (p : Option Token) (n : Nat) (la : Token)
    (w : List Warning) (d : Nat) (wd : List Nat) (s : Bool) (th : Nat) (al : Char → Bool) :
    advance { rest := t :: (afterInd d' c.lead c.ipos ++ (c.core d' ++ X)), prev := p, pos := n, last := la, warnings := w, depth := d, warned := wd, strict := s, threshold := th, alpha := al }
      = .ok (t, { rest := afterInd d' c.lead c.ipos ++ (c.core d' ++ X), prev := some t, pos := n + 1, last := la, warnings := w, depth := d, warned := wd, strict := s, threshold := th, alpha := al }) :=
  advance_ne (h := afterInd_append_ne_nil d' c.lead c.ipos _ (core_ne_nil c d' X)) ..

/-- **a block header** called with leading comments `L`. -/
theorem hdr_block (F : Nat) (ih : ∀ F' < F, ChildOK F') (key : Str) (cs : List PNode) (lead : List (Str × CPos)) (q : CPos)
    (d : Nat) (fl : List Token) (L : List Str)
    (p : Option Token) (n : Nat) (la : Token) (w : List Warning) (dp : Nat) (wd : List Nat) (s : Bool) (th : Nat) (al : Char → Bool)
    (ht : Top ({ rest := [], prev := p, pos := n, last := la, warnings := w, depth := dp, warned := wd, strict := s, threshold := th, alpha := al } : PState))
    (hs : stopsL (2 * d + 1) fl = true)
    (hc : (PNode.block key cs lead q).wf al d)
    (hF : ((PNode.block key cs lead q).core d).length + 4 ≤ F) :
    ∃ (p' : Option Token) (n' : Nat),
    parseSection F L ({ rest := (PNode.block key cs lead q).core d ++ fl, prev := p, pos := n, last := la, warnings := w, depth := dp, warned := wd, strict := s, threshold := th, alpha := al } : PState)
      = .ok (some (.block key (nodesF cs) q.l q.c1 L none),
         { rest := fl, prev := p', pos := n', last := la,
           warnings := (warnsF cs []).reverse ++ w, depth := dp, warned := wd, strict := s, threshold := th, alpha := al }) := by
  cases cs with
  | nil =>
    have hc := wf_block_nil hc
    simp only [PNode.core, toksF, List.cons_append, List.nil_append, List.length_cons, List.length_nil] at hF ⊢
    obtain ⟨F', rfl⟩ : ∃ F', F = F' + 1 := ⟨F - 1, by omega⟩
    obtain ⟨e, r, rfl⟩ : ∃ e r, fl = e :: r := by
      cases fl with
      | nil => exact absurd rfl (stopsL_ne_nil hs)
      | cons e r => exact ⟨e, r, rfl⟩
    obtain ⟨acc', c0, k', p', n', hpre, hfc, hic⟩ := preIndentComments_stopsL (2 * d + 1) la w dp wd s th al (e :: r)
      ((e :: r).length + 2) (some (nlTok q)) (n + 1 + 1 + 1) hs (by omega)
    simp only [stopsL, Bool.and_eq_true, Bool.or_eq_true, bne_iff_ne, ne_eq, decide_eq_true_eq] at hs
    obtain ⟨⟨⟨h1, h3⟩, h4⟩, h2⟩ := hs
    refine ⟨some (nlTok q), n + 1 + 1 + 1, ?_⟩
    rw [parseSection]
    step_simp [keyTok, blockTok, nlTok, pyStrVal_str]
    rw [skipWhitespace_false_nl (h := rfl) (h1 := h1)]
    step_simp []
    simp only [nlTok, List.length_cons] at hpre
    rw [hpre]
    step_simp []
    by_cases hi : c0.type = TT.indent
    · have h5 := hic hi
      cases hv : c0.value with
      | nat m =>
        simp only [indentVal, hv] at h5
        have h6 : ¬ (m > q.c1 - 1) := by omega
        step_simp [hi, hfc, h3, h6, set_mk, decide_false, eq_self, Option.isSome_none]
        simp only [nodesF, warnsF, List.reverse_nil, List.nil_append]
      | _ =>
        step_simp [hi, hfc, h3, set_mk, decide_false, eq_self, Option.isSome_none, gt_iff_lt, Nat.not_lt_zero]
        simp only [nodesF, warnsF, List.reverse_nil, List.nil_append]
    · have hib : (c0.type == TT.indent) = false := by simp [hi]
      step_simp [hi, hib, hfc, h3, set_mk, decide_false, eq_self, Option.isSome_none]
      simp only [nodesF, warnsF, List.reverse_nil, List.nil_append]
  | cons c cs =>
    obtain ⟨hc1, hc2, hc3⟩ := wf_block_cons hc
    simp only [PNode.core, List.cons_append, List.length_cons, toksF_cons_succ, toksF_cons_succ_length] at hF ⊢
    obtain ⟨F', rfl⟩ : ∃ F', F = F' + 1 := ⟨F - 1, by omega⟩
    obtain ⟨st', hch, p', n', rfl⟩ := ih F' (Nat.lt_succ_self _) false c cs d
      { rest := afterInd (d + 1) c.lead c.ipos ++ (c.core (d + 1) ++ (toksF cs (d + 1) ++ fl)),
        prev := some (indT (d + 1) (firstInd c.lead c.ipos)), pos := n + 1 + 1 + 1 + 1, last := la, warnings := w, depth := dp,
        warned := wd, strict := s, threshold := th, alpha := al }
      fl [] [] ht rfl (stopsL_mono (by omega) hs) hc2 hc3 (by omega)
    rw [childLoop_false] at hch
    simp only [indT] at hch
    refine ⟨p', n', ?_⟩
    rw [parseSection]
    step_simp [keyTok, blockTok, nlTok, pyStrVal_str]
    rw [skipWhitespace_newline (h := rfl) (h1 := by simp [indT]) (h2 := by simp [indT])]
    step_simp []
    rw [preIndentComments_stop (h1 := by simp [indT]) (h2 := by simp [indT])]
    have h6 : 2 * (d + 1) > q.c1 - 1 := hc1
    step_simp [indT, h6, decide_true, Option.isSome_none, advance_afterInd]
    rw [hch]
    simp only [List.nil_append]

/-- the header line of a section up to (not including) the NEWLINE. -/
local macro "sect_hdr" "[" ts:Lean.Parser.Tactic.simpLemma,* "]" : tactic =>
  `(tactic| (rw [parseSection]; step_simp [secTok]; rw [parseSectionMarker];
             step_simp [expect, idNumTok, idNameTok, idLetterTok, secAssignTok, secNameTok, hdrNlTok, pyStrVal_str, pyStrVal_int, $ts,*];
             rw [consumeBracketAnnotation_none (h := by simp)]; step_simp []))

set_option hygiene false in
/-- a section without children before a context that `stopsL`. -/
local macro "sect_nil_tail" : tactic =>
  `(tactic| (
    rw [skipWhitespace_false_nl (h := rfl) (h1 := h1)]
    step_simp []
    rw [hpre]
    step_simp []
    by_cases hi : c0.type = TT.indent
    · have h5 := hic hi
      cases hv : c0.value with
      | nat m =>
        simp only [indentVal, hv] at h5
        have h6 : ¬ (m > q.c0 - 1) := by omega
        step_simp [hi, h6, set_mk, sect_withLeading]
        simp only [nodesF, warnsF, List.reverse_nil, List.nil_append, PId.str]
      | _ =>
        step_simp [hi, set_mk, gt_iff_lt, Nat.not_lt_zero, sect_withLeading]
        simp only [nodesF, warnsF, List.reverse_nil, List.nil_append, PId.str]
    · step_simp [hi, set_mk, sect_withLeading]
      simp only [nodesF, warnsF, List.reverse_nil, List.nil_append, PId.str]))

/-- **a section header without children**, called with leading comments `L`. -/
theorem hdr_sect_nil (F : Nat) (id : PId) (key : Str) (lead : List (Str × CPos)) (q : SPos) (d : Nat) (fl : List Token) (L : List Str)
    (p : Option Token) (n : Nat) (la : Token) (w : List Warning) (dp : Nat) (wd : List Nat) (s : Bool) (th : Nat) (al : Char → Bool)
    (hs : stopsL (2 * d + 1) fl = true)
    (hc : (PNode.sect id key [] lead q).wf al d)
    (hF : ((PNode.sect id key [] lead q).core d).length + 4 ≤ F) :
    ∃ p' : Option Token,
    parseSection F L ({ rest := (PNode.sect id key [] lead q).core d ++ fl, prev := p, pos := n, last := la, warnings := w, depth := dp, warned := wd, strict := s, threshold := th, alpha := al } : PState)
      = .ok (some (.sect id.str key none [] q.l q.c0 L),
         { rest := fl, prev := p', pos := n + ((PNode.sect id key [] lead q).core d).length, last := la,
           warnings := w, depth := dp, warned := wd, strict := s, threshold := th, alpha := al }) := by
  obtain ⟨hlet, hcol⟩ := wf_sect_nil hc
  obtain ⟨e, r, rfl⟩ : ∃ e r, fl = e :: r := by
    cases fl with
    | nil => exact absurd rfl (stopsL_ne_nil hs)
    | cons e r => exact ⟨e, r, rfl⟩
  have hs0 := hs
  simp only [stopsL, Bool.and_eq_true, Bool.or_eq_true, bne_iff_ne, ne_eq, decide_eq_true_eq] at hs0
  obtain ⟨⟨⟨h1, h3⟩, h4⟩, h2⟩ := hs0
  refine ⟨some (hdrNlTok q), ?_⟩
  cases id with
  | num i0 raw =>
    simp only [PNode.core, PId.toks, toksF, List.cons_append, List.nil_append, List.length_cons, List.length_nil] at hF ⊢
    obtain ⟨F', rfl⟩ : ∃ F', F = F' + 2 := ⟨F - 2, by omega⟩
    obtain ⟨acc', c0, k', p', n', hpre, hfc, hic⟩ := preIndentComments_stopsL (2 * d + 1) la w dp wd s th al (e :: r)
      ((e :: r).length + 2) (some (hdrNlTok q)) (n + 1 + 1 + 1 + 1 + 1) hs (by omega)
    simp only [hdrNlTok, List.length_cons] at hpre
    sect_hdr []
    sect_nil_tail
  | name s0 =>
    simp only [PNode.core, PId.toks, toksF, List.cons_append, List.nil_append, List.length_cons, List.length_nil] at hF ⊢
    obtain ⟨F', rfl⟩ : ∃ F', F = F' + 2 := ⟨F - 2, by omega⟩
    obtain ⟨acc', c0, k', p', n', hpre, hfc, hic⟩ := preIndentComments_stopsL (2 * d + 1) la w dp wd s th al (e :: r)
      ((e :: r).length + 2) (some (hdrNlTok q)) (n + 1 + 1 + 1 + 1 + 1) hs (by omega)
    simp only [hdrNlTok, List.length_cons] at hpre
    sect_hdr []
    sect_nil_tail
  | numLetter i0 raw ch =>
    simp only [PId.letterOk] at hlet
    simp only [PNode.core, PId.toks, toksF, List.cons_append, List.nil_append, List.length_cons, List.length_nil] at hF ⊢
    obtain ⟨F', rfl⟩ : ∃ F', F = F' + 2 := ⟨F - 2, by omega⟩
    obtain ⟨acc', c0, k', p', n', hpre, hfc, hic⟩ := preIndentComments_stopsL (2 * d + 1) la w dp wd s th al (e :: r)
      ((e :: r).length + 2) (some (hdrNlTok q)) (n + 1 + 1 + 1 + 1 + 1 + 1) hs (by omega)
    simp only [hdrNlTok, List.length_cons] at hpre
    sect_hdr [hlet]
    sect_nil_tail

set_option hygiene false in
/-- a section with children: the first INDENT after the header is deeper than the marker; the section loop does the rest. -/
local macro "sect_cons_tail" : tactic =>
  `(tactic| (
    rw [skipWhitespace_newline (h := rfl) (h1 := by simp [indT]) (h2 := by simp [indT])]
    step_simp []
    rw [preIndentComments_stop (h1 := by simp [indT]) (h2 := by simp [indT])]
    have h6 : 2 * (d + 1) > q.c0 - 1 := hcol
    step_simp [indT, h6, advance_afterInd]
    rw [hch]
    step_simp [sect_withLeading]
    simp only [List.nil_append, PId.str]))

/-- **a section header with children**, called with leading comments `L`. -/
theorem hdr_sect_cons (F : Nat) (ih : ∀ F' < F, ChildOK F') (id : PId) (key : Str) (c : PNode) (cs : List PNode)
    (lead : List (Str × CPos)) (q : SPos) (d : Nat) (fl : List Token) (L : List Str)
    (p : Option Token) (n : Nat) (la : Token) (w : List Warning) (dp : Nat) (wd : List Nat) (s : Bool) (th : Nat) (al : Char → Bool)
    (ht : Top ({ rest := [], prev := p, pos := n, last := la, warnings := w, depth := dp, warned := wd, strict := s, threshold := th, alpha := al } : PState))
    (hs : stopsL (2 * d + 1) fl = true)
    (hc : (PNode.sect id key (c :: cs) lead q).wf al d)
    (hF : ((PNode.sect id key (c :: cs) lead q).core d).length + 4 ≤ F) :
    ∃ (p' : Option Token) (n' : Nat),
    parseSection F L ({ rest := (PNode.sect id key (c :: cs) lead q).core d ++ fl, prev := p, pos := n, last := la, warnings := w, depth := dp, warned := wd, strict := s, threshold := th, alpha := al } : PState)
      = .ok (some (.sect id.str key none (nodesF (c :: cs)) q.l q.c0 L),
         { rest := fl, prev := p', pos := n', last := la,
           warnings := (warnsF (c :: cs) []).reverse ++ w, depth := dp, warned := wd, strict := s, threshold := th, alpha := al }) := by
  obtain ⟨hlet, hcol, hc2, hc3⟩ := wf_sect_cons hc
  cases id with
  | num i0 raw =>
    simp only [PNode.core, PId.toks, List.cons_append, List.nil_append, List.length_cons, toksF_cons_succ,
      toksF_cons_succ_length] at hF ⊢
    obtain ⟨F', rfl⟩ : ∃ F', F = F' + 2 := ⟨F - 2, by omega⟩
    obtain ⟨st', hch, p', n', rfl⟩ := ih F' (by omega) true c cs d
      { rest := afterInd (d + 1) c.lead c.ipos ++ (c.core (d + 1) ++ (toksF cs (d + 1) ++ fl)),
        prev := some (indT (d + 1) (firstInd c.lead c.ipos)), pos := n + 1 + 1 + 1 + 1 + 1 + 1, last := la, warnings := w, depth := dp,
        warned := wd, strict := s, threshold := th, alpha := al }
      fl [] [] ht rfl (stopsL_mono (by omega) hs) hc2 hc3 (by omega)
    rw [childLoop_true] at hch
    simp only [indT] at hch
    refine ⟨p', n', ?_⟩
    sect_hdr []
    sect_cons_tail
  | name s0 =>
    simp only [PNode.core, PId.toks, List.cons_append, List.nil_append, List.length_cons, toksF_cons_succ,
      toksF_cons_succ_length] at hF ⊢
    obtain ⟨F', rfl⟩ : ∃ F', F = F' + 2 := ⟨F - 2, by omega⟩
    obtain ⟨st', hch, p', n', rfl⟩ := ih F' (by omega) true c cs d
      { rest := afterInd (d + 1) c.lead c.ipos ++ (c.core (d + 1) ++ (toksF cs (d + 1) ++ fl)),
        prev := some (indT (d + 1) (firstInd c.lead c.ipos)), pos := n + 1 + 1 + 1 + 1 + 1 + 1, last := la, warnings := w, depth := dp,
        warned := wd, strict := s, threshold := th, alpha := al }
      fl [] [] ht rfl (stopsL_mono (by omega) hs) hc2 hc3 (by omega)
    rw [childLoop_true] at hch
    simp only [indT] at hch
    refine ⟨p', n', ?_⟩
    sect_hdr []
    sect_cons_tail
  | numLetter i0 raw ch =>
    simp only [PId.letterOk] at hlet
    simp only [PNode.core, PId.toks, List.cons_append, List.nil_append, List.length_cons, toksF_cons_succ,
      toksF_cons_succ_length] at hF ⊢
    obtain ⟨F', rfl⟩ : ∃ F', F = F' + 2 := ⟨F - 2, by omega⟩
    obtain ⟨st', hch, p', n', rfl⟩ := ih F' (by omega) true c cs d
      { rest := afterInd (d + 1) c.lead c.ipos ++ (c.core (d + 1) ++ (toksF cs (d + 1) ++ fl)),
        prev := some (indT (d + 1) (firstInd c.lead c.ipos)), pos := n + 1 + 1 + 1 + 1 + 1 + 1 + 1, last := la, warnings := w, depth := dp,
        warned := wd, strict := s, threshold := th, alpha := al }
      fl [] [] ht rfl (stopsL_mono (by omega) hs) hc2 hc3 (by omega)
    rw [childLoop_true] at hch
    simp only [indT] at hch
    refine ⟨p', n', ?_⟩
    sect_hdr [hlet]
    sect_cons_tail

theorem hdr_of (F : Nat) (ih : ∀ F' < F, ChildOK F') : HdrOK F := by
  intro c d st fl hh ht hr hs hc hF
  obtain ⟨rest, p, n, la, w, dp, wd, s, th, al⟩ := st
  simp only at hr hc
  subst hr
  cases c with
  | line ln lead trail => cases hh
  | block key cs lead q =>
    obtain ⟨p', n', h⟩ := hdr_block F ih key cs lead q d fl (texts lead) p n la w dp wd s th al ht hs hc hF
    exact ⟨_, h, p', n', rfl⟩
  | sect id key cs lead q =>
    cases cs with
    | nil =>
      obtain ⟨p', h⟩ := hdr_sect_nil F id key lead q d fl (texts lead) p n la w dp wd s th al hs hc hF
      exact ⟨_, h, p', _, rfl⟩
    | cons c cs =>
      obtain ⟨p', n', h⟩ := hdr_sect_cons F ih id key c cs lead q d fl (texts lead) p n la w dp wd s th al ht hs hc hF
      exact ⟨_, h, p', n', rfl⟩

/-- all three statements hold for every fuel (strong induction on the fuel). -/
theorem all_ok (F : Nat) : HdrOK F ∧ ChildOK F ∧ LoopOK F := by
  induction F using Nat.strongRecOn with
  | _ F ih =>
    have hC : ∀ F' < F, ChildOK F' := fun F' h => (ih F' h).2.1
    exact ⟨hdr_of F hC, child_of F (fun F' h => (ih F' h).1) (fun F' h => (ih F' h).2.2), loop_of F hC⟩

/-- **`parse_section` on a block or a section with comments** (any depth, any children with values of any kind, any comments
below it), called with the node's own leading comments, followed by a context `fl` that `stopsL` the node's depth. -/
theorem parseSection_hdr (c : PNode) (d : Nat) (st : PState) (fl : List Token) (F : Nat)
    (hh : c.isHdr = true) (ht : Top st) (hr : st.rest = c.core d ++ fl) (hs : stopsL (2 * d + 1) fl = true)
    (hc : c.wf st.alpha d) (hF : (c.core d).length + 4 ≤ F) :
    ∃ st', parseSection F (texts c.lead) st = .ok (some c.node, st') ∧ After st fl c.warns.reverse st' :=
  (all_ok F).1 c d st fl hh ht hr hs hc hF

/-- **the child loop of a section (`b = true`) or of a block (`b = false`)** from the start of a line, on any forest of
children (with comments) at depth `d + 1`. -/
theorem childLoop_forest (b : Bool) (cs : List PNode) (d : Nat) (st : PState) (fl : List Token) (acc : List Node) (kp : KeyPos) (F : Nat)
    (ht : Top st) (hr : st.rest = toksF cs (d + 1) ++ fl) (hs : stopsL (2 * (d + 1)) fl = true)
    (hc : wfF st.alpha cs (d + 1)) (hF : (toksF cs (d + 1)).length + 1 + 4 ≤ F) :
    ∃ st', childLoop b F (2 * (d + 1)) 0 [] acc kp st = .ok (acc ++ nodesF cs, st') ∧
      After st fl (warnsF cs kp).reverse st' :=
  (all_ok F).2.2 b cs d st fl acc kp ht hr hs hc hF


/-! ## The body loop of `parseDocument` -/

/-- an unindented forest with a first node, regrouped. -/
theorem toksF_cons_zero (c : PNode) (cs : List PNode) (fl : List Token) :
    toksF (c :: cs) 0 ++ fl = leadT 0 c.lead ++ (c.core 0 ++ (toksF cs 0 ++ fl)) := by
  rw [toksF]
  simp only [indTs, List.nil_append, List.append_assoc]

theorem toksF_cons_zero_length (c : PNode) (cs : List PNode) :
    (toksF (c :: cs) 0).length = 2 * c.lead.length + (c.core 0).length + (toksF cs 0).length := by
  have h := congrArg List.length (toksF_cons_zero c cs [])
  simp only [List.append_nil, List.length_append, leadT0_length] at h
  omega

/-- the core of a (well-formed) node starts with its key (an IDENTIFIER) or its marker (a SECTION token). -/
theorem core_head (al : Char → Bool) (c : PNode) (d : Nat) (X : List Token) (hwf : c.wf al d) :
    ∃ t K, c.core d ++ X = t :: K ∧ (t.type = TT.identifier ∨ t.type = TT.section) := by
  cases c with
  | line ln lead trail =>
    have hok : LineOK ln trail := hwf
    exact ⟨ln.kt, _, rfl, Or.inl hok.kt⟩
  | block key cs lead p => exact ⟨_, _, rfl, Or.inl rfl⟩
  | sect id key cs lead p => exact ⟨_, _, rfl, Or.inr rfl⟩

/-- what follows a top-level node `stopsL` every indentation. -/
theorem cont_head0 (al : Char → Bool) (ci : Nat) (hci : 0 < ci) (cs : List PNode) (hwf : wfF al cs 0)
    (trailing : List (Str × CPos)) (e : Token) (tail : List Token)
    (he : e.type = .envelopeEnd ∨ e.type = .eof) :
    stopsL ci (toksF cs 0 ++ (leadT 0 trailing ++ e :: tail)) = true := by
  cases cs with
  | nil =>
    simp only [toksF, List.nil_append]
    apply stopsL_lead0 (hci := hci) <;> rcases he with h | h <;> simp [h]
  | cons c cs =>
    rw [toksF_cons_zero]
    simp only [wfF] at hwf
    obtain ⟨t, K, hK, ht⟩ := core_head al c 0 (toksF cs 0 ++ (leadT 0 trailing ++ e :: tail)) hwf.1
    rw [hK]
    apply stopsL_lead0 (hci := hci) <;> rcases ht with h | h <;> simp [h]

/-- **the body loop of `parse_document`** on a forest of generic lines, blocks and sections with comments, followed by the
document's trailing comment lines and `===END===` (or EOF). -/
theorem docLoop_m (vf : Nat) (trailing : List (Str × CPos)) (e : Token) (tail : List Token)
    (he : e.type = .envelopeEnd ∨ e.type = .eof) :
    ∀ (nodes : List PNode) (st : PState) (acc : List Node) (kp : KeyPos) (fuel : Nat),
    Top st →
    st.rest = toksF nodes 0 ++ (leadT 0 trailing ++ e :: tail) →
    wfF st.alpha nodes 0 →
    (toksF nodes 0).length + 4 ≤ vf →
    (toksF nodes 0).length + 2 * trailing.length + 1 ≤ fuel →
    ∃ st', docLoop vf fuel [] acc kp st = .ok ((acc ++ nodesF nodes, texts trailing), st') ∧
      After st (e :: tail) (warnsF nodes kp).reverse st'
  | [], st, acc, kp, fuel, ht, hr, _, _, hfuel => by
    obtain ⟨rest, p, n, la, w, dp, wd, s, th, al⟩ := st
    simp only [toksF, List.nil_append] at hr
    subst hr
    simp only [toksF, List.length_nil, Nat.zero_add] at hfuel ⊢
    obtain ⟨G, rfl⟩ : ∃ G, fuel = 2 * trailing.length + (G + 1) := ⟨fuel - 2 * trailing.length - 1, by omega⟩
    obtain ⟨p', h⟩ := docLoop_lead vf (e :: tail) (by simp) (G + 1) acc kp la w dp wd s th al trailing [] p n
    refine ⟨_, ?_, p', n + 2 * trailing.length, rfl⟩
    simp only [List.nil_append]
    rw [h, docLoop]
    step_simp [he]
    simp only [nodesF, List.append_nil, List.nil_append, warnsF, List.reverse_nil]
  | c :: r, st, acc, kp, fuel, ht, hr, hc, hvf, hfuel => by
    obtain ⟨rest, p, n, la, w, dp, wd, s, th, al⟩ := st
    simp only at hr hc
    subst hr
    simp only [wfF] at hc
    rw [toksF_cons_zero_length] at hvf hfuel
    obtain ⟨G, rfl⟩ : ∃ G, fuel = 2 * c.lead.length + (G + 1) := ⟨fuel - 2 * c.lead.length - 1, by omega⟩
    obtain ⟨p1, hl⟩ := docLoop_lead vf (c.core 0 ++ (toksF r 0 ++ (leadT 0 trailing ++ e :: tail)))
      (core_ne_nil c 0 _) (G + 1) acc kp la w dp wd s th al c.lead [] p n
    rw [toksF_cons_zero, hl, List.nil_append]
    have hfl : toksF r 0 ++ (leadT 0 trailing ++ e :: tail) ≠ [] := by simp
    by_cases hh : c.isHdr = true
    · have hs' := cont_head0 al 1 (by omega) r hc.2 trailing e tail he
      obtain ⟨t, R, hb, htt⟩ := hdr_head c 0 hh
      have hlen1 : 1 ≤ (c.core 0).length := by rw [hb]; simp
      obtain ⟨s1, hsec, p2, n2, rfl⟩ := parseSection_hdr c 0
        { rest := c.core 0 ++ (toksF r 0 ++ (leadT 0 trailing ++ e :: tail)), prev := p1, pos := n + 2 * c.lead.length, last := la,
          warnings := w, depth := dp, warned := wd, strict := s, threshold := th, alpha := al } _ vf hh ht rfl hs' hc.1 (by omega)
      obtain ⟨s2, ih, p3, n3, rfl⟩ := docLoop_m vf trailing e tail he r
        { rest := toksF r 0 ++ (leadT 0 trailing ++ e :: tail), prev := p2, pos := n2, last := la,
          warnings := c.warns.reverse ++ w, depth := dp, warned := wd, strict := s, threshold := th, alpha := al }
        (acc ++ [c.node]) kp G ht rfl hc.2 (by omega) (by omega)
      simp only [] at hsec ih
      refine ⟨_, ?_, p3, n3, rfl⟩
      rw [docLoop_call_hdr vf G (texts c.lead) acc kp _ t (R ++ (toksF r 0 ++ (leadT 0 trailing ++ e :: tail)))
        (by rw [hb]; rfl) htt p1 _ la w dp wd s th al c.node (hdr_node_key c hh) _ hsec, ih]
      simp only [nodesF, warnsF, hdr_track kp c hh, List.append_assoc, List.cons_append, List.nil_append,
        List.reverse_append]
    · cases c with
      | block key cs' lead q => exact absurd rfl hh
      | sect id key cs' lead q => exact absurd rfl hh
      | line ln lead trail =>
        have hok : LineOK ln trail := hc.1
        simp only [PNode.lead] at hvf hfuel ⊢
        rw [line_core_length] at hvf hfuel
        obtain ⟨G', rfl⟩ : ∃ G', G = G' + 1 := ⟨G - 1, by omega⟩
        rw [line_core_append]
        obtain ⟨s3, hps, p3, n3, rfl⟩ := parseSection_mline ln trail hok (texts lead)
          { rest := ln.kt :: ln.a :: ln.vt :: (ln.vr ++ (trailT trail ++ ln.nl :: (toksF r 0 ++ (leadT 0 trailing ++ e :: tail)))),
            prev := p1, pos := n + 2 * lead.length, last := la, warnings := w, depth := dp, warned := wd, strict := s,
            threshold := th, alpha := al }
          (toksF r 0 ++ (leadT 0 trailing ++ e :: tail)) vf ht rfl (by omega)
        obtain ⟨s4, ih, p4, n4, rfl⟩ := docLoop_m vf trailing e tail he r
          { rest := toksF r 0 ++ (leadT 0 trailing ++ e :: tail), prev := some ln.nl, pos := n3 + 1, last := la,
            warnings := (trackPure kp ln.key ln.kt.line).2 ++ (ln.warnsRev ++ w), depth := dp, warned := wd, strict := s,
            threshold := th, alpha := al }
          (acc ++ [Node.assign ln.key ln.v ln.kt.line ln.kt.col (texts lead) (trail.map Prod.fst)])
          (trackPure kp ln.key ln.kt.line).1 G' ht rfl hc.2 (by omega) (by omega)
        simp only [] at hps ih
        refine ⟨_, ?_, p4, n4, rfl⟩
        rw [docLoop_call_assign vf (G' + 1) (texts lead) acc kp ln.kt _ hok.kt p1 _ la w dp wd s th al
          ln.key ln.v ln.kt.line ln.kt.col (texts lead) (trail.map Prod.fst) _ hps]
        simp only []
        rw [docLoop_newline (ht := hok.nl) (hR := hfl), ih]
        simp only [nodesF, PNode.node, warnsF, PNode.warns, trackP, List.append_assoc,
          List.cons_append, List.nil_append, List.reverse_append, List.reverse_reverse, trackPure_warns_reverse]


/-! ## `parseDocument` on a whole master document -/

/-- the token list of a master document: envelope line, the META block (if any field), the forest at depth 0 with all its
comment lines, the document's trailing comment lines, `===END===`. -/
def mToks (f : Frame) (name : Str) (mpos : Nat → BlockParse.LPos) (fields : List (Str × Scalar)) (nodes : List PNode)
    (trailing : List (Str × CommentParse.CPos)) : List Token :=
  f.envTok name :: f.nl0Tok :: (DParse.metaPart mpos fields ++ (toksF nodes 0 ++ (DParse.leadT 0 trailing ++ [f.endTok, f.nl1Tok, f.eofTok])))

/-- the document it denotes. -/
def mDocP (name : Str) (fields : List (Str × Scalar)) (nodes : List PNode) (trailing : List (Str × CommentParse.CPos)) : Document :=
  { name := name, metaKv := MetaParse.metaDict [] fields, sections := nodesF nodes, trailingComments := DParse.texts trailing }

/-- the first body node is a line or a block keyed `META` AND no comment line precedes it. -/
def metaFirstP : List PNode → Bool
  | .line ln lead _ :: _ => lead.isEmpty && ln.key == "META".toList
  | .block key _ lead _ :: _ => lead.isEmpty && key == "META".toList
  | _ => false

/-- what follows the envelope line / the META block: a comment, the first key, a section marker, or `===END===`. -/
theorem body_head (al : Char → Bool) (f : Frame) (nodes : List PNode) (hwf : wfF al nodes 0) (trailing : List (Str × CPos)) :
    ∃ u K, toksF nodes 0 ++ (leadT 0 trailing ++ [f.endTok, f.nl1Tok, f.eofTok]) = u :: K ∧
      u.type ≠ TT.newline ∧ u.type ≠ TT.indent ∧ u.type ≠ TT.separator ∧ u.type ≠ TT.grammarSentinel ∧
      u.type ≠ TT.envelopeStart ∧ (metaFirstP nodes = false → ¬(u.type = TT.identifier ∧ u.value = TVal.str "META".toList)) := by
  cases nodes with
  | nil =>
    cases trailing with
    | nil => exact ⟨f.endTok, _, rfl, by simp [Frame.endTok], by simp [Frame.endTok], by simp [Frame.endTok], by simp [Frame.endTok], by simp [Frame.endTok], fun _ h => by cases h.1⟩
    | cons sq t =>
      obtain ⟨s, q⟩ := sq
      exact ⟨cmtTok s _ _, _, rfl, by simp [cmtTok], by simp [cmtTok], by simp [cmtTok], by simp [cmtTok], by simp [cmtTok], fun _ h => by cases h.1⟩
  | cons c r =>
    rw [toksF_cons_zero]
    simp only [wfF] at hwf
    cases hl : c.lead with
    | cons sq t =>
      obtain ⟨s, q⟩ := sq
      exact ⟨cmtTok s _ _, _, rfl, by simp [cmtTok], by simp [cmtTok], by simp [cmtTok], by simp [cmtTok], by simp [cmtTok], fun _ h => by cases h.1⟩
    | nil =>
      simp only [leadT, List.nil_append]
      cases c with
      | line ln lead trail =>
        simp only [PNode.lead] at hl
        have hok : LineOK ln trail := hwf.1
        refine ⟨ln.kt, _, rfl, by simp [hok.kt], by simp [hok.kt], by simp [hok.kt], by simp [hok.kt], by simp [hok.kt], fun hm h => ?_⟩
        have := h.2
        rw [hok.kv] at this
        simp only [TVal.str.injEq] at this
        simp only [metaFirstP, hl, List.isEmpty_nil, Bool.true_and, beq_eq_false_iff_ne, ne_eq] at hm
        exact hm this
      | block key cs lead q =>
        simp only [PNode.lead] at hl
        refine ⟨keyTok key q, _, rfl, by simp [keyTok], by simp [keyTok], by simp [keyTok], by simp [keyTok], by simp [keyTok], fun hm h => ?_⟩
        have := h.2
        simp only [keyTok, TVal.str.injEq] at this
        simp only [metaFirstP, hl, List.isEmpty_nil, Bool.true_and, beq_eq_false_iff_ne, ne_eq] at hm
        exact hm this
      | sect id key cs lead q =>
        exact ⟨secTok q, _, rfl, by simp [secTok], by simp [secTok], by simp [secTok], by simp [secTok], by simp [secTok], fun _ h => by cases h.1⟩

/-- **`parse_document` on a whole master document**, with the parser's own fuel (`2·(tokens+2)+10`), from any state at bracket
depth 0: exactly `mDocP` — the META fields in `meta`, every node (lines with values of any kind) with its comments, the
document's trailing comments —, the cursor after `===END===`, and exactly the warnings of the META loop followed by those of
the body. -/
theorem parseDocument_m (f : Frame) (name : Str) (mpos : Nat → BlockParse.LPos) (fields : List (Str × Scalar)) (nodes : List PNode)
    (trailing : List (Str × CommentParse.CPos)) (st : PState) (ht : Top st)
    (hm : (fields.isEmpty && metaFirstP nodes) = false) (hc : wfF st.alpha nodes 0)
    (hr : st.rest = mToks f name mpos fields nodes trailing) :
    ∃ st', parseDocument st = .ok (mDocP name fields nodes trailing, st') ∧
      After st [f.nl1Tok, f.eofTok] ((warnsF nodes []).reverse ++ (MetaParse.metaWarns mpos [] fields 1).reverse) st' := by
  obtain ⟨u, K, hK, h1, hind, h3, h4, h5, h6⟩ := body_head st.alpha f nodes hc trailing
  have hlen : (toksF nodes 0).length + 2 * trailing.length + 2 = K.length := by
    have := congrArg List.length hK
    simp only [List.length_append, List.length_cons, List.length_nil, leadT0_length] at this
    omega
  obtain ⟨rest, p, n0, la, w, dp, wd, s, th, al⟩ := st
  simp only at hr hc
  cases fields with
  | nil =>
    simp only [List.isEmpty_nil, Bool.true_and] at hm
    have h6 := h6 hm
    simp only [mToks, metaPart, List.nil_append] at hr
    rw [hK] at hr
    subst hr
    obtain ⟨vf, hvf⟩ : ∃ vf, vf = 2 * ((f.envTok name :: f.nl0Tok :: u :: K).length + 2) + 10 := ⟨_, rfl⟩
    obtain ⟨stD, hD, pD, nD, rfl⟩ := docLoop_m vf trailing f.endTok [f.nl1Tok, f.eofTok] (Or.inl rfl) nodes
      { rest := u :: K, prev := some f.nl0Tok, pos := n0 + 1 + 1, last := la, warnings := w, depth := dp, warned := wd, strict := s, threshold := th, alpha := al }
      [] [] (2 * vf) ht hK.symm hc
      (by rw [hvf]; simp only [List.length_cons]; omega) (by rw [hvf]; simp only [List.length_cons]; omega)
    simp only [] at hD
    refine ⟨{ rest := [f.nl1Tok, f.eofTok], prev := some f.endTok, pos := nD + 1, last := la,
              warnings := (warnsF nodes []).reverse ++ w, depth := dp, warned := wd, strict := s, threshold := th, alpha := al },
      ?_, some f.endTok, nD + 1, by simp only [MetaParse.metaWarns, List.reverse_nil, List.append_nil]⟩
    unfold parseDocument
    simp (config := {zeta := false}) only [bind, StateT.bind, Except.bind, budget_mk]
    extract_lets n doc0 jp5 jp4 jp3 jp2 jp1
    have hn : n = vf := by rw [hvf]
    rw [← hn] at hD
    step_simp [Frame.envTok, Frame.nl0Tok, skipWhitespace_stop]
    simp only [jp1]
    step_simp []
    simp only [jp2]
    step_simp [skipWhitespace_false_nl, pyStrVal_str, h1]
    simp only [jp3]
    step_simp [h6]
    simp only [jp4]
    step_simp [h3]
    simp only [jp5]
    step_simp []
    simp only [Frame.nl0Tok] at hD
    rw [hD]
    step_simp [Frame.endTok]
    simp only [mDocP, MetaParse.metaDict, List.nil_append]
    rfl
  | cons fd fs =>
    have hstop : MetaParse.metaStops (2 * (0 + 1)) u = true := by
      simp [MetaParse.metaStops, h1, hind]
    simp only [mToks, metaPart, List.cons_append] at hr
    rw [hK] at hr
    subst hr
    obtain ⟨vf, hvf⟩ : ∃ vf, vf = 2 * ((f.envTok name :: f.nl0Tok :: BlockParse.hdrKeyTok "META".toList (mpos 0) ::
      BlockParse.hdrBlockTok (mpos 0) :: BlockParse.hdrNlTok (mpos 0) ::
      (BlockParse.toksList mpos (MetaParse.fieldNodes (fd :: fs)) 1 1 ++ u :: K)).length + 2) + 10 := ⟨_, rfl⟩
    have hmb := MetaParse.parseMetaBlock_fields mpos vf 0 0 "META".toList fd fs u K
      (some { type := TT.newline, value := TVal.str "\n".toList, line := f.nl0L, col := f.nl0C }) (n0 + 1 + 1) la w dp wd s th al
      hstop (by rw [hvf]; omega)
    simp only [BlockParse.hdrKeyTok, Nat.zero_add] at hmb
    obtain ⟨stD, hD, pD, nD, rfl⟩ := docLoop_m vf trailing f.endTok [f.nl1Tok, f.eofTok] (Or.inl rfl) nodes
      { rest := u :: K,
        prev := BlockParse.prevAfterList mpos
          (some { type := TT.newline, value := TVal.str "\n".toList, line := f.nl0L, col := f.nl0C }) (MetaParse.fieldNodes (fd :: fs)) 1,
        pos := n0 + 1 + 1 + 3 + 5 * (fs.length + 1), last := la,
        warnings := (MetaParse.metaWarns mpos [] (fd :: fs) 1).reverse ++ w, depth := dp, warned := wd, strict := s, threshold := th, alpha := al }
      [] [] (2 * vf) ht hK.symm hc
      (by rw [hvf]; simp only [List.length_cons, List.length_append, MetaParse.fieldToks_length]; omega)
      (by rw [hvf]; simp only [List.length_cons, List.length_append, MetaParse.fieldToks_length]; omega)
    simp only [] at hD
    refine ⟨{ rest := [f.nl1Tok, f.eofTok], prev := some f.endTok, pos := nD + 1, last := la,
              warnings := (warnsF nodes []).reverse ++ ((MetaParse.metaWarns mpos [] (fd :: fs) 1).reverse ++ w), depth := dp,
              warned := wd, strict := s, threshold := th, alpha := al },
      ?_, some f.endTok, nD + 1, by simp only [List.append_assoc]⟩
    unfold parseDocument
    simp (config := {zeta := false}) only [bind, StateT.bind, Except.bind, budget_mk]
    extract_lets n doc0 jp5 jp4 jp3 jp2 jp1
    have hn : n = vf := by rw [hvf]
    rw [← hn] at hD hmb
    step_simp [Frame.envTok, Frame.nl0Tok, skipWhitespace_stop]
    simp only [jp1]
    step_simp []
    simp only [jp2]
    step_simp [skipWhitespace_newline, pyStrVal_str, BlockParse.hdrKeyTok]
    simp only [jp3]
    step_simp [BlockParse.hdrKeyTok]
    rw [hmb]
    step_simp [skipWhitespace_false_stop, h1]
    simp only [jp4]
    step_simp [h3]
    simp only [jp5]
    step_simp []
    rw [hD]
    step_simp [Frame.endTok]
    simp only [mDocP, List.nil_append]
    rfl


/-! ## Sanity: the conditions are satisfiable with every kind of line, comments everywhere -/

/-- a block holding a commented list line with a trailing comment, followed by an expression line with a trailing comment and a
scalar line: `wfF` holds (block key at column 1), so `parseDocument_m` applies to its token list from any `Top` state. -/
example (al : Char → Bool) (q q' : CPos) (hq : q.c1 = 1) (e : Expr.Expr) (hne : e.tail ≠ []) (ts : List Token)
    (h : TailToks e.tail ts) (v : FlatParse.Scalar) :
    wfF al
      [PNode.block "B".toList
         [PNode.line ⟨3, 1, tIdent "L".toList 3 3, "L".toList, { type := .assign, value := .str "::".toList, line := 3, col := 4 },
            { type := .listStart, value := .str "[".toList, line := 3, col := 6 },
            [{ type := .listEnd, value := .str "]".toList, line := 3, col := 7 }], .list ([].map FlatParse.Scalar.val), [],
            { type := .newline, value := .str "\n".toList, line := 3, col := 12 }⟩ [("c".toList, q')] (some ("t".toList, 3, 9))]
         [] q,
       PNode.line ⟨0, 0, tIdent "E".toList 5 1, "E".toList, { type := .assign, value := .str "::".toList, line := 5, col := 2 },
          tIdent e.head 5 4, ts, .str e.text, exprWarnsRev ts,
          { type := .newline, value := .str "\n".toList, line := 5, col := 30 }⟩ [] (some ("x".toList, 5, 20)),
       PNode.line ⟨0, 0, tIdent "S".toList 6 1, "S".toList, { type := .assign, value := .str "::".toList, line := 6, col := 2 },
          v.tok 6 4, [], v.val, [],
          { type := .newline, value := .str "\n".toList, line := 6, col := 30 }⟩ [("above".toList, q')] none] 0 := by
  simp only [wfF, PNode.wf, List.isEmpty_cons, Bool.false_eq_true, if_false, and_true]
  refine ⟨⟨by omega, ?_⟩, ?_, ?_⟩
  · exact lineOK_list _ _ _ _ _ _ [] _ _
      (ListToks.empty _ [] _ rfl (fun _ h => by cases h) rfl) _ rfl rfl rfl rfl
  · exact lineOK_expr _ _ _ _ _ _ e hne _ _ ts h _ rfl rfl rfl rfl
  · exact lineOK_scalar _ _ _ _ _ _ v _ _ _ rfl rfl rfl rfl

end Octave.MParse
