/-
Parser half for flat documents whose values are scalars or LISTS OF SCALARS in any layout.

* `skipListWs_ws`, `listLoop_end_ws`, `listLoop_iter_comma/last/cont`   `listLoop` with NEWLINE / INDENT / COMMENT tokens
  after `[`, after the commas and before `]` (extends `Lemmas/ListParse`, whose loop lemmas assume no such token);
* `HeadToks`, `ListToks`                 token lists of a list of scalars (bare words included), every position and every
                                         whitespace run arbitrary;
* `parseValue_listToks`                  `parse_value` reads such a token list as exactly the list of the items' values;
* `VLine`, `VLine.OK`, `parseSection_value`   `parse_section` on `KEY :: value NEWLINE` for ANY value whose tokens
                                         `parse_value` reads as `v`, stopping on the NEWLINE (generalises
                                         `FlatParse.parseSection_flat_line`);
* `docLoop_vlines`, `parseDocument_vlines`    the body loop and `parse_document` on any number of such lines.
-/
import Octave.Lemmas.FlatParse
import Octave.Lemmas.ListParse
set_option linter.unusedSimpArgs false
namespace Octave.ListDocParse
open Octave Parser
open Octave.ListParse hiding Scalar
open Octave.FlatParse (endsValue)

/-! ## whitespace tokens inside a list -/

/-- token types `parse_list` skips between items. -/
def isWsT (t : TT) : Bool := t == .newline || t == .indent || t == .comment

def AllWs (ws : List Token) : Prop := ∀ t ∈ ws, isWsT t.type = true

theorem isWsT_plain {t : TT} (h : isWsT t = true) :
    t ≠ .listStart ∧ t ≠ .listEnd ∧ t ≠ .constraint ∧ t ≠ .assign ∧ t ≠ .eof ∧ t ≠ .envelopeEnd ∧ t ≠ .comma := by
  simp only [isWsT, Bool.or_eq_true, beq_iff_eq] at h
  rcases h with (h | h) | h <;> subst h <;> simp

theorem state_rest_eq (st : PState) (r : List Token) (h : st.rest = r) : ({ st with rest := r } : PState) = st := by
  cases st; simp at h; subst h; rfl

/-- `skipListWs` over a run of whitespace tokens: the cursor moves past them, nothing else changes. -/
theorem skipListWs_ws (ws : List Token) (hws : AllWs ws) : ∀ (st : PState) (t : Token) (r : List Token) (fuel : Nat),
    st.rest = ws ++ t :: r → isWsT t.type = false → ws.length + 1 ≤ fuel →
    skipListWs fuel st = .ok ((), adv st ws (t :: r)) := by
  induction ws with
  | nil =>
    intro st t r fuel hr ht hf
    have hr : st.rest = t :: r := hr
    obtain ⟨f, rfl⟩ : ∃ f, fuel = f + 1 := ⟨fuel - 1, by simp at hf; omega⟩
    simp only [isWsT, Bool.or_eq_false_iff, beq_eq_false_iff_ne, ne_eq] at ht
    rw [skipListWs_noop f st t r hr ht.1.1 ht.1.2 ht.2, adv_nil, state_rest_eq st _ hr]
  | cons w ws ih =>
    intro st t r fuel hr ht hf
    obtain ⟨f, rfl⟩ : ∃ f, fuel = f + 1 := ⟨fuel - 1, by simp at hf; omega⟩
    have hw := hws w (by simp)
    obtain ⟨u, r', hur⟩ : ∃ u r', ws ++ t :: r = u :: r' := by
      cases ws with
      | nil => exact ⟨t, r, rfl⟩
      | cons a b => exact ⟨a, b ++ t :: r, rfl⟩
    have hr' : st.rest = w :: u :: r' := by rw [hr, List.cons_append, hur]
    have hp := isWsT_plain hw
    rw [skipListWs]
    simp only [bind, StateT.bind, curType, current, get, getThe, MonadStateOf.get, StateT.get, pure, StateT.pure, Except.pure, Except.bind, hr']
    have hcond : (w.type == TT.newline || w.type == TT.indent || w.type == TT.comment) = true := hw
    rw [if_pos hcond]
    simp only [StateT.bind, bind, Except.bind]
    rw [advance_eq st w u r' hr']
    simp only []
    have e1 : ({ st with rest := u :: r', prev := some w, pos := st.pos + 1 } : PState) = adv st [w] (ws ++ t :: r) := by
      rw [adv_plain _ _ _ hp.1 hp.2.1, hur]
    rw [e1, ih (fun x hx => hws x (by simp [hx])) _ t r f rfl ht (by simp at hf; omega), adv_adv]
    rfl


/-! ## one iteration of `listLoop` from a loop head with leading whitespace -/

/-- the loop head at whitespace followed by LIST_END returns the items collected so far. -/
theorem listLoop_end_ws (st : PState) (ws : List Token) (rb : Token) (r : List Token) (fuel : Nat) (items : List Value)
    (hr : st.rest = ws ++ rb :: r) (hws : AllWs ws) (hrb : rb.type = .listEnd) :
    listLoop (fuel + 1) items st = .ok (items, adv st ws (rb :: r)) := by
  rw [listLoop]
  simp only [bind, StateT.bind, budget, get, getThe, MonadStateOf.get, StateT.get, pure, StateT.pure, Except.pure, Except.bind]
  rw [skipListWs_ws ws hws st rb r _ hr (by simp [isWsT, hrb]) (by rw [hr]; simp; omega)]
  simp only [curType, current, bind, StateT.bind, get, getThe, MonadStateOf.get, StateT.get, pure, StateT.pure, Except.pure, Except.bind,
    adv_rest, hrb]
  rfl

/-- whitespace, an item, COMMA: the loop continues after the comma. -/
theorem listLoop_iter_comma (st s2 : PState) (ws : List Token) (t : Token) (r : List Token) (c u : Token) (r' : List Token)
    (fuel : Nat) (items : List Value) (x : Value)
    (hr : st.rest = ws ++ t :: r) (hws : AllWs ws) (ht : isWsT t.type = false)
    (h4 : t.type ≠ .listEnd) (h5 : t.type ≠ .eof) (h6 : t.type ≠ .envelopeEnd)
    (hitem : parseListItem fuel (adv st ws (t :: r)) = .ok (x, s2))
    (hr2 : s2.rest = c :: u :: r') (hc : c.type = .comma) :
    listLoop (fuel + 1) items st = listLoop fuel (items ++ [x]) (adv s2 [c] (u :: r')) := by
  rw [adv_plain _ _ _ (by simp [hc]) (by simp [hc])]
  rw [listLoop]
  simp only [bind, StateT.bind, budget, get, getThe, MonadStateOf.get, StateT.get, pure, StateT.pure, Except.pure, Except.bind]
  rw [skipListWs_ws ws hws st t r _ hr ht (by rw [hr]; simp; omega)]
  simp only [curType, current, bind, StateT.bind, get, getThe, MonadStateOf.get, StateT.get, pure, StateT.pure, Except.pure, Except.bind,
    adv_rest]
  rw [if_neg (by simp [h4, h5, h6])]
  simp only [StateT.bind, bind, Except.bind]
  rw [hitem]
  simp only [curType, current, bind, StateT.bind, get, getThe, MonadStateOf.get, StateT.get, pure, StateT.pure, Except.pure, Except.bind, hr2, hc]
  simp only [beq_self_eq_true, if_true, StateT.bind, bind, Except.bind]
  rw [advance_eq s2 c u r' hr2]

/-- whitespace, an item, LIST_END: the loop ends (the bracket is left for `parse_list`). -/
theorem listLoop_iter_last (st s2 : PState) (ws : List Token) (t : Token) (r : List Token) (rb : Token) (r' : List Token)
    (fuel : Nat) (items : List Value) (x : Value)
    (hr : st.rest = ws ++ t :: r) (hws : AllWs ws) (ht : isWsT t.type = false)
    (h4 : t.type ≠ .listEnd) (h5 : t.type ≠ .eof) (h6 : t.type ≠ .envelopeEnd)
    (hitem : parseListItem fuel (adv st ws (t :: r)) = .ok (x, s2))
    (hr2 : s2.rest = rb :: r') (hrb : rb.type = .listEnd) :
    listLoop (fuel + 1) items st = .ok (items ++ [x], s2) := by
  rw [listLoop]
  simp only [bind, StateT.bind, budget, get, getThe, MonadStateOf.get, StateT.get, pure, StateT.pure, Except.pure, Except.bind]
  rw [skipListWs_ws ws hws st t r _ hr ht (by rw [hr]; simp; omega)]
  simp only [curType, current, bind, StateT.bind, get, getThe, MonadStateOf.get, StateT.get, pure, StateT.pure, Except.pure, Except.bind,
    adv_rest]
  rw [if_neg (by simp [h4, h5, h6])]
  simp only [StateT.bind, bind, Except.bind]
  rw [hitem]
  simp only [curType, current, bind, StateT.bind, get, getThe, MonadStateOf.get, StateT.get, pure, StateT.pure, Except.pure, Except.bind, hr2, hrb]
  rfl

/-- whitespace, an item, then whitespace again (a line break before `]`): the loop goes round once more. -/
theorem listLoop_iter_cont (st s2 : PState) (ws : List Token) (t : Token) (r : List Token) (w : Token) (r' : List Token)
    (fuel : Nat) (items : List Value) (x : Value)
    (hr : st.rest = ws ++ t :: r) (hws : AllWs ws) (ht : isWsT t.type = false)
    (h4 : t.type ≠ .listEnd) (h5 : t.type ≠ .eof) (h6 : t.type ≠ .envelopeEnd)
    (hitem : parseListItem fuel (adv st ws (t :: r)) = .ok (x, s2))
    (hr2 : s2.rest = w :: r') (hw : isWsT w.type = true) :
    listLoop (fuel + 1) items st = listLoop fuel (items ++ [x]) s2 := by
  have hp := isWsT_plain hw
  rw [listLoop]
  simp only [bind, StateT.bind, budget, get, getThe, MonadStateOf.get, StateT.get, pure, StateT.pure, Except.pure, Except.bind]
  rw [skipListWs_ws ws hws st t r _ hr ht (by rw [hr]; simp; omega)]
  simp only [curType, current, bind, StateT.bind, get, getThe, MonadStateOf.get, StateT.get, pure, StateT.pure, Except.pure, Except.bind,
    adv_rest]
  rw [if_neg (by simp [h4, h5, h6])]
  simp only [StateT.bind, bind, Except.bind]
  rw [hitem]
  simp only [curType, current, bind, StateT.bind, get, getThe, MonadStateOf.get, StateT.get, pure, StateT.pure, Except.pure, Except.bind, hr2]
  rw [if_neg (by simp [hp.2.2.2.2.2.2]), if_neg (by simp [hp.2.1]), if_neg (by simp [hp.2.2.2.2.1])]


/-! ## items -/

theorem scalar_tok_plain (v : FlatParse.Scalar) (l c : Nat) :
    (v.tok l c).type ≠ .listStart ∧ (v.tok l c).type ≠ .listEnd ∧ (v.tok l c).type ≠ .constraint ∧ isWsT (v.tok l c).type = false
      ∧ (v.tok l c).type ≠ .eof ∧ (v.tok l c).type ≠ .envelopeEnd := by
  cases v <;> simp [FlatParse.Scalar.tok, isWsT]

theorem endsValue_after_item (t : TT) (h : t = .comma ∨ t = .listEnd ∨ isWsT t = true) : endsValue t = true ∧ t ≠ .assign := by
  rcases h with h | h | h
  · subst h; decide
  · subst h; decide
  · simp only [isWsT, Bool.or_eq_true, beq_iff_eq] at h
    rcases h with (h | h) | h <;> subst h <;> decide

/-- `parse_list_item` on one scalar token (a bare word included) followed by `,`, `]` or list whitespace. -/
theorem parseListItem_scalar (v : FlatParse.Scalar) (l c : Nat) (st : PState) (next : Token) (k : List Token) (fuel : Nat)
    (hr : st.rest = v.tok l c :: next :: k) (hn : next.type = .comma ∨ next.type = .listEnd ∨ isWsT next.type = true) :
    parseListItem (fuel + 3) st = .ok (v.val, adv st [v.tok l c] (next :: k)) := by
  obtain ⟨he, hna⟩ := endsValue_after_item next.type hn
  have hp := scalar_tok_plain v l c
  rw [parseListItem_value st (v.tok l c) (next :: k) (fuel + 2) hr (fun _ => hna),
    FlatParse.parseValue_scalar st v l c next k fuel he hr, adv_plain _ _ _ hp.1 hp.2.1]

/-- tokens from a loop head to the closing bracket: whitespace, item, then `,` and more, or whitespace and `]`.
Positions of all tokens and the whitespace runs are arbitrary. -/
inductive HeadToks : List FlatParse.Scalar → List Token → Prop
  | last (ws : List Token) (v : FlatParse.Scalar) (l c : Nat) (ws' : List Token) (rb : Token) :
      AllWs ws → AllWs ws' → rb.type = .listEnd → HeadToks [v] (ws ++ v.tok l c :: (ws' ++ [rb]))
  | more (ws : List Token) (v : FlatParse.Scalar) (l c : Nat) (cm : Token) (r : List FlatParse.Scalar) (ts : List Token) :
      AllWs ws → cm.type = .comma → HeadToks r ts → HeadToks (v :: r) (ws ++ v.tok l c :: cm :: ts)

theorem HeadToks.ne_nil {vs : List FlatParse.Scalar} {ts : List Token} (h : HeadToks vs ts) : ts ≠ [] := by
  cases h <;> simp

/-- a token that is neither a bracket nor `∧`. -/
def PlainTok (t : Token) : Prop := t.type ≠ .listStart ∧ t.type ≠ .listEnd ∧ t.type ≠ .constraint

theorem allWs_plain {ws : List Token} (h : AllWs ws) : ∀ t ∈ ws, PlainTok t := fun t ht =>
  ⟨(isWsT_plain (h t ht)).1, (isWsT_plain (h t ht)).2.1, (isWsT_plain (h t ht)).2.2.1⟩

theorem listLoop_head {vs : List FlatParse.Scalar} {ts : List Token} (h : HeadToks vs ts) :
    ∀ (st : PState) (n : Token) (k : List Token) (items : List Value) (fuel : Nat),
    st.rest = ts ++ n :: k → vs.length + 4 ≤ fuel →
    ∃ body rb, ts = body ++ [rb] ∧ rb.type = .listEnd ∧ (∀ t ∈ body, PlainTok t) ∧
      listLoop fuel items st = .ok (items ++ vs.map FlatParse.Scalar.val, adv st body (rb :: n :: k)) := by
  induction h with
  | last ws v l c ws' rb hws hws' hrb =>
    intro st n k items fuel hr hf
    obtain ⟨f, rfl⟩ : ∃ f, fuel = f + 5 := ⟨fuel - 5, by simp at hf; omega⟩
    have hp := scalar_tok_plain v l c
    have hr0 : st.rest = ws ++ v.tok l c :: (ws' ++ rb :: n :: k) := by rw [hr]; simp
    refine ⟨ws ++ v.tok l c :: ws', rb, by simp, hrb, ?_, ?_⟩
    · intro t ht
      simp only [List.mem_append, List.mem_cons] at ht
      rcases ht with ht | rfl | ht
      · exact allWs_plain hws t ht
      · exact ⟨hp.1, hp.2.1, hp.2.2.1⟩
      · exact allWs_plain hws' t ht
    · cases ws' with
      | nil =>
        have hitem := parseListItem_scalar v l c (adv st ws (v.tok l c :: rb :: n :: k)) rb (n :: k) (f + 1) rfl (Or.inr (Or.inl hrb))
        rw [listLoop_iter_last st _ ws (v.tok l c) (rb :: n :: k) rb (n :: k) (f + 4) items v.val (by rw [hr0]; rfl) hws hp.2.2.2.1
          hp.2.1 hp.2.2.2.2.1 hp.2.2.2.2.2 hitem rfl hrb, adv_adv]
        simp
      | cons w ws'' =>
        have hw := hws' w (by simp)
        have hitem := parseListItem_scalar v l c (adv st ws (v.tok l c :: w :: (ws'' ++ rb :: n :: k))) w (ws'' ++ rb :: n :: k) (f + 1) rfl
          (Or.inr (Or.inr hw))
        rw [listLoop_iter_cont st _ ws (v.tok l c) (w :: (ws'' ++ rb :: n :: k)) w (ws'' ++ rb :: n :: k) (f + 4) items v.val
          (by rw [hr0]; rfl) hws hp.2.2.2.1 hp.2.1 hp.2.2.2.2.1 hp.2.2.2.2.2 hitem rfl hw]
        rw [listLoop_end_ws _ (w :: ws'') rb (n :: k) (f + 3) _ rfl hws' hrb, adv_adv, adv_adv]
        simp
  | more ws v l c cm r ts hws hcm htail ih =>
    intro st n k items fuel hr hf
    obtain ⟨f, rfl⟩ : ∃ f, fuel = f + 5 := ⟨fuel - 5, by simp at hf; omega⟩
    have hp := scalar_tok_plain v l c
    obtain ⟨u, r', hur⟩ := List.exists_cons_of_ne_nil htail.ne_nil
    have hr0 : st.rest = ws ++ v.tok l c :: cm :: (ts ++ n :: k) := by rw [hr]; simp
    have hitem := parseListItem_scalar v l c (adv st ws (v.tok l c :: cm :: (ts ++ n :: k))) cm (ts ++ n :: k) (f + 1) rfl (Or.inl hcm)
    have hur' : ts ++ n :: k = u :: (r' ++ n :: k) := by rw [hur]; rfl
    have hstep := listLoop_iter_comma st _ ws (v.tok l c) (cm :: (ts ++ n :: k)) cm u (r' ++ n :: k) (f + 4) items v.val
      hr0 hws hp.2.2.2.1 hp.2.1 hp.2.2.2.2.1 hp.2.2.2.2.2 hitem (by rw [adv_rest, hur']) hcm
    rw [← hur'] at hstep
    obtain ⟨body, rb, hts, hrb, hplain, hloop⟩ := ih (adv (adv (adv st ws (v.tok l c :: cm :: (ts ++ n :: k))) [v.tok l c] (cm :: (ts ++ n :: k))) [cm] (ts ++ n :: k))
      n k (items ++ [v.val]) (f + 4) rfl (by simp at hf ⊢; omega)
    refine ⟨ws ++ v.tok l c :: cm :: body, rb, by rw [hts]; simp, hrb, ?_, ?_⟩
    · intro t ht
      simp only [List.mem_append, List.mem_cons] at ht
      rcases ht with ht | rfl | rfl | ht
      · exact allWs_plain hws t ht
      · exact ⟨hp.1, hp.2.1, hp.2.2.1⟩
      · exact ⟨by simp [hcm], by simp [hcm], by simp [hcm]⟩
      · exact hplain t ht
    · rw [hstep, hloop, adv_adv, adv_adv, adv_adv]
      simp


/-! ## the whole list value -/

/-- tokens of a list of scalars: `[`, then either whitespace and `]`, or the items.  Every position and every
whitespace run (NEWLINE / INDENT / COMMENT tokens after `[`, after a comma, before `]`) is arbitrary. -/
inductive ListToks : List FlatParse.Scalar → List Token → Prop
  | empty (lb : Token) (ws : List Token) (rb : Token) :
      lb.type = .listStart → AllWs ws → rb.type = .listEnd → ListToks [] (lb :: (ws ++ [rb]))
  | items (lb : Token) (vs : List FlatParse.Scalar) (ts : List Token) :
      lb.type = .listStart → HeadToks vs ts → ListToks vs (lb :: ts)

theorem walkSt_plain (body : List Token) (h : ∀ t ∈ body, PlainTok t) (s : PState) : walkSt body s = s := by
  induction body generalizing s with
  | nil => rfl
  | cons t ts ih =>
    rw [walkSt_cons, tokStep_plain s t (h t (by simp)).1 (h t (by simp)).2.1]
    exact ih (fun x hx => h x (by simp [hx])) s

theorem not_holographic (ts : List Token) (h : ∀ t ∈ ts, t.type ≠ .constraint) : looksHolographic ts = false := by
  have : ts.any (fun t => t.type == .constraint) = false := by
    rw [List.any_eq_false]
    intro t ht hc
    simp only [beq_iff_eq] at hc
    exact h t ht hc
  simp [looksHolographic, this]

/-- the shape of a list's tokens and what the item loop does between the brackets. -/
theorem listToks_loop {vs : List FlatParse.Scalar} {ts : List Token} (h : ListToks vs ts) (n : Token) (k : List Token) :
    ∃ lb body rb, ts = lb :: (body ++ [rb]) ∧ lb.type = .listStart ∧ rb.type = .listEnd ∧ (∀ t ∈ body, PlainTok t) ∧
      ∀ (s1 : PState) (fuel : Nat), s1.rest = body ++ rb :: n :: k → vs.length + 4 ≤ fuel →
        listLoop fuel [] s1 = .ok (vs.map FlatParse.Scalar.val, adv s1 body (rb :: n :: k)) := by
  cases h with
  | empty lb ws rb hlb hws hrb =>
    refine ⟨lb, ws, rb, rfl, hlb, hrb, allWs_plain hws, ?_⟩
    intro s1 fuel hr hf
    obtain ⟨f, rfl⟩ : ∃ f, fuel = f + 1 := ⟨fuel - 1, by omega⟩
    rw [listLoop_end_ws s1 ws rb (n :: k) f [] hr hws hrb]
    rfl
  | items lb vs ts' hlb hh =>
    obtain ⟨body0, rb0, hts0, -, -, -⟩ := listLoop_head hh { rest := ts' ++ n :: k, last := n } n k [] (vs.length + 4) rfl (Nat.le_refl _)
    refine ⟨lb, body0, rb0, by rw [hts0], hlb, ?_⟩
    obtain ⟨body, rb, hts, hrb, hplain, _⟩ := listLoop_head hh { rest := ts' ++ n :: k, last := n } n k [] (vs.length + 4) rfl (Nat.le_refl _)
    have e := hts0.symm.trans hts
    obtain ⟨e1, e2⟩ := List.append_inj' e rfl
    have e3 : rb0 = rb := by simpa using e2
    subst e1; subst e3
    refine ⟨hrb, hplain, ?_⟩
    intro s1 fuel hr hf
    obtain ⟨body', rb', hts', _, _, hloop⟩ := listLoop_head hh s1 n k [] fuel (by rw [hr, hts]; simp) hf
    have e' := hts.symm.trans hts'
    obtain ⟨e1', e2'⟩ := List.append_inj' e' rfl
    have e3' : rb0 = rb' := by simpa using e2'
    subst e1'; subst e3'
    rw [hloop]; rfl

/-- **`parse_value` on a list of scalars in any layout** (`[a,b]`, one item per line, any whitespace tokens after `[`,
after the commas and before `]`; bare words included): exactly the list of the items' values; only the cursor moves. -/
theorem parseValue_listToks {vs : List FlatParse.Scalar} {ts : List Token} (h : ListToks vs ts) (st : PState) (n : Token)
    (k : List Token) (fuel : Nat) (hr : st.rest = ts ++ n :: k) (hf : vs.length + 6 ≤ fuel) (hd : st.depth + 1 < 100)
    (hq : st.threshold = 0 ∨ st.depth + 1 < st.threshold) :
    parseValue fuel st
      = .ok (.list (vs.map FlatParse.Scalar.val), { st with rest := n :: k, prev := ts.getLast?, pos := st.pos + ts.length }) := by
  obtain ⟨lb, body, rb, rfl, hlb, hrb, hplain, hloop⟩ := listToks_loop h n k
  obtain ⟨f, rfl⟩ : ∃ f, fuel = f + 2 := ⟨fuel - 2, by omega⟩
  have hr' : st.rest = lb :: (body ++ rb :: n :: k) := by rw [hr]; simp
  rw [parseValue_listStart st lb _ (f + 1) hr' hlb]
  have hl := hloop (adv st [lb] (body ++ rb :: n :: k)) f rfl (by omega)
  have hpl := parseList_eq st _ lb rb n (body ++ rb :: n :: k) k f _ hr' (by simp) hlb hd hl rfl hrb
    (by
      have e : (adv (adv st [lb] (body ++ rb :: n :: k)) body (rb :: n :: k)).pos + 1 - st.pos = (lb :: (body ++ [rb])).length := by
        simp only [adv_pos, List.length_cons, List.length_append, List.length_nil]; omega
      have e2 : lb :: (body ++ rb :: n :: k) = (lb :: (body ++ [rb])) ++ n :: k := by simp
      rw [e, e2, List.take_left']
      · apply not_holographic
        intro t ht
        simp only [List.mem_cons, List.mem_append, List.mem_nil_iff, or_false] at ht
        rcases ht with rfl | ht | rfl
        · simp [hlb]
        · exact (hplain t ht).2.2
        · simp [hrb]
      · rfl)
  rw [hpl, adv_adv, adv_adv]
  -- the bracket bookkeeping is silent below the warning threshold
  have hw : walkSt ([lb] ++ (body ++ [rb])) st = st := by
    rw [walkSt_append, walkSt_append, walkSt_cons, walkSt_nil, walkSt_cons, walkSt_nil]
    have e0 : tokStep st lb = { st with depth := st.depth + 1 } := by
      simp only [tokStep, hlb, beq_self_eq_true, if_true]
      apply mark_quiet
      rcases hq with hq | hq
      · exact Or.inl hq
      · exact Or.inr hq
    rw [e0, walkSt_plain body hplain]
    simp only [tokStep, hrb, beq_self_eq_true, if_true]
    rw [if_neg (by simp)]
    show ({ st with depth := st.depth + 1 - 1 } : PState) = st
    rw [Nat.add_sub_cancel]
  unfold adv
  rw [hw]
  have e1 : [lb] ++ (body ++ [rb]) = lb :: (body ++ [rb]) := rfl
  rw [e1]
  have hl' : (lb :: (body ++ [rb])).getLast?.or st.prev = (lb :: (body ++ [rb])).getLast? := by
    cases hx : (lb :: (body ++ [rb])).getLast? with
    | none => simp at hx
    | some x => rfl
  rw [hl']
  rfl

/-! ## `parse_section` on a line with any value -/

open Octave.FlatParse (current_mk peek_mk advance_mk curType_mk isAdjacentBracket_mk budget_mk warn_mk pyStrVal_str)

/-- evaluation of the parser monad on explicit states (as in `Lemmas/FlatParse`). -/
local macro "step_simp" "[" ts:Lean.Parser.Tactic.simpLemma,* "]" : tactic =>
  `(tactic| simp only [bind, StateT.bind, Except.bind, pure, StateT.pure, Except.pure, current_mk, peek_mk, advance_mk,
      curType_mk, isAdjacentBracket_mk, budget_mk, warn_mk, get, getThe, MonadStateOf.get, StateT.get,
      Bool.false_eq_true, if_false, if_true, Bool.false_and, Bool.and_false, Bool.or_false, Bool.false_or,
      List.length_cons, List.length_nil, beq_iff_eq, bne_iff_ne, ne_eq, reduceCtorEq, not_true_eq_false, not_false_eq_true,
      Bool.and_eq_true, Bool.or_eq_true, Bool.not_eq_true', beq_eq_false_iff_ne, false_and, and_false, true_and, and_true,
      false_or, or_false, true_or, or_true, decide_eq_true_eq,
      beq_self_eq_true, Bool.true_or, Bool.or_true, Bool.true_and, Bool.and_true, Bool.not_true, Bool.not_false, $ts,*])

/-- the warning `parse_section` files for a line: W_PATTERN_AUTOQUOTE for an unquoted string under `PATTERN` / `REGEX`. -/
def lineWarns (key : Str) (v : Value) (vt kt : Token) : List Warning :=
  match v with
  | .str s =>
    if (key = "PATTERN".toList ∨ key = "REGEX".toList) ∧ ¬ vt.type = .string then [.patternAutoquote key s kt.line kt.col]
    else []
  | _ => []

theorem parseSection_value (st s3 : PState) (kt a vt : Token) (vr k : List Token) (key : Str) (v : Value) (nl : Token) (fuel : Nat)
    (hkt : kt.type = .identifier) (hkv : kt.value = .str key) (ha : a.type = .assign)
    (hr : st.rest = kt :: a :: vt :: vr)
    (hv : parseValue fuel { st with rest := vt :: vr, prev := some a, pos := st.pos + 1 + 1 } = .ok (v, s3))
    (hr3 : s3.rest = nl :: k) (hnl : nl.type = .newline) :
    parseSection (fuel + 1) [] st
      = .ok (some (.assign key v kt.line kt.col [] none), { s3 with warnings := lineWarns key v vt kt ++ s3.warnings }) := by
  have hst : st = { st with rest := kt :: a :: vt :: vr } := by rw [← hr]
  have hs3 : s3 = { s3 with rest := nl :: k } := by rw [← hr3]
  rw [hst, parseSection]
  step_simp [hkt, ha, hkv, pyStrVal_str]
  rw [hv]
  simp only []
  rw [hs3]
  cases v with
  | str s =>
    by_cases hc : (key = "PATTERN".toList ∨ key = "REGEX".toList) ∧ ¬ vt.type = .string
    · simp only [lineWarns]
      rw [if_pos hc, if_pos hc]
      step_simp [hnl, List.cons_append, List.nil_append]
    · simp only [lineWarns]
      rw [if_neg hc, if_neg hc]
      step_simp [hnl, List.nil_append]
  | _ => step_simp [hnl, lineWarns, List.nil_append]

/-! ## the body loop of `parse_document` -/

open Octave.FlatParse (trackPure trackKey_eq trackPure_warns_reverse)

/-- two iterations of the body loop: a line that `parse_section` reads as an Assignment, then its NEWLINE. -/
theorem docLoop_iter (vf fuel : Nat) (st s3 : PState) (kt : Token) (r : List Token) (node : Node) (key : Str) (line : Nat)
    (sections : List Node) (kp : KeyPos) (nl u : Token) (r' : List Token)
    (hr : st.rest = kt :: r) (hkt : kt.type = .identifier)
    (hps : parseSection vf [] st = .ok (some node, s3)) (hk : nodeAssignKey? node = some (key, line))
    (hr3 : s3.rest = nl :: u :: r') (hnl : nl.type = .newline) :
    docLoop vf (fuel + 2) [] sections kp st
      = docLoop vf fuel [] (sections ++ [node]) (trackPure kp key line).1
          { s3 with rest := u :: r', prev := some nl, pos := s3.pos + 1, warnings := (trackPure kp key line).2 ++ s3.warnings } := by
  have hst : st = { st with rest := kt :: r } := by rw [← hr]
  have hs3 : s3 = { s3 with rest := nl :: u :: r' } := by rw [← hr3]
  rw [docLoop]
  conv => lhs; rw [hst]
  step_simp [hkt]
  rw [← hst, hps]
  step_simp [hk, trackKey_eq]
  rw [docLoop, hs3]
  step_simp [hnl]


/-- one line `KEY :: value NEWLINE` at token level: the value is ANY token list `vt :: vr` that `parse_value` reads as `v`. -/
structure VLine where
  kt : Token
  key : Str
  a : Token
  vt : Token
  vr : List Token
  v : Value
  nl : Token

def VLine.toks (ln : VLine) : List Token := ln.kt :: ln.a :: ln.vt :: (ln.vr ++ [ln.nl])
def VLine.node (ln : VLine) : Node := .assign ln.key ln.v ln.kt.line ln.kt.col [] none
def VLine.warns (ln : VLine) : List Warning := lineWarns ln.key ln.v ln.vt ln.kt

/-- the states the body loop is in: no open bracket, deep-nesting warnings off or starting above depth 1. -/
def Top (st : PState) : Prop := st.depth = 0 ∧ (st.threshold = 0 ∨ 1 < st.threshold)

/-- the line is well formed: token types, and `parse_value` (with fuel ≥ `F`) reads the value tokens as `v`, stops on the
NEWLINE and moves nothing but the cursor. -/
structure VLine.OK (ln : VLine) (F : Nat) : Prop where
  kt : ln.kt.type = .identifier
  kv : ln.kt.value = .str ln.key
  a : ln.a.type = .assign
  nl : ln.nl.type = .newline
  reads : ∀ (st : PState) (k : List Token) (fuel : Nat), Top st → st.rest = ln.vt :: (ln.vr ++ ln.nl :: k) → F ≤ fuel →
    parseValue fuel st = .ok (ln.v, { st with rest := ln.nl :: k, prev := (ln.vt :: ln.vr).getLast?, pos := st.pos + (ln.vr.length + 1) })

theorem VLine.OK.mono {ln : VLine} {F F' : Nat} (h : ln.OK F) (hle : F ≤ F') : ln.OK F' :=
  ⟨h.kt, h.kv, h.a, h.nl, fun st k fuel ht hr hf => h.reads st k fuel ht hr (Nat.le_trans hle hf)⟩

/-- all parser warnings of the body loop, in emission order. -/
def vdocWarns : KeyPos → List VLine → List Warning
  | _, [] => []
  | kp, ln :: r => ln.warns ++ (trackPure kp ln.key ln.kt.line).2 ++ vdocWarns (trackPure kp ln.key ln.kt.line).1 r

theorem lineWarns_reverse (key : Str) (v : Value) (vt kt : Token) : (lineWarns key v vt kt).reverse = lineWarns key v vt kt := by
  unfold lineWarns
  split
  · split <;> rfl
  · rfl

theorem docLoop_vlines (vf F : Nat) (hF : F + 1 ≤ vf) (lines : List VLine) (e : Token) (tail : List Token)
    (he : e.type = .envelopeEnd ∨ e.type = .eof) :
    ∀ (st : PState) (acc : List Node) (kp : KeyPos) (extra : Nat), (∀ ln ∈ lines, ln.OK F) → Top st →
    st.rest = lines.flatMap VLine.toks ++ e :: tail →
    ∃ st', docLoop vf (2 * lines.length + 1 + extra) [] acc kp st = .ok ((acc ++ lines.map VLine.node, []), st') ∧
      st'.rest = e :: tail ∧ st'.warnings = (vdocWarns kp lines).reverse ++ st.warnings := by
  induction lines with
  | nil =>
    intro st acc kp extra _ _ hr
    have hr : st.rest = e :: tail := hr
    have hst : st = { st with rest := e :: tail } := by rw [← hr]
    refine ⟨st, ?_, hr, by simp [vdocWarns]⟩
    have hf : 2 * ([] : List VLine).length + 1 + extra = extra + 1 := by simp only [List.length_nil]; omega
    rw [hf, docLoop]
    conv => lhs; rw [hst]
    step_simp [he]
    rw [← hst]
    simp
  | cons ln r ih =>
    intro st acc kp extra hok htop hr
    have h := hok ln (by simp)
    obtain ⟨f', rfl⟩ : ∃ f', vf = f' + 1 := ⟨vf - 1, by omega⟩
    -- what follows the line's NEWLINE
    obtain ⟨u, K', hK⟩ : ∃ u K', r.flatMap VLine.toks ++ e :: tail = u :: K' := by
      cases hx : r.flatMap VLine.toks ++ e :: tail with
      | nil => simp at hx
      | cons u K' => exact ⟨u, K', rfl⟩
    have hr' : st.rest = ln.kt :: ln.a :: ln.vt :: (ln.vr ++ ln.nl :: u :: K') := by
      rw [hr, List.flatMap_cons, ← hK]; simp [VLine.toks]
    -- the value
    have htop2 : Top ({ st with rest := ln.vt :: (ln.vr ++ ln.nl :: u :: K'), prev := some ln.a, pos := st.pos + 1 + 1 } : PState) := htop
    have hv := h.reads _ (u :: K') f' htop2 rfl (by omega)
    have hps := parseSection_value st _ ln.kt ln.a ln.vt (ln.vr ++ ln.nl :: u :: K') (u :: K') ln.key ln.v ln.nl f'
      h.kt h.kv h.a hr' hv rfl h.nl
    have hf : 2 * (ln :: r).length + 1 + extra = (2 * r.length + 1 + extra) + 2 := by simp only [List.length_cons]; omega
    let s4 : PState := { st with rest := u :: K', prev := some ln.nl, pos := st.pos + 1 + 1 + (ln.vr.length + 1) + 1,
                                 warnings := (trackPure kp ln.key ln.kt.line).2 ++ (ln.warns ++ st.warnings) }
    have hiter : docLoop (f' + 1) ((2 * r.length + 1 + extra) + 2) [] acc kp st
        = docLoop (f' + 1) (2 * r.length + 1 + extra) [] (acc ++ [ln.node]) (trackPure kp ln.key ln.kt.line).1 s4 :=
      docLoop_iter (f' + 1) _ st _ ln.kt _ _ ln.key ln.kt.line acc kp ln.nl u K' hr' h.kt hps rfl rfl h.nl
    obtain ⟨st', h1, h2, h3⟩ := ih s4 (acc ++ [VLine.node ln]) (trackPure kp ln.key ln.kt.line).1 extra
      (fun x hx => hok x (by simp [hx])) htop hK.symm
    refine ⟨st', ?_, h2, ?_⟩
    · rw [hf, hiter, h1]; simp
    · rw [h3]
      simp only [s4, vdocWarns, List.reverse_append, trackPure_warns_reverse, VLine.warns, lineWarns_reverse, List.append_assoc]


theorem docLoop_vlines' (vf fuel F : Nat) (hF : F + 1 ≤ vf) (lines : List VLine) (hfuel : 2 * lines.length + 1 ≤ fuel)
    (e : Token) (tail : List Token) (he : e.type = .envelopeEnd ∨ e.type = .eof)
    (st : PState) (acc : List Node) (kp : KeyPos) (hok : ∀ ln ∈ lines, ln.OK F) (htop : Top st)
    (hr : st.rest = lines.flatMap VLine.toks ++ e :: tail) :
    ∃ st', docLoop vf fuel [] acc kp st = .ok ((acc ++ lines.map VLine.node, []), st') ∧
      st'.rest = e :: tail ∧ st'.warnings = (vdocWarns kp lines).reverse ++ st.warnings := by
  obtain ⟨extra, rfl⟩ : ∃ extra, fuel = 2 * lines.length + 1 + extra := ⟨fuel - (2 * lines.length + 1), by omega⟩
  exact docLoop_vlines vf F hF lines e tail he st acc kp extra hok htop hr

/-! ## `parse_document` -/

open Octave.FlatParse (Frame skipWhitespace_stop skipWhitespace_newline)

/-- the token list of the document: envelope line, the lines, `===END===`, NEWLINE, EOF (frame positions arbitrary). -/
def vdocToks (f : Frame) (name : Str) (lines : List VLine) : List Token :=
  f.envTok name :: f.nl0Tok :: (lines.flatMap VLine.toks ++ [f.endTok, f.nl1Tok, f.eofTok])

def vdoc (name : Str) (lines : List VLine) : Document := { name := name, sections := lines.map VLine.node }

def vmetaFirst : List VLine → Bool
  | ln :: _ => ln.key == "META".toList
  | [] => false

theorem vlines_length_le (lines : List VLine) : lines.length ≤ (lines.flatMap VLine.toks).length := by
  induction lines with
  | nil => simp
  | cons ln r ih => simp only [List.flatMap_cons, List.length_append, List.length_cons, VLine.toks]; omega

theorem vbody_head (f : Frame) (lines : List VLine) (F : Nat) (hok : ∀ ln ∈ lines, ln.OK F) (hm : vmetaFirst lines = false) :
    ∃ u K, lines.flatMap VLine.toks ++ [f.endTok, f.nl1Tok, f.eofTok] = u :: K ∧
      u.type ≠ TT.newline ∧ u.type ≠ TT.comment ∧ u.type ≠ TT.separator ∧ u.type ≠ TT.grammarSentinel ∧
      u.type ≠ TT.envelopeStart ∧ ¬(u.type = TT.identifier ∧ u.value = TVal.str "META".toList) := by
  cases lines with
  | nil => exact ⟨f.endTok, _, rfl, by simp [Frame.endTok], by simp [Frame.endTok], by simp [Frame.endTok], by simp [Frame.endTok], by simp [Frame.endTok], fun h => by cases h.1⟩
  | cons ln r =>
    have h := hok ln (by simp)
    refine ⟨ln.kt, _, rfl, by simp [h.kt], by simp [h.kt], by simp [h.kt], by simp [h.kt], by simp [h.kt], fun hh => ?_⟩
    have h2 : ln.key = "META".toList := by
      have := hh.2; rw [h.kv] at this; simpa using this
    simp only [vmetaFirst, beq_eq_false_iff_ne, ne_eq] at hm
    exact hm h2

theorem parseDocument_vlines (f : Frame) (name : Str) (lines : List VLine) (F : Nat) (st : PState)
    (hok : ∀ ln ∈ lines, ln.OK F) (hF : F ≤ 2 * (vdocToks f name lines).length) (htop : Top st)
    (hm : vmetaFirst lines = false) (hr : st.rest = vdocToks f name lines) :
    ∃ st', parseDocument st = .ok (vdoc name lines, st') ∧ st'.warnings = (vdocWarns [] lines).reverse ++ st.warnings := by
  obtain ⟨u, K, hK, h1, h2, h3, h4, h5, h6⟩ := vbody_head f lines F hok hm
  have hlen : (vdocToks f name lines).length = K.length + 3 := by
    have := congrArg List.length hK
    simp only [vdocToks, List.length_cons, List.length_append, List.length_nil] at this ⊢
    omega
  have hlines : lines.length ≤ K.length + 1 := by
    have := congrArg List.length hK
    have h' := vlines_length_le lines
    simp only [List.length_cons, List.length_append, List.length_nil] at this
    omega
  have hst : st = { st with rest := f.envTok name :: f.nl0Tok :: u :: K } := by rw [← hK, ← vdocToks, ← hr]
  have t1 : (f.envTok name).type = .envelopeStart := rfl
  have t2 : (f.nl0Tok).type = .newline := rfl
  have t3 : (f.envTok name).value = .str name := rfl
  have t4 : (f.endTok).type = .envelopeEnd := rfl
  obtain ⟨stD, hD1, hD2, hD3⟩ := docLoop_vlines' (2 * ((f.envTok name :: f.nl0Tok :: u :: K).length + 2) + 10)
    (2 * (2 * ((f.envTok name :: f.nl0Tok :: u :: K).length + 2) + 10)) F
    (by simp only [List.length_cons]; omega) lines (by simp only [List.length_cons]; omega) f.endTok [f.nl1Tok, f.eofTok] (Or.inl rfl)
    { st with rest := u :: K, prev := some f.nl0Tok, pos := st.pos + 1 + 1 } [] [] hok htop hK.symm
  have hsD : stD = { stD with rest := [f.endTok, f.nl1Tok, f.eofTok] } := by rw [← hD2]
  refine ⟨{ stD with rest := [f.nl1Tok, f.eofTok], prev := some f.endTok, pos := stD.pos + 1 }, ?_, by rw [hD3]⟩
  rw [hst]
  unfold parseDocument
  simp (config := {zeta := false}) only [bind, StateT.bind, Except.bind, budget_mk]
  extract_lets n doc0 jp5 jp4 jp3 jp2 jp1
  step_simp [t1, t2, skipWhitespace_stop]
  simp only [jp1]
  step_simp [t1]
  simp only [jp2]
  step_simp [skipWhitespace_newline, pyStrVal_str, h1, h2, t1, t2, t3]
  simp only [jp3]
  step_simp [h6]
  simp only [jp4]
  step_simp [h3]
  simp only [jp5]
  step_simp []
  simp only [n]
  rw [hD1]
  simp only []
  rw [hsD]
  step_simp [t4, List.nil_append]
  rfl


/-! ## the two kinds of lines -/

/-- `KEY :: scalar NEWLINE`. -/
theorem vline_scalar_ok (kt a nl : Token) (key : Str) (v : FlatParse.Scalar) (l c : Nat)
    (hkt : kt.type = .identifier) (hkv : kt.value = .str key) (ha : a.type = .assign) (hnl : nl.type = .newline) :
    VLine.OK ⟨kt, key, a, v.tok l c, [], v.val, nl⟩ 2 := by
  refine ⟨hkt, hkv, ha, hnl, ?_⟩
  intro st k fuel _ hr hf
  obtain ⟨f, rfl⟩ : ∃ f, fuel = f + 2 := ⟨fuel - 2, by omega⟩
  have he : endsValue nl.type = true := by rw [hnl]; decide
  rw [FlatParse.parseValue_scalar st v l c nl k f he hr]
  rfl

/-- `KEY :: [ … ] NEWLINE` for a list of scalars in any layout. -/
theorem vline_list_ok (kt a nl : Token) (key : Str) (vs : List FlatParse.Scalar) (vt : Token) (vr : List Token)
    (h : ListToks vs (vt :: vr))
    (hkt : kt.type = .identifier) (hkv : kt.value = .str key) (ha : a.type = .assign) (hnl : nl.type = .newline) :
    VLine.OK ⟨kt, key, a, vt, vr, .list (vs.map FlatParse.Scalar.val), nl⟩ (vs.length + 6) := by
  refine ⟨hkt, hkv, ha, hnl, ?_⟩
  intro st k fuel htop hr hf
  have hr' : st.rest = (vt :: vr) ++ nl :: k := hr
  rw [parseValue_listToks h st nl k fuel hr' hf (by rw [htop.1]; omega) (by rw [htop.1]; simpa using htop.2)]
  rfl

/-- a list value never draws a warning from `parse_section`; nor does a quoted string, a number, a boolean, null. -/
theorem lineWarns_list (key : Str) (xs : List Value) (vt kt : Token) : lineWarns key (.list xs) vt kt = [] := rfl


end Octave.ListDocParse
