import Octave.Lemmas.Escape
/-! Lexing of a quoted string written by the emitter (pattern level). -/
namespace Octave
open Lexer Emitter Scan

theorem escape_head_ne_quote (s : Str) : (escape s).head? ≠ some '"' := by
  fun_induction escape s <;> simp_all

theorem lit_triple_quoted_none (s rest : Str) (h : rest.head? ≠ some '"') :
    lit ['"', '"', '"'] ('"' :: escape s ++ '"' :: rest) = none := by
  have hq := escape_head_ne_quote s
  cases hs : escape s with
  | nil =>
    cases rest with
    | nil => simp [lit]
    | cons r rs => simp at h; simp [lit]; exact fun e => h e.symm
  | cons c cs =>
    rw [hs] at hq; simp at hq
    simp [lit]; intro e; exact absurd e.symm hq

end Octave
