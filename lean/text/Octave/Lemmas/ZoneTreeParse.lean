/-
Parser half of the "document with literal zones anywhere" read theorem (C05): nested blocks whose children — and the
top level — mix `KEY::scalar` lines, ZONE ASSIGNMENTS and blocks, in any order, at any depth.  Extends
`Lemmas/BlockParse.lean` (blocks over lines) and `Lemmas/ZoneParse.lean` (zone assignments at top level).

Content model: `ZT` = `leaf p item` | `block p key children`, where `item` is a `ZoneParse.Item` (a flat line or a zone
assignment, each carrying its own ARBITRARY token positions) and `p : BlockParse.LPos` carries the arbitrary positions of
the node's INDENT token (`li`, `ci`; present at depth > 0 only) and, for a block, of its header tokens.  Token rendering:
`ZT.body d` (the node without its INDENT), `toksList d` (a forest, each node preceded by `INDENT(2·d)` when `d > 0` — the
INDENT VALUE is content).  A zone assignment at any depth is

    [INDENT(2·d)]  IDENTIFIER(key) ASSIGN NEWLINE FENCE_OPEN({marker, tag}) LITERAL_CONTENT(content) FENCE_CLOSE NEWLINE

— the lexer emits NO INDENT token in front of FENCE_OPEN (the fence span starts at the line start), and the parser never
looks at the column of this FENCE_OPEN: it is reached through `parse_value` (NEWLINE followed by FENCE_OPEN), which has no
indentation test.  (The column of a FENCE_OPEN is read only for BARE zones — a fence line that is itself a block child —
by `blockLoop`'s fence branch and the block-header path of `parse_section`; those are outside this content model.)

What is proved about the model's parser (`parseSection`, `blockLoop`, `docLoop`, `parseDocument`):

* `parseSection_item`     `parse_section` on a flat line or a zone assignment: the Assignment, cursor on the item's NEWLINE
* `SecOK` / `ChildOK` / `LoopOK`, `sec_of` / `child_of` / `loop_of`, `all_ok`   the three mutually dependent statements of
                          `BlockParse`, with items as leaves
* `parseSection_zblock`   `parse_section` on a block: exactly the children — zone assignments with exactly their content, tag
                          and marker —, cursor on the next line that is not deeper
* `blockLoop_zforest`, `docLoop_ztree`, `parseDocument_ztree`

Conditions (as in `BlockParse`): `colsOk` (the column of a block key is read as `block_indent`), `stopsAt` (what may follow
a block), `metaFirstZ` (a leading top-level `META`).  No condition on keys, markers, tags, contents.
-/
import Octave.Lemmas.BlockParse
import Octave.Lemmas.ZoneParse
namespace Octave.ZoneTreeParse
open Octave Parser FlatParse ZoneParse BlockParse

/-- evaluation of the parser monad on explicit states (as in `Lemmas/FlatParse.lean`). -/
local macro "step_simp" "[" ts:Lean.Parser.Tactic.simpLemma,* "]" : tactic =>
  `(tactic| simp only [bind, StateT.bind, Except.bind, pure, StateT.pure, Except.pure, current_mk, peek_mk, advance_mk,
      curType_mk, isAdjacentBracket_mk, budget_mk, warn_mk, get, getThe, MonadStateOf.get, StateT.get,
      Bool.false_eq_true, if_false, if_true, Bool.false_and, Bool.and_false, Bool.or_false, Bool.false_or,
      List.length_cons, List.length_nil, beq_iff_eq, bne_iff_ne, ne_eq, reduceCtorEq, not_true_eq_false, not_false_eq_true,
      Bool.and_eq_true, Bool.or_eq_true, Bool.not_eq_true', beq_eq_false_iff_ne, false_and, and_false, true_and, and_true,
      false_or, or_false, true_or, or_true, decide_eq_true_eq,
      beq_self_eq_true, Bool.true_or, Bool.or_true, Bool.true_and, Bool.and_true, Bool.not_true, Bool.not_false, $ts,*])

/-! ## Content model -/

/-- document content below the envelope: leaves (a `KEY::scalar` line or a zone assignment) and blocks `KEY:` with
children, any depth, any width; every node carries its own (arbitrary) token positions. -/
inductive ZT where
  | leaf (p : LPos) (it : Item)
  | block (p : LPos) (key : Str) (children : List ZT)

/-- the record holding the position of the node's INDENT token. -/
def ZT.ip : ZT → LPos
  | .leaf p _ => p
  | .block p _ _ => p

mutual
/-- tokens of a node at depth `d` WITHOUT its leading INDENT token. -/
def ZT.body : ZT → Nat → List Token
  | .leaf _ it, _ => it.toks
  | .block p key cs, d => hdrKeyTok key p :: hdrBlockTok p :: hdrNlTok p :: toksList cs (d + 1)
/-- tokens of a forest at depth `d`: every node with its INDENT token (if `d > 0`). -/
def toksList : List ZT → Nat → List Token
  | [], _ => []
  | c :: cs, d => BlockParse.indentToks d c.ip ++ (c.body d ++ toksList cs d)
end

mutual
/-- the AST node the reader must produce. -/
def ZT.node : ZT → Node
  | .leaf _ it => it.node
  | .block p key cs => .block key (nodeList cs) p.l p.c1 [] none
def nodeList : List ZT → List Node
  | [] => []
  | c :: cs => c.node :: nodeList cs
end

/-- duplicate-key bookkeeping of a child loop: only Assignment children (lines AND zone assignments) are tracked. -/
def trackNode (kp : KeyPos) (c : ZT) : KeyPos × List Warning :=
  match c with
  | .leaf _ it => trackPure kp it.key it.l
  | .block _ _ _ => (kp, [])

mutual
/-- warnings `parseSection` emits on the node, in emission order (a zone never gives one by itself). -/
def ZT.warns : ZT → List Warning
  | .leaf _ it => it.warns
  | .block _ _ cs => warnsList cs []
def warnsList : List ZT → KeyPos → List Warning
  | [], _ => []
  | c :: cs, kp => c.warns ++ ((trackNode kp c).2 ++ warnsList cs (trackNode kp c).1)
end

mutual
/-- the last token the loops consume for the node: always a NEWLINE. -/
def ZT.lastTok : ZT → Token
  | .leaf _ it => it.nlTok
  | .block p _ cs => lastTokList cs (hdrNlTok p)
def lastTokList : List ZT → Token → Token
  | [], dflt => dflt
  | c :: cs, _ => lastTokList cs c.lastTok
end

def prevAfterList (p : Option Token) (cs : List ZT) : Option Token :=
  match cs with
  | [] => p
  | c :: cs => some (lastTokList cs c.lastTok)

mutual
/-- the condition the code imposes on the COLUMN of block keys (`block_indent = key.column - 1`), as in `BlockParse`. -/
def ZT.colsOk : ZT → Nat → Bool
  | .leaf _ _, _ => true
  | .block p _ cs, d =>
    (if cs.isEmpty then decide (2 * d ≤ p.c1 - 1) else decide (p.c1 - 1 < 2 * (d + 1))) && colsOkList cs (d + 1)
def colsOkList : List ZT → Nat → Bool
  | [], _ => true
  | c :: cs, d => c.colsOk d && colsOkList cs d
end

/-! ## `parse_section` on a leaf -/

/-- **`parse_section` on a flat line or a zone assignment** (any positions): the Assignment; the cursor is left on the
item's final NEWLINE; the warnings are the item's (none for a zone). -/
theorem parseSection_item (st : PState) (it : Item) (k : List Token) (fuel : Nat) (hr : st.rest = it.toks ++ k) :
    parseSection (fuel + 3) [] st
      = .ok (some it.node, { st with rest := it.nlTok :: k, prev := some it.lastValTok, pos := st.pos + (it.toks.length - 1),
                                     warnings := it.warns ++ st.warnings }) := by
  cases it with
  | line ln => exact parseSection_flat_line st ln k fuel hr
  | zone z =>
    have h := parseSection_zone st z [] z.nlTok k (fuel + 1) (by simp [Zone.nlTok])
      (by rw [hr]; simp [Item.toks, Zone.toks])
    rw [h]
    simp only [Item.node, Item.nlTok, Item.lastValTok, Item.warns, Item.toks, Zone.toks, Zone.head, List.nil_append,
      List.length_append, List.length_cons, List.length_nil]

theorem item_toks_eq (it : Item) : ∃ a K, it.toks = it.keyTok :: a :: (K ++ [it.nlTok]) ∧ a.type = TT.assign := by
  cases it with
  | line ln => exact ⟨ln.assignTok, [ln.valTok], rfl, rfl⟩
  | zone z => exact ⟨z.assignTok, [z.nl0Tok, z.openTok, z.litTok, z.closeTok], rfl, rfl⟩

theorem item_nlTok_type (it : Item) : it.nlTok.type = TT.newline := by cases it <;> rfl

theorem item_toks_len (it : Item) : 4 ≤ it.toks.length := by
  cases it <;> simp [Item.toks, Line.toks, Zone.toks, Zone.head]

/-! ## The three mutually dependent statements, indexed by the fuel -/

def SecOK (F : Nat) : Prop :=
  ∀ (p : LPos) (key : Str) (cs : List ZT) (d : Nat) (st : PState) (e : Token) (k : List Token),
    st.rest = (ZT.block p key cs).body d ++ e :: k →
    stopsAt (2 * d + 1) e = true →
    (ZT.block p key cs).colsOk d = true →
    ((ZT.block p key cs).body d).length ≤ F →
    parseSection F [] st = .ok (some (ZT.block p key cs).node,
      { st with rest := e :: k, prev := some (ZT.block p key cs).lastTok,
                pos := st.pos + ((ZT.block p key cs).body d).length,
                warnings := (ZT.block p key cs).warns.reverse ++ st.warnings })

def ChildOK (F : Nat) : Prop :=
  ∀ (c : ZT) (cs : List ZT) (d li : Nat) (st : PState) (e : Token) (k : List Token) (acc : List Node) (kp : KeyPos),
    st.rest = c.body (d + 1) ++ (toksList cs (d + 1) ++ e :: k) →
    2 * (d + 1) ≤ li →
    stopsAt (2 * (d + 1)) e = true →
    c.colsOk (d + 1) = true → colsOkList cs (d + 1) = true →
    (c.body (d + 1)).length + (toksList cs (d + 1)).length + 1 ≤ F →
    blockLoop F (2 * (d + 1)) li [] acc kp st = .ok (acc ++ nodeList (c :: cs),
      { st with rest := e :: k, prev := some (lastTokList cs c.lastTok),
                pos := st.pos + ((c.body (d + 1)).length + (toksList cs (d + 1)).length),
                warnings := (warnsList (c :: cs) kp).reverse ++ st.warnings })

def LoopOK (F : Nat) : Prop :=
  ∀ (cs : List ZT) (d : Nat) (st : PState) (e : Token) (k : List Token) (acc : List Node) (kp : KeyPos),
    st.rest = toksList cs (d + 1) ++ e :: k →
    stopsAt (2 * (d + 1)) e = true →
    colsOkList cs (d + 1) = true →
    (toksList cs (d + 1)).length + 1 ≤ F →
    blockLoop F (2 * (d + 1)) 0 [] acc kp st = .ok (acc ++ nodeList cs,
      { st with rest := e :: k, prev := prevAfterList st.prev cs,
                pos := st.pos + (toksList cs (d + 1)).length,
                warnings := (warnsList cs kp).reverse ++ st.warnings })

theorem body_ne_nil (c : ZT) (d : Nat) (r : List Token) : c.body d ++ r ≠ [] := by
  cases c with
  | leaf p it => obtain ⟨a, K, h, _⟩ := item_toks_eq it; simp [ZT.body, h]
  | block p key cs => simp [ZT.body]

theorem loop_of (F : Nat) (ih : ∀ F' < F, ChildOK F') : LoopOK F := by
  intro cs d st e k acc kp hr hs hc hF
  obtain ⟨rest, p, n, la, w, dp, wd, s, th, al⟩ := st
  simp only at hr
  subst hr
  obtain ⟨F', rfl⟩ : ∃ F', F = F' + 1 := ⟨F - 1, by omega⟩
  cases cs with
  | nil =>
    simp only [toksList, List.nil_append]
    rw [blockLoop_stop (hci := by omega) (hs := hs)]
    simp only [nodeList, List.append_nil, prevAfterList, List.length_nil, Nat.add_zero, warnsList, List.reverse_nil, List.nil_append]
  | cons c cs =>
    simp only [toksList, BlockParse.indentToks, List.cons_append, List.nil_append, List.append_assoc, colsOkList, Bool.and_eq_true,
      List.length_cons, List.length_append] at hF hc ⊢
    rw [blockLoop]
    step_simp [indentTok, Nat.lt_irrefl]
    rw [advance_ne (h := body_ne_nil c (d + 1) _)]
    simp only []
    rw [ih F' (Nat.lt_succ_self _) c cs d (2 * (d + 1)) _ e k acc kp rfl (Nat.le_refl _) hs hc.1 hc.2 (by omega)]
    simp only [prevAfterList]
    have hp : n + 1 + ((c.body (d + 1)).length + (toksList cs (d + 1)).length)
        = n + ((c.body (d + 1)).length + (toksList cs (d + 1)).length + 1) := by omega
    rw [hp]

/-- the first token after a node at depth `d` (a sibling's INDENT or key, or what follows the forest) `stopsAt` depth `d`. -/
theorem cont_head (cs : List ZT) (d : Nat) (e : Token) (k : List Token) (hs : stopsAt (2 * d + 1) e = true) :
    ∃ e' k', toksList cs d ++ e :: k = e' :: k' ∧ stopsAt (2 * d + 1) e' = true := by
  cases cs with
  | nil => exact ⟨e, k, rfl, hs⟩
  | cons c cs =>
    cases d with
    | zero =>
      cases c with
      | leaf p it =>
        obtain ⟨a, K, h, _⟩ := item_toks_eq it
        exact ⟨it.keyTok, _, by simp only [toksList, BlockParse.indentToks, ZT.body, h, List.nil_append, List.cons_append]; rfl,
          by simp [stopsAt, Item.keyTok]⟩
      | block p key cs' => exact ⟨_, _, rfl, by simp [stopsAt, hdrKeyTok]⟩
    | succ d => exact ⟨_, _, rfl, by simp [stopsAt, indentTok, indentVal]⟩

theorem prevAfterList_some (t : Token) (cs : List ZT) : prevAfterList (some t) cs = some (lastTokList cs t) := by
  cases cs <;> rfl

theorem prevAfterList_cons (p : Option Token) (c : ZT) (cs : List ZT) :
    prevAfterList p (c :: cs) = some (lastTokList cs c.lastTok) := rfl

theorem child_of (F : Nat) (ihS : ∀ F' < F, SecOK F') (ihL : ∀ F' < F, LoopOK F') : ChildOK F := by
  intro c cs d li st e k acc kp hr hli hs hc hcs hF
  have hnlt : ¬ li < 2 * (d + 1) := by omega
  cases c with
  | leaf lp it =>
    obtain ⟨rest, p, n, la, w, dp, wd, s, th, al⟩ := st
    simp only at hr
    subst hr
    obtain ⟨a, K, htk, ha⟩ := item_toks_eq it
    have hlen := item_toks_len it
    simp only [ZT.body] at hF ⊢
    obtain ⟨G, rfl⟩ : ∃ G, F = G + 5 := ⟨F - 5, by omega⟩
    have hsec := parseSection_item
      { rest := it.toks ++ (toksList cs (d + 1) ++ e :: k), prev := p, pos := n, last := la, warnings := w, depth := dp, warned := wd,
        strict := s, threshold := th, alpha := al } it (toksList cs (d + 1) ++ e :: k) (G + 1) rfl
    rw [blockLoop]
    rw [htk] at hsec ⊢
    simp only [List.cons_append] at hsec ⊢
    step_simp [Item.keyTok, hnlt]
    simp only [Item.keyTok] at hsec
    rw [hsec]
    cases it with
    | line ln =>
      step_simp [Item.node, Line.node, nodeAssignKey?, trackKey_eq]
      rw [blockLoop]
      step_simp [Item.nlTok, Line.nlTok]
      rw [advance_ne (h := by simp)]
      simp only []
      rw [ihL (G + 3) (by omega) cs d _ e k _ _ rfl hs hcs (by simp only [Item.toks, Line.toks, List.length_cons, List.length_nil] at hF; omega)]
      simp only [nodeList, ZT.node, ZT.lastTok, Item.node, Item.nlTok, Item.key, Item.l, Item.warns, Line.node, Line.nlTok,
        warnsList, ZT.warns, trackNode,
        prevAfterList_some, List.append_assoc, List.cons_append, List.nil_append, List.reverse_append,
        trackPure_warns_reverse, Line.warns_reverse]
      apply ok_pos_congr
      omega
    | zone z =>
      step_simp [Item.node, Zone.node, nodeAssignKey?, trackKey_eq]
      rw [blockLoop]
      step_simp [Item.nlTok, Zone.nlTok]
      rw [advance_ne (h := by simp)]
      simp only []
      rw [ihL (G + 3) (by omega) cs d _ e k _ _ rfl hs hcs (by simp only [Item.toks, Zone.toks, Zone.head, List.length_append, List.length_cons, List.length_nil] at hF; omega)]
      simp only [nodeList, ZT.node, ZT.lastTok, Item.node, Item.nlTok, Item.key, Item.l, Item.warns, Zone.node, Zone.nlTok,
        warnsList, ZT.warns, trackNode,
        prevAfterList_some, List.append_assoc, List.cons_append, List.nil_append, List.reverse_append,
        trackPure_warns_reverse, List.length_cons, List.length_nil, List.length_append]
      apply ok_pos_congr
      omega
  | block bp key' cs' =>
    obtain ⟨e', k', hek, hs'⟩ := cont_head cs (d + 1) e k (stopsAt_mono (by omega) hs)
    rw [hek] at hr
    obtain ⟨rest, p, n, la, w, dp, wd, s, th, al⟩ := st
    simp only at hr
    subst hr
    obtain ⟨F', rfl⟩ : ∃ F', F = F' + 1 := ⟨F - 1, by omega⟩
    have hlen3 : 3 ≤ ((ZT.block bp key' cs').body (d + 1)).length := by
      simp only [ZT.body, List.length_cons]; omega
    have hsec := ihS F' (Nat.lt_succ_self _) bp key' cs' (d + 1)
      { rest := (ZT.block bp key' cs').body (d + 1) ++ e' :: k', prev := p, pos := n, last := la, warnings := w, depth := dp,
        warned := wd, strict := s, threshold := th, alpha := al } e' k' rfl hs' hc (by omega)
    rw [blockLoop]
    simp only [ZT.body, List.cons_append] at hsec ⊢
    step_simp [hdrKeyTok, hnlt]
    simp only [hdrKeyTok] at hsec
    rw [hsec]
    step_simp [ZT.node, nodeAssignKey?]
    rw [ihL F' (Nat.lt_succ_self _) cs d _ e k _ _ hek.symm hs hcs (by omega)]
    simp only [nodeList, ZT.node, ZT.lastTok, warnsList, ZT.warns, trackNode,
      prevAfterList_some, List.append_assoc, List.cons_append, List.nil_append, List.reverse_append, Nat.add_assoc]

/-- `advance` over a token followed by the tokens of a node. -/
theorem advance_body (c : ZT) (d' : Nat) (X : List Token) (t : Token) (p : Option Token) (n : Nat) (la : Token)
    (w : List Warning) (d : Nat) (wd : List Nat) (s : Bool) (th : Nat) (al : Char → Bool) :
    advance { rest := t :: (c.body d' ++ X), prev := p, pos := n, last := la, warnings := w, depth := d, warned := wd, strict := s, threshold := th, alpha := al }
      = .ok (t, { rest := c.body d' ++ X, prev := some t, pos := n + 1, last := la, warnings := w, depth := d, warned := wd, strict := s, threshold := th, alpha := al }) :=
  advance_ne (h := body_ne_nil c d' X) ..

theorem sec_of (F : Nat) (ih : ∀ F' < F, ChildOK F') : SecOK F := by
  intro bp key cs d st e k hr hs hc hF
  obtain ⟨rest, p, n, la, w, dp, wd, s, th, al⟩ := st
  simp only at hr
  subst hr
  have hs0 := hs
  simp only [stopsAt, Bool.and_eq_true, Bool.or_eq_true, bne_iff_ne, ne_eq, decide_eq_true_eq] at hs0
  obtain ⟨⟨⟨h1, h2⟩, h3⟩, h4⟩ := hs0
  cases cs with
  | nil =>
    simp only [ZT.colsOk, List.isEmpty_nil, if_true, colsOkList, Bool.and_true, decide_eq_true_eq] at hc
    simp only [ZT.body, toksList, List.cons_append, List.nil_append, List.length_cons, List.length_nil] at hF ⊢
    obtain ⟨F', rfl⟩ : ∃ F', F = F' + 1 := ⟨F - 1, by omega⟩
    rw [parseSection]
    step_simp [hdrKeyTok, hdrBlockTok, hdrNlTok, pyStrVal_str]
    rw [skipWhitespace_newline (h := rfl) (h1 := h1) (h2 := h2)]
    step_simp []
    rw [preIndentComments_stop (h1 := h2) (h2 := h1)]
    step_simp []
    have hfin : n + 1 + 1 + 1 = n + (0 + 1 + 1 + 1) := by omega
    by_cases hi : e.type = TT.indent
    · have h5 : indentVal e < 2 * d + 1 := by
        rcases h4 with h | h
        · exact absurd hi h
        · exact h
      cases hv : e.value with
      | nat m =>
        simp only [indentVal, hv] at h5
        have h6 : ¬ (m > bp.c1 - 1) := by omega
        step_simp [hi, h3, h6, set_mk, decide_false, eq_self, Option.isSome_none]
        simp only [ZT.node, nodeList, ZT.lastTok, lastTokList, ZT.warns, warnsList, List.reverse_nil, List.nil_append, hdrNlTok, hfin]
      | _ =>
        step_simp [hi, h3, set_mk, decide_false, eq_self, Option.isSome_none, gt_iff_lt, Nat.not_lt_zero]
        simp only [ZT.node, nodeList, ZT.lastTok, lastTokList, ZT.warns, warnsList, List.reverse_nil, List.nil_append, hdrNlTok, hfin]
    · have hib : (e.type == TT.indent) = false := by simp [hi]
      step_simp [hi, hib, h3, set_mk, decide_false, eq_self, Option.isSome_none]
      simp only [ZT.node, nodeList, ZT.lastTok, lastTokList, ZT.warns, warnsList, List.reverse_nil, List.nil_append, hdrNlTok, hfin]
  | cons c cs =>
    simp only [ZT.colsOk, List.isEmpty_cons, Bool.false_eq_true, if_false, colsOkList, Bool.and_eq_true, decide_eq_true_eq] at hc
    obtain ⟨hc1, hc2, hc3⟩ := hc
    simp only [ZT.body, toksList, BlockParse.indentToks, List.cons_append, List.nil_append, List.append_assoc, List.length_cons,
      List.length_append] at hF ⊢
    obtain ⟨F', rfl⟩ : ∃ F', F = F' + 1 := ⟨F - 1, by omega⟩
    rw [parseSection]
    step_simp [hdrKeyTok, hdrBlockTok, hdrNlTok, pyStrVal_str]
    rw [skipWhitespace_newline (h := rfl) (h1 := by simp [indentTok]) (h2 := by simp [indentTok])]
    step_simp []
    rw [preIndentComments_stop (h1 := by simp [indentTok]) (h2 := by simp [indentTok])]
    have h6 : 2 * (d + 1) > bp.c1 - 1 := hc1
    step_simp [indentTok, h6, decide_true, Option.isSome_none, advance_body]
    rw [ih F' (Nat.lt_succ_self _) c cs d (2 * (d + 1)) _ e k [] [] rfl (Nat.le_refl _)
      (stopsAt_mono (by omega) hs) hc2 hc3 (by omega)]
    simp only [ZT.node, nodeList, ZT.lastTok, lastTokList, ZT.warns, warnsList, List.nil_append]
    have hp : n + 1 + 1 + 1 + 1 + ((c.body (d + 1)).length + (toksList cs (d + 1)).length)
        = n + ((c.body (d + 1)).length + (toksList cs (d + 1)).length + 1 + 1 + 1 + 1) := by omega
    rw [hp]

theorem all_ok (F : Nat) : SecOK F ∧ ChildOK F ∧ LoopOK F := by
  induction F using Nat.strongRecOn with
  | _ F ih =>
    have hC : ∀ F' < F, ChildOK F' := fun F' h => (ih F' h).2.1
    exact ⟨sec_of F hC, child_of F (fun F' h => (ih F' h).1) (fun F' h => (ih F' h).2.2), loop_of F hC⟩

/-- **`parse_section` on a block whose descendants mix lines, zone assignments and blocks** — any depth and width, at
any depth `d`, at arbitrary token positions (the key column subject to `colsOk`), followed by a token `e` that is not
deeper than the block: the Block node with exactly the children, every zone assignment carrying exactly the content, tag
and marker of its tokens; the cursor is left on `e`; `warnings` grows by exactly `warns`. -/
theorem parseSection_zblock (p : LPos) (key : Str) (cs : List ZT) (d : Nat) (st : PState) (e : Token) (k : List Token)
    (F : Nat) (hr : st.rest = (ZT.block p key cs).body d ++ e :: k) (hs : stopsAt (2 * d + 1) e = true)
    (hc : (ZT.block p key cs).colsOk d = true) (hF : ((ZT.block p key cs).body d).length ≤ F) :
    parseSection F [] st = .ok (some (ZT.block p key cs).node,
      { st with rest := e :: k, prev := some (ZT.block p key cs).lastTok,
                pos := st.pos + ((ZT.block p key cs).body d).length,
                warnings := (ZT.block p key cs).warns.reverse ++ st.warnings }) :=
  (all_ok F).1 p key cs d st e k hr hs hc hF

/-- **the child loop of a block** from the start of a line, on any forest of children at depth `d + 1`. -/
theorem blockLoop_zforest (cs : List ZT) (d : Nat) (st : PState) (e : Token) (k : List Token)
    (acc : List Node) (kp : KeyPos) (F : Nat)
    (hr : st.rest = toksList cs (d + 1) ++ e :: k) (hs : stopsAt (2 * (d + 1)) e = true)
    (hc : colsOkList cs (d + 1) = true) (hF : (toksList cs (d + 1)).length + 1 ≤ F) :
    blockLoop F (2 * (d + 1)) 0 [] acc kp st = .ok (acc ++ nodeList cs,
      { st with rest := e :: k, prev := prevAfterList st.prev cs,
                pos := st.pos + (toksList cs (d + 1)).length,
                warnings := (warnsList cs kp).reverse ++ st.warnings }) :=
  (all_ok F).2.2 cs d st e k acc kp hr hs hc hF


/-! ## The body loop of `parseDocument` on a forest (lines, zone assignments and blocks mixed) -/

theorem docLoop_ztree (vf : Nat) (nodes : List ZT) (e : Token) (tail : List Token)
    (he : e.type = .envelopeEnd ∨ e.type = .eof) (st : PState) (acc : List Node) (kp : KeyPos) (extra : Nat)
    (hr : st.rest = toksList nodes 0 ++ e :: tail)
    (hc : colsOkList nodes 0 = true)
    (hvf : (toksList nodes 0).length + 3 ≤ vf) :
    docLoop vf (2 * nodes.length + 1 + extra) [] acc kp st
      = .ok ((acc ++ nodeList nodes, []),
             { st with rest := e :: tail, prev := prevAfterList st.prev nodes,
                       pos := st.pos + (toksList nodes 0).length,
                       warnings := (warnsList nodes kp).reverse ++ st.warnings }) := by
  have hse : stopsAt 1 e = true := by
    rcases he with h | h <;> simp [stopsAt, h]
  induction nodes generalizing st acc kp extra with
  | nil =>
    obtain ⟨rest, p, n, la, w, dp, wd, s, th, al⟩ := st
    simp only [toksList, List.nil_append] at hr
    subst hr
    have hf : 2 * ([] : List ZT).length + 1 + extra = extra + 1 := by simp only [List.length_nil]; omega
    rw [hf, docLoop]
    step_simp [he]
    simp only [nodeList, List.append_nil, prevAfterList, toksList, List.length_nil, Nat.add_zero, warnsList, List.reverse_nil,
      List.nil_append]
  | cons c r ih =>
    have hf : 2 * (c :: r).length + 1 + extra = (2 * r.length + 1 + extra) + 1 + 1 := by
      simp only [List.length_cons]; omega
    simp only [colsOkList, Bool.and_eq_true] at hc
    rw [hf]
    cases c with
    | leaf lp it =>
      obtain ⟨rest, p, n, la, w, dp, wd, s, th, al⟩ := st
      simp only at hr
      subst hr
      obtain ⟨a, K, htk, ha⟩ := item_toks_eq it
      have hlen := item_toks_len it
      simp only [toksList, BlockParse.indentToks, ZT.body, List.nil_append, List.length_append] at hvf ⊢
      obtain ⟨vf0, rfl⟩ : ∃ vf0, vf = vf0 + 3 := ⟨vf - 3, by omega⟩
      have hsec := parseSection_item
        { rest := it.toks ++ (toksList r 0 ++ e :: tail), prev := p, pos := n, last := la, warnings := w, depth := dp, warned := wd,
          strict := s, threshold := th, alpha := al } it (toksList r 0 ++ e :: tail) vf0 rfl
      rw [docLoop]
      rw [htk] at hsec
      rw [List.append_assoc, htk]
      simp only [List.cons_append] at hsec ⊢
      step_simp [Item.keyTok]
      simp only [Item.keyTok] at hsec
      rw [hsec]
      cases it with
      | line ln =>
        step_simp [Item.node, Line.node, nodeAssignKey?, trackKey_eq]
        rw [docLoop]
        step_simp [Item.nlTok, Line.nlTok]
        rw [advance_ne (h := by simp)]
        simp only []
        rw [ih _ _ _ extra rfl hc.2 (by omega)]
        simp only [nodeList, ZT.node, ZT.lastTok, Item.node, Item.nlTok, Item.key, Item.l, Item.warns, Line.node, Line.nlTok,
          warnsList, ZT.warns, trackNode,
          prevAfterList_some, prevAfterList_cons, List.append_assoc, List.cons_append, List.nil_append, List.reverse_append,
          trackPure_warns_reverse, Line.warns_reverse]
        apply ok_pos_congr
        simp only [List.length_cons, List.length_nil, List.length_append]
        omega
      | zone z =>
        step_simp [Item.node, Zone.node, nodeAssignKey?, trackKey_eq]
        rw [docLoop]
        step_simp [Item.nlTok, Zone.nlTok]
        rw [advance_ne (h := by simp)]
        simp only []
        rw [ih _ _ _ extra rfl hc.2 (by omega)]
        simp only [nodeList, ZT.node, ZT.lastTok, Item.node, Item.nlTok, Item.key, Item.l, Item.warns, Zone.node, Zone.nlTok,
          warnsList, ZT.warns, trackNode,
          prevAfterList_some, prevAfterList_cons, List.append_assoc, List.cons_append, List.nil_append, List.reverse_append,
          trackPure_warns_reverse]
        apply ok_pos_congr
        simp only [List.length_cons, List.length_nil, List.length_append]
        omega
    | block bp key cs =>
      obtain ⟨e', k', hek, hs'⟩ := cont_head r 0 e tail hse
      simp only [toksList, BlockParse.indentToks, List.nil_append, List.append_assoc] at hr hvf
      rw [hek] at hr
      obtain ⟨rest, p, n, la, w, dp, wd, s, th, al⟩ := st
      simp only at hr
      subst hr
      have hsec := parseSection_zblock bp key cs 0
        { rest := (ZT.block bp key cs).body 0 ++ e' :: k', prev := p, pos := n, last := la, warnings := w, depth := dp,
          warned := wd, strict := s, threshold := th, alpha := al } e' k' vf rfl hs' hc.1
          (by simp only [List.length_append] at hvf; omega)
      rw [docLoop]
      simp only [ZT.body, List.cons_append] at hsec ⊢
      step_simp [hdrKeyTok]
      simp only [hdrKeyTok] at hsec
      rw [hsec]
      step_simp [ZT.node, nodeAssignKey?]
      have hfm : 2 * r.length + 1 + extra + 1 = 2 * r.length + 1 + (extra + 1) := by omega
      rw [hfm, ih _ _ _ (extra + 1) hek.symm hc.2
        (by simp only [List.length_append] at hvf; omega)]
      simp only [nodeList, ZT.node, ZT.lastTok, warnsList, ZT.warns, trackNode, toksList, BlockParse.indentToks, ZT.body,
        prevAfterList_some, prevAfterList_cons, List.append_assoc, List.cons_append, List.nil_append, List.reverse_append,
        List.length_cons, List.length_append]
      apply ok_pos_congr
      omega

/-- `docLoop_ztree` with fuel given by lower bounds. -/
theorem docLoop_ztree' (vf fuel : Nat) (nodes : List ZT) (e : Token) (tail : List Token)
    (he : e.type = .envelopeEnd ∨ e.type = .eof) (st : PState) (acc : List Node) (kp : KeyPos)
    (hr : st.rest = toksList nodes 0 ++ e :: tail)
    (hc : colsOkList nodes 0 = true)
    (hvf : (toksList nodes 0).length + 3 ≤ vf) (hfuel : 2 * nodes.length + 1 ≤ fuel) :
    docLoop vf fuel [] acc kp st
      = .ok ((acc ++ nodeList nodes, []),
             { st with rest := e :: tail, prev := prevAfterList st.prev nodes,
                       pos := st.pos + (toksList nodes 0).length,
                       warnings := (warnsList nodes kp).reverse ++ st.warnings }) := by
  obtain ⟨extra, rfl⟩ : ∃ extra, fuel = 2 * nodes.length + 1 + extra := ⟨fuel - (2 * nodes.length + 1), by omega⟩
  exact docLoop_ztree vf nodes e tail he st acc kp extra hr hc hvf

/-- every node has at least one token. -/
theorem length_le_toks (nodes : List ZT) (d : Nat) : nodes.length ≤ (toksList nodes d).length := by
  induction nodes with
  | nil => simp [toksList]
  | cons c r ih =>
    have hb : 1 ≤ (c.body d).length := by
      cases c with
      | leaf p it => have := item_toks_len it; simp only [ZT.body]; omega
      | block p key cs => simp [ZT.body]
    simp only [toksList, List.length_append, List.length_cons]
    omega

/-! ## `parseDocument` on a whole document -/

/-- the token list: envelope line, the forest at depth 0, `===END===`. -/
def ztreeToks (f : Frame) (name : Str) (nodes : List ZT) : List Token :=
  f.envTok name :: f.nl0Tok :: (toksList nodes 0 ++ [f.endTok, f.nl1Tok, f.eofTok])

/-- the document it denotes (all other fields at their defaults). -/
def ztreeDoc (name : Str) (nodes : List ZT) : Document := { name := name, sections := nodeList nodes }

def ZT.key : ZT → Str
  | .leaf _ it => it.key
  | .block _ key _ => key

/-- the first top-level key is `META` (then `parse_document` reads a META block, not a section). -/
def metaFirstZ : List ZT → Bool
  | c :: _ => c.key == "META".toList
  | [] => false

theorem ztree_body_head (f : Frame) (nodes : List ZT) (hm : metaFirstZ nodes = false) :
    ∃ u K, toksList nodes 0 ++ [f.endTok, f.nl1Tok, f.eofTok] = u :: K ∧
      u.type ≠ TT.newline ∧ u.type ≠ TT.comment ∧ u.type ≠ TT.separator ∧ u.type ≠ TT.grammarSentinel ∧
      u.type ≠ TT.envelopeStart ∧ ¬(u.type = TT.identifier ∧ u.value = TVal.str "META".toList) := by
  cases nodes with
  | nil => exact ⟨f.endTok, _, rfl, by simp [Frame.endTok], by simp [Frame.endTok], by simp [Frame.endTok], by simp [Frame.endTok], by simp [Frame.endTok], fun h => by cases h.1⟩
  | cons c r =>
    simp only [metaFirstZ, beq_eq_false_iff_ne, ne_eq] at hm
    cases c with
    | leaf p it =>
      obtain ⟨a, K, htk, _⟩ := item_toks_eq it
      refine ⟨it.keyTok, _, by simp only [toksList, BlockParse.indentToks, ZT.body, htk, List.nil_append, List.cons_append]; rfl,
        by simp [Item.keyTok], by simp [Item.keyTok], by simp [Item.keyTok], by simp [Item.keyTok], by simp [Item.keyTok], fun h => ?_⟩
      have := h.2
      simp only [Item.keyTok, TVal.str.injEq] at this
      exact hm this
    | block p key cs =>
      refine ⟨hdrKeyTok key p, _, rfl, by simp [hdrKeyTok], by simp [hdrKeyTok], by simp [hdrKeyTok], by simp [hdrKeyTok], by simp [hdrKeyTok], fun h => ?_⟩
      have := h.2
      simp only [hdrKeyTok, TVal.str.injEq] at this
      exact hm this

/-- **`parse_document` on a document whose body mixes lines, zone assignments and blocks at any depth**, from any state
positioned on its tokens: exactly `ztreeDoc`; the cursor ends on the NEWLINE after `===END===`; the warnings are
`warnsList nodes []`.  Conditions: the first top-level key is not `META`; `colsOkList` (block key columns).  The parser's
own fuel (`2·(tokens+2)+10`) is shown to suffice. -/
theorem parseDocument_ztree (f : Frame) (name : Str) (nodes : List ZT) (st : PState)
    (hm : metaFirstZ nodes = false) (hc : colsOkList nodes 0 = true) (hr : st.rest = ztreeToks f name nodes) :
    parseDocument st
      = .ok (ztreeDoc name nodes,
             { st with rest := [f.nl1Tok, f.eofTok], prev := some f.endTok, pos := st.pos + (toksList nodes 0).length + 3,
                       warnings := (warnsList nodes []).reverse ++ st.warnings }) := by
  obtain ⟨u, K, hK, h1, h2, h3, h4, h5, h6⟩ := ztree_body_head f nodes hm
  have hlen : (toksList nodes 0).length + 2 = K.length := by
    have := congrArg List.length hK
    simp only [List.length_append, List.length_cons, List.length_nil] at this
    omega
  have hnl := length_le_toks nodes 0
  have hst : st = { st with rest := f.envTok name :: f.nl0Tok :: u :: K } := by rw [← hK, ← ztreeToks, ← hr]
  rw [hst]
  unfold parseDocument
  simp (config := {zeta := false}) only [bind, StateT.bind, Except.bind, budget_mk]
  extract_lets n doc0 jp5 jp4 jp3 jp2 jp1
  step_simp [Frame.envTok, Frame.nl0Tok, skipWhitespace_stop]
  simp only [jp1]
  step_simp []
  simp only [jp2]
  step_simp [skipWhitespace_newline, pyStrVal_str, h1, h2]
  simp only [jp3]
  step_simp [h6]
  simp only [jp4]
  step_simp [h3]
  simp only [jp5]
  step_simp []
  rw [docLoop_ztree' (nodes := nodes) (e := f.endTok) (tail := [f.nl1Tok, f.eofTok]) (he := Or.inl rfl)
    (hr := hK.symm) (hc := hc)
    (hvf := by simp only [n, List.length_cons]; omega) (hfuel := by simp only [n, List.length_cons]; omega)]
  step_simp [Frame.endTok]
  have hp : st.pos + 1 + 1 + (toksList nodes 0).length + 1 = st.pos + (toksList nodes 0).length + 3 := by omega
  rw [hp, List.nil_append]
  rfl

/-! ## The lexer's columns satisfy `colsOk` -/

mutual
/-- every block key sits right after its indentation: `column = 2·d + 1` (what the lexer produces). -/
def ZT.canonCols : ZT → Nat → Bool
  | .leaf _ _, _ => true
  | .block p _ cs, d => decide (p.c1 = 2 * d + 1) && canonColsList cs (d + 1)
def canonColsList : List ZT → Nat → Bool
  | [], _ => true
  | c :: cs, d => c.canonCols d && canonColsList cs d
end

mutual
theorem colsOk_of_canon : ∀ (c : ZT) (d : Nat), c.canonCols d = true → c.colsOk d = true
  | .leaf _ _, _, _ => rfl
  | .block p _ cs, d, h => by
    simp only [ZT.canonCols, Bool.and_eq_true, decide_eq_true_eq] at h
    simp only [ZT.colsOk, Bool.and_eq_true, colsOkList_of_canon cs (d + 1) h.2, and_true]
    split <;> simp only [decide_eq_true_eq] <;> omega
theorem colsOkList_of_canon : ∀ (cs : List ZT) (d : Nat), canonColsList cs d = true → colsOkList cs d = true
  | [], _, _ => rfl
  | c :: cs, d, h => by
    simp only [canonColsList, Bool.and_eq_true] at h
    simp only [colsOkList, Bool.and_eq_true]
    exact ⟨colsOk_of_canon c d h.1, colsOkList_of_canon cs d h.2⟩
end

/-! ## Boolean equality on documents with blocks and zones (for closed `decide` checks) -/

mutual
def nodeEqZT : Node → Node → Bool
  | .assign k v l c ld tr, .assign k' v' l' c' ld' tr' =>
    k == k' && valEqZ v v' && l == l' && c == c' && ld == ld' && tr == tr'
  | .block k ch l c ld tg, .block k' ch' l' c' ld' tg' =>
    k == k' && nodesEqZT ch ch' && l == l' && c == c' && ld == ld' && tg == tg'
  | _, _ => false
def nodesEqZT : List Node → List Node → Bool
  | [], [] => true
  | a :: as, b :: bs => nodeEqZT a b && nodesEqZT as bs
  | _, _ => false
end

mutual
theorem nodeEqZT_sound : ∀ {a b : Node}, nodeEqZT a b = true → a = b
  | .assign .., .assign .., h => by
    simp only [nodeEqZT, Bool.and_eq_true, beq_iff_eq] at h
    obtain ⟨⟨⟨⟨⟨h1, h2⟩, h3⟩, h4⟩, h5⟩, h6⟩ := h
    rw [h1, valEqZ_sound h2, h3, h4, h5, h6]
  | .block _ ch .., .block _ ch' .., h => by
    simp only [nodeEqZT, Bool.and_eq_true, beq_iff_eq] at h
    obtain ⟨⟨⟨⟨⟨h1, h2⟩, h3⟩, h4⟩, h5⟩, h6⟩ := h
    rw [h1, nodesEqZT_sound h2, h3, h4, h5, h6]
  | .assign .., .block .., h => by simp [nodeEqZT] at h
  | .assign .., .sect .., h => by simp [nodeEqZT] at h
  | .assign .., .comment .., h => by simp [nodeEqZT] at h
  | .block .., .assign .., h => by simp [nodeEqZT] at h
  | .block .., .sect .., h => by simp [nodeEqZT] at h
  | .block .., .comment .., h => by simp [nodeEqZT] at h
  | .sect .., _, h => by simp [nodeEqZT] at h
  | .comment .., _, h => by simp [nodeEqZT] at h
theorem nodesEqZT_sound : ∀ {a b : List Node}, nodesEqZT a b = true → a = b
  | [], [], _ => rfl
  | [], _ :: _, h => by simp [nodesEqZT] at h
  | _ :: _, [], h => by simp [nodesEqZT] at h
  | a :: as, b :: bs, h => by
    simp only [nodesEqZT, Bool.and_eq_true] at h
    rw [nodeEqZT_sound h.1, nodesEqZT_sound h.2]
end

def docEqZT (a b : Document) : Bool :=
  a.name == b.name && a.metaKv.isEmpty && b.metaKv.isEmpty && a.hasSeparator == b.hasSeparator &&
  nodesEqZT a.sections b.sections && a.grammarVersion == b.grammarVersion &&
  a.rawFrontmatter == b.rawFrontmatter && a.trailingComments == b.trailingComments

theorem docEqZT_sound {a b : Document} (h : docEqZT a b = true) : a = b := by
  obtain ⟨n, m, hs, s, g, rf, tc⟩ := a
  obtain ⟨n', m', hs', s', g', rf', tc'⟩ := b
  simp only [docEqZT, Bool.and_eq_true, beq_iff_eq, List.isEmpty_iff] at h
  obtain ⟨⟨⟨⟨⟨⟨⟨h1, h2⟩, h3⟩, h4⟩, h5⟩, h6⟩, h7⟩, h8⟩ := h
  rw [h1, h2, h3, h4, nodesEqZT_sound h5, h6, h7, h8]

/-- Boolean test `r = .ok d`. -/
def isOkDocZT (r : Except Exc Document) (d : Document) : Bool :=
  match r with | .ok x => docEqZT x d | .error _ => false

theorem isOkDocZT_sound {r : Except Exc Document} {d : Document} (h : isOkDocZT r d = true) : r = .ok d := by
  cases r with
  | error e => simp [isOkDocZT] at h
  | ok x => rw [docEqZT_sound (a := x) (b := d) h]

end Octave.ZoneTreeParse
