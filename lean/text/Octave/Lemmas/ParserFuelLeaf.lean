import Lean.Elab.Tactic
import Octave.Lemmas.ParserWp
/-!
C20, parser side: **no hang** — the symbolic-execution tactic and the leaf loops.

Every loop of `ParserBase` / `ParserValue` that is driven by `budget` (= remaining tokens + 2) is shown not to run
out of fuel whenever `cB rest < fuel`: each iteration either stops or advances over a non-EOF token.
-/
namespace Octave
namespace Parser

-- the proofs below execute every path of large `do` blocks symbolically: 5× the default budget, so that no proof
-- sits at the edge of the deterministic timeout
set_option maxHeartbeats 1000000

/-- monotone step: the invariant is kept and neither measure grows. -/
structure Le (r r' : List Token) : Prop where
  eof : EofEnd r'
  a : cA r' ≤ cA r
  b : cB r' ≤ cB r

theorem Le.refl {r : List Token} (h : EofEnd r) : Le r r := ⟨h, Nat.le_refl _, Nat.le_refl _⟩

/-- the token cursor did not move. -/
structure Same (r r' : List Token) : Prop where
  eq : r' = r

/-- `advance` over a token known not to be EOF. -/
theorem wpr_advanceB {r : List Token} {Q : Token → List Token → Prop} (he : EofEnd r)
    (hw : 1 ≤ wtB (hd r).type)
    (h : ∀ r', AdvRel r r' → wtB (hd r).type = 1 → Q (hd r) r') : wpr advance r Q :=
  wpr_advance he fun r' hr => h r' hr (by unfold wtB at hw ⊢; split at hw <;> simp_all)

/-- `advance` over a token known to be neither EOF nor `]`. -/
theorem wpr_advanceA {r : List Token} {Q : Token → List Token → Prop} (he : EofEnd r)
    (hw : 1 ≤ wtA (hd r).type)
    (h : ∀ r', AdvRel r r' → wtB (hd r).type = 1 → 1 ≤ wtA (hd r).type → Q (hd r) r') :
    wpr advance r Q :=
  wpr_advance he fun r' hr => h r' hr (by
    unfold wtA at hw; unfold wtB
    split
    · rename_i h; rw [h] at hw; simp at hw
    · rfl) hw

theorem wpr_current_any {r : List Token} {Q : Token → List Token → Prop} (h : ∀ t, Q t r) : wpr current r Q := by
  intro st hst; subst hst; exact h _

/-! weights of the literal token types (for `wt_norm`). -/
theorem wtA_grammarSentinel : wtA .grammarSentinel = 1 := rfl
theorem wtB_grammarSentinel : wtB .grammarSentinel = 1 := rfl
theorem wtA_version : wtA .version = 1 := rfl
theorem wtB_version : wtB .version = 1 := rfl
theorem wtA_variable : wtA .variable = 1 := rfl
theorem wtB_variable : wtB .variable = 1 := rfl
theorem wtA_assign : wtA .assign = 1 := rfl
theorem wtB_assign : wtB .assign = 1 := rfl
theorem wtA_block : wtA .block = 1 := rfl
theorem wtB_block : wtB .block = 1 := rfl
theorem wtA_listStart : wtA .listStart = 4 := rfl
theorem wtB_listStart : wtB .listStart = 1 := rfl
theorem wtA_listEnd : wtA .listEnd = 0 := rfl
theorem wtB_listEnd : wtB .listEnd = 1 := rfl
theorem wtA_concat : wtA .concat = 1 := rfl
theorem wtB_concat : wtB .concat = 1 := rfl
theorem wtA_at_ : wtA .at_ = 1 := rfl
theorem wtB_at_ : wtB .at_ = 1 := rfl
theorem wtA_synthesis : wtA .synthesis = 1 := rfl
theorem wtB_synthesis : wtB .synthesis = 1 := rfl
theorem wtA_tension : wtA .tension = 1 := rfl
theorem wtB_tension : wtB .tension = 1 := rfl
theorem wtA_constraint : wtA .constraint = 1 := rfl
theorem wtB_constraint : wtB .constraint = 1 := rfl
theorem wtA_alternative : wtA .alternative = 1 := rfl
theorem wtB_alternative : wtB .alternative = 1 := rfl
theorem wtA_flow : wtA .flow = 1 := rfl
theorem wtB_flow : wtB .flow = 1 := rfl
theorem wtA_section : wtA .section = 1 := rfl
theorem wtB_section : wtB .section = 1 := rfl
theorem wtA_comment : wtA .comment = 1 := rfl
theorem wtB_comment : wtB .comment = 1 := rfl
theorem wtA_envelopeStart : wtA .envelopeStart = 1 := rfl
theorem wtB_envelopeStart : wtB .envelopeStart = 1 := rfl
theorem wtA_envelopeEnd : wtA .envelopeEnd = 1 := rfl
theorem wtB_envelopeEnd : wtB .envelopeEnd = 1 := rfl
theorem wtA_string : wtA .string = 1 := rfl
theorem wtB_string : wtB .string = 1 := rfl
theorem wtA_number : wtA .number = 1 := rfl
theorem wtB_number : wtB .number = 1 := rfl
theorem wtA_boolean : wtA .boolean = 1 := rfl
theorem wtB_boolean : wtB .boolean = 1 := rfl
theorem wtA_null : wtA .null = 1 := rfl
theorem wtB_null : wtB .null = 1 := rfl
theorem wtA_identifier : wtA .identifier = 1 := rfl
theorem wtB_identifier : wtB .identifier = 1 := rfl
theorem wtA_comma : wtA .comma = 1 := rfl
theorem wtB_comma : wtB .comma = 1 := rfl
theorem wtA_newline : wtA .newline = 1 := rfl
theorem wtB_newline : wtB .newline = 1 := rfl
theorem wtA_indent : wtA .indent = 1 := rfl
theorem wtB_indent : wtB .indent = 1 := rfl
theorem wtA_separator : wtA .separator = 1 := rfl
theorem wtB_separator : wtB .separator = 1 := rfl
theorem wtA_eof : wtA .eof = 0 := rfl
theorem wtB_eof : wtB .eof = 0 := rfl
theorem wtA_fenceOpen : wtA .fenceOpen = 1 := rfl
theorem wtB_fenceOpen : wtB .fenceOpen = 1 := rfl
theorem wtA_fenceClose : wtA .fenceClose = 1 := rfl
theorem wtB_fenceClose : wtB .fenceClose = 1 := rfl
theorem wtA_literalContent : wtA .literalContent = 1 := rfl
theorem wtB_literalContent : wtB .literalContent = 1 := rfl

/-- evaluate the weights of literal token types everywhere. -/
macro "wt_norm" : tactic => `(tactic| simp only [wtA_grammarSentinel, wtB_grammarSentinel, wtA_version, wtB_version, wtA_variable, wtB_variable, wtA_assign, wtB_assign, wtA_block, wtB_block, wtA_listStart, wtB_listStart, wtA_listEnd, wtB_listEnd, wtA_concat, wtB_concat, wtA_at_, wtB_at_, wtA_synthesis, wtB_synthesis, wtA_tension, wtB_tension, wtA_constraint, wtB_constraint, wtA_alternative, wtB_alternative, wtA_flow, wtB_flow, wtA_section, wtB_section, wtA_comment, wtB_comment, wtA_envelopeStart, wtB_envelopeStart, wtA_envelopeEnd, wtB_envelopeEnd, wtA_string, wtB_string, wtA_number, wtB_number, wtA_boolean, wtB_boolean, wtA_null, wtB_null, wtA_identifier, wtB_identifier, wtA_comma, wtB_comma, wtA_newline, wtB_newline, wtA_indent, wtB_indent, wtA_separator, wtB_separator, wtA_eof, wtB_eof, wtA_fenceOpen, wtB_fenceOpen, wtA_fenceClose, wtB_fenceClose, wtA_literalContent, wtB_literalContent] at *)

/-- `budget` exceeds the number of non-EOF tokens left by two. -/
theorem wpr_budget_le {r : List Token} {Q : Nat → List Token → Prop} (h : ∀ b, cB r + 2 ≤ b → Q b r) :
    wpr budget r Q :=
  wpr_budget (h _ (by have := cB_le_length r; omega))

open Lean Elab Tactic in
/-- clear every hypothesis the goal does not depend on. -/
elab "clear_all" : tactic => liftMetaTactic fun g => do
  let mut g := g
  for fv in (← g.getDecl).lctx.getFVarIds.reverse do
    g ← g.tryClear fv
  return [g]

/-- facts about the type of the current token: generalise it, keep only the hypotheses that speak about it, and
decide by cases. -/
syntax "tt_tac" : tactic
macro_rules | `(tactic| tt_tac) => `(tactic| first
  | decide
  | (generalize hx : (hd _).type = x
     simp only [hx] at *
     clear hx
     revert x
     clear_all
     intro x
     intros
     cases x <;> first | decide | omega | (wt_norm; omega) | (simp_all [isValueTok, isExprOp]; done)))

/-- extensible: calls of functions that already have a specification. -/
syntax "wp_lemma" : tactic
macro_rules | `(tactic| wp_lemma) => `(tactic| fail "no specification applies")

/-- closes side goals: invariant by assumption, bounds by `omega`. -/
syntax "wp_fin" : tactic
macro_rules | `(tactic| wp_fin) => `(tactic| first
  | assumption
  | omega
  | exact Le.refl (by assumption)
  | exact Same.mk rfl
  | (constructor <;> wp_fin)
  | (wt_norm; omega)
  | (generalize (hd _).type = x at *; subst_vars; wt_norm; omega)
  | (fail_if_success ((with_reducible refine wpr_id ?_)); tt_tac))

/-- one step of symbolic execution of a `wpr` goal. -/
syntax "wp_step" : tactic
macro_rules | `(tactic| wp_step) => `(tactic| first
  | (cases ‹_ ∧ _›)
  | (cases ‹Le _ _›)
  | (cases ‹AdvRel _ _›)
  | (cases ‹Same _ _›; rename_i h; subst h)
  | (cases ‹_ ∨ _›)
  | with_reducible apply wpr_bind
  | with_reducible apply wpr_pure
  | with_reducible apply wpr_map
  | ((with_reducible refine wpr_curType ?_ ?_)
     · assumption)
  | ((with_reducible refine wpr_current ?_ ?_)
     · assumption)
  | ((with_reducible apply wpr_peek); intro _)
  | ((with_reducible apply wpr_peekPastBrackets); intro _)
  | ((with_reducible refine wpr_budget_le ?_); intro _ _)
  | ((with_reducible refine wpr_get ?_); intro _ _)
  | ((with_reducible apply wpr_set)
     · first | assumption | rfl)
  | with_reducible apply wpr_warn
  | ((with_reducible refine wpr_modify ?_ ?_)
     · intro _; rfl)
  | (with_reducible apply wpr_throw (parserError_ne_fuel _ _))
  | ((with_reducible apply wpr_throw); intro h; cases h; done)
  | ((with_reducible refine wpr_advanceA ?_ ?_ ?_)
     · assumption
     · tt_tac
     intro _ _ _ _)
  | ((with_reducible refine wpr_advanceB ?_ ?_ ?_)
     · assumption
     · tt_tac
     intro _ _ _)
  | ((with_reducible refine wpr_advance ?_ ?_)
     · assumption
     intro _ _)
  | wp_lemma
  | ((with_reducible refine wpr_id ?_); split)
  | ((with_reducible refine wpr_id ?_); dsimp only))

macro "wp_run" : tactic => `(tactic| repeat' wp_step)

open Lean in
/-- symbolic execution where the listed specifications (induction hypotheses, earlier lemmas) are used for calls. -/
macro "wp_ind" "[" ihs:term,* "]" : tactic => do
  let alts ← ihs.getElems.mapM fun ih =>
    `(tacticSeq| with_reducible refine wpr_mono ($ih ?_) (fun _ _ _ => ?_))
  `(tactic| repeat' (first $[| $alts]* | wp_step))

theorem two_le_length {r : List Token} (h : EofEnd r) (hne : 1 ≤ wtB (hd r).type) : 2 ≤ r.length := by
  cases r with
  | nil => exact absurd rfl h.ne_nil
  | cons t r => cases r with
    | nil => simp [hd, wtB, h.single] at hne
    | cons u r => simp

/-- `skip_whitespace`: never out of fuel (the model's explicit "would spin" guard is dead: a NEWLINE / COMMENT is never
the last token). -/
theorem skipWs_spec {sc : Bool} : ∀ {fuel : Nat} {r : List Token}, (EofEnd r ∧ cB r < fuel) →
    wpr (skipWs sc fuel) r (fun _ r' => Le r r') := by
  intro fuel
  induction fuel with
  | zero => intro r h; omega
  | succ n ih =>
    intro r h
    unfold skipWs
    wp_ind [ih]
    all_goals try wp_fin
    rename_i st hst _ _ _ _ _ _ _
    rw [hst] at *
    exact absurd (two_le_length ‹EofEnd r› (by omega)) (by omega)
macro_rules | `(tactic| wp_lemma) => `(tactic| with_reducible refine wpr_mono (skipWs_spec ?_) (fun _ _ _ => ?_))

theorem expect_spec {tt : TT} {r : List Token} (h : EofEnd r) :
    wpr (expect tt) r (fun _ r' => Le r r' ∧ cA r' + wtA tt = cA r ∧ cB r' + wtB tt = cB r) := by
  unfold expect
  wp_run
  have ht : (hd r).type = tt := by simpa using ‹¬((hd r).type != tt) = true›
  subst ht
  wp_fin
macro_rules | `(tactic| wp_lemma) => `(tactic| with_reducible refine wpr_mono (expect_spec ?_) (fun _ _ _ => ?_))

theorem isAdjacentBracket_spec {r : List Token} {Q : Bool → List Token → Prop} (h : ∀ b, Q b r) :
    wpr isAdjacentBracket r Q := by
  unfold isAdjacentBracket
  apply wpr_bind; refine wpr_get ?_; intro st _
  apply wpr_bind; refine wpr_current_any ?_; intro t
  split <;> exact wpr_pure (h _)
macro_rules
  | `(tactic| wp_lemma) => `(tactic| ((with_reducible refine isAdjacentBracket_spec ?_); intro _))

theorem bracketLoop_spec {cap : Bool} : ∀ {fuel : Nat} {depth : Nat} {acc : List Str} {r : List Token},
    (EofEnd r ∧ cB r < fuel) → wpr (bracketLoop cap fuel depth acc) r (fun _ r' => Le r r') := by
  intro fuel
  induction fuel with
  | zero => intro _ _ r h; omega
  | succ n ih =>
    intro depth acc r h
    unfold bracketLoop
    wp_ind [ih]
    all_goals wp_fin
macro_rules | `(tactic| wp_lemma) => `(tactic| with_reducible refine wpr_mono (bracketLoop_spec ?_) (fun _ _ _ => ?_))

theorem consumeBracketAnnotation_spec {cap : Bool} {fuel : Nat} {r : List Token}
    (h : EofEnd r ∧ cB r < fuel) :
    wpr (consumeBracketAnnotation cap fuel) r (fun _ r' => Le r r') := by
  unfold consumeBracketAnnotation
  wp_run
  all_goals wp_fin
macro_rules
  | `(tactic| wp_lemma) => `(tactic| with_reducible refine wpr_mono (consumeBracketAnnotation_spec ?_) (fun _ _ _ => ?_))

theorem parseBlockTarget_spec {fuel : Nat} {r : List Token} (h : EofEnd r ∧ cB r < fuel) :
    wpr (parseBlockTarget fuel) r (fun _ r' => Le r r') := by
  unfold parseBlockTarget
  wp_run
  all_goals wp_fin
macro_rules
  | `(tactic| wp_lemma) => `(tactic| with_reducible refine wpr_mono (parseBlockTarget_spec ?_) (fun _ _ _ => ?_))

theorem skipWhitespace_spec {sc : Bool} {r : List Token} (h : EofEnd r) :
    wpr (skipWhitespace sc) r (fun _ r' => Le r r') := by
  unfold skipWhitespace
  wp_run
  all_goals wp_fin
macro_rules
  | `(tactic| wp_lemma) => `(tactic| with_reducible refine wpr_mono (skipWhitespace_spec ?_) (fun _ _ _ => ?_))

end Parser
end Octave
