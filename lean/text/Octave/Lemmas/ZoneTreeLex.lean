import Octave.Lemmas.LexFrame
import Octave.Lemmas.ZoneLex
import Octave.Lemmas.BlockLex
/-!
The lexer on documents whose body is a FOREST of `KEY::scalar` lines, `KEY:` blocks and ZONE ASSIGNMENTS (`KEY::` + a
literal zone) in any order and at any depth — several zones per document, adjacent to every other node kind (C05).

A zone at depth `d` is written the way the emitter writes it: `indent KEY::`, `indent marker tag`, the content lines
VERBATIM (not indented), `indent marker`.

* `Seg`, `segsText`, `segsLines`, `segSpans`: a text as a list of segments (a plain line, or a zone = open line + content
  lines + close line); `normLines_segs` / `normalize_segs`: **`normalize` finds one span per zone** (start = offset of the
  open line, stop = offset of the end of the close line, marker, tag) and returns the text unchanged — content lines are
  never passed through `env.nfc`; `tabCheck_segs`: **the tab check accepts tabs inside every span**;
* `ZNode`, `ZNode.text`, `ZNode.segs` (`ZNode.text_segs`), `ZNode.toksRev`, …: the forest, its text, its tokens;
* `run_zkeyline` (`INDENT? IDENTIFIER ASSIGN NEWLINE` under `Ready`), `framed` (the FRAME LEMMA of `Lemmas/LexFrame.lean` in
  the form used here: a `Run` proved under `Ready` replayed with pending spans), `run_znode` / `run_zforest`: **the main
  loop on any forest**, the pending spans consumed one per zone by `step_zone`, everything else by the existing
  `run_tline` / `run_header` of `Lemmas/BlockLex.lean` through the frame lemma;
* `tokenize_ztree`: the whole document.
-/
namespace Octave
open Lexer Scan Emitter

/-! ### texts as lists of segments -/

/-- a plain line, or a literal zone (open line of `ind` spaces + marker + `trailing`, content lines `C`, close line). -/
inductive Seg where
  | plain (l : Str)
  | zone (C : List Str) (ind : Nat) (marker trailing : Str)

def Seg.text : Seg → Str
  | .plain l => l ++ ['\n']
  | .zone C ind m t => zoneSpanText C ind m t ++ ['\n']

def Seg.lines : Seg → List Str
  | .plain l => [l]
  | .zone C ind m t => fenceOpenLine ind m t :: (C ++ [fenceCloseLine ind m])

def segsText : List Seg → Str
  | [] => []
  | s :: r => s.text ++ segsText r

def segsLines : List Seg → List Str
  | [] => []
  | s :: r => s.lines ++ segsLines r

/-- the fence spans of a text that starts at offset `off`. -/
def segSpans (env : Env) : Nat → List Seg → List Span
  | _, [] => []
  | off, .plain l :: r => segSpans env (off + (l.length + 1)) r
  | off, .zone C ind m t :: r =>
    { start := off, stop := off + (zoneSpanText C ind m t).length, marker := m, tag := tagOf env t }
      :: segSpans env (off + ((zoneSpanText C ind m t).length + 1)) r

/-- what `normalize` needs of a segment: plain lines are fence-free and NFC-stable; of a zone only the two fence lines
are NFC-stable — NOTHING is assumed about NFC on the content lines, which only must not close the fence. -/
def Seg.OK (env : Env) : Seg → Prop
  | .plain l => NoNl l ∧ fenceLine l = none ∧ env.nfc l = l
  | .zone C ind m t => isMarker m = true ∧ tagTextOK t = true ∧ (∀ l ∈ C, NoNl l ∧ contentLineOK m l = true) ∧
      env.nfc (fenceOpenLine ind m t) = fenceOpenLine ind m t ∧ env.nfc (fenceCloseLine ind m) = fenceCloseLine ind m

theorem segsText_append (a b : List Seg) : segsText (a ++ b) = segsText a ++ segsText b := by
  induction a with
  | nil => rfl
  | cons s r ih => simp [segsText, ih]

theorem segsLines_append (a b : List Seg) : segsLines (a ++ b) = segsLines a ++ segsLines b := by
  induction a with
  | nil => rfl
  | cons s r ih => simp [segsLines, ih]

theorem Seg.text_length (s : Seg) : s.text.length = (match s with | .plain l => l.length + 1 | .zone C ind m t => (zoneSpanText C ind m t).length + 1) := by
  cases s <;> simp [Seg.text]

theorem segSpans_append (env : Env) : ∀ (a b : List Seg) (off : Nat),
    segSpans env off (a ++ b) = segSpans env off a ++ segSpans env (off + (segsText a).length) b := by
  intro a
  induction a with
  | nil => intro b off; simp [segSpans, segsText]
  | cons s r ih =>
    intro b off
    cases s with
    | plain l =>
      simp only [List.cons_append, segSpans, segsText, Seg.text, ih, List.length_append, List.length_cons, List.length_nil]
      rw [show off + (l.length + 1) + (segsText r).length = off + (l.length + (0 + 1) + (segsText r).length) by omega]
    | zone C ind m t =>
      simp only [List.cons_append, segSpans, segsText, Seg.text, ih, List.length_append, List.length_cons, List.length_nil]
      rw [show off + ((zoneSpanText C ind m t).length + 1) + (segsText r).length
            = off + ((zoneSpanText C ind m t).length + (0 + 1) + (segsText r).length) by omega]

/-- the first pending span of a text at offset `off` (or of what follows it) does not start before `off`. -/
theorem segSpans_ahead (env : Env) : ∀ (segs : List Seg) (off : Nat) (more : List Span),
    (∀ sp ∈ more.head?, off + (segsText segs).length ≤ sp.start) →
    ∀ sp ∈ (segSpans env off segs ++ more).head?, off ≤ sp.start := by
  intro segs
  induction segs with
  | nil =>
    intro off more h sp hsp
    have := h sp (by simpa [segSpans] using hsp)
    simp only [segsText, List.length_nil] at this; omega
  | cons s r ih =>
    intro off more h sp hsp
    cases s with
    | plain l =>
      simp only [segSpans] at hsp
      have := ih (off + (l.length + 1)) more (by
        intro sp' hsp'
        have := h sp' hsp'
        simp only [segsText, Seg.text, List.length_append, List.length_cons, List.length_nil] at this; omega) sp hsp
      omega
    | zone C ind m t =>
      simp only [segSpans, List.cons_append, List.head?_cons, Option.mem_def, Option.some.injEq] at hsp
      subst hsp
      exact Nat.le_refl _

/-! ### `normalize` on a list of segments -/

theorem splitLines_segsText (segs : List Seg) (tail : Str) (hok : ∀ s ∈ segs, match s with
      | .plain l => NoNl l
      | .zone C _ m t => isMarker m = true ∧ tagTextOK t = true ∧ ∀ l ∈ C, NoNl l) :
    splitLines (segsText segs ++ tail) = segsLines segs ++ splitLines tail := by
  induction segs with
  | nil => rfl
  | cons s r ih =>
    have ih' := ih (fun x hx => hok x (by simp [hx]))
    have h := hok s (by simp)
    cases s with
    | plain l =>
      simp only [segsText, Seg.text, segsLines, Seg.lines, List.append_assoc, List.cons_append, List.nil_append]
      rw [splitLines_append_nl l _ h, ih']
    | zone C ind m t =>
      obtain ⟨hm, ht, hC⟩ := h
      simp only [segsText, Seg.text, segsLines, Seg.lines, zoneSpanText, List.append_assoc, List.cons_append, List.nil_append]
      rw [splitLines_append_nl _ _ (fenceOpenLine_noNl ind m t hm ht), splitLines_lineBlock C _ hC,
        splitLines_append_nl _ _ (fenceCloseLine_noNl ind m hm), ih']

/-- **the normaliser line loop on any sequence of plain lines and zones**: every line copied (plain and fence lines are
NFC-stable by hypothesis, content lines are copied verbatim without consulting `env.nfc`), the offset advanced by the
length of the text, ONE SPAN PER ZONE recorded, and the loop ends outside any fence. -/
theorem normLines_segs (env : Env) : ∀ (segs : List Seg) (st : NState) (n : Nat), st.inFence = false →
    (∀ s ∈ segs, s.OK env) →
    ∃ st', normLines env st n (segsLines segs) = .ok st' ∧ st'.out = (segsLines segs).reverse ++ st.out ∧
      st'.offset = st.offset + (segsText segs).length ∧
      st'.spans = (segSpans env st.offset segs).reverse ++ st.spans ∧ st'.inFence = false := by
  intro segs
  induction segs with
  | nil => intro st n hf _; exact ⟨st, rfl, by simp [segsLines], by simp [segsText], by simp [segSpans], hf⟩
  | cons s r ih =>
    intro st n hf hok
    have hr : ∀ x ∈ r, x.OK env := fun x hx => hok x (by simp [hx])
    have hs := hok s (by simp)
    cases s with
    | plain l =>
      obtain ⟨_, h1, h2⟩ := hs
      have hstep : normLine env st n l = .ok { st with out := l :: st.out, offset := st.offset + l.length + 1 } := by
        unfold normLine
        rw [h1, hf]
        simp only [h2]
      obtain ⟨st', e, o, off, sp, inf⟩ := ih { st with out := l :: st.out, offset := st.offset + l.length + 1 } (n + 1) hf hr
      refine ⟨st', ?_, ?_, ?_, ?_, inf⟩
      · simp only [segsLines, Seg.lines, List.cons_append, List.nil_append]
        rw [normLines]; simp only [hstep, bind, Except.bind]; exact e
      · rw [o]; simp [segsLines, Seg.lines]
      · rw [off]; simp only [segsText, Seg.text, List.length_append, List.length_cons, List.length_nil]; omega
      · rw [sp]; simp only [segSpans]
        rw [show st.offset + l.length + 1 = st.offset + (l.length + 1) by omega]
    | zone C ind m t =>
      obtain ⟨hm, ht, hC, hopen, hclose⟩ := hs
      have e2 := normLine_open env st n (fenceOpenLine ind m t) m t hf (fenceLine_open ind m t hm ht) hopen
      have e3 := normLines_content env C
        { st with out := fenceOpenLine ind m t :: st.out, offset := st.offset + (fenceOpenLine ind m t).length + 1, inFence := true,
                  marker := m, tag := tagOf env t, openLine := n, spanStart := st.offset }
        (n + 1) rfl (fun l hl => (hC l hl).2)
      have e4 := normLine_close env
        { st with out := C.reverse ++ fenceOpenLine ind m t :: st.out,
                  offset := st.offset + (fenceOpenLine ind m t).length + 1 + (lineBlock C).length,
                  inFence := true, marker := m, tag := tagOf env t, openLine := n, spanStart := st.offset }
        (n + 1 + C.length) (fenceCloseLine ind m) m [] rfl (fenceLine_close ind m hm) rfl rfl hclose
      obtain ⟨st', e, o, off, sp, inf⟩ := ih
        { st with out := fenceCloseLine ind m :: (C.reverse ++ fenceOpenLine ind m t :: st.out),
                  offset := st.offset + (fenceOpenLine ind m t).length + 1 + (lineBlock C).length + (fenceCloseLine ind m).length + 1,
                  spans := { start := st.offset,
                             stop := st.offset + (fenceOpenLine ind m t).length + 1 + (lineBlock C).length + (fenceCloseLine ind m).length,
                             marker := m, tag := tagOf env t } :: st.spans,
                  inFence := false, marker := [], tag := none, openLine := n, spanStart := st.offset }
        (n + 1 + C.length + 1) rfl hr
      have hlen := zoneSpanText_length C ind m t
      refine ⟨st', ?_, ?_, ?_, ?_, inf⟩
      · simp only [segsLines, Seg.lines, List.cons_append, List.append_assoc]
        rw [normLines]
        simp only [e2, bind, Except.bind]
        rw [normLines_append env C _ _ _ _ e3]
        simp only [List.nil_append]
        rw [normLines]
        simp only [e4, bind, Except.bind]
        exact e
      · rw [o]; simp [segsLines, Seg.lines]
      · rw [off]; simp only [segsText, Seg.text, List.length_append, List.length_cons, List.length_nil]; omega
      · rw [sp]; simp only [segSpans, List.reverse_cons, List.append_assoc, List.cons_append, List.nil_append]
        rw [hlen]
        congr 2
        · congr 1; omega
        · congr 1; omega

/-- **`normalize` on a text made of plain lines and any number of literal zones**: the text comes back unchanged and
exactly ONE SPAN PER ZONE is reported, in order.  (`env.nfc [] = []`: the empty last "line" after the final line break.) -/
theorem normalize_segs (env : Env) (segs : List Seg) (hok : ∀ s ∈ segs, s.OK env) (hnil : env.nfc [] = []) :
    normalize env (segsText segs) = .ok (segsText segs, segSpans env 0 segs) := by
  have hsplit : splitLines (segsText segs) = segsLines segs ++ [[]] := by
    have := splitLines_segsText segs [] (by
      intro s hs
      have := hok s hs
      cases s with
      | plain l => exact this.1
      | zone C ind m t => exact ⟨this.1, this.2.1, fun l hl => (this.2.2.1 l hl).1⟩)
    rw [List.append_nil, splitLines_nil'] at this
    exact this
  obtain ⟨st1, e1, o1, off1, sp1, in1⟩ := normLines_segs env segs {} 1 rfl hok
  have hlast : normLine env st1 (1 + (segsLines segs).length) [] = .ok { st1 with out := [] :: st1.out, offset := st1.offset + 0 + 1 } := by
    unfold normLine
    have : fenceLine [] = none := by decide
    rw [this, in1]
    simp only [hnil, List.length_nil]
  have hall : normLines env {} 1 (splitLines (segsText segs)) = .ok { st1 with out := [] :: st1.out, offset := st1.offset + 0 + 1 } := by
    rw [hsplit, normLines_append env _ _ _ _ 1 e1, normLines]
    simp only [hlast, bind, Except.bind]
    rfl
  unfold normalize
  simp only [hall, bind, Except.bind, in1, Bool.false_eq_true, if_false]
  rw [o1, sp1]
  have hout : ([] :: ((segsLines segs).reverse ++ ({} : NState).out)).reverse = splitLines (segsText segs) := by
    rw [hsplit]; simp
  rw [hout, joinWith_splitLines]
  simp

/-! ### the tab check on a list of segments -/

def Seg.noTab : Seg → Prop
  | .plain l => ∀ d ∈ l, d ≠ '\t'
  | .zone _ _ _ _ => True

/-- **tabs are accepted inside every span**: the plain lines are tab-free, the zones (fence lines and content) are
ARBITRARY. -/
theorem tabCheck_segs (env : Env) (spans : List Span) : ∀ (segs : List Seg) (b : Str) (off line col : Nat),
    (∀ sp ∈ segSpans env off segs, sp ∈ spans) → (∀ s ∈ segs, s.noTab) →
    ∃ l' c', tabCheck spans (segsText segs ++ b) off line col = tabCheck spans b (off + (segsText segs).length) l' c' := by
  intro segs
  induction segs with
  | nil => intro b off line col _ _; exact ⟨line, col, rfl⟩
  | cons s r ih =>
    intro b off line col hsp hnt
    have hr : ∀ x ∈ r, x.noTab := fun x hx => hnt x (by simp [hx])
    have hs := hnt s (by simp)
    cases s with
    | plain l =>
      have hl : ∀ d ∈ l ++ ['\n'], d ≠ '\t' := by
        intro d hd
        rcases List.mem_append.mp hd with h | h
        · exact hs d h
        · have : d = '\n' := by simpa using h
          subst this; decide
      obtain ⟨l1, c1, e1⟩ := tabCheck_skip_noTab spans (l ++ ['\n']) (segsText r ++ b) off line col hl
      obtain ⟨l2, c2, e2⟩ := ih b (off + (l ++ ['\n']).length) l1 c1 (by
        intro sp h
        apply hsp
        simp only [segSpans]
        simpa [List.length_append] using h) hr
      refine ⟨l2, c2, ?_⟩
      simp only [segsText, Seg.text, List.append_assoc] at e1 ⊢
      rw [e1, e2]
      simp only [List.length_append, List.length_cons, List.length_nil]
      congr 1; omega
    | zone C ind m t =>
      let sp : Span := { start := off, stop := off + (zoneSpanText C ind m t).length, marker := m, tag := tagOf env t }
      have hin : sp ∈ spans := hsp sp (by simp [segSpans, sp])
      obtain ⟨l1, c1, e1⟩ := tabCheck_skip_inSpan spans sp hin (zoneSpanText C ind m t) ('\n' :: (segsText r ++ b)) off line col
        (Nat.le_refl _) (Nat.le_refl _)
      obtain ⟨l2, c2, e2⟩ := tabCheck_skip_noTab spans ['\n'] (segsText r ++ b) (off + (zoneSpanText C ind m t).length) l1 c1
        (by intro d hd; have : d = '\n' := by simpa using hd
            subst this; decide)
      obtain ⟨l3, c3, e3⟩ := ih b (off + (zoneSpanText C ind m t).length + 1) l2 c2 (by
        intro sp' h
        apply hsp
        simp only [segSpans, List.mem_cons]
        right
        rw [show off + ((zoneSpanText C ind m t).length + 1) = off + (zoneSpanText C ind m t).length + 1 by omega]
        exact h) hr
      refine ⟨l3, c3, ?_⟩
      simp only [segsText, Seg.text, List.append_assoc, List.cons_append, List.nil_append] at e1 e2 ⊢
      rw [e1, e2]
      simp only [List.length_cons, List.length_nil] at e3 ⊢
      rw [e3]
      simp only [List.length_append, List.length_cons]
      congr 1; omega

theorem tabCheck_segsText (env : Env) (segs : List Seg) (hnt : ∀ s ∈ segs, s.noTab) :
    tabCheck (segSpans env 0 segs) (segsText segs) 0 1 1 = .ok () := by
  obtain ⟨l, c, e⟩ := tabCheck_segs env (segSpans env 0 segs) segs [] 0 1 1 (fun sp h => h) hnt
  rw [List.append_nil] at e
  rw [e]; rfl


/-! ### forests of lines, blocks and zone assignments -/

/-- content of a document body: `KEY::scalar` lines, `KEY:` blocks with children, and ZONE ASSIGNMENTS `KEY::` + literal
zone (marker, the text `trailing` after the backticks of the open line, content LINES `C`: `C = []` is the empty zone,
`C = [[]]` the zone whose content is one empty line; for a content string `c`, `C = splitLines c`). -/
inductive ZNode where
  | line (ln : FLine)
  | zone (key marker trailing : Str) (C : List Str)
  | block (key : Str) (children : List ZNode)

mutual
def ZNode.OK : ZNode → Prop
  | .line ln => ln.OK
  | .zone key marker trailing C => isIdentifierText key = true ∧ hasReservedPrefix key = false ∧ isMarker marker = true ∧
      tagTextOK trailing = true ∧ ∀ l ∈ C, NoNl l ∧ contentLineOK marker l = true
  | .block key cs => isIdentifierText key = true ∧ hasReservedPrefix key = false ∧ zforestOK cs
def zforestOK : List ZNode → Prop
  | [] => True
  | n :: ns => n.OK ∧ zforestOK ns
end

mutual
/-- canonical text of a node at depth `d`: a zone is `indent KEY::`, `indent marker trailing`, the content lines verbatim,
`indent marker`. -/
def ZNode.text (d : Nat) : ZNode → Str
  | .line ln => indentStr d ++ (ln.text ++ ['\n'])
  | .zone key marker trailing C => indentStr d ++ (key ++ ':' :: ':' :: '\n' :: (zoneSpanText C (2 * d) marker trailing ++ ['\n']))
  | .block key cs => indentStr d ++ (key ++ ':' :: '\n' :: zforestText (d + 1) cs)
def zforestText (d : Nat) : List ZNode → Str
  | [] => []
  | n :: ns => n.text d ++ zforestText d ns
end

mutual
def ZNode.segs (d : Nat) : ZNode → List Seg
  | .line ln => [.plain (indentStr d ++ ln.text)]
  | .zone key marker trailing C => [.plain (indentStr d ++ keyLine key), .zone C (2 * d) marker trailing]
  | .block key cs => .plain (indentStr d ++ (key ++ [':'])) :: zforestSegs (d + 1) cs
def zforestSegs (d : Nat) : List ZNode → List Seg
  | [] => []
  | n :: ns => n.segs d ++ zforestSegs d ns
end

mutual
theorem ZNode.text_segs : ∀ (n : ZNode) (d : Nat), n.text d = segsText (n.segs d)
  | .line ln, d => by simp [ZNode.text, ZNode.segs, segsText, Seg.text]
  | .zone key marker trailing C, d => by simp [ZNode.text, ZNode.segs, segsText, Seg.text, keyLine]
  | .block key cs, d => by simp [ZNode.text, ZNode.segs, segsText, Seg.text, zforestText_segs cs (d + 1)]
theorem zforestText_segs : ∀ (ns : List ZNode) (d : Nat), zforestText d ns = segsText (zforestSegs d ns)
  | [], d => rfl
  | n :: ns, d => by simp [zforestText, zforestSegs, segsText_append, ZNode.text_segs n d, zforestText_segs ns d]
end

mutual
/-- number of text lines of a node. -/
def ZNode.nlines : ZNode → Nat
  | .line _ => 1
  | .zone _ _ _ C => C.length + 3
  | .block _ cs => 1 + zforestNLines cs
def zforestNLines : List ZNode → Nat
  | [] => 0
  | n :: ns => n.nlines + zforestNLines ns
end

/-- tokens of the line `KEY::` at depth `d`, line `l`, newest first. -/
def zkeyToksRev (key : Str) (d l : Nat) : List Token :=
  [tNewline l (1 + 2 * d + key.length + 2), tAssign l (1 + 2 * d + key.length), tIdent key l (1 + 2 * d)] ++ indentToksRev d l

/-- tokens of a zone assignment at depth `d` whose `KEY::` line is line `l`, newest first: the fence tokens carry the
marker, the tag, and the content lines joined by line breaks — exactly; FENCE_OPEN sits at the column of the first
backtick (`1 + 2·d`), no INDENT token precedes it. -/
def zoneToksRevAt (env : Env) (key marker trailing : Str) (C : List Str) (d l : Nat) : List Token :=
  [tNewline (l + 1 + C.length + 1) (2 * d + marker.length + 1), tFenceClose marker (l + 1 + C.length + 1) 1,
   tLiteral (joinWith ['\n'] C) (l + 1 + 1) 1, tFenceOpen marker (tagOf env trailing) (l + 1) (1 + 2 * d)] ++ zkeyToksRev key d l

mutual
def ZNode.toksRev (env : Env) (d l : Nat) : ZNode → List Token
  | .line ln => ln.toksRevAt d l
  | .zone key marker trailing C => zoneToksRevAt env key marker trailing C d l
  | .block key cs => zforestToksRev env (d + 1) (l + 1) cs ++ headerToksRev key d l
def zforestToksRev (env : Env) (d l : Nat) : List ZNode → List Token
  | [] => []
  | n :: ns => zforestToksRev env d (l + n.nlines) ns ++ n.toksRev env d l
end

mutual
/-- receipts (identifier notes only — NONE from inside a zone), newest first. -/
def ZNode.repsRev (d l : Nat) : ZNode → List Repair
  | .line ln => ln.repsRev l (1 + 2 * d)
  | .zone key _ _ _ => (identifierRepairs key l (1 + 2 * d)).reverse
  | .block key cs => zforestRepsRev (d + 1) (l + 1) cs ++ (identifierRepairs key l (1 + 2 * d)).reverse
def zforestRepsRev (d l : Nat) : List ZNode → List Repair
  | [] => []
  | n :: ns => zforestRepsRev d (l + n.nlines) ns ++ n.repsRev d l
end

/-! ### the main loop -/

/-- the tracked parts of the state after several whole lines, with the position and the pending spans. -/
structure AdvLS (st st' : LState) (newToks : List Token) (newReps : List Repair) (dline dpos : Nat) (spans' : List Span) : Prop where
  spans : st'.spans = spans'
  blank : st'.blank = false
  pos : st'.pos = st.pos + dpos
  toks : st'.toks = newToks ++ st.toks
  repairs : st'.repairs = newReps ++ st.repairs
  stack : st'.stack = st.stack
  line : st'.line = st.line + dline
  col : st'.col = 1

theorem AdvLS.trans {a b c : LState} {t1 t2 : List Token} {r1 r2 : List Repair} {d1 d2 n1 n2 : Nat} {s1 s2 : List Span}
    (h1 : AdvLS a b t1 r1 d1 n1 s1) (h2 : AdvLS b c t2 r2 d2 n2 s2) : AdvLS a c (t2 ++ t1) (r2 ++ r1) (d1 + d2) (n1 + n2) s2 :=
  ⟨h2.spans, h2.blank, by rw [h2.pos, h1.pos, Nat.add_assoc], by rw [h2.toks, h1.toks, List.append_assoc],
   by rw [h2.repairs, h1.repairs, List.append_assoc], by rw [h2.stack, h1.stack], by rw [h2.line, h1.line, Nat.add_assoc], h2.col⟩

/-- **the frame lemma as it is used here**: a run proved from the span-free copy of `st` (a `Ready` state) is a run from
`st` itself — pending spans and all — when it ends at or before the start of the first pending span; the final state is
the span-free one with the pending spans put back, and its position is known. -/
theorem framed {env : Env} {lenient : Bool} {n : Nat} {st st0' : LState} {s s' : Str}
    (hrun : Run env lenient n (setSpans st []) s st0' s')
    (hahead : ∀ sp ∈ st.spans.head?, st.pos + (s.length - s'.length) ≤ sp.start) :
    Run env lenient n st s (setSpans st0' st.spans) s' ∧ st0'.pos + s'.length = st.pos + s.length ∧ s'.length ≤ s.length := by
  have h0 : (setSpans st []).spans = [] := rfl
  obtain ⟨h1, h2, _⟩ := hrun.pos_nil h0
  exact ⟨hrun.frame h0 st.spans hahead, h2, h1⟩

/-- `INDENT? IDENTIFIER(key) ASSIGN NEWLINE`: the line `KEY::` at depth `d` (the value follows on the next line). -/
theorem run_zkeyline (env : Env) (lenient : Bool) (st : LState) (key : Str) (d : Nat) (rest : Str) (hr : Ready st)
    (hcol : st.col = 1) (hid : isIdentifierText key = true) (hres : hasReservedPrefix key = false) :
    ∃ st', Run env lenient (indentSteps d + 3) st (indentStr d ++ (key ++ ':' :: ':' :: '\n' :: rest)) st' rest ∧
      AdvL st st' (zkeyToksRev key d st.line) (identifierRepairs key st.line (1 + 2 * d)).reverse 1 := by
  obtain ⟨kc, kt, hkey, h1, h2, _⟩ := identText_cons key hid
  have hshape : key ++ ':' :: ':' :: '\n' :: rest = kc :: (kt ++ ':' :: ':' :: '\n' :: rest) := by simp [hkey]
  obtain ⟨s1, p1, r1, a1⟩ := run_indent env lenient st d kc (kt ++ ':' :: ':' :: '\n' :: rest) hr hcol h1 h2
  rw [← hshape] at r1
  obtain ⟨s2, e2, a2⟩ := step_ident env lenient s1 key (':' :: ':' :: '\n' :: rest) a1.ready hid hres (termOK_colon env _)
  obtain ⟨s3, e3, a3⟩ := step_assign env lenient s2 ('\n' :: rest) a2.ready
  obtain ⟨s4, e4, a4⟩ := step_newline env lenient s3 rest a3.ready
  have run : Run env lenient (indentSteps d + 3) st (indentStr d ++ (key ++ ':' :: ':' :: '\n' :: rest)) s4 rest :=
    Run.trans r1 (Run.cons' (by simp) e2 (Run.cons e3 (Run.one e4)))
  refine ⟨s4, run, ?_⟩
  have h := ((a1.trans a2).trans a3).trans a4
  have l1 : s1.line = st.line := by rw [a1.line]; rfl
  have l2 : s2.line = st.line := by rw [a2.line, l1]; rfl
  have l3 : s3.line = st.line := by rw [a3.line, l2]; rfl
  have c1 : s1.col = 1 + 2 * d := a1.col
  have c2 : s2.col = 1 + 2 * d + key.length := by rw [a2.col, c1]
  have c3 : s3.col = 1 + 2 * d + key.length + 2 := by rw [a3.col, c2]
  rw [l1, l2, l3, c1, c2, c3] at h
  exact ⟨h.ready, by rw [h.toks]; simp [zkeyToksRev], by rw [h.repairs]; simp, h.stack, by rw [h.line], h.col⟩

theorem indentStr_length (d : Nat) : (indentStr d).length = 2 * d := by simp [indentStr]

theorem spaces_eq_indentStr (d : Nat) : spaces (2 * d) = indentStr d := rfl

/-- an `AdvL` obtained for the span-free copy of `st`, read as an `AdvLS` for `st` itself. -/
theorem AdvL.framed {st s1 : LState} {t : List Token} {r : List Repair} {dl dpos : Nat}
    (a : AdvL (setSpans st []) s1 t r dl) (hpos : s1.pos = st.pos + dpos) :
    AdvLS st (setSpans s1 st.spans) t r dl dpos st.spans :=
  ⟨rfl, a.ready.blank, hpos, a.toks, a.repairs, a.stack, a.line, a.col⟩

mutual
/-- **one node at depth `d`**, with the spans of its zones (and `more`) pending: a line and a block header run through
the frame lemma, a zone assignment is its `KEY::` line (frame lemma) followed by ONE fence-span step that yields
FENCE_OPEN / LITERAL_CONTENT / FENCE_CLOSE / NEWLINE with the content verbatim and consumes the span. -/
theorem run_znode (env : Env) (lenient : Bool) : ∀ (n : ZNode) (d : Nat) (st : LState) (rest : Str) (more : List Span),
    st.blank = false → st.col = 1 → n.OK →
    st.spans = segSpans env st.pos (n.segs d) ++ more →
    (∀ sp ∈ more.head?, st.pos + (n.text d).length ≤ sp.start) →
    ∃ k st', Run env lenient k st (n.text d ++ rest) st' rest ∧
      AdvLS st st' (n.toksRev env d st.line) (n.repsRev d st.line) n.nlines (n.text d).length more
  | .line ln, d, st, rest, more, hb, hc, hok, hsp, hmore => by
    simp only [ZNode.segs, segSpans, List.nil_append] at hsp
    obtain ⟨s1, r1, a1⟩ := run_tline env lenient (setSpans st []) ln d rest ⟨rfl, hb⟩ hc (by simpa [ZNode.OK] using hok)
    have hlen : (indentStr d ++ (ln.text ++ '\n' :: rest)).length - rest.length = ((ZNode.line ln).text d).length := by
      simp [ZNode.text]; omega
    obtain ⟨f1, f2, _⟩ := framed r1 (by rw [hlen, hsp]; exact hmore)
    refine ⟨_, setSpans s1 st.spans, by simpa [ZNode.text, List.append_assoc] using f1, ?_⟩
    have := a1.framed (dpos := ((ZNode.line ln).text d).length) (by
      simp only [ZNode.text, List.length_append, List.length_cons, List.length_nil] at f2 ⊢; omega)
    exact ⟨by rw [this.spans, hsp], this.blank, this.pos, by rw [this.toks]; simp only [ZNode.toksRev]; rfl,
      by rw [this.repairs]; simp only [ZNode.repsRev]; rfl, this.stack, by rw [this.line]; rfl, this.col⟩
  | .zone key marker trailing C, d, st, rest, more, hb, hc, hok, hsp, hmore => by
    obtain ⟨hk1, hk2, hm, ht, hC⟩ := hok
    -- the `KEY::` line
    obtain ⟨s1, r1, a1⟩ := run_zkeyline env lenient (setSpans st []) key d
      (zoneSpanText C (2 * d) marker trailing ++ '\n' :: rest) ⟨rfl, hb⟩ hc hk1 hk2
    have hklen : (indentStr d ++ keyLine key).length + 1 = 2 * d + key.length + 3 := by
      simp [keyLine, indentStr_length]; omega
    simp only [ZNode.segs, segSpans, List.cons_append, List.nil_append] at hsp
    obtain ⟨f1, f2, _⟩ := framed r1 (by
      rw [hsp]
      intro sp hsp'
      simp only [List.head?_cons, Option.mem_def, Option.some.injEq] at hsp'
      subst hsp'
      simp only [List.length_append, List.length_cons, indentStr_length] at hklen ⊢
      omega)
    have p1 : s1.pos = st.pos + ((indentStr d ++ keyLine key).length + 1) := by
      simp only [List.length_append, List.length_cons, indentStr_length] at f2 hklen ⊢
      omega
    have ak := a1.framed (dpos := (indentStr d ++ keyLine key).length + 1) p1
    -- the zone
    obtain ⟨s2, e2, a2⟩ := step_zone env lenient (setSpans s1 st.spans)
      { start := st.pos + ((indentStr d ++ keyLine key).length + 1),
        stop := st.pos + ((indentStr d ++ keyLine key).length + 1) + (zoneSpanText C (2 * d) marker trailing).length,
        marker := marker, tag := tagOf env trailing }
      more C (2 * d) marker trailing rest (by rw [setSpans_spans, hsp]) (by rw [setSpans_pos, p1]) rfl hm ht (fun l hl => (hC l hl).1)
    have hne : zoneSpanText C (2 * d) marker trailing ++ '\n' :: rest ≠ [] := by simp
    refine ⟨indentSteps d + 3 + 1, s2, ?_, ?_⟩
    · have := Run.trans f1 (Run.one' hne e2)
      simpa [ZNode.text, List.append_assoc] using this
    · have l1 : (setSpans s1 st.spans).line = st.line + 1 := ak.line
      have c1 : (setSpans s1 st.spans).col = 1 := ak.col
      rw [l1, c1] at a2
      refine ⟨a2.spans, a2.blank, ?_, ?_, ?_, ?_, ?_, a2.col⟩
      · rw [a2.pos, ak.pos]
        have e2 : ("::".toList).length = 2 := rfl
        simp only [ZNode.text, keyLine, List.length_append, List.length_cons, List.length_nil, e2]; omega
      · rw [a2.toks, ak.toks]
        simp only [ZNode.toksRev, zoneToksRevAt, List.cons_append, List.nil_append]
        rfl
      · rw [a2.repairs, ak.repairs]; rfl
      · rw [a2.stack, ak.stack]
      · rw [a2.line, l1]; simp only [ZNode.nlines]; omega
  | .block key cs, d, st, rest, more, hb, hc, hok, hsp, hmore => by
    simp only [ZNode.OK] at hok
    obtain ⟨s1, r1, a1⟩ := run_header env lenient (setSpans st []) key d (zforestText (d + 1) cs ++ rest) ⟨rfl, hb⟩ hc hok.1 hok.2.1
    have hhlen : (indentStr d ++ (key ++ [':'])).length + 1 = 2 * d + key.length + 2 := by
      simp [indentStr_length]; omega
    simp only [ZNode.segs, segSpans] at hsp
    have htext : ((ZNode.block key cs).text d).length = (indentStr d ++ (key ++ [':'])).length + 1 + (zforestText (d + 1) cs).length := by
      simp [ZNode.text]; omega
    have hmore' : ∀ sp ∈ more.head?, st.pos + ((indentStr d ++ (key ++ [':'])).length + 1) + (segsText (zforestSegs (d + 1) cs)).length ≤ sp.start := by
      intro sp h
      have := hmore sp h
      rw [htext, zforestText_segs] at this
      omega
    obtain ⟨f1, f2, _⟩ := framed r1 (by
      rw [hsp]
      intro sp hsp'
      have := segSpans_ahead env (zforestSegs (d + 1) cs) _ more hmore' sp hsp'
      simp only [List.length_append, List.length_cons, List.length_nil, indentStr_length] at this hhlen ⊢
      omega)
    have p1 : s1.pos = st.pos + ((indentStr d ++ (key ++ [':'])).length + 1) := by
      simp only [List.length_append, List.length_cons, List.length_nil, indentStr_length] at f2 hhlen ⊢
      omega
    have ah := a1.framed (dpos := (indentStr d ++ (key ++ [':'])).length + 1) p1
    obtain ⟨k2, s2, r2, a2⟩ := run_zforest env lenient cs (d + 1) (setSpans s1 st.spans) rest more ah.blank ah.col hok.2.2
      (by rw [setSpans_spans, hsp, setSpans_pos, p1])
      (by rw [setSpans_pos, p1, zforestText_segs]; exact hmore')
    refine ⟨indentSteps d + 3 + k2, s2, ?_, ?_⟩
    · have := Run.trans f1 r2
      simpa [ZNode.text, List.append_assoc] using this
    · have h := ah.trans a2
      rw [ah.line] at h
      refine ⟨h.spans, h.blank, ?_, ?_, ?_, h.stack, ?_, h.col⟩
      · rw [h.pos, htext]
      · rw [h.toks]; rfl
      · rw [h.repairs]; rfl
      · rw [h.line]; rfl
/-- **a list of sibling nodes at depth `d`**, any depth and width below, any number of zones. -/
theorem run_zforest (env : Env) (lenient : Bool) : ∀ (ns : List ZNode) (d : Nat) (st : LState) (rest : Str) (more : List Span),
    st.blank = false → st.col = 1 → zforestOK ns →
    st.spans = segSpans env st.pos (zforestSegs d ns) ++ more →
    (∀ sp ∈ more.head?, st.pos + (zforestText d ns).length ≤ sp.start) →
    ∃ k st', Run env lenient k st (zforestText d ns ++ rest) st' rest ∧
      AdvLS st st' (zforestToksRev env d st.line ns) (zforestRepsRev d st.line ns) (zforestNLines ns) (zforestText d ns).length more
  | [], d, st, rest, more, hb, hc, _, hsp, _ =>
    ⟨0, st, by simpa [zforestText] using Run.refl st rest,
      ⟨by simpa [zforestSegs, segSpans] using hsp, hb, by simp [zforestText], by simp [zforestToksRev], by simp [zforestRepsRev], rfl,
       by simp [zforestNLines], hc⟩⟩
  | n :: ns, d, st, rest, more, hb, hc, hok, hsp, hmore => by
    simp only [zforestOK] at hok
    simp only [zforestSegs, segSpans_append, List.append_assoc] at hsp
    have htext : (zforestText d (n :: ns)).length = (n.text d).length + (zforestText d ns).length := by
      simp [zforestText]
    have hmore1 : ∀ sp ∈ (segSpans env (st.pos + (segsText (n.segs d)).length) (zforestSegs d ns) ++ more).head?,
        st.pos + (n.text d).length ≤ sp.start := by
      rw [ZNode.text_segs]
      apply segSpans_ahead
      intro sp h
      have := hmore sp h
      rw [htext, ZNode.text_segs, zforestText_segs] at this
      omega
    obtain ⟨k1, s1, r1, a1⟩ := run_znode env lenient n d st (zforestText d ns ++ rest) _ hb hc hok.1 hsp hmore1
    obtain ⟨k2, s2, r2, a2⟩ := run_zforest env lenient ns d s1 rest more a1.blank a1.col hok.2
      (by rw [a1.spans, a1.pos, ZNode.text_segs])
      (by intro sp h; have := hmore sp h; rw [htext] at this; rw [a1.pos]; omega)
    refine ⟨k1 + k2, s2, ?_, ?_⟩
    · have := Run.trans r1 r2
      simpa [zforestText, List.append_assoc] using this
    · have h := a1.trans a2
      rw [a1.line] at h
      refine ⟨h.spans, h.blank, by rw [h.pos, htext], ?_, ?_, h.stack, ?_, h.col⟩
      · rw [h.toks]; rfl
      · rw [h.repairs]; rfl
      · rw [h.line]; rfl
end


/-! ### well-formed segments of a forest -/

/-- everything `Seg.OK` and `Seg.noTab` ask, except NFC-stability. -/
def Seg.WF : Seg → Prop
  | .plain l => Clean l ∧ fenceLine l = none
  | .zone C _ m t => isMarker m = true ∧ tagTextOK t = true ∧ ∀ l ∈ C, NoNl l ∧ contentLineOK m l = true

/-- the lines of a segment that ARE passed through NFC: a plain line, the two fence lines of a zone — not the content. -/
def Seg.nfcLines : Seg → List Str
  | .plain l => [l]
  | .zone _ ind m t => [fenceOpenLine ind m t, fenceCloseLine ind m]

def segsNfcLines : List Seg → List Str
  | [] => []
  | s :: r => s.nfcLines ++ segsNfcLines r

theorem segsNfcLines_append (a b : List Seg) : segsNfcLines (a ++ b) = segsNfcLines a ++ segsNfcLines b := by
  induction a with
  | nil => rfl
  | cons s r ih => simp [segsNfcLines, ih]

theorem mem_segsNfcLines {s : Seg} {segs : List Seg} (hs : s ∈ segs) : ∀ l ∈ s.nfcLines, l ∈ segsNfcLines segs := by
  induction segs with
  | nil => simp at hs
  | cons x r ih =>
    intro l hl
    simp only [segsNfcLines, List.mem_append]
    rcases List.mem_cons.mp hs with h | h
    · subst h; exact Or.inl hl
    · exact Or.inr (ih h l hl)

theorem Seg.ok_of_wf (env : Env) (s : Seg) (hw : s.WF) (hn : ∀ l ∈ s.nfcLines, env.nfc l = l) : s.OK env ∧ s.noTab := by
  cases s with
  | plain l => exact ⟨⟨fun d hd => (hw.1 d hd).1, hw.2, hn l (by simp [Seg.nfcLines])⟩, fun d hd => (hw.1 d hd).2⟩
  | zone C ind m t =>
    exact ⟨⟨hw.1, hw.2.1, hw.2.2, hn _ (by simp [Seg.nfcLines]), hn _ (by simp [Seg.nfcLines])⟩, trivial⟩

theorem bodyOK_zkey (key : Str) (h : isIdentifierText key = true) : BodyOK (keyLine key) := by
  refine ⟨keyLine_clean key h, ?_⟩
  obtain ⟨c, t, hk, h1, h2, h3⟩ := identText_cons key h
  exact ⟨c, t ++ "::".toList, by simp [keyLine, hk], h1, h2, h3⟩

theorem plain_wf (d : Nat) (b : Str) (h : BodyOK b) : (Seg.plain (indentStr d ++ b)).WF :=
  ⟨rowText_clean (d, b) h, rowText_fence (d, b) h⟩

mutual
theorem ZNode.segs_wf : ∀ (n : ZNode) (d : Nat), n.OK → ∀ s ∈ n.segs d, s.WF
  | .line ln, d, hok, s, hs => by
    simp only [ZNode.segs, List.mem_singleton] at hs
    subst hs; exact plain_wf d _ (bodyOK_line ln (by simpa [ZNode.OK] using hok))
  | .zone key marker trailing C, d, hok, s, hs => by
    obtain ⟨hk1, _, hm, ht, hC⟩ := hok
    simp only [ZNode.segs, List.mem_cons, List.mem_nil_iff, or_false] at hs
    rcases hs with h | h
    · subst h; exact plain_wf d _ (bodyOK_zkey key hk1)
    · subst h; exact ⟨hm, ht, hC⟩
  | .block key cs, d, hok, s, hs => by
    simp only [ZNode.OK] at hok
    simp only [ZNode.segs, List.mem_cons] at hs
    rcases hs with h | h
    · subst h; exact plain_wf d _ (bodyOK_header key hok.1)
    · exact zforestSegs_wf cs (d + 1) hok.2.2 s h
theorem zforestSegs_wf : ∀ (ns : List ZNode) (d : Nat), zforestOK ns → ∀ s ∈ zforestSegs d ns, s.WF
  | [], d, _, s, hs => by simp [zforestSegs] at hs
  | n :: ns, d, hok, s, hs => by
    simp only [zforestOK] at hok
    simp only [zforestSegs, List.mem_append] at hs
    rcases hs with h | h
    · exact ZNode.segs_wf n d hok.1 s h
    · exact zforestSegs_wf ns d hok.2 s h
end

theorem segSpans_ok (env : Env) : ∀ (segs : List Seg) (off : Nat), SpansOK (segSpans env off segs) := by
  intro segs
  induction segs with
  | nil => intro off sp h; simp [segSpans] at h
  | cons s r ih =>
    intro off sp h
    cases s with
    | plain l => exact ih _ sp (by simpa [segSpans] using h)
    | zone C ind m t =>
      simp only [segSpans, List.mem_cons] at h
      rcases h with h | h
      · subst h
        have : 0 < (zoneSpanText C ind m t).length := by simp [zoneSpanText]; omega
        simp only; omega
      · exact ih _ sp h

/-! ### the whole document -/

/-- canonical text of a document whose body is a forest of lines, blocks and zone assignments. -/
def zdocText (name : Str) (nodes : List ZNode) : Str :=
  envLine name ++ '\n' :: (zforestText 0 nodes ++ ("===END===".toList ++ ['\n']))

def zdocSegs (name : Str) (nodes : List ZNode) : List Seg :=
  .plain (envLine name) :: (zforestSegs 0 nodes ++ [.plain "===END===".toList])

theorem zdocText_segs (name : Str) (nodes : List ZNode) : zdocText name nodes = segsText (zdocSegs name nodes) := by
  simp [zdocText, zdocSegs, segsText, segsText_append, Seg.text, zforestText_segs]

/-- the lines of the document that are passed through NFC (all but the zone contents), and the empty last line. -/
def zdocNfcLines (name : Str) (nodes : List ZNode) : List Str := segsNfcLines (zdocSegs name nodes) ++ [[]]

/-- its tokens, newest first (without EOF). -/
def zdocToksRev (env : Env) (name : Str) (nodes : List ZNode) : List Token :=
  [tNewline (zforestNLines nodes + 2) 10, tEnvEnd (zforestNLines nodes + 2) 1] ++ zforestToksRev env 0 2 nodes ++
  [tNewline 1 (1 + (name.length + 6)), tEnvStart name 1 1]

/-- its tokens in reading order, EOF included. -/
def zdocToks (env : Env) (name : Str) (nodes : List ZNode) : List Token :=
  (tEof (zforestNLines nodes + 3) 1 :: zdocToksRev env name nodes).reverse

theorem zdocSegs_wf (name : Str) (nodes : List ZNode) (hn : isEnvName name = true) (hok : zforestOK nodes) :
    ∀ s ∈ zdocSegs name nodes, s.WF := by
  intro s hs
  simp only [zdocSegs, List.mem_cons, List.mem_append, List.mem_nil_iff, or_false] at hs
  rcases hs with h | h | h
  · subst h; exact ⟨envLine_clean name hn, envLine_fenceFree name⟩
  · exact zforestSegs_wf nodes 0 hok s h
  · subst h; exact ⟨clean_lit _ (by decide), by decide⟩

/-- **the main loop on the whole document**: from the initial state, with ONE SPAN PER ZONE pending, the iterations
consume the text. -/
theorem run_zdoc (env : Env) (lenient : Bool) (name : Str) (nodes : List ZNode)
    (hn : isEnvName name = true) (hne : name ≠ "END".toList) (hok : zforestOK nodes) :
    ∃ k st', Run env lenient k ({ spans := segSpans env 0 (zdocSegs name nodes) } : LState) (zdocText name nodes) st' [] ∧
      st'.toks = zdocToksRev env name nodes ∧ st'.repairs = zforestRepsRev 0 2 nodes ∧ st'.stack = [] ∧
      st'.line = zforestNLines nodes + 3 ∧ st'.col = 1 := by
  let st0 : LState := { spans := segSpans env 0 (zdocSegs name nodes) }
  let tail : Str := zforestText 0 nodes ++ ("===END===".toList ++ ['\n'])
  have hspans : st0.spans = segSpans env ((envLine name).length + 1) (zforestSegs 0 nodes) := by
    show segSpans env 0 (zdocSegs name nodes) = _
    simp only [zdocSegs, segSpans, segSpans_append, Nat.zero_add, List.append_nil]
  -- `===NAME===`, line break: through the frame lemma
  obtain ⟨s1, e1, a1⟩ := step_envStart env lenient (setSpans st0 []) name ('\n' :: tail) rfl hn hne
  obtain ⟨s2, e2, a2⟩ := step_newline env lenient s1 tail a1.ready
  have r12 : Run env lenient 2 (setSpans st0 []) (envLine name ++ '\n' :: tail) s2 tail :=
    Run.cons' (by simp [envLine]) (by simpa [envLine] using e1) (Run.one e2)
  have hlen : (envLine name ++ '\n' :: tail).length - tail.length = (envLine name).length + 1 := by
    simp only [List.length_append, List.length_cons]; omega
  obtain ⟨f1, f2, _⟩ := framed r12 (by
    rw [hlen, hspans]
    intro sp hsp
    have := segSpans_ahead env (zforestSegs 0 nodes) ((envLine name).length + 1) [] (by simp) sp (by simpa using hsp)
    show 0 + _ ≤ _
    omega)
  have p2 : s2.pos = (envLine name).length + 1 := by
    have : st0.pos = 0 := rfl
    simp only [List.length_append, List.length_cons, this] at f2 ⊢; omega
  have a12 := a1.trans a2
  -- the forest
  obtain ⟨k3, s3, r3, a3⟩ := run_zforest env lenient nodes 0 (setSpans s2 st0.spans) ("===END===".toList ++ ['\n']) []
    a2.ready.blank a2.col hok (by rw [setSpans_spans, setSpans_pos, p2, hspans, List.append_nil]) (by simp)
  have hr3 : Ready s3 := ⟨a3.spans, a3.blank⟩
  -- `===END===`, line break
  obtain ⟨s4, e4, a4⟩ := step_envEnd env lenient s3 ['\n'] hr3
  obtain ⟨s5, e5, a5⟩ := step_newline env lenient s4 [] a4.ready
  have run : Run env lenient (2 + (k3 + 2)) st0 (zdocText name nodes) s5 [] :=
    Run.trans f1 (Run.trans r3 (Run.cons' (by simp) e4 (Run.one e5)))
  refine ⟨_, s5, run, ?_, ?_, ?_, ?_, a5.col⟩
  · have l2 : (setSpans s2 st0.spans).line = 2 := by
      show s2.line = 2
      rw [a12.line]; rfl
    have l3 : s3.line = zforestNLines nodes + 2 := by rw [a3.line, l2]; omega
    have l4 : s4.line = zforestNLines nodes + 2 := by rw [a4.line, l3]
    have c3 : s3.col = 1 := a3.col
    have c4 : s4.col = 10 := by rw [a4.col, c3]
    have t2 : (setSpans s2 st0.spans).toks = [tNewline 1 (1 + (name.length + 6)), tEnvStart name 1 1] := by
      show s2.toks = _
      rw [a12.toks]
      have l1 : s1.line = 1 := by rw [a1.line]; rfl
      have c1 : s1.col = 1 + (name.length + 6) := a1.col
      rw [l1, c1]; rfl
    rw [a5.toks, a4.toks, a3.toks, t2, l2, l3, l4, c3, c4]
    simp [zdocToksRev]
  · have l2 : (setSpans s2 st0.spans).line = 2 := by
      show s2.line = 2
      rw [a12.line]; rfl
    have rp2 : (setSpans s2 st0.spans).repairs = [] := by
      show s2.repairs = _
      rw [a12.repairs]; rfl
    rw [a5.repairs, a4.repairs, a3.repairs, rp2, l2]; simp
  · rw [a5.stack, a4.stack, a3.stack]
    show s2.stack = []
    rw [a12.stack]; rfl
  · rw [a5.line, a4.line, a3.line]
    have l2 : (setSpans s2 st0.spans).line = 2 := by
      show s2.line = 2
      rw [a12.line]; rfl
    rw [l2]; omega

/-- **The lexer on the canonical text of a document with literal zones anywhere** — a forest of `KEY::scalar` lines, `KEY:`
blocks and zone assignments in ANY order, at ANY depth, ANY number of zones, each with ANY marker of three or more
backticks, any tag text and ANY content lines none of which closes its fence; both lexer modes; every environment whose NFC
leaves the lines OUTSIDE the zone contents alone (nothing is assumed about NFC, or anything else in `env`, on the
contents): `tokenize` succeeds with exactly `zdocToks` — for every zone FENCE_OPEN (marker, tag, column of the first
backtick) / LITERAL_CONTENT (the content lines joined by line breaks, exactly) / FENCE_CLOSE / NEWLINE, every other line
tokenised as without the zones, on the right line numbers — and the only receipts are the identifier notes of keys and
bare words outside the zones. -/
theorem tokenize_ztree (env : Env) (lenient : Bool) (name : Str) (nodes : List ZNode)
    (hn : isEnvName name = true) (hne : name ≠ "END".toList) (hok : zforestOK nodes)
    (hnfc : ∀ l ∈ zdocNfcLines name nodes, env.nfc l = l) :
    tokenize env (zdocText name nodes) lenient = .ok (zdocToks env name nodes, (zforestRepsRev 0 2 nodes).reverse) := by
  have hwf := zdocSegs_wf name nodes hn hok
  have hall : ∀ s ∈ zdocSegs name nodes, s.OK env ∧ s.noTab := fun s hs =>
    Seg.ok_of_wf env s (hwf s hs) (fun l hl => hnfc l (by
      simp only [zdocNfcLines, List.mem_append]; exact Or.inl (mem_segsNfcLines hs l hl)))
  have hnorm := normalize_segs env (zdocSegs name nodes) (fun s hs => (hall s hs).1) (hnfc [] (by simp [zdocNfcLines]))
  have htab := tabCheck_segsText env (zdocSegs name nodes) (fun s hs => (hall s hs).2)
  obtain ⟨k, st', run, ht, hr, hs, hl, hc⟩ := run_zdoc env lenient name nodes hn hne hok
  have hloop := loop_of_run env lenient _ _ st' (zdocText name nodes) run (segSpans_ok env _ 0)
  rw [← zdocText_segs] at hnorm htab
  unfold tokenize
  simp only [hnorm, htab, hloop, bind, Except.bind, hs, List.getLast?_nil, ht, hr, hl, hc]
  rfl

end Octave
