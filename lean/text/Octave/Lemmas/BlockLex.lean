import Octave.Lemmas.FlatEmit
/-!
The lexer and the emitter on documents with nested BLOCKS (`KEY:` header line, children two spaces deeper), any depth and
width: new steps `step_indent` / `step_block` in the `Adv` format of `FlatLex`, lines and headers at depth `d`, the tree by
structural recursion (`run_tree`), the whole document (`tokenize_tree`), and the emitter (`emit_tree`).
-/
namespace Octave
open Lexer Scan Emitter

/-! ### two new tokens -/

def tIndent (n l c : Nat) : Token := { type := .indent, value := .nat n, line := l, col := c }
def tBlock (l c : Nat) : Token := { type := .block, value := .str [':'], line := l, col := c }

theorem Run.one' {env : Env} {lenient : Bool} {st st1 : LState} {s s1 : Str} (hne : s ≠ [])
    (h : step env lenient st s = .ok (st1, s1)) : Run env lenient 1 st s st1 s1 := by
  obtain ⟨c, r, rfl⟩ := List.exists_cons_of_ne_nil hne
  exact Run.one h

theorem Run.cons' {env : Env} {lenient : Bool} {n : Nat} {st st1 st' : LState} {s s1 s' : Str} (hne : s ≠ [])
    (h : step env lenient st s = .ok (st1, s1)) (r : Run env lenient n st1 s1 st' s') : Run env lenient (n + 1) st s st' s' := by
  obtain ⟨c, t, rfl⟩ := List.exists_cons_of_ne_nil hne
  exact Run.cons h r

theorem Run.cast {env : Env} {lenient : Bool} {n m : Nat} {st st' : LState} {s s' : Str} (h : n = m)
    (r : Run env lenient n st s st' s') : Run env lenient m st s st' s' := h ▸ r

theorem Adv.refl (st : LState) (hr : Ready st) : Adv st st [] [] 0 st.col st.prev :=
  ⟨hr, rfl, rfl, rfl, rfl, rfl, rfl⟩

theorem takeWhile_spaces (n : Nat) (c : Char) (rest : Str) (hc : c ≠ ' ') :
    takeWhile (· == ' ') (List.replicate n ' ' ++ c :: rest) = (List.replicate n ' ', c :: rest) := by
  apply takeWhile_append_stop
  · intro x hx
    have : x = ' ' := (List.mem_replicate.mp hx).2
    simp [this]
  · intro d hd
    have : d = c := by simpa using hd.symm
    subst this
    simpa using hc

/-- **indentation**: at column 1, a run of `n > 0` spaces followed by something other than a space or a line end is ONE
INDENT token carrying `n` (no receipt); the column moves to `1 + n`. -/
theorem step_indent (env : Env) (lenient : Bool) (st : LState) (n : Nat) (c : Char) (rest : Str) (hr : Ready st)
    (hcol : st.col = 1) (hn : 0 < n) (hc : c ≠ ' ') (hnl : c ≠ '\n') :
    ∃ st', step env lenient st (List.replicate n ' ' ++ c :: rest) = .ok (st', c :: rest) ∧
      Adv st st' [tIndent n st.line 1] [] 0 (1 + n) (some ' ') := by
  obtain ⟨m, rfl⟩ : ∃ m, n = m + 1 := ⟨n - 1, by omega⟩
  have htw := takeWhile_spaces (m + 1) c rest hc
  have hnl' : (c != '\n') = true := by simpa using hnl
  rw [List.replicate_succ, List.cons_append] at htw ⊢
  refine ⟨{ st with pos := st.pos + (m + 1), prev := some ' ', col := st.col + (m + 1), blank := false,
                    toks := { type := .indent, value := .nat (m + 1), line := st.line, col := st.col } :: st.toks }, ?_, ?_⟩
  · unfold step
    simp only [hr.noSpan, Bool.false_eq_true, if_false, beq_self_eq_true, if_true, hcol, htw, hnl',
      List.length_cons, List.length_replicate]
  · refine ⟨⟨hr.spans, rfl⟩, ?_, rfl, rfl, rfl, ?_, rfl⟩
    · show _ :: st.toks = _
      rw [hcol]; rfl
    · show st.col + (m + 1) = _
      rw [hcol]

theorem alias_colon : alias? [':'] = none := by decide

/-- **block operator**: a `:` not followed by another `:` is one BLOCK token. -/
theorem step_block (env : Env) (lenient : Bool) (st : LState) (rest : Str) (hr : Ready st)
    (hrest : rest.head? ≠ some ':') :
    ∃ st', step env lenient st (':' :: rest) = .ok (st', rest) ∧
      Adv st st' [tBlock st.line st.col] [] 0 (st.col + 1) (some ':') := by
  let m : Match := { type := .block, value := .str [':'], text := [':'], rest := rest }
  have hm0 : matchPattern env false st.prev (':' :: rest) = .ok (some m) := by
    unfold matchPattern
    have hd : env.isDigit ':' = false := isDigit_ascii_false env ':' (by decide) (by decide)
    simp only [Bool.false_eq_true, if_false, hd]
    rw [if_neg (by decide), if_neg (by decide), if_neg (by decide), if_neg (by decide)]
    unfold matchPunct
    rw [if_neg (by decide), if_pos (by decide)]
    split
    · next r1 => exact absurd rfl hrest
    · rfl
  have hm : matchPattern env st.blank st.prev (':' :: rest) = .ok (some m) := by rw [hr.blank]; exact hm0
  refine ⟨_, pattern_step_eq env lenient st ':' rest m hr.noSpan (by decide) hm (by simp [m]) (by simp [m]), ?_⟩
  refine ⟨⟨hr.spans, by simp [patNext, hr.blank]⟩, rfl, rfl, rfl, ?_, ?_, rfl⟩
  · simp [patNext, m, advancePos]
  · simp [patNext, m, advancePos]

end Octave

namespace Octave
open Lexer Scan Emitter

/-! ### a line and a block header at depth `d` -/

/-- the INDENT token that opens a line at depth `d` (none at depth 0). -/
def indentToksRev (d l : Nat) : List Token := if d = 0 then [] else [tIndent (2 * d) l 1]
/-- iterations of the main loop spent on the indentation of a line at depth `d`. -/
def indentSteps (d : Nat) : Nat := if d = 0 then 0 else 1

/-- the indentation of a line at depth `d`, followed by a char that is neither a space nor a line end. -/
theorem run_indent (env : Env) (lenient : Bool) (st : LState) (d : Nat) (c : Char) (rest : Str) (hr : Ready st)
    (hcol : st.col = 1) (hc : c ≠ ' ') (hnl : c ≠ '\n') :
    ∃ st' p, Run env lenient (indentSteps d) st (indentStr d ++ c :: rest) st' (c :: rest) ∧
      Adv st st' (indentToksRev d st.line) [] 0 (1 + 2 * d) p := by
  cases d with
  | zero =>
    refine ⟨st, st.prev, by simpa [indentStr, indentSteps] using Run.refl st (c :: rest), ?_⟩
    have := Adv.refl st hr
    rw [hcol] at this
    exact this
  | succ k =>
    obtain ⟨s1, e1, a1⟩ := step_indent env lenient st (2 * (k + 1)) c rest hr hcol (by omega) hc hnl
    refine ⟨s1, some ' ', ?_, ?_⟩
    · have : Run env lenient 1 st (indentStr (k + 1) ++ c :: rest) s1 (c :: rest) := Run.one' (by simp) e1
      simpa [indentSteps] using this
    · simpa [indentToksRev] using a1

theorem identText_cons (s : Str) (h : isIdentifierText s = true) :
    ∃ c t, s = c :: t ∧ c ≠ ' ' ∧ c ≠ '\n' ∧ c ≠ '`' := by
  cases s with
  | nil => simp [isIdentifierText] at h
  | cons c t =>
    refine ⟨c, t, rfl, (identText_head _ h c rfl).1, (identText_clean _ h c (by simp)).1, (identText_head _ h c rfl).2⟩

/-- tokens of a `KEY::value` line at depth `d`, line `l`, newest first. -/
def FLine.toksRevAt (ln : FLine) (d l : Nat) : List Token := ln.toksRev l (1 + 2 * d) ++ indentToksRev d l

/-- **one line at depth `d`**: 4 iterations (5 when indented). -/
theorem run_tline (env : Env) (lenient : Bool) (st : LState) (ln : FLine) (d : Nat) (rest : Str) (hr : Ready st)
    (hcol : st.col = 1) (hok : ln.OK) :
    ∃ st', Run env lenient (indentSteps d + 4) st (indentStr d ++ (ln.text ++ '\n' :: rest)) st' rest ∧
      AdvL st st' (ln.toksRevAt d st.line) (ln.repsRev st.line (1 + 2 * d)) 1 := by
  obtain ⟨kc, kt, hkey, h1, h2, _⟩ := identText_cons ln.key hok.1
  have hshape : ln.text ++ '\n' :: rest = kc :: (kt ++ (':' :: ':' :: ln.v.text) ++ '\n' :: rest) := by
    simp [FLine.text, hkey]
  obtain ⟨s1, p1, r1, a1⟩ := run_indent env lenient st d kc (kt ++ (':' :: ':' :: ln.v.text) ++ '\n' :: rest) hr hcol h1 h2
  rw [← hshape] at r1
  obtain ⟨s2, r2, a2⟩ := run_line env lenient s1 ln rest a1.ready hok
  refine ⟨s2, Run.trans r1 r2, ?_⟩
  have l1 : s1.line = st.line := by rw [a1.line]; rfl
  have c1 : s1.col = 1 + 2 * d := a1.col
  rw [l1, c1] at a2
  refine ⟨a2.ready, ?_, ?_, ?_, ?_, a2.col⟩
  · rw [a2.toks, a1.toks]; simp [FLine.toksRevAt]
  · rw [a2.repairs, a1.repairs]; simp
  · rw [a2.stack, a1.stack]
  · rw [a2.line, l1]

/-- tokens of a block header `KEY:` at depth `d`, line `l`, newest first. -/
def headerToksRev (key : Str) (d l : Nat) : List Token :=
  [tNewline l (1 + 2 * d + key.length + 1), tBlock l (1 + 2 * d + key.length), tIdent key l (1 + 2 * d)] ++ indentToksRev d l

/-- **a block header at depth `d`**: 3 iterations (4 when indented): INDENT?, IDENTIFIER, BLOCK, NEWLINE. -/
theorem run_header (env : Env) (lenient : Bool) (st : LState) (key : Str) (d : Nat) (rest : Str) (hr : Ready st)
    (hcol : st.col = 1) (hid : isIdentifierText key = true) (hres : hasReservedPrefix key = false) :
    ∃ st', Run env lenient (indentSteps d + 3) st (indentStr d ++ (key ++ ':' :: '\n' :: rest)) st' rest ∧
      AdvL st st' (headerToksRev key d st.line) (identifierRepairs key st.line (1 + 2 * d)).reverse 1 := by
  obtain ⟨kc, kt, hkey, h1, h2, _⟩ := identText_cons key hid
  have hshape : key ++ ':' :: '\n' :: rest = kc :: (kt ++ ':' :: '\n' :: rest) := by simp [hkey]
  obtain ⟨s1, p1, r1, a1⟩ := run_indent env lenient st d kc (kt ++ ':' :: '\n' :: rest) hr hcol h1 h2
  rw [← hshape] at r1
  obtain ⟨s2, e2, a2⟩ := step_ident env lenient s1 key (':' :: '\n' :: rest) a1.ready hid hres (termOK_colon env _)
  obtain ⟨s3, e3, a3⟩ := step_block env lenient s2 ('\n' :: rest) a2.ready (by simp)
  obtain ⟨s4, e4, a4⟩ := step_newline env lenient s3 rest a3.ready
  have run : Run env lenient (indentSteps d + 3) st (indentStr d ++ (key ++ ':' :: '\n' :: rest)) s4 rest :=
    Run.trans r1 (Run.cons' (by simp) e2 (Run.cons e3 (Run.one e4)))
  refine ⟨s4, run, ?_⟩
  have h := ((a1.trans a2).trans a3).trans a4
  have l1 : s1.line = st.line := by rw [a1.line]; rfl
  have l2 : s2.line = st.line := by rw [a2.line, l1]; rfl
  have l3 : s3.line = st.line := by rw [a3.line, l2]; rfl
  have c1 : s1.col = 1 + 2 * d := a1.col
  have c2 : s2.col = 1 + 2 * d + key.length := by rw [a2.col, c1]
  have c3 : s3.col = 1 + 2 * d + key.length + 1 := by rw [a3.col, c2]
  rw [l1, l2, l3, c1, c2, c3] at h
  exact ⟨h.ready, by rw [h.toks]; simp [headerToksRev], by rw [h.repairs]; simp, h.stack, by rw [h.line], h.col⟩

end Octave

namespace Octave
open Lexer Scan Emitter

/-! ### trees -/

/-- content of a document body with nested blocks: `KEY::scalar` lines and `KEY:` blocks with children, any depth and
width.  A block may have NO children (the emitter then prints just the header line and the lexer reads it back as
IDENTIFIER BLOCK NEWLINE; whether the *parser* accepts it is the parser half's business). -/
inductive TNode where
  | line (ln : FLine)
  | block (key : Str) (children : List TNode)
  deriving Repr

mutual
/-- the conditions of `FLine.OK` on every line, and block keys are identifiers without a reserved prefix. -/
def TNode.OK : TNode → Prop
  | .line ln => ln.OK
  | .block key cs => isIdentifierText key = true ∧ hasReservedPrefix key = false ∧ treeOK cs
def treeOK : List TNode → Prop
  | [] => True
  | n :: ns => n.OK ∧ treeOK ns
end

mutual
/-- canonical text of a node at depth `d` (with its line ends). -/
def TNode.text (d : Nat) : TNode → Str
  | .line ln => indentStr d ++ (ln.text ++ ['\n'])
  | .block key cs => indentStr d ++ (key ++ ':' :: '\n' :: treeText (d + 1) cs)
def treeText (d : Nat) : List TNode → Str
  | [] => []
  | n :: ns => n.text d ++ treeText d ns
end

mutual
/-- number of text lines of a node. -/
def TNode.nlines : TNode → Nat
  | .line _ => 1
  | .block _ cs => 1 + treeNLines cs
def treeNLines : List TNode → Nat
  | [] => 0
  | n :: ns => n.nlines + treeNLines ns
end

mutual
/-- tokens of a node at depth `d` whose first line is line `l`, newest first. -/
def TNode.toksRev (d l : Nat) : TNode → List Token
  | .line ln => ln.toksRevAt d l
  | .block key cs => treeToksRev (d + 1) (l + 1) cs ++ headerToksRev key d l
def treeToksRev (d l : Nat) : List TNode → List Token
  | [] => []
  | n :: ns => treeToksRev d (l + n.nlines) ns ++ n.toksRev d l
end

mutual
/-- receipts (identifier notes only), newest first. -/
def TNode.repsRev (d l : Nat) : TNode → List Repair
  | .line ln => ln.repsRev l (1 + 2 * d)
  | .block key cs => treeRepsRev (d + 1) (l + 1) cs ++ (identifierRepairs key l (1 + 2 * d)).reverse
def treeRepsRev (d l : Nat) : List TNode → List Repair
  | [] => []
  | n :: ns => treeRepsRev d (l + n.nlines) ns ++ n.repsRev d l
end

mutual
/-- iterations of the lexer's main loop. -/
def TNode.steps (d : Nat) : TNode → Nat
  | .line _ => indentSteps d + 4
  | .block _ cs => indentSteps d + 3 + treeSteps (d + 1) cs
def treeSteps (d : Nat) : List TNode → Nat
  | [] => 0
  | n :: ns => n.steps d + treeSteps d ns
end

theorem AdvL.trans {a b c : LState} {t1 t2 : List Token} {r1 r2 : List Repair} {d1 d2 : Nat}
    (h1 : AdvL a b t1 r1 d1) (h2 : AdvL b c t2 r2 d2) : AdvL a c (t2 ++ t1) (r2 ++ r1) (d1 + d2) :=
  ⟨h2.ready, by rw [h2.toks, h1.toks, List.append_assoc], by rw [h2.repairs, h1.repairs, List.append_assoc],
   by rw [h2.stack, h1.stack], by rw [h2.line, h1.line, Nat.add_assoc], h2.col⟩

mutual
/-- **one node at depth `d`** (a line, or a block with all its descendants). -/
theorem run_node (env : Env) (lenient : Bool) : ∀ (n : TNode) (d : Nat) (st : LState) (rest : Str),
    Ready st → st.col = 1 → n.OK →
    ∃ st', Run env lenient (n.steps d) st (n.text d ++ rest) st' rest ∧
      AdvL st st' (n.toksRev d st.line) (n.repsRev d st.line) n.nlines
  | .line ln, d, st, rest, hr, hc, hok => by
    obtain ⟨s1, r1, a1⟩ := run_tline env lenient st ln d rest hr hc (by simpa [TNode.OK] using hok)
    refine ⟨s1, ?_, ?_⟩
    · simpa [TNode.text, TNode.steps, List.append_assoc] using r1
    · simpa [TNode.toksRev, TNode.repsRev, TNode.nlines] using a1
  | .block key cs, d, st, rest, hr, hc, hok => by
    simp only [TNode.OK] at hok
    obtain ⟨s1, r1, a1⟩ := run_header env lenient st key d (treeText (d + 1) cs ++ rest) hr hc hok.1 hok.2.1
    obtain ⟨s2, r2, a2⟩ := run_tree env lenient cs (d + 1) s1 rest a1.ready a1.col hok.2.2
    refine ⟨s2, ?_, ?_⟩
    · have := Run.trans r1 r2
      simpa [TNode.text, TNode.steps, List.append_assoc] using this
    · have h := a1.trans a2
      rw [a1.line] at h
      simpa [TNode.toksRev, TNode.repsRev, TNode.nlines] using h
/-- **a list of sibling nodes at depth `d`**, any depth and width below. -/
theorem run_tree (env : Env) (lenient : Bool) : ∀ (ns : List TNode) (d : Nat) (st : LState) (rest : Str),
    Ready st → st.col = 1 → treeOK ns →
    ∃ st', Run env lenient (treeSteps d ns) st (treeText d ns ++ rest) st' rest ∧
      AdvL st st' (treeToksRev d st.line ns) (treeRepsRev d st.line ns) (treeNLines ns)
  | [], d, st, rest, hr, hc, _ =>
    ⟨st, by simpa [treeText, treeSteps] using Run.refl st rest,
      ⟨hr, by simp [treeToksRev], by simp [treeRepsRev], rfl, by simp [treeNLines], hc⟩⟩
  | n :: ns, d, st, rest, hr, hc, hok => by
    simp only [treeOK] at hok
    obtain ⟨s1, r1, a1⟩ := run_node env lenient n d st (treeText d ns ++ rest) hr hc hok.1
    obtain ⟨s2, r2, a2⟩ := run_tree env lenient ns d s1 rest a1.ready a1.col hok.2
    refine ⟨s2, ?_, ?_⟩
    · have := Run.trans r1 r2
      simpa [treeText, treeSteps, List.append_assoc] using this
    · have h := a1.trans a2
      rw [a1.line] at h
      simpa [treeToksRev, treeRepsRev, treeNLines] using h
end

end Octave

namespace Octave
open Lexer Scan Emitter

/-! ### the lines of the text: (depth, body) rows -/

mutual
/-- the lines of a node as (depth, text after the indentation). -/
def TNode.rows (d : Nat) : TNode → List (Nat × Str)
  | .line ln => [(d, ln.text)]
  | .block key cs => (d, key ++ [':']) :: treeRows (d + 1) cs
def treeRows (d : Nat) : List TNode → List (Nat × Str)
  | [] => []
  | n :: ns => n.rows d ++ treeRows d ns
end

/-- a row as a text line: two spaces per level, then the body. -/
def rowText (r : Nat × Str) : Str := indentStr r.1 ++ r.2

def unlines : List Str → Str
  | [] => []
  | l :: ls => l ++ '\n' :: unlines ls

theorem unlines_append (a b : List Str) : unlines (a ++ b) = unlines a ++ unlines b := by
  induction a with
  | nil => rfl
  | cons l ls ih => simp [unlines, ih]

mutual
theorem TNode.text_rows : ∀ (n : TNode) (d : Nat), n.text d = unlines ((n.rows d).map rowText)
  | .line ln, d => by simp [TNode.text, TNode.rows, rowText, unlines]
  | .block key cs, d => by
    simp [TNode.text, TNode.rows, rowText, unlines, treeText_rows cs (d + 1)]
theorem treeText_rows : ∀ (ns : List TNode) (d : Nat), treeText d ns = unlines ((treeRows d ns).map rowText)
  | [], d => rfl
  | n :: ns, d => by
    simp [treeText, treeRows, unlines_append, TNode.text_rows n d, treeText_rows ns d]
end

mutual
theorem TNode.rows_length : ∀ (n : TNode) (d : Nat), (n.rows d).length = n.nlines
  | .line ln, d => rfl
  | .block key cs, d => by simp [TNode.rows, TNode.nlines, treeRows_length cs (d + 1)]; omega
theorem treeRows_length : ∀ (ns : List TNode) (d : Nat), (treeRows d ns).length = treeNLines ns
  | [], d => rfl
  | n :: ns, d => by simp [treeRows, treeNLines, TNode.rows_length n d, treeRows_length ns d]
end

/-- a well-formed row body: no line break, no tab, and it starts with an identifier-start character. -/
def BodyOK (b : Str) : Prop := Clean b ∧ ∃ c t, b = c :: t ∧ c ≠ ' ' ∧ c ≠ '\n' ∧ c ≠ '`'

theorem bodyOK_line (ln : FLine) (h : ln.OK) : BodyOK ln.text := by
  refine ⟨line_clean ln h, ?_⟩
  obtain ⟨c, t, hk, h1, h2, h3⟩ := identText_cons ln.key h.1
  exact ⟨c, t ++ (':' :: ':' :: ln.v.text), by simp [FLine.text, hk], h1, h2, h3⟩

theorem bodyOK_header (key : Str) (h : isIdentifierText key = true) : BodyOK (key ++ [':']) := by
  refine ⟨Clean.append (identText_clean key h) (clean_lit _ (by decide)), ?_⟩
  obtain ⟨c, t, hk, h1, h2, h3⟩ := identText_cons key h
  exact ⟨c, t ++ [':'], by simp [hk], h1, h2, h3⟩

mutual
theorem TNode.rows_ok : ∀ (n : TNode) (d : Nat), n.OK → ∀ r ∈ n.rows d, BodyOK r.2
  | .line ln, d, hok, r, hr => by
    simp only [TNode.rows, List.mem_singleton] at hr
    subst hr; exact bodyOK_line ln (by simpa [TNode.OK] using hok)
  | .block key cs, d, hok, r, hr => by
    simp only [TNode.OK] at hok
    simp only [TNode.rows, List.mem_cons] at hr
    rcases hr with h | h
    · subst h; exact bodyOK_header key hok.1
    · exact treeRows_ok cs (d + 1) hok.2.2 r h
theorem treeRows_ok : ∀ (ns : List TNode) (d : Nat), treeOK ns → ∀ r ∈ treeRows d ns, BodyOK r.2
  | [], d, _, r, hr => by simp [treeRows] at hr
  | n :: ns, d, hok, r, hr => by
    simp only [treeOK] at hok
    simp only [treeRows, List.mem_append] at hr
    rcases hr with h | h
    · exact TNode.rows_ok n d hok.1 r h
    · exact treeRows_ok ns d hok.2 r h
end

theorem indent_clean (d : Nat) : Clean (indentStr d) := by
  intro x hx
  have : x = ' ' := (List.mem_replicate.mp hx).2
  subst this; decide

theorem rowText_clean (r : Nat × Str) (h : BodyOK r.2) : Clean (rowText r) := Clean.append (indent_clean r.1) h.1

/-- `fenceLine` skips the leading spaces: a line whose first non-space character is not a backtick is not a fence line. -/
theorem fenceLine_none_of_indented (n : Nat) (c : Char) (t : Str) (h1 : c ≠ ' ') (h2 : c ≠ '`') :
    fenceLine (List.replicate n ' ' ++ c :: t) = none := by
  have e2 : (c == '`') = false := by simpa using h2
  unfold fenceLine
  rw [takeWhile_spaces n c t h1]
  simp [takeWhile, e2]

theorem rowText_fence (r : Nat × Str) (h : BodyOK r.2) : fenceLine (rowText r) = none := by
  obtain ⟨_, c, t, hb, h1, _, h3⟩ := h
  unfold rowText indentStr
  rw [hb]
  exact fenceLine_none_of_indented _ c t h1 h3

/-- exactly `2 * depth` leading spaces. -/
theorem rowText_spaces (r : Nat × Str) (h : BodyOK r.2) :
    takeWhile (· == ' ') (rowText r) = (List.replicate (2 * r.1) ' ', r.2) := by
  obtain ⟨_, c, t, hb, h1, _, _⟩ := h
  unfold rowText indentStr
  rw [hb]
  exact takeWhile_spaces _ c t h1

theorem splitLines_unlines (ls : List Str) (tail : Str) (h : ∀ l ∈ ls, ∀ d ∈ l, d ≠ '\n') :
    splitLines (unlines ls ++ tail) = ls ++ splitLines tail := by
  induction ls with
  | nil => rfl
  | cons l ls ih =>
    have := splitLines_append_nl l (unlines ls ++ tail) (h l (by simp))
    simp only [unlines, List.cons_append, List.append_assoc] at this ⊢
    rw [this, ih (fun x hx => h x (by simp [hx]))]

theorem unlines_noTab (ls : List Str) (h : ∀ l ∈ ls, ∀ d ∈ l, d ≠ '\t') : ∀ d ∈ unlines ls, d ≠ '\t' := by
  induction ls with
  | nil => intro d hd; simp [unlines] at hd
  | cons l ls ih =>
    intro d hd
    simp only [unlines, List.mem_append, List.mem_cons] at hd
    rcases hd with h' | h' | h'
    · exact h l (by simp) d h'
    · subst h'; decide
    · exact ih (fun x hx => h x (by simp [hx])) d h'

/-! ### the whole document -/

/-- canonical text of a document whose body is a tree of blocks and lines. -/
def treeDocText (name : Str) (nodes : List TNode) : Str :=
  "===".toList ++ name ++ "===".toList ++ '\n' :: (treeText 0 nodes ++ ("===END===".toList ++ ['\n']))

/-- its tokens, newest first (without EOF). -/
def treeDocToksRev (name : Str) (nodes : List TNode) : List Token :=
  [tNewline (treeNLines nodes + 2) 10, tEnvEnd (treeNLines nodes + 2) 1] ++ treeToksRev 0 2 nodes ++
  [tNewline 1 (1 + (name.length + 6)), tEnvStart name 1 1]

/-- its tokens in reading order, EOF included. -/
def treeDocToks (name : Str) (nodes : List TNode) : List Token :=
  (tEof (treeNLines nodes + 3) 1 :: treeDocToksRev name nodes).reverse

/-- **the whole document**: `treeSteps 0 nodes + 4` iterations from the initial state consume the text and leave exactly
the expected tokens, the identifier notes as only receipts, an empty bracket stack, line `n + 3`, column 1. -/
theorem run_treeDoc (env : Env) (lenient : Bool) (name : Str) (nodes : List TNode)
    (hn : isEnvName name = true) (hne : name ≠ "END".toList) (hok : treeOK nodes) :
    ∃ st', Run env lenient (treeSteps 0 nodes + 4) ({ spans := [] } : LState) (treeDocText name nodes) st' [] ∧
      st'.toks = treeDocToksRev name nodes ∧ st'.repairs = treeRepsRev 0 2 nodes ∧ st'.stack = [] ∧
      st'.line = treeNLines nodes + 3 ∧ st'.col = 1 := by
  let st0 : LState := { spans := [] }
  obtain ⟨s1, e1, a1⟩ := step_envStart env lenient st0 name ('\n' :: (treeText 0 nodes ++ ("===END===".toList ++ ['\n']))) rfl hn hne
  obtain ⟨s2, e2, a2⟩ := step_newline env lenient s1 (treeText 0 nodes ++ ("===END===".toList ++ ['\n'])) a1.ready
  obtain ⟨s3, r3, a3⟩ := run_tree env lenient nodes 0 s2 ("===END===".toList ++ ['\n']) a2.ready a2.col hok
  obtain ⟨s4, e4, a4⟩ := step_envEnd env lenient s3 ['\n'] a3.ready
  obtain ⟨s5, e5, a5⟩ := step_newline env lenient s4 [] a4.ready
  have run : Run env lenient (treeSteps 0 nodes + 4) st0 (treeDocText name nodes) s5 [] := by
    have tail : Run env lenient (treeSteps 0 nodes + 2) s2 (treeText 0 nodes ++ ("===END===".toList ++ ['\n'])) s5 [] :=
      Run.trans r3 (Run.cons' (by simp) e4 (Run.one e5))
    exact Run.cons' (by simp [treeDocText]) (by simpa [treeDocText] using e1) (Run.cons e2 tail)
  refine ⟨s5, run, ?_, ?_, ?_, ?_, a5.col⟩
  · have l1 : s1.line = 1 := by rw [a1.line]
    have l2 : s2.line = 2 := by rw [a2.line, l1]
    have l3 : s3.line = treeNLines nodes + 2 := by rw [a3.line, l2]; omega
    have l4 : s4.line = treeNLines nodes + 2 := by rw [a4.line, l3]
    have c1 : s1.col = 1 + (name.length + 6) := a1.col
    have c3 : s3.col = 1 := a3.col
    have c4 : s4.col = 10 := by rw [a4.col, c3]
    rw [a5.toks, a4.toks, a3.toks, a2.toks, a1.toks, l1, l2, l3, l4, c1, c3, c4]
    simp [treeDocToksRev]
    exact ⟨rfl, rfl⟩
  · have l2 : s2.line = 2 := by rw [a2.line, a1.line]
    rw [a5.repairs, a4.repairs, a3.repairs, a2.repairs, a1.repairs, l2]; simp; rfl
  · rw [a5.stack, a4.stack, a3.stack, a2.stack, a1.stack]
  · rw [a5.line, a4.line, a3.line, a2.line, a1.line]
    show (1 : Nat) + 0 + 1 + treeNLines nodes + 0 + 1 = treeNLines nodes + 3
    omega

/-- the lines of the text. -/
theorem splitLines_treeDocText (name : Str) (nodes : List TNode) (hn : isEnvName name = true) (hok : treeOK nodes) :
    splitLines (treeDocText name nodes) =
      ("===".toList ++ name ++ "===".toList) :: ((treeRows 0 nodes).map rowText ++ ["===END===".toList, []]) := by
  have h1 := splitLines_append_nl ("===".toList ++ name ++ "===".toList) (treeText 0 nodes ++ ("===END===".toList ++ ['\n']))
    (fun d hd => (envLine_clean name hn d hd).1)
  have h2 := splitLines_unlines ((treeRows 0 nodes).map rowText) ("===END===".toList ++ ['\n']) (by
    intro l hl d hd
    obtain ⟨r, hr, rfl⟩ := List.mem_map.mp hl
    exact (rowText_clean r (treeRows_ok nodes 0 hok r hr) d hd).1)
  have h3 : splitLines ("===END===".toList ++ ['\n']) = ["===END===".toList, []] := by decide
  unfold treeDocText
  rw [h1, treeText_rows, h2, h3]

theorem treeDocText_noTab (name : Str) (nodes : List TNode) (hn : isEnvName name = true) (hok : treeOK nodes) :
    ∀ d ∈ treeDocText name nodes, d ≠ '\t' := by
  have hl := unlines_noTab ((treeRows 0 nodes).map rowText) (by
    intro l hl d hd
    obtain ⟨r, hr, rfl⟩ := List.mem_map.mp hl
    exact (rowText_clean r (treeRows_ok nodes 0 hok r hr) d hd).2)
  intro d hd
  simp only [treeDocText, List.mem_append, List.mem_cons] at hd
  rcases hd with h' | h' | h' | h' | h'
  · exact (envLine_clean name hn d (by simp only [List.mem_append]; exact h')).2
  · subst h'; decide
  · rw [treeText_rows] at h'; exact hl d h'
  · intro he; subst he; revert h'; decide
  · intro he; subst he; simp at h'

/-- **The lexer on the canonical text of a document with nested blocks** (any name, any tree of `KEY::scalar` lines and
`KEY:` blocks — any depth, any width, empty blocks included —, keys and scalars satisfying the emitter's own conditions,
both lexer modes, every environment whose NFC leaves the lines alone): `tokenize` succeeds with exactly the expected
tokens, positions included — one INDENT token valued `2 * depth` in front of every line at depth > 0 —, and with no
receipt other than the (non-normalisation) identifier notes of keys and bare words. -/
theorem tokenize_tree (env : Env) (lenient : Bool) (name : Str) (nodes : List TNode)
    (hn : isEnvName name = true) (hne : name ≠ "END".toList) (hok : treeOK nodes)
    (hnfc : ∀ l ∈ splitLines (treeDocText name nodes), env.nfc l = l) :
    tokenize env (treeDocText name nodes) lenient = .ok (treeDocToks name nodes, (treeRepsRev 0 2 nodes).reverse) := by
  have hsplit := splitLines_treeDocText name nodes hn hok
  have hfence : ∀ l ∈ splitLines (treeDocText name nodes), fenceLine l = none ∧ env.nfc l = l := by
    intro l hl
    refine ⟨?_, hnfc l hl⟩
    rw [hsplit] at hl
    simp only [List.mem_cons, List.mem_append, List.mem_map, List.mem_nil_iff, or_false] at hl
    rcases hl with h | ⟨r, hr, rfl⟩ | h | h
    · subst h; exact fenceLine_none_of_head _ (by intro c hc; have : c = '=' := by simpa using hc.symm
                                                  subst this; decide)
    · exact rowText_fence r (treeRows_ok nodes 0 hok r hr)
    · subst h; decide
    · subst h; decide
  have hnorm := normalize_plain env (treeDocText name nodes) hfence
  have htab := tabCheck_noTab [] (treeDocText name nodes) 0 1 1 (treeDocText_noTab name nodes hn hok)
  obtain ⟨st', run, ht, hr, hs, hl, hc⟩ := run_treeDoc env lenient name nodes hn hne hok
  have hloop := loop_of_run env lenient _ _ st' (treeDocText name nodes) run (by intro sp hsp; simp at hsp)
  unfold tokenize
  simp only [hnorm, htab, hloop, bind, Except.bind, hs, List.getLast?_nil, ht, hr, hl, hc]
  rfl

end Octave

namespace Octave
open Lexer Scan Emitter

/-! ### the emitter -/

mutual
/-- when the emitter spells every scalar the way `FLine.text` does (block keys are printed as they are). -/
def TNode.EmitOK : TNode → Prop
  | .line ln => ln.EmitOK
  | .block _ cs => treeEmitOK cs
def treeEmitOK : List TNode → Prop
  | [] => True
  | n :: ns => n.EmitOK ∧ treeEmitOK ns
end

mutual
/-- the AST node carries this content, with ANY source positions (no comments, no block target). -/
def TNode.Matches : TNode → Node → Prop
  | .line ln, n => ∃ l c, n = .assign ln.key ln.v.value l c [] none
  | .block key cs, n => ∃ children l c, n = .block key children l c [] none ∧ treeMatches cs children
def treeMatches : List TNode → List Node → Prop
  | [], ns => ns = []
  | t :: ts, ns => ∃ n ns', ns = n :: ns' ∧ t.Matches n ∧ treeMatches ts ns'
end

/-- an assignment line at any depth, inside or outside a block. -/
theorem emitNode_line (env : Env) (ln : FLine) (l c d : Nat) (b : Bool) (h : ln.EmitOK) :
    emitNode env (.assign ln.key ln.v.value l c [] none) d b = some [indentStr d ++ ln.text] := by
  obtain ⟨key, v⟩ := ln
  cases v with
  | qstr s =>
    have hq : needsQuotes s = true := h
    simp [FScalar.value, emitNode, emitAssignment, emitValue, emitStr, hq, forceQuote, leadingLines,
      FLine.text, FScalar.text, quoted]
  | bare s =>
    have hq : needsQuotes s = false := h.1
    have ha : alwaysQuoteKey key = false := h.2
    simp [FScalar.value, emitNode, emitAssignment, emitValue, emitStr, hq, forceQuote, ha, leadingLines,
      FLine.text, FScalar.text]
  | bool b =>
    cases b <;>
    simp [FScalar.value, emitNode, emitAssignment, emitValue, forceQuote, leadingLines, FLine.text, FScalar.text]
  | null =>
    simp [FScalar.value, emitNode, emitAssignment, emitValue, forceQuote, leadingLines, FLine.text, FScalar.text]
  | int i =>
    simp [FScalar.value, emitNode, emitAssignment, emitValue, forceQuote, leadingLines, FLine.text, FScalar.text]

mutual
theorem emitNode_tree (env : Env) : ∀ (t : TNode) (n : Node) (d : Nat) (b : Bool), t.Matches n → t.EmitOK →
    emitNode env n d b = some ((t.rows d).map rowText)
  | .line ln, n, d, b, hm, he => by
    simp only [TNode.Matches] at hm
    obtain ⟨l, c, rfl⟩ := hm
    rw [emitNode_line env ln l c d b (by simpa [TNode.EmitOK] using he)]
    rfl
  | .block key cs, n, d, b, hm, he => by
    simp only [TNode.Matches] at hm
    obtain ⟨children, l, c, rfl, hch⟩ := hm
    simp only [TNode.EmitOK] at he
    have ih := emitChildren_tree env cs children (d + 1) true hch he
    simp only [emitNode, ih, Option.map_some, leadingLines, List.map_nil, List.nil_append, List.append_nil, TNode.rows,
      List.map_cons, rowText, List.cons_append, List.append_assoc]
theorem emitChildren_tree (env : Env) : ∀ (ts : List TNode) (ns : List Node) (d : Nat) (b : Bool),
    treeMatches ts ns → treeEmitOK ts → emitChildren env ns d b = some ((treeRows d ts).map rowText)
  | [], ns, d, b, hm, _ => by
    simp only [treeMatches] at hm
    subst hm; rfl
  | t :: ts, ns, d, b, hm, he => by
    simp only [treeMatches] at hm
    obtain ⟨n, ns', rfl, h1, h2⟩ := hm
    simp only [treeEmitOK] at he
    simp only [emitChildren, emitNode_tree env t n d b h1 he.1, emitChildren_tree env ts ns' d b h2 he.2, treeRows,
      List.map_append]
end

theorem emitTop_tree (env : Env) : ∀ (ts : List TNode) (ns : List Node), treeMatches ts ns → treeEmitOK ts →
    emitTop env ns = some ((treeRows 0 ts).map rowText)
  | [], ns, hm, _ => by
    simp only [treeMatches] at hm
    subst hm; rfl
  | t :: ts, ns, hm, he => by
    simp only [treeMatches] at hm
    obtain ⟨n, ns', rfl, h1, h2⟩ := hm
    simp only [treeEmitOK] at he
    have hn := emitNode_tree env t n 0 false h1 he.1
    have ih := emitTop_tree env ts ns' h2 he.2
    cases t with
    | line ln =>
      simp only [TNode.Matches] at h1
      obtain ⟨l, c, rfl⟩ := h1
      simp only [emitTop, hn, ih, treeRows, List.map_append]
    | block key cs =>
      simp only [TNode.Matches] at h1
      obtain ⟨children, l, c, rfl, _⟩ := h1
      simp only [emitTop, hn, ih, treeRows, List.map_append]

theorem joinWith_unlines (ls : List Str) (tail : Str) : joinWith ['\n'] (ls ++ [tail]) = unlines ls ++ tail := by
  induction ls with
  | nil => rfl
  | cons l ls ih =>
    cases ls with
    | nil => simp [joinWith, unlines]
    | cons m ms =>
      simp only [List.cons_append, joinWith, unlines] at ih ⊢
      rw [ih]; simp

/-- **The emitter on a document with nested blocks** writes exactly `treeDocText`, whatever positions the nodes carry. -/
theorem emit_tree_matches (env : Env) (name : Str) (nodes : List TNode) (sections : List Node)
    (hm : treeMatches nodes sections) (h : treeEmitOK nodes) :
    emit env { name := name, sections := sections } = some (treeDocText name nodes) := by
  have ht := emitTop_tree env nodes sections hm h
  have hj := joinWith_unlines ((treeRows 0 nodes).map rowText) "===END===".toList
  unfold emit emitBody
  simp only [emitMetaLines, ht, leadingLines, List.map_nil, List.isEmpty_nil, Bool.true_or, if_true,
    Bool.false_eq_true, if_false, List.nil_append, List.append_nil, bind, Option.bind, pure, Option.map]
  show some (finishText (joinWith ['\n'] (("===".toList ++ name ++ "===".toList) :: ((treeRows 0 nodes).map rowText ++ ["===END===".toList])))) = _
  have hne : (treeRows 0 nodes).map rowText ++ ["===END===".toList] ≠ [] := by simp
  obtain ⟨x, xs, hx⟩ := List.exists_cons_of_ne_nil hne
  rw [hx, joinWith, ← hx, hj]
  have hlast : (("===".toList ++ name ++ "===".toList) ++ ['\n'] ++ (unlines ((treeRows 0 nodes).map rowText) ++ "===END===".toList)).getLast? = some '=' := by
    rw [List.getLast?_append, List.getLast?_append]; rfl
  simp only [finishText, hlast]
  simp [treeDocText, treeText_rows]

mutual
/-- the AST of a tree with positions chosen by `pos` from the (0-based) index of the node's first line in the body and
its depth. -/
def TNode.node (pos : Nat → Nat → Nat × Nat) (i d : Nat) : TNode → Node
  | .line ln => .assign ln.key ln.v.value (pos i d).1 (pos i d).2 [] none
  | .block key cs => .block key (treeNodes pos (i + 1) (d + 1) cs) (pos i d).1 (pos i d).2 [] none
def treeNodes (pos : Nat → Nat → Nat × Nat) (i d : Nat) : List TNode → List Node
  | [] => []
  | n :: ns => n.node pos i d :: treeNodes pos (i + n.nlines) d ns
end

mutual
theorem TNode.node_matches (pos : Nat → Nat → Nat × Nat) : ∀ (t : TNode) (i d : Nat), t.Matches (t.node pos i d)
  | .line ln, i, d => by simp only [TNode.Matches, TNode.node]; exact ⟨_, _, rfl⟩
  | .block key cs, i, d => by
    simp only [TNode.Matches, TNode.node]
    exact ⟨_, _, _, rfl, treeNodes_matches pos cs (i + 1) (d + 1)⟩
theorem treeNodes_matches (pos : Nat → Nat → Nat × Nat) : ∀ (ts : List TNode) (i d : Nat), treeMatches ts (treeNodes pos i d ts)
  | [], i, d => by simp [treeMatches, treeNodes]
  | t :: ts, i, d => by
    simp only [treeMatches, treeNodes]
    exact ⟨_, _, rfl, TNode.node_matches pos t i d, treeNodes_matches pos ts (i + t.nlines) d⟩
end

def treeDoc (name : Str) (pos : Nat → Nat → Nat × Nat) (nodes : List TNode) : Document :=
  { name := name, sections := treeNodes pos 0 0 nodes }

theorem emit_tree (env : Env) (name : Str) (pos : Nat → Nat → Nat × Nat) (nodes : List TNode) (h : treeEmitOK nodes) :
    emit env (treeDoc name pos nodes) = some (treeDocText name nodes) :=
  emit_tree_matches env name nodes _ (treeNodes_matches pos nodes 0 0) h

end Octave

namespace Octave
open Lexer Scan Emitter

/-! ### the token list in reading order (for the bridge to the parser half) -/

/-- the INDENT token in front of a line at depth `d` (none at depth 0). -/
def indentToks (d l : Nat) : List Token := if d = 0 then [] else [tIndent (2 * d) l 1]

/-- `INDENT(2d)? IDENTIFIER(key) ASSIGN value NEWLINE` at line `l`; the key starts at column `1 + 2d`. -/
def FLine.toksAt (ln : FLine) (d l : Nat) : List Token :=
  indentToks d l ++ [tIdent ln.key l (1 + 2 * d), tAssign l (1 + 2 * d + ln.key.length), ln.v.tok l (1 + 2 * d + ln.key.length + 2),
    tNewline l (1 + 2 * d + ln.key.length + 2 + ln.v.text.length)]

/-- `INDENT(2d)? IDENTIFIER(key) BLOCK NEWLINE` at line `l`. -/
def headerToks (key : Str) (d l : Nat) : List Token :=
  indentToks d l ++ [tIdent key l (1 + 2 * d), tBlock l (1 + 2 * d + key.length), tNewline l (1 + 2 * d + key.length + 1)]

mutual
def TNode.toks (d l : Nat) : TNode → List Token
  | .line ln => ln.toksAt d l
  | .block key cs => headerToks key d l ++ treeToks (d + 1) (l + 1) cs
def treeToks (d l : Nat) : List TNode → List Token
  | [] => []
  | n :: ns => n.toks d l ++ treeToks d (l + n.nlines) ns
end

theorem indentToksRev_reverse (d l : Nat) : (indentToksRev d l).reverse = indentToks d l := by
  unfold indentToksRev indentToks
  split <;> rfl

mutual
theorem TNode.toksRev_reverse : ∀ (n : TNode) (d l : Nat), (n.toksRev d l).reverse = n.toks d l
  | .line ln, d, l => by
    simp [TNode.toksRev, TNode.toks, FLine.toksRevAt, FLine.toksAt, FLine.toksRev, indentToksRev_reverse]
  | .block key cs, d, l => by
    simp [TNode.toksRev, TNode.toks, headerToksRev, headerToks, indentToksRev_reverse, treeToksRev_reverse cs (d + 1) (l + 1)]
theorem treeToksRev_reverse : ∀ (ns : List TNode) (d l : Nat), (treeToksRev d l ns).reverse = treeToks d l ns
  | [], d, l => rfl
  | n :: ns, d, l => by
    simp [treeToksRev, treeToks, TNode.toksRev_reverse n d l, treeToksRev_reverse ns d (l + n.nlines)]
end

/-- the token list of the document in reading order. -/
theorem treeDocToks_eq (name : Str) (nodes : List TNode) :
    treeDocToks name nodes =
      tEnvStart name 1 1 :: tNewline 1 (1 + (name.length + 6)) :: (treeToks 0 2 nodes ++
        [tEnvEnd (treeNLines nodes + 2) 1, tNewline (treeNLines nodes + 2) 10, tEof (treeNLines nodes + 3) 1]) := by
  simp [treeDocToks, treeDocToksRev, treeToksRev_reverse]

/-- type and value of a token (what the parser looks at). -/
def Token.tv (t : Token) : TT × TVal := (t.type, t.value)

def FScalar.tv : FScalar → TT × TVal
  | .qstr s => (.string, .str s)
  | .bare s => (.identifier, .str s)
  | .bool b => (.boolean, .bool b)
  | .null => (.null, .none)
  | .int i => (.number, .int i)

def indentShape (d : Nat) : List (TT × TVal) := if d = 0 then [] else [(.indent, .nat (2 * d))]

mutual
/-- the token list without positions: INDENT carries `2 * depth`. -/
def TNode.shape (d : Nat) : TNode → List (TT × TVal)
  | .line ln => indentShape d ++ [(.identifier, .str ln.key), (.assign, .str "::".toList), ln.v.tv, (.newline, .str ['\n'])]
  | .block key cs => indentShape d ++ [(.identifier, .str key), (.block, .str [':']), (.newline, .str ['\n'])] ++ treeShape (d + 1) cs
def treeShape (d : Nat) : List TNode → List (TT × TVal)
  | [] => []
  | n :: ns => n.shape d ++ treeShape d ns
end

theorem indentToks_tv (d l : Nat) : (indentToks d l).map Token.tv = indentShape d := by
  unfold indentToks indentShape
  split <;> rfl

theorem FScalar.tok_tv (v : FScalar) (l c : Nat) : (v.tok l c).tv = v.tv := by cases v <;> rfl

mutual
theorem TNode.toks_tv : ∀ (n : TNode) (d l : Nat), (n.toks d l).map Token.tv = n.shape d
  | .line ln, d, l => by
    simp only [TNode.toks, TNode.shape, FLine.toksAt, List.map_append, indentToks_tv, List.map_cons, List.map_nil,
      FScalar.tok_tv]
    rfl
  | .block key cs, d, l => by
    simp only [TNode.toks, TNode.shape, headerToks, List.map_append, indentToks_tv, List.map_cons, List.map_nil,
      treeToks_tv cs (d + 1) (l + 1)]
    rfl
theorem treeToks_tv : ∀ (ns : List TNode) (d l : Nat), (treeToks d l ns).map Token.tv = treeShape d ns
  | [], d, l => rfl
  | n :: ns, d, l => by
    simp only [treeToks, treeShape, List.map_append, TNode.toks_tv n d l, treeToks_tv ns d (l + n.nlines)]
end

/-- types and values of the document's tokens, positions forgotten. -/
theorem treeDocToks_tv (name : Str) (nodes : List TNode) :
    (treeDocToks name nodes).map Token.tv =
      (.envelopeStart, .str name) :: (.newline, .str ['\n']) :: (treeShape 0 nodes ++
        [(.envelopeEnd, .str "END".toList), (.newline, .str ['\n']), (.eof, .none)]) := by
  rw [treeDocToks_eq]
  simp only [List.map_cons, List.map_append, treeToks_tv, List.map_nil]
  rfl

/-- no token was normalised (NUMBER tokens carry their lexeme in `raw`, which is not a rewrite). -/
def Token.Plain (t : Token) : Prop := t.normFrom = none

theorem indentToks_plain (d l : Nat) : ∀ t ∈ indentToks d l, t.Plain := by
  unfold indentToks
  split
  · simp
  · intro t ht; simp only [List.mem_singleton] at ht; subst ht; exact rfl

mutual
theorem TNode.toks_plain : ∀ (n : TNode) (d l : Nat), ∀ t ∈ n.toks d l, t.Plain
  | .line ln, d, l, t, ht => by
    simp only [TNode.toks, FLine.toksAt, List.mem_append, List.mem_cons, List.mem_nil_iff, or_false] at ht
    rcases ht with h | h | h | h | h
    · exact indentToks_plain d l t h
    · subst h; exact rfl
    · subst h; exact rfl
    · subst h; cases ln.v <;> exact rfl
    · subst h; exact rfl
  | .block key cs, d, l, t, ht => by
    simp only [TNode.toks, headerToks, List.mem_append, List.mem_cons, List.mem_nil_iff, or_false] at ht
    rcases ht with (h | h | h | h) | h
    · exact indentToks_plain d l t h
    · subst h; exact rfl
    · subst h; exact rfl
    · subst h; exact rfl
    · exact treeToks_plain cs (d + 1) (l + 1) t h
theorem treeToks_plain : ∀ (ns : List TNode) (d l : Nat), ∀ t ∈ treeToks d l ns, t.Plain
  | [], d, l, t, ht => by simp [treeToks] at ht
  | n :: ns, d, l, t, ht => by
    simp only [treeToks, List.mem_append] at ht
    rcases ht with h | h
    · exact TNode.toks_plain n d l t h
    · exact treeToks_plain ns d (l + n.nlines) t h
end

theorem treeDocToks_plain (name : Str) (nodes : List TNode) : ∀ t ∈ treeDocToks name nodes, t.Plain := by
  intro t ht
  rw [treeDocToks_eq] at ht
  simp only [List.mem_cons, List.mem_append, List.mem_nil_iff, or_false] at ht
  rcases ht with h | h | h | h | h | h
  · subst h; exact rfl
  · subst h; exact rfl
  · exact treeToks_plain nodes 0 2 t h
  · subst h; exact rfl
  · subst h; exact rfl
  · subst h; exact rfl

end Octave
