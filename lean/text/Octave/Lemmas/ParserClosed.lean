import Octave.Model.ParserTop
import Octave.Lemmas.LexerClosed
/-!
C20, parser side: **closure**.  No function of the parser model lets a foreign Python exception (`Exc.py`) escape.

`Closed x` says: whatever the state, if `x` fails then the failure is not `.py _`.  The combinator lemmas below are
proved once; every parser function is then closed by structural induction on its fuel (`closed_tac`).
The only `throw (.py …)` of the parser model (the `items[-1]` of the GH#269 accumulator, `annotatedLoop`) is shown
unreachable through the invariant `bare ≠ [] ∨ items ≠ []`.
-/
namespace Octave

/-- the outcome is not a foreign Python exception. -/
def NotPy (e : Exc) : Prop := ∀ cls, e ≠ .py cls

theorem NotPy.lexer (c : Str) (l k : Nat) : NotPy (.lexer c l k) := fun _ h => by cases h
theorem NotPy.parser (c : Str) (l k : Nat) : NotPy (.parser c l k) := fun _ h => by cases h
theorem NotPy.unsupported (w : Str) : NotPy (.unsupported w) := fun _ h => by cases h
theorem NotPy.fuel : NotPy .fuel := fun _ h => by cases h
theorem NotPy.parserError (c : String) (t : Token) : NotPy (Parser.parserError c t) := NotPy.parser _ _ _

namespace Parser

/-- `x` never fails with a foreign Python exception, whatever the parser state. -/
structure Closed {α : Type} (x : P α) : Prop where
  out : ∀ st e, x st = .error e → NotPy e

theorem run_bind {α β : Type} (x : P α) (f : α → P β) (st : PState) :
    (x >>= f) st = (match x st with | .ok (a, s) => f a s | .error e => .error e) := by
  show (StateT.bind x f) st = _
  unfold StateT.bind
  show (x st >>= _) = _
  cases x st with
  | error e => rfl
  | ok p => rfl

theorem Closed.pure {α : Type} (a : α) : Closed (Pure.pure a : P α) := by
  constructor; intro st e h; cases h

theorem Closed.bind {α β : Type} {x : P α} {f : α → P β} (hx : Closed x) (hf : ∀ a, Closed (f a)) :
    Closed (x >>= f) := by
  constructor
  intro st e h
  rw [run_bind] at h
  cases hxs : x st with
  | error e' => rw [hxs] at h; cases h; exact hx.out st _ hxs
  | ok p => obtain ⟨a, s⟩ := p; rw [hxs] at h; exact (hf a).out s e h

/-- the same rule for the unfolded form of `>>=` (what `simp only [bind]` leaves behind). -/
theorem Closed.sbind {α β : Type} {x : P α} {f : α → P β} (hx : Closed x) (hf : ∀ a, Closed (f a)) :
    Closed (StateT.bind x f) := Closed.bind hx hf

theorem Closed.throw {α : Type} {e : Exc} (he : NotPy e) : Closed (throw e : P α) := by
  constructor; intro st e' h; cases h; exact he

theorem Closed.get : Closed (get : P PState) := by constructor; intro st e h; cases h
theorem Closed.set (s : PState) : Closed (set s : P PUnit) := by constructor; intro st e h; cases h
theorem Closed.modify (f : PState → PState) : Closed (modify f : P PUnit) := by constructor; intro st e h; cases h
theorem Closed.modifyGet {α : Type} (f : PState → α × PState) : Closed (modifyGet f : P α) := by
  constructor; intro st e h; cases h

theorem Closed.ite {α : Type} {c : Prop} [Decidable c] {x y : P α} (hx : Closed x) (hy : Closed y) :
    Closed (if c then x else y) := by
  split <;> assumption

/-- extensible: one alternative per proved function (`macro_rules` below add to it). -/
syntax "closed_lemma" : tactic
macro_rules | `(tactic| closed_lemma) => `(tactic| fail "no closed lemma applies")

/-- one structural step of a closure proof. -/
macro "closed_step" : tactic => `(tactic| first
  | assumption
  | with_reducible exact Closed.pure _
  | with_reducible apply Closed.bind
  | with_reducible apply Closed.sbind
  | with_reducible apply Closed.ite
  | intro _
  | with_reducible exact Closed.get
  | with_reducible exact Closed.set _
  | with_reducible exact Closed.modify _
  | with_reducible exact Closed.modifyGet _
  | with_reducible exact Closed.throw (NotPy.parserError _ _)
  | with_reducible exact Closed.throw NotPy.fuel
  | with_reducible exact Closed.throw (NotPy.unsupported _)
  | with_reducible closed_lemma
  | split
  | dsimp only)

macro "closed_tac" : tactic => `(tactic| repeat' closed_step)

theorem current_closed : Closed current := by unfold current; closed_tac
macro_rules | `(tactic| closed_lemma) => `(tactic| exact current_closed)
theorem curType_closed : Closed curType := by unfold curType; closed_tac
macro_rules | `(tactic| closed_lemma) => `(tactic| exact curType_closed)
theorem peek_closed (k : Nat) : Closed (peek k) := by unfold peek; closed_tac
macro_rules | `(tactic| closed_lemma) => `(tactic| exact peek_closed _)
theorem advance_closed : Closed advance := by unfold advance; closed_tac
macro_rules | `(tactic| closed_lemma) => `(tactic| exact advance_closed)
theorem expect_closed (tt : TT) : Closed (expect tt) := by unfold expect; closed_tac
macro_rules | `(tactic| closed_lemma) => `(tactic| exact expect_closed _)
theorem warn_closed (w : Warning) : Closed (warn w) := by unfold warn; closed_tac
macro_rules | `(tactic| closed_lemma) => `(tactic| exact warn_closed _)

open Lean in
/-- closure proof of a recursive function: the listed induction hypotheses are tried first. -/
macro "closed_ind" "[" ihs:term,* "]" : tactic => do
  let alts ← ihs.getElems.mapM fun ih => `(tacticSeq| with_reducible apply $ih)
  `(tactic| repeat' (first $[| $alts]* | closed_step))

theorem skipWs_closed (sc : Bool) : ∀ fuel, Closed (skipWs sc fuel) := by
  intro fuel
  induction fuel with
  | zero => unfold skipWs; closed_tac
  | succ n ih => unfold skipWs; closed_ind [ih]
macro_rules | `(tactic| closed_lemma) => `(tactic| exact skipWs_closed _ _)

theorem peekPastBrackets_closed (k : Nat) : Closed (peekPastBrackets k) := by unfold peekPastBrackets; closed_tac
macro_rules | `(tactic| closed_lemma) => `(tactic| exact peekPastBrackets_closed _)
theorem isAdjacentBracket_closed : Closed isAdjacentBracket := by unfold isAdjacentBracket; closed_tac
macro_rules | `(tactic| closed_lemma) => `(tactic| exact isAdjacentBracket_closed)

theorem bracketLoop_closed (cap : Bool) : ∀ fuel depth acc, Closed (bracketLoop cap fuel depth acc) := by
  intro fuel
  induction fuel with
  | zero => intros; unfold bracketLoop; closed_tac
  | succ n ih => intros; unfold bracketLoop; closed_ind [ih]
macro_rules | `(tactic| closed_lemma) => `(tactic| exact bracketLoop_closed _ _ _ _)

theorem consumeBracketAnnotation_closed (cap : Bool) (fuel : Nat) : Closed (consumeBracketAnnotation cap fuel) := by
  unfold consumeBracketAnnotation; closed_tac
macro_rules | `(tactic| closed_lemma) => `(tactic| exact consumeBracketAnnotation_closed _ _)

theorem parseBlockTarget_closed (fuel : Nat) : Closed (parseBlockTarget fuel) := by
  unfold parseBlockTarget; closed_tac
macro_rules | `(tactic| closed_lemma) => `(tactic| exact parseBlockTarget_closed _)

/-! ### `ParserValue` -/

theorem budget_closed : Closed budget := by unfold budget; closed_tac
macro_rules | `(tactic| closed_lemma) => `(tactic| exact budget_closed)
theorem skipWhitespace_closed (sc : Bool) : Closed (skipWhitespace sc) := by unfold skipWhitespace; closed_tac
macro_rules | `(tactic| closed_lemma) => `(tactic| exact skipWhitespace_closed _)

theorem takeValueToks_closed : ∀ fuel acc, Closed (takeValueToks fuel acc) := by
  intro fuel
  induction fuel with
  | zero => intros; unfold takeValueToks; closed_tac
  | succ n ih => intros; unfold takeValueToks; closed_ind [ih]
macro_rules | `(tactic| closed_lemma) => `(tactic| exact takeValueToks_closed _ _)

theorem takeExprParts_closed : ∀ fuel acc, Closed (takeExprParts fuel acc) := by
  intro fuel
  induction fuel with
  | zero => intros; unfold takeExprParts; closed_tac
  | succ n ih => intros; unfold takeExprParts; closed_ind [ih]
macro_rules | `(tactic| closed_lemma) => `(tactic| exact takeExprParts_closed _ _)

theorem trailingBracket_closed (r sep : Str) : Closed (trailingBracket r sep) := by
  unfold trailingBracket; closed_tac
macro_rules | `(tactic| closed_lemma) => `(tactic| exact trailingBracket_closed _ _)

theorem multiWordSimple_closed (tok : Token) (ctx : String) : Closed (multiWordSimple tok ctx) := by
  unfold multiWordSimple; closed_tac
macro_rules | `(tactic| closed_lemma) => `(tactic| exact multiWordSimple_closed _ _)

theorem parseLiteralZone_closed : Closed parseLiteralZone := by unfold parseLiteralZone; closed_tac
macro_rules | `(tactic| closed_lemma) => `(tactic| exact parseLiteralZone_closed)

theorem operatorRichLoop_closed : ∀ fuel acc, Closed (operatorRichLoop fuel acc) := by
  intro fuel
  induction fuel with
  | zero => intros; unfold operatorRichLoop; closed_tac
  | succ n ih => intros; unfold operatorRichLoop; closed_ind [ih]
macro_rules | `(tactic| closed_lemma) => `(tactic| exact operatorRichLoop_closed _ _)

theorem colonPath_closed : ∀ fuel acc, Closed (colonPath fuel acc) := by
  intro fuel
  induction fuel with
  | zero => intros; unfold colonPath; closed_tac
  | succ n ih => intros; unfold colonPath; closed_ind [ih]
macro_rules | `(tactic| closed_lemma) => `(tactic| exact colonPath_closed _ _)

theorem flowLoop_closed : ∀ fuel parts tc ft, Closed (flowLoop fuel parts tc ft) := by
  intro fuel
  induction fuel with
  | zero => intros; unfold flowLoop; closed_tac
  | succ n ih => intros; unfold flowLoop; closed_ind [ih]
macro_rules | `(tactic| closed_lemma) => `(tactic| exact flowLoop_closed _ _ _ _)

theorem parseFlowExpression_closed : Closed parseFlowExpression := by unfold parseFlowExpression; closed_tac
macro_rules | `(tactic| closed_lemma) => `(tactic| exact parseFlowExpression_closed)

theorem checkDeepNesting_closed (tok : Token) : Closed (checkDeepNesting tok) := by
  unfold checkDeepNesting; closed_tac
macro_rules | `(tactic| closed_lemma) => `(tactic| exact checkDeepNesting_closed _)

theorem skipListWs_closed : ∀ fuel, Closed (skipListWs fuel) := by
  intro fuel
  induction fuel with
  | zero => unfold skipListWs; closed_tac
  | succ n ih => unfold skipListWs; closed_ind [ih]
macro_rules | `(tactic| closed_lemma) => `(tactic| exact skipListWs_closed _)

theorem checkListItems_closed (key : Str) (tok : Token) : ∀ vs, Closed (checkListItems key tok vs) := by
  intro vs
  fun_induction checkListItems key tok vs with
  | case1 => closed_tac
  | case2 => closed_tac
  | case3 inner rest ih1 ih2 => closed_ind [ih1, ih2]
  | case4 _ rest _ _ ih => closed_ind [ih]
macro_rules | `(tactic| closed_lemma) => `(tactic| exact checkListItems_closed _ _ _)

/-- the mutual block of `parse_value`.  The GH#269 accumulator `annotatedLoop` carries the invariant
`bare ≠ [] ∨ items ≠ []` (it is entered with one of the two lists holding the first word and every iteration
appends to one of them), which is exactly what makes `items[-1]` safe: the model's `throw (.py "IndexError")`
is unreachable. -/
theorem value_closed : ∀ fuel,
    Closed (parseValue fuel) ∧ (∀ s w, Closed (numberWords fuel s w)) ∧ (∀ s w, Closed (plainWords fuel s w)) ∧
    (∀ b i, (b ≠ [] ∨ i ≠ []) → Closed (annotatedLoop fuel b i)) ∧ Closed (parseList fuel) ∧
    (∀ items, Closed (listLoop fuel items)) ∧ Closed (parseListItem fuel) := by
  intro fuel
  induction fuel with
  | zero =>
    refine ⟨?_, ?_, ?_, ?_, ?_, ?_, ?_⟩
    · unfold parseValue; closed_tac
    · intros; unfold numberWords; closed_tac
    · intros; unfold plainWords; closed_tac
    · intros; unfold annotatedLoop; closed_tac
    · unfold parseList; closed_tac
    · intros; unfold listLoop; closed_tac
    · unfold parseListItem; closed_tac
  | succ n ih =>
    obtain ⟨ihV, ihN, ihP, ihA, ihL, ihLL, ihI⟩ := ih
    refine ⟨?_, ?_, ?_, ?_, ?_, ?_, ?_⟩
    · unfold parseValue; closed_ind [ihV, ihN, ihP, ihL, ihLL, ihI]
      all_goals first
        | (apply ihA; first | (right; simp; done) | (left; simp; done))
        | (rename_i heq; split at heq <;> (cases heq; apply ihA; simp))
        | skip
    · intros; unfold numberWords; closed_ind [ihV, ihN, ihP, ihL, ihLL, ihI]
    · intros; unfold plainWords; closed_ind [ihV, ihN, ihP, ihL, ihLL, ihI]
    · intro bare items hinv; unfold annotatedLoop; closed_ind [ihV, ihN, ihP, ihL, ihLL, ihI]
      all_goals first
        | (apply ihA; first | (right; simp; done) | (left; simp; done))
        | (rename_i heq; split at heq <;> (cases heq; apply ihA; simp))
        | skip
      all_goals
        rename_i heq
        exfalso
        rw [List.getLast?_eq_none_iff] at heq
        split at heq
        · rename_i hb
          rw [List.isEmpty_iff] at hb
          subst hb; subst heq; simp at hinv
        · simp at heq
    · unfold parseList; closed_ind [ihV, ihN, ihP, ihL, ihLL, ihI]
    · intros; unfold listLoop; closed_ind [ihV, ihN, ihP, ihL, ihLL, ihI]
    · unfold parseListItem; closed_ind [ihV, ihN, ihP, ihL, ihLL, ihI]

theorem parseValue_closed (fuel : Nat) : Closed (parseValue fuel) := (value_closed fuel).1
macro_rules | `(tactic| closed_lemma) => `(tactic| exact parseValue_closed _)
theorem parseList_closed (fuel : Nat) : Closed (parseList fuel) := (value_closed fuel).2.2.2.2.1
theorem parseListItem_closed (fuel : Nat) : Closed (parseListItem fuel) := (value_closed fuel).2.2.2.2.2.2
theorem annotatedLoop_closed (fuel : Nat) (bare items : List Str) (h : bare ≠ [] ∨ items ≠ []) :
    Closed (annotatedLoop fuel bare items) := (value_closed fuel).2.2.2.1 bare items h

/-! ### `ParserDoc` -/

theorem trackKey_closed (kp : KeyPos) (key : Str) (line : Nat) : Closed (trackKey kp key line) := by
  unfold trackKey; closed_tac
macro_rules | `(tactic| closed_lemma) => `(tactic| exact trackKey_closed _ _ _)

theorem preIndentComments_closed : ∀ fuel acc, Closed (preIndentComments fuel acc) := by
  intro fuel
  induction fuel with
  | zero => intros; unfold preIndentComments; closed_tac
  | succ n ih => intros; unfold preIndentComments; closed_ind [ih]
macro_rules | `(tactic| closed_lemma) => `(tactic| exact preIndentComments_closed _ _)

theorem commentBelongsOuter_closed (a b : Nat) : Closed (commentBelongsOuter a b) := by
  unfold commentBelongsOuter; closed_tac
macro_rules | `(tactic| closed_lemma) => `(tactic| exact commentBelongsOuter_closed _ _)

theorem section_closed : ∀ fuel,
    (∀ lead, Closed (parseSection fuel lead)) ∧
    (∀ ci li pend ch kp, Closed (blockLoop fuel ci li pend ch kp)) ∧
    Closed (parseSectionMarker fuel) ∧
    (∀ ci li pend ch kp, Closed (sectionLoop fuel ci li pend ch kp)) := by
  intro fuel
  induction fuel with
  | zero =>
    refine ⟨?_, ?_, ?_, ?_⟩
    · intros; unfold parseSection; closed_tac
    · intros; unfold blockLoop; closed_tac
    · unfold parseSectionMarker; closed_tac
    · intros; unfold sectionLoop; closed_tac
  | succ n ih =>
    obtain ⟨ihS, ihB, ihM, ihL⟩ := ih
    refine ⟨?_, ?_, ?_, ?_⟩
    · intros; unfold parseSection; closed_ind [ihS, ihB, ihM, ihL]
    · intros; unfold blockLoop; closed_ind [ihS, ihB, ihM, ihL]
    · unfold parseSectionMarker; closed_ind [ihS, ihB, ihM, ihL]
    · intros; unfold sectionLoop; closed_ind [ihS, ihB, ihM, ihL]

theorem parseSection_closed (fuel : Nat) (lead : List Str) : Closed (parseSection fuel lead) :=
  (section_closed fuel).1 lead
macro_rules | `(tactic| closed_lemma) => `(tactic| exact parseSection_closed _ _)

/-! ### `ParserTop` -/

theorem nestedMetaLoop_closed (vf : Nat) : ∀ fuel ni hi acc kp, Closed (nestedMetaLoop vf fuel ni hi acc kp) := by
  intro fuel
  induction fuel with
  | zero => intros; unfold nestedMetaLoop; closed_tac
  | succ n ih => intros; unfold nestedMetaLoop; closed_ind [ih]
macro_rules | `(tactic| closed_lemma) => `(tactic| exact nestedMetaLoop_closed _ _ _ _ _ _)

theorem metaLoop_closed (vf : Nat) : ∀ fuel il hi acc kp, Closed (metaLoop vf fuel il hi acc kp) := by
  intro fuel
  induction fuel with
  | zero => intros; unfold metaLoop; closed_tac
  | succ n ih => intros; unfold metaLoop; closed_ind [ih]
macro_rules | `(tactic| closed_lemma) => `(tactic| exact metaLoop_closed _ _ _ _ _ _)

theorem parseMetaBlock_closed (vf : Nat) : Closed (parseMetaBlock vf) := by
  unfold parseMetaBlock; closed_tac
macro_rules | `(tactic| closed_lemma) => `(tactic| exact parseMetaBlock_closed _)

theorem docLoop_closed (vf : Nat) : ∀ fuel pend secs kp, Closed (docLoop vf fuel pend secs kp) := by
  intro fuel
  induction fuel with
  | zero => intros; unfold docLoop; closed_tac
  | succ n ih => intros; unfold docLoop; closed_ind [ih]
macro_rules | `(tactic| closed_lemma) => `(tactic| exact docLoop_closed _ _ _ _ _)

theorem parseDocument_closed : Closed parseDocument := by
  unfold parseDocument; closed_tac

/-! ### entry points -/

theorem except_bind_error {α β : Type} {x : Except Exc α} {f : α → Except Exc β} {e : Exc}
    (h : (x >>= f) = .error e) : x = .error e ∨ ∃ a, x = .ok a ∧ f a = .error e := by
  cases x with
  | error e' => left; cases h; rfl
  | ok a => right; exact ⟨a, rfl, h⟩

theorem Closed.run {α : Type} {x : P α} (hx : Closed x) {st : PState} {e : Exc}
    (h : StateT.run x st = .error e) : NotPy e := hx.out st e h

theorem tokenize_notPy (env : Env) (content : Str) (lenient : Bool) (e : Exc)
    (h : Lexer.tokenize env content lenient = .error e) : NotPy e := by
  obtain ⟨c, l, k, rfl⟩ := tokenize_closed env content lenient e h
  exact NotPy.lexer _ _ _

theorem parseMetaOnly_closed (env : Env) (content : Str) (e : Exc)
    (h : parseMetaOnly env content = .error e) : NotPy e := by
  unfold parseMetaOnly at h
  split at h
  rcases except_bind_error h with ht | ⟨⟨toks, reps⟩, -, h2⟩
  · exact tokenize_notPy _ _ _ _ ht
  · dsimp only at h2
    rcases except_bind_error h2 with hd | ⟨⟨m, st⟩, -, h3⟩
    · refine Closed.run ?_ hd
      closed_tac
    · cases h3

theorem parse_closed (env : Env) (content : Str) (e : Exc) (h : parse env content = .error e) : NotPy e := by
  unfold parse at h
  split at h
  rcases except_bind_error h with ht | ⟨⟨toks, reps⟩, -, h2⟩
  · exact tokenize_notPy _ _ _ _ ht
  · dsimp only at h2
    rcases except_bind_error h2 with hd | ⟨⟨m, st⟩, -, h3⟩
    · exact Closed.run parseDocument_closed hd
    · cases h3

theorem parseWithWarnings_closed (env : Env) (content : Str) (e : Exc)
    (h : parseWithWarnings env content = .error e) : NotPy e := by
  unfold parseWithWarnings at h
  split at h
  rcases except_bind_error h with ht | ⟨⟨toks, reps⟩, -, h2⟩
  · exact tokenize_notPy _ _ _ _ ht
  · dsimp only at h2
    rcases except_bind_error h2 with hd | ⟨⟨m, st⟩, -, h3⟩
    · exact Closed.run parseDocument_closed hd
    · cases h3

end Parser
end Octave
