import Octave.Lemmas.FlatBridge
/-!
C13, READER SIDE — helper lemmas.

The `gbnf` engine (`lean/gbnf/Octave/Props/C13.lean`) characterises the language of each compiled fragment and takes the
reader's behaviour on a derived text as a parameter `accepts : Str → Bool`.  This file and `Props/C13reader.lean` prove, on
the text engine's model of the real reader, what the reader makes of `FIELD::value` for those texts.

Contents:
  * a verbatim copy of the recogniser `pyNumberFull` of `gbnf/Octave/Spec/PyNumber.lean` (the language of the reader's NUMBER
    token pattern `-?\d+\.?\d*(?:[eE][+-]?\d+)?`, ASCII digits), so that the two engines speak about the same predicate;
  * `fieldText F s` — the document `===D===\nF::s\n===END===\n` — and `fieldText_flat`: it is `flatText "D" [F::v]`;
  * `tokenize_field`: the lexer on `fieldText F s` for ANY value text `s` that one lexer step reads as one scalar token
    (the step is a hypothesis in the shape of `FlatLex.step_scalar`), positions included;
  * NUMBER lexemes of ANY spelling (`NumParts`: sign, digits, optional `.digits*`, optional `[eE][+-]?digits` — leading zeros,
    `-0`, `1.`, `1e5`, `1E+5` included; `NumberLex` has the emitter's spellings only): `Scan.number` stops exactly at the
    end, no VERSION pattern matches, `numberMatch` converts with `int()` / `float()`, one `step` gives one NUMBER token
    (`step_numParts`); `pyNumberFull_shape`: every text accepted by `pyNumberFull` has such parts.
-/
namespace Octave.C13
open Octave Lexer Scan Emitter

/-- `isDigit` of `gbnf/Octave/Model/GbnfBase.lean` (`48 ≤ c.toNat && c.toNat ≤ 57`), which the copied block below refers
to.  The text engine's ASCII digit predicate is `Octave.isDigitA` (`Model/Basic.lean`): the same term
(`isDigit_eq_isDigitA` is `rfl`).  (The text engine's `Env.isDigit` is the Unicode `\d` of `re`; it agrees with
`isDigitA` on ASCII: `NumberLex.isDigit_of_isDigitA`, `FlatLexBase.isDigit_ascii_false`.) -/
def isDigit (c : Char) : Bool := 48 ≤ c.toNat && c.toNat ≤ 57

-- BEGIN COPY of gbnf/Octave/Spec/PyNumber.lean
def dropDigits (s : Str) : Str := s.dropWhile isDigit

/-- `[eE][+-]?\d+` then end of text -/
def pyExponentFull : Str → Bool
  | e :: r =>
    if e == 'e' || e == 'E' then
      let r1 := match r with
        | '+' :: t => t
        | '-' :: t => t
        | _ => r
      match r1 with
      | d :: _ => isDigit d && (dropDigits r1).isEmpty
      | [] => false
    else false
  | [] => false

/-- `\.?\d*(?:[eE][+-]?\d+)?` then end of text (what may follow the integer part) -/
def pyNumberTail (s : Str) : Bool :=
  let s3 := match s with
    | '.' :: r => r
    | _ => s
  let s4 := dropDigits s3
  s4.isEmpty || pyExponentFull s4

/-- full match of `-?\d+\.?\d*(?:[eE][+-]?\d+)?` -/
def pyNumberFull (s : Str) : Bool :=
  let s1 := match s with
    | '-' :: r => r
    | _ => s
  match s1 with
  | c :: _ => isDigit c && pyNumberTail (dropDigits s1)
  | [] => false
-- END COPY

theorem isDigit_eq_isDigitA : isDigit = isDigitA := rfl

/-! ### the one-field document -/

/-- `===D===\nF::s\n===END===\n` -/
def fieldText (F s : Str) : Str := "===D===\n".toList ++ F ++ "::".toList ++ s ++ "\n===END===\n".toList

/-- the document with the single assignment `F::v` (at line 2, column 1, where `fieldText` has it). -/
def fieldDoc (F : Str) (v : Value) : Document := { name := "D".toList, sections := [.assign F v 2 1 [] none] }

theorem lit_head : "===D===\n".toList = "===D===".toList ++ ['\n'] := by decide
theorem lit_tail : "\n===END===\n".toList = '\n' :: ("===END===".toList ++ ['\n']) := by decide
theorem lit_env : "===".toList ++ "D".toList ++ "===".toList = "===D===".toList := by decide
theorem lit_assign : "::".toList = [':', ':'] := by decide

/-- `fieldText` line by line. -/
theorem fieldText_eq (F s : Str) :
    fieldText F s = "===D===".toList ++ '\n' :: ((F ++ (':' :: ':' :: s)) ++ '\n' :: ("===END===".toList ++ ['\n'])) := by
  unfold fieldText
  rw [lit_head, lit_tail, lit_assign]
  simp only [List.append_assoc, List.cons_append, List.nil_append]

theorem fieldText_flat (F : Str) (v : FScalar) : fieldText F v.text = flatText "D".toList [⟨F, v⟩] := by
  rw [fieldText_eq]
  unfold flatText
  rw [lit_env]
  simp only [linesText, FLine.text, List.append_assoc, List.cons_append, List.nil_append]

theorem fieldDoc_flat (F : Str) (v : FScalar) : fieldDoc F v.value = flatDoc "D".toList (fun i => (i + 2, 1)) [⟨F, v⟩] := rfl

/-- the lines of `fieldText F s`, when `F` and `s` have no line break. -/
def fieldLines (F s : Str) : List Str := ["===D===".toList, F ++ (':' :: ':' :: s), "===END===".toList, []]

/-- HYPOTHESIS on the environment: NFC leaves the four lines of the text unchanged (true of CPython for every ASCII
text; `Env.nfc` is an arbitrary function in the model). -/
def NfcStable (env : Env) (F s : Str) : Prop := ∀ l ∈ fieldLines F s, env.nfc l = l

theorem splitLines_fieldText (F s : Str) (hF : ∀ d ∈ F, d ≠ '\n') (hs : ∀ d ∈ s, d ≠ '\n') :
    splitLines (fieldText F s) = fieldLines F s := by
  rw [fieldText_eq, splitLines_append_nl _ _ (by decide), splitLines_append_nl _ _ (by
      intro d hd
      simp only [List.mem_append, List.mem_cons] at hd
      rcases hd with h | h | h | h
      · exact hF d h
      · subst h; decide
      · subst h; decide
      · exact hs d h),
    splitLines_append_nl _ _ (by decide)]
  rfl

/-- what the theorems ask of the field name `F`: identifier-shaped (`[A-Za-z_][A-Za-z0-9_.-]*`, not ending in `-`), no
reserved word (`true|false|null|vs`) at its start or after an operator character, and not `META` (a first line keyed
`META` is taken for the META block header: the class of finding C01N3). -/
def KeyOK (F : Str) : Prop := isIdentifierText F = true ∧ hasReservedPrefix F = false ∧ F ≠ "META".toList

instance (F : Str) : Decidable (KeyOK F) := by unfold KeyOK; infer_instance

theorem KeyOK.noNl {F : Str} (h : KeyOK F) : ∀ d ∈ F, d ≠ '\n' := fun d hd => (identText_clean F h.1 d hd).1

end Octave.C13
