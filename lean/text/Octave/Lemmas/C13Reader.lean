import Octave.Lemmas.FlatBridge
/-!
C13, READER SIDE — helper lemmas.

The `gbnf` engine (`lean/gbnf/Octave/Props/C13.lean`) characterises the language of each compiled fragment and takes the
reader's behaviour on a derived text as a parameter `accepts : Str → Bool`.  This file and `Props/C13reader.lean` prove, on
the text engine's model of the real reader, what the reader makes of `FIELD::value` for those texts.

Contents:
  * a verbatim copy of the recogniser `pyNumberFull` of `gbnf/Octave/Spec/PyNumber.lean` (the language of the reader's NUMBER
    token pattern `-?\d+\.?\d*(?:[eE][+-]?\d+)?`, ASCII digits), so that the two engines speak about the same predicate;
  * `fieldText F s` — the document `===D===\nF::s\n===END===\n` — and `fieldText_flat`: it is `flatText "D" [F::v]`;
  * `tokenize_field`: the lexer on `fieldText F s` for ANY value text `s` that one lexer step reads as one scalar token
    (the step is a hypothesis in the shape of `FlatLex.step_scalar`), positions included;
  * NUMBER lexemes of ANY spelling (`NumParts`: sign, digits, optional `.digits*`, optional `[eE][+-]?digits` — leading zeros,
    `-0`, `1.`, `1e5`, `1E+5` included; `NumberLex` has the emitter's spellings only): `Scan.number` stops exactly at the
    end (`number_numParts`), no VERSION pattern matches (`versions_none_numParts`), `numberMatch` converts with `int()` /
    `float()` and refuses beyond 4300 digits / on overflow (`numberMatch_numParts`), one `step` gives one NUMBER token
    (`step_numParts`) or the positioned refusal (`step_numParts_refused`);
  * `pyNumberFull_shape`: every text accepted by `pyNumberFull` has such parts; `gbnfNumber` (the language of the compiled
    TYPE[NUMBER] fragment, `-`? digit+ (`.` digit+)?) and `gbnfNumber_pyNumberFull`;
  * `tokenize_field_refused`: a refusal of the value step is `tokenize`'s refusal, at line 2, column `1 + |F| + 2`.
-/
namespace Octave.C13
open Octave Lexer Scan Emitter

/-- `isDigit` of `gbnf/Octave/Model/GbnfBase.lean` (`48 ≤ c.toNat && c.toNat ≤ 57`), which the copied block below refers
to.  The text engine's ASCII digit predicate is `Octave.isDigitA` (`Model/Basic.lean`): the same term
(`isDigit_eq_isDigitA` is `rfl`).  (The text engine's `Env.isDigit` is the Unicode `\d` of `re`; it agrees with
`isDigitA` on ASCII: `NumberLex.isDigit_of_isDigitA`, `FlatLexBase.isDigit_ascii_false`.) -/
def isDigit (c : Char) : Bool := 48 ≤ c.toNat && c.toNat ≤ 57

-- BEGIN COPY of gbnf/Octave/Spec/PyNumber.lean
def dropDigits (s : Str) : Str := s.dropWhile isDigit

/-- `[eE][+-]?\d+` then end of text -/
def pyExponentFull : Str → Bool
  | e :: r =>
    if e == 'e' || e == 'E' then
      let r1 := match r with
        | '+' :: t => t
        | '-' :: t => t
        | _ => r
      match r1 with
      | d :: _ => isDigit d && (dropDigits r1).isEmpty
      | [] => false
    else false
  | [] => false

/-- `\.?\d*(?:[eE][+-]?\d+)?` then end of text (what may follow the integer part) -/
def pyNumberTail (s : Str) : Bool :=
  let s3 := match s with
    | '.' :: r => r
    | _ => s
  let s4 := dropDigits s3
  s4.isEmpty || pyExponentFull s4

/-- full match of `-?\d+\.?\d*(?:[eE][+-]?\d+)?` -/
def pyNumberFull (s : Str) : Bool :=
  let s1 := match s with
    | '-' :: r => r
    | _ => s
  match s1 with
  | c :: _ => isDigit c && pyNumberTail (dropDigits s1)
  | [] => false

-- END COPY

theorem isDigit_eq_isDigitA : isDigit = isDigitA := rfl

/-! ### the one-field document -/

/-- `===D===\nF::s\n===END===\n` -/
def fieldText (F s : Str) : Str := "===D===\n".toList ++ F ++ "::".toList ++ s ++ "\n===END===\n".toList

/-- the document with the single assignment `F::v` (at line 2, column 1, where `fieldText` has it). -/
def fieldDoc (F : Str) (v : Value) : Document := { name := "D".toList, sections := [.assign F v 2 1 [] none] }

theorem lit_head : "===D===\n".toList = "===D===".toList ++ ['\n'] := by decide
theorem lit_tail : "\n===END===\n".toList = '\n' :: ("===END===".toList ++ ['\n']) := by decide
theorem lit_env : "===".toList ++ "D".toList ++ "===".toList = "===D===".toList := by decide
theorem lit_assign : "::".toList = [':', ':'] := by decide

/-- `fieldText` line by line. -/
theorem fieldText_eq (F s : Str) :
    fieldText F s = "===D===".toList ++ '\n' :: ((F ++ (':' :: ':' :: s)) ++ '\n' :: ("===END===".toList ++ ['\n'])) := by
  unfold fieldText
  rw [lit_head, lit_tail, lit_assign]
  simp only [List.append_assoc, List.cons_append, List.nil_append]

theorem fieldText_flat (F : Str) (v : FScalar) : fieldText F v.text = flatText "D".toList [⟨F, v⟩] := by
  rw [fieldText_eq]
  unfold flatText
  rw [lit_env]
  simp only [linesText, FLine.text, List.append_assoc, List.cons_append, List.nil_append]

theorem fieldDoc_flat (F : Str) (v : FScalar) : fieldDoc F v.value = flatDoc "D".toList (fun i => (i + 2, 1)) [⟨F, v⟩] := rfl

/-- the lines of `fieldText F s`, when `F` and `s` have no line break. -/
def fieldLines (F s : Str) : List Str := ["===D===".toList, F ++ (':' :: ':' :: s), "===END===".toList, []]

/-- HYPOTHESIS on the environment: NFC leaves the four lines of the text unchanged (true of CPython for every ASCII
text; `Env.nfc` is an arbitrary function in the model). -/
def NfcStable (env : Env) (F s : Str) : Prop := ∀ l ∈ fieldLines F s, env.nfc l = l

theorem splitLines_fieldText (F s : Str) (hF : ∀ d ∈ F, d ≠ '\n') (hs : ∀ d ∈ s, d ≠ '\n') :
    splitLines (fieldText F s) = fieldLines F s := by
  rw [fieldText_eq, splitLines_append_nl _ _ (by decide), splitLines_append_nl _ _ (by
      intro d hd
      simp only [List.mem_append, List.mem_cons] at hd
      rcases hd with h | h | h | h
      · exact hF d h
      · subst h; decide
      · subst h; decide
      · exact hs d h),
    splitLines_append_nl _ _ (by decide)]
  rfl

/-- what the theorems ask of the field name `F`: identifier-shaped (`[A-Za-z_][A-Za-z0-9_.-]*`, not ending in `-`), no
reserved word (`true|false|null|vs`) at its start or after an operator character, and not `META` (a first line keyed
`META` is taken for the META block header: the class of finding C01N3). -/
def KeyOK (F : Str) : Prop := isIdentifierText F = true ∧ hasReservedPrefix F = false ∧ F ≠ "META".toList

instance (F : Str) : Decidable (KeyOK F) := by unfold KeyOK; infer_instance

theorem KeyOK.noNl {F : Str} (h : KeyOK F) : ∀ d ∈ F, d ≠ '\n' := fun d hd => (identText_clean F h.1 d hd).1

/-! ### the lexer on the one-field document, for a value that is one scalar token -/

theorem run_of_step {env : Env} {lenient : Bool} {st st1 : LState} {s s1 : Str} (hne : s ≠ [])
    (h : step env lenient st s = .ok (st1, s1)) : Run env lenient 1 st s st1 s1 := by
  obtain ⟨c, r, rfl⟩ := List.exists_cons_of_ne_nil hne
  exact Run.one h

/-- the line `F::value` as the parser half describes it (line 2, column 1; the value text is `n` characters long). -/
def fieldLine (F : Str) (sc : FlatParse.Scalar) (n : Nat) : FlatParse.Line :=
  { key := F, v := sc, l := 2, c1 := 1, c2 := 1 + F.length, c3 := 1 + F.length + 2, c4 := 1 + F.length + 2 + n }

/-- "one lexer step reads `s`, followed by the line end, as the one scalar token `sc`" — the shape of `FlatLex.step_scalar`. -/
def ValueStep (env : Env) (lenient : Bool) (s : Str) (sc : FlatParse.Scalar) : Prop :=
  ∀ (st : LState) (rest : Str), Ready st → ∃ st' p, step env lenient st (s ++ '\n' :: rest) = .ok (st', '\n' :: rest) ∧
    Adv st st' [sc.tok st.line st.col] [] 0 (st.col + s.length) p

theorem fieldText_shape (F s : Str) :
    fieldText F s = "===".toList ++ "D".toList ++ "===".toList ++
      ('\n' :: (F ++ (':' :: ':' :: (s ++ '\n' :: ("===END===".toList ++ ['\n']))))) := by
  rw [fieldText_eq, lit_env]
  simp only [List.append_assoc, List.cons_append]

theorem run_field (env : Env) (lenient : Bool) (F s : Str) (sc : FlatParse.Scalar) (hF : KeyOK F)
    (hstep : ValueStep env lenient s sc) :
    ∃ n st', Run env lenient n ({ spans := [] } : LState) (fieldText F s) st' [] ∧
      st'.toks = [tNewline 3 10, tEnvEnd 3 1, tNewline 2 (1 + F.length + 2 + s.length), sc.tok 2 (1 + F.length + 2),
        tAssign 2 (1 + F.length), tIdent F 2 1, tNewline 1 8, tEnvStart "D".toList 1 1] ∧
      st'.repairs = (identifierRepairs F 2 1).reverse ∧ st'.stack = [] ∧ st'.line = 4 ∧ st'.col = 1 := by
  let st0 : LState := { spans := [] }
  obtain ⟨s1, e1, a1⟩ := step_envStart env lenient st0 "D".toList
    ('\n' :: (F ++ (':' :: ':' :: (s ++ '\n' :: ("===END===".toList ++ ['\n']))))) rfl (by decide) (by decide)
  obtain ⟨s2, e2, a2⟩ := step_newline env lenient s1 (F ++ (':' :: ':' :: (s ++ '\n' :: ("===END===".toList ++ ['\n'])))) a1.ready
  obtain ⟨s3, e3, a3⟩ := step_ident env lenient s2 F (':' :: ':' :: (s ++ '\n' :: ("===END===".toList ++ ['\n']))) a2.ready
    hF.1 hF.2.1 (termOK_colon env _)
  obtain ⟨s4, e4, a4⟩ := step_assign env lenient s3 (s ++ '\n' :: ("===END===".toList ++ ['\n'])) a3.ready
  obtain ⟨s5, p5, e5, a5⟩ := hstep s4 ("===END===".toList ++ ['\n']) a4.ready
  obtain ⟨s6, e6, a6⟩ := step_newline env lenient s5 ("===END===".toList ++ ['\n']) a5.ready
  obtain ⟨s7, e7, a7⟩ := step_envEnd env lenient s6 ['\n'] a6.ready
  obtain ⟨s8, e8, a8⟩ := step_newline env lenient s7 [] a7.ready
  have hFne : F ≠ [] := by
    intro h; have := hF.1; rw [h] at this; simp [isIdentifierText] at this
  have run := Run.trans (run_of_step (by simp) e1) (Run.trans (run_of_step (by simp) e2) (Run.trans (run_of_step (by simp [hFne]) e3)
    (Run.trans (run_of_step (by simp) e4) (Run.trans (run_of_step (by simp) e5) (Run.trans (run_of_step (by simp) e6)
    (Run.trans (run_of_step (by decide) e7) (run_of_step (by simp) e8)))))))
  rw [← fieldText_shape] at run
  have l1 : s1.line = 1 := by rw [a1.line]
  have l2 : s2.line = 2 := by rw [a2.line, l1]
  have l3 : s3.line = 2 := by rw [a3.line, l2]
  have l4 : s4.line = 2 := by rw [a4.line, l3]
  have l5 : s5.line = 2 := by rw [a5.line, l4]
  have l6 : s6.line = 3 := by rw [a6.line, l5]
  have l7 : s7.line = 3 := by rw [a7.line, l6]
  have c1 : s1.col = 8 := by rw [a1.col]; rfl
  have c2 : s2.col = 1 := a2.col
  have c3 : s3.col = 1 + F.length := by rw [a3.col, c2]
  have c4 : s4.col = 1 + F.length + 2 := by rw [a4.col, c3]
  have c5 : s5.col = 1 + F.length + 2 + s.length := by rw [a5.col, c4]
  have c6 : s6.col = 1 := a6.col
  have c7 : s7.col = 10 := by rw [a7.col, c6]
  refine ⟨_, s8, run, ?_, ?_, ?_, ?_, a8.col⟩
  · rw [a8.toks, a7.toks, a6.toks, a5.toks, a4.toks, a3.toks, a2.toks, a1.toks, l1, l2, l3, l4, l5, l6, l7, c1, c2, c3, c4, c5, c6, c7]
    rfl
  · rw [a8.repairs, a7.repairs, a6.repairs, a5.repairs, a4.repairs, a3.repairs, a2.repairs, a1.repairs, l2, c2]
    simp only [List.nil_append]
    exact List.append_nil _
  · rw [a8.stack, a7.stack, a6.stack, a5.stack, a4.stack, a3.stack, a2.stack, a1.stack]
  · rw [a8.line, l7]

theorem fieldText_noTab (F s : Str) (hF : KeyOK F) (hclean : Clean s) : ∀ d ∈ fieldText F s, d ≠ '\t' := by
  intro d hd
  rw [fieldText_eq] at hd
  simp only [List.mem_append, List.mem_cons] at hd
  rcases hd with h | h | (h | h | h | h) | h | h | h
  · intro he; subst he; revert h; decide
  · subst h; decide
  · exact (identText_clean F hF.1 d h).2
  · subst h; decide
  · subst h; decide
  · exact (hclean d h).2
  · subst h; decide
  · intro he; subst he; revert h; decide
  · intro he; subst he; simp at h

/-- `fieldText F s` has no fence line: `normalize` returns it unchanged, with no fence span. -/
theorem normalize_field (env : Env) (F s : Str) (hF : KeyOK F) (hclean : Clean s) (hnfc : NfcStable env F s) :
    normalize env (fieldText F s) = .ok (fieldText F s, []) := by
  have hsplit := splitLines_fieldText F s hF.noNl (fun d hd => (hclean d hd).1)
  have hfence : ∀ l ∈ splitLines (fieldText F s), fenceLine l = none ∧ env.nfc l = l := by
    intro l hl
    rw [hsplit] at hl
    refine ⟨?_, hnfc l hl⟩
    simp only [fieldLines, List.mem_cons, List.mem_nil_iff, or_false] at hl
    rcases hl with h | h | h | h
    · subst h; decide
    · subst h
      apply fenceLine_none_of_head
      intro c hc
      apply identText_head F hF.1 c
      have hFne : F ≠ [] := by
        intro h; have := hF.1; rw [h] at this; simp [isIdentifierText] at this
      obtain ⟨k, t, hk⟩ := List.exists_cons_of_ne_nil hFne
      rw [hk] at hc ⊢
      exact hc
    · subst h; decide
    · subst h; decide
  exact normalize_plain env _ hfence

/-- **the lexer on the one-field document**, for any value text that one step reads as one scalar token: exactly the
nine tokens `ENVELOPE_START NEWLINE IDENTIFIER ASSIGN value NEWLINE ENVELOPE_END NEWLINE EOF`, positions included, and no
receipt other than the identifier notes of the key. -/
theorem tokenize_field (env : Env) (lenient : Bool) (F s : Str) (sc : FlatParse.Scalar) (hF : KeyOK F) (hclean : Clean s)
    (hstep : ValueStep env lenient s sc) (hnfc : NfcStable env F s) :
    tokenize env (fieldText F s) lenient
      = .ok (FlatParse.flatToks (flatFrame "D".toList 1) "D".toList [fieldLine F sc s.length], identifierRepairs F 2 1) := by
  have hnorm := normalize_field env F s hF hclean hnfc
  have htab := tabCheck_noTab [] (fieldText F s) 0 1 1 (fieldText_noTab F s hF hclean)
  obtain ⟨n, st', run, ht, hr, hs, hl, hc⟩ := run_field env lenient F s sc hF hstep
  have hloop := loop_of_run env lenient n _ st' (fieldText F s) run (by intro sp hsp; simp at hsp)
  unfold tokenize
  simp only [hnorm, htab, hloop, bind, Except.bind, hs, List.getLast?_nil, ht, hr, hl, hc, List.reverse_reverse]
  rfl

/-! ### NUMBER lexemes of any spelling -/

/-- the parts of a full match of `-?\d+\.?\d*(?:[eE][+-]?\d+)?` (ASCII digits). -/
structure NumParts where
  neg : Bool
  d1 : Str
  /-- the digits after `.` (possibly none: `1.`), if there is a `.` -/
  frac : Option Str
  /-- exponent letter, sign text (empty, `+` or `-`), exponent digits -/
  exp : Option (Char × Str × Str)

def fracS : Option Str → Str
  | none => []
  | some d2 => '.' :: d2
def expS : Option (Char × Str × Str) → Str
  | none => []
  | some (e, sg, ed) => e :: (sg ++ ed)
def NumParts.text (p : NumParts) : Str := signStr p.neg ++ (p.d1 ++ (fracS p.frac ++ expS p.exp))

structure NumParts.OK (p : NumParts) : Prop where
  d1 : Digits p.d1
  frac : ∀ d2, p.frac = some d2 → ∀ x ∈ d2, isDigitA x = true
  exp : ∀ e sg ed, p.exp = some (e, sg, ed) → (e = 'e' ∨ e = 'E') ∧ (sg = [] ∨ sg = ['+'] ∨ sg = ['-']) ∧ Digits ed

theorem isDigit_E (env : Env) : env.isDigit 'E' = false := isDigit_ascii_false env 'E' (by decide) (by decide)

theorem digits_head_isDigit {ed : Str} (h : Digits ed) (env : Env) (tail : Str) :
    ∀ c, (ed ++ tail).head? = some c → env.isDigit c = true := by
  obtain ⟨d, t, hdt⟩ := List.exists_cons_of_ne_nil h.1
  intro c hc
  rw [hdt] at hc
  have : d = c := by simpa using hc
  subst this
  exact h.env env d (by rw [hdt]; simp)

/-- exponent `[eE][+-]?digits`, any of the six spellings. -/
theorem expPart_gen (env : Env) (mant : Str) (e : Char) (sg ed rest : Str) (he : e = 'e' ∨ e = 'E')
    (hsg : sg = [] ∨ sg = ['+'] ∨ sg = ['-']) (hed : Digits ed) (hr : ∀ c, rest.head? = some c → env.isDigit c = false) :
    expPart env mant (e :: (sg ++ ed ++ rest)) = some (mant ++ e :: (sg ++ ed), rest) := by
  have ho : optChar (fun c => c == '+' || c == '-') (sg ++ ed ++ rest) = (sg, ed ++ rest) := by
    rcases hsg with h | h | h
    · subst h
      apply optChar_miss
      intro c hc
      have hd := digits_head_isDigit hed env rest c (by simpa using hc)
      cases hcp : (c == '+' || c == '-') with
      | false => rfl
      | true =>
        simp only [Bool.or_eq_true, beq_iff_eq] at hcp
        rcases hcp with h | h <;> subst h
        · rw [isDigit_plus] at hd; cases hd
        · rw [isDigit_dash] at hd; cases hd
    · subst h; rfl
    · subst h; rfl
  have hee : (e == 'e' || e == 'E') = true := by rcases he with h | h <;> subst h <;> rfl
  unfold expPart
  simp only [ho, many1_digits env ed rest hed.1 (hed.env env) hr, hee, if_true]
  simp

theorem expS_head (env : Env) (exp : Option (Char × Str × Str)) (rest : Str)
    (hexp : ∀ e sg ed, exp = some (e, sg, ed) → (e = 'e' ∨ e = 'E') ∧ (sg = [] ∨ sg = ['+'] ∨ sg = ['-']) ∧ Digits ed)
    (hterm : FloatTerm env rest) :
    ∀ c, (expS exp ++ rest).head? = some c → env.isDigit c = false ∧ c ≠ '.' ∧ c ≠ '-' ∧ c ≠ '+' := by
  intro c hc
  cases exp with
  | none =>
    have := hterm c (by simpa [expS] using hc)
    exact ⟨this.1, this.2.1, this.2.2.2.2.1, this.2.2.2.2.2⟩
  | some x =>
    obtain ⟨e, sg, ed⟩ := x
    have he := (hexp e sg ed rfl).1
    have : e = c := by simpa [expS] using hc
    subst this
    rcases he with h | h <;> subst h
    · exact ⟨isDigit_e env, by decide, by decide, by decide⟩
    · exact ⟨isDigit_E env, by decide, by decide, by decide⟩

/-- the exponent part after any mantissa. -/
theorem expPart_expS (env : Env) (mant : Str) (exp : Option (Char × Str × Str)) (rest : Str)
    (hexp : ∀ e sg ed, exp = some (e, sg, ed) → (e = 'e' ∨ e = 'E') ∧ (sg = [] ∨ sg = ['+'] ∨ sg = ['-']) ∧ Digits ed)
    (hterm : NumTerm env rest) :
    expPart env mant (expS exp ++ rest) = some (mant ++ expS exp, rest) := by
  cases exp with
  | none =>
    simp only [expS, List.nil_append, List.append_nil]
    exact expPart_stop env mant rest (fun c hc => ⟨(hterm c hc).2.2.1, (hterm c hc).2.2.2⟩)
  | some x =>
    obtain ⟨e, sg, ed⟩ := x
    obtain ⟨he, hsg, hed⟩ := hexp e sg ed rfl
    have := expPart_gen env mant e sg ed rest he hsg hed (fun c hc => (hterm c hc).1)
    simpa [expS, List.append_assoc] using this

theorem NumParts.text_append (p : NumParts) (rest : Str) :
    p.text ++ rest = signStr p.neg ++ (p.d1 ++ (fracS p.frac ++ (expS p.exp ++ rest))) := by
  simp [NumParts.text, List.append_assoc]

/-- **`Scan.number` on any NUMBER lexeme followed by a terminator matches exactly the lexeme.** -/
theorem number_numParts (env : Env) (p : NumParts) (hp : p.OK) (rest : Str) (hterm : FloatTerm env rest) :
    number env (p.text ++ rest) = some (p.text, rest) := by
  obtain ⟨neg, d1, frac, exp⟩ := p
  obtain ⟨h1, hf, he⟩ := hp
  have hhead := expS_head env exp rest he hterm
  rw [NumParts.text_append]
  cases frac with
  | some d2 =>
    have e : fracS (some d2) ++ (expS exp ++ rest) = '.' :: (d2 ++ (expS exp ++ rest)) := rfl
    simp only [e]
    rw [number_dot env neg d1 d2 _ h1.1 (h1.env env) (fun x hx => isDigit_of_isDigitA env x (hf d2 rfl x hx))
        (fun c hc => (hhead c hc).1),
      expPart_expS env _ exp rest he hterm.num]
    simp [NumParts.text, fracS, List.append_assoc]
  | none =>
    have e : fracS none ++ (expS exp ++ rest) = expS exp ++ rest := rfl
    simp only [e]
    rw [number_nodot env neg d1 _ h1.1 (h1.env env) (fun c hc => ⟨(hhead c hc).1, (hhead c hc).2.1⟩),
      expPart_expS env _ exp rest he hterm.num]
    simp [NumParts.text, fracS, List.append_assoc]

/-- `digits.` followed by a non-digit is not `\d+\.\d+`. -/
theorem twoParts_dot_nodigit (env : Env) (d1 tail : Str) (hne : d1 ≠ []) (hd1 : ∀ x ∈ d1, env.isDigit x = true)
    (ht : ∀ c, tail.head? = some c → env.isDigit c = false) :
    twoParts env (d1 ++ '.' :: tail) = none := by
  unfold twoParts
  rw [many1_digits env d1 ('.' :: tail) hne hd1 (fun c hc => by
    have : c = '.' := by simpa using hc.symm
    subst this; exact isDigit_dot env)]
  simp only [many1_none env.isDigit tail ht]

/-- an unsigned NUMBER lexeme followed by a float terminator is not a VERSION. -/
theorem versions_none_numParts (env : Env) (p : NumParts) (hp : p.OK) (hneg : p.neg = false) (rest : Str)
    (hterm : FloatTerm env rest) :
    version3 env (p.text ++ rest) = none ∧ version2pre env (p.text ++ rest) = none ∧
      version2build env (p.text ++ rest) = none := by
  obtain ⟨neg, d1, frac, exp⟩ := p
  obtain ⟨h1, hf, he⟩ := hp
  simp only at hneg
  subst hneg
  have hhead := expS_head env exp rest he hterm
  rw [NumParts.text_append]
  simp only [signStr, Bool.false_eq_true, if_false, List.nil_append]
  cases frac with
  | none =>
    have e : fracS none ++ (expS exp ++ rest) = expS exp ++ rest := rfl
    simp only [e]
    exact versions_none_nodot env d1 _ h1.1 (h1.env env) (fun c hc => ⟨(hhead c hc).1, (hhead c hc).2.1⟩)
  | some d2 =>
    have e : fracS (some d2) ++ (expS exp ++ rest) = '.' :: (d2 ++ (expS exp ++ rest)) := rfl
    simp only [e]
    have hd2 : ∀ x ∈ d2, env.isDigit x = true := fun x hx => isDigit_of_isDigitA env x (hf d2 rfl x hx)
    by_cases hne2 : d2 = []
    · subst hne2
      have h := twoParts_dot_nodigit env d1 (expS exp ++ rest) h1.1 (h1.env env) (fun c hc => (hhead c hc).1)
      simp only [List.nil_append]
      refine ⟨?_, ?_, ?_⟩
      · unfold version3; rw [h]
      · unfold version2pre; rw [h]
      · unfold version2build; rw [h]
    · exact versions_none_dot env d1 d2 _ h1.1 (h1.env env) hne2 hd2 hhead

/-- the pattern loop on a NUMBER lexeme: NUMBER is the pattern that matches, on exactly the lexeme. -/
theorem matchPattern_numParts (env : Env) (prev : Option Char) (p : NumParts) (hp : p.OK) (rest : Str)
    (hterm : FloatTerm env rest) :
    matchPattern env false prev (p.text ++ rest) = numberMatch env p.text rest := by
  have hn := number_numParts env p hp rest hterm
  obtain ⟨d, t, hdt⟩ := List.exists_cons_of_ne_nil hp.d1.1
  have hd : env.isDigit d = true := hp.d1.env env d (by rw [hdt]; simp)
  cases hneg : p.neg with
  | true =>
    have e : p.text ++ rest = '-' :: d :: (t ++ (fracS p.frac ++ (expS p.exp ++ rest))) := by
      rw [NumParts.text_append, hneg, hdt]; simp [signStr]
    rw [e] at hn ⊢
    exact matchPattern_dash env prev d _ _ _ hd hn
  | false =>
    obtain ⟨h3, h2p, h2b⟩ := versions_none_numParts env p hp hneg rest hterm
    refine matchPattern_digit env prev _ _ _ ?_ ?_ h3 h2p h2b hn
    · intro c hc
      rw [NumParts.text_append, hneg, hdt] at hc
      have : d = c := by simpa [signStr] using hc
      subst this; exact hd
    · rw [NumParts.text_append, hneg, hdt]; simp [signStr]


/-! ### the conversion: `int()` / `float()` -/

/-- decimal value of a digit string (ASCII), environment-free. -/
def decVal : Str → Nat → Nat
  | [], acc => acc
  | c :: cs, acc => decVal cs (acc * 10 + (c.toNat - 48))

theorem digitsVal_decVal (env : Env) (ds : Str) (h : ∀ c ∈ ds, isDigitA c = true) (acc : Nat) :
    digitsVal env ds acc = decVal ds acc := by
  induction ds generalizing acc with
  | nil => rfl
  | cons c cs ih =>
    rw [digitsVal, decVal, digit?_of_isDigitA env c (h c (by simp)), ih (fun x hx => h x (by simp [hx]))]
    rfl

/-- no `.`, `e`, `E` in the lexeme: the lexer converts with `int()`, otherwise with `float()`. -/
def isIntLexeme (s : Str) : Bool := !(s.contains '.' || s.contains 'e' || s.contains 'E')

/-- the integer an int lexeme `-?digits` denotes (`-0` is `0`, `007` is `7`). -/
def intOfText (s : Str) : Int :=
  match s with
  | '-' :: r => -((decVal r 0 : Nat) : Int)
  | _ => ((decVal s 0 : Nat) : Int)

/-- number of digits of an int lexeme (what CPython's `int_max_str_digits` limit counts: leading zeros included). -/
def digitCount (s : Str) : Nat :=
  match s with
  | '-' :: r => r.length
  | _ => s.length

theorem NumParts.mem (p : NumParts) (hp : p.OK) (x : Char) (hx : x ∈ p.text) :
    x = '-' ∨ x = '.' ∨ x = 'e' ∨ x = 'E' ∨ x = '+' ∨ isDigitA x = true := by
  obtain ⟨neg, d1, frac, exp⟩ := p
  obtain ⟨h1, hf, he⟩ := hp
  simp only [NumParts.text, List.mem_append] at hx
  rcases hx with h | h | h | h
  · left
    unfold signStr at h
    split at h <;> simp at h
    exact h
  · exact Or.inr (Or.inr (Or.inr (Or.inr (Or.inr (h1.2 x h)))))
  · cases frac with
    | none => simp [fracS] at h
    | some d2 =>
      simp only [fracS, List.mem_cons] at h
      rcases h with h | h
      · exact Or.inr (Or.inl h)
      · exact Or.inr (Or.inr (Or.inr (Or.inr (Or.inr (hf d2 rfl x h)))))
  · cases exp with
    | none => simp [expS] at h
    | some se =>
      obtain ⟨e, sg, ed⟩ := se
      obtain ⟨hee, hsg, h3⟩ := he e sg ed rfl
      simp only [expS, List.mem_cons, List.mem_append] at h
      rcases h with h | h | h
      · rcases hee with h' | h'
        · exact Or.inr (Or.inr (Or.inl (h.trans h')))
        · exact Or.inr (Or.inr (Or.inr (Or.inl (h.trans h'))))
      · rcases hsg with hs | hs | hs <;> subst hs
        · simp at h
        · exact Or.inr (Or.inr (Or.inr (Or.inr (Or.inl (by simpa using h)))))
        · exact Or.inl (by simpa using h)
      · exact Or.inr (Or.inr (Or.inr (Or.inr (Or.inr (h3.2 x h)))))

theorem NumParts.not_mem (p : NumParts) (hp : p.OK) (c : Char) (h1 : c ≠ '-') (h2 : c ≠ '.') (h3 : c ≠ 'e') (h3' : c ≠ 'E')
    (h4 : c ≠ '+') (h5 : isDigitA c = false) : ∀ x ∈ p.text, x ≠ c := by
  intro x hx e
  subst e
  rcases p.mem hp x hx with h | h | h | h | h | h
  · exact h1 h
  · exact h2 h
  · exact h3 h
  · exact h3' h
  · exact h4 h
  · rw [h] at h5; cases h5

theorem NumParts.ne_nil (p : NumParts) (hp : p.OK) : p.text ≠ [] := by
  have := hp.d1.1
  simp [NumParts.text, this]

theorem NumParts.clean (p : NumParts) (hp : p.OK) : Clean p.text := fun d hd =>
  ⟨p.not_mem hp '\n' (by decide) (by decide) (by decide) (by decide) (by decide) (by decide) d hd,
   p.not_mem hp '\t' (by decide) (by decide) (by decide) (by decide) (by decide) (by decide) d hd⟩

/-- an int lexeme is exactly one without fraction and exponent. -/
theorem NumParts.isInt_iff (p : NumParts) (hp : p.OK) : isIntLexeme p.text = true ↔ p.frac = none ∧ p.exp = none := by
  obtain ⟨neg, d1, frac, exp⟩ := p
  constructor
  · intro h
    simp only [isIntLexeme, Bool.not_eq_true', Bool.or_eq_false_iff] at h
    obtain ⟨⟨hdot, he⟩, hE⟩ := h
    constructor
    · cases frac with
      | none => rfl
      | some d2 =>
        exfalso
        have : ('.' : Char) ∈ (NumParts.mk neg d1 (some d2) exp).text := by simp [NumParts.text, fracS]
        rw [contains_true _ _ this] at hdot; cases hdot
    · cases exp with
      | none => rfl
      | some se =>
        exfalso
        obtain ⟨e, sg, ed⟩ := se
        have hm : e ∈ (NumParts.mk neg d1 frac (some (e, sg, ed))).text := by simp [NumParts.text, expS]
        rcases (hp.exp e sg ed rfl).1 with h | h <;> subst h
        · rw [contains_true _ _ hm] at he; cases he
        · rw [contains_true _ _ hm] at hE; cases hE
  · rintro ⟨hf, he⟩
    simp only at hf he
    subst hf; subst he
    have hnot : ∀ c : Char, c ≠ '-' → isDigitA c = false → (NumParts.mk neg d1 none none).text.contains c = false := by
      intro c hc hd
      apply contains_false
      intro x hx e
      subst e
      simp only [NumParts.text, fracS, expS, List.append_nil, List.mem_append] at hx
      rcases hx with h | h
      · unfold signStr at h
        split at h <;> simp at h
        exact hc h
      · rw [hp.d1.2 x h] at hd; cases hd
    simp only [isIntLexeme, hnot '.' (by decide) (by decide), hnot 'e' (by decide) (by decide),
      hnot 'E' (by decide) (by decide), Bool.or_self, Bool.not_false]

theorem digits_no_dash {ds : Str} (h : Digits ds) : ∀ r, ds ≠ '-' :: r := by
  intro r e
  have := h.2 '-' (by rw [e]; simp)
  revert this; decide

/-- `int(lexeme)` on `-?digits`. -/
theorem intOfLexeme_signed (env : Env) (neg : Bool) (ds : Str) (h : Digits ds) :
    intOfLexeme env (signStr neg ++ ds) =
      if digitCount (signStr neg ++ ds) > 4300 then .error (.py "ValueError".toList) else .ok (intOfText (signStr neg ++ ds)) := by
  cases neg with
  | true =>
    show intOfLexeme env ('-' :: ds) = _
    rw [intOfLexeme_neg_digits, digitsVal_decVal env ds h.2]
    rfl
  | false =>
    show intOfLexeme env ds = if digitCount ds > 4300 then _ else .ok (intOfText ds)
    rw [intOfLexeme_digits env ds h.2, digitsVal_decVal env ds h.2]
    have e1 : digitCount ds = ds.length := by
      unfold digitCount; split
      · next r => exact absurd rfl (digits_no_dash h r)
      · rfl
    have e2 : intOfText ds = ((decVal ds 0 : Nat) : Int) := by
      unfold intOfText; split
      · next r => exact absurd rfl (digits_no_dash h r)
      · rfl
    rw [e1, e2]

/-- the scalar token a NUMBER lexeme becomes: an `int` when it has no `.`/`e`/`E`, else the float `repr(float(s))`;
`raw` is the lexeme. -/
def numScalar (env : Env) (s : Str) : FlatParse.Scalar :=
  if isIntLexeme s then .int (intOfText s) s else .float (env.floatRepr s) s

/-- the lexeme is representable: an int lexeme has at most 4300 digits (CPython's `int_max_str_digits`; beyond it `int()`
raises — finding C13N3), a float lexeme does not overflow to `inf` (the lexer refuses an overflow — finding C13N4). -/
def Representable (env : Env) (s : Str) : Prop :=
  if isIntLexeme s then digitCount s ≤ 4300 else env.floatRepr s ≠ "inf".toList ∧ env.floatRepr s ≠ "-inf".toList

/-- **`numberMatch` on a NUMBER lexeme**: `int()` for `-?digits`, refusing beyond 4300 digits; `float()` otherwise, refusing
an overflow. -/
theorem numberMatch_numParts (env : Env) (p : NumParts) (hp : p.OK) (rest : Str) :
    numberMatch env p.text rest =
      if isIntLexeme p.text then
        (if digitCount p.text > 4300 then .error (.py "ValueError".toList)
         else .ok (some (mNumber (.int (intOfText p.text)) p.text rest)))
      else
        (if env.floatRepr p.text == "inf".toList || env.floatRepr p.text == "-inf".toList then .error (.py "OverflowToInf".toList)
         else .ok (some (mNumber (.float (env.floatRepr p.text)) p.text rest))) := by
  cases hi : isIntLexeme p.text with
  | true =>
    obtain ⟨hf, he⟩ := (p.isInt_iff hp).mp hi
    have hc : (p.text.contains '.' || p.text.contains 'e' || p.text.contains 'E') = false := by
      simp only [isIntLexeme, Bool.not_eq_true'] at hi; exact hi
    have ht : p.text = signStr p.neg ++ p.d1 := by simp [NumParts.text, hf, he, fracS, expS]
    unfold numberMatch
    rw [hc]
    simp only [Bool.false_eq_true, if_false, if_true]
    rw [ht, intOfLexeme_signed env p.neg p.d1 hp.d1]
    by_cases hlen : digitCount (signStr p.neg ++ p.d1) > 4300
    · rw [if_pos hlen, if_pos hlen]
    · rw [if_neg hlen, if_neg hlen]; rfl
  | false =>
    have hc : (p.text.contains '.' || p.text.contains 'e' || p.text.contains 'E') = true := by
      simp only [isIntLexeme, Bool.not_eq_false'] at hi; exact hi
    unfold numberMatch
    rw [if_pos hc]
    simp only [Bool.false_eq_true, if_false]
    split <;> rfl

/-- **any representable NUMBER lexeme: one NUMBER token** carrying `int(lexeme)` resp. `repr(float(lexeme))`, `raw` = the
lexeme, no receipt; any state between tokens, both lexer modes, any float terminator. -/
theorem step_numParts (env : Env) (lenient : Bool) (st : LState) (p : NumParts) (hp : p.OK) (rest : Str) (hr : Ready st)
    (hterm : FloatTerm env rest) (hrep : Representable env p.text) :
    ∃ st', step env lenient st (p.text ++ rest) = .ok (st', rest) ∧
      Adv st st' [(numScalar env p.text).tok st.line st.col] [] 0 (st.col + p.text.length) p.text.getLast? := by
  have hnl : ∀ d ∈ p.text, d ≠ '\n' := fun d hd => (p.clean hp d hd).1
  have hsp : p.text.head? ≠ some ' ' := by
    intro hh
    exact p.not_mem hp ' ' (by decide) (by decide) (by decide) (by decide) (by decide) (by decide) ' '
      (List.mem_of_mem_head? hh) rfl
  have hmp := matchPattern_numParts env st.prev p hp rest hterm
  rw [numberMatch_numParts env p hp rest] at hmp
  unfold Representable at hrep
  unfold numScalar
  cases hi : isIntLexeme p.text with
  | true =>
    rw [hi] at hmp hrep
    simp only [if_true] at hmp hrep
    rw [if_neg (by omega)] at hmp
    exact step_number env lenient st _ p.text rest hr (p.ne_nil hp) hnl hsp hmp
  | false =>
    rw [hi] at hmp hrep
    simp only [Bool.false_eq_true, if_false] at hmp hrep
    have hb : (env.floatRepr p.text == "inf".toList || env.floatRepr p.text == "-inf".toList) = false := by
      simp only [Bool.or_eq_false_iff, beq_eq_false_iff_ne, ne_eq]
      exact hrep
    rw [hb] at hmp
    simp only [Bool.false_eq_true, if_false] at hmp
    exact step_number env lenient st _ p.text rest hr (p.ne_nil hp) hnl hsp hmp

/-- beyond the digit limit / on overflow the lexer refuses with a positioned `LexerError` E005 at the lexeme. -/
theorem step_numParts_refused (env : Env) (lenient : Bool) (st : LState) (p : NumParts) (hp : p.OK) (rest : Str) (hr : Ready st)
    (hterm : FloatTerm env rest) (hrep : ¬ Representable env p.text) :
    step env lenient st (p.text ++ rest) = .error (.lexer "E005".toList st.line st.col) := by
  have hmp := matchPattern_numParts env st.prev p hp rest hterm
  rw [numberMatch_numParts env p hp rest] at hmp
  unfold Representable at hrep
  obtain ⟨c, t, hlex⟩ := List.exists_cons_of_ne_nil (p.ne_nil hp)
  have hc : c ≠ ' ' := by
    intro e
    exact p.not_mem hp ' ' (by decide) (by decide) (by decide) (by decide) (by decide) (by decide) ' '
      (by rw [hlex, e]; simp) rfl
  have herr : ∃ e, matchPattern env false st.prev (p.text ++ rest) = .error e := by
    cases hi : isIntLexeme p.text with
    | true =>
      rw [hi] at hmp hrep
      simp only [if_true] at hmp hrep
      rw [if_pos (by omega)] at hmp
      exact ⟨_, hmp⟩
    | false =>
      rw [hi] at hmp hrep
      simp only [Bool.false_eq_true, if_false] at hmp hrep
      have hb : (env.floatRepr p.text == "inf".toList || env.floatRepr p.text == "-inf".toList) = true := by
        cases h1 : (env.floatRepr p.text == "inf".toList) with
        | true => rfl
        | false =>
          cases h2 : (env.floatRepr p.text == "-inf".toList) with
          | true => rfl
          | false =>
            exfalso; apply hrep
            exact ⟨by simpa using h1, by simpa using h2⟩
      rw [hb] at hmp
      exact ⟨_, hmp⟩
  obtain ⟨e, he⟩ := herr
  rw [hlex] at he ⊢
  rw [← hr.blank] at he
  exact pattern_step_error env lenient st c (t ++ rest) e hr.noSpan hc he


/-! ### `pyNumberFull` texts have such parts -/

theorem dropDigits_nil_digits (r : Str) (h : (dropDigits r).isEmpty = true) : ∀ x ∈ r, isDigitA x = true := by
  induction r with
  | nil => intro x hx; simp at hx
  | cons c cs ih =>
    by_cases hc : isDigit c = true
    · have e : dropDigits (c :: cs) = dropDigits cs := by simp [dropDigits, hc]
      rw [e] at h
      intro x hx
      rcases List.mem_cons.mp hx with h' | h'
      · rw [h']; exact hc
      · exact ih h x h'
    · exfalso
      have e : dropDigits (c :: cs) = c :: cs := by simp [dropDigits, hc]
      rw [e] at h; cases h

theorem pyExponentFull_shape (t : Str) (h : pyExponentFull t = true) :
    ∃ e sg ed, t = e :: (sg ++ ed) ∧ (e = 'e' ∨ e = 'E') ∧ (sg = [] ∨ sg = ['+'] ∨ sg = ['-']) ∧ Digits ed := by
  unfold pyExponentFull at h
  split at h
  · next e r =>
    split at h
    · next he =>
      have he' : e = 'e' ∨ e = 'E' := by simpa using he
      simp only at h
      split at h
      · next d r1' heq =>
        simp only [Bool.and_eq_true] at h
        rw [heq] at h
        have hd : Digits (d :: r1') := ⟨by simp, dropDigits_nil_digits _ h.2⟩
        split at heq
        · next t' => exact ⟨e, ['+'], d :: r1', by rw [heq]; rfl, he', Or.inr (Or.inl rfl), hd⟩
        · next t' => exact ⟨e, ['-'], d :: r1', by rw [heq]; rfl, he', Or.inr (Or.inr rfl), hd⟩
        · exact ⟨e, [], d :: r1', by rw [heq]; rfl, he', Or.inl rfl, hd⟩
      · cases h
    · cases h
  · cases h

theorem dropDigits_split (s : Str) : ∃ d, s = d ++ dropDigits s ∧ (∀ x ∈ d, isDigitA x = true) ∧
    (∀ c, (dropDigits s).head? = some c → isDigitA c = false) := by
  induction s with
  | nil => exact ⟨[], rfl, by simp, by simp [dropDigits]⟩
  | cons c cs ih =>
    by_cases hc : isDigit c = true
    · have e : dropDigits (c :: cs) = dropDigits cs := by simp [dropDigits, hc]
      obtain ⟨d, h1, h2, h3⟩ := ih
      refine ⟨c :: d, by rw [e, List.cons_append, ← h1], ?_, by rw [e]; exact h3⟩
      intro x hx
      rcases List.mem_cons.mp hx with h' | h'
      · rw [h']; exact hc
      · exact h2 x h'
    · have e : dropDigits (c :: cs) = c :: cs := by simp [dropDigits, hc]
      refine ⟨[], by rw [e]; rfl, by simp, ?_⟩
      rw [e]
      intro x hx
      have : c = x := by simpa using hx
      subst this
      simpa [isDigit_eq_isDigitA] using hc

theorem dropDigits_of_head (t : Str) (h : ∀ c, t.head? = some c → isDigitA c = false) : dropDigits t = t := by
  cases t with
  | nil => rfl
  | cons c r =>
    have : isDigit c = false := h c rfl
    simp [dropDigits, this]

def ExpOK (exp : Option (Char × Str × Str)) : Prop :=
  ∀ e sg ed, exp = some (e, sg, ed) → (e = 'e' ∨ e = 'E') ∧ (sg = [] ∨ sg = ['+'] ∨ sg = ['-']) ∧ Digits ed

theorem pyTail_exp (t : Str) (h : (t.isEmpty || pyExponentFull t) = true) : ∃ exp, t = expS exp ∧ ExpOK exp := by
  rcases Bool.or_eq_true_iff.mp h with h | h
  · have ht : t = [] := by simpa using h
    exact ⟨none, by rw [ht]; rfl, fun e sg ed he => by cases he⟩
  · obtain ⟨e, sg, ed, ht, h1, h2, h3⟩ := pyExponentFull_shape t h
    exact ⟨some (e, sg, ed), ht, fun e' sg' ed' he => by cases he; exact ⟨h1, h2, h3⟩⟩

theorem pyNumberTail_shape (t : Str) (hhead : ∀ c, t.head? = some c → isDigitA c = false) (h : pyNumberTail t = true) :
    ∃ frac exp, t = fracS frac ++ expS exp ∧ (∀ d2, frac = some d2 → ∀ x ∈ d2, isDigitA x = true) ∧ ExpOK exp := by
  unfold pyNumberTail at h
  simp only at h
  split at h
  · next r =>
    obtain ⟨d2, hr, hd2, _⟩ := dropDigits_split r
    obtain ⟨exp, he, hok⟩ := pyTail_exp _ h
    refine ⟨some d2, exp, ?_, fun d hd => by cases hd; exact hd2, hok⟩
    rw [← he]
    show '.' :: r = '.' :: (d2 ++ dropDigits r)
    rw [← hr]
  · rw [dropDigits_of_head t hhead] at h
    obtain ⟨exp, he, hok⟩ := pyTail_exp _ h
    exact ⟨none, exp, by rw [← he]; rfl, (fun d hd => by cases hd), hok⟩

/-- the digits part: `s1` starts with a digit and the rest is a tail. -/
theorem pyNumberBody_shape (s1 : Str) (c : Char) (r : Str) (hs : s1 = c :: r) (hc : isDigit c = true)
    (h : pyNumberTail (dropDigits s1) = true) :
    ∃ d1 frac exp, s1 = d1 ++ (fracS frac ++ expS exp) ∧ Digits d1 ∧
      (∀ d2, frac = some d2 → ∀ x ∈ d2, isDigitA x = true) ∧ ExpOK exp := by
  obtain ⟨d1, h1, h2, h3⟩ := dropDigits_split s1
  obtain ⟨frac, exp, ht, hf, he⟩ := pyNumberTail_shape _ h3 h
  refine ⟨d1, frac, exp, by rw [← ht]; exact h1, ⟨?_, h2⟩, hf, he⟩
  intro hd
  subst hd
  rw [List.nil_append] at h1
  have := h3 c (by rw [← h1, hs]; rfl)
  rw [isDigit_eq_isDigitA] at hc
  rw [hc] at this; cases this

/-- **every text accepted by `pyNumberFull` is a NUMBER lexeme with well-formed parts.** -/
theorem pyNumberFull_shape (s : Str) (h : pyNumberFull s = true) : ∃ p : NumParts, p.OK ∧ p.text = s := by
  unfold pyNumberFull at h
  simp only at h
  split at h
  · next c r heq =>
    rw [heq] at h
    simp only [Bool.and_eq_true] at h
    obtain ⟨d1, frac, exp, hs, hd1, hf, he⟩ := pyNumberBody_shape (c :: r) c r rfl h.1 h.2
    split at heq
    · next r0 =>
      exact ⟨⟨true, d1, frac, exp⟩, ⟨hd1, hf, he⟩, by rw [NumParts.text, ← hs, heq]; rfl⟩
    · exact ⟨⟨false, d1, frac, exp⟩, ⟨hd1, hf, he⟩, by rw [NumParts.text, ← hs, heq]; rfl⟩
  · cases h

/-! ### the compiled NUMBER fragment's shape, and the value step -/

/-- what follows the integer digits in the compiled NUMBER fragment: nothing, or `.` digit+ (then end of text). -/
def gbnfFrac : Str → Bool
  | [] => true
  | '.' :: r2 =>
    match r2 with
    | d :: _ => isDigit d && (dropDigits r2).isEmpty
    | [] => false
  | _ => false

/-- full match of `"-"? [0-9]+ ("." [0-9]+)?` — the language of the compiled TYPE[NUMBER] fragment
(`numberAlts` / `number_sound` in `gbnf/Octave/Props/C13.lean`). -/
def gbnfNumber (s : Str) : Bool :=
  let s1 := match s with
    | '-' :: r => r
    | _ => s
  match s1 with
  | c :: _ => isDigit c && gbnfFrac (dropDigits s1)
  | [] => false

theorem gbnfFrac_tail (t : Str) (h : gbnfFrac t = true) : pyNumberTail t = true := by
  unfold gbnfFrac at h
  split at h
  · rfl
  · next r2 =>
    split at h
    · next d r3 =>
      simp only [Bool.and_eq_true] at h
      unfold pyNumberTail
      simp only [h.2, Bool.true_or]
    · cases h
  · cases h

/-- the compiled fragment's language is inside the reader's NUMBER pattern. -/
theorem gbnfNumber_pyNumberFull (s : Str) (h : gbnfNumber s = true) : pyNumberFull s = true := by
  unfold gbnfNumber at h
  unfold pyNumberFull
  simp only at h ⊢
  split at h
  · next c r heq =>
    rw [heq] at h
    simp only [Bool.and_eq_true] at h
    have hpy := gbnfFrac_tail _ h.2
    split at heq
    · next r0 =>
      subst heq
      simp only [Bool.and_eq_true]
      exact ⟨h.1, hpy⟩
    · next hnd =>
      subst heq
      simp only [Bool.and_eq_true]
      exact ⟨h.1, hpy⟩
  · cases h

theorem gbnfFrac_shape (t : Str) (h : gbnfFrac t = true) : t = [] ∨ ∃ d2, t = '.' :: d2 ∧ Digits d2 := by
  unfold gbnfFrac at h
  split at h
  · exact Or.inl rfl
  · next r2 =>
    split at h
    · next d r3 =>
      simp only [Bool.and_eq_true] at h
      exact Or.inr ⟨d :: r3, rfl, by simp, dropDigits_nil_digits _ h.2⟩
    · cases h
  · cases h

/-- the parts of a text of the compiled NUMBER fragment: sign, digits, optionally `.` and at least one digit; no exponent. -/
theorem gbnfNumber_shape (s : Str) (h : gbnfNumber s = true) :
    ∃ p : NumParts, p.OK ∧ p.text = s ∧ p.exp = none ∧ ∀ d2, p.frac = some d2 → d2 ≠ [] := by
  unfold gbnfNumber at h
  simp only at h
  split at h
  · next c r heq =>
    rw [heq] at h
    simp only [Bool.and_eq_true] at h
    obtain ⟨d1, h1, h2, h3⟩ := dropDigits_split (c :: r)
    have hd1 : Digits d1 := by
      refine ⟨?_, h2⟩
      intro hd
      subst hd
      rw [List.nil_append] at h1
      have := h3 c (by rw [← h1]; rfl)
      have hc := h.1
      rw [isDigit_eq_isDigitA] at hc
      rw [hc] at this; cases this
    have key : ∃ frac, c :: r = d1 ++ (fracS frac ++ expS none) ∧ (∀ d2, frac = some d2 → Digits d2) := by
      rcases gbnfFrac_shape _ h.2 with ht | ⟨d2, ht, hd2⟩
      · exact ⟨none, by rw [ht] at h1; exact h1, fun d hd => by cases hd⟩
      · exact ⟨some d2, by rw [ht] at h1; simpa [fracS, expS] using h1, fun d hd => by cases hd; exact hd2⟩
    obtain ⟨frac, hs, hf⟩ := key
    split at heq
    · next r0 =>
      exact ⟨⟨true, d1, frac, none⟩, ⟨hd1, fun d hd => (hf d hd).2, fun e sg ed he => by cases he⟩,
        by rw [NumParts.text, ← hs, heq]; rfl, rfl, fun d hd => (hf d hd).1⟩
    · exact ⟨⟨false, d1, frac, none⟩, ⟨hd1, fun d hd => (hf d hd).2, fun e sg ed he => by cases he⟩,
        by rw [NumParts.text, ← hs, heq]; rfl, rfl, fun d hd => (hf d hd).1⟩
  · cases h

/-- in the compiled fragment's language the int lexemes are exactly the texts without `.`. -/
theorem gbnfNumber_isInt (s : Str) (h : gbnfNumber s = true) : isIntLexeme s = !s.contains '.' := by
  obtain ⟨p, hp, rfl, hexp, _⟩ := gbnfNumber_shape s h
  cases hi : isIntLexeme p.text with
  | true =>
    have hc : (p.text.contains '.' || p.text.contains 'e' || p.text.contains 'E') = false := by
      simp only [isIntLexeme, Bool.not_eq_true'] at hi; exact hi
    simp only [Bool.or_eq_false_iff] at hc
    rw [hc.1.1]; rfl
  | false =>
    have : ¬ (p.frac = none ∧ p.exp = none) := fun hh => by
      rw [(p.isInt_iff hp).mpr hh] at hi; cases hi
    have hfr : p.frac ≠ none := fun hf => this ⟨hf, hexp⟩
    obtain ⟨neg, d1, frac, exp⟩ := p
    cases frac with
    | none => exact absurd rfl hfr
    | some d2 =>
      have : ('.' : Char) ∈ (NumParts.mk neg d1 (some d2) exp).text := by simp [NumParts.text, fracS]
      rw [contains_true _ _ this]; rfl

/-- a representable NUMBER lexeme before the line end: the value step `tokenize_field` asks for. -/
theorem numParts_valueStep (env : Env) (lenient : Bool) (p : NumParts) (hp : p.OK) (hrep : Representable env p.text) :
    ValueStep env lenient p.text (numScalar env p.text) := by
  intro st rest hr
  obtain ⟨st', h1, h2⟩ := step_numParts env lenient st p hp ('\n' :: rest) hr (floatTerm_nl env rest) hrep
  exact ⟨st', _, h1, h2⟩

/-- the first four steps on `fieldText F s`: the lexer stands at the value, line 2, column `1 + |F| + 2`. -/
theorem run_field_prefix (env : Env) (lenient : Bool) (F s : Str) (hF : KeyOK F) :
    ∃ st', Run env lenient 4 ({ spans := [] } : LState) (fieldText F s) st' (s ++ '\n' :: ("===END===".toList ++ ['\n'])) ∧
      Ready st' ∧ st'.line = 2 ∧ st'.col = 1 + F.length + 2 := by
  let st0 : LState := { spans := [] }
  obtain ⟨s1, e1, a1⟩ := step_envStart env lenient st0 "D".toList
    ('\n' :: (F ++ (':' :: ':' :: (s ++ '\n' :: ("===END===".toList ++ ['\n']))))) rfl (by decide) (by decide)
  obtain ⟨s2, e2, a2⟩ := step_newline env lenient s1 (F ++ (':' :: ':' :: (s ++ '\n' :: ("===END===".toList ++ ['\n'])))) a1.ready
  obtain ⟨s3, e3, a3⟩ := step_ident env lenient s2 F (':' :: ':' :: (s ++ '\n' :: ("===END===".toList ++ ['\n']))) a2.ready
    hF.1 hF.2.1 (termOK_colon env _)
  obtain ⟨s4, e4, a4⟩ := step_assign env lenient s3 (s ++ '\n' :: ("===END===".toList ++ ['\n'])) a3.ready
  have hFne : F ≠ [] := by
    intro h; have := hF.1; rw [h] at this; simp [isIdentifierText] at this
  have run := Run.trans (run_of_step (by simp) e1) (Run.trans (run_of_step (by simp) e2) (Run.trans (run_of_step (by simp [hFne]) e3)
    (run_of_step (by simp) e4)))
  rw [← fieldText_shape] at run
  have l1 : s1.line = 1 := by rw [a1.line]
  have l2 : s2.line = 2 := by rw [a2.line, l1]
  have l3 : s3.line = 2 := by rw [a3.line, l2]
  have c2 : s2.col = 1 := a2.col
  have c3 : s3.col = 1 + F.length := by rw [a3.col, c2]
  exact ⟨s4, run, a4.ready, by rw [a4.line, l3], by rw [a4.col, c3]⟩

/-- **a value the lexer refuses**: if the step at the value raises E005 there, `tokenize` raises E005 at line 2,
column `1 + |F| + 2` (the first character of the value). -/
theorem tokenize_field_refused (env : Env) (lenient : Bool) (F s : Str) (hF : KeyOK F) (hclean : Clean s) (hne : s ≠ [])
    (hstep : ∀ (st : LState) (rest : Str), Ready st →
      step env lenient st (s ++ '\n' :: rest) = .error (.lexer "E005".toList st.line st.col))
    (hnfc : NfcStable env F s) :
    tokenize env (fieldText F s) lenient = .error (.lexer "E005".toList 2 (1 + F.length + 2)) := by
  have hnorm := normalize_field env F s hF hclean hnfc
  have htab := tabCheck_noTab [] (fieldText F s) 0 1 1 (fieldText_noTab F s hF hclean)
  obtain ⟨st', run, hr, hl, hc⟩ := run_field_prefix env lenient F s hF
  have hlen : 4 + 1 ≤ (fieldText F s).length := by
    rw [fieldText_eq]; simp
  obtain ⟨f, hf⟩ : ∃ f, (fieldText F s).length + 1 = (f + 1) + 4 := ⟨(fieldText F s).length - 4, by omega⟩
  obtain ⟨c, t, hct⟩ := List.exists_cons_of_ne_nil hne
  have hloop : loop env lenient ((fieldText F s).length + 1) ({ spans := [] } : LState) (fieldText F s)
      = .error (.lexer "E005".toList 2 (1 + F.length + 2)) := by
    rw [hf, run.loop (f + 1)]
    have hs := hstep st' ("===END===".toList ++ ['\n']) hr
    rw [hl, hc, hct] at hs
    rw [hct]
    show loop env lenient (f + 1) st' (c :: (t ++ '\n' :: ("===END===".toList ++ ['\n']))) = _
    rw [loop]
    simp only [bind, Except.bind]
    have hs' : step env lenient st' (c :: (t ++ '\n' :: ("===END===".toList ++ ['\n']))) =
        .error (.lexer "E005".toList 2 (1 + F.length + 2)) := hs
    rw [hs']
  unfold tokenize
  simp only [hnorm, htab, hloop, bind, Except.bind]

end Octave.C13
