/-
C03 on NESTED BLOCKS — an INDENTED `===END===` behind a block tree: the PARSER half.

`Lemmas/TreeSpellParse` reads a spelled forest followed by ONE token `e` that starts a line (`StopAt nx e`) and needs the class
condition at that line's indentation `nx`.  Behind a block tree an indented `===END===` is lexed as `INDENT(v) ENVELOPE_END …`; the
INDENT token is treated differently by every open block (Model/ParserDoc.lean `blockLoop`): a block whose children's indentation is
`≤ v` swallows it (and then stops at the ENVELOPE_END, which ends every child loop whatever the indentation), a block whose
children's indentation is `> v` stops in front of it, an EMPTY block header with column `≤ v` takes it for the INDENT of a first
child, enters the child loop and finds no child; the body loop of `parse_document` skips it.  In every case the same nodes come out.

Here: the three fuel-indexed statements of `TreeSpellParse` re-proved for the follower `endIndR`: what is in front of the cursor
behind the forest is `e :: k` or `INDENT(v) :: e :: k` with `e` = ENVELOPE_END / EOF, and the same holds afterwards (the INDENT may
have been consumed).  The class condition is the one for an UNINDENTED `===END===` (`forestOk … 0`): no condition on `v` at all.
Nodes that are not last in their forest are followed by a sibling: the lemmas of `TreeSpellParse` are reused for them.
Results: `endInd_parseSection_block`, `endInd_docLoop_tree`, `endInd_parseDocument_framed`.
-/
import Octave.Lemmas.TreeSpellParse
namespace Octave.C03.TreeSpell
open Octave Parser FlatParse SpellParse Spell BlockParse

local macro "step_simp" "[" ts:Lean.Parser.Tactic.simpLemma,* "]" : tactic =>
  `(tactic| simp only [bind, StateT.bind, Except.bind, pure, StateT.pure, Except.pure, current_mk, peek_mk, advance_mk,
      curType_mk, isAdjacentBracket_mk, budget_mk, warn_mk, get, getThe, MonadStateOf.get, StateT.get,
      Bool.false_eq_true, if_false, if_true, Bool.false_and, Bool.and_false, Bool.or_false, Bool.false_or,
      List.length_cons, List.length_nil, beq_iff_eq, bne_iff_ne, ne_eq, reduceCtorEq, not_true_eq_false, not_false_eq_true,
      Bool.and_eq_true, Bool.or_eq_true, Bool.not_eq_true', beq_eq_false_iff_ne, false_and, and_false, true_and, and_true,
      false_or, or_false, true_or, or_true, decide_eq_true_eq,
      beq_self_eq_true, Bool.true_or, Bool.or_true, Bool.true_and, Bool.and_true, Bool.not_true, Bool.not_false, $ts,*])

/-- what stands behind the forest: the end token `e`, or an INDENT token (value `v`, at line `il`, column `ic`) and then `e`. -/
def endIndR (v il ic : Nat) (e : Token) (k R : List Token) : Prop :=
  R = e :: k ∨ R = indAt (v, il, ic) :: e :: k

/-- `Res` up to the INDENT token: the cursor is in front of `e`, or in front of the INDENT token before it. -/
def endIndRes (st : PState) (v il ic : Nat) (e : Token) (k : List Token) (st' : PState) : Prop :=
  ∃ R, Res st R st' ∧ endIndR v il ic e k R

theorem endIndRes.of_eq {a a' b : PState} {v il ic : Nat} {e : Token} {k : List Token} (h : endIndRes a' v il ic e k b)
    (he : ∃ r p n ws, a' = { a with rest := r, prev := p, pos := n, warnings := ws }) : endIndRes a v il ic e k b := by
  obtain ⟨R, h1, h2⟩ := h
  exact ⟨R, h1.of_eq he, h2⟩

/-- the first token behind the forest starts a line. -/
theorem endIndR_head {v il ic : Nat} {e e0 : Token} {k k0 : List Token} (h : endIndR v il ic e k (e0 :: k0))
    (he : e.type = .envelopeEnd ∨ e.type = .eof) : ∃ nx, StopAt nx e0 := by
  rcases h with h | h
  · cases h; exact ⟨0, stopAt_end e he⟩
  · cases h; exact ⟨v, stopAt_indAt _ _ _⟩

/-- **the child loop of a block at the end of the forest**: it stops at `e`, after swallowing the INDENT token if that is not
shallower than the block's children, or in front of a shallower INDENT token. -/
theorem endInd_loop_fin (F ci li : Nat) (acc : List Node) (kp : KeyPos) (v il ic : Nat) (e : Token) (k : List Token)
    (he : e.type = .envelopeEnd ∨ e.type = .eof) (e0 : Token) (k0 : List Token) (hR : endIndR v il ic e k (e0 :: k0))
    (st : PState) (hr : st.rest = e0 :: k0) :
    ∃ st', blockLoop (F + 2) ci li [] acc kp st = .ok (acc, st') ∧ endIndRes st v il ic e k st' := by
  obtain ⟨rest, p, n, la, w, dp, wd, s, th, al⟩ := st
  simp only at hr
  subst hr
  have hee : e.type = TT.eof ∨ e.type = TT.envelopeEnd := he.symm
  rcases hR with h | h
  · cases h
    rw [blockLoop]
    step_simp [List.map_nil, List.append_nil]
    rw [if_pos hee]
    exact ⟨_, rfl, _, ⟨_, _, _, rfl⟩, Or.inl rfl⟩
  · cases h
    rw [blockLoop]
    step_simp [List.map_nil, List.append_nil, indAt]
    by_cases hv : v < ci
    · rw [if_pos hv]
      exact ⟨_, rfl, _, ⟨_, _, _, rfl⟩, Or.inr rfl⟩
    · rw [if_neg hv]
      step_simp []
      rw [blockLoop]
      step_simp [List.map_nil, List.append_nil]
      rw [if_pos hee]
      exact ⟨_, rfl, _, ⟨_, _, _, rfl⟩, Or.inl rfl⟩

/-! ## The three mutually dependent statements, indexed by the fuel -/

def EndIndSecOK (F : Nat) : Prop :=
  ∀ (xo : Nat) (key : Str) (bw tr : Nat) (bl : List Nat) (cs : List SNode) (d l : Nat) (st : PState) (v il ic : Nat) (e : Token)
    (k : List Token) (e0 : Token) (k0 : List Token),
    st.rest = (SNode.block xo key bw tr bl cs).body d l ++ e0 :: k0 →
    endIndR v il ic e k (e0 :: k0) → (e.type = .envelopeEnd ∨ e.type = .eof) →
    (SNode.block xo key bw tr bl cs).ok d 0 = true →
    ((SNode.block xo key bw tr bl cs).body d l).length + 1 ≤ F →
    ∃ st', parseSection F [] st = .ok (some ((SNode.block xo key bw tr bl cs).node d l), st') ∧ endIndRes st v il ic e k st'

def EndIndChildOK (F : Nat) : Prop :=
  ∀ (c : SNode) (cs : List SNode) (d l li : Nat) (st : PState) (v il ic : Nat) (e : Token) (k : List Token) (e0 : Token) (k0 : List Token)
    (acc : List Node) (kp : KeyPos),
    st.rest = c.body (d + 1 + c.x) l ++ (stoks (d + 1) (l + c.height) cs ++ e0 :: k0) →
    d + 1 ≤ li →
    endIndR v il ic e k (e0 :: k0) → (e.type = .envelopeEnd ∨ e.type = .eof) →
    forestOk (c :: cs) (d + 1) 0 = true →
    (c.body (d + 1 + c.x) l).length + (stoks (d + 1) (l + c.height) cs).length + 2 ≤ F →
    ∃ st', blockLoop F (d + 1) li [] acc kp st = .ok (acc ++ snodes (d + 1) l (c :: cs), st') ∧ endIndRes st v il ic e k st'

def EndIndLoopOK (F : Nat) : Prop :=
  ∀ (ps : List (Nat × Nat)) (cs : List SNode) (d l : Nat) (st : PState) (v il ic : Nat) (e : Token) (k : List Token) (e0 : Token)
    (k0 : List Token) (acc : List Node) (kp : KeyPos),
    st.rest = ps.map nlAt ++ (stoks (d + 1) l cs ++ e0 :: k0) →
    endIndR v il ic e k (e0 :: k0) → (e.type = .envelopeEnd ∨ e.type = .eof) →
    forestOk cs (d + 1) 0 = true →
    ps.length + (stoks (d + 1) l cs).length + 2 ≤ F →
    ∃ st', blockLoop F (d + 1) 0 [] acc kp st = .ok (acc ++ snodes (d + 1) l cs, st') ∧ endIndRes st v il ic e k st'

theorem endInd_loop_of : ∀ (ps : List (Nat × Nat)) (F : Nat) (_ : ∀ F' < F, EndIndChildOK F')
    (cs : List SNode) (d l : Nat) (st : PState) (v il ic : Nat) (e : Token) (k : List Token) (e0 : Token)
    (k0 : List Token) (acc : List Node) (kp : KeyPos),
    st.rest = ps.map nlAt ++ (stoks (d + 1) l cs ++ e0 :: k0) →
    endIndR v il ic e k (e0 :: k0) → (e.type = .envelopeEnd ∨ e.type = .eof) →
    forestOk cs (d + 1) 0 = true →
    ps.length + (stoks (d + 1) l cs).length + 2 ≤ F →
    ∃ st', blockLoop F (d + 1) 0 [] acc kp st = .ok (acc ++ snodes (d + 1) l cs, st') ∧ endIndRes st v il ic e k st'
  | [], F, ih, cs, d, l, st, v, il, ic, e, k, e0, k0, acc, kp, hr, hR, he, hc, hF => by
    cases cs with
    | nil =>
      simp only [List.map_nil, List.nil_append, stoks] at hr
      obtain ⟨F', rfl⟩ : ∃ F', F = F' + 2 := ⟨F - 2, by omega⟩
      rw [show acc ++ snodes (d + 1) l [] = acc by simp only [snodes, List.append_nil]]
      exact endInd_loop_fin F' (d + 1) 0 acc kp v il ic e k he e0 k0 hR st hr
    | cons c cs =>
      obtain ⟨rest, p, n, la, w, dp, wd, s, th, al⟩ := st
      simp only [List.map_nil, List.nil_append] at hr
      subst hr
      obtain ⟨F', rfl⟩ : ∃ F', F = F' + 1 := ⟨F - 1, by omega⟩
      have hx : d + 1 + c.x = (d + c.x) + 1 := by omega
      have hnl : ¬ (d + c.x + 1 < d + 1) := by omega
      simp only [stoks, hx, indPos_succ, List.cons_append, List.nil_append, List.append_assoc,
        List.length_cons, List.length_append, List.length_nil] at hF ⊢
      rw [blockLoop]
      step_simp [indAt, hnl]
      rw [advance_ne (h := body_ne_nil c _ l _)]
      simp only []
      obtain ⟨st', h, hres⟩ := ih F' (Nat.lt_succ_self _) c cs d l (d + c.x + 1)
        { rest := c.body (d + c.x + 1) l ++ (stoks (d + 1) (l + c.height) cs ++ e0 :: k0),
          prev := some { type := .indent, value := .nat (d + c.x + 1), line := l, col := 1 }, pos := n + 1, last := la,
          warnings := w, depth := dp, warned := wd, strict := s, threshold := th, alpha := al }
        v il ic e k e0 k0 acc kp (by rw [hx]) (by omega) hR he hc (by rw [hx]; omega)
      exact ⟨st', h, hres.of_eq ⟨_, _, _, _, rfl⟩⟩
  | q :: qs, F, ih, cs, d, l, st, v, il, ic, e, k, e0, k0, acc, kp, hr, hR, he, hc, hF => by
    obtain ⟨rest, p, n, la, w, dp, wd, s, th, al⟩ := st
    simp only [List.map_cons, List.cons_append] at hr
    subst hr
    obtain ⟨F', rfl⟩ : ∃ F', F = F' + 1 := ⟨F - 1, by simp only [List.length_cons] at hF; omega⟩
    rw [blockLoop]
    step_simp [nlAt]
    rw [advance_ne (h := by cases cs <;> simp [stoks])]
    simp only []
    exact Exists.imp (fun st' hh => ⟨hh.1, hh.2.of_eq ⟨_, _, _, _, rfl⟩⟩)
      (endInd_loop_of qs F' (fun F'' h'' => ih F'' (by omega)) cs d l _ v il ic e k e0 k0 acc kp (by rfl) hR he hc
        (by simp only [List.length_cons] at hF; omega))

theorem endInd_child_of (F : Nat) (ihS : ∀ F' < F, EndIndSecOK F') (ihL : ∀ F' < F, EndIndLoopOK F') : EndIndChildOK F := by
  intro c cs d l li st v il ic e k e0 k0 acc kp hr hli hR he hc hF
  have hnlt : ¬ li < d + 1 := by omega
  simp only [forestOk, Bool.and_eq_true] at hc
  obtain ⟨hc, hcs⟩ := hc
  cases c with
  | line xo ln sp =>
    obtain ⟨rest, p, n, la, w, dp, wd, s, th, al⟩ := st
    simp only at hr
    subst hr
    simp only [SNode.body, SNode.height, SNode.x, SLine.head3, List.cons_append, List.nil_append, List.length_cons,
      List.length_map] at hF ⊢
    obtain ⟨G, rfl⟩ : ∃ G, F = G + 5 := ⟨F - 5, by omega⟩
    rw [blockLoop]
    step_simp [Line.keyTok, hnlt]
    rw [parseSection_sline (s := sline ln sp (d + 1 + xo) l) (next := (sline ln sp (d + 1 + xo) l).base.nlTok) (fuel := G + 1)
      (k := (blankPos (l + 1) sp.blank).map nlAt ++ (stoks (d + 1) (l + (1 + sp.blank.length)) cs ++ e0 :: k0))
      (hn := rfl) (hc := by simp [Line.nlTok]) (hr := rfl)]
    step_simp [SLine.node, Line.node, nodeAssignKey?, trackKey_eq]
    rw [blockLoop]
    step_simp [Line.nlTok]
    rw [advance_ne (h := by cases cs <;> simp [stoks])]
    simp only []
    rw [show acc ++ snodes (d + 1) l (SNode.line xo ln sp :: cs)
        = (acc ++ [(sline ln sp (d + 1 + xo) l).node]) ++ snodes (d + 1) (l + (1 + sp.blank.length)) cs by
      simp only [snodes, SNode.node, SNode.height, SNode.x, List.append_assoc, List.cons_append, List.nil_append]]
    simp only [SLine.node, Line.node]
    exact Exists.imp (fun st' hh => ⟨hh.1, hh.2.of_eq ⟨_, _, _, _, rfl⟩⟩)
      (ihL (G + 3) (by omega) (blankPos (l + 1) sp.blank) cs d (l + (1 + sp.blank.length)) _ v il ic e k e0 k0 _ _ (by rfl) hR he hcs
        (by have := blankPos_len sp.blank (l + 1); simp only [blankPos_len]; omega))
  | block xo' key' bw' tr' bl' cs' =>
    have hlen3 : 3 ≤ ((SNode.block xo' key' bw' tr' bl' cs').body (d + 1 + xo') l).length := by
      simp only [SNode.body, List.length_cons]; omega
    cases cs with
    | nil =>
      -- the LAST node of the forest is a block: it is followed by the (indented) end
      obtain ⟨rest, p, n, la, w, dp, wd, s, th, al⟩ := st
      simp only [SNode.x, stoks, List.nil_append, nextInd, List.length_nil] at hr hc hF ⊢
      subst hr
      obtain ⟨F', rfl⟩ : ∃ F', F = F' + 1 := ⟨F - 1, by omega⟩
      obtain ⟨st1, hsec, R, ⟨p1, n1, ws1, rfl⟩, hR1⟩ := ihS F' (Nat.lt_succ_self _) xo' key' bw' tr' bl' cs' (d + 1 + xo') l
        { rest := (SNode.block xo' key' bw' tr' bl' cs').body (d + 1 + xo') l ++ e0 :: k0, prev := p, pos := n, last := la, warnings := w, depth := dp,
          warned := wd, strict := s, threshold := th, alpha := al } v il ic e k e0 k0 rfl hR he hc (by omega)
      obtain ⟨e1, k1, rfl⟩ : ∃ e1 k1, R = e1 :: k1 := by
        rcases hR1 with h | h <;> exact ⟨_, _, h⟩
      rw [blockLoop]
      simp only [SNode.body, List.cons_append] at hsec ⊢
      step_simp [hKey, hnlt]
      simp only [hKey] at hsec
      rw [hsec]
      step_simp [SNode.node, nodeAssignKey?]
      rw [show acc ++ snodes (d + 1) l [SNode.block xo' key' bw' tr' bl' cs']
          = (acc ++ [(SNode.block xo' key' bw' tr' bl' cs').node (d + 1 + xo') l]) ++ snodes (d + 1) (l + (SNode.block xo' key' bw' tr' bl' cs').height) [] by
        simp only [snodes, SNode.x, List.append_assoc, List.cons_append, List.nil_append]]
      simp only [SNode.node]
      exact Exists.imp (fun st' hh => ⟨hh.1, hh.2.of_eq ⟨_, _, _, _, rfl⟩⟩)
        (ihL F' (Nat.lt_succ_self _) [] [] d (l + (SNode.block xo' key' bw' tr' bl' cs').height) _ v il ic e k e1 k1 _ _
          (by simp only [List.map_nil, List.nil_append, stoks]) hR1 he rfl (by simp only [List.length_nil, stoks]; omega))
    | cons c2 cs2 =>
      -- a block followed by a sibling: `TreeSpellParse`
      obtain ⟨nx0, hs0⟩ := endIndR_head hR he
      obtain ⟨e', k', hek, hs'⟩ := cont_head (c2 :: cs2) (d + 1) (l + (SNode.block xo' key' bw' tr' bl' cs').height) e0 k0 nx0 hs0
      rw [hek] at hr
      obtain ⟨rest, p, n, la, w, dp, wd, s, th, al⟩ := st
      simp only [SNode.x] at hr hc hF ⊢
      subst hr
      obtain ⟨F', rfl⟩ : ∃ F', F = F' + 1 := ⟨F - 1, by omega⟩
      obtain ⟨st1, hsec, p1, n1, ws1, rfl⟩ := parseSection_block xo' key' bw' tr' bl' cs' (d + 1 + xo') l
        { rest := (SNode.block xo' key' bw' tr' bl' cs').body (d + 1 + xo') l ++ e' :: k', prev := p, pos := n, last := la, warnings := w, depth := dp,
          warned := wd, strict := s, threshold := th, alpha := al } e' k' _ F' rfl hs' hc (by omega)
      rw [blockLoop]
      simp only [SNode.body, List.cons_append] at hsec ⊢
      step_simp [hKey, hnlt]
      simp only [hKey] at hsec
      rw [hsec]
      step_simp [SNode.node, nodeAssignKey?]
      rw [show acc ++ snodes (d + 1) l (SNode.block xo' key' bw' tr' bl' cs' :: c2 :: cs2)
          = (acc ++ [(SNode.block xo' key' bw' tr' bl' cs').node (d + 1 + xo') l]) ++ snodes (d + 1) (l + (SNode.block xo' key' bw' tr' bl' cs').height) (c2 :: cs2) by
        simp only [snodes, SNode.x, List.append_assoc, List.cons_append, List.nil_append]]
      simp only [SNode.node]
      exact Exists.imp (fun st' hh => ⟨hh.1, hh.2.of_eq ⟨_, _, _, _, rfl⟩⟩)
        (ihL F' (Nat.lt_succ_self _) [] (c2 :: cs2) d (l + (SNode.block xo' key' bw' tr' bl' cs').height) _ v il ic e k e0 k0 _ _
          (by simp only [List.map_nil, List.nil_append]; exact hek.symm) hR he hcs (by simp only [List.length_nil]; omega))

theorem endInd_sec_of (F : Nat) (ih : ∀ F' < F, EndIndChildOK F') : EndIndSecOK F := by
  intro xo key bw tr bl cs d l st v il ic e k e0 k0 hr hR he hc hF
  cases cs with
  | nil =>
    have hd : d ≤ d := Nat.le_refl d
    rcases hR with h | h
    · -- `e` itself follows: `TreeSpellParse`
      cases h
      obtain ⟨st', h1, h2⟩ := parseSection_block xo key bw tr bl [] d l st e k 0 F hr (stopAt_end e he) hc (by omega)
      exact ⟨st', h1, _, h2, Or.inl rfl⟩
    · cases h
      by_cases hv : v ≤ d
      · -- an INDENT that is not deeper than the header: `TreeSpellParse`
        obtain ⟨st', h1, h2⟩ := parseSection_block xo key bw tr bl [] d l st (indAt (v, il, ic)) (e :: k) v F hr (stopAt_indAt _ _ _)
          (by simp only [SNode.ok, List.isEmpty_nil, if_true, decide_eq_true_eq]; exact hv) (by omega)
        exact ⟨st', h1, _, h2, Or.inr rfl⟩
      · -- a deeper INDENT is taken for the first child's: the child loop is entered and stops at `e` at once
        obtain ⟨rest, p, n, la, w, dp, wd, s, th, al⟩ := st
        simp only at hr
        subst hr
        have hee : e.type = TT.eof ∨ e.type = TT.envelopeEnd := he.symm
        simp only [SNode.body, stoks, List.cons_append, List.append_nil, List.length_cons] at hF ⊢
        obtain ⟨F', rfl⟩ : ∃ F', F = F' + 2 := ⟨F - 2, by omega⟩
        rw [parseSection]
        step_simp [hKey, hBlock, hNl, pyStrVal_str]
        obtain ⟨p', n', hsk⟩ := skipWhitespace_newlines_cons false (l, 1 + d + key.length + 1 + tr) (blankPos (l + 1) bl)
          (indAt (v, il, ic)) (e :: k) (by simp [indAt]) (by simp [indAt])
          (some { type := .block, value := .str ":".toList, line := l, col := 1 + d + key.length }) (n + 1 + 1) la w dp wd s th al
        simp only [nlAt] at hsk
        rw [hsk]
        step_simp []
        rw [preIndentComments_stop (h1 := by simp [indAt]) (h2 := by simp [indAt])]
        have h6 : v > 1 + d - 1 := by omega
        step_simp [indAt, h6, decide_true, Option.isSome_none]
        rw [blockLoop]
        step_simp [List.map_nil, List.append_nil]
        rw [if_pos hee]
        step_simp [SNode.node, snodes]
        exact ⟨_, rfl, _, ⟨_, _, _, rfl⟩, Or.inl rfl⟩
  | cons c cs =>
    obtain ⟨rest, p, n, la, w, dp, wd, s, th, al⟩ := st
    simp only at hr
    subst hr
    simp only [SNode.ok, List.isEmpty_cons, Bool.false_eq_true, if_false, headX0, Bool.and_eq_true, decide_eq_true_eq,
      beq_iff_eq] at hc
    obtain ⟨⟨⟨hw, hnx⟩, hx0⟩, hfo⟩ := hc
    obtain ⟨q, hq⟩ : ∃ q, d + bw = q + 1 := ⟨d + bw - 1, by omega⟩
    rw [hq] at hfo hnx
    simp only [SNode.body, hq, stoks, hx0, Nat.add_zero, indPos_succ, List.cons_append, List.nil_append, List.append_assoc, List.length_cons,
      List.length_append, List.length_map] at hF ⊢
    obtain ⟨F', rfl⟩ : ∃ F', F = F' + 1 := ⟨F - 1, by omega⟩
    rw [parseSection]
    step_simp [hKey, hBlock, hNl, pyStrVal_str]
    obtain ⟨p', n', hsk⟩ := skipWhitespace_newlines_cons false (l, 1 + d + key.length + 1 + tr) (blankPos (l + 1) bl)
      (indAt (q + 1, l + (1 + bl.length), 1))
      (c.body (q + 1) (l + (1 + bl.length)) ++ (stoks (q + 1) (l + (1 + bl.length) + c.height) cs ++ e0 :: k0))
      (by simp [indAt]) (by simp [indAt])
      (some { type := .block, value := .str ":".toList, line := l, col := 1 + d + key.length }) (n + 1 + 1) la w dp wd s th al
    simp only [nlAt] at hsk
    rw [hsk]
    step_simp []
    rw [preIndentComments_stop (h1 := by simp [indAt]) (h2 := by simp [indAt])]
    have h6 : q + 1 > 1 + d - 1 := by omega
    step_simp [indAt, h6, decide_true, Option.isSome_none]
    rw [advance_ne (h := body_ne_nil c _ _ _)]
    simp only []
    obtain ⟨st', h, hres⟩ := ih F' (Nat.lt_succ_self _) c cs q (l + (1 + bl.length)) (q + 1)
      { rest := c.body (q + 1) (l + (1 + bl.length)) ++ (stoks (q + 1) (l + (1 + bl.length) + c.height) cs ++ e0 :: k0),
        prev := some { type := .indent, value := .nat (q + 1), line := l + (1 + bl.length), col := 1 }, pos := n' + 1, last := la,
        warnings := w, depth := dp, warned := wd, strict := s, threshold := th, alpha := al }
      v il ic e k e0 k0 [] [] (by rw [hx0]) (Nat.le_refl _) hR he hfo (by simp only [hx0, Nat.add_zero]; omega)
    rw [h]
    refine ⟨_, ?_, hres.of_eq ⟨_, _, _, _, rfl⟩⟩
    simp only [SNode.node, hq, snodes, List.nil_append]

theorem endInd_all_ok (F : Nat) : EndIndSecOK F ∧ EndIndChildOK F ∧ EndIndLoopOK F := by
  induction F using Nat.strongRecOn with
  | _ F ih =>
    have hC : ∀ F' < F, EndIndChildOK F' := fun F' h => (ih F' h).2.1
    exact ⟨endInd_sec_of F hC, endInd_child_of F (fun F' h => (ih F' h).1) (fun F' h => (ih F' h).2.2),
      fun ps cs d l st v il ic e k e0 k0 acc kp => endInd_loop_of ps F hC cs d l st v il ic e k e0 k0 acc kp⟩

/-- **`parse_section` on a block that is the last node before an (indented) `===END===`**: the same node as in front of an
unindented one; the cursor ends in front of `e` or in front of the INDENT token. -/
theorem endInd_parseSection_block (xo : Nat) (key : Str) (bw tr : Nat) (bl : List Nat) (cs : List SNode) (d l : Nat) (st : PState)
    (v il ic : Nat) (e : Token) (k : List Token) (e0 : Token) (k0 : List Token) (F : Nat)
    (hr : st.rest = (SNode.block xo key bw tr bl cs).body d l ++ e0 :: k0) (hR : endIndR v il ic e k (e0 :: k0))
    (he : e.type = .envelopeEnd ∨ e.type = .eof)
    (hc : (SNode.block xo key bw tr bl cs).ok d 0 = true) (hF : ((SNode.block xo key bw tr bl cs).body d l).length + 1 ≤ F) :
    ∃ st', parseSection F [] st = .ok (some ((SNode.block xo key bw tr bl cs).node d l), st') ∧ endIndRes st v il ic e k st' :=
  (endInd_all_ok F).1 xo key bw tr bl cs d l st v il ic e k e0 k0 hr hR he hc hF

/-! ## The body loop of `parseDocument` on a spelled forest followed by an (indented) end -/

/-- the body loop at the end of the forest: it skips the INDENT token, if it is still there, and stops at `e`. -/
theorem endInd_docLoop_fin (vf extra : Nat) (acc : List Node) (kp : KeyPos) (v il ic : Nat) (e : Token) (tail : List Token)
    (he : e.type = .envelopeEnd ∨ e.type = .eof) (R : List Token) (hR : endIndR v il ic e tail R)
    (p : Option Token) (n : Nat) (la : Token) (w : List Warning) (dp : Nat) (wd : List Nat) (s : Bool) (th : Nat) (al : Char → Bool) :
    ∃ p' n', docLoop vf (extra + 2) [] acc kp
        { rest := R, prev := p, pos := n, last := la, warnings := w, depth := dp, warned := wd, strict := s, threshold := th, alpha := al }
      = .ok ((acc, []),
        { rest := e :: tail, prev := p', pos := n', last := la, warnings := w, depth := dp, warned := wd, strict := s, threshold := th, alpha := al }) := by
  rcases hR with rfl | rfl
  · exact ⟨p, n, docLoop_stop vf (extra + 1) [] acc kp e tail he p n la w dp wd s th al⟩
  · obtain ⟨p2, n2, h2⟩ := docLoop_skip vf [indAt (v, il, ic)] (e :: tail) (by simp) (extra + 1) [] acc kp
      (by intro t ht; simp only [List.mem_singleton] at ht; subst ht; exact Or.inr rfl) p n la w dp wd s th al
    refine ⟨p2, n2, ?_⟩
    simp only [List.length_cons, List.length_nil, List.cons_append, List.nil_append] at h2
    rw [h2, docLoop_stop (he := he)]

theorem endInd_docLoop_tree (vf : Nat) (v il ic : Nat) (e : Token) (tail : List Token) (he : e.type = .envelopeEnd ∨ e.type = .eof)
    (e0 : Token) (k0 : List Token) (hR : endIndR v il ic e tail (e0 :: k0)) :
    ∀ (nodes : List SNode) (l : Nat) (acc : List Node) (kp : KeyPos) (extra : Nat),
    allX0 nodes = true → forestOk nodes 0 0 = true → (stoks 0 l nodes).length + 3 ≤ vf →
    ∀ (p : Option Token) (n : Nat) (la : Token) (w : List Warning) (dp : Nat) (wd : List Nat) (s : Bool) (th : Nat) (al : Char → Bool),
    ∃ p' n' ws', docLoop vf (dfuelList nodes + 2 + extra) [] acc kp
        { rest := stoks 0 l nodes ++ e0 :: k0, prev := p, pos := n, last := la, warnings := w, depth := dp, warned := wd, strict := s, threshold := th, alpha := al }
      = .ok ((acc ++ snodes 0 l nodes, []),
        { rest := e :: tail, prev := p', pos := n', last := la, warnings := ws', depth := dp, warned := wd, strict := s, threshold := th, alpha := al })
  | [], l, acc, kp, extra, _, _, _, p, n, la, w, dp, wd, s, th, al => by
    obtain ⟨p', n', h⟩ := endInd_docLoop_fin vf extra acc kp v il ic e tail he (e0 :: k0) hR p n la w dp wd s th al
    refine ⟨p', n', w, ?_⟩
    have hf : dfuelList [] + 2 + extra = extra + 2 := by simp only [dfuelList]; omega
    rw [hf]
    simp only [stoks, List.nil_append, snodes, List.append_nil]
    exact h
  | .line xo ln sp :: r, l, acc, kp, extra, hx, hc, hvf, p, n, la, w, dp, wd, s, th, al => by
    simp only [allX0, SNode.x, Bool.and_eq_true, beq_iff_eq] at hx
    obtain ⟨hx0, hxr⟩ := hx
    simp only [forestOk, Bool.and_eq_true] at hc
    have hrest : stoks 0 l (SNode.line xo ln sp :: r) ++ e0 :: k0
        = (sline ln sp 0 l).cutToks ++ (sline ln sp 0 l).base.nlTok ::
            ((blankPos (l + 1) sp.blank).map nlAt ++ (stoks 0 (l + (1 + sp.blank.length)) r ++ e0 :: k0)) := by
      simp only [stoks, SNode.x, hx0, Nat.add_zero, SNode.body, SNode.height, SLine.cutToks, sline_ind0, indPos_zero, List.map_nil, List.nil_append,
        List.append_assoc, List.cons_append]
    have hlen : (stoks 0 l (SNode.line xo ln sp :: r)).length = 4 + sp.blank.length + (stoks 0 (l + (1 + sp.blank.length)) r).length := by
      simp only [stoks, SNode.x, hx0, Nat.add_zero, SNode.body, SNode.height, indPos_zero, SLine.head3, List.nil_append, List.cons_append, List.length_cons,
        List.length_append, List.length_map, blankPos_len]
      omega
    obtain ⟨vf0, rfl⟩ : ∃ vf0, vf = vf0 + 3 := ⟨vf - 3, by omega⟩
    obtain ⟨p1, n1, h1⟩ := docLoop_cutline vf0 (sline ln sp 0 l) (sline ln sp 0 l).base.nlTok
      ((blankPos (l + 1) sp.blank).map nlAt ++ (stoks 0 (l + (1 + sp.blank.length)) r ++ e0 :: k0))
      ((dfuelList r + 2 + extra) + (1 + sp.blank.length)) rfl (by simp [Line.nlTok]) acc kp p n la w dp wd s th al
    obtain ⟨p2, n2, h2⟩ := docLoop_skip (vf0 + 3) ((sline ln sp 0 l).base.nlTok :: (blankPos (l + 1) sp.blank).map nlAt)
      (stoks 0 (l + (1 + sp.blank.length)) r ++ e0 :: k0) (by cases r <;> simp [stoks]) (dfuelList r + 2 + extra) []
      (acc ++ [(sline ln sp 0 l).node]) (trackPure kp (sline ln sp 0 l).base.key (sline ln sp 0 l).base.l).1
      (by intro t ht
          simp only [List.mem_cons, List.mem_map] at ht
          rcases ht with rfl | ⟨q, _, rfl⟩
          · exact Or.inl rfl
          · exact Or.inl rfl)
      p1 n1 la ((docWarns kp [(sline ln sp 0 l).base]).reverse ++ w) dp wd s th al
    obtain ⟨p3, n3, ws3, h3⟩ := endInd_docLoop_tree (vf0 + 3) v il ic e tail he e0 k0 hR r (l + (1 + sp.blank.length)) (acc ++ [(sline ln sp 0 l).node])
      (trackPure kp (sline ln sp 0 l).base.key (sline ln sp 0 l).base.l).1 extra hxr hc.2 (by omega)
      p2 n2 la ((docWarns kp [(sline ln sp 0 l).base]).reverse ++ w) dp wd s th al
    refine ⟨p3, n3, ws3, ?_⟩
    have hf : dfuelList (SNode.line xo ln sp :: r) + 2 + extra
        = (dfuelList r + 2 + extra) + (1 + sp.blank.length) + 1 + (sline ln sp 0 l).ind.length := by
      simp only [dfuelList, SNode.dfuel, sline_ind0, List.length_nil]; omega
    have hf2 : (dfuelList r + 2 + extra) + (1 + sp.blank.length)
        = (dfuelList r + 2 + extra) + ((sline ln sp 0 l).base.nlTok :: (blankPos (l + 1) sp.blank).map nlAt).length := by
      simp only [List.length_cons, List.length_map, blankPos_len]; omega
    rw [hrest, hf, h1, hf2]
    simp only [List.cons_append] at h2
    rw [h2, h3]
    simp only [snodes, SNode.x, hx0, Nat.add_zero, SNode.node, SNode.height, List.append_assoc, List.cons_append, List.nil_append]
  | .block xo key bw tr bl cs :: r, l, acc, kp, extra, hx, hc, hvf, p, n, la, w, dp, wd, s, th, al => by
    simp only [allX0, SNode.x, Bool.and_eq_true, beq_iff_eq] at hx
    obtain ⟨hx0, hxr⟩ := hx
    subst hx0
    simp only [forestOk, SNode.x, Nat.add_zero, Bool.and_eq_true] at hc
    have hf : dfuelList (SNode.block 0 key bw tr bl cs :: r) + 2 + extra = (dfuelList r + 2 + extra) + 1 := by
      simp only [dfuelList, SNode.dfuel]; omega
    cases r with
    | nil =>
      -- the last top-level node is a block: the (indented) end follows
      simp only [stoks, SNode.x, Nat.add_zero, indPos_zero, List.nil_append, List.append_nil, nextInd] at hvf hc ⊢
      obtain ⟨st1, hsec, R, ⟨p1, n1, ws1, rfl⟩, hR1⟩ := endInd_parseSection_block 0 key bw tr bl cs 0 l
        { rest := (SNode.block 0 key bw tr bl cs).body 0 l ++ e0 :: k0, prev := p, pos := n, last := la, warnings := w, depth := dp,
          warned := wd, strict := s, threshold := th, alpha := al } v il ic e tail e0 k0 vf rfl hR he hc.1 (by omega)
      obtain ⟨p3, n3, h3⟩ := endInd_docLoop_fin vf extra (acc ++ [(SNode.block 0 key bw tr bl cs).node 0 l]) kp v il ic e tail he R hR1
        p1 n1 la ws1 dp wd s th al
      refine ⟨p3, n3, ws1, ?_⟩
      rw [hf, docLoop]
      simp only [SNode.body, List.cons_append] at hsec ⊢
      step_simp [hKey]
      simp only [hKey] at hsec
      rw [hsec]
      step_simp [SNode.node, nodeAssignKey?]
      simp only [SNode.node] at h3
      rw [show dfuelList [] + 2 + extra = extra + 2 by simp only [dfuelList]; omega, h3]
      simp only [snodes, SNode.x, Nat.add_zero, SNode.node]
    | cons c2 r2 =>
      obtain ⟨nx0, hs0⟩ := endIndR_head hR he
      obtain ⟨e', k', hek, hs'⟩ := cont_head (c2 :: r2) 0 (l + (SNode.block 0 key bw tr bl cs).height) e0 k0 nx0 hs0
      have hvf' : ((SNode.block 0 key bw tr bl cs).body 0 l).length + (stoks 0 (l + (SNode.block 0 key bw tr bl cs).height) (c2 :: r2)).length + 3 ≤ vf := by
        have : stoks 0 l (SNode.block 0 key bw tr bl cs :: c2 :: r2)
            = (SNode.block 0 key bw tr bl cs).body 0 l ++ stoks 0 (l + (SNode.block 0 key bw tr bl cs).height) (c2 :: r2) := by
          rw [stoks]; simp only [SNode.x, Nat.add_zero, indPos_zero, List.nil_append]
        rw [this, List.length_append] at hvf
        exact hvf
      have hst : stoks 0 l (SNode.block 0 key bw tr bl cs :: c2 :: r2) ++ e0 :: k0
          = (SNode.block 0 key bw tr bl cs).body 0 l ++ e' :: k' := by
        rw [← hek, stoks]; simp only [SNode.x, Nat.add_zero, indPos_zero, List.nil_append, List.append_assoc]
      rw [hst]
      obtain ⟨st1, hsec, p1, n1, ws1, rfl⟩ := parseSection_block 0 key bw tr bl cs 0 l
        { rest := (SNode.block 0 key bw tr bl cs).body 0 l ++ e' :: k', prev := p, pos := n, last := la, warnings := w, depth := dp,
          warned := wd, strict := s, threshold := th, alpha := al } e' k' (nextInd 0 (c2 :: r2) 0) vf rfl hs' hc.1 (by omega)
      obtain ⟨p3, n3, ws3, h3⟩ := endInd_docLoop_tree vf v il ic e tail he e0 k0 hR (c2 :: r2) (l + (SNode.block 0 key bw tr bl cs).height)
        (acc ++ [(SNode.block 0 key bw tr bl cs).node 0 l]) kp extra hxr hc.2 (by omega) p1 n1 la ws1 dp wd s th al
      refine ⟨p3, n3, ws3, ?_⟩
      rw [hf, docLoop]
      simp only [SNode.body, List.cons_append] at hsec ⊢
      step_simp [hKey]
      simp only [hKey] at hsec
      rw [hsec]
      step_simp [SNode.node, nodeAssignKey?]
      rw [← hek]
      simp only [SNode.node] at h3
      rw [h3]
      simp only [snodes, SNode.x, Nat.add_zero, SNode.node, List.append_assoc, List.cons_append, List.nil_append]

/-! ## `parseDocument` on a whole spelled document with an (indented) end -/

/-- `ENVELOPE_START(name) NEWLINE+ forest INDENT? e …` where `e` is ENVELOPE_END or EOF. -/
def endIndDocToks (name : Str) (el ec : Nat) (q : Nat × Nat) (qs : List (Nat × Nat)) (l : Nat) (nodes : List SNode)
    (R : List Token) : List Token :=
  envTokAt name el ec :: nlAt q :: (qs.map nlAt ++ (stoks 0 l nodes ++ R))

theorem endInd_body_head (l : Nat) (nodes : List SNode) (v il ic : Nat) (e : Token) (tail : List Token)
    (he : e.type = .envelopeEnd ∨ e.type = .eof) (e0 : Token) (k0 : List Token) (hR : endIndR v il ic e tail (e0 :: k0))
    (hx : allX0 nodes = true) (hm : firstKeyIsMeta (eraseList nodes) = false) :
    ∃ u K, stoks 0 l nodes ++ e0 :: k0 = u :: K ∧
      u.type ≠ TT.newline ∧ u.type ≠ TT.comment ∧ u.type ≠ TT.separator ∧ u.type ≠ TT.grammarSentinel ∧
      u.type ≠ TT.envelopeStart ∧ ¬(u.type = TT.identifier ∧ u.value = TVal.str "META".toList) := by
  rcases hR with h | h
  · cases h
    exact stree_body_head' l nodes e tail he hx hm
  · cases h
    cases nodes with
    | nil => exact ⟨_, _, rfl, bodyHead_ind _⟩
    | cons c r =>
      -- the head token is the first node's: independent of what follows the forest
      obtain ⟨u, K, hK, hu⟩ := stree_body_head' l (c :: r) e tail he hx hm
      have hne : stoks 0 l (c :: r) ≠ [] := by
        simp only [stoks]
        intro h0
        have := List.append_eq_nil_iff.mp h0
        exact body_ne_nil c _ l _ this.2
      obtain ⟨u', K', hK'⟩ := List.exists_cons_of_ne_nil hne
      have huu : u' = u := by
        rw [hK', List.cons_append] at hK
        exact (List.cons.inj hK).1
      exact ⟨u', K' ++ indAt (v, il, ic) :: e :: tail, by rw [hK']; rfl, huu ▸ hu⟩

theorem endInd_parseDocument_framed (name : Str) (el ec : Nat) (q : Nat × Nat) (qs : List (Nat × Nat)) (l : Nat) (nodes : List SNode)
    (v il ic : Nat) (e : Token) (tail : List Token) (he : e.type = .envelopeEnd ∨ e.type = .eof)
    (e0 : Token) (k0 : List Token) (hR : endIndR v il ic e tail (e0 :: k0)) (st : PState)
    (hm : firstKeyIsMeta (eraseList nodes) = false) (hc : topOk nodes = true)
    (hr : st.rest = endIndDocToks name el ec q qs l nodes (e0 :: k0)) :
    ∃ st', parseDocument st = .ok (sdoc name l nodes, st') := by
  simp only [topOk, Bool.and_eq_true] at hc
  obtain ⟨u, K, hK, h1, h2, h3, h4, h5, h6⟩ := endInd_body_head l nodes v il ic e tail he e0 k0 hR hc.1 hm
  have hlen : (stoks 0 l nodes).length ≤ K.length := by
    have := congrArg List.length hK
    simp only [List.length_append, List.length_cons] at this
    omega
  have hnl := dfuel_le nodes l
  have hst : st = { st with rest := envTokAt name el ec :: nlAt q :: (qs.map nlAt ++ u :: K) } := by
    rw [← hK, ← endIndDocToks, ← hr]
  rw [hst]
  obtain ⟨p0, n0, hskip⟩ := skipWhitespace_newlines_cons false q qs u K h1 h2 (some (envTokAt name el ec)) (st.pos + 1) st.last st.warnings
    st.depth st.warned st.strict st.threshold st.alpha
  unfold parseDocument
  simp (config := {zeta := false}) only [bind, StateT.bind, Except.bind, budget_mk]
  extract_lets n doc0 jp5 jp4 jp3 jp2 jp1
  step_simp [envTokAt, skipWhitespace_stop]
  simp only [jp1]
  step_simp []
  simp only [jp2]
  simp only [envTokAt] at hskip
  step_simp [hskip, pyStrVal_str, h1, h2]
  simp only [jp3]
  step_simp [h6]
  simp only [jp4]
  step_simp [h3]
  simp only [jp5]
  step_simp []
  obtain ⟨extra, hex⟩ : ∃ extra, 2 * n = dfuelList nodes + 2 + extra :=
    ⟨2 * n - (dfuelList nodes + 2), by simp only [n, List.length_cons, List.length_append, List.length_map]; omega⟩
  obtain ⟨p', n', ws', h⟩ := endInd_docLoop_tree n v il ic e tail he e0 k0 hR nodes l [] [] extra hc.1 hc.2
    (by simp only [n, List.length_cons, List.length_append, List.length_map]; omega)
    p0 n0 st.last st.warnings st.depth st.warned st.strict st.threshold st.alpha
  rw [hK] at h
  rw [hex, h]
  step_simp [List.nil_append]
  obtain ⟨st', hfin, _⟩ := finish_doc (sdoc name l nodes) _ e
  exact ⟨st', hfin⟩

end Octave.C03.TreeSpell
