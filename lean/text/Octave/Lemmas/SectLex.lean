import Octave.Lemmas.BlockLex
/-!
The lexer and the emitter on documents with SECTION MARKERS (`§ID::NAME` header line, children two spaces deeper), mixed
with `KEY::scalar` lines and `KEY:` blocks at every level, any depth and width: the new steps `step_marker` (the marker,
in its canonical spelling `§` or its ASCII alias `#`) and `run_secId` (the id: a decimal number, an identifier, or a number
followed by one letter — `§2b`), the header line (`run_sheader`), the tree by structural recursion (`run_snode` /
`run_stree`), the whole document (`tokenize_sect`), and the emitter (`emit_sect`).

The spelling of the markers is a parameter (`hash : Bool`): `false` is the canonical text (what the emitter writes), `true`
spells every marker `#`.  The token lists differ only in the `normFrom` mark of the SECTION tokens, and the `#` spelling
adds exactly one normalisation receipt `#` → `§` per marker, at the marker's position.
-/
namespace Octave
open Lexer Scan Emitter

/-! ### the marker -/

/-- the SECTION token; `nf` is its `normFrom` mark (`none` for `§`, `some "#"` for the ASCII alias). -/
def tSection (nf : Option Str) (l c : Nat) : Token := { type := .section, value := .str ['§'], line := l, col := c, normFrom := nf }

/-- spelling of the marker: canonical `§` (`false`) or its ASCII alias `#` (`true`). -/
def markerChar (hash : Bool) : Char := if hash then '#' else '§'
def markerNf (hash : Bool) : Option Str := if hash then some ['#'] else none
/-- the receipt of one marker: none for `§`, the normalisation `#` → `§` at the marker's position for `#`. -/
def markerReps (hash : Bool) (l c : Nat) : List Repair := if hash then [.normalization ['#'] (.str ['§']) l c] else []

theorem matchPattern_sec (env : Env) (prev : Option Char) (rest : Str) (hsec : env.isDigit '§' = false) :
    matchPattern env false prev ('§' :: rest) = .ok (some { type := .section, value := .str ['§'], text := ['§'], rest := rest }) := by
  unfold matchPattern
  simp only [Bool.false_eq_true, if_false, hsec]
  rw [if_neg (by decide), if_neg (by decide), if_neg (by decide), if_neg (by decide)]
  unfold matchPunct
  rw [if_neg (by decide), if_neg (by decide), if_neg (by decide), if_neg (by decide), if_neg (by decide)]
  rfl

theorem matchPattern_hash (env : Env) (prev : Option Char) (rest : Str) :
    matchPattern env false prev ('#' :: rest)
      = .ok (some { type := .section, value := .str ['§'], text := ['#'], rest := rest, normFrom := some ['#'] }) := by
  have hd : env.isDigit '#' = false := isDigit_ascii_false env '#' (by decide) (by decide)
  unfold matchPattern
  simp only [Bool.false_eq_true, if_false, hd]
  rw [if_neg (by decide), if_neg (by decide), if_neg (by decide), if_neg (by decide)]
  unfold matchPunct
  rw [if_neg (by decide), if_neg (by decide), if_neg (by decide), if_neg (by decide), if_neg (by decide)]
  rfl

/-- **the section marker**: `§` is one SECTION token with no receipt; its ASCII alias `#` is the same token marked
`normFrom = "#"`, with exactly one normalisation receipt `#` → `§` at its position. -/
theorem step_marker (env : Env) (lenient : Bool) (st : LState) (hash : Bool) (rest : Str) (hr : Ready st)
    (hsec : hash = false → env.isDigit '§' = false) :
    ∃ st', step env lenient st (markerChar hash :: rest) = .ok (st', rest) ∧
      Adv st st' [tSection (markerNf hash) st.line st.col] (markerReps hash st.line st.col) 0 (st.col + 1) (some (markerChar hash)) := by
  cases hash with
  | false =>
    have hm : matchPattern env st.blank st.prev ('§' :: rest) = .ok (some { type := .section, value := .str ['§'], text := ['§'], rest := rest }) := by
      rw [hr.blank]; exact matchPattern_sec env st.prev rest (hsec rfl)
    refine ⟨_, pattern_step_eq env lenient st '§' rest _ hr.noSpan (by decide) hm (by simp) (by simp), ?_⟩
    refine ⟨⟨hr.spans, by simp [patNext, hr.blank]⟩, rfl, rfl, rfl, ?_, ?_, rfl⟩
    · simp [patNext, advancePos]
    · simp [patNext, advancePos]
  | true =>
    have hm : matchPattern env st.blank st.prev ('#' :: rest)
        = .ok (some { type := .section, value := .str ['§'], text := ['#'], rest := rest, normFrom := some ['#'] }) := by
      rw [hr.blank]; exact matchPattern_hash env st.prev rest
    refine ⟨_, pattern_step_eq env lenient st '#' rest _ hr.noSpan (by decide) hm (by simp) (by simp), ?_⟩
    refine ⟨⟨hr.spans, by simp [patNext, hr.blank]⟩, rfl, rfl, rfl, ?_, ?_, rfl⟩
    · simp [patNext, advancePos]
    · simp [patNext, advancePos]

/-! ### the id -/

/-- the id of a section marker: a decimal number (`§1`, `§12`), an identifier (`§CONTEXT`), or a decimal number followed
by ONE letter (`§2b`). -/
inductive SecId where
  | num (n : Nat)
  | name (s : Str)
  | numLetter (n : Nat) (c : Char)
  deriving Repr, DecidableEq

/-- the id string (what the AST node carries and the emitter prints after `§`). -/
def SecId.text : SecId → Str
  | .num n => natStr n
  | .name s => s
  | .numLetter n c => natStr n ++ [c]

/-- the id shapes covered: at most 4300 digits (CPython's `int()` limit); an identifier without a reserved-word prefix;
the letter an ASCII letter. -/
def SecId.OK : SecId → Prop
  | .num n => (natStr n).length ≤ 4300
  | .name s => isIdentifierText s = true ∧ hasReservedPrefix s = false
  | .numLetter n c => (natStr n).length ≤ 4300 ∧ isAlphaA c = true

/-- tokens of the id starting at line `l`, column `c`, newest first. -/
def SecId.toksRev (l c : Nat) : SecId → List Token
  | .num n => [tInt n l c]
  | .name s => [tIdent s l c]
  | .numLetter n ch => [tIdent [ch] l (c + (natStr n).length), tInt n l c]

def SecId.repsRev (l c : Nat) : SecId → List Repair
  | .num _ => []
  | .name s => (identifierRepairs s l c).reverse
  | .numLetter n ch => (identifierRepairs [ch] l (c + (natStr n).length)).reverse

/-- iterations of the main loop spent on the id. -/
def SecId.steps : SecId → Nat
  | .numLetter _ _ => 2
  | _ => 1

theorem intStr_natCast (n : Nat) : intStr (n : Int) = natStr n := by
  unfold intStr
  rw [if_neg (by omega)]
  rfl

theorem termNum_colon (env : Env) (rest : Str) : NumTerm env (':' :: rest) :=
  (floatTerm_ascii env ':' rest (by decide) (by decide) (by decide)).num

/-- a decimal number in front of `::` (or any number terminator): one NUMBER token. -/
theorem step_nat (env : Env) (lenient : Bool) (st : LState) (n : Nat) (rest : Str) (hr : Ready st)
    (hterm : NumTerm env rest) (hlen : (natStr n).length ≤ 4300) :
    ∃ st' p, step env lenient st (natStr n ++ rest) = .ok (st', rest) ∧
      Adv st st' [tInt n st.line st.col] [] 0 (st.col + (natStr n).length) p := by
  obtain ⟨st', h1, h2⟩ := step_int env lenient st (n : Int) rest hr hterm (by simpa using hlen)
  rw [intStr_natCast] at h1 h2
  exact ⟨st', _, h1, h2⟩

theorem alpha_props (c : Char) (h : isAlphaA c = true) :
    isAscii c = true ∧ isDigitA c = false ∧ c ≠ '.' ∧ c ≠ '-' ∧ c ≠ '\n' ∧ c ≠ '\t' ∧ c ≠ ' ' ∧ isIdentStartA c = true := by
  have hs : isIdentStartA c = true := by simp [isIdentStartA, h]
  obtain ⟨ha, hd⟩ := identStart_props c hs
  refine ⟨ha, hd, ?_, ?_, ?_, ?_, ?_, hs⟩ <;> (intro e; subst e; revert h; decide)

/-- the exponent part of NUMBER does not start at a letter that is followed by `:`. -/
theorem expPart_letter_colon (env : Env) (mant : Str) (c : Char) (rest : Str) :
    expPart env mant (c :: ':' :: rest) = some (mant, c :: ':' :: rest) := by
  have hm : many1 env.isDigit (':' :: rest) = none :=
    many1_none _ _ (fun d hd => by
      have : d = ':' := by simpa using hd.symm
      subst this; exact isDigit_ascii_false env ':' (by decide) (by decide))
  have ho : optChar (fun c => c == '+' || c == '-') (':' :: rest) = ([], ':' :: rest) := rfl
  unfold expPart
  simp only [ho, hm]
  split <;> rfl

/-- `Scan.number` on a decimal number followed by a letter and `:` stops after the digits (also for `e` / `E`: no exponent
digits follow). -/
theorem number_nat_letter (env : Env) (n : Nat) (c : Char) (rest : Str) (hc : isAlphaA c = true) :
    number env (natStr n ++ c :: ':' :: rest) = some (natStr n, c :: ':' :: rest) := by
  obtain ⟨ha, hd, hdot, _⟩ := alpha_props c hc
  have h := number_nodot env false (natStr n) (c :: ':' :: rest) (natStr_ne_nil n) (natStr_isDigit env n)
    (fun x hx => by
      have : x = c := by simpa using hx.symm
      subst this; exact ⟨isDigit_ascii_false env x ha hd, hdot⟩)
  simp only [signStr, Bool.false_eq_true, if_false, List.nil_append] at h
  rw [h, expPart_letter_colon]

/-- a decimal number in front of a letter and `:` (the `§2b::` id): one NUMBER token carrying the number. -/
theorem step_nat_letter (env : Env) (lenient : Bool) (st : LState) (n : Nat) (c : Char) (rest : Str) (hr : Ready st)
    (hc : isAlphaA c = true) (hlen : (natStr n).length ≤ 4300) :
    ∃ st' p, step env lenient st (natStr n ++ c :: ':' :: rest) = .ok (st', c :: ':' :: rest) ∧
      Adv st st' [tInt n st.line st.col] [] 0 (st.col + (natStr n).length) p := by
  obtain ⟨ha, hd, hdot, _⟩ := alpha_props c hc
  have htail : ∀ x, (c :: ':' :: rest).head? = some x → env.isDigit x = false ∧ x ≠ '.' := fun x hx => by
    have : x = c := by simpa using hx.symm
    subst this; exact ⟨isDigit_ascii_false env x ha hd, hdot⟩
  obtain ⟨h3, h2p, h2b⟩ := versions_none_nodot env (natStr n) (c :: ':' :: rest) (natStr_ne_nil n) (natStr_isDigit env n) htail
  obtain ⟨d0, t0, hdt, hd0, _⟩ := natStr_cons n
  have hmp : matchPattern env false st.prev (natStr n ++ c :: ':' :: rest) = numberMatch env (natStr n) (c :: ':' :: rest) := by
    refine matchPattern_digit env st.prev _ _ _ ?_ (by simp [natStr_ne_nil]) h3 h2p h2b (number_nat_letter env n c rest hc)
    intro x hx
    rw [hdt] at hx
    have : d0 = x := by simpa using hx
    subst this
    exact isDigit_of_isDigitA env d0 hd0
  have hnm : numberMatch env (natStr n) (c :: ':' :: rest) = .ok (some (mNumber (.int n) (natStr n) (c :: ':' :: rest))) := by
    have := numberMatch_int env (n : Int) (c :: ':' :: rest) (by simpa using hlen)
    rwa [intStr_natCast] at this
  have hsp : (natStr n).head? ≠ some ' ' := by
    have := intStr_head_ne_space (n : Int); rwa [intStr_natCast] at this
  have hnl : ∀ d ∈ natStr n, d ≠ '\n' := by
    have := intStr_noNl (n : Int); rwa [intStr_natCast] at this
  obtain ⟨st', h1, h2⟩ := step_number env lenient st (.int n) (natStr n) (c :: ':' :: rest) hr (natStr_ne_nil n) hnl hsp (by rw [hmp, hnm])
  refine ⟨st', (natStr n).getLast?, h1, ?_⟩
  have ht : ({ type := .number, value := .int n, line := st.line, col := st.col, raw := some (natStr n) } : Token) = tInt n st.line st.col := by
    simp [tInt, intStr_natCast]
  rw [ht] at h2
  exact h2

theorem letter_ident (c : Char) (hc : isAlphaA c = true) : isIdentifierText [c] = true ∧ hasReservedPrefix [c] = false := by
  obtain ⟨_, _, _, hdash, _, _, _, hs⟩ := alpha_props c hc
  constructor
  · simp [isIdentifierText, hs, hdash]
  · simp [hasReservedPrefix, reservedAt, reservedPrefixAux, List.isPrefixOf]

/-- **the id of a section marker**, in front of `::`. -/
theorem run_secId (env : Env) (lenient : Bool) (st : LState) (id : SecId) (rest : Str) (hr : Ready st) (hok : id.OK) :
    ∃ st' p, Run env lenient id.steps st (id.text ++ ':' :: ':' :: rest) st' (':' :: ':' :: rest) ∧
      Adv st st' (id.toksRev st.line st.col) (id.repsRev st.line st.col) 0 (st.col + id.text.length) p := by
  cases id with
  | num n =>
    obtain ⟨s1, p1, e1, a1⟩ := step_nat env lenient st n (':' :: ':' :: rest) hr (termNum_colon env _) hok
    exact ⟨s1, p1, Run.one' (by simp [SecId.text, natStr_ne_nil]) e1, a1⟩
  | name s =>
    obtain ⟨s1, e1, a1⟩ := step_ident env lenient st s (':' :: ':' :: rest) hr hok.1 hok.2 (termOK_colon env _)
    have hne : s ≠ [] := by
      intro h; have := hok.1; rw [h] at this; simp [isIdentifierText] at this
    exact ⟨s1, _, Run.one' (by simp [SecId.text, hne]) e1, a1⟩
  | numLetter n c =>
    obtain ⟨hl, hc⟩ := hok
    obtain ⟨hid, hres⟩ := letter_ident c hc
    obtain ⟨s1, p1, e1, a1⟩ := step_nat_letter env lenient st n c (':' :: rest) hr hc hl
    obtain ⟨s2, e2, a2⟩ := step_ident env lenient s1 [c] (':' :: ':' :: rest) a1.ready hid hres (termOK_colon env _)
    refine ⟨s2, ([c].getLast?.orElse fun _ => s1.prev), ?_, ?_⟩
    · have r1 : Run env lenient 1 st (natStr n ++ c :: ':' :: ':' :: rest) s1 (c :: ':' :: ':' :: rest) :=
        Run.one' (by simp [natStr_ne_nil]) e1
      have r2 : Run env lenient 1 s1 (c :: ':' :: ':' :: rest) s2 (':' :: ':' :: rest) := Run.one e2
      have := Run.trans r1 r2
      simpa [SecId.text, SecId.steps] using this
    · have h := a1.trans a2
      have l1 : s1.line = st.line := by rw [a1.line]; rfl
      have c1 : s1.col = st.col + (natStr n).length := a1.col
      rw [l1, c1] at h
      refine ⟨h.ready, by rw [h.toks]; rfl, by rw [h.repairs]; simp [SecId.repsRev], h.stack, by rw [h.line], ?_, h.prev⟩
      rw [h.col]; simp [SecId.text]; omega


/-! ### a section header at depth `d` -/

/-- `§ID::NAME` (without the indentation and the line end), the marker spelled `§` or `#`. -/
def sheaderText (hash : Bool) (id : SecId) (key : Str) : Str := markerChar hash :: (id.text ++ ':' :: ':' :: key)

/-- tokens of a section header at depth `d`, line `l`, newest first: INDENT?, SECTION, the id, ASSIGN, IDENTIFIER, NEWLINE. -/
def sheaderToksRev (hash : Bool) (id : SecId) (key : Str) (d l : Nat) : List Token :=
  [tNewline l (1 + 2 * d + 1 + id.text.length + 2 + key.length), tIdent key l (1 + 2 * d + 1 + id.text.length + 2),
   tAssign l (1 + 2 * d + 1 + id.text.length)] ++ id.toksRev l (1 + 2 * d + 1) ++ [tSection (markerNf hash) l (1 + 2 * d)]
  ++ indentToksRev d l

/-- receipts of a section header, newest first: the identifier notes of name and id, and the marker's normalisation
receipt when it is spelled `#`. -/
def sheaderRepsRev (hash : Bool) (id : SecId) (key : Str) (d l : Nat) : List Repair :=
  (identifierRepairs key l (1 + 2 * d + 1 + id.text.length + 2)).reverse ++ id.repsRev l (1 + 2 * d + 1)
  ++ markerReps hash l (1 + 2 * d)

theorem markerChar_ne (hash : Bool) : markerChar hash ≠ ' ' ∧ markerChar hash ≠ '\n' ∧ markerChar hash ≠ '`' ∧ markerChar hash ≠ '\t' := by
  cases hash <;> decide

/-- **a section header at depth `d`**: `4 + id.steps` iterations (one more when indented). -/
theorem run_sheader (env : Env) (lenient : Bool) (st : LState) (hash : Bool) (id : SecId) (key : Str) (d : Nat) (rest : Str)
    (hr : Ready st) (hcol : st.col = 1) (hsec : hash = false → env.isDigit '§' = false) (hidok : id.OK)
    (hid : isIdentifierText key = true) (hres : hasReservedPrefix key = false) :
    ∃ st', Run env lenient (indentSteps d + (4 + id.steps)) st (indentStr d ++ (sheaderText hash id key ++ '\n' :: rest)) st' rest ∧
      AdvL st st' (sheaderToksRev hash id key d st.line) (sheaderRepsRev hash id key d st.line) 1 := by
  obtain ⟨hm1, hm2, _, _⟩ := markerChar_ne hash
  have hshape : sheaderText hash id key ++ '\n' :: rest = markerChar hash :: (id.text ++ ':' :: ':' :: (key ++ '\n' :: rest)) := by
    simp [sheaderText]
  rw [hshape]
  obtain ⟨s1, p1, r1, a1⟩ := run_indent env lenient st d (markerChar hash) (id.text ++ ':' :: ':' :: (key ++ '\n' :: rest)) hr hcol hm1 hm2
  obtain ⟨s2, e2, a2⟩ := step_marker env lenient s1 hash (id.text ++ ':' :: ':' :: (key ++ '\n' :: rest)) a1.ready hsec
  obtain ⟨s3, p3, r3, a3⟩ := run_secId env lenient s2 id (key ++ '\n' :: rest) a2.ready hidok
  obtain ⟨s4, e4, a4⟩ := step_assign env lenient s3 (key ++ '\n' :: rest) a3.ready
  obtain ⟨s5, e5, a5⟩ := step_ident env lenient s4 key ('\n' :: rest) a4.ready hid hres (termOK_nl env rest)
  obtain ⟨s6, e6, a6⟩ := step_newline env lenient s5 rest a5.ready
  have hkne : key ++ '\n' :: rest ≠ [] := by simp
  have run : Run env lenient (indentSteps d + (4 + id.steps)) st
      (indentStr d ++ markerChar hash :: (id.text ++ ':' :: ':' :: (key ++ '\n' :: rest))) s6 rest := by
    have t1 : Run env lenient 3 s3 (':' :: ':' :: (key ++ '\n' :: rest)) s6 rest :=
      Run.cons e4 (Run.cons' hkne e5 (Run.one e6))
    have t2 := Run.trans (Run.cons e2 r3) t1
    have t3 := Run.trans r1 t2
    exact Run.cast (by omega) t3
  refine ⟨s6, run, ?_⟩
  have h := ((((a1.trans a2).trans a3).trans a4).trans a5).trans a6
  have l1 : s1.line = st.line := by rw [a1.line]; rfl
  have l2 : s2.line = st.line := by rw [a2.line, l1]; rfl
  have l3 : s3.line = st.line := by rw [a3.line, l2]; rfl
  have l4 : s4.line = st.line := by rw [a4.line, l3]; rfl
  have l5 : s5.line = st.line := by rw [a5.line, l4]; rfl
  have c1 : s1.col = 1 + 2 * d := a1.col
  have c2 : s2.col = 1 + 2 * d + 1 := by rw [a2.col, c1]
  have c3 : s3.col = 1 + 2 * d + 1 + id.text.length := by rw [a3.col, c2]
  have c4 : s4.col = 1 + 2 * d + 1 + id.text.length + 2 := by rw [a4.col, c3]
  have c5 : s5.col = 1 + 2 * d + 1 + id.text.length + 2 + key.length := by rw [a5.col, c4]
  rw [l1, l2, l3, l4, l5, c1, c2, c3, c4, c5] at h
  exact ⟨h.ready, by rw [h.toks]; simp [sheaderToksRev], by rw [h.repairs]; simp [sheaderRepsRev], h.stack, by rw [h.line], h.col⟩


/-! ### trees with sections -/

/-- content of a document body with section markers: `KEY::scalar` lines, `KEY:` blocks and `§ID::NAME` sections with
children, any depth and width, the three kinds mixed at every level (sections inside blocks included: the reader accepts
them and the emitter prints them).  A block or a section may have NO children. -/
inductive SNode where
  | line (ln : FLine)
  | block (key : Str) (children : List SNode)
  | sect (id : SecId) (key : Str) (children : List SNode)
  deriving Repr

mutual
/-- the conditions of `FLine.OK` on every line; block keys and section names are identifiers without a reserved prefix;
section ids satisfy `SecId.OK`. -/
def SNode.OK : SNode → Prop
  | .line ln => ln.OK
  | .block key cs => isIdentifierText key = true ∧ hasReservedPrefix key = false ∧ sectOK cs
  | .sect id key cs => id.OK ∧ isIdentifierText key = true ∧ hasReservedPrefix key = false ∧ sectOK cs
def sectOK : List SNode → Prop
  | [] => True
  | n :: ns => n.OK ∧ sectOK ns
end

mutual
/-- text of a node at depth `d` (with its line ends); `hash = false` is the canonical text. -/
def SNode.text (hash : Bool) (d : Nat) : SNode → Str
  | .line ln => indentStr d ++ (ln.text ++ ['\n'])
  | .block key cs => indentStr d ++ (key ++ ':' :: '\n' :: sectText hash (d + 1) cs)
  | .sect id key cs => indentStr d ++ (sheaderText hash id key ++ '\n' :: sectText hash (d + 1) cs)
def sectText (hash : Bool) (d : Nat) : List SNode → Str
  | [] => []
  | n :: ns => n.text hash d ++ sectText hash d ns
end

mutual
/-- number of text lines of a node. -/
def SNode.nlines : SNode → Nat
  | .line _ => 1
  | .block _ cs => 1 + sectNLines cs
  | .sect _ _ cs => 1 + sectNLines cs
def sectNLines : List SNode → Nat
  | [] => 0
  | n :: ns => n.nlines + sectNLines ns
end

mutual
/-- tokens of a node at depth `d` whose first line is line `l`, newest first. -/
def SNode.toksRev (hash : Bool) (d l : Nat) : SNode → List Token
  | .line ln => ln.toksRevAt d l
  | .block key cs => sectToksRev hash (d + 1) (l + 1) cs ++ headerToksRev key d l
  | .sect id key cs => sectToksRev hash (d + 1) (l + 1) cs ++ sheaderToksRev hash id key d l
def sectToksRev (hash : Bool) (d l : Nat) : List SNode → List Token
  | [] => []
  | n :: ns => sectToksRev hash d (l + n.nlines) ns ++ n.toksRev hash d l
end

mutual
/-- receipts, newest first: identifier notes, and one normalisation receipt per marker spelled `#`. -/
def SNode.repsRev (hash : Bool) (d l : Nat) : SNode → List Repair
  | .line ln => ln.repsRev l (1 + 2 * d)
  | .block key cs => sectRepsRev hash (d + 1) (l + 1) cs ++ (identifierRepairs key l (1 + 2 * d)).reverse
  | .sect id key cs => sectRepsRev hash (d + 1) (l + 1) cs ++ sheaderRepsRev hash id key d l
def sectRepsRev (hash : Bool) (d l : Nat) : List SNode → List Repair
  | [] => []
  | n :: ns => sectRepsRev hash d (l + n.nlines) ns ++ n.repsRev hash d l
end

mutual
/-- iterations of the lexer's main loop. -/
def SNode.steps (d : Nat) : SNode → Nat
  | .line _ => indentSteps d + 4
  | .block _ cs => indentSteps d + 3 + sectSteps (d + 1) cs
  | .sect id _ cs => indentSteps d + (4 + id.steps) + sectSteps (d + 1) cs
def sectSteps (d : Nat) : List SNode → Nat
  | [] => 0
  | n :: ns => n.steps d + sectSteps d ns
end

mutual
/-- **one node at depth `d`** (a line, or a block / a section with all its descendants). -/
theorem run_snode (env : Env) (lenient : Bool) (hash : Bool) (hsec : hash = false → env.isDigit '§' = false) :
    ∀ (n : SNode) (d : Nat) (st : LState) (rest : Str),
    Ready st → st.col = 1 → n.OK →
    ∃ st', Run env lenient (n.steps d) st (n.text hash d ++ rest) st' rest ∧
      AdvL st st' (n.toksRev hash d st.line) (n.repsRev hash d st.line) n.nlines
  | .line ln, d, st, rest, hr, hc, hok => by
    obtain ⟨s1, r1, a1⟩ := run_tline env lenient st ln d rest hr hc (by simpa [SNode.OK] using hok)
    refine ⟨s1, ?_, ?_⟩
    · simpa [SNode.text, SNode.steps, List.append_assoc] using r1
    · simpa [SNode.toksRev, SNode.repsRev, SNode.nlines] using a1
  | .block key cs, d, st, rest, hr, hc, hok => by
    simp only [SNode.OK] at hok
    obtain ⟨s1, r1, a1⟩ := run_header env lenient st key d (sectText hash (d + 1) cs ++ rest) hr hc hok.1 hok.2.1
    obtain ⟨s2, r2, a2⟩ := run_stree env lenient hash hsec cs (d + 1) s1 rest a1.ready a1.col hok.2.2
    refine ⟨s2, ?_, ?_⟩
    · have := Run.trans r1 r2
      simpa [SNode.text, SNode.steps, List.append_assoc] using this
    · have h := a1.trans a2
      rw [a1.line] at h
      simpa [SNode.toksRev, SNode.repsRev, SNode.nlines] using h
  | .sect id key cs, d, st, rest, hr, hc, hok => by
    simp only [SNode.OK] at hok
    obtain ⟨s1, r1, a1⟩ := run_sheader env lenient st hash id key d (sectText hash (d + 1) cs ++ rest) hr hc hsec hok.1 hok.2.1 hok.2.2.1
    obtain ⟨s2, r2, a2⟩ := run_stree env lenient hash hsec cs (d + 1) s1 rest a1.ready a1.col hok.2.2.2
    refine ⟨s2, ?_, ?_⟩
    · have := Run.trans r1 r2
      simpa [SNode.text, SNode.steps, List.append_assoc] using this
    · have h := a1.trans a2
      rw [a1.line] at h
      simpa [SNode.toksRev, SNode.repsRev, SNode.nlines] using h
/-- **a list of sibling nodes at depth `d`**, any depth and width below. -/
theorem run_stree (env : Env) (lenient : Bool) (hash : Bool) (hsec : hash = false → env.isDigit '§' = false) :
    ∀ (ns : List SNode) (d : Nat) (st : LState) (rest : Str),
    Ready st → st.col = 1 → sectOK ns →
    ∃ st', Run env lenient (sectSteps d ns) st (sectText hash d ns ++ rest) st' rest ∧
      AdvL st st' (sectToksRev hash d st.line ns) (sectRepsRev hash d st.line ns) (sectNLines ns)
  | [], d, st, rest, hr, hc, _ =>
    ⟨st, by simpa [sectText, sectSteps] using Run.refl st rest,
      ⟨hr, by simp [sectToksRev], by simp [sectRepsRev], rfl, by simp [sectNLines], hc⟩⟩
  | n :: ns, d, st, rest, hr, hc, hok => by
    simp only [sectOK] at hok
    obtain ⟨s1, r1, a1⟩ := run_snode env lenient hash hsec n d st (sectText hash d ns ++ rest) hr hc hok.1
    obtain ⟨s2, r2, a2⟩ := run_stree env lenient hash hsec ns d s1 rest a1.ready a1.col hok.2
    refine ⟨s2, ?_, ?_⟩
    · have := Run.trans r1 r2
      simpa [sectText, sectSteps, List.append_assoc] using this
    · have h := a1.trans a2
      rw [a1.line] at h
      simpa [sectToksRev, sectRepsRev, sectNLines] using h
end

/-! ### the lines of the text: (depth, body) rows -/

mutual
/-- the lines of a node as (depth, text after the indentation). -/
def SNode.rows (hash : Bool) (d : Nat) : SNode → List (Nat × Str)
  | .line ln => [(d, ln.text)]
  | .block key cs => (d, key ++ [':']) :: sectRows hash (d + 1) cs
  | .sect id key cs => (d, sheaderText hash id key) :: sectRows hash (d + 1) cs
def sectRows (hash : Bool) (d : Nat) : List SNode → List (Nat × Str)
  | [] => []
  | n :: ns => n.rows hash d ++ sectRows hash d ns
end

mutual
theorem SNode.text_rows (hash : Bool) : ∀ (n : SNode) (d : Nat), n.text hash d = unlines ((n.rows hash d).map rowText)
  | .line ln, d => by simp [SNode.text, SNode.rows, rowText, unlines]
  | .block key cs, d => by
    simp [SNode.text, SNode.rows, rowText, unlines, sectText_rows hash cs (d + 1)]
  | .sect id key cs, d => by
    simp [SNode.text, SNode.rows, rowText, unlines, sectText_rows hash cs (d + 1)]
theorem sectText_rows (hash : Bool) : ∀ (ns : List SNode) (d : Nat), sectText hash d ns = unlines ((sectRows hash d ns).map rowText)
  | [], d => rfl
  | n :: ns, d => by
    simp [sectText, sectRows, unlines_append, SNode.text_rows hash n d, sectText_rows hash ns d]
end

mutual
theorem SNode.rows_length (hash : Bool) : ∀ (n : SNode) (d : Nat), (n.rows hash d).length = n.nlines
  | .line ln, d => rfl
  | .block key cs, d => by simp [SNode.rows, SNode.nlines, sectRows_length hash cs (d + 1)]; omega
  | .sect id key cs, d => by simp [SNode.rows, SNode.nlines, sectRows_length hash cs (d + 1)]; omega
theorem sectRows_length (hash : Bool) : ∀ (ns : List SNode) (d : Nat), (sectRows hash d ns).length = sectNLines ns
  | [], d => rfl
  | n :: ns, d => by simp [sectRows, sectNLines, SNode.rows_length hash n d, sectRows_length hash ns d]
end

theorem natStr_clean (n : Nat) : Clean (natStr n) := by
  have := intStr_clean (n : Int)
  rwa [intStr_natCast] at this

theorem secId_clean (id : SecId) (h : id.OK) : Clean id.text := by
  cases id with
  | num n => exact natStr_clean n
  | name s => exact identText_clean s h.1
  | numLetter n c =>
    refine Clean.append (natStr_clean n) ?_
    intro d hd
    have : d = c := by simpa using hd
    subst this
    obtain ⟨_, _, _, _, h1, h2, _, _⟩ := alpha_props d h.2
    exact ⟨h1, h2⟩

theorem bodyOK_sheader (hash : Bool) (id : SecId) (key : Str) (hid : id.OK) (hk : isIdentifierText key = true) :
    BodyOK (sheaderText hash id key) := by
  obtain ⟨h1, h2, h3, h4⟩ := markerChar_ne hash
  refine ⟨?_, markerChar hash, _, rfl, h1, h2, h3⟩
  have hm : Clean [markerChar hash] := by
    intro d hd
    have : d = markerChar hash := by simpa using hd
    subst this; exact ⟨h2, h4⟩
  have := Clean.append hm (Clean.append (secId_clean id hid) (Clean.append (clean_lit "::".toList (by decide)) (identText_clean key hk)))
  simpa [sheaderText] using this

mutual
theorem SNode.rows_ok (hash : Bool) : ∀ (n : SNode) (d : Nat), n.OK → ∀ r ∈ n.rows hash d, BodyOK r.2
  | .line ln, d, hok, r, hr => by
    simp only [SNode.rows, List.mem_singleton] at hr
    subst hr; exact bodyOK_line ln (by simpa [SNode.OK] using hok)
  | .block key cs, d, hok, r, hr => by
    simp only [SNode.OK] at hok
    simp only [SNode.rows, List.mem_cons] at hr
    rcases hr with h | h
    · subst h; exact bodyOK_header key hok.1
    · exact sectRows_ok hash cs (d + 1) hok.2.2 r h
  | .sect id key cs, d, hok, r, hr => by
    simp only [SNode.OK] at hok
    simp only [SNode.rows, List.mem_cons] at hr
    rcases hr with h | h
    · subst h; exact bodyOK_sheader hash id key hok.1 hok.2.1
    · exact sectRows_ok hash cs (d + 1) hok.2.2.2 r h
theorem sectRows_ok (hash : Bool) : ∀ (ns : List SNode) (d : Nat), sectOK ns → ∀ r ∈ sectRows hash d ns, BodyOK r.2
  | [], d, _, r, hr => by simp [sectRows] at hr
  | n :: ns, d, hok, r, hr => by
    simp only [sectOK] at hok
    simp only [sectRows, List.mem_append] at hr
    rcases hr with h | h
    · exact SNode.rows_ok hash n d hok.1 r h
    · exact sectRows_ok hash ns d hok.2 r h
end

/-! ### the whole document -/

/-- text of a document whose body is a forest with sections; `hash = false`: the canonical text. -/
def sectDocText (hash : Bool) (name : Str) (nodes : List SNode) : Str :=
  "===".toList ++ name ++ "===".toList ++ '\n' :: (sectText hash 0 nodes ++ ("===END===".toList ++ ['\n']))

/-- its tokens, newest first (without EOF). -/
def sectDocToksRev (hash : Bool) (name : Str) (nodes : List SNode) : List Token :=
  [tNewline (sectNLines nodes + 2) 10, tEnvEnd (sectNLines nodes + 2) 1] ++ sectToksRev hash 0 2 nodes ++
  [tNewline 1 (1 + (name.length + 6)), tEnvStart name 1 1]

/-- its tokens in reading order, EOF included. -/
def sectDocToks (hash : Bool) (name : Str) (nodes : List SNode) : List Token :=
  (tEof (sectNLines nodes + 3) 1 :: sectDocToksRev hash name nodes).reverse

theorem run_sectDoc (env : Env) (lenient : Bool) (hash : Bool) (name : Str) (nodes : List SNode)
    (hsec : hash = false → env.isDigit '§' = false)
    (hn : isEnvName name = true) (hne : name ≠ "END".toList) (hok : sectOK nodes) :
    ∃ st', Run env lenient (sectSteps 0 nodes + 4) ({ spans := [] } : LState) (sectDocText hash name nodes) st' [] ∧
      st'.toks = sectDocToksRev hash name nodes ∧ st'.repairs = sectRepsRev hash 0 2 nodes ∧ st'.stack = [] ∧
      st'.line = sectNLines nodes + 3 ∧ st'.col = 1 := by
  let st0 : LState := { spans := [] }
  obtain ⟨s1, e1, a1⟩ := step_envStart env lenient st0 name ('\n' :: (sectText hash 0 nodes ++ ("===END===".toList ++ ['\n']))) rfl hn hne
  obtain ⟨s2, e2, a2⟩ := step_newline env lenient s1 (sectText hash 0 nodes ++ ("===END===".toList ++ ['\n'])) a1.ready
  obtain ⟨s3, r3, a3⟩ := run_stree env lenient hash hsec nodes 0 s2 ("===END===".toList ++ ['\n']) a2.ready a2.col hok
  obtain ⟨s4, e4, a4⟩ := step_envEnd env lenient s3 ['\n'] a3.ready
  obtain ⟨s5, e5, a5⟩ := step_newline env lenient s4 [] a4.ready
  have run : Run env lenient (sectSteps 0 nodes + 4) st0 (sectDocText hash name nodes) s5 [] := by
    have tail : Run env lenient (sectSteps 0 nodes + 2) s2 (sectText hash 0 nodes ++ ("===END===".toList ++ ['\n'])) s5 [] :=
      Run.trans r3 (Run.cons' (by simp) e4 (Run.one e5))
    exact Run.cons' (by simp [sectDocText]) (by simpa [sectDocText] using e1) (Run.cons e2 tail)
  refine ⟨s5, run, ?_, ?_, ?_, ?_, a5.col⟩
  · have l1 : s1.line = 1 := by rw [a1.line]
    have l2 : s2.line = 2 := by rw [a2.line, l1]
    have l3 : s3.line = sectNLines nodes + 2 := by rw [a3.line, l2]; omega
    have l4 : s4.line = sectNLines nodes + 2 := by rw [a4.line, l3]
    have c1 : s1.col = 1 + (name.length + 6) := a1.col
    have c3 : s3.col = 1 := a3.col
    have c4 : s4.col = 10 := by rw [a4.col, c3]
    rw [a5.toks, a4.toks, a3.toks, a2.toks, a1.toks, l1, l2, l3, l4, c1, c3, c4]
    simp [sectDocToksRev]
    exact ⟨rfl, rfl⟩
  · have l2 : s2.line = 2 := by rw [a2.line, a1.line]
    rw [a5.repairs, a4.repairs, a3.repairs, a2.repairs, a1.repairs, l2]; simp; rfl
  · rw [a5.stack, a4.stack, a3.stack, a2.stack, a1.stack]
  · rw [a5.line, a4.line, a3.line, a2.line, a1.line]
    show (1 : Nat) + 0 + 1 + sectNLines nodes + 0 + 1 = sectNLines nodes + 3
    omega

/-- the lines of the text. -/
theorem splitLines_sectDocText (hash : Bool) (name : Str) (nodes : List SNode) (hn : isEnvName name = true) (hok : sectOK nodes) :
    splitLines (sectDocText hash name nodes) =
      ("===".toList ++ name ++ "===".toList) :: ((sectRows hash 0 nodes).map rowText ++ ["===END===".toList, []]) := by
  have h1 := splitLines_append_nl ("===".toList ++ name ++ "===".toList) (sectText hash 0 nodes ++ ("===END===".toList ++ ['\n']))
    (fun d hd => (envLine_clean name hn d hd).1)
  have h2 := splitLines_unlines ((sectRows hash 0 nodes).map rowText) ("===END===".toList ++ ['\n']) (by
    intro l hl d hd
    obtain ⟨r, hr, rfl⟩ := List.mem_map.mp hl
    exact (rowText_clean r (sectRows_ok hash nodes 0 hok r hr) d hd).1)
  have h3 : splitLines ("===END===".toList ++ ['\n']) = ["===END===".toList, []] := by decide
  unfold sectDocText
  rw [h1, sectText_rows, h2, h3]

theorem sectDocText_noTab (hash : Bool) (name : Str) (nodes : List SNode) (hn : isEnvName name = true) (hok : sectOK nodes) :
    ∀ d ∈ sectDocText hash name nodes, d ≠ '\t' := by
  have hl := unlines_noTab ((sectRows hash 0 nodes).map rowText) (by
    intro l hl d hd
    obtain ⟨r, hr, rfl⟩ := List.mem_map.mp hl
    exact (rowText_clean r (sectRows_ok hash nodes 0 hok r hr) d hd).2)
  intro d hd
  simp only [sectDocText, List.mem_append, List.mem_cons] at hd
  rcases hd with h' | h' | h' | h' | h'
  · exact (envLine_clean name hn d (by simp only [List.mem_append]; exact h')).2
  · subst h'; decide
  · rw [sectText_rows] at h'; exact hl d h'
  · intro he; subst he; revert h'; decide
  · intro he; subst he; simp at h'

/-- **The lexer on the text of a document with section markers** (any name, any forest of `KEY::scalar` lines, `KEY:`
blocks and `§ID::NAME` sections — any depth, any width, empty blocks and sections included —, keys, names, ids and scalars
satisfying `sectOK`, both lexer modes, both spellings of the marker, every environment whose NFC leaves the lines alone and
whose `\d` does not match `§`): `tokenize` succeeds with exactly the expected tokens, positions included, and with no
receipt other than the identifier notes and — for the `#` spelling only — one normalisation receipt per marker. -/
theorem tokenize_sect (env : Env) (lenient : Bool) (hash : Bool) (name : Str) (nodes : List SNode)
    (hsec : hash = false → env.isDigit '§' = false)
    (hn : isEnvName name = true) (hne : name ≠ "END".toList) (hok : sectOK nodes)
    (hnfc : ∀ l ∈ splitLines (sectDocText hash name nodes), env.nfc l = l) :
    tokenize env (sectDocText hash name nodes) lenient
      = .ok (sectDocToks hash name nodes, (sectRepsRev hash 0 2 nodes).reverse) := by
  have hsplit := splitLines_sectDocText hash name nodes hn hok
  have hfence : ∀ l ∈ splitLines (sectDocText hash name nodes), fenceLine l = none ∧ env.nfc l = l := by
    intro l hl
    refine ⟨?_, hnfc l hl⟩
    rw [hsplit] at hl
    simp only [List.mem_cons, List.mem_append, List.mem_map, List.mem_nil_iff, or_false] at hl
    rcases hl with h | ⟨r, hr, rfl⟩ | h | h
    · subst h; exact fenceLine_none_of_head _ (by intro c hc; have : c = '=' := by simpa using hc.symm
                                                  subst this; decide)
    · exact rowText_fence r (sectRows_ok hash nodes 0 hok r hr)
    · subst h; decide
    · subst h; decide
  have hnorm := normalize_plain env (sectDocText hash name nodes) hfence
  have htab := tabCheck_noTab [] (sectDocText hash name nodes) 0 1 1 (sectDocText_noTab hash name nodes hn hok)
  obtain ⟨st', run, ht, hr, hs, hl, hc⟩ := run_sectDoc env lenient hash name nodes hsec hn hne hok
  have hloop := loop_of_run env lenient _ _ st' (sectDocText hash name nodes) run (by intro sp hsp; simp at hsp)
  unfold tokenize
  simp only [hnorm, htab, hloop, bind, Except.bind, hs, List.getLast?_nil, ht, hr, hl, hc]
  rfl


/-! ### the emitter -/

mutual
/-- when the emitter spells every scalar the way `FLine.text` does, and prints the name of every section (it leaves the
name out when it equals the id and starts with a digit or `-`, the "nameless numbered section": never the case for an
identifier-shaped name). -/
def SNode.EmitOK : SNode → Prop
  | .line ln => ln.EmitOK
  | .block _ cs => sectEmitOK cs
  | .sect _ key cs => isIdentifierText key = true ∧ sectEmitOK cs
def sectEmitOK : List SNode → Prop
  | [] => True
  | n :: ns => n.EmitOK ∧ sectEmitOK ns
end

mutual
/-- the AST node carries this content, with ANY source positions (no comments, no block target, no annotation). -/
def SNode.Matches : SNode → Node → Prop
  | .line ln, n => ∃ l c, n = .assign ln.key ln.v.value l c [] none
  | .block key cs, n => ∃ children l c, n = .block key children l c [] none ∧ sectMatches cs children
  | .sect id key cs, n => ∃ children l c, n = .sect id.text key none children l c [] ∧ sectMatches cs children
def sectMatches : List SNode → List Node → Prop
  | [], ns => ns = []
  | t :: ts, ns => ∃ n ns', ns = n :: ns' ∧ t.Matches n ∧ sectMatches ts ns'
end

/-- the header line of a section whose name is identifier-shaped: the name is printed (it does not start with a digit or `-`). -/
theorem emitNode_sect_header (env : Env) (id key : Str) (children : List Node) (l c d : Nat) (b : Bool)
    (hk : isIdentifierText key = true) :
    emitNode env (.sect id key none children l c []) d b
      = (emitChildren env children (d + 1) false).map fun cl => (indentStr d ++ '§' :: (id ++ ':' :: ':' :: key)) :: cl := by
  cases key with
  | nil => simp [isIdentifierText] at hk
  | cons k t =>
    simp only [isIdentifierText, Bool.and_eq_true] at hk
    obtain ⟨hd1, hd2⟩ := identStart_props k hk.1.1
    have hdash : (k == '-') = false := identStart_ne k '-' hk.1.1 (by decide)
    simp [emitNode, leadingLines, isDigitU, hd2, hdash]

mutual
theorem emitNode_sect (env : Env) : ∀ (t : SNode) (n : Node) (d : Nat) (b : Bool), t.Matches n → t.EmitOK →
    emitNode env n d b = some ((t.rows false d).map rowText)
  | .line ln, n, d, b, hm, he => by
    simp only [SNode.Matches] at hm
    obtain ⟨l, c, rfl⟩ := hm
    rw [emitNode_line env ln l c d b (by simpa [SNode.EmitOK] using he)]
    rfl
  | .block key cs, n, d, b, hm, he => by
    simp only [SNode.Matches] at hm
    obtain ⟨children, l, c, rfl, hch⟩ := hm
    simp only [SNode.EmitOK] at he
    have ih := emitChildren_sect env cs children (d + 1) true hch he
    simp only [emitNode, ih, Option.map_some, leadingLines, List.map_nil, List.nil_append, List.append_nil, SNode.rows,
      List.map_cons, rowText, List.cons_append, List.append_assoc]
  | .sect id key cs, n, d, b, hm, he => by
    simp only [SNode.Matches] at hm
    obtain ⟨children, l, c, rfl, hch⟩ := hm
    simp only [SNode.EmitOK] at he
    have ih := emitChildren_sect env cs children (d + 1) false hch he.2
    rw [emitNode_sect_header env id.text key children l c d b he.1, ih]
    simp only [Option.map_some, SNode.rows, List.map_cons, rowText, sheaderText, markerChar, Bool.false_eq_true, if_false]
theorem emitChildren_sect (env : Env) : ∀ (ts : List SNode) (ns : List Node) (d : Nat) (b : Bool),
    sectMatches ts ns → sectEmitOK ts → emitChildren env ns d b = some ((sectRows false d ts).map rowText)
  | [], ns, d, b, hm, _ => by
    simp only [sectMatches] at hm
    subst hm; rfl
  | t :: ts, ns, d, b, hm, he => by
    simp only [sectMatches] at hm
    obtain ⟨n, ns', rfl, h1, h2⟩ := hm
    simp only [sectEmitOK] at he
    simp only [emitChildren, emitNode_sect env t n d b h1 he.1, emitChildren_sect env ts ns' d b h2 he.2, sectRows,
      List.map_append]
end

theorem emitTop_sect (env : Env) : ∀ (ts : List SNode) (ns : List Node), sectMatches ts ns → sectEmitOK ts →
    emitTop env ns = some ((sectRows false 0 ts).map rowText)
  | [], ns, hm, _ => by
    simp only [sectMatches] at hm
    subst hm; rfl
  | t :: ts, ns, hm, he => by
    simp only [sectMatches] at hm
    obtain ⟨n, ns', rfl, h1, h2⟩ := hm
    simp only [sectEmitOK] at he
    have hn := emitNode_sect env t n 0 false h1 he.1
    have ih := emitTop_sect env ts ns' h2 he.2
    cases t with
    | line ln =>
      simp only [SNode.Matches] at h1
      obtain ⟨l, c, rfl⟩ := h1
      simp only [emitTop, hn, ih, sectRows, List.map_append]
    | block key cs =>
      simp only [SNode.Matches] at h1
      obtain ⟨children, l, c, rfl, _⟩ := h1
      simp only [emitTop, hn, ih, sectRows, List.map_append]
    | sect id key cs =>
      simp only [SNode.Matches] at h1
      obtain ⟨children, l, c, rfl, _⟩ := h1
      simp only [emitTop, hn, ih, sectRows, List.map_append]

/-- **The emitter on a document with section markers** writes exactly the canonical text `sectDocText false`, whatever
positions the nodes carry. -/
theorem emit_sect_matches (env : Env) (name : Str) (nodes : List SNode) (sections : List Node)
    (hm : sectMatches nodes sections) (h : sectEmitOK nodes) :
    emit env { name := name, sections := sections } = some (sectDocText false name nodes) := by
  have ht := emitTop_sect env nodes sections hm h
  have hj := joinWith_unlines ((sectRows false 0 nodes).map rowText) "===END===".toList
  unfold emit emitBody
  simp only [emitMetaLines, ht, leadingLines, List.map_nil, List.isEmpty_nil, Bool.true_or, if_true,
    Bool.false_eq_true, if_false, List.nil_append, List.append_nil, bind, Option.bind, pure, Option.map]
  show some (finishText (joinWith ['\n'] (("===".toList ++ name ++ "===".toList) :: ((sectRows false 0 nodes).map rowText ++ ["===END===".toList])))) = _
  have hne : (sectRows false 0 nodes).map rowText ++ ["===END===".toList] ≠ [] := by simp
  obtain ⟨x, xs, hx⟩ := List.exists_cons_of_ne_nil hne
  rw [hx, joinWith, ← hx, hj]
  have hlast : (("===".toList ++ name ++ "===".toList) ++ ['\n'] ++ (unlines ((sectRows false 0 nodes).map rowText) ++ "===END===".toList)).getLast? = some '=' := by
    rw [List.getLast?_append, List.getLast?_append]; rfl
  simp only [finishText, hlast]
  simp [sectDocText, sectText_rows]

mutual
/-- the AST of a forest with positions chosen by `pos` from the (0-based) index of the node's first line in the body and
its depth. -/
def SNode.node (pos : Nat → Nat → Nat × Nat) (i d : Nat) : SNode → Node
  | .line ln => .assign ln.key ln.v.value (pos i d).1 (pos i d).2 [] none
  | .block key cs => .block key (sectNodes pos (i + 1) (d + 1) cs) (pos i d).1 (pos i d).2 [] none
  | .sect id key cs => .sect id.text key none (sectNodes pos (i + 1) (d + 1) cs) (pos i d).1 (pos i d).2 []
def sectNodes (pos : Nat → Nat → Nat × Nat) (i d : Nat) : List SNode → List Node
  | [] => []
  | n :: ns => n.node pos i d :: sectNodes pos (i + n.nlines) d ns
end

mutual
theorem SNode.node_matches (pos : Nat → Nat → Nat × Nat) : ∀ (t : SNode) (i d : Nat), t.Matches (t.node pos i d)
  | .line ln, i, d => by simp only [SNode.Matches, SNode.node]; exact ⟨_, _, rfl⟩
  | .block key cs, i, d => by
    simp only [SNode.Matches, SNode.node]
    exact ⟨_, _, _, rfl, sectNodes_matches pos cs (i + 1) (d + 1)⟩
  | .sect id key cs, i, d => by
    simp only [SNode.Matches, SNode.node]
    exact ⟨_, _, _, rfl, sectNodes_matches pos cs (i + 1) (d + 1)⟩
theorem sectNodes_matches (pos : Nat → Nat → Nat × Nat) : ∀ (ts : List SNode) (i d : Nat), sectMatches ts (sectNodes pos i d ts)
  | [], i, d => by simp [sectMatches, sectNodes]
  | t :: ts, i, d => by
    simp only [sectMatches, sectNodes]
    exact ⟨_, _, rfl, SNode.node_matches pos t i d, sectNodes_matches pos ts (i + t.nlines) d⟩
end

def sectDoc (name : Str) (pos : Nat → Nat → Nat × Nat) (nodes : List SNode) : Document :=
  { name := name, sections := sectNodes pos 0 0 nodes }

theorem emit_sect (env : Env) (name : Str) (pos : Nat → Nat → Nat × Nat) (nodes : List SNode) (h : sectEmitOK nodes) :
    emit env (sectDoc name pos nodes) = some (sectDocText false name nodes) :=
  emit_sect_matches env name nodes _ (sectNodes_matches pos nodes 0 0) h

/-! ### the token list in reading order (for the bridge to the parser half) -/

/-- the id's tokens in reading order, starting at line `l`, column `c`. -/
def SecId.toksAt (l c : Nat) : SecId → List Token
  | .num n => [tInt n l c]
  | .name s => [tIdent s l c]
  | .numLetter n ch => [tInt n l c, tIdent [ch] l (c + (natStr n).length)]

theorem SecId.toksRev_reverse (id : SecId) (l c : Nat) : (id.toksRev l c).reverse = id.toksAt l c := by
  cases id <;> rfl

/-- `INDENT(2d)? SECTION id ASSIGN IDENTIFIER(name) NEWLINE` at line `l`; the marker at column `1 + 2d`. -/
def sheaderToks (hash : Bool) (id : SecId) (key : Str) (d l : Nat) : List Token :=
  indentToks d l ++ [tSection (markerNf hash) l (1 + 2 * d)] ++ id.toksAt l (1 + 2 * d + 1) ++
  [tAssign l (1 + 2 * d + 1 + id.text.length), tIdent key l (1 + 2 * d + 1 + id.text.length + 2),
   tNewline l (1 + 2 * d + 1 + id.text.length + 2 + key.length)]

mutual
def SNode.toks (hash : Bool) (d l : Nat) : SNode → List Token
  | .line ln => ln.toksAt d l
  | .block key cs => headerToks key d l ++ sectToks hash (d + 1) (l + 1) cs
  | .sect id key cs => sheaderToks hash id key d l ++ sectToks hash (d + 1) (l + 1) cs
def sectToks (hash : Bool) (d l : Nat) : List SNode → List Token
  | [] => []
  | n :: ns => n.toks hash d l ++ sectToks hash d (l + n.nlines) ns
end

mutual
theorem SNode.toksRev_reverse (hash : Bool) : ∀ (n : SNode) (d l : Nat), (n.toksRev hash d l).reverse = n.toks hash d l
  | .line ln, d, l => by
    simp [SNode.toksRev, SNode.toks, FLine.toksRevAt, FLine.toksAt, FLine.toksRev, indentToksRev_reverse]
  | .block key cs, d, l => by
    simp [SNode.toksRev, SNode.toks, headerToksRev, headerToks, indentToksRev_reverse, sectToksRev_reverse hash cs (d + 1) (l + 1)]
  | .sect id key cs, d, l => by
    simp [SNode.toksRev, SNode.toks, sheaderToksRev, sheaderToks, indentToksRev_reverse, SecId.toksRev_reverse,
      sectToksRev_reverse hash cs (d + 1) (l + 1)]
theorem sectToksRev_reverse (hash : Bool) : ∀ (ns : List SNode) (d l : Nat), (sectToksRev hash d l ns).reverse = sectToks hash d l ns
  | [], d, l => rfl
  | n :: ns, d, l => by
    simp [sectToksRev, sectToks, SNode.toksRev_reverse hash n d l, sectToksRev_reverse hash ns d (l + n.nlines)]
end

/-- the token list of the document in reading order. -/
theorem sectDocToks_eq (hash : Bool) (name : Str) (nodes : List SNode) :
    sectDocToks hash name nodes =
      tEnvStart name 1 1 :: tNewline 1 (1 + (name.length + 6)) :: (sectToks hash 0 2 nodes ++
        [tEnvEnd (sectNLines nodes + 2) 1, tNewline (sectNLines nodes + 2) 10, tEof (sectNLines nodes + 3) 1]) := by
  simp [sectDocToks, sectDocToksRev, sectToksRev_reverse]


end Octave
