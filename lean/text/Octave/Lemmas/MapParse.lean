/-
Parser half for list values whose items are scalars or single-pair INLINE-MAP items `KEY :: scalar`, in any layout.

* `entryWarns`, `parseListItem_mentry`   `parse_list_item` on `IDENTIFIER ASSIGN scalar` (bare-word values included) followed by
                                         `,`, `]` or list whitespace: exactly `InlineMap{key: value}` — ONE pair per item,
                                         consecutive `k::v` items are not grouped — with the exact warnings
                                         (`constructor_misuse` for a quoted string under PATTERN / REGEX / ENUM / TYPE / NEVER /
                                         ALWAYS, `pattern_autoquote` for a bare word under PATTERN / REGEX);
* `PItem`, `MHead`, `MListToks`          token lists of such a list: every position and every whitespace run arbitrary;
* `mlistLoop_head`, `parseValue_mlistToks`   `parse_value` reads such a token list as exactly the list of the items' values
                                         (`.imap [(key, value)]` for an entry), with exactly the items' warnings in order;
* `vline_mlist_ok`                       the line `KEY :: [ … ] NEWLINE` for `ListDocParse.parseSection_value` /
                                         `docLoop_vlines` / `parseDocument_vlines` (when the items draw no warning).
-/
import Octave.Lemmas.ListDocParse
set_option linter.unusedSimpArgs false
namespace Octave.Maps
open Octave Parser
open Octave.ListParse hiding Scalar
open Octave.FlatParse (endsValue)
open Octave.ListDocParse

/-! ## one inline-map item -/

/-- the warnings `parse_list_item` files for `key :: scalar` (key token `kt`). -/
def entryWarns (key : Str) (v : FlatParse.Scalar) (kt : Token) : List Warning :=
  match v with
  | .str s => if isCtorKey key = true then [.constructorMisuse key s kt.line kt.col] else []
  | .word w => if key = "PATTERN".toList ∨ key = "REGEX".toList then [.patternAutoquote key w kt.line kt.col] else []
  | _ => []

/-- the state after consuming exactly the bracket-free tokens `ts` and filing the warnings `ws` (newest first). -/
def advW (s : PState) (ts r : List Token) (ws : List Warning) : PState :=
  { s with rest := r, prev := ts.getLast?.or s.prev, pos := s.pos + ts.length, warnings := ws ++ s.warnings }

theorem advW_advW (s : PState) (a b r1 r2 : List Token) (w1 w2 : List Warning) :
    advW (advW s a r1 w1) b r2 w2 = advW s (a ++ b) r2 (w2 ++ w1) := by
  simp only [advW, List.getLast?_append, Option.or_assoc, List.length_append, Nat.add_assoc, List.append_assoc]

theorem adv_eq_advW (s : PState) (ts r : List Token) (h : ∀ t ∈ ts, PlainTok t) : adv s ts r = advW s ts r [] := by
  unfold adv
  rw [walkSt_plain ts h]
  rfl

@[simp] theorem advW_rest (s : PState) (ts r : List Token) (ws : List Warning) : (advW s ts r ws).rest = r := rfl

theorem scalar_tok_ends (v : FlatParse.Scalar) (l c : Nat) :
    (v.tok l c).type ≠ .assign ∧ (v.tok l c).type ≠ .comma := by
  cases v <;> simp [FlatParse.Scalar.tok]

theorem warn_mk' (x : Warning) (st : PState) : warn x st = .ok ((), { st with warnings := x :: st.warnings }) := rfl

/-- `parse_list_item` on `KEY :: scalar` followed by `,`, `]` or list whitespace: a one-pair inline map and the exact
warnings. -/
theorem parseListItem_mentry (v : FlatParse.Scalar) (l c : Nat) (key : Str) (st : PState) (kt a n : Token) (k : List Token)
    (fuel : Nat) (hr : st.rest = kt :: a :: v.tok l c :: n :: k)
    (hkt : kt.type = .identifier) (hkv : kt.value = .str key) (ha : a.type = .assign)
    (hn : n.type = .comma ∨ n.type = .listEnd ∨ isWsT n.type = true) :
    parseListItem (fuel + 3) st
      = .ok (.imap [(key, v.val)], advW st [kt, a, v.tok l c] (n :: k) (entryWarns key v kt)) := by
  obtain ⟨he, -⟩ := endsValue_after_item n.type hn
  generalize hs1 : ({ st with rest := a :: v.tok l c :: n :: k, prev := some kt, pos := st.pos + 1 } : PState) = s1
  have hr1 : s1.rest = a :: v.tok l c :: n :: k := by rw [← hs1]
  generalize hs2 : ({ s1 with rest := v.tok l c :: n :: k, prev := some a, pos := s1.pos + 1 } : PState) = s2
  have hr2 : s2.rest = v.tok l c :: n :: k := by rw [← hs2]
  have hpv := FlatParse.parseValue_scalar s2 v l c n k fuel he hr2
  have hfin : ∀ ws : List Warning, ({ s2 with rest := n :: k, prev := some (v.tok l c), pos := s2.pos + 1, warnings := ws ++ s2.warnings } : PState)
      = advW st [kt, a, v.tok l c] (n :: k) ws := by
    intro ws
    rw [← hs2, ← hs1]
    simp [advW, Nat.add_assoc]
  rw [parseListItem]
  simp only [bind, StateT.bind, current, peek, get, getThe, MonadStateOf.get, StateT.get, pure, StateT.pure, Except.pure, Except.bind, hr,
    List.drop_succ_cons, List.drop_zero]
  rw [if_pos (by simp [hkt, ha])]
  simp only [bind, StateT.bind, Except.bind]
  rw [advance_eq st kt a _ hr, hs1]
  simp only [expect, current, curType, bind, StateT.bind, get, getThe, MonadStateOf.get, StateT.get, pure, StateT.pure, Except.pure, Except.bind, hr1]
  simp only [ha, bne_self_eq_false, Bool.false_eq_true, if_false]
  rw [advance_eq s1 a _ _ hr1, hs2]
  simp only []
  rw [hpv]
  have hkey : pyStrVal kt.value = key := by rw [hkv]; rfl
  simp only [hkey, hr2, hkt, beq_self_eq_true, Bool.true_and]
  cases v with
  | str x =>
    simp only [FlatParse.Scalar.val, entryWarns]
    have e1 : ¬ (((key == "PATTERN".toList || key == "REGEX".toList) && !(((FlatParse.Scalar.str x).tok l c).type == TT.string)) = true) := by
      simp [FlatParse.Scalar.tok]
    rw [if_neg e1]
    by_cases hc : isCtorKey key = true
    · have e2 : (((key == "PATTERN".toList || key == "REGEX".toList) || key == "ENUM".toList || key == "TYPE".toList
          || key == "NEVER".toList || key == "ALWAYS".toList) && (((FlatParse.Scalar.str x).tok l c).type == TT.string)) = true := by
        simpa [isCtorKey, Bool.or_assoc, FlatParse.Scalar.tok] using hc
      rw [if_pos hc, if_pos e2, ← hfin]
      rfl
    · have e2 : ¬ ((((key == "PATTERN".toList || key == "REGEX".toList) || key == "ENUM".toList || key == "TYPE".toList
          || key == "NEVER".toList || key == "ALWAYS".toList) && (((FlatParse.Scalar.str x).tok l c).type == TT.string)) = true) := by
        simpa [isCtorKey, Bool.or_assoc, FlatParse.Scalar.tok] using hc
      rw [if_neg hc, if_neg e2, ← hfin]
      rfl
  | word w =>
    simp only [FlatParse.Scalar.val, entryWarns]
    have e2 : ¬ ((((key == "PATTERN".toList || key == "REGEX".toList) || key == "ENUM".toList || key == "TYPE".toList
        || key == "NEVER".toList || key == "ALWAYS".toList) && (((FlatParse.Scalar.word w).tok l c).type == TT.string)) = true) := by
      simp [FlatParse.Scalar.tok]
    by_cases hc : key = "PATTERN".toList ∨ key = "REGEX".toList
    · have e1 : ((key == "PATTERN".toList || key == "REGEX".toList) && !(((FlatParse.Scalar.word w).tok l c).type == TT.string)) = true := by
        simpa [FlatParse.Scalar.tok] using hc
      rw [if_pos hc, if_pos e1]
      simp only [StateT.bind, bind, Except.bind, warn_mk']
      rw [if_neg e2, ← hfin]
      rfl
    · have e1 : ¬ (((key == "PATTERN".toList || key == "REGEX".toList) && !(((FlatParse.Scalar.word w).tok l c).type == TT.string)) = true) := by
        simpa [FlatParse.Scalar.tok] using hc
      rw [if_neg hc, if_neg e1, if_neg e2, ← hfin]
      rfl
  | int i raw => simp only [FlatParse.Scalar.val, entryWarns]; rw [← hfin]; rfl
  | float r raw => simp only [FlatParse.Scalar.val, entryWarns]; rw [← hfin]; rfl
  | bool b => simp only [FlatParse.Scalar.val, entryWarns]; rw [← hfin]; rfl
  | null => simp only [FlatParse.Scalar.val, entryWarns]; rw [← hfin]; rfl

/-! ## items and token lists -/

/-- a list item at token level: one scalar token, or `IDENTIFIER ASSIGN scalar` (positions of all tokens arbitrary). -/
inductive PItem where
  | scalar (v : FlatParse.Scalar) (l c : Nat)
  | entry (kt a : Token) (key : Str) (v : FlatParse.Scalar) (l c : Nat)

def PItem.toks : PItem → List Token
  | .scalar v l c => [v.tok l c]
  | .entry kt a _ v l c => [kt, a, v.tok l c]

/-- what the item is read as: the scalar's value, or the inline map with exactly the one pair. -/
def PItem.val : PItem → Value
  | .scalar v _ _ => v.val
  | .entry _ _ key v _ _ => .imap [(key, v.val)]

def PItem.warns : PItem → List Warning
  | .scalar _ _ _ => []
  | .entry kt _ key v _ _ => entryWarns key v kt

def PItem.OK : PItem → Prop
  | .scalar _ _ _ => True
  | .entry kt a key _ _ _ => kt.type = .identifier ∧ kt.value = .str key ∧ a.type = .assign

/-- warnings of the items, newest first (as `Parser.warnings` keeps them). -/
def itemsWarnsRev : List PItem → List Warning
  | [] => []
  | it :: r => itemsWarnsRev r ++ it.warns

/-- warnings of the items in emission order. -/
def itemsWarns (vs : List PItem) : List Warning := vs.flatMap PItem.warns

theorem entryWarns_reverse (key : Str) (v : FlatParse.Scalar) (kt : Token) : (entryWarns key v kt).reverse = entryWarns key v kt := by
  unfold entryWarns
  split
  · split <;> rfl
  · split <;> rfl
  · rfl

theorem pitem_warns_reverse (it : PItem) : it.warns.reverse = it.warns := by
  cases it with
  | scalar v l c => rfl
  | entry kt a key v l c => exact entryWarns_reverse key v kt

theorem itemsWarnsRev_eq (vs : List PItem) : itemsWarnsRev vs = (itemsWarns vs).reverse := by
  induction vs with
  | nil => rfl
  | cons it r ih =>
    simp only [itemsWarnsRev, itemsWarns, List.flatMap_cons, List.reverse_append, pitem_warns_reverse] at ih ⊢
    rw [ih]

theorem pitem_head (it : PItem) (hok : it.OK) : ∃ t r, it.toks = t :: r ∧ isWsT t.type = false ∧ t.type ≠ .listEnd ∧ t.type ≠ .eof ∧
    t.type ≠ .envelopeEnd := by
  cases it with
  | scalar v l c =>
    have hp := scalar_tok_plain v l c
    exact ⟨_, [], rfl, hp.2.2.2.1, hp.2.1, hp.2.2.2.2.1, hp.2.2.2.2.2⟩
  | entry kt a key v l c =>
    have h1 := hok.1
    exact ⟨kt, _, rfl, by simp [isWsT, h1], by simp [h1], by simp [h1], by simp [h1]⟩

theorem pitem_plain (it : PItem) (hok : it.OK) : ∀ t ∈ it.toks, PlainTok t := by
  cases it with
  | scalar v l c =>
    intro t ht
    have hp := scalar_tok_plain v l c
    have : t = v.tok l c := by simpa [PItem.toks] using ht
    subst this
    exact ⟨hp.1, hp.2.1, hp.2.2.1⟩
  | entry kt a key v l c =>
    intro t ht
    have hp := scalar_tok_plain v l c
    simp only [PItem.toks, List.mem_cons, List.mem_nil_iff, or_false] at ht
    rcases ht with rfl | rfl | rfl
    · exact ⟨by simp [hok.1], by simp [hok.1], by simp [hok.1]⟩
    · exact ⟨by simp [hok.2.2], by simp [hok.2.2], by simp [hok.2.2]⟩
    · exact ⟨hp.1, hp.2.1, hp.2.2.1⟩

/-- `parse_list_item` on one item followed by `,`, `]` or list whitespace. -/
theorem parseListItem_pitem (it : PItem) (hok : it.OK) (st : PState) (n : Token) (k : List Token) (fuel : Nat)
    (hr : st.rest = it.toks ++ n :: k) (hn : n.type = .comma ∨ n.type = .listEnd ∨ isWsT n.type = true) :
    parseListItem (fuel + 3) st = .ok (it.val, advW st it.toks (n :: k) it.warns) := by
  cases it with
  | scalar v l c =>
    have := adv_eq_advW st [v.tok l c] (n :: k) (pitem_plain (.scalar v l c) hok)
    rw [parseListItem_scalar v l c st n k fuel hr hn, this]
    rfl
  | entry kt a key v l c =>
    exact parseListItem_mentry v l c key st kt a n k fuel hr hok.1 hok.2.1 hok.2.2 hn

/-- tokens from a loop head to the closing bracket: whitespace, item, then `,` and more, or whitespace and `]`. -/
inductive MHead : List PItem → List Token → Prop
  | last (ws : List Token) (it : PItem) (ws' : List Token) (rb : Token) :
      AllWs ws → AllWs ws' → rb.type = .listEnd → it.OK → MHead [it] (ws ++ (it.toks ++ (ws' ++ [rb])))
  | more (ws : List Token) (it : PItem) (cm : Token) (r : List PItem) (ts : List Token) :
      AllWs ws → cm.type = .comma → it.OK → MHead r ts → MHead (it :: r) (ws ++ (it.toks ++ cm :: ts))

theorem MHead.ne_nil {vs : List PItem} {ts : List Token} (h : MHead vs ts) : ts ≠ [] := by
  cases h with
  | last ws it ws' rb _ _ _ hok => obtain ⟨t, r, e, _⟩ := pitem_head it hok; simp [e]
  | more ws it cm r ts _ _ hok _ => obtain ⟨t, r, e, _⟩ := pitem_head it hok; simp [e]

theorem mlistLoop_head {vs : List PItem} {ts : List Token} (h : MHead vs ts) :
    ∀ (st : PState) (n : Token) (k : List Token) (items : List Value) (fuel : Nat),
    st.rest = ts ++ n :: k → vs.length + 4 ≤ fuel →
    ∃ body rb, ts = body ++ [rb] ∧ rb.type = .listEnd ∧ (∀ t ∈ body, PlainTok t) ∧
      listLoop fuel items st = .ok (items ++ vs.map PItem.val, advW st body (rb :: n :: k) (itemsWarnsRev vs)) := by
  induction h with
  | last ws it ws' rb hws hws' hrb hok =>
    intro st n k items fuel hr hf
    obtain ⟨f, rfl⟩ : ∃ f, fuel = f + 5 := ⟨fuel - 5, by simp at hf; omega⟩
    obtain ⟨t, tr, htoks, ht1, ht2, ht3, ht4⟩ := pitem_head it hok
    have hpl := pitem_plain it hok
    refine ⟨ws ++ (it.toks ++ ws'), rb, by simp, hrb, ?_, ?_⟩
    · intro x hx
      simp only [List.mem_append] at hx
      rcases hx with hx | hx | hx
      · exact allWs_plain hws x hx
      · exact hpl x hx
      · exact allWs_plain hws' x hx
    · cases ws' with
      | nil =>
        have hr0 : st.rest = ws ++ t :: (tr ++ rb :: n :: k) := by rw [hr, htoks]; simp
        have hitem := parseListItem_pitem it hok (adv st ws (t :: (tr ++ rb :: n :: k))) rb (n :: k) (f + 1)
          (by rw [adv_rest, htoks]; simp) (Or.inr (Or.inl hrb))
        rw [listLoop_iter_last st _ ws t (tr ++ rb :: n :: k) rb (n :: k) (f + 4) items it.val hr0 hws ht1 ht2 ht3 ht4 hitem rfl hrb,
          adv_eq_advW st ws _ (allWs_plain hws), advW_advW]
        simp [itemsWarnsRev]
      | cons w ws'' =>
        have hw := hws' w (by simp)
        have hr0 : st.rest = ws ++ t :: (tr ++ w :: (ws'' ++ rb :: n :: k)) := by rw [hr, htoks]; simp
        have hitem := parseListItem_pitem it hok (adv st ws (t :: (tr ++ w :: (ws'' ++ rb :: n :: k)))) w (ws'' ++ rb :: n :: k) (f + 1)
          (by rw [adv_rest, htoks]; simp) (Or.inr (Or.inr hw))
        rw [listLoop_iter_cont st _ ws t (tr ++ w :: (ws'' ++ rb :: n :: k)) w (ws'' ++ rb :: n :: k) (f + 4) items it.val
          hr0 hws ht1 ht2 ht3 ht4 hitem rfl hw]
        rw [listLoop_end_ws _ (w :: ws'') rb (n :: k) (f + 3) _ rfl hws' hrb, adv_eq_advW st ws _ (allWs_plain hws), advW_advW,
          adv_eq_advW _ (w :: ws'') _ (allWs_plain hws'), advW_advW]
        simp [itemsWarnsRev]
  | more ws it cm r ts hws hcm hok htail ih =>
    intro st n k items fuel hr hf
    obtain ⟨f, rfl⟩ : ∃ f, fuel = f + 5 := ⟨fuel - 5, by simp at hf; omega⟩
    obtain ⟨t, tr, htoks, ht1, ht2, ht3, ht4⟩ := pitem_head it hok
    have hpl := pitem_plain it hok
    obtain ⟨u, r', hur⟩ := List.exists_cons_of_ne_nil htail.ne_nil
    have hr0 : st.rest = ws ++ t :: (tr ++ cm :: (ts ++ n :: k)) := by rw [hr, htoks]; simp
    have hitem := parseListItem_pitem it hok (adv st ws (t :: (tr ++ cm :: (ts ++ n :: k)))) cm (ts ++ n :: k) (f + 1)
      (by rw [adv_rest, htoks]; simp) (Or.inl hcm)
    have hur' : ts ++ n :: k = u :: (r' ++ n :: k) := by rw [hur]; rfl
    have hstep := listLoop_iter_comma st _ ws t (tr ++ cm :: (ts ++ n :: k)) cm u (r' ++ n :: k) (f + 4) items it.val
      hr0 hws ht1 ht2 ht3 ht4 hitem (by rw [advW_rest, hur']) hcm
    rw [← hur'] at hstep
    obtain ⟨body, rb, hts, hrb, hplain, hloop⟩ := ih (adv (advW (adv st ws (t :: (tr ++ cm :: (ts ++ n :: k)))) it.toks (cm :: (ts ++ n :: k)) it.warns) [cm] (ts ++ n :: k))
      n k (items ++ [it.val]) (f + 4) rfl (by simp at hf ⊢; omega)
    have hcmp : ∀ x ∈ [cm], PlainTok x := by
      intro x hx
      have : x = cm := by simpa using hx
      subst this
      exact ⟨by simp [hcm], by simp [hcm], by simp [hcm]⟩
    refine ⟨ws ++ (it.toks ++ cm :: body), rb, by rw [hts]; simp, hrb, ?_, ?_⟩
    · intro x hx
      simp only [List.mem_append, List.mem_cons] at hx
      rcases hx with hx | hx | rfl | hx
      · exact allWs_plain hws x hx
      · exact hpl x hx
      · exact hcmp x (by simp)
      · exact hplain x hx
    · rw [hstep, hloop, adv_eq_advW st ws _ (allWs_plain hws), advW_advW, adv_eq_advW _ [cm] _ hcmp, advW_advW, advW_advW]
      simp [itemsWarnsRev]

/-! ## the whole list value -/

/-- tokens of a list of items: `[`, then either whitespace and `]`, or the items. -/
inductive MListToks : List PItem → List Token → Prop
  | empty (lb : Token) (ws : List Token) (rb : Token) :
      lb.type = .listStart → AllWs ws → rb.type = .listEnd → MListToks [] (lb :: (ws ++ [rb]))
  | items (lb : Token) (vs : List PItem) (ts : List Token) :
      lb.type = .listStart → MHead vs ts → MListToks vs (lb :: ts)

theorem mlistToks_loop {vs : List PItem} {ts : List Token} (h : MListToks vs ts) (n : Token) (k : List Token) :
    ∃ lb body rb, ts = lb :: (body ++ [rb]) ∧ lb.type = .listStart ∧ rb.type = .listEnd ∧ (∀ t ∈ body, PlainTok t) ∧
      ∀ (s1 : PState) (fuel : Nat), s1.rest = body ++ rb :: n :: k → vs.length + 4 ≤ fuel →
        listLoop fuel [] s1 = .ok (vs.map PItem.val, advW s1 body (rb :: n :: k) (itemsWarnsRev vs)) := by
  cases h with
  | empty lb ws rb hlb hws hrb =>
    refine ⟨lb, ws, rb, rfl, hlb, hrb, allWs_plain hws, ?_⟩
    intro s1 fuel hr hf
    obtain ⟨f, rfl⟩ : ∃ f, fuel = f + 1 := ⟨fuel - 1, by omega⟩
    rw [listLoop_end_ws s1 ws rb (n :: k) f [] hr hws hrb, adv_eq_advW _ _ _ (allWs_plain hws)]
    rfl
  | items lb vs ts' hlb hh =>
    obtain ⟨body, rb, hts, hrb, hplain, _⟩ := mlistLoop_head hh { rest := ts' ++ n :: k, last := n } n k [] (vs.length + 4) rfl (Nat.le_refl _)
    refine ⟨lb, body, rb, by rw [hts], hlb, hrb, hplain, ?_⟩
    intro s1 fuel hr hf
    obtain ⟨body', rb', hts', _, _, hloop⟩ := mlistLoop_head hh s1 n k [] fuel (by rw [hr, hts]; simp) hf
    have e' := hts.symm.trans hts'
    obtain ⟨e1', e2'⟩ := List.append_inj' e' rfl
    have e3' : rb = rb' := by simpa using e2'
    subst e1'; subst e3'
    rw [hloop]; rfl

/-- **`parse_value` on a list of scalars and single-pair inline-map items in any layout**: exactly the list of the items'
values — `.imap [(key, value)]` per entry, in order — and exactly the items' warnings; only the cursor moves otherwise. -/
theorem parseValue_mlistToks {vs : List PItem} {ts : List Token} (h : MListToks vs ts) (st : PState) (n : Token)
    (k : List Token) (fuel : Nat) (hr : st.rest = ts ++ n :: k) (hf : vs.length + 6 ≤ fuel) (hd : st.depth + 1 < 100)
    (hq : st.threshold = 0 ∨ st.depth + 1 < st.threshold) :
    parseValue fuel st
      = .ok (.list (vs.map PItem.val), { st with rest := n :: k, prev := ts.getLast?, pos := st.pos + ts.length, warnings := (itemsWarns vs).reverse ++ st.warnings }) := by
  obtain ⟨lb, body, rb, rfl, hlb, hrb, hplain, hloop⟩ := mlistToks_loop h n k
  obtain ⟨f, rfl⟩ : ∃ f, fuel = f + 2 := ⟨fuel - 2, by omega⟩
  have hr' : st.rest = lb :: (body ++ rb :: n :: k) := by rw [hr]; simp
  rw [parseValue_listStart st lb _ (f + 1) hr' hlb]
  have hl := hloop (adv st [lb] (body ++ rb :: n :: k)) f rfl (by omega)
  have hpl := parseList_eq st _ lb rb n (body ++ rb :: n :: k) k f _ hr' (by simp) hlb hd hl rfl hrb
    (by
      have e : (advW (adv st [lb] (body ++ rb :: n :: k)) body (rb :: n :: k) (itemsWarnsRev vs)).pos + 1 - st.pos = (lb :: (body ++ [rb])).length := by
        simp only [advW, adv_pos, List.length_cons, List.length_append, List.length_nil]; omega
      have e2 : lb :: (body ++ rb :: n :: k) = (lb :: (body ++ [rb])) ++ n :: k := by simp
      rw [e, e2, List.take_left']
      · apply not_holographic
        intro t ht
        simp only [List.mem_cons, List.mem_append, List.mem_nil_iff, or_false] at ht
        rcases ht with rfl | ht | rfl
        · simp [hlb]
        · exact (hplain t ht).2.2
        · simp [hrb]
      · rfl)
  rw [hpl, adv_rb _ _ _ hrb, adv_lb _ _ _ hlb, mark_quiet _ _ (by
    rcases hq with hq | hq
    · exact Or.inl hq
    · exact Or.inr hq), itemsWarnsRev_eq]
  have hl' : (lb :: (body ++ [rb])).getLast? = some rb := by
    rw [← List.cons_append, List.getLast?_append]; rfl
  rw [hl']
  simp only [advW, List.length_cons, List.length_append, List.length_nil, Nat.add_sub_cancel]
  have e : st.pos + 1 + body.length + 1 = st.pos + (body.length + (0 + 1) + 1) := by omega
  rw [e]

/-! ## the line -/

/-- `KEY :: [ … ] NEWLINE` for a list of scalars and inline-map items in any layout, when no item draws a warning
(`itemsWarns vs = []`: no quoted string under a constructor name, no bare word under `PATTERN` / `REGEX`). -/
theorem vline_mlist_ok (kt a nl : Token) (key : Str) (vs : List PItem) (vt : Token) (vr : List Token)
    (h : MListToks vs (vt :: vr)) (hw : itemsWarns vs = [])
    (hkt : kt.type = .identifier) (hkv : kt.value = .str key) (ha : a.type = .assign) (hnl : nl.type = .newline) :
    VLine.OK ⟨kt, key, a, vt, vr, .list (vs.map PItem.val), nl⟩ (vs.length + 6) := by
  refine ⟨hkt, hkv, ha, hnl, ?_⟩
  intro st k fuel htop hr hf
  have hr' : st.rest = (vt :: vr) ++ nl :: k := hr
  rw [parseValue_mlistToks h st nl k fuel hr' hf (by rw [htop.1]; omega) (by rw [htop.1]; simpa using htop.2), hw]
  rfl

end Octave.Maps
