import Octave.Lemmas.FlatEmit
import Octave.Lemmas.FlatParse
/-! Glue between the lexer half (`FlatLex`, concrete positions) and the parser half (`FlatParse`, arbitrary positions)
of the flat-document round trip. -/
namespace Octave
open Lexer Emitter

def FScalar.toP : FScalar → FlatParse.Scalar
  | .qstr s => .str s
  | .bare s => .word s
  | .bool b => .bool b
  | .null => .null
  | .int i => .int i (intStr i)

/-- the line as the parser half describes it, at line `l`, column 1. -/
def FLine.toP (ln : FLine) (l : Nat) : FlatParse.Line :=
  { key := ln.key, v := ln.v.toP, l := l, c1 := 1, c2 := 1 + ln.key.length, c3 := 1 + ln.key.length + 2,
    c4 := 1 + ln.key.length + 2 + ln.v.text.length }

def toPLines (l : Nat) : List FLine → List FlatParse.Line
  | [] => []
  | ln :: ls => ln.toP l :: toPLines (l + 1) ls

def flatFrame (name : Str) (n : Nat) : FlatParse.Frame :=
  { envL := 1, envC := 1, nl0L := 1, nl0C := 1 + (name.length + 6), endL := n + 2, endC := 1, nl1L := n + 2, nl1C := 10,
    eofL := n + 3, eofC := 1 }

theorem toPLines_length (lines : List FLine) : ∀ l, (toPLines l lines).length = lines.length := by
  induction lines with
  | nil => intro l; rfl
  | cons ln ls ih => intro l; simp [toPLines, ih]

theorem line_toks_bridge (ln : FLine) (l : Nat) : (ln.toksRev l 1).reverse = (ln.toP l).toks := by
  obtain ⟨key, v⟩ := ln
  cases v <;> rfl

theorem lines_toks_bridge (lines : List FLine) : ∀ l, (linesToksRev l lines).reverse = (toPLines l lines).flatMap FlatParse.Line.toks := by
  induction lines with
  | nil => intro l; rfl
  | cons ln ls ih =>
    intro l
    simp only [linesToksRev, toPLines, List.reverse_append, List.flatMap_cons, line_toks_bridge, ih]

/-- the two descriptions of the token list agree. -/
theorem flatToks_bridge (name : Str) (lines : List FLine) :
    flatToks name lines = FlatParse.flatToks (flatFrame name lines.length) name (toPLines 2 lines) := by
  simp only [flatToks, flatToksRev, FlatParse.flatToks, List.reverse_cons, List.reverse_append, lines_toks_bridge]
  simp [flatFrame, FlatParse.Frame.envTok, FlatParse.Frame.nl0Tok, FlatParse.Frame.endTok, FlatParse.Frame.nl1Tok, FlatParse.Frame.eofTok,
    tEof, tNewline, tEnvEnd, tEnvStart]

theorem node_bridge (ln : FLine) (l : Nat) : (ln.toP l).node = ln.node l 1 := by
  obtain ⟨key, v⟩ := ln
  cases v <;> rfl

theorem flatDoc_bridge (name : Str) (lines : List FLine) :
    FlatParse.flatDoc name (toPLines 2 lines) = flatDoc name (fun i => (i + 2, 1)) lines := by
  have h : ∀ (ls : List FLine) (i : Nat), (toPLines (i + 2) ls).map FlatParse.Line.node = flatNodes (fun i => (i + 2, 1)) i ls := by
    intro ls
    induction ls with
    | nil => intro i; rfl
    | cons ln r ih =>
      intro i
      simp only [toPLines, List.map_cons, flatNodes, node_bridge]
      rw [show i + 2 + 1 = (i + 1) + 2 by omega, ih (i + 1)]
  simp only [FlatParse.flatDoc, flatDoc]
  rw [← h lines 0]

theorem metaFirst_bridge (lines : List FLine) (l : Nat) :
    FlatParse.metaFirst (toPLines l lines) = (match lines with | ln :: _ => ln.key == "META".toList | [] => false) := by
  cases lines <;> rfl

theorem stripFrontmatter_flat (env : Env) (name : Str) (lines : List FLine) :
    Parser.stripFrontmatter env (flatText name lines) = (flatText name lines, none) := by
  unfold Parser.stripFrontmatter
  have : startsWith "---".toList (flatText name lines) = false := by
    simp [flatText, startsWith, List.isPrefixOf]
  rw [this]; rfl

end Octave
