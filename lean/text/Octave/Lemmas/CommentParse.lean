/-
Parser half of the "document with nested blocks AND COMMENTS" read theorem (C01 / C02), extending
`Lemmas/FlatParse.lean` and `Lemmas/BlockParse.lean`.

Content model: `CNode` = `line key scalar lead trail` | `block key children lead` (any depth, any width, any number of
comments), plus the document's trailing comments.  Token rendering at ARBITRARY line/column numbers: `pos : Nat → CPos` gives
one record of positions per source line of the body, lines numbered in reading order, COMMENT LINES INCLUDED (`CNode.lines`);
a comment is ONE token `COMMENT(.str text)`; a leading comment line of a node at depth `d` is `[INDENT(2·d)] COMMENT NEWLINE`
(`leadToks`; the INDENT only when `d > 0`, its VALUE `2·d` — that of the node it precedes — is content); a trailing comment
sits between the value token and the NEWLINE (`trailToks`).  `CNode.core pos c d j` are the tokens of node `c` from its key
on (`j` = body line of the key), `toksList pos cs d i` those of a forest starting at body line `i` (comment lines, INDENT,
core, per node), `CNode.node` / `nodeList` the AST expected (`leading` / `trailing` filled in), `CNode.warns` / `warnsList` the
exact warnings, `cTreeToks` / `cTreeDoc` the whole document (trailing comment lines before `===END===`).

What is proved about the model's parser (`parseSection`, `blockLoop`, `preIndentComments`, `commentBelongsOuter` of
`Model/ParserDoc.lean`; `docLoop`, `parseDocument` of `Model/ParserTop.lean`):

* `parseSection_cline`     one assignment line called with its leading comments: `Assignment(…, lead, trail)`
* `commentBelongsOuter_ge` / `_lt`, `cmtRun`, `preOK`, `cmtRun_scanOuter`, `cmtRun_preOK`   whose comment is it
* `stopsL`, `blockLoop_stopL`   the child loop ends at a context that `stopsL` its child indentation; comments still pending
                           become orphan `Comment` children;  `blockLoop_orphans`: comment lines at the children's indentation
                           after the last child are such orphans
* `blockLoop_lead`         the child loop over the comment lines of the next child (`afterInd`): texts appended to `pending`
* `preIndentComments_stopsL`, `skipWhitespace_false_nl`   the block header path in front of comment lines (empty block: rewind)
* `SecOK` / `ChildOK` / `LoopOK`, `sec_of` / `child_of` / `loop_of`, `all_ok`
                           the three mutually dependent statements of `BlockParse`, now carrying comments, indexed by the fuel
                           and tied by strong induction on it
* `parseSection_cblock`, `blockLoop_cforest`   the block-level results
* `docLoop_lead`, `docLoop_ctree`, `parseDocument_ctree`   the body loop of `parse_document` (comments at depth 0, the
                           document's trailing comments) and the whole `parse_document` with the parser's own fuel
* `warnsList_eq_nil`, `core_length` / `toksList_succ_length`, `colsOkList_of_canon`, `nodeEqC` … `isOkDocC_sound`
                           silence, token counts, the lexer's columns, Boolean equality (with `Comment` nodes) for closed checks

Conditions found in the code (all decidable, discussed in `Props/C02comments.lean` with the real-reader runs):
`CNode.colsOk` (column of a block key, as before), `stopsL` (what may follow a block: now also unindented comment lines, stated
with the model's own look-ahead `scanOuter` and `preOK`; canonical contexts are `cmtRun`s),
`metaFirstC` (a leading top-level `META` WITHOUT a comment in front).  Everything lives in `namespace Octave.CommentParse`.
-/
import Octave.Lemmas.BlockParse
namespace Octave.CommentParse
open Octave Parser FlatParse BlockParse

/-! ## Content model -/

/-- document content below the envelope: lines `KEY::scalar` with leading comment lines and an optional trailing
comment, blocks `KEY:` with leading comment lines and children (any depth, any width, any number of comments). -/
inductive CNode where
  | line (key : Str) (v : Scalar) (lead : List Str) (trail : Option Str)
  | block (key : Str) (children : List CNode) (lead : List Str)

def CNode.lead : CNode → List Str
  | .line _ _ lead _ => lead
  | .block _ _ lead => lead

def CNode.key : CNode → Str
  | .line key _ _ _ => key
  | .block key _ _ => key

/-- positions of the tokens of one source line (a comment line, a `KEY::scalar` line, a block header `KEY:`): all arbitrary.
`li`/`ci`: line and column of the INDENT token (present at depth > 0 only); `l`: line of the other tokens;
`c1`: column of the key / of the COMMENT token of a comment line; `c2`: of `::` / `:`; `c3`: of the scalar;
`c4`: of the NEWLINE; `c5`: of the trailing COMMENT token (if any). -/
structure CPos where
  li : Nat
  ci : Nat
  l : Nat
  c1 : Nat
  c2 : Nat
  c3 : Nat
  c4 : Nat
  c5 : Nat
  deriving DecidableEq, Repr, Inhabited

def cmtTok (s : Str) (l c : Nat) : Token := { type := .comment, value := .str s, line := l, col := c }
def keyTok (key : Str) (p : CPos) : Token := { type := .identifier, value := .str key, line := p.l, col := p.c1 }
def assignTok (p : CPos) : Token := { type := .assign, value := .str "::".toList, line := p.l, col := p.c2 }
def blockTok (p : CPos) : Token := { type := .block, value := .str ":".toList, line := p.l, col := p.c2 }
def nlTok (p : CPos) : Token := { type := .newline, value := .str "\n".toList, line := p.l, col := p.c4 }
/-- the INDENT token of a line at depth `d`: its VALUE `2 * d` is content. -/
def indTok (d : Nat) (p : CPos) : Token := { type := .indent, value := .nat (2 * d), line := p.li, col := p.ci }

/-- a line at depth 0 has no INDENT token; at depth `d > 0` it starts with `INDENT(2 * d)`. -/
def indToks : Nat → CPos → List Token
  | 0, _ => []
  | d + 1, p => [indTok (d + 1) p]

/-- the trailing comment of an assignment: one COMMENT token between the value and the NEWLINE. -/
def trailToks : Option Str → CPos → List Token
  | none, _ => []
  | some s, p => [cmtTok s p.l p.c5]

/-- comment lines at depth `d`, the first one being body line `i`: `[INDENT(2·d)] COMMENT NEWLINE` each. -/
def leadToks (pos : Nat → CPos) (d : Nat) : List Str → Nat → List Token
  | [], _ => []
  | s :: r, i => indToks d (pos i) ++ (cmtTok s (pos i).l (pos i).c1 :: nlTok (pos i) :: leadToks pos d r (i + 1))

mutual
/-- number of source lines of a node: its leading comment lines, its own line, (a block:) all lines below it. -/
def CNode.lines : CNode → Nat
  | .line _ _ lead _ => lead.length + 1
  | .block _ cs lead => lead.length + 1 + linesList cs
def linesList : List CNode → Nat
  | [] => 0
  | c :: cs => c.lines + linesList cs
end

mutual
/-- tokens of a node at depth `d` from its key on (`j`: body line number of the key), i.e. WITHOUT the leading comment
lines and without the INDENT of the key line. -/
def CNode.core (pos : Nat → CPos) : CNode → Nat → Nat → List Token
  | .line key v _ trail, _, j =>
    keyTok key (pos j) :: assignTok (pos j) :: v.tok (pos j).l (pos j).c3 :: (trailToks trail (pos j) ++ [nlTok (pos j)])
  | .block key cs _, d, j => keyTok key (pos j) :: blockTok (pos j) :: nlTok (pos j) :: toksList pos cs (d + 1) (j + 1)
/-- tokens of a forest at depth `d` starting at body line `i`: every node with its leading comment lines (indented like
the node) and its INDENT token (if `d > 0`). -/
def toksList (pos : Nat → CPos) : List CNode → Nat → Nat → List Token
  | [], _, _ => []
  | c :: cs, d, i =>
    leadToks pos d c.lead i ++ (indToks d (pos (i + c.lead.length))
      ++ (c.core pos d (i + c.lead.length) ++ toksList pos cs d (i + c.lines)))
end

mutual
/-- the AST node the reader must produce (`j`: body line of the key; positions: those of the key token). -/
def CNode.node (pos : Nat → CPos) : CNode → Nat → Node
  | .line key v lead trail, j => .assign key v.val (pos j).l (pos j).c1 lead trail
  | .block key cs lead, j => .block key (nodeList pos cs (j + 1)) (pos j).l (pos j).c1 lead none
def nodeList (pos : Nat → CPos) : List CNode → Nat → List Node
  | [], _ => []
  | c :: cs, i => c.node pos (i + c.lead.length) :: nodeList pos cs (i + c.lines)
end

/-- the warning(s) one assignment line produces: only W_PATTERN_AUTOQUOTE, for a bare word under `PATTERN` / `REGEX`. -/
def lineWarns (key : Str) (v : Scalar) (p : CPos) : List Warning :=
  (Line.mk key v p.l p.c1 p.c2 p.c3 p.c4).warns

/-- duplicate-key bookkeeping of a child loop: only Assignment children are tracked. -/
def trackNode (kp : KeyPos) (c : CNode) (p : CPos) : KeyPos × List Warning :=
  match c with
  | .line key _ _ _ => trackPure kp key p.l
  | .block _ _ _ => (kp, [])

mutual
/-- warnings `parseSection` emits on the node, in emission order (`j`: body line of the key). -/
def CNode.warns (pos : Nat → CPos) : CNode → Nat → List Warning
  | .line key v _ _, j => lineWarns key v (pos j)
  | .block _ cs _, j => warnsList pos cs [] (j + 1)
/-- warnings of a child loop (block body or document body) on a forest, starting from key table `kp`. -/
def warnsList (pos : Nat → CPos) : List CNode → KeyPos → Nat → List Warning
  | [], _, _ => []
  | c :: cs, kp, i =>
    c.warns pos (i + c.lead.length) ++ ((trackNode kp c (pos (i + c.lead.length))).2
      ++ warnsList pos cs (trackNode kp c (pos (i + c.lead.length))).1 (i + c.lines))
end

mutual
/-- the last token the loops consume for the node: always a NEWLINE (`j`: body line of the key). -/
def CNode.lastTok (pos : Nat → CPos) : CNode → Nat → Token
  | .line _ _ _ _, j => nlTok (pos j)
  | .block _ cs _, j => lastTokList pos cs (nlTok (pos j)) (j + 1)
def lastTokList (pos : Nat → CPos) : List CNode → Token → Nat → Token
  | [], dflt, _ => dflt
  | c :: cs, _, i => lastTokList pos cs (c.lastTok pos (i + c.lead.length)) (i + c.lines)
end

/-- `prev` after a loop went through the forest. -/
def prevAfterList (pos : Nat → CPos) (p : Option Token) (cs : List CNode) (i : Nat) : Option Token :=
  match cs with
  | [] => p
  | c :: cs => some (lastTokList pos cs (c.lastTok pos (i + c.lead.length)) (i + c.lines))

mutual
/-- the condition the code imposes on the COLUMN of block keys (`block_indent = key.column - 1`), as in
`BlockParse.TNode.colsOk`: a block with children must have `block_indent < 2 * (d + 1)`; an empty block must have
`block_indent ≥ 2 * d`.  The lexer always gives `column = 2 * d + 1`, which satisfies both.  No column of a COMMENT
token is read. -/
def CNode.colsOk (pos : Nat → CPos) : CNode → Nat → Nat → Bool
  | .line _ _ _ _, _, _ => true
  | .block _ cs _, d, j =>
    (if cs.isEmpty then decide (2 * d ≤ (pos j).c1 - 1) else decide ((pos j).c1 - 1 < 2 * (d + 1))) && colsOkList pos cs (d + 1) (j + 1)
def colsOkList (pos : Nat → CPos) : List CNode → Nat → Nat → Bool
  | [], _, _ => true
  | c :: cs, d, i => c.colsOk pos d (i + c.lead.length) && colsOkList pos cs d (i + c.lines)
end


/-! ## Evaluation on explicit states -/

/-- evaluation of the parser monad on explicit states (as in `Lemmas/FlatParse.lean`). -/
local macro "step_simp" "[" ts:Lean.Parser.Tactic.simpLemma,* "]" : tactic =>
  `(tactic| simp only [bind, StateT.bind, Except.bind, pure, StateT.pure, Except.pure, current_mk, peek_mk, advance_mk,
      curType_mk, isAdjacentBracket_mk, budget_mk, warn_mk, get, getThe, MonadStateOf.get, StateT.get,
      Bool.false_eq_true, if_false, if_true, Bool.false_and, Bool.and_false, Bool.or_false, Bool.false_or,
      List.length_cons, List.length_nil, beq_iff_eq, bne_iff_ne, ne_eq, reduceCtorEq, not_true_eq_false, not_false_eq_true,
      Bool.and_eq_true, Bool.or_eq_true, Bool.not_eq_true', beq_eq_false_iff_ne, false_and, and_false, true_and, and_true,
      false_or, or_false, true_or, or_true, decide_eq_true_eq,
      beq_self_eq_true, Bool.true_or, Bool.or_true, Bool.true_and, Bool.and_true, Bool.not_true, Bool.not_false, $ts,*])

/-- `prev` after `parseSection` read an assignment line: the value token, or the trailing COMMENT token. -/
def prevLine (v : Scalar) (trail : Option Str) (p : CPos) : Token :=
  match trail with
  | none => v.tok p.l p.c3
  | some s => cmtTok s p.l p.c5

def trailLen : Option Str → Nat
  | none => 0
  | some _ => 1

theorem lineWarns_reverse (key : Str) (v : Scalar) (p : CPos) : (lineWarns key v p).reverse = lineWarns key v p :=
  Line.warns_reverse _

/-- **`parse_section` on one assignment line** `KEY::scalar [// trailing]`, called with the line's leading comments: the
Assignment with exactly `lead` and `trail`; cursor left ON the line's NEWLINE; only the W_PATTERN_AUTOQUOTE warning (if any)
added. -/
theorem parseSection_cline (st : PState) (key : Str) (v : Scalar) (lead : List Str) (trail : Option Str) (p : CPos)
    (k : List Token) (fuel : Nat)
    (hr : st.rest = keyTok key p :: assignTok p :: v.tok p.l p.c3 :: (trailToks trail p ++ nlTok p :: k)) :
    parseSection (fuel + 3) lead st
      = .ok (some (.assign key v.val p.l p.c1 lead trail),
             { st with rest := nlTok p :: k, prev := some (prevLine v trail p), pos := st.pos + 3 + trailLen trail,
                       warnings := lineWarns key v p ++ st.warnings }) := by
  have hst : st = { st with rest := keyTok key p :: assignTok p :: v.tok p.l p.c3 :: (trailToks trail p ++ nlTok p :: k) } := by
    rw [← hr]
  rw [hst]
  cases trail with
  | none =>
    rw [parseSection]
    step_simp [keyTok, assignTok, nlTok, trailToks, List.cons_append, List.nil_append, pyStrVal_str]
    rw [parseValue_scalar (v := v) (l := p.l) (c := p.c3) (hn := rfl) (hr := rfl)]
    cases v with
    | word w =>
      simp only [Scalar.val]
      by_cases hk : key = "PATTERN".toList ∨ key = "REGEX".toList
      · have hc : (key = "PATTERN".toList ∨ key = "REGEX".toList) ∧ ¬((Scalar.word w).tok p.l p.c3).type = TT.string :=
          ⟨hk, by simp [Scalar.tok]⟩
        rw [if_pos hc]
        step_simp [Scalar.tok, lineWarns, Line.warns, Scalar.val, hk, List.nil_append, List.cons_append, prevLine, trailLen]
      · have hc : ¬((key = "PATTERN".toList ∨ key = "REGEX".toList) ∧ ¬((Scalar.word w).tok p.l p.c3).type = TT.string) :=
          fun h => hk h.1
        rw [if_neg hc]
        step_simp [Scalar.tok, lineWarns, Line.warns, Scalar.val, hk, List.nil_append, prevLine, trailLen]
    | str s =>
      simp only [Scalar.val]
      have hc : ¬((key = "PATTERN".toList ∨ key = "REGEX".toList) ∧ ¬((Scalar.str s).tok p.l p.c3).type = TT.string) :=
        fun h => h.2 rfl
      rw [if_neg hc]
      step_simp [Scalar.tok, lineWarns, Line.warns, Scalar.val, List.nil_append, prevLine, trailLen]
    | _ => step_simp [Scalar.val, Scalar.tok, lineWarns, Line.warns, List.nil_append, prevLine, trailLen]
  | some t =>
    rw [parseSection]
    step_simp [keyTok, assignTok, nlTok, trailToks, List.cons_append, List.nil_append, pyStrVal_str]
    rw [parseValue_scalar (v := v) (l := p.l) (c := p.c3) (hn := rfl) (hr := rfl)]
    cases v with
    | word w =>
      simp only [Scalar.val]
      by_cases hk : key = "PATTERN".toList ∨ key = "REGEX".toList
      · have hc : (key = "PATTERN".toList ∨ key = "REGEX".toList) ∧ ¬((Scalar.word w).tok p.l p.c3).type = TT.string :=
          ⟨hk, by simp [Scalar.tok]⟩
        rw [if_pos hc]
        step_simp [Scalar.tok, cmtTok, lineWarns, Line.warns, Scalar.val, hk, List.nil_append, List.cons_append, prevLine, trailLen, pyStrVal_str]
      · have hc : ¬((key = "PATTERN".toList ∨ key = "REGEX".toList) ∧ ¬((Scalar.word w).tok p.l p.c3).type = TT.string) :=
          fun h => hk h.1
        rw [if_neg hc]
        step_simp [Scalar.tok, cmtTok, lineWarns, Line.warns, Scalar.val, hk, List.nil_append, prevLine, trailLen, pyStrVal_str]
    | str s =>
      simp only [Scalar.val]
      have hc : ¬((key = "PATTERN".toList ∨ key = "REGEX".toList) ∧ ¬((Scalar.str s).tok p.l p.c3).type = TT.string) :=
        fun h => h.2 rfl
      rw [if_neg hc]
      step_simp [Scalar.tok, cmtTok, lineWarns, Line.warns, Scalar.val, List.nil_append, prevLine, trailLen, pyStrVal_str]
    | _ => step_simp [Scalar.val, Scalar.tok, cmtTok, lineWarns, Line.warns, List.nil_append, prevLine, trailLen, pyStrVal_str]


/-! ## whose comment is it: `commentBelongsOuter` -/

theorem commentBelongsOuter_ge (li ci : Nat) (h : ci ≤ li) (st : PState) :
    commentBelongsOuter li ci st = .ok (false, st) := by
  unfold commentBelongsOuter
  have : li ≥ ci := h
  simp only [this, if_true]
  rfl

theorem commentBelongsOuter_lt (li ci : Nat) (h : li < ci) (st : PState) :
    commentBelongsOuter li ci st = .ok (scanOuter ci st.rest li, st) := by
  unfold commentBelongsOuter
  have : ¬ li ≥ ci := by omega
  simp only [this, if_false]
  rfl

/-- unindented comment lines (COMMENT and NEWLINE tokens only) up to the first token of an unindented line that is not a
fence: what follows a block when the next node (or the end of the document) is at depth 0 and has comments in front. -/
def cmtRun : List Token → Bool
  | [] => false
  | t :: ts => if t.type == .comment || t.type == .newline then cmtRun ts else (t.type != .indent && t.type != .fenceOpen)

/-- the header path of an EMPTY block (`preIndentComments`) runs over COMMENT and NEWLINE tokens; the token it ends on must
not open a deeper line: no fence, an INDENT only with a value `< ci`. -/
def preOK (ci : Nat) : List Token → Bool
  | [] => false
  | t :: ts => if t.type == .comment || t.type == .newline then preOK ci ts
               else (t.type != .fenceOpen && (t.type != .indent || decide (indentVal t < ci)))

/-- what may follow a forest whose lines are indented by at least `ci` — exactly what the two code paths look at: the
first token `e` is not a NEWLINE or a fence; if it is an INDENT its value is `< ci`; if it is a COMMENT (an unindented
comment line), the model's own look-ahead `scanOuter ci · 0` (`_comment_belongs_to_outer_level`: the next non-comment
line is indented by less than `ci`) says "outer", and the run of comment / blank lines ends before a line that is not
deeper (`preOK`, needed by the empty-block path only).  In canonical text a COMMENT here starts a `cmtRun`. -/
def stopsL (ci : Nat) : List Token → Bool
  | [] => false
  | e :: k => e.type != .newline && e.type != .fenceOpen && (e.type != .indent || decide (indentVal e < ci))
      && (e.type != .comment || (scanOuter ci k 0 && preOK ci k))

theorem stopsL_of_stopsAt (ci : Nat) (e : Token) (k : List Token) (h : stopsAt ci e = true) : stopsL ci (e :: k) = true := by
  simp only [stopsAt, Bool.and_eq_true, Bool.or_eq_true, bne_iff_ne, ne_eq, decide_eq_true_eq] at h
  simp only [stopsL, Bool.and_eq_true, Bool.or_eq_true, bne_iff_ne, ne_eq, decide_eq_true_eq]
  exact ⟨⟨⟨h.1.1.1, h.1.2⟩, h.2⟩, Or.inl h.1.1.2⟩

theorem scanOuter_mono {a b : Nat} (h : a ≤ b) : ∀ (k : List Token) (li : Nat), scanOuter a k li = true → scanOuter b k li = true
  | [], _, _ => rfl
  | t :: ts, li, hs => by
    rw [scanOuter] at hs ⊢
    by_cases h1 : t.type = TT.comment
    · simp only [h1, beq_self_eq_true, if_true] at hs ⊢
      exact scanOuter_mono h ts li hs
    · by_cases h2 : t.type = TT.newline
      · simp only [h2, beq_self_eq_true, if_true, beq_iff_eq, reduceCtorEq, if_false] at hs ⊢
        exact scanOuter_mono h ts 0 hs
      · by_cases h3 : t.type = TT.indent
        · simp only [h3, beq_self_eq_true, if_true, beq_iff_eq, reduceCtorEq, if_false] at hs ⊢
          exact scanOuter_mono h ts _ hs
        · simp only [beq_iff_eq, h1, h2, h3, if_false, decide_eq_true_eq] at hs ⊢
          omega

theorem preOK_mono {a b : Nat} (h : a ≤ b) : ∀ (k : List Token), preOK a k = true → preOK b k = true
  | [], hs => hs
  | t :: ts, hs => by
    rw [preOK] at hs ⊢
    by_cases h1 : t.type = TT.comment ∨ t.type = TT.newline
    · have hb : (t.type == TT.comment || t.type == TT.newline) = true := by simpa using h1
      rw [hb] at hs ⊢
      exact preOK_mono h ts hs
    · have hb : (t.type == TT.comment || t.type == TT.newline) = false := by simpa using h1
      rw [hb] at hs ⊢
      simp only [Bool.false_eq_true, if_false, Bool.and_eq_true, Bool.or_eq_true, bne_iff_ne, ne_eq, decide_eq_true_eq] at hs ⊢
      refine ⟨hs.1, ?_⟩
      rcases hs.2 with h2 | h2
      · exact Or.inl h2
      · exact Or.inr (by omega)

theorem stopsL_mono {a b : Nat} (h : a ≤ b) {fl : List Token} (hs : stopsL a fl = true) : stopsL b fl = true := by
  cases fl with
  | nil => exact hs
  | cons e k =>
    simp only [stopsL, Bool.and_eq_true, Bool.or_eq_true, bne_iff_ne, ne_eq, decide_eq_true_eq] at hs ⊢
    refine ⟨⟨hs.1.1, ?_⟩, ?_⟩
    · rcases hs.1.2 with h1 | h1
      · exact Or.inl h1
      · exact Or.inr (by omega)
    · rcases hs.2 with h1 | h1
      · exact Or.inl h1
      · exact Or.inr ⟨scanOuter_mono h k 0 h1.1, preOK_mono h k h1.2⟩

theorem cmtRun_scanOuter (ci : Nat) (hci : 0 < ci) : ∀ k : List Token, cmtRun k = true → scanOuter ci k 0 = true
  | [], h => by simp [cmtRun] at h
  | t :: ts, h => by
    rw [cmtRun] at h
    rw [scanOuter]
    by_cases h1 : t.type = TT.comment
    · simp only [h1, beq_self_eq_true, Bool.true_or, if_true] at h ⊢
      exact cmtRun_scanOuter ci hci ts h
    · by_cases h2 : t.type = TT.newline
      · simp only [h2, beq_self_eq_true, Bool.or_true, if_true] at h
        simp only [h2, beq_self_eq_true, if_true, beq_iff_eq, reduceCtorEq, if_false]
        exact cmtRun_scanOuter ci hci ts h
      · simp only [beq_iff_eq, h1, h2, or_self, if_false, Bool.and_eq_true, bne_iff_ne, ne_eq, Bool.or_eq_true] at h
        simp only [beq_iff_eq, h1, h2, h.1, if_false, decide_eq_true_eq]
        exact hci

theorem cmtRun_preOK (ci : Nat) : ∀ k : List Token, cmtRun k = true → preOK ci k = true
  | [], h => by simp [cmtRun] at h
  | t :: ts, h => by
    rw [cmtRun] at h
    rw [preOK]
    by_cases h1 : t.type = TT.comment ∨ t.type = TT.newline
    · have hb : (t.type == TT.comment || t.type == TT.newline) = true := by simpa using h1
      rw [hb] at h ⊢
      exact cmtRun_preOK ci ts h
    · have hb : (t.type == TT.comment || t.type == TT.newline) = false := by simpa using h1
      rw [hb] at h ⊢
      simp only [Bool.false_eq_true, if_false, Bool.and_eq_true, Bool.or_eq_true, bne_iff_ne, ne_eq, decide_eq_true_eq] at h ⊢
      exact ⟨h.2, Or.inl h.1⟩

/-- the canonical case: a COMMENT that starts a `cmtRun` (unindented comment lines up to an unindented line). -/
theorem stopsL_cmt (ci : Nat) (hci : 0 < ci) (e : Token) (k : List Token) (he : e.type = TT.comment) (h : cmtRun k = true) :
    stopsL ci (e :: k) = true := by
  simp only [stopsL, he, cmtRun_scanOuter ci hci k h, cmtRun_preOK ci k h, Bool.and_eq_true, Bool.or_eq_true, bne_iff_ne, ne_eq,
    decide_eq_true_eq, reduceCtorEq, not_false_eq_true, true_and, and_self, or_true, and_true]
  exact Or.inl (by decide)

/-- the child loop of a block stops at a follow context that `stopsL` its child indentation (on a fresh line:
`lineIndent = 0`); comments still pending become orphan `Comment` children. -/
theorem blockLoop_stopL (fuel ci : Nat) (hci : 0 < ci) (pd : List Str) (acc : List Node) (kp : KeyPos) (e : Token) (r : List Token)
    (p : Option Token) (n : Nat) (la : Token) (w : List Warning) (d : Nat) (wd : List Nat) (s : Bool) (th : Nat) (al : Char → Bool)
    (hs : stopsL ci (e :: r) = true) :
    blockLoop (fuel + 1) ci 0 pd acc kp { rest := e :: r, prev := p, pos := n, last := la, warnings := w, depth := d, warned := wd, strict := s, threshold := th, alpha := al }
      = .ok (acc ++ pd.map Node.comment, { rest := e :: r, prev := p, pos := n, last := la, warnings := w, depth := d, warned := wd, strict := s, threshold := th, alpha := al }) := by
  simp only [stopsL, Bool.and_eq_true, Bool.or_eq_true, bne_iff_ne, ne_eq, decide_eq_true_eq] at hs
  obtain ⟨⟨⟨h1, h3⟩, h4⟩, h2⟩ := hs
  rw [blockLoop]
  step_simp []
  by_cases he : e.type = TT.eof ∨ e.type = TT.envelopeEnd
  · rw [if_pos he]; rfl
  · rw [if_neg he]
    by_cases hi : e.type = TT.indent
    · have h5 : indentVal e < ci := by
        rcases h4 with h | h
        · exact absurd hi h
        · exact h
      obtain ⟨ty, val, l, c, nf, raw⟩ := e
      simp only at hi
      subst hi
      cases val <;> simp only [indentVal] at h5 <;> step_simp [h5] <;> (try (rw [if_pos hci]))
    · by_cases hc : e.type = TT.comment
      · have h6 : scanOuter ci r 0 = true := by
          rcases h2 with h | h
          · exact absurd hc h
          · exact h.1
        have h7 : scanOuter ci (e :: r) 0 = true := by
          rw [scanOuter]
          simp only [hc, beq_self_eq_true, if_true]
          exact h6
        step_simp [hi, hc, commentBelongsOuter_lt 0 ci hci, h7]
      · step_simp [hi, h1, hc, h3, hci]


/-! ## the leading comment lines of a child -/

/-- what follows the first INDENT of an indented node with leading comments `lead` (first comment on body line `i`):
`(COMMENT NEWLINE INDENT)*` — the node's key comes next. -/
def afterInd (pos : Nat → CPos) (d : Nat) : List Str → Nat → List Token
  | [], _ => []
  | s :: r, i => cmtTok s (pos i).l (pos i).c1 :: nlTok (pos i) :: indTok d (pos (i + 1)) :: afterInd pos d r (i + 1)

theorem afterInd_length (pos : Nat → CPos) (d : Nat) : ∀ (lead : List Str) (i : Nat), (afterInd pos d lead i).length = 3 * lead.length
  | [], _ => rfl
  | _ :: r, i => by simp only [afterInd, List.length_cons, afterInd_length pos d r (i + 1)]; omega

/-- the comment lines of an indented node and its own INDENT, regrouped: first INDENT, then `afterInd`. -/
theorem lead_indent_eq (pos : Nat → CPos) (d : Nat) (X : List Token) : ∀ (lead : List Str) (i : Nat),
    leadToks pos (d + 1) lead i ++ (indToks (d + 1) (pos (i + lead.length)) ++ X)
      = indTok (d + 1) (pos i) :: (afterInd pos (d + 1) lead i ++ X)
  | [], i => by simp only [leadToks, indToks, afterInd, List.length_nil, Nat.add_zero, List.nil_append, List.cons_append]
  | s :: r, i => by
    have h := lead_indent_eq pos d X r (i + 1)
    have hi : i + (s :: r).length = i + 1 + r.length := by simp only [List.length_cons]; omega
    simp only [indToks, List.cons_append, List.nil_append] at h
    simp only [leadToks, indToks, afterInd, List.cons_append, List.nil_append, hi, h]

theorem afterInd_append_ne_nil (pos : Nat → CPos) (d : Nat) (lead : List Str) (i : Nat) (X : List Token) (hX : X ≠ []) :
    afterInd pos d lead i ++ X ≠ [] := by
  cases lead with
  | nil => exact hX
  | cons s r => simp [afterInd]

/-- the child loop of a block right after an INDENT of its children's indentation, on the remaining comment lines of the
next child: the comment texts are appended to `pending`, in order. -/
theorem blockLoop_lead (pos : Nat → CPos) (d : Nat) (X : List Token) (hX : X ≠ []) (G : Nat) (acc : List Node) (kp : KeyPos)
    (la : Token) (w : List Warning) (dp : Nat) (wd : List Nat) (s : Bool) (th : Nat) (al : Char → Bool) :
    ∀ (lead : List Str) (i : Nat) (pd : List Str) (p : Option Token) (n : Nat), ∃ p' : Option Token,
    blockLoop (3 * lead.length + G) (2 * (d + 1)) (2 * (d + 1)) pd acc kp
        { rest := afterInd pos (d + 1) lead i ++ X, prev := p, pos := n, last := la, warnings := w, depth := dp, warned := wd, strict := s, threshold := th, alpha := al }
      = blockLoop G (2 * (d + 1)) (2 * (d + 1)) (pd ++ lead) acc kp
        { rest := X, prev := p', pos := n + 3 * lead.length, last := la, warnings := w, depth := dp, warned := wd, strict := s, threshold := th, alpha := al }
  | [], i, pd, p, n => ⟨p, by simp only [afterInd, List.length_nil, Nat.mul_zero, Nat.zero_add, Nat.add_zero, List.nil_append, List.append_nil]⟩
  | c :: r, i, pd, p, n => by
    obtain ⟨p', ih⟩ := blockLoop_lead pos d X hX G acc kp la w dp wd s th al r (i + 1) (pd ++ [c]) (some (indTok (d + 1) (pos (i + 1)))) (n + 1 + 1 + 1)
    refine ⟨p', ?_⟩
    have hf : 3 * (c :: r).length + G = (3 * r.length + G) + 1 + 1 + 1 := by simp only [List.length_cons]; omega
    rw [hf]
    simp only [afterInd, List.cons_append]
    rw [blockLoop]
    step_simp [cmtTok, commentBelongsOuter_ge _ _ (Nat.le_refl _), pyStrVal_str]
    rw [blockLoop]
    step_simp [nlTok, indTok]
    rw [blockLoop]
    step_simp [indTok, Nat.lt_irrefl]
    rw [advance_ne (h := afterInd_append_ne_nil pos (d + 1) r (i + 1) X hX)]
    simp only []
    simp only [indTok] at ih
    rw [ih]
    have hp : n + 1 + 1 + 1 + 3 * r.length = n + 3 * (c :: r).length := by simp only [List.length_cons]; omega
    rw [hp, List.append_assoc, List.singleton_append]
    rfl


/-! ## `skip_whitespace(skip_comments=False)` and the pre-indent comments of a block header -/

/-- `skip_whitespace(skip_comments=False)` over one NEWLINE: stops at a COMMENT as well. -/
theorem skipWhitespace_false_nl (t u : Token) (r : List Token) (p : Option Token) (n : Nat) (la : Token)
    (w : List Warning) (d : Nat) (wd : List Nat) (s : Bool) (th : Nat) (al : Char → Bool)
    (h : t.type = TT.newline) (h1 : u.type ≠ TT.newline) :
    skipWhitespace false { rest := t :: u :: r, prev := p, pos := n, last := la, warnings := w, depth := d, warned := wd, strict := s, threshold := th, alpha := al }
      = .ok ((), { rest := u :: r, prev := some t, pos := n + 1, last := la, warnings := w, depth := d, warned := wd, strict := s, threshold := th, alpha := al }) := by
  unfold skipWhitespace
  step_simp []
  rw [skipWs]
  step_simp [h]
  rw [if_neg (by omega), skipWs]
  step_simp [h1]

/-- `preIndentComments` over comment and blank lines (`preOK`): it ends (with enough fuel) on a token that is no fence and, if an
INDENT, has a value `< ci`. -/
theorem preIndentComments_preOK (ci : Nat) (la : Token) (w : List Warning) (d : Nat) (wd : List Nat) (s : Bool) (th : Nat) (al : Char → Bool) :
    ∀ (k : List Token) (fuel : Nat) (acc : List Str) (p : Option Token) (n : Nat), preOK ci k = true → k.length < fuel →
    ∃ (acc' : List Str) (c0 : Token) (k' : List Token) (p' : Option Token) (n' : Nat),
      preIndentComments fuel acc { rest := k, prev := p, pos := n, last := la, warnings := w, depth := d, warned := wd, strict := s, threshold := th, alpha := al }
        = .ok (acc', { rest := c0 :: k', prev := p', pos := n', last := la, warnings := w, depth := d, warned := wd, strict := s, threshold := th, alpha := al })
      ∧ c0.type ≠ TT.fenceOpen ∧ (c0.type = TT.indent → indentVal c0 < ci)
  | [], _, _, _, _, h, _ => by simp [preOK] at h
  | t :: ts, fuel, acc, p, n, h, hf => by
    obtain ⟨fuel', rfl⟩ : ∃ f, fuel = f + 1 := ⟨fuel - 1, by simp only [List.length_cons] at hf; omega⟩
    rw [preOK] at h
    by_cases hcn : t.type = TT.comment ∨ t.type = TT.newline
    · have h' : preOK ci ts = true := by
        rcases hcn with h1 | h1 <;> simpa [h1] using h
      have hne : ts ≠ [] := by
        intro h0; rw [h0] at h'; simp [preOK] at h'
      have hf' : ts.length < fuel' := by simp only [List.length_cons] at hf; omega
      rw [preIndentComments]
      rcases hcn with h1 | h1
      · obtain ⟨acc', c0, k', p', n', ih, hc⟩ := preIndentComments_preOK ci la w d wd s th al ts fuel' (acc ++ [pyStrVal t.value]) (some t) (n + 1) h' hf'
        refine ⟨acc', c0, k', p', n', ?_, hc⟩
        step_simp [h1]
        rw [advance_ne (h := hne)]
        exact ih
      · obtain ⟨acc', c0, k', p', n', ih, hc⟩ := preIndentComments_preOK ci la w d wd s th al ts fuel' acc (some t) (n + 1) h' hf'
        refine ⟨acc', c0, k', p', n', ?_, hc⟩
        step_simp [h1]
        rw [advance_ne (h := hne)]
        exact ih
    · have h1 : t.type ≠ TT.comment := fun h0 => hcn (Or.inl h0)
      have h2 : t.type ≠ TT.newline := fun h0 => hcn (Or.inr h0)
      simp only [beq_iff_eq, h1, h2, or_self, if_false, Bool.and_eq_true, bne_iff_ne, ne_eq, Bool.or_eq_true, decide_eq_true_eq] at h
      refine ⟨acc, t, ts, p, n, ?_, h.1, fun h0 => ?_⟩
      · rw [preIndentComments]
        step_simp [h1, h2]
      · rcases h.2 with h3 | h3
        · exact absurd h0 h3
        · exact h3

/-! ## The three mutually dependent statements, indexed by the fuel -/

/-- `parseSection` on a block at depth `d` (cursor on its key, its leading comments `lead` already collected and passed
in), followed by a context that `stopsL` depth `d`: the Block node with exactly the children and the leading comments;
cursor at the context; only warnings added. -/
def SecOK (pos : Nat → CPos) (F : Nat) : Prop :=
  ∀ (key : Str) (cs : List CNode) (lead : List Str) (d j : Nat) (st : PState) (fl : List Token),
    st.rest = (CNode.block key cs lead).core pos d j ++ fl →
    stopsL (2 * d + 1) fl = true →
    (CNode.block key cs lead).colsOk pos d j = true →
    ((CNode.block key cs lead).core pos d j).length ≤ F →
    parseSection F lead st = .ok (some ((CNode.block key cs lead).node pos j),
      { st with rest := fl, prev := some ((CNode.block key cs lead).lastTok pos j),
                pos := st.pos + ((CNode.block key cs lead).core pos d j).length,
                warnings := ((CNode.block key cs lead).warns pos j).reverse ++ st.warnings })

/-- the child loop right after the first INDENT of child `c` (`lineIndent = childIndent`, nothing pending): the remaining
tokens of its comment lines, the child itself, further children `cs` behind it. -/
def ChildOK (pos : Nat → CPos) (F : Nat) : Prop :=
  ∀ (c : CNode) (cs : List CNode) (d i : Nat) (st : PState) (fl : List Token) (acc : List Node) (kp : KeyPos),
    st.rest = afterInd pos (d + 1) c.lead i ++ (c.core pos (d + 1) (i + c.lead.length) ++ (toksList pos cs (d + 1) (i + c.lines) ++ fl)) →
    stopsL (2 * (d + 1)) fl = true →
    c.colsOk pos (d + 1) (i + c.lead.length) = true → colsOkList pos cs (d + 1) (i + c.lines) = true →
    3 * c.lead.length + (c.core pos (d + 1) (i + c.lead.length)).length + (toksList pos cs (d + 1) (i + c.lines)).length + 1 ≤ F →
    blockLoop F (2 * (d + 1)) (2 * (d + 1)) [] acc kp st = .ok (acc ++ nodeList pos (c :: cs) i,
      { st with rest := fl, prev := some (lastTokList pos cs (c.lastTok pos (i + c.lead.length)) (i + c.lines)),
                pos := st.pos + (3 * c.lead.length + (c.core pos (d + 1) (i + c.lead.length)).length + (toksList pos cs (d + 1) (i + c.lines)).length),
                warnings := (warnsList pos (c :: cs) kp i).reverse ++ st.warnings })

/-- the child loop at the start of a line (`lineIndent = 0`, nothing pending), children `cs` (each with its comment lines and
INDENTs) ahead. -/
def LoopOK (pos : Nat → CPos) (F : Nat) : Prop :=
  ∀ (cs : List CNode) (d i : Nat) (st : PState) (fl : List Token) (acc : List Node) (kp : KeyPos),
    st.rest = toksList pos cs (d + 1) i ++ fl →
    stopsL (2 * (d + 1)) fl = true →
    colsOkList pos cs (d + 1) i = true →
    (toksList pos cs (d + 1) i).length + 1 ≤ F →
    blockLoop F (2 * (d + 1)) 0 [] acc kp st = .ok (acc ++ nodeList pos cs i,
      { st with rest := fl, prev := prevAfterList pos st.prev cs i,
                pos := st.pos + (toksList pos cs (d + 1) i).length,
                warnings := (warnsList pos cs kp i).reverse ++ st.warnings })

theorem core_ne_nil (pos : Nat → CPos) (c : CNode) (d j : Nat) (r : List Token) : c.core pos d j ++ r ≠ [] := by
  cases c <;> simp [CNode.core]

theorem stopsL_ne_nil {ci : Nat} {fl : List Token} (h : stopsL ci fl = true) : fl ≠ [] := by
  intro h0; rw [h0] at h; simp [stopsL] at h

/-- an indented forest with a first node, regrouped: first INDENT, the rest of its comment lines, the node, the others. -/
theorem toksList_cons_succ (pos : Nat → CPos) (c : CNode) (cs : List CNode) (d i : Nat) (fl : List Token) :
    toksList pos (c :: cs) (d + 1) i ++ fl
      = indTok (d + 1) (pos i) :: (afterInd pos (d + 1) c.lead i
          ++ (c.core pos (d + 1) (i + c.lead.length) ++ (toksList pos cs (d + 1) (i + c.lines) ++ fl))) := by
  rw [toksList, List.append_assoc, List.append_assoc, List.append_assoc, lead_indent_eq]

theorem toksList_cons_succ_length (pos : Nat → CPos) (c : CNode) (cs : List CNode) (d i : Nat) :
    (toksList pos (c :: cs) (d + 1) i).length
      = 3 * c.lead.length + (c.core pos (d + 1) (i + c.lead.length)).length + (toksList pos cs (d + 1) (i + c.lines)).length + 1 := by
  have h := congrArg List.length (toksList_cons_succ pos c cs d i [])
  simp only [List.append_nil, List.length_cons, List.length_append, afterInd_length] at h
  omega

theorem loop_of (pos : Nat → CPos) (F : Nat) (ih : ∀ F' < F, ChildOK pos F') : LoopOK pos F := by
  intro cs d i st fl acc kp hr hs hc hF
  obtain ⟨rest, p, n, la, w, dp, wd, s, th, al⟩ := st
  simp only at hr
  subst hr
  obtain ⟨F', rfl⟩ : ∃ F', F = F' + 1 := ⟨F - 1, by omega⟩
  cases cs with
  | nil =>
    obtain ⟨e, r, rfl⟩ : ∃ e r, fl = e :: r := by
      cases fl with
      | nil => exact absurd rfl (stopsL_ne_nil hs)
      | cons e r => exact ⟨e, r, rfl⟩
    simp only [toksList, List.nil_append]
    rw [blockLoop_stopL (hci := by omega) (hs := hs)]
    simp only [nodeList, List.map_nil, List.append_nil, prevAfterList, List.length_nil, Nat.add_zero, warnsList, List.reverse_nil, List.nil_append]
  | cons c cs =>
    rw [toksList_cons_succ_length] at hF
    simp only [colsOkList, Bool.and_eq_true] at hc
    simp only [toksList_cons_succ, toksList_cons_succ_length]
    rw [blockLoop]
    step_simp [indTok, Nat.lt_irrefl]
    rw [advance_ne (h := afterInd_append_ne_nil pos (d + 1) c.lead i _ (core_ne_nil pos c (d + 1) _ _))]
    simp only []
    rw [ih F' (Nat.lt_succ_self _) c cs d i _ fl acc kp rfl hs hc.1 hc.2 (by omega)]
    simp only [prevAfterList]
    apply ok_pos_congr
    omega


/-- what follows a node at depth `d + 1` inside a block (a sibling's first INDENT, or what follows the forest) `stopsL`
the node's own depth. -/
theorem cont_head (pos : Nat → CPos) (cs : List CNode) (d i : Nat) (fl : List Token)
    (hs : stopsL (2 * (d + 1)) fl = true) : stopsL (2 * (d + 1) + 1) (toksList pos cs (d + 1) i ++ fl) = true := by
  cases cs with
  | nil => exact stopsL_mono (by omega) hs
  | cons c cs =>
    rw [toksList_cons_succ]
    simp [stopsL, indTok, indentVal]

theorem prevAfterList_some (pos : Nat → CPos) (t : Token) (cs : List CNode) (i : Nat) :
    prevAfterList pos (some t) cs i = some (lastTokList pos cs t i) := by
  cases cs <;> rfl

theorem child_of (pos : Nat → CPos) (F : Nat) (ihS : ∀ F' < F, SecOK pos F') (ihL : ∀ F' < F, LoopOK pos F') :
    ChildOK pos F := by
  intro c cs d i st fl acc kp hr hs hc hcs hF
  have hnlt : ¬ 2 * (d + 1) < 2 * (d + 1) := Nat.lt_irrefl _
  obtain ⟨rest, p, n, la, w, dp, wd, s, th, al⟩ := st
  simp only at hr
  subst hr
  obtain ⟨G, rfl⟩ : ∃ G, F = 3 * c.lead.length + G := ⟨F - 3 * c.lead.length, by omega⟩
  obtain ⟨p', hlead⟩ := blockLoop_lead pos d (c.core pos (d + 1) (i + c.lead.length) ++ (toksList pos cs (d + 1) (i + c.lines) ++ fl))
    (core_ne_nil pos c (d + 1) _ _) G acc kp la w dp wd s th al c.lead i [] p n
  rw [hlead, List.nil_append]
  have hfl := stopsL_ne_nil hs
  cases c with
  | line key v lead trail =>
    simp only [CNode.lead, CNode.lines] at hF hcs ⊢
    have hlen : ((CNode.line key v lead trail).core pos (d + 1) (i + lead.length)).length = 4 + trailLen trail := by
      cases trail <;> simp [CNode.core, trailToks, trailLen]
    rw [hlen] at hF ⊢
    obtain ⟨g, rfl⟩ : ∃ g, G = g + 5 := ⟨G - 5, by omega⟩
    simp only [CNode.core, List.cons_append, List.nil_append, List.append_assoc]
    rw [blockLoop]
    step_simp [keyTok, hnlt]
    have hsec := parseSection_cline
      { rest := keyTok key (pos (i + lead.length)) :: assignTok (pos (i + lead.length)) :: v.tok (pos (i + lead.length)).l (pos (i + lead.length)).c3
          :: (trailToks trail (pos (i + lead.length)) ++ nlTok (pos (i + lead.length)) :: (toksList pos cs (d + 1) (i + (lead.length + 1)) ++ fl)),
        prev := p', pos := n + 3 * lead.length, last := la, warnings := w, depth := dp, warned := wd, strict := s, threshold := th, alpha := al }
      key v lead trail (pos (i + lead.length)) (toksList pos cs (d + 1) (i + (lead.length + 1)) ++ fl) (g + 1) rfl
    simp only [keyTok] at hsec
    rw [hsec]
    step_simp [nodeAssignKey?, trackKey_eq]
    rw [blockLoop]
    step_simp [nlTok]
    rw [advance_ne (h := by simp [hfl])]
    simp only []
    rw [ihL (g + 3) (by omega) cs d (i + (lead.length + 1)) _ fl _ _ rfl hs hcs (by omega)]
    simp only [nodeList, CNode.node, CNode.lines, CNode.lead, CNode.lastTok, nlTok, warnsList, CNode.warns, trackNode,
      prevAfterList_some, List.append_assoc, List.cons_append, List.nil_append, List.reverse_append,
      trackPure_warns_reverse, lineWarns_reverse]
    apply ok_pos_congr
    omega
  | block key' cs' lead =>
    simp only [CNode.lead] at hF hc hcs ⊢
    have hs' := cont_head pos cs d (i + (CNode.block key' cs' lead).lines) fl hs
    obtain ⟨G', rfl⟩ : ∃ G', G = G' + 1 := ⟨G - 1, by omega⟩
    have hlen3 : 3 ≤ ((CNode.block key' cs' lead).core pos (d + 1) (i + lead.length)).length := by
      simp only [CNode.core, List.length_cons]; omega
    have hsec := ihS G' (by omega) key' cs' lead (d + 1) (i + lead.length)
      { rest := (CNode.block key' cs' lead).core pos (d + 1) (i + lead.length) ++ (toksList pos cs (d + 1) (i + (CNode.block key' cs' lead).lines) ++ fl),
        prev := p', pos := n + 3 * lead.length, last := la, warnings := w, depth := dp,
        warned := wd, strict := s, threshold := th, alpha := al } _ rfl hs' hc (by omega)
    rw [blockLoop]
    simp only [CNode.core, List.cons_append] at hsec ⊢
    step_simp [keyTok, hnlt]
    simp only [keyTok] at hsec
    rw [hsec]
    step_simp [CNode.node, nodeAssignKey?]
    rw [ihL G' (by omega) cs d (i + (CNode.block key' cs' lead).lines) _ fl _ _ rfl hs hcs (by omega)]
    simp only [nodeList, CNode.node, CNode.lead, CNode.lastTok, warnsList, CNode.warns, trackNode,
      prevAfterList_some, List.append_assoc, List.cons_append, List.nil_append, List.reverse_append]
    apply ok_pos_congr
    omega


/-- `preIndentComments` on a context that `stopsL`: it ends on a token that is no fence and, if an INDENT, not deeper. -/
theorem preIndentComments_stopsL (ci : Nat) (la : Token) (w : List Warning) (d : Nat) (wd : List Nat) (s : Bool) (th : Nat) (al : Char → Bool)
    (fl : List Token) (fuel : Nat) (p : Option Token) (n : Nat) (hs : stopsL ci fl = true) (hf : fl.length < fuel) :
    ∃ (acc' : List Str) (c0 : Token) (k' : List Token) (p' : Option Token) (n' : Nat),
      preIndentComments fuel [] { rest := fl, prev := p, pos := n, last := la, warnings := w, depth := d, warned := wd, strict := s, threshold := th, alpha := al }
        = .ok (acc', { rest := c0 :: k', prev := p', pos := n', last := la, warnings := w, depth := d, warned := wd, strict := s, threshold := th, alpha := al })
      ∧ c0.type ≠ TT.fenceOpen ∧ (c0.type = TT.indent → indentVal c0 < ci) := by
  cases fl with
  | nil => exact absurd rfl (stopsL_ne_nil hs)
  | cons e r =>
    simp only [stopsL, Bool.and_eq_true, Bool.or_eq_true, bne_iff_ne, ne_eq, decide_eq_true_eq] at hs
    obtain ⟨⟨⟨h1, h3⟩, h4⟩, h2⟩ := hs
    by_cases hc : e.type = TT.comment
    · have h6 : preOK ci (e :: r) = true := by
        rw [preOK]
        simp only [hc, beq_self_eq_true, Bool.true_or, if_true]
        rcases h2 with h | h
        · exact absurd hc h
        · exact h.2
      exact preIndentComments_preOK ci la w d wd s th al (e :: r) fuel [] p n h6 hf
    · obtain ⟨fuel', rfl⟩ : ∃ f, fuel = f + 1 := ⟨fuel - 1, by simp only [List.length_cons] at hf; omega⟩
      refine ⟨[], e, r, p, n, preIndentComments_stop (h1 := hc) (h2 := h1) .., h3, fun h0 => ?_⟩
      rcases h4 with h | h
      · exact absurd h0 h
      · exact h

/-- `advance` over a token followed by the (rest of the comment lines and the) tokens of a node. -/
theorem advance_afterInd (pos : Nat → CPos) (c : CNode) (d' i' j' : Nat) (X : List Token) (t : Token) (p : Option Token) (n : Nat) (la : Token)
    (w : List Warning) (d : Nat) (wd : List Nat) (s : Bool) (th : Nat) (al : Char → Bool) :
    advance { rest := t :: (afterInd pos d' c.lead i' ++ (c.core pos d' j' ++ X)), prev := p, pos := n, last := la, warnings := w, depth := d, warned := wd, strict := s, threshold := th, alpha := al }
      = .ok (t, { rest := afterInd pos d' c.lead i' ++ (c.core pos d' j' ++ X), prev := some t, pos := n + 1, last := la, warnings := w, depth := d, warned := wd, strict := s, threshold := th, alpha := al }) :=
  advance_ne (h := afterInd_append_ne_nil pos d' c.lead i' _ (core_ne_nil pos c d' j' X)) ..

theorem sec_of (pos : Nat → CPos) (F : Nat) (ih : ∀ F' < F, ChildOK pos F') : SecOK pos F := by
  intro key cs lead d j st fl hr hs hc hF
  obtain ⟨rest, p, n, la, w, dp, wd, s, th, al⟩ := st
  simp only at hr
  subst hr
  cases cs with
  | nil =>
    simp only [CNode.colsOk, List.isEmpty_nil, if_true, colsOkList, Bool.and_true, decide_eq_true_eq] at hc
    simp only [CNode.core, toksList, List.cons_append, List.nil_append, List.length_cons, List.length_nil] at hF ⊢
    obtain ⟨F', rfl⟩ : ∃ F', F = F' + 1 := ⟨F - 1, by omega⟩
    obtain ⟨e, r, rfl⟩ : ∃ e r, fl = e :: r := by
      cases fl with
      | nil => exact absurd rfl (stopsL_ne_nil hs)
      | cons e r => exact ⟨e, r, rfl⟩
    obtain ⟨acc', c0, k', p', n', hpre, hfc, hic⟩ := preIndentComments_stopsL (2 * d + 1) la w dp wd s th al (e :: r)
      ((e :: r).length + 2) (some (nlTok (pos j))) (n + 1 + 1 + 1) hs (by omega)
    simp only [stopsL, Bool.and_eq_true, Bool.or_eq_true, bne_iff_ne, ne_eq, decide_eq_true_eq] at hs
    obtain ⟨⟨⟨h1, h3⟩, h4⟩, h2⟩ := hs
    rw [parseSection]
    step_simp [keyTok, blockTok, nlTok, pyStrVal_str]
    rw [skipWhitespace_false_nl (h := rfl) (h1 := h1)]
    step_simp []
    simp only [nlTok, List.length_cons] at hpre
    rw [hpre]
    step_simp []
    have hfin : n + 1 + 1 + 1 = n + (0 + 1 + 1 + 1) := by omega
    by_cases hi : c0.type = TT.indent
    · have h5 := hic hi
      cases hv : c0.value with
      | nat m =>
        simp only [indentVal, hv] at h5
        have h6 : ¬ (m > (pos j).c1 - 1) := by omega
        step_simp [hi, hfc, h3, h6, set_mk, decide_false, eq_self, Option.isSome_none]
        simp only [CNode.node, nodeList, CNode.lastTok, lastTokList, CNode.warns, warnsList, List.reverse_nil, List.nil_append, nlTok, hfin]
      | _ =>
        step_simp [hi, hfc, h3, set_mk, decide_false, eq_self, Option.isSome_none, gt_iff_lt, Nat.not_lt_zero]
        simp only [CNode.node, nodeList, CNode.lastTok, lastTokList, CNode.warns, warnsList, List.reverse_nil, List.nil_append, nlTok, hfin]
    · have hib : (c0.type == TT.indent) = false := by simp [hi]
      step_simp [hi, hib, hfc, h3, set_mk, decide_false, eq_self, Option.isSome_none]
      simp only [CNode.node, nodeList, CNode.lastTok, lastTokList, CNode.warns, warnsList, List.reverse_nil, List.nil_append, nlTok, hfin]
  | cons c cs =>
    simp only [CNode.colsOk, List.isEmpty_cons, Bool.false_eq_true, if_false, colsOkList, Bool.and_eq_true, decide_eq_true_eq] at hc
    obtain ⟨hc1, hc2, hc3⟩ := hc
    simp only [CNode.core, List.cons_append, List.length_cons, toksList_cons_succ, toksList_cons_succ_length] at hF ⊢
    obtain ⟨F', rfl⟩ : ∃ F', F = F' + 1 := ⟨F - 1, by omega⟩
    rw [parseSection]
    step_simp [keyTok, blockTok, nlTok, pyStrVal_str]
    rw [skipWhitespace_newline (h := rfl) (h1 := by simp [indTok]) (h2 := by simp [indTok])]
    step_simp []
    rw [preIndentComments_stop (h1 := by simp [indTok]) (h2 := by simp [indTok])]
    have h6 : 2 * (d + 1) > (pos j).c1 - 1 := hc1
    step_simp [indTok, h6, decide_true, Option.isSome_none, advance_afterInd]
    rw [ih F' (Nat.lt_succ_self _) c cs d (j + 1) _ fl [] [] rfl
      (stopsL_mono (by omega) hs) hc2 hc3 (by omega)]
    simp only [CNode.node, nodeList, CNode.lastTok, lastTokList, CNode.warns, warnsList, List.nil_append]
    apply ok_pos_congr
    omega

/-- all three statements hold for every fuel (strong induction on the fuel). -/
theorem all_ok (pos : Nat → CPos) (F : Nat) : SecOK pos F ∧ ChildOK pos F ∧ LoopOK pos F := by
  induction F using Nat.strongRecOn with
  | _ F ih =>
    have hC : ∀ F' < F, ChildOK pos F' := fun F' h => (ih F' h).2.1
    exact ⟨sec_of pos F hC, child_of pos F (fun F' h => (ih F' h).1) (fun F' h => (ih F' h).2.2), loop_of pos F hC⟩

/-- **`parse_section` on a block with comments** (any depth `d`, any children, any comments below it), called with the
block's own leading comments `lead`, followed by a context `fl` that `stopsL` the block's depth, with fuel at least the
number of the block's tokens: the Block node with exactly the children, every comment at its node; cursor at `fl`. -/
theorem parseSection_cblock (pos : Nat → CPos) (key : Str) (cs : List CNode) (lead : List Str) (d j : Nat) (st : PState)
    (fl : List Token) (F : Nat) (hr : st.rest = (CNode.block key cs lead).core pos d j ++ fl) (hs : stopsL (2 * d + 1) fl = true)
    (hc : (CNode.block key cs lead).colsOk pos d j = true) (hF : ((CNode.block key cs lead).core pos d j).length ≤ F) :
    parseSection F lead st = .ok (some ((CNode.block key cs lead).node pos j),
      { st with rest := fl, prev := some ((CNode.block key cs lead).lastTok pos j),
                pos := st.pos + ((CNode.block key cs lead).core pos d j).length,
                warnings := ((CNode.block key cs lead).warns pos j).reverse ++ st.warnings }) :=
  (all_ok pos F).1 key cs lead d j st fl hr hs hc hF

/-- **the child loop of a block** from the start of a line, on any forest of children (with comments) at depth `d + 1`. -/
theorem blockLoop_cforest (pos : Nat → CPos) (cs : List CNode) (d i : Nat) (st : PState) (fl : List Token)
    (acc : List Node) (kp : KeyPos) (F : Nat)
    (hr : st.rest = toksList pos cs (d + 1) i ++ fl) (hs : stopsL (2 * (d + 1)) fl = true)
    (hc : colsOkList pos cs (d + 1) i = true) (hF : (toksList pos cs (d + 1) i).length + 1 ≤ F) :
    blockLoop F (2 * (d + 1)) 0 [] acc kp st = .ok (acc ++ nodeList pos cs i,
      { st with rest := fl, prev := prevAfterList pos st.prev cs i,
                pos := st.pos + (toksList pos cs (d + 1) i).length,
                warnings := (warnsList pos cs kp i).reverse ++ st.warnings }) :=
  (all_ok pos F).2.2 cs d i st fl acc kp hr hs hc hF

/-! ## The body loop of `parseDocument`: comments at depth 0 -/

theorem leadToks0_length (pos : Nat → CPos) : ∀ (lead : List Str) (i : Nat), (leadToks pos 0 lead i).length = 2 * lead.length
  | [], _ => rfl
  | _ :: r, i => by simp only [leadToks, indToks, List.nil_append, List.length_cons, leadToks0_length pos r (i + 1)]; omega

theorem leadToks0_append_ne_nil (pos : Nat → CPos) (lead : List Str) (i : Nat) (X : List Token) (hX : X ≠ []) :
    leadToks pos 0 lead i ++ X ≠ [] := by
  cases lead with
  | nil => exact hX
  | cons s r => simp [leadToks, indToks]

/-- the body loop on unindented comment lines: the texts are appended to `pending`, in order. -/
theorem docLoop_lead (pos : Nat → CPos) (vf : Nat) (X : List Token) (hX : X ≠ []) (G : Nat) (acc : List Node) (kp : KeyPos)
    (la : Token) (w : List Warning) (dp : Nat) (wd : List Nat) (s : Bool) (th : Nat) (al : Char → Bool) :
    ∀ (lead : List Str) (i : Nat) (pd : List Str) (p : Option Token) (n : Nat), ∃ p' : Option Token,
    docLoop vf (2 * lead.length + G) pd acc kp
        { rest := leadToks pos 0 lead i ++ X, prev := p, pos := n, last := la, warnings := w, depth := dp, warned := wd, strict := s, threshold := th, alpha := al }
      = docLoop vf G (pd ++ lead) acc kp
        { rest := X, prev := p', pos := n + 2 * lead.length, last := la, warnings := w, depth := dp, warned := wd, strict := s, threshold := th, alpha := al }
  | [], i, pd, p, n => ⟨p, by simp only [leadToks, List.length_nil, Nat.mul_zero, Nat.zero_add, Nat.add_zero, List.nil_append, List.append_nil]⟩
  | c :: r, i, pd, p, n => by
    obtain ⟨p', ih⟩ := docLoop_lead pos vf X hX G acc kp la w dp wd s th al r (i + 1) (pd ++ [c]) (some (nlTok (pos i))) (n + 1 + 1)
    refine ⟨p', ?_⟩
    have hf : 2 * (c :: r).length + G = (2 * r.length + G) + 1 + 1 := by simp only [List.length_cons]; omega
    rw [hf]
    simp only [leadToks, indToks, List.nil_append, List.cons_append]
    rw [docLoop]
    step_simp [cmtTok, pyStrVal_str]
    rw [docLoop]
    step_simp [nlTok]
    rw [advance_ne (h := leadToks0_append_ne_nil pos r (i + 1) X hX)]
    simp only []
    simp only [nlTok] at ih
    rw [ih]
    have hp : n + 1 + 1 + 2 * r.length = n + 2 * (c :: r).length := by simp only [List.length_cons]; omega
    rw [hp, List.append_assoc, List.singleton_append]
    rfl

theorem cmtRun_lead0 (pos : Nat → CPos) (x : Token) (X : List Token)
    (h1 : x.type ≠ TT.comment) (h2 : x.type ≠ TT.newline) (h3 : x.type ≠ TT.indent) (h4 : x.type ≠ TT.fenceOpen) :
    ∀ (lead : List Str) (i : Nat), cmtRun (leadToks pos 0 lead i ++ x :: X) = true
  | [], _ => by simp [leadToks, cmtRun, h1, h2, h3, h4]
  | s :: r, i => by
    have := cmtRun_lead0 pos x X h1 h2 h3 h4 r (i + 1)
    simp only [leadToks, indToks, List.nil_append, List.cons_append]
    rw [cmtRun]
    simp only [cmtTok, beq_self_eq_true, Bool.true_or, if_true]
    rw [cmtRun]
    simp only [nlTok, beq_self_eq_true, Bool.or_true, if_true]
    exact this

/-- unindented comment lines followed by the first token of an unindented line: `stopsL` every (positive) indentation. -/
theorem stopsL_lead0 (pos : Nat → CPos) (ci : Nat) (hci : 0 < ci) (x : Token) (X : List Token)
    (h1 : x.type ≠ TT.comment) (h2 : x.type ≠ TT.newline) (h3 : x.type ≠ TT.indent) (h4 : x.type ≠ TT.fenceOpen)
    (lead : List Str) (i : Nat) : stopsL ci (leadToks pos 0 lead i ++ x :: X) = true := by
  cases lead with
  | nil => simp [leadToks, stopsL, h1, h2, h3, h4]
  | cons s r =>
    have := cmtRun_lead0 pos x X h1 h2 h3 h4 r (i + 1)
    simp only [leadToks, indToks, List.nil_append, List.cons_append]
    apply stopsL_cmt ci hci _ _ rfl
    rw [cmtRun]
    simp only [nlTok, beq_self_eq_true, Bool.or_true, if_true]
    exact this

/-- an unindented forest with a first node, regrouped. -/
theorem toksList_cons_zero (pos : Nat → CPos) (c : CNode) (cs : List CNode) (i : Nat) (fl : List Token) :
    toksList pos (c :: cs) 0 i ++ fl
      = leadToks pos 0 c.lead i ++ (c.core pos 0 (i + c.lead.length) ++ (toksList pos cs 0 (i + c.lines) ++ fl)) := by
  rw [toksList]
  simp only [indToks, List.nil_append, List.append_assoc]

theorem toksList_cons_zero_length (pos : Nat → CPos) (c : CNode) (cs : List CNode) (i : Nat) :
    (toksList pos (c :: cs) 0 i).length
      = 2 * c.lead.length + (c.core pos 0 (i + c.lead.length)).length + (toksList pos cs 0 (i + c.lines)).length := by
  have h := congrArg List.length (toksList_cons_zero pos c cs i [])
  simp only [List.append_nil, List.length_append, leadToks0_length] at h
  omega

/-- the core of a node starts with its key, an IDENTIFIER token. -/
theorem core_head (pos : Nat → CPos) (c : CNode) (d j : Nat) (X : List Token) :
    ∃ K, c.core pos d j ++ X = keyTok c.key (pos j) :: K := by
  cases c with
  | line key v lead trail => exact ⟨_, rfl⟩
  | block key cs lead => exact ⟨_, rfl⟩

/-- what follows a top-level node (the next top-level node with its comment lines, or the document's trailing comment
lines and `===END===` / EOF) `stopsL` every indentation. -/
theorem cont_head0 (pos : Nat → CPos) (ci : Nat) (hci : 0 < ci) (cs : List CNode) (i : Nat) (trailing : List Str) (i' : Nat) (e : Token) (tail : List Token)
    (he : e.type = .envelopeEnd ∨ e.type = .eof) :
    stopsL ci (toksList pos cs 0 i ++ (leadToks pos 0 trailing i' ++ e :: tail)) = true := by
  cases cs with
  | nil =>
    simp only [toksList, List.nil_append]
    apply stopsL_lead0 (hci := hci) <;> rcases he with h | h <;> simp [h]
  | cons c cs =>
    rw [toksList_cons_zero]
    obtain ⟨K, hK⟩ := core_head pos c 0 (i + c.lead.length) (toksList pos cs 0 (i + c.lines) ++ (leadToks pos 0 trailing i' ++ e :: tail))
    rw [hK]
    apply stopsL_lead0 (hci := hci) <;> simp [keyTok]

/-- **the body loop of `parse_document`** on a forest with comments, followed by the document's trailing comment lines and
`===END===` (or EOF): the nodes, and the trailing comments returned as `pending`. -/
theorem docLoop_ctree (pos : Nat → CPos) (vf : Nat) (trailing : List Str) (e : Token) (tail : List Token)
    (he : e.type = .envelopeEnd ∨ e.type = .eof) :
    ∀ (nodes : List CNode) (i : Nat) (st : PState) (acc : List Node) (kp : KeyPos) (fuel : Nat),
    st.rest = toksList pos nodes 0 i ++ (leadToks pos 0 trailing (i + linesList nodes) ++ e :: tail) →
    colsOkList pos nodes 0 i = true →
    (toksList pos nodes 0 i).length + 3 ≤ vf →
    (toksList pos nodes 0 i).length + 2 * trailing.length + 1 ≤ fuel →
    ∃ p' : Option Token, docLoop vf fuel [] acc kp st
      = .ok ((acc ++ nodeList pos nodes i, trailing),
             { st with rest := e :: tail, prev := p',
                       pos := st.pos + ((toksList pos nodes 0 i).length + 2 * trailing.length),
                       warnings := (warnsList pos nodes kp i).reverse ++ st.warnings })
  | [], i, st, acc, kp, fuel, hr, _, _, hfuel => by
    obtain ⟨rest, p, n, la, w, dp, wd, s, th, al⟩ := st
    simp only [toksList, List.nil_append, linesList, Nat.add_zero] at hr
    subst hr
    simp only [toksList, List.length_nil, Nat.zero_add] at hfuel ⊢
    obtain ⟨G, rfl⟩ : ∃ G, fuel = 2 * trailing.length + (G + 1) := ⟨fuel - 2 * trailing.length - 1, by omega⟩
    obtain ⟨p', h⟩ := docLoop_lead pos vf (e :: tail) (by simp) (G + 1) acc kp la w dp wd s th al trailing i [] p n
    refine ⟨p', ?_⟩
    rw [h, docLoop]
    step_simp [he]
    simp only [nodeList, List.append_nil, List.nil_append, warnsList, List.reverse_nil]
  | c :: r, i, st, acc, kp, fuel, hr, hc, hvf, hfuel => by
    obtain ⟨rest, p, n, la, w, dp, wd, s, th, al⟩ := st
    simp only at hr
    subst hr
    simp only [colsOkList, Bool.and_eq_true] at hc
    rw [toksList_cons_zero_length] at hvf hfuel
    have hlines : i + linesList (c :: r) = i + c.lines + linesList r := by simp only [linesList]; omega
    rw [hlines]
    obtain ⟨G, rfl⟩ : ∃ G, fuel = 2 * c.lead.length + (G + 1) := ⟨fuel - 2 * c.lead.length - 1, by omega⟩
    obtain ⟨p1, hl⟩ := docLoop_lead pos vf
      (c.core pos 0 (i + c.lead.length) ++ (toksList pos r 0 (i + c.lines) ++ (leadToks pos 0 trailing (i + c.lines + linesList r) ++ e :: tail)))
      (core_ne_nil pos c 0 _ _) (G + 1) acc kp la w dp wd s th al c.lead i [] p n
    rw [toksList_cons_zero, hl, List.nil_append]
    have hfl : toksList pos r 0 (i + c.lines) ++ (leadToks pos 0 trailing (i + c.lines + linesList r) ++ e :: tail) ≠ [] := by
      simp
    cases c with
    | line key v lead trail =>
      simp only [CNode.lead, CNode.lines] at hvf hfuel hc hfl ⊢
      have hlen : ((CNode.line key v lead trail).core pos 0 (i + lead.length)).length = 4 + trailLen trail := by
        cases trail <;> simp [CNode.core, trailToks, trailLen]
      rw [hlen] at hvf hfuel
      obtain ⟨vf0, rfl⟩ : ∃ vf0, vf = vf0 + 3 := ⟨vf - 3, by omega⟩
      obtain ⟨G', rfl⟩ : ∃ G', G = G' + 1 := ⟨G - 1, by omega⟩
      obtain ⟨p2, ih⟩ := docLoop_ctree pos (vf0 + 3) trailing e tail he r (i + (lead.length + 1))
        { rest := toksList pos r 0 (i + (lead.length + 1)) ++ (leadToks pos 0 trailing (i + (lead.length + 1) + linesList r) ++ e :: tail),
          prev := some (nlTok (pos (i + lead.length))), pos := n + 2 * lead.length + 3 + trailLen trail + 1, last := la,
          warnings := (trackPure kp key (pos (i + lead.length)).l).2 ++ (lineWarns key v (pos (i + lead.length)) ++ w),
          depth := dp, warned := wd, strict := s, threshold := th, alpha := al }
        (acc ++ [Node.assign key v.val (pos (i + lead.length)).l (pos (i + lead.length)).c1 lead trail])
        (trackPure kp key (pos (i + lead.length)).l).1 G' rfl hc.2 (by omega) (by omega)
      refine ⟨p2, ?_⟩
      simp only [CNode.core, List.cons_append, List.nil_append, List.append_assoc]
      rw [docLoop]
      step_simp [keyTok]
      have hsec := parseSection_cline
        { rest := keyTok key (pos (i + lead.length)) :: assignTok (pos (i + lead.length)) :: v.tok (pos (i + lead.length)).l (pos (i + lead.length)).c3
            :: (trailToks trail (pos (i + lead.length)) ++ nlTok (pos (i + lead.length)) ::
                (toksList pos r 0 (i + (lead.length + 1)) ++ (leadToks pos 0 trailing (i + (lead.length + 1) + linesList r) ++ e :: tail))),
          prev := p1, pos := n + 2 * lead.length, last := la, warnings := w, depth := dp, warned := wd, strict := s, threshold := th, alpha := al }
        key v lead trail (pos (i + lead.length)) _ vf0 rfl
      simp only [keyTok] at hsec
      rw [hsec]
      step_simp [nodeAssignKey?, trackKey_eq]
      rw [docLoop]
      step_simp [nlTok]
      rw [advance_ne (h := hfl)]
      simp only []
      simp only [nlTok] at ih
      rw [ih]
      simp only [nodeList, CNode.node, CNode.lines, CNode.lead, warnsList, CNode.warns, trackNode,
        List.append_assoc, List.cons_append, List.nil_append, List.reverse_append,
        trackPure_warns_reverse, lineWarns_reverse, toksList_cons_zero_length, hlen]
      apply ok_pos_congr
      omega
    | block key cs lead =>
      simp only [CNode.lead] at hvf hfuel hc ⊢
      have hs' := cont_head0 pos 1 (by omega) r (i + (CNode.block key cs lead).lines) trailing (i + (CNode.block key cs lead).lines + linesList r) e tail he
      have hlen3 : 3 ≤ ((CNode.block key cs lead).core pos 0 (i + lead.length)).length := by
        simp only [CNode.core, List.length_cons]; omega
      have hsec := parseSection_cblock pos key cs lead 0 (i + lead.length)
        { rest := (CNode.block key cs lead).core pos 0 (i + lead.length) ++ (toksList pos r 0 (i + (CNode.block key cs lead).lines)
            ++ (leadToks pos 0 trailing (i + (CNode.block key cs lead).lines + linesList r) ++ e :: tail)),
          prev := p1, pos := n + 2 * lead.length, last := la, warnings := w, depth := dp,
          warned := wd, strict := s, threshold := th, alpha := al } _ vf rfl hs' hc.1 (by omega)
      obtain ⟨p2, ih⟩ := docLoop_ctree pos vf trailing e tail he r (i + (CNode.block key cs lead).lines)
        { rest := toksList pos r 0 (i + (CNode.block key cs lead).lines) ++ (leadToks pos 0 trailing (i + (CNode.block key cs lead).lines + linesList r) ++ e :: tail),
          prev := some ((CNode.block key cs lead).lastTok pos (i + lead.length)),
          pos := n + 2 * lead.length + ((CNode.block key cs lead).core pos 0 (i + lead.length)).length, last := la,
          warnings := ((CNode.block key cs lead).warns pos (i + lead.length)).reverse ++ w,
          depth := dp, warned := wd, strict := s, threshold := th, alpha := al }
        (acc ++ [(CNode.block key cs lead).node pos (i + lead.length)]) kp G rfl hc.2 (by omega) (by omega)
      refine ⟨p2, ?_⟩
      rw [docLoop]
      simp only [CNode.core, List.cons_append] at hsec ⊢
      step_simp [keyTok]
      simp only [keyTok] at hsec
      rw [hsec]
      step_simp [CNode.node, nodeAssignKey?]
      simp only [CNode.core, CNode.node, List.length_cons] at ih
      rw [ih]
      simp only [nodeList, CNode.node, CNode.lead, CNode.core, warnsList, CNode.warns, trackNode, toksList_cons_zero_length,
        List.append_assoc, List.cons_append, List.nil_append, List.reverse_append, List.length_cons]
      apply ok_pos_congr
      omega


/-! ## `parseDocument` on a whole document with comments -/

/-- the token list of a document with comments: envelope line, the forest at depth 0 (body lines numbered from 0, comment
lines included), the document's trailing comment lines, `===END===`. -/
def cTreeToks (f : Frame) (name : Str) (pos : Nat → CPos) (nodes : List CNode) (trailing : List Str) : List Token :=
  f.envTok name :: f.nl0Tok ::
    (toksList pos nodes 0 0 ++ (leadToks pos 0 trailing (linesList nodes) ++ [f.endTok, f.nl1Tok, f.eofTok]))

/-- the document it denotes (all other fields at their defaults). -/
def cTreeDoc (name : Str) (pos : Nat → CPos) (nodes : List CNode) (trailing : List Str) : Document :=
  { name := name, sections := nodeList pos nodes 0, trailingComments := trailing }

/-- the first top-level key is `META` AND no comment line precedes it (then `parse_document` reads a META block, not a
section; a comment in front hides the `META` from that test). -/
def metaFirstC : List CNode → Bool
  | c :: _ => c.lead.isEmpty && c.key == "META".toList
  | [] => false

/-- what follows the envelope line: a comment, the first key (not `META`), or `===END===`. -/
theorem cbody_head (f : Frame) (pos : Nat → CPos) (nodes : List CNode) (trailing : List Str) (hm : metaFirstC nodes = false) :
    ∃ u K, toksList pos nodes 0 0 ++ (leadToks pos 0 trailing (linesList nodes) ++ [f.endTok, f.nl1Tok, f.eofTok]) = u :: K ∧
      u.type ≠ TT.newline ∧ u.type ≠ TT.separator ∧ u.type ≠ TT.grammarSentinel ∧
      u.type ≠ TT.envelopeStart ∧ ¬(u.type = TT.identifier ∧ u.value = TVal.str "META".toList) := by
  cases nodes with
  | nil =>
    cases trailing with
    | nil => exact ⟨f.endTok, _, rfl, by simp [Frame.endTok], by simp [Frame.endTok], by simp [Frame.endTok], by simp [Frame.endTok], fun h => by cases h.1⟩
    | cons s t => exact ⟨cmtTok s _ _, _, rfl, by simp [cmtTok], by simp [cmtTok], by simp [cmtTok], by simp [cmtTok], fun h => by cases h.1⟩
  | cons c r =>
    rw [toksList_cons_zero]
    cases hl : c.lead with
    | nil =>
      obtain ⟨K, hK⟩ := core_head pos c 0 (0 + ([] : List Str).length) (toksList pos r 0 (0 + c.lines) ++ (leadToks pos 0 trailing (linesList (c :: r)) ++ [f.endTok, f.nl1Tok, f.eofTok]))
      refine ⟨keyTok c.key (pos (0 + ([] : List Str).length)), K, by rw [← hK]; rfl, by simp [keyTok], by simp [keyTok], by simp [keyTok], by simp [keyTok], fun h => ?_⟩
      have := h.2
      simp only [keyTok, TVal.str.injEq] at this
      simp only [metaFirstC, hl, List.isEmpty_nil, Bool.true_and, beq_eq_false_iff_ne, ne_eq] at hm
      exact hm this
    | cons s t => exact ⟨cmtTok s _ _, _, rfl, by simp [cmtTok], by simp [cmtTok], by simp [cmtTok], by simp [cmtTok], fun h => by cases h.1⟩

/-- **`parse_document` on a whole document with comments**, with the parser's own fuel (`2·(tokens+2)+10`): exactly
`cTreeDoc` (every comment at its node, the document's trailing comments in `trailingComments`), the cursor after
`===END===`, exactly the warnings `warnsList`. -/
theorem parseDocument_ctree (f : Frame) (name : Str) (pos : Nat → CPos) (nodes : List CNode) (trailing : List Str) (st : PState)
    (hm : metaFirstC nodes = false) (hc : colsOkList pos nodes 0 0 = true) (hr : st.rest = cTreeToks f name pos nodes trailing) :
    parseDocument st
      = .ok (cTreeDoc name pos nodes trailing,
             { st with rest := [f.nl1Tok, f.eofTok], prev := some f.endTok,
                       pos := st.pos + ((toksList pos nodes 0 0).length + 2 * trailing.length) + 3,
                       warnings := (warnsList pos nodes [] 0).reverse ++ st.warnings }) := by
  obtain ⟨u, K, hK, h1, h3, h4, h5, h6⟩ := cbody_head f pos nodes trailing hm
  have hlen : (toksList pos nodes 0 0).length + 2 * trailing.length + 2 = K.length := by
    have := congrArg List.length hK
    simp only [List.length_append, List.length_cons, List.length_nil, leadToks0_length] at this
    omega
  obtain ⟨rest, p, n0, la, w, dp, wd, s, th, al⟩ := st
  simp only at hr
  subst hr
  rw [cTreeToks, hK]
  unfold parseDocument
  simp (config := {zeta := false}) only [bind, StateT.bind, Except.bind, budget_mk]
  extract_lets n doc0 jp5 jp4 jp3 jp2 jp1
  obtain ⟨p', hdoc⟩ := docLoop_ctree pos n trailing f.endTok [f.nl1Tok, f.eofTok] (Or.inl rfl) nodes 0
    { rest := u :: K, prev := some f.nl0Tok, pos := n0 + 1 + 1, last := la, warnings := w, depth := dp, warned := wd, strict := s, threshold := th, alpha := al }
    [] [] (2 * n) (by simp only [Nat.zero_add]; exact hK.symm) hc
    (by simp only [n, List.length_cons]; omega) (by simp only [n, List.length_cons]; omega)
  step_simp [Frame.envTok, Frame.nl0Tok, skipWhitespace_stop]
  simp only [jp1]
  step_simp []
  simp only [jp2]
  step_simp [skipWhitespace_false_nl, pyStrVal_str, h1]
  simp only [jp3]
  step_simp [h6]
  simp only [jp4]
  step_simp [h3]
  simp only [jp5]
  step_simp []
  simp only [Frame.nl0Tok] at hdoc
  rw [hdoc]
  step_simp [Frame.endTok]
  simp only [cTreeDoc, List.nil_append]
  apply ok_pos_congr
  omega

/-! ## Orphan comments: comment lines at the children's indentation after the last child -/

/-- the child loop at the start of a line on comment lines indented like the children (`INDENT(2·(d+1)) COMMENT NEWLINE`
each) followed by a context that `stopsL`: no child follows, so the comments (those already pending and these) become
`Comment` children of the block, in order.  In canonical text this shape only arises from `Comment` nodes at the end of a
block: the leading comments of a following sibling of the BLOCK are written at the block's own (smaller) indentation. -/
theorem blockLoop_orphans (pos : Nat → CPos) (d : Nat) (fl : List Token) (hs : stopsL (2 * (d + 1)) fl = true)
    (G : Nat) (kp : KeyPos) (la : Token) (w : List Warning) (dp : Nat) (wd : List Nat) (s : Bool) (th : Nat) (al : Char → Bool) :
    ∀ (orph : List Str) (i : Nat) (pd : List Str) (acc : List Node) (p : Option Token) (n : Nat), ∃ p' : Option Token,
    blockLoop (3 * orph.length + G + 1) (2 * (d + 1)) 0 pd acc kp
        { rest := leadToks pos (d + 1) orph i ++ fl, prev := p, pos := n, last := la, warnings := w, depth := dp, warned := wd, strict := s, threshold := th, alpha := al }
      = .ok (acc ++ (pd ++ orph).map Node.comment,
        { rest := fl, prev := p', pos := n + 3 * orph.length, last := la, warnings := w, depth := dp, warned := wd, strict := s, threshold := th, alpha := al })
  | [], i, pd, acc, p, n => by
    obtain ⟨e, r, rfl⟩ : ∃ e r, fl = e :: r := by
      cases fl with
      | nil => exact absurd rfl (stopsL_ne_nil hs)
      | cons e r => exact ⟨e, r, rfl⟩
    refine ⟨p, ?_⟩
    simp only [leadToks, List.nil_append, List.length_nil, Nat.mul_zero, Nat.zero_add, Nat.add_zero, List.append_nil]
    exact blockLoop_stopL G (2 * (d + 1)) (by omega) pd acc kp e r p n la w dp wd s th al hs
  | c :: r, i, pd, acc, p, n => by
    obtain ⟨p', ih⟩ := blockLoop_orphans pos d fl hs G kp la w dp wd s th al r (i + 1) (pd ++ [c]) acc (some (nlTok (pos i))) (n + 1 + 1 + 1)
    refine ⟨p', ?_⟩
    have hne : leadToks pos (d + 1) r (i + 1) ++ fl ≠ [] := by
      cases r with
      | nil => simpa [leadToks] using stopsL_ne_nil hs
      | cons s t => simp [leadToks, indToks]
    have hf : 3 * (c :: r).length + G + 1 = (3 * r.length + G + 1) + 1 + 1 + 1 := by simp only [List.length_cons]; omega
    rw [hf]
    simp only [leadToks, indToks, List.cons_append, List.nil_append]
    rw [blockLoop]
    step_simp [indTok, Nat.lt_irrefl]
    rw [blockLoop]
    step_simp [cmtTok, commentBelongsOuter_ge _ _ (Nat.le_refl _), pyStrVal_str]
    rw [blockLoop]
    step_simp [nlTok]
    rw [advance_ne (h := hne)]
    simp only []
    simp only [nlTok] at ih
    rw [ih]
    have hp : n + 1 + 1 + 1 + 3 * r.length = n + 3 * (c :: r).length := by simp only [List.length_cons]; omega
    rw [hp, List.append_assoc, List.singleton_append]
    rfl


/-! ## When the reader is silent -/

/-- keys of the Assignment children of a forest (the keys the duplicate-key check of that level sees). -/
def lineKeys : List CNode → List Str
  | [] => []
  | .line key _ _ _ :: cs => key :: lineKeys cs
  | .block _ _ _ :: cs => lineKeys cs

mutual
/-- no warning arises below the node: no bare word under `PATTERN`/`REGEX`, no Assignment key repeated within one block
(comments never warn). -/
def CNode.quiet : CNode → Bool
  | .line key v _ _ => !(v.isWord && (key == "PATTERN".toList || key == "REGEX".toList))
  | .block _ cs _ => quietList cs && decide (lineKeys cs).Nodup
def quietList : List CNode → Bool
  | [] => true
  | c :: cs => c.quiet && quietList cs
end

mutual
theorem warns_eq_nil (pos : Nat → CPos) : ∀ (c : CNode) (j : Nat), c.quiet = true → c.warns pos j = []
  | .line key v _ _, j, h => by
    simp only [CNode.warns, lineWarns]
    exact (Line.warns_eq_nil_iff _).2 (by simpa [Line.plain, CNode.quiet] using h)
  | .block _ cs _, j, h => by
    simp only [CNode.quiet, Bool.and_eq_true, decide_eq_true_eq] at h
    simp only [CNode.warns]
    exact warnsList_eq_nil pos cs [] (j + 1) h.1 h.2 (fun _ _ => rfl)
theorem warnsList_eq_nil (pos : Nat → CPos) : ∀ (cs : List CNode) (kp : KeyPos) (i : Nat), quietList cs = true →
    (lineKeys cs).Nodup → (∀ key ∈ lineKeys cs, kp.lookup key = none) → warnsList pos cs kp i = []
  | [], _, _, _, _, _ => rfl
  | .line key v lead trail :: cs, kp, i, hq, hnd, hkp => by
    simp only [quietList, Bool.and_eq_true] at hq
    simp only [lineKeys, List.nodup_cons] at hnd
    have h0 : kp.lookup key = none := hkp key (by simp [lineKeys])
    have htp : ∀ l, trackPure kp key l = (kp ++ [(key, [l])], []) := by
      intro l; unfold trackPure; rw [h0]
    simp only [warnsList, trackNode, htp, warns_eq_nil pos _ _ hq.1, List.nil_append]
    apply warnsList_eq_nil pos cs _ _ hq.2 hnd.2
    intro x hx
    apply lookup_append_none _ _ _ (hkp x (by simp [lineKeys, hx]))
    have hne : x ≠ key := fun h => hnd.1 (h ▸ hx)
    simp only [List.lookup_cons, List.lookup_nil]
    rw [beq_eq_false_iff_ne.2 hne]
  | .block key cs' lead :: cs, kp, i, hq, hnd, hkp => by
    simp only [quietList, Bool.and_eq_true] at hq
    simp only [lineKeys] at hnd hkp
    simp only [warnsList, trackNode, warns_eq_nil pos _ _ hq.1, List.nil_append]
    exact warnsList_eq_nil pos cs kp _ hq.2 hnd hkp
end

/-! ## Token counts (independent of the positions): the fuel bounds are linear in the size of the text -/

mutual
/-- number of tokens of a node at depth `d + 1` from its key on. -/
def CNode.size : CNode → Nat
  | .line _ _ _ trail => 4 + trailLen trail
  | .block _ cs _ => 3 + sizeList cs
/-- number of tokens of an indented forest (comment lines: 3 tokens each; one INDENT per node). -/
def sizeList : List CNode → Nat
  | [] => 0
  | c :: cs => 3 * c.lead.length + 1 + c.size + sizeList cs
end

mutual
theorem core_length (pos : Nat → CPos) : ∀ (c : CNode) (d j : Nat), (c.core pos d j).length = c.size
  | .line _ _ _ trail, _, _ => by cases trail <;> simp [CNode.core, CNode.size, trailToks, trailLen]
  | .block _ cs _, d, j => by
    simp only [CNode.core, CNode.size, List.length_cons, toksList_succ_length pos cs d (j + 1)]
    omega
theorem toksList_succ_length (pos : Nat → CPos) : ∀ (cs : List CNode) (d i : Nat), (toksList pos cs (d + 1) i).length = sizeList cs
  | [], _, _ => rfl
  | c :: cs, d, i => by
    rw [toksList_cons_succ_length, core_length pos c (d + 1) _, toksList_succ_length pos cs d _, sizeList]
    omega
end

/-! ## The lexer's columns satisfy `colsOk` -/

mutual
/-- every block key sits right after its indentation: `column = 2·d + 1` (what the lexer produces). -/
def CNode.canonCols (pos : Nat → CPos) : CNode → Nat → Nat → Bool
  | .line _ _ _ _, _, _ => true
  | .block _ cs _, d, j => decide ((pos j).c1 = 2 * d + 1) && canonColsList pos cs (d + 1) (j + 1)
def canonColsList (pos : Nat → CPos) : List CNode → Nat → Nat → Bool
  | [], _, _ => true
  | c :: cs, d, i => c.canonCols pos d (i + c.lead.length) && canonColsList pos cs d (i + c.lines)
end

mutual
theorem colsOk_of_canon (pos : Nat → CPos) : ∀ (c : CNode) (d j : Nat), c.canonCols pos d j = true → c.colsOk pos d j = true
  | .line _ _ _ _, _, _, _ => rfl
  | .block _ cs _, d, j, h => by
    simp only [CNode.canonCols, Bool.and_eq_true, decide_eq_true_eq] at h
    simp only [CNode.colsOk, Bool.and_eq_true, colsOkList_of_canon pos cs (d + 1) (j + 1) h.2, and_true]
    split <;> simp only [decide_eq_true_eq] <;> omega
theorem colsOkList_of_canon (pos : Nat → CPos) : ∀ (cs : List CNode) (d i : Nat), canonColsList pos cs d i = true → colsOkList pos cs d i = true
  | [], _, _, _ => rfl
  | c :: cs, d, i, h => by
    simp only [canonColsList, Bool.and_eq_true] at h
    simp only [colsOkList, Bool.and_eq_true]
    exact ⟨colsOk_of_canon pos c d _ h.1, colsOkList_of_canon pos cs d _ h.2⟩
end

/-! ## Boolean equality on documents with blocks and comments (for closed `decide` checks) -/

mutual
/-- as `BlockParse.nodeEqT` (which already compares `leading` / `trailing`), plus orphan `Comment` nodes. -/
def nodeEqC : Node → Node → Bool
  | .assign k v l c ld tr, .assign k' v' l' c' ld' tr' =>
    k == k' && valEqB v v' && l == l' && c == c' && ld == ld' && tr == tr'
  | .block k ch l c ld tg, .block k' ch' l' c' ld' tg' =>
    k == k' && nodesEqC ch ch' && l == l' && c == c' && ld == ld' && tg == tg'
  | .comment t, .comment t' => t == t'
  | _, _ => false
def nodesEqC : List Node → List Node → Bool
  | [], [] => true
  | a :: as, b :: bs => nodeEqC a b && nodesEqC as bs
  | _, _ => false
end

mutual
theorem nodeEqC_sound : ∀ {a b : Node}, nodeEqC a b = true → a = b
  | .assign .., .assign .., h => by
    simp only [nodeEqC, Bool.and_eq_true, beq_iff_eq] at h
    obtain ⟨⟨⟨⟨⟨h1, h2⟩, h3⟩, h4⟩, h5⟩, h6⟩ := h
    rw [h1, valEqB_sound h2, h3, h4, h5, h6]
  | .block _ ch .., .block _ ch' .., h => by
    simp only [nodeEqC, Bool.and_eq_true, beq_iff_eq] at h
    obtain ⟨⟨⟨⟨⟨h1, h2⟩, h3⟩, h4⟩, h5⟩, h6⟩ := h
    rw [h1, nodesEqC_sound h2, h3, h4, h5, h6]
  | .comment _, .comment _, h => by
    simp only [nodeEqC, beq_iff_eq] at h
    rw [h]
  | .assign .., .block .., h => by simp [nodeEqC] at h
  | .assign .., .sect .., h => by simp [nodeEqC] at h
  | .assign .., .comment .., h => by simp [nodeEqC] at h
  | .block .., .assign .., h => by simp [nodeEqC] at h
  | .block .., .sect .., h => by simp [nodeEqC] at h
  | .block .., .comment .., h => by simp [nodeEqC] at h
  | .comment .., .assign .., h => by simp [nodeEqC] at h
  | .comment .., .block .., h => by simp [nodeEqC] at h
  | .comment .., .sect .., h => by simp [nodeEqC] at h
  | .sect .., _, h => by simp [nodeEqC] at h
theorem nodesEqC_sound : ∀ {a b : List Node}, nodesEqC a b = true → a = b
  | [], [], _ => rfl
  | [], _ :: _, h => by simp [nodesEqC] at h
  | _ :: _, [], h => by simp [nodesEqC] at h
  | a :: as, b :: bs, h => by
    simp only [nodesEqC, Bool.and_eq_true] at h
    rw [nodeEqC_sound h.1, nodesEqC_sound h.2]
end

def docEqC (a b : Document) : Bool :=
  a.name == b.name && a.metaKv.isEmpty && b.metaKv.isEmpty && a.hasSeparator == b.hasSeparator &&
  nodesEqC a.sections b.sections && a.grammarVersion == b.grammarVersion &&
  a.rawFrontmatter == b.rawFrontmatter && a.trailingComments == b.trailingComments

theorem docEqC_sound {a b : Document} (h : docEqC a b = true) : a = b := by
  obtain ⟨n, m, hs, s, g, rf, tc⟩ := a
  obtain ⟨n', m', hs', s', g', rf', tc'⟩ := b
  simp only [docEqC, Bool.and_eq_true, beq_iff_eq, List.isEmpty_iff] at h
  obtain ⟨⟨⟨⟨⟨⟨⟨h1, h2⟩, h3⟩, h4⟩, h5⟩, h6⟩, h7⟩, h8⟩ := h
  rw [h1, h2, h3, h4, nodesEqC_sound h5, h6, h7, h8]

/-- Boolean test `r = .ok d`. -/
def isOkDocC (r : Except Exc Document) (d : Document) : Bool :=
  match r with | .ok x => docEqC x d | .error _ => false

theorem isOkDocC_sound {r : Except Exc Document} {d : Document} (h : isOkDocC r d = true) : r = .ok d := by
  cases r with
  | error e => simp [isOkDocC] at h
  | ok x => rw [docEqC_sound (a := x) (b := d) h]

end Octave.CommentParse
