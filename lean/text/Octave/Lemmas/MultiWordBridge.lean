import Octave.Lemmas.MultiWordParse
import Octave.Lemmas.ExprBridge
/-!
MULTI-WORD BARE VALUES as values of a flat document — emitter half and glue.

* the canonical line of a multi-word line: `KEY::"w0 w1 … wn"` (`MLine.canon`, an `FLine` with a QUOTED string), so the
  document read from the multi-word spelling IS the flat document `flatDoc name _ (canonLines sl)` and `emit_flat` applies;
* `needsQuotes_mw`: the emitter quotes EVERY joined multi-word string of the class (it contains a space: no identifier, no
  variable, no annotation, no expression), hence `mwcanon_emitOK`;
* the glue between the lexer half (`MultiWordLex`, concrete positions) and the parser half (`MultiWordParse`, arbitrary
  positions): `mwdocToks_bridge`, `toQLines_wf`, `qnodes_bridge`;
* the receipts owed (`mwReceipts`: one `multi_word_coalesce` record per multi-word line) and the warning list
  (`mwWarns_eq_receipts` under distinct keys, none of them `PATTERN` / `REGEX`).
-/
namespace Octave.MW
open Octave Lexer Emitter Parser FlatParse Spell Expr

/-! ### words carry no annotation; the joined string needs quotes -/

theorem hasAnnotation_word (w : Str) (h : isIdentifierText w = true) : hasAnnotation w = false := by
  have hb := identText_body w h
  have : w.contains '<' = false := contains_false w '<' (fun x hx e => by
    subst e; have := hb _ hx; revert this; decide)
  unfold hasAnnotation
  rw [this]; rfl

theorem breakAt_all_false (p : Char → Bool) (s : Str) (h : ∀ d ∈ s, p d = false) : breakAt p s = (s, []) := by
  induction s with
  | nil => rfl
  | cons c cs ih =>
    have := ih (fun d hd => h d (by simp [hd]))
    simp only [breakAt, h c (by simp), Bool.false_eq_true, if_false, this]

theorem splitOn_all_false (p : Char → Bool) (s : Str) (h : ∀ d ∈ s, p d = false) : splitOn p s = [s] := by
  induction s with
  | nil => rfl
  | cons c cs ih =>
    have := ih (fun d hd => h d (by simp [hd]))
    simp only [splitOn, this, h c (by simp), Bool.false_eq_true, if_false]

/-- a non-empty string that does not start with `$`, holds no `<` and no operator character and is not
identifier-shaped is quoted by the emitter. -/
theorem needsQuotes_plain (s : Str) (hd : s.head? ≠ some '$') (hlt : ∀ d ∈ s, (d == '<') = false)
    (hop : ∀ d ∈ s, isUnicodeOp d = false) (hid : isIdentifierText s = false) : needsQuotes s = true := by
  have hvar : isVariableText s = false := by
    unfold isVariableText
    split
    · exact absurd rfl hd
    · rfl
  have hann : isAnnotationText s = false := by
    simp only [isAnnotationText, breakAt_all_false _ s hlt]
  have hexp : isExpressionText s = false := by
    simp [isExpressionText, splitOn_all_false _ s hop]
  unfold needsQuotes
  simp only [hvar, hann, hexp, hid, Bool.false_eq_true, if_false, Bool.not_false]
  repeat' split
  all_goals rfl

theorem mem_spaceJoin (ws : List Str) : ∀ d ∈ spaceJoin ws, d = ' ' ∨ ∃ w ∈ ws, d ∈ w := by
  induction ws with
  | nil => intro d hd; simp [spaceJoin, joinWith] at hd
  | cons x r ih =>
    cases r with
    | nil => intro d hd; exact Or.inr ⟨x, by simp, by simpa [spaceJoin, joinWith] using hd⟩
    | cons y ys =>
      intro d hd
      simp only [spaceJoin, joinWith, List.mem_append, List.mem_singleton] at hd
      rcases hd with (hd | hd) | hd
      · exact Or.inr ⟨x, by simp, hd⟩
      · exact Or.inl hd
      · rcases ih d hd with h | ⟨w, hw, hdw⟩
        · exact Or.inl h
        · exact Or.inr ⟨w, by simp [hw], hdw⟩

theorem mwords_mem (m : MWords) (h : m.OK) : ∀ w ∈ m.words, wordOK w := by
  intro w hw
  simp only [MWords.words, List.mem_cons, List.mem_map] at hw
  rcases hw with rfl | ⟨p, hp, rfl⟩
  · exact h.1
  · exact h.2.1 p hp

/-- **the emitter quotes every joined multi-word string of the class.** -/
theorem needsQuotes_mw (m : MWords) (h : m.OK) : needsQuotes m.result = true := by
  have hch : ∀ d ∈ m.result, d = ' ' ∨ isIdentBodyA d = true := by
    intro d hd
    rcases mem_spaceJoin m.words d hd with h1 | ⟨w, hw, hdw⟩
    · exact Or.inl h1
    · exact Or.inr (identText_body w (mwords_mem m h w hw).1 d hdw)
  obtain ⟨hh, ht, hne⟩ := h
  obtain ⟨c, t, hct⟩ := List.exists_cons_of_ne_nil (wordOK_ne_nil hh)
  obtain ⟨q, r, hqr⟩ := List.exists_cons_of_ne_nil hne
  have hres : m.result = c :: (t ++ ' ' :: spaceJoin (q.2 :: r.map Prod.snd)) := by
    simp [MWords.result, MWords.words, hct, hqr, spaceJoin, joinWith]
  have hc : isIdentStartA c = true := by
    have := hh.1; rw [hct] at this
    simp only [isIdentifierText, Bool.and_eq_true] at this
    exact this.1.1
  apply needsQuotes_plain
  · rw [hres]; simp only [List.head?_cons, ne_eq, Option.some.injEq]
    intro e; subst e; revert hc; decide
  · intro d hd
    rcases hch d hd with rfl | hb
    · decide
    · rw [beq_eq_false_iff_ne]; intro e; subst e; revert hb; decide
  · intro d hd
    rcases hch d hd with rfl | hb
    · decide
    · exact identBody_not_unicodeOp d hb
  · rw [hres]
    have : (t ++ ' ' :: spaceJoin (q.2 :: r.map Prod.snd)).all isIdentBodyA = false := by
      rw [List.all_eq_false]
      exact ⟨' ', by simp, by decide⟩
    simp only [isIdentifierText, this, Bool.and_false, Bool.false_and]

/-! ### the canonical line, the document -/

/-- the canonical form of a value: a multi-word value becomes the QUOTED string of its words joined by one space. -/
def MVal.canon : MVal → FScalar
  | .sc v => v
  | .mw m => .qstr m.result

/-- the canonical line `KEY::"w0 w1 … wn"` (a scalar line is its own canonical form). -/
def MLine.canon (ln : MLine) : FLine := ⟨ln.key, ln.v.canon⟩

/-- the lines of the canonical flat document. -/
def canonLines (sl : List MLine) : List FLine := sl.map MLine.canon

/-- when the emitter spells the line the way its canonical text does (decidable): as `FLine.EmitOK` for a scalar line;
ALWAYS for a multi-word line (`needsQuotes_mw`). -/
def MLine.EmitOK (ln : MLine) : Prop :=
  match ln.v with
  | .sc v => FLine.EmitOK ⟨ln.key, v⟩
  | .mw _ => True

theorem mwcanon_emitOK (ln : MLine) (hok : ln.OK) (h : ln.EmitOK) : ln.canon.EmitOK := by
  obtain ⟨key, v⟩ := ln
  cases v with
  | sc v => exact h
  | mw m => exact needsQuotes_mw m hok.2.2

/-- first key is not `META`. -/
def mwFirstNotMeta (sl : List MLine) : Bool :=
  match sl with | ln :: _ => !(ln.key == "META".toList) | [] => true

/-! ### glue between the lexer half (concrete positions) and the parser half (arbitrary positions) -/

theorem mwTailToks_bridge (l : Nat) (tail : List (Nat × Str)) : ∀ (c : Nat),
    MWToks (tail.map Prod.snd) (mwTailToksRev l c tail).reverse := by
  induction tail with
  | nil => intro c; exact MWToks.nil
  | cons q r ih =>
    intro c
    obtain ⟨g, w⟩ := q
    simp only [mwTailToksRev, List.reverse_append, List.reverse_cons, List.reverse_nil, List.nil_append, List.cons_append,
      List.map_cons]
    exact MWToks.cons w _ _ (ih _)

/-- the line written at text line `l` as the parser half describes it. -/
def toQLine (x : MLine) (l : Nat) : QLine :=
  match x.v with
  | .sc v => .sc ((FLine.mk x.key v).toP l)
  | .mw m => .mw { key := x.key, l := l, c1 := 1, c2 := 1 + x.key.length, hd := m.head, hl := l, hc := 1 + x.key.length + 2,
                   ws := m.tail.map Prod.snd,
                   ts := (mwTailToksRev l (1 + x.key.length + 2 + m.head.length) m.tail).reverse,
                   nlL := l, nlC := 1 + x.key.length + 2 + m.spell.length }

def toQLines (l : Nat) : List MLine → List QLine
  | [] => []
  | x :: r => toQLine x l :: toQLines (l + 1) r

theorem toQLines_length (sl : List MLine) : ∀ l, (toQLines l sl).length = sl.length := by
  induction sl with
  | nil => intro l; rfl
  | cons x r ih => intro l; simp [toQLines, ih]

theorem toQLine_wf (x : MLine) (l : Nat) (h : x.OK) : (toQLine x l).WF := by
  obtain ⟨key, v⟩ := x
  cases v with
  | sc v => trivial
  | mw m =>
    obtain ⟨hh, ht, hne⟩ := h.2.2
    refine ⟨mwTailToks_bridge l m.tail _, ?_, hasAnnotation_word _ hh.1, ?_⟩
    · simpa using hne
    · intro w hw
      obtain ⟨p, hp, rfl⟩ := List.mem_map.mp hw
      exact hasAnnotation_word _ (ht p hp).1

theorem toQLines_wf (sl : List MLine) (hok : ∀ x ∈ sl, x.OK) : ∀ l, ∀ ln ∈ toQLines l sl, ln.WF := by
  induction sl with
  | nil => intro l ln h; simp [toQLines] at h
  | cons x r ih =>
    intro l ln h
    simp only [toQLines, List.mem_cons] at h
    rcases h with rfl | h
    · exact toQLine_wf x l (hok x (by simp))
    · exact ih (fun y hy => hok y (by simp [hy])) (l + 1) ln h

theorem mline_toks_bridge (x : MLine) (l : Nat) : (x.toksRev l 1).reverse = (toQLine x l).toks := by
  obtain ⟨key, v⟩ := x
  cases v with
  | sc v => exact line_toks_bridge ⟨key, v⟩ l
  | mw m =>
    simp only [MLine.toksRev, MVal.toksRev, MVal.spell, toQLine, QLine.toks, WLine.toks, WLine.nlTok, List.reverse_cons,
      List.reverse_append, List.reverse_nil, List.nil_append, List.cons_append, List.append_assoc]

theorem mwlines_toks_bridge (sl : List MLine) : ∀ l, (mwLinesToksRev l sl).reverse = (toQLines l sl).flatMap QLine.toks := by
  induction sl with
  | nil => intro l; rfl
  | cons x r ih =>
    intro l
    simp only [mwLinesToksRev, toQLines, List.reverse_append, List.flatMap_cons, mline_toks_bridge, ih]

/-- the two descriptions of the token list agree. -/
theorem mwdocToks_bridge (name : Str) (sl : List MLine) :
    mwdocToks name sl = mwToks (flatFrame name sl.length) name (toQLines 2 sl) := by
  simp only [mwdocToks, mwdocToksRev, mwToks, List.reverse_cons, List.reverse_append, mwlines_toks_bridge]
  simp [flatFrame, Frame.envTok, Frame.nl0Tok, Frame.endTok, Frame.nl1Tok, Frame.eofTok, tEof, tNewline, tEnvEnd, tEnvStart]

/-- the node read from the line IS the node of its canonical line (same key, same value, same position). -/
theorem qnode_bridge (x : MLine) (l : Nat) : (toQLine x l).node = x.canon.node l 1 := by
  obtain ⟨key, v⟩ := x
  cases v with
  | sc v => exact node_bridge ⟨key, v⟩ l
  | mw m => rfl

theorem qnodes_bridge (sl : List MLine) : ∀ (i : Nat),
    (toQLines (i + 2) sl).map QLine.node = flatNodes (fun i => (i + 2, 1)) i (canonLines sl) := by
  induction sl with
  | nil => intro i; rfl
  | cons x r ih =>
    intro i
    simp only [toQLines, List.map_cons, canonLines, flatNodes, qnode_bridge]
    rw [show i + 2 + 1 = (i + 1) + 2 by omega, ih (i + 1)]
    rfl

theorem qkey_bridge (x : MLine) (l : Nat) : (toQLine x l).key = x.key := by
  obtain ⟨key, v⟩ := x
  cases v <;> rfl

theorem ql_bridge (x : MLine) (l : Nat) : (toQLine x l).l = l := by
  obtain ⟨key, v⟩ := x
  cases v <;> rfl

theorem mwMetaFirst_bridge (sl : List MLine) (l : Nat) (h : mwFirstNotMeta sl = true) :
    mwMetaFirst (toQLines l sl) = false := by
  cases sl with
  | nil => rfl
  | cons x r =>
    simp only [toQLines, mwMetaFirst, qkey_bridge]
    simpa [mwFirstNotMeta] using h

theorem stripFrontmatter_mwdoc (env : Env) (name : Str) (sl : List MLine) :
    Parser.stripFrontmatter env (mwdocText name sl) = (mwdocText name sl, none) := by
  unfold Parser.stripFrontmatter
  have : startsWith "---".toList (mwdocText name sl) = false := by
    simp [mwdocText, startsWith, List.isPrefixOf]
  rw [this]; rfl

/-! ### the receipts owed -/

/-- the receipt owed to the line written at text line `l`: for a multi-word line ONE `multi_word_coalesce` record —
the words as written, the string they became, the line, and the column of the FIRST word (right after `KEY::`); a
scalar line: none. -/
def lineReceipt (l : Nat) (x : MLine) : List Warning :=
  match x.v with
  | .mw m => [.multiWord m.words m.result [] l (1 + x.key.length + 2)]
  | .sc _ => []

/-- the receipts owed to the document, in reading order (first body line = text line `l`). -/
def mwReceipts (l : Nat) : List MLine → List Warning
  | [] => []
  | x :: r => lineReceipt l x ++ mwReceipts (l + 1) r

/-- true exactly on `multi_word_coalesce` records. -/
def isMultiWord : Warning → Bool
  | .multiWord .. => true
  | _ => false

/-- number of multi-word lines. -/
def mwCount : List MLine → Nat
  | [] => 0
  | x :: r => (match x.v with | .mw _ => 1 | .sc _ => 0) + mwCount r

/-- exactly one receipt per multi-word line. -/
theorem mwReceipts_length (sl : List MLine) : ∀ l, (mwReceipts l sl).length = mwCount sl := by
  induction sl with
  | nil => intro l; rfl
  | cons x r ih =>
    intro l
    obtain ⟨key, v⟩ := x
    cases v <;> simp [mwReceipts, lineReceipt, mwCount, ih] <;> omega

theorem autoquote_filter (key val : Str) (l c : Nat) : (autoquote key val l c).filter isMultiWord = [] := by
  unfold autoquote; split <;> rfl

theorem trackPure_filter (kp : KeyPos) (key : Str) (l : Nat) : (trackPure kp key l).2.filter isMultiWord = [] := by
  unfold trackPure
  split <;> rfl

theorem line_warns_filter (ln : Line) : ln.warns.filter isMultiWord = [] := by
  unfold Line.warns
  split
  · split <;> rfl
  · rfl

theorem qline_warns_filter (x : MLine) (l : Nat) : (toQLine x l).warns.filter isMultiWord = lineReceipt l x := by
  obtain ⟨key, v⟩ := x
  cases v with
  | sc v => exact line_warns_filter _
  | mw m =>
    simp only [toQLine, QLine.warns, WLine.warnsRev, List.reverse_append, List.reverse_cons, List.reverse_nil, List.nil_append,
      List.filter_append, List.filter_reverse, autoquote_filter, List.append_nil]
    rfl

/-- **the `multi_word_coalesce` records among the parser warnings** are, in reading order, exactly `mwReceipts` — whatever
other warnings (duplicate keys, `PATTERN` auto-quote) the lines raise. -/
theorem mwWarns_filter (sl : List MLine) : ∀ (l : Nat) (kp : KeyPos),
    (mwWarns kp (toQLines l sl)).filter isMultiWord = mwReceipts l sl := by
  induction sl with
  | nil => intro l kp; rfl
  | cons x r ih =>
    intro l kp
    simp only [toQLines, mwWarns, List.filter_append, qline_warns_filter, trackPure_filter, List.append_nil, ih, mwReceipts]

end Octave.MW
