/-
Parser half of the read theorem for documents with nested blocks and comments, EXTENDED BY ORPHAN COMMENTS: comment lines at the
children's indentation after the last child of a block, which the parser keeps as `Comment` children of that block
(`Node.comment`) and the emitter writes back at the children's indentation.  With them the content model covers every comment
the parser can produce on documents of `KEY::scalar` lines and `KEY:` blocks: leading (`lead`), trailing (`trail`), orphans at
the end of a block (`orph`), trailing comments of the document.

Everything general comes from `Lemmas/CommentParse.lean` (token constructors, `leadToks`, `afterInd`, `stopsL`,
`blockLoop_lead`, `blockLoop_orphans`, `blockLoop_stopL`, `preIndentComments_stopsL`, `parseSection_cline`, `docLoop_lead` …);
here the content model `ONode`, the three mutually dependent statements once more (`SecOK` / `ChildOK` / `LoopOK`, now with the
orphan lines behind the children; the cursor's `prev` token is left existential), `parseSection_oblock`, `blockLoop_oforest`,
`docLoop_otree`, `parseDocument_otree`.  Namespace `Octave.CommentOrphans`.
-/
import Octave.Lemmas.CommentParse
namespace Octave.CommentOrphans
open Octave Parser FlatParse CommentParse

/-! ## Content model -/

/-- as `CommentParse.CNode`, a block moreover carries its orphan comments `orph`: comment lines at the children's
indentation after the last child. -/
inductive ONode where
  | line (key : Str) (v : Scalar) (lead : List Str) (trail : Option Str)
  | block (key : Str) (children : List ONode) (orph : List Str) (lead : List Str)

def ONode.lead : ONode → List Str
  | .line _ _ lead _ => lead
  | .block _ _ _ lead => lead

def ONode.key : ONode → Str
  | .line key _ _ _ => key
  | .block key _ _ _ => key

mutual
/-- number of source lines of a node: leading comment lines, its own line, (a block:) the lines below it, orphan lines included. -/
def ONode.lines : ONode → Nat
  | .line _ _ lead _ => lead.length + 1
  | .block _ cs orph lead => lead.length + 1 + linesList cs + orph.length
def linesList : List ONode → Nat
  | [] => 0
  | c :: cs => c.lines + linesList cs
end

mutual
/-- tokens of a node at depth `d` from its key on (`j`: body line of the key); a block: header, children, then its orphan
comment lines `INDENT(2·(d+1)) COMMENT NEWLINE`. -/
def ONode.core (pos : Nat → CPos) : ONode → Nat → Nat → List Token
  | .line key v _ trail, _, j =>
    keyTok key (pos j) :: assignTok (pos j) :: v.tok (pos j).l (pos j).c3 :: (trailToks trail (pos j) ++ [nlTok (pos j)])
  | .block key cs orph _, d, j =>
    keyTok key (pos j) :: blockTok (pos j) :: nlTok (pos j) ::
      (toksList pos cs (d + 1) (j + 1) ++ leadToks pos (d + 1) orph (j + 1 + linesList cs))
def toksList (pos : Nat → CPos) : List ONode → Nat → Nat → List Token
  | [], _, _ => []
  | c :: cs, d, i =>
    leadToks pos d c.lead i ++ (indToks d (pos (i + c.lead.length))
      ++ (c.core pos d (i + c.lead.length) ++ toksList pos cs d (i + c.lines)))
end

mutual
/-- the AST node the reader must produce: the orphans are `Comment` children behind the others. -/
def ONode.node (pos : Nat → CPos) : ONode → Nat → Node
  | .line key v lead trail, j => .assign key v.val (pos j).l (pos j).c1 lead trail
  | .block key cs orph lead, j => .block key (nodeList pos cs (j + 1) ++ orph.map Node.comment) (pos j).l (pos j).c1 lead none
def nodeList (pos : Nat → CPos) : List ONode → Nat → List Node
  | [], _ => []
  | c :: cs, i => c.node pos (i + c.lead.length) :: nodeList pos cs (i + c.lines)
end

def trackNode (kp : KeyPos) (c : ONode) (p : CPos) : KeyPos × List Warning :=
  match c with
  | .line key _ _ _ => trackPure kp key p.l
  | .block _ _ _ _ => (kp, [])

mutual
def ONode.warns (pos : Nat → CPos) : ONode → Nat → List Warning
  | .line key v _ _, j => lineWarns key v (pos j)
  | .block _ cs _ _, j => warnsList pos cs [] (j + 1)
def warnsList (pos : Nat → CPos) : List ONode → KeyPos → Nat → List Warning
  | [], _, _ => []
  | c :: cs, kp, i =>
    c.warns pos (i + c.lead.length) ++ ((trackNode kp c (pos (i + c.lead.length))).2
      ++ warnsList pos cs (trackNode kp c (pos (i + c.lead.length))).1 (i + c.lines))
end

mutual
/-- the column condition of `CommentParse.CNode.colsOk`; a block with orphans only is NOT empty for the parser (the orphan
lines are indented lines below the header). -/
def ONode.colsOk (pos : Nat → CPos) : ONode → Nat → Nat → Bool
  | .line _ _ _ _, _, _ => true
  | .block _ cs orph _, d, j =>
    (if cs.isEmpty && orph.isEmpty then decide (2 * d ≤ (pos j).c1 - 1) else decide ((pos j).c1 - 1 < 2 * (d + 1)))
      && colsOkList pos cs (d + 1) (j + 1)
def colsOkList (pos : Nat → CPos) : List ONode → Nat → Nat → Bool
  | [], _, _ => true
  | c :: cs, d, i => c.colsOk pos d (i + c.lead.length) && colsOkList pos cs d (i + c.lines)
end

/-! ## Evaluation on explicit states -/

local macro "step_simp" "[" ts:Lean.Parser.Tactic.simpLemma,* "]" : tactic =>
  `(tactic| simp only [bind, StateT.bind, Except.bind, pure, StateT.pure, Except.pure, current_mk, peek_mk, advance_mk,
      curType_mk, isAdjacentBracket_mk, budget_mk, warn_mk, get, getThe, MonadStateOf.get, StateT.get,
      Bool.false_eq_true, if_false, if_true, Bool.false_and, Bool.and_false, Bool.or_false, Bool.false_or,
      List.length_cons, List.length_nil, beq_iff_eq, bne_iff_ne, ne_eq, reduceCtorEq, not_true_eq_false, not_false_eq_true,
      Bool.and_eq_true, Bool.or_eq_true, Bool.not_eq_true', beq_eq_false_iff_ne, false_and, and_false, true_and, and_true,
      false_or, or_false, true_or, or_true, decide_eq_true_eq,
      beq_self_eq_true, Bool.true_or, Bool.or_true, Bool.true_and, Bool.and_true, Bool.not_true, Bool.not_false, $ts,*])

/-! ## The three mutually dependent statements, indexed by the fuel -/

def SecOK (pos : Nat → CPos) (F : Nat) : Prop :=
  ∀ (key : Str) (cs : List ONode) (orph lead : List Str) (d j : Nat) (st : PState) (fl : List Token),
    st.rest = (ONode.block key cs orph lead).core pos d j ++ fl →
    stopsL (2 * d + 1) fl = true →
    (ONode.block key cs orph lead).colsOk pos d j = true →
    ((ONode.block key cs orph lead).core pos d j).length ≤ F →
    ∃ p' : Option Token, parseSection F lead st = .ok (some ((ONode.block key cs orph lead).node pos j),
      { st with rest := fl, prev := p',
                pos := st.pos + ((ONode.block key cs orph lead).core pos d j).length,
                warnings := ((ONode.block key cs orph lead).warns pos j).reverse ++ st.warnings })

/-- the child loop right after the first INDENT of child `c`: the rest of its comment lines, the child, further children
`cs`, then the orphan lines `orph` of the enclosing block. -/
def ChildOK (pos : Nat → CPos) (F : Nat) : Prop :=
  ∀ (c : ONode) (cs : List ONode) (orph : List Str) (d i : Nat) (st : PState) (fl : List Token) (acc : List Node) (kp : KeyPos),
    st.rest = afterInd pos (d + 1) c.lead i ++ (c.core pos (d + 1) (i + c.lead.length)
      ++ (toksList pos cs (d + 1) (i + c.lines) ++ (leadToks pos (d + 1) orph (i + c.lines + linesList cs) ++ fl))) →
    stopsL (2 * (d + 1)) fl = true →
    c.colsOk pos (d + 1) (i + c.lead.length) = true → colsOkList pos cs (d + 1) (i + c.lines) = true →
    3 * c.lead.length + (c.core pos (d + 1) (i + c.lead.length)).length + (toksList pos cs (d + 1) (i + c.lines)).length
      + 3 * orph.length + 1 ≤ F →
    ∃ p' : Option Token, blockLoop F (2 * (d + 1)) (2 * (d + 1)) [] acc kp st
      = .ok (acc ++ (nodeList pos (c :: cs) i ++ orph.map Node.comment),
      { st with rest := fl, prev := p',
                pos := st.pos + (3 * c.lead.length + (c.core pos (d + 1) (i + c.lead.length)).length
                  + (toksList pos cs (d + 1) (i + c.lines)).length + 3 * orph.length),
                warnings := (warnsList pos (c :: cs) kp i).reverse ++ st.warnings })

/-- the child loop at the start of a line, children `cs` and then the orphan lines ahead. -/
def LoopOK (pos : Nat → CPos) (F : Nat) : Prop :=
  ∀ (cs : List ONode) (orph : List Str) (d i : Nat) (st : PState) (fl : List Token) (acc : List Node) (kp : KeyPos),
    st.rest = toksList pos cs (d + 1) i ++ (leadToks pos (d + 1) orph (i + linesList cs) ++ fl) →
    stopsL (2 * (d + 1)) fl = true →
    colsOkList pos cs (d + 1) i = true →
    (toksList pos cs (d + 1) i).length + 3 * orph.length + 1 ≤ F →
    ∃ p' : Option Token, blockLoop F (2 * (d + 1)) 0 [] acc kp st
      = .ok (acc ++ (nodeList pos cs i ++ orph.map Node.comment),
      { st with rest := fl, prev := p',
                pos := st.pos + ((toksList pos cs (d + 1) i).length + 3 * orph.length),
                warnings := (warnsList pos cs kp i).reverse ++ st.warnings })

theorem core_ne_nil (pos : Nat → CPos) (c : ONode) (d j : Nat) (r : List Token) : c.core pos d j ++ r ≠ [] := by
  cases c <;> simp [ONode.core]

theorem toksList_cons_succ (pos : Nat → CPos) (c : ONode) (cs : List ONode) (d i : Nat) (fl : List Token) :
    toksList pos (c :: cs) (d + 1) i ++ fl
      = indTok (d + 1) (pos i) :: (afterInd pos (d + 1) c.lead i
          ++ (c.core pos (d + 1) (i + c.lead.length) ++ (toksList pos cs (d + 1) (i + c.lines) ++ fl))) := by
  rw [toksList, List.append_assoc, List.append_assoc, List.append_assoc, lead_indent_eq]

theorem toksList_cons_succ_length (pos : Nat → CPos) (c : ONode) (cs : List ONode) (d i : Nat) :
    (toksList pos (c :: cs) (d + 1) i).length
      = 3 * c.lead.length + (c.core pos (d + 1) (i + c.lead.length)).length + (toksList pos cs (d + 1) (i + c.lines)).length + 1 := by
  have h := congrArg List.length (toksList_cons_succ pos c cs d i [])
  simp only [List.append_nil, List.length_cons, List.length_append, afterInd_length] at h
  omega

theorem leadToks_succ_length (pos : Nat → CPos) (d : Nat) : ∀ (lead : List Str) (i : Nat), (leadToks pos (d + 1) lead i).length = 3 * lead.length
  | [], _ => rfl
  | _ :: r, i => by
    simp only [leadToks, indToks, List.cons_append, List.nil_append, List.length_cons, leadToks_succ_length pos d r (i + 1)]; omega

theorem loop_of (pos : Nat → CPos) (F : Nat) (ih : ∀ F' < F, ChildOK pos F') : LoopOK pos F := by
  intro cs orph d i st fl acc kp hr hs hc hF
  obtain ⟨rest, p, n, la, w, dp, wd, s, th, al⟩ := st
  simp only at hr
  subst hr
  cases cs with
  | nil =>
    simp only [toksList, List.nil_append, linesList, Nat.add_zero, List.length_nil, Nat.zero_add] at hF ⊢
    obtain ⟨G, rfl⟩ : ∃ G, F = 3 * orph.length + G + 1 := ⟨F - 3 * orph.length - 1, by omega⟩
    obtain ⟨p', h⟩ := blockLoop_orphans pos d fl hs G kp la w dp wd s th al orph i [] acc p n
    refine ⟨p', ?_⟩
    rw [h]
    simp only [nodeList, List.nil_append, warnsList, List.reverse_nil]
  | cons c cs =>
    obtain ⟨F', rfl⟩ : ∃ F', F = F' + 1 := ⟨F - 1, by omega⟩
    rw [toksList_cons_succ_length] at hF
    simp only [colsOkList, Bool.and_eq_true] at hc
    have hlines : i + linesList (c :: cs) = i + c.lines + linesList cs := by simp only [linesList]; omega
    rw [hlines]
    obtain ⟨p', h⟩ := ih F' (Nat.lt_succ_self _) c cs orph d i
      { rest := afterInd pos (d + 1) c.lead i ++ (c.core pos (d + 1) (i + c.lead.length)
          ++ (toksList pos cs (d + 1) (i + c.lines) ++ (leadToks pos (d + 1) orph (i + c.lines + linesList cs) ++ fl))),
        prev := some (indTok (d + 1) (pos i)), pos := n + 1, last := la, warnings := w, depth := dp, warned := wd, strict := s, threshold := th, alpha := al }
      fl acc kp rfl hs hc.1 hc.2 (by omega)
    refine ⟨p', ?_⟩
    simp only [toksList_cons_succ, toksList_cons_succ_length]
    rw [blockLoop]
    step_simp [indTok, Nat.lt_irrefl]
    rw [advance_ne (h := afterInd_append_ne_nil pos (d + 1) c.lead i _ (core_ne_nil pos c (d + 1) _ _))]
    simp only []
    simp only [indTok] at h
    rw [h]
    apply BlockParse.ok_pos_congr
    omega


/-- what follows a node at depth `d + 1` inside a block: a sibling's first INDENT, the INDENT of an orphan line of the
enclosing block, or what follows the block — it `stopsL` the node's own depth. -/
theorem cont_head (pos : Nat → CPos) (cs : List ONode) (orph : List Str) (d i i' : Nat) (fl : List Token)
    (hs : stopsL (2 * (d + 1)) fl = true) :
    stopsL (2 * (d + 1) + 1) (toksList pos cs (d + 1) i ++ (leadToks pos (d + 1) orph i' ++ fl)) = true := by
  cases cs with
  | nil =>
    cases orph with
    | nil => exact stopsL_mono (by omega) hs
    | cons o os => simp [toksList, leadToks, indToks, stopsL, indTok, BlockParse.indentVal]
  | cons c cs =>
    rw [toksList_cons_succ]
    simp [stopsL, indTok, BlockParse.indentVal]

theorem follow_ne_nil (A B fl : List Token) (hfl : fl ≠ []) : A ++ (B ++ fl) ≠ [] := by
  simp [hfl]

theorem child_of (pos : Nat → CPos) (F : Nat) (ihS : ∀ F' < F, SecOK pos F') (ihL : ∀ F' < F, LoopOK pos F') :
    ChildOK pos F := by
  intro c cs orph d i st fl acc kp hr hs hc hcs hF
  have hnlt : ¬ 2 * (d + 1) < 2 * (d + 1) := Nat.lt_irrefl _
  obtain ⟨rest, p, n, la, w, dp, wd, s, th, al⟩ := st
  simp only at hr
  subst hr
  obtain ⟨G, rfl⟩ : ∃ G, F = 3 * c.lead.length + G := ⟨F - 3 * c.lead.length, by omega⟩
  obtain ⟨p1, hlead⟩ := blockLoop_lead pos d (c.core pos (d + 1) (i + c.lead.length)
      ++ (toksList pos cs (d + 1) (i + c.lines) ++ (leadToks pos (d + 1) orph (i + c.lines + linesList cs) ++ fl)))
    (core_ne_nil pos c (d + 1) _ _) G acc kp la w dp wd s th al c.lead i [] p n
  rw [hlead, List.nil_append]
  have hfl := stopsL_ne_nil hs
  cases c with
  | line key v lead trail =>
    simp only [ONode.lead, ONode.lines] at hF hcs ⊢
    have hlen : ((ONode.line key v lead trail).core pos (d + 1) (i + lead.length)).length = 4 + trailLen trail := by
      cases trail <;> simp [ONode.core, trailToks, trailLen]
    rw [hlen] at hF ⊢
    obtain ⟨g, rfl⟩ : ∃ g, G = g + 5 := ⟨G - 5, by omega⟩
    obtain ⟨p', ih⟩ := ihL (g + 3) (by omega) cs orph d (i + (lead.length + 1))
      { rest := toksList pos cs (d + 1) (i + (lead.length + 1)) ++ (leadToks pos (d + 1) orph (i + (lead.length + 1) + linesList cs) ++ fl),
        prev := some (nlTok (pos (i + lead.length))), pos := n + 3 * lead.length + 3 + trailLen trail + 1, last := la,
        warnings := (trackPure kp key (pos (i + lead.length)).l).2 ++ (lineWarns key v (pos (i + lead.length)) ++ w),
        depth := dp, warned := wd, strict := s, threshold := th, alpha := al }
      fl (acc ++ [Node.assign key v.val (pos (i + lead.length)).l (pos (i + lead.length)).c1 lead trail])
      (trackPure kp key (pos (i + lead.length)).l).1 rfl hs hcs (by omega)
    refine ⟨p', ?_⟩
    simp only [ONode.core, List.cons_append, List.nil_append, List.append_assoc]
    rw [blockLoop]
    step_simp [keyTok, hnlt]
    have hsec := parseSection_cline
      { rest := keyTok key (pos (i + lead.length)) :: assignTok (pos (i + lead.length)) :: v.tok (pos (i + lead.length)).l (pos (i + lead.length)).c3
          :: (trailToks trail (pos (i + lead.length)) ++ nlTok (pos (i + lead.length)) ::
              (toksList pos cs (d + 1) (i + (lead.length + 1)) ++ (leadToks pos (d + 1) orph (i + (lead.length + 1) + linesList cs) ++ fl))),
        prev := p1, pos := n + 3 * lead.length, last := la, warnings := w, depth := dp, warned := wd, strict := s, threshold := th, alpha := al }
      key v lead trail (pos (i + lead.length)) _ (g + 1) rfl
    simp only [keyTok] at hsec
    rw [hsec]
    step_simp [nodeAssignKey?, trackKey_eq]
    rw [blockLoop]
    step_simp [nlTok]
    rw [advance_ne (h := follow_ne_nil _ _ fl hfl)]
    simp only []
    simp only [nlTok] at ih
    rw [ih]
    simp only [nodeList, ONode.node, ONode.lines, ONode.lead, warnsList, ONode.warns, trackNode,
      List.append_assoc, List.cons_append, List.nil_append, List.reverse_append,
      trackPure_warns_reverse, lineWarns_reverse]
    apply BlockParse.ok_pos_congr
    omega
  | block key' cs' orph' lead =>
    simp only [ONode.lead] at hF hc hcs ⊢
    have hs' := cont_head pos cs orph d (i + (ONode.block key' cs' orph' lead).lines)
      (i + (ONode.block key' cs' orph' lead).lines + linesList cs) fl hs
    obtain ⟨G', rfl⟩ : ∃ G', G = G' + 1 := ⟨G - 1, by omega⟩
    have hlen3 : 3 ≤ ((ONode.block key' cs' orph' lead).core pos (d + 1) (i + lead.length)).length := by
      simp only [ONode.core, List.length_cons]; omega
    obtain ⟨p2, hsec⟩ := ihS G' (by omega) key' cs' orph' lead (d + 1) (i + lead.length)
      { rest := (ONode.block key' cs' orph' lead).core pos (d + 1) (i + lead.length)
          ++ (toksList pos cs (d + 1) (i + (ONode.block key' cs' orph' lead).lines)
            ++ (leadToks pos (d + 1) orph (i + (ONode.block key' cs' orph' lead).lines + linesList cs) ++ fl)),
        prev := p1, pos := n + 3 * lead.length, last := la, warnings := w, depth := dp,
        warned := wd, strict := s, threshold := th, alpha := al } _ rfl hs' hc (by omega)
    obtain ⟨p', ih⟩ := ihL G' (by omega) cs orph d (i + (ONode.block key' cs' orph' lead).lines)
      { rest := toksList pos cs (d + 1) (i + (ONode.block key' cs' orph' lead).lines)
          ++ (leadToks pos (d + 1) orph (i + (ONode.block key' cs' orph' lead).lines + linesList cs) ++ fl),
        prev := p2, pos := n + 3 * lead.length + ((ONode.block key' cs' orph' lead).core pos (d + 1) (i + lead.length)).length, last := la,
        warnings := ((ONode.block key' cs' orph' lead).warns pos (i + lead.length)).reverse ++ w,
        depth := dp, warned := wd, strict := s, threshold := th, alpha := al }
      fl (acc ++ [(ONode.block key' cs' orph' lead).node pos (i + lead.length)]) kp rfl hs hcs (by omega)
    refine ⟨p', ?_⟩
    rw [blockLoop]
    simp only [ONode.core, List.cons_append] at hsec ⊢
    step_simp [keyTok, hnlt]
    simp only [keyTok] at hsec
    rw [hsec]
    step_simp [ONode.node, nodeAssignKey?]
    simp only [ONode.core, ONode.node, List.length_cons] at ih
    rw [ih]
    simp only [nodeList, ONode.node, ONode.lead, warnsList, ONode.warns, trackNode,
      List.append_assoc, List.cons_append, List.nil_append, List.reverse_append]
    apply BlockParse.ok_pos_congr
    omega


theorem advance_afterInd (pos : Nat → CPos) (c : ONode) (d' i' j' : Nat) (X : List Token) (t : Token) (p : Option Token) (n : Nat) (la : Token)
    (w : List Warning) (d : Nat) (wd : List Nat) (s : Bool) (th : Nat) (al : Char → Bool) :
    advance { rest := t :: (afterInd pos d' c.lead i' ++ (c.core pos d' j' ++ X)), prev := p, pos := n, last := la, warnings := w, depth := d, warned := wd, strict := s, threshold := th, alpha := al }
      = .ok (t, { rest := afterInd pos d' c.lead i' ++ (c.core pos d' j' ++ X), prev := some t, pos := n + 1, last := la, warnings := w, depth := d, warned := wd, strict := s, threshold := th, alpha := al }) :=
  advance_ne (h := afterInd_append_ne_nil pos d' c.lead i' _ (core_ne_nil pos c d' j' X)) ..

theorem sec_of (pos : Nat → CPos) (F : Nat) (ih : ∀ F' < F, ChildOK pos F') : SecOK pos F := by
  intro key cs orph lead d j st fl hr hs hc hF
  obtain ⟨rest, p, n, la, w, dp, wd, s, th, al⟩ := st
  simp only at hr
  subst hr
  cases cs with
  | nil =>
    cases orph with
    | nil =>
      -- the empty block
      simp only [ONode.colsOk, List.isEmpty_nil, Bool.and_self, if_true, colsOkList, Bool.and_true, decide_eq_true_eq] at hc
      simp only [ONode.core, toksList, leadToks, List.append_nil, List.cons_append, List.nil_append, List.length_cons, List.length_nil] at hF ⊢
      obtain ⟨F', rfl⟩ : ∃ F', F = F' + 1 := ⟨F - 1, by omega⟩
      obtain ⟨e, r, rfl⟩ : ∃ e r, fl = e :: r := by
        cases fl with
        | nil => exact absurd rfl (stopsL_ne_nil hs)
        | cons e r => exact ⟨e, r, rfl⟩
      obtain ⟨acc', c0, k', p', n', hpre, hfc, hic⟩ := preIndentComments_stopsL (2 * d + 1) la w dp wd s th al (e :: r)
        ((e :: r).length + 2) (some (nlTok (pos j))) (n + 1 + 1 + 1) hs (by omega)
      simp only [stopsL, Bool.and_eq_true, Bool.or_eq_true, bne_iff_ne, ne_eq, decide_eq_true_eq] at hs
      obtain ⟨⟨⟨h1, h3⟩, h4⟩, h2⟩ := hs
      refine ⟨some (nlTok (pos j)), ?_⟩
      rw [parseSection]
      step_simp [keyTok, blockTok, nlTok, pyStrVal_str]
      rw [skipWhitespace_false_nl (h := rfl) (h1 := h1)]
      step_simp []
      simp only [nlTok, List.length_cons] at hpre
      rw [hpre]
      step_simp []
      have hfin : n + 1 + 1 + 1 = n + (0 + 1 + 1 + 1) := by omega
      by_cases hi : c0.type = TT.indent
      · have h5 := hic hi
        cases hv : c0.value with
        | nat m =>
          simp only [BlockParse.indentVal, hv] at h5
          have h6 : ¬ (m > (pos j).c1 - 1) := by omega
          step_simp [hi, hfc, h3, h6, BlockParse.set_mk, decide_false, eq_self, Option.isSome_none]
          simp only [ONode.node, nodeList, List.map_nil, List.append_nil, ONode.warns, warnsList, List.reverse_nil, List.nil_append, hfin]
        | _ =>
          step_simp [hi, hfc, h3, BlockParse.set_mk, decide_false, eq_self, Option.isSome_none, gt_iff_lt, Nat.not_lt_zero]
          simp only [ONode.node, nodeList, List.map_nil, List.append_nil, ONode.warns, warnsList, List.reverse_nil, List.nil_append, hfin]
      · have hib : (c0.type == TT.indent) = false := by simp [hi]
        step_simp [hi, hib, hfc, h3, BlockParse.set_mk, decide_false, eq_self, Option.isSome_none]
        simp only [ONode.node, nodeList, List.map_nil, List.append_nil, ONode.warns, warnsList, List.reverse_nil, List.nil_append, hfin]
    | cons o os =>
      -- orphans only: the orphan lines are the "indented children"
      simp only [ONode.colsOk, List.isEmpty_nil, List.isEmpty_cons, Bool.and_false, Bool.false_eq_true, if_false, colsOkList, Bool.and_true,
        decide_eq_true_eq] at hc
      simp only [ONode.core, toksList, linesList, leadToks, indToks, List.cons_append, List.nil_append, List.length_cons,
        leadToks_succ_length, Nat.add_zero] at hF ⊢
      obtain ⟨G, rfl⟩ : ∃ G, F = (3 * os.length + G + 1) + 1 + 1 + 1 := ⟨F - 3 * os.length - 4, by omega⟩
      obtain ⟨p', horph⟩ := blockLoop_orphans pos d fl (stopsL_mono (by omega) hs) G [] la w dp wd s th al os (j + 1 + 1) [o] [] (some (nlTok (pos (j + 1)))) (n + 1 + 1 + 1 + 1 + 1 + 1)
      refine ⟨p', ?_⟩
      have hne : leadToks pos (d + 1) os (j + 1 + 1) ++ fl ≠ [] := by
        have := stopsL_ne_nil hs
        simp [this]
      rw [parseSection]
      step_simp [keyTok, blockTok, nlTok, pyStrVal_str]
      rw [skipWhitespace_newline (h := rfl) (h1 := by simp [indTok]) (h2 := by simp [indTok])]
      step_simp []
      rw [BlockParse.preIndentComments_stop (h1 := by simp [indTok]) (h2 := by simp [indTok])]
      have h6 : 2 * (d + 1) > (pos j).c1 - 1 := hc
      step_simp [indTok, cmtTok, h6, decide_true, Option.isSome_none]
      rw [blockLoop]
      step_simp [commentBelongsOuter_ge _ _ (Nat.le_refl _), pyStrVal_str]
      rw [blockLoop]
      step_simp []
      rw [advance_ne (h := hne)]
      simp only []
      simp only [nlTok] at horph
      simp only [List.nil_append]
      rw [horph]
      simp only [ONode.node, nodeList, ONode.warns, warnsList, List.nil_append, List.reverse_nil, List.singleton_append]
      apply BlockParse.ok_pos_congr
      omega
  | cons c cs =>
    simp only [ONode.colsOk, List.isEmpty_cons, Bool.false_and, Bool.false_eq_true, if_false, colsOkList, Bool.and_eq_true, decide_eq_true_eq] at hc
    obtain ⟨hc1, hc2, hc3⟩ := hc
    have hlines : j + 1 + linesList (c :: cs) = j + 1 + c.lines + linesList cs := by simp only [linesList]; omega
    simp only [ONode.core, List.cons_append, List.length_cons, List.length_append, List.append_assoc, toksList_cons_succ,
      leadToks_succ_length, afterInd_length, hlines] at hF ⊢
    obtain ⟨F', rfl⟩ : ∃ F', F = F' + 1 := ⟨F - 1, by omega⟩
    obtain ⟨p', hch⟩ := ih F' (Nat.lt_succ_self _) c cs orph d (j + 1)
      { rest := afterInd pos (d + 1) c.lead (j + 1) ++ (c.core pos (d + 1) (j + 1 + c.lead.length)
          ++ (toksList pos cs (d + 1) (j + 1 + c.lines) ++ (leadToks pos (d + 1) orph (j + 1 + c.lines + linesList cs) ++ fl))),
        prev := some (indTok (d + 1) (pos (j + 1))), pos := n + 1 + 1 + 1 + 1, last := la, warnings := w, depth := dp, warned := wd,
        strict := s, threshold := th, alpha := al }
      fl [] [] rfl (stopsL_mono (by omega) hs) hc2 hc3 (by omega)
    refine ⟨p', ?_⟩
    rw [parseSection]
    step_simp [keyTok, blockTok, nlTok, pyStrVal_str]
    rw [skipWhitespace_newline (h := rfl) (h1 := by simp [indTok]) (h2 := by simp [indTok])]
    step_simp []
    rw [BlockParse.preIndentComments_stop (h1 := by simp [indTok]) (h2 := by simp [indTok])]
    have h6 : 2 * (d + 1) > (pos j).c1 - 1 := hc1
    step_simp [indTok, h6, decide_true, Option.isSome_none, advance_afterInd]
    simp only [indTok] at hch
    rw [hch]
    simp only [ONode.node, nodeList, ONode.warns, warnsList, List.nil_append]
    apply BlockParse.ok_pos_congr
    omega

/-- all three statements hold for every fuel (strong induction on the fuel). -/
theorem all_ok (pos : Nat → CPos) (F : Nat) : SecOK pos F ∧ ChildOK pos F ∧ LoopOK pos F := by
  induction F using Nat.strongRecOn with
  | _ F ih =>
    have hC : ∀ F' < F, ChildOK pos F' := fun F' h => (ih F' h).2.1
    exact ⟨sec_of pos F hC, child_of pos F (fun F' h => (ih F' h).1) (fun F' h => (ih F' h).2.2), loop_of pos F hC⟩

/-- **`parse_section` on a block with comments and orphans** (any depth, any children, any comments), called with the block's
leading comments, followed by a context that `stopsL` the block's depth: the Block node with exactly the children followed
by the orphans as `Comment` nodes; cursor at the context; `prev` is some token (the last one consumed). -/
theorem parseSection_oblock (pos : Nat → CPos) (key : Str) (cs : List ONode) (orph lead : List Str) (d j : Nat) (st : PState)
    (fl : List Token) (F : Nat) (hr : st.rest = (ONode.block key cs orph lead).core pos d j ++ fl) (hs : stopsL (2 * d + 1) fl = true)
    (hc : (ONode.block key cs orph lead).colsOk pos d j = true) (hF : ((ONode.block key cs orph lead).core pos d j).length ≤ F) :
    ∃ p' : Option Token, parseSection F lead st = .ok (some ((ONode.block key cs orph lead).node pos j),
      { st with rest := fl, prev := p',
                pos := st.pos + ((ONode.block key cs orph lead).core pos d j).length,
                warnings := ((ONode.block key cs orph lead).warns pos j).reverse ++ st.warnings }) :=
  (all_ok pos F).1 key cs orph lead d j st fl hr hs hc hF

/-- **the child loop of a block** from the start of a line: children (with comments) at depth `d + 1`, then orphan lines. -/
theorem blockLoop_oforest (pos : Nat → CPos) (cs : List ONode) (orph : List Str) (d i : Nat) (st : PState) (fl : List Token)
    (acc : List Node) (kp : KeyPos) (F : Nat)
    (hr : st.rest = toksList pos cs (d + 1) i ++ (leadToks pos (d + 1) orph (i + linesList cs) ++ fl))
    (hs : stopsL (2 * (d + 1)) fl = true)
    (hc : colsOkList pos cs (d + 1) i = true) (hF : (toksList pos cs (d + 1) i).length + 3 * orph.length + 1 ≤ F) :
    ∃ p' : Option Token, blockLoop F (2 * (d + 1)) 0 [] acc kp st
      = .ok (acc ++ (nodeList pos cs i ++ orph.map Node.comment),
      { st with rest := fl, prev := p',
                pos := st.pos + ((toksList pos cs (d + 1) i).length + 3 * orph.length),
                warnings := (warnsList pos cs kp i).reverse ++ st.warnings }) :=
  (all_ok pos F).2.2 cs orph d i st fl acc kp hr hs hc hF

/-! ## The body loop of `parseDocument` and the whole document -/

theorem toksList_cons_zero (pos : Nat → CPos) (c : ONode) (cs : List ONode) (i : Nat) (fl : List Token) :
    toksList pos (c :: cs) 0 i ++ fl
      = leadToks pos 0 c.lead i ++ (c.core pos 0 (i + c.lead.length) ++ (toksList pos cs 0 (i + c.lines) ++ fl)) := by
  rw [toksList]
  simp only [indToks, List.nil_append, List.append_assoc]

theorem toksList_cons_zero_length (pos : Nat → CPos) (c : ONode) (cs : List ONode) (i : Nat) :
    (toksList pos (c :: cs) 0 i).length
      = 2 * c.lead.length + (c.core pos 0 (i + c.lead.length)).length + (toksList pos cs 0 (i + c.lines)).length := by
  have h := congrArg List.length (toksList_cons_zero pos c cs i [])
  simp only [List.append_nil, List.length_append, leadToks0_length] at h
  omega

theorem core_head (pos : Nat → CPos) (c : ONode) (d j : Nat) (X : List Token) :
    ∃ K, c.core pos d j ++ X = keyTok c.key (pos j) :: K := by
  cases c with
  | line key v lead trail => exact ⟨_, rfl⟩
  | block key cs orph lead => exact ⟨_, rfl⟩

theorem cont_head0 (pos : Nat → CPos) (ci : Nat) (hci : 0 < ci) (cs : List ONode) (i : Nat) (trailing : List Str) (i' : Nat) (e : Token) (tail : List Token)
    (he : e.type = .envelopeEnd ∨ e.type = .eof) :
    stopsL ci (toksList pos cs 0 i ++ (leadToks pos 0 trailing i' ++ e :: tail)) = true := by
  cases cs with
  | nil =>
    simp only [toksList, List.nil_append]
    apply stopsL_lead0 (hci := hci) <;> rcases he with h | h <;> simp [h]
  | cons c cs =>
    rw [toksList_cons_zero]
    obtain ⟨K, hK⟩ := core_head pos c 0 (i + c.lead.length) (toksList pos cs 0 (i + c.lines) ++ (leadToks pos 0 trailing i' ++ e :: tail))
    rw [hK]
    apply stopsL_lead0 (hci := hci) <;> simp [keyTok]

/-- **the body loop of `parse_document`** on a forest with comments and orphans, followed by the document's trailing comment
lines and `===END===` (or EOF). -/
theorem docLoop_otree (pos : Nat → CPos) (vf : Nat) (trailing : List Str) (e : Token) (tail : List Token)
    (he : e.type = .envelopeEnd ∨ e.type = .eof) :
    ∀ (nodes : List ONode) (i : Nat) (st : PState) (acc : List Node) (kp : KeyPos) (fuel : Nat),
    st.rest = toksList pos nodes 0 i ++ (leadToks pos 0 trailing (i + linesList nodes) ++ e :: tail) →
    colsOkList pos nodes 0 i = true →
    (toksList pos nodes 0 i).length + 3 ≤ vf →
    (toksList pos nodes 0 i).length + 2 * trailing.length + 1 ≤ fuel →
    ∃ p' : Option Token, docLoop vf fuel [] acc kp st
      = .ok ((acc ++ nodeList pos nodes i, trailing),
             { st with rest := e :: tail, prev := p',
                       pos := st.pos + ((toksList pos nodes 0 i).length + 2 * trailing.length),
                       warnings := (warnsList pos nodes kp i).reverse ++ st.warnings })
  | [], i, st, acc, kp, fuel, hr, _, _, hfuel => by
    obtain ⟨rest, p, n, la, w, dp, wd, s, th, al⟩ := st
    simp only [toksList, List.nil_append, linesList, Nat.add_zero] at hr
    subst hr
    simp only [toksList, List.length_nil, Nat.zero_add] at hfuel ⊢
    obtain ⟨G, rfl⟩ : ∃ G, fuel = 2 * trailing.length + (G + 1) := ⟨fuel - 2 * trailing.length - 1, by omega⟩
    obtain ⟨p', h⟩ := docLoop_lead pos vf (e :: tail) (by simp) (G + 1) acc kp la w dp wd s th al trailing i [] p n
    refine ⟨p', ?_⟩
    rw [h, docLoop]
    step_simp [he]
    simp only [nodeList, List.append_nil, List.nil_append, warnsList, List.reverse_nil]
  | c :: r, i, st, acc, kp, fuel, hr, hc, hvf, hfuel => by
    obtain ⟨rest, p, n, la, w, dp, wd, s, th, al⟩ := st
    simp only at hr
    subst hr
    simp only [colsOkList, Bool.and_eq_true] at hc
    rw [toksList_cons_zero_length] at hvf hfuel
    have hlines : i + linesList (c :: r) = i + c.lines + linesList r := by simp only [linesList]; omega
    rw [hlines]
    obtain ⟨G, rfl⟩ : ∃ G, fuel = 2 * c.lead.length + (G + 1) := ⟨fuel - 2 * c.lead.length - 1, by omega⟩
    obtain ⟨p1, hl⟩ := docLoop_lead pos vf
      (c.core pos 0 (i + c.lead.length) ++ (toksList pos r 0 (i + c.lines) ++ (leadToks pos 0 trailing (i + c.lines + linesList r) ++ e :: tail)))
      (core_ne_nil pos c 0 _ _) (G + 1) acc kp la w dp wd s th al c.lead i [] p n
    rw [toksList_cons_zero, hl, List.nil_append]
    have hfl : toksList pos r 0 (i + c.lines) ++ (leadToks pos 0 trailing (i + c.lines + linesList r) ++ e :: tail) ≠ [] := by
      simp
    cases c with
    | line key v lead trail =>
      simp only [ONode.lead, ONode.lines] at hvf hfuel hc hfl ⊢
      have hlen : ((ONode.line key v lead trail).core pos 0 (i + lead.length)).length = 4 + trailLen trail := by
        cases trail <;> simp [ONode.core, trailToks, trailLen]
      rw [hlen] at hvf hfuel
      obtain ⟨vf0, rfl⟩ : ∃ vf0, vf = vf0 + 3 := ⟨vf - 3, by omega⟩
      obtain ⟨G', rfl⟩ : ∃ G', G = G' + 1 := ⟨G - 1, by omega⟩
      obtain ⟨p2, ih⟩ := docLoop_otree pos (vf0 + 3) trailing e tail he r (i + (lead.length + 1))
        { rest := toksList pos r 0 (i + (lead.length + 1)) ++ (leadToks pos 0 trailing (i + (lead.length + 1) + linesList r) ++ e :: tail),
          prev := some (nlTok (pos (i + lead.length))), pos := n + 2 * lead.length + 3 + trailLen trail + 1, last := la,
          warnings := (trackPure kp key (pos (i + lead.length)).l).2 ++ (lineWarns key v (pos (i + lead.length)) ++ w),
          depth := dp, warned := wd, strict := s, threshold := th, alpha := al }
        (acc ++ [Node.assign key v.val (pos (i + lead.length)).l (pos (i + lead.length)).c1 lead trail])
        (trackPure kp key (pos (i + lead.length)).l).1 G' rfl hc.2 (by omega) (by omega)
      refine ⟨p2, ?_⟩
      simp only [ONode.core, List.cons_append, List.nil_append, List.append_assoc]
      rw [docLoop]
      step_simp [keyTok]
      have hsec := parseSection_cline
        { rest := keyTok key (pos (i + lead.length)) :: assignTok (pos (i + lead.length)) :: v.tok (pos (i + lead.length)).l (pos (i + lead.length)).c3
            :: (trailToks trail (pos (i + lead.length)) ++ nlTok (pos (i + lead.length)) ::
                (toksList pos r 0 (i + (lead.length + 1)) ++ (leadToks pos 0 trailing (i + (lead.length + 1) + linesList r) ++ e :: tail))),
          prev := p1, pos := n + 2 * lead.length, last := la, warnings := w, depth := dp, warned := wd, strict := s, threshold := th, alpha := al }
        key v lead trail (pos (i + lead.length)) _ vf0 rfl
      simp only [keyTok] at hsec
      rw [hsec]
      step_simp [nodeAssignKey?, trackKey_eq]
      rw [docLoop]
      step_simp [nlTok]
      rw [advance_ne (h := hfl)]
      simp only []
      simp only [nlTok] at ih
      rw [ih]
      simp only [nodeList, ONode.node, ONode.lines, ONode.lead, warnsList, ONode.warns, trackNode,
        List.append_assoc, List.cons_append, List.nil_append, List.reverse_append,
        trackPure_warns_reverse, lineWarns_reverse, toksList_cons_zero_length, hlen]
      apply BlockParse.ok_pos_congr
      omega
    | block key cs orph lead =>
      simp only [ONode.lead] at hvf hfuel hc ⊢
      have hs' := cont_head0 pos 1 (by omega) r (i + (ONode.block key cs orph lead).lines) trailing (i + (ONode.block key cs orph lead).lines + linesList r) e tail he
      have hlen3 : 3 ≤ ((ONode.block key cs orph lead).core pos 0 (i + lead.length)).length := by
        simp only [ONode.core, List.length_cons]; omega
      obtain ⟨p2, hsec⟩ := parseSection_oblock pos key cs orph lead 0 (i + lead.length)
        { rest := (ONode.block key cs orph lead).core pos 0 (i + lead.length) ++ (toksList pos r 0 (i + (ONode.block key cs orph lead).lines)
            ++ (leadToks pos 0 trailing (i + (ONode.block key cs orph lead).lines + linesList r) ++ e :: tail)),
          prev := p1, pos := n + 2 * lead.length, last := la, warnings := w, depth := dp,
          warned := wd, strict := s, threshold := th, alpha := al } _ vf rfl hs' hc.1 (by omega)
      obtain ⟨p3, ih⟩ := docLoop_otree pos vf trailing e tail he r (i + (ONode.block key cs orph lead).lines)
        { rest := toksList pos r 0 (i + (ONode.block key cs orph lead).lines) ++ (leadToks pos 0 trailing (i + (ONode.block key cs orph lead).lines + linesList r) ++ e :: tail),
          prev := p2,
          pos := n + 2 * lead.length + ((ONode.block key cs orph lead).core pos 0 (i + lead.length)).length, last := la,
          warnings := ((ONode.block key cs orph lead).warns pos (i + lead.length)).reverse ++ w,
          depth := dp, warned := wd, strict := s, threshold := th, alpha := al }
        (acc ++ [(ONode.block key cs orph lead).node pos (i + lead.length)]) kp G rfl hc.2 (by omega) (by omega)
      refine ⟨p3, ?_⟩
      rw [docLoop]
      simp only [ONode.core, List.cons_append] at hsec ⊢
      step_simp [keyTok]
      simp only [keyTok] at hsec
      rw [hsec]
      step_simp [ONode.node, nodeAssignKey?]
      simp only [ONode.core, ONode.node, List.length_cons] at ih
      rw [ih]
      simp only [nodeList, ONode.node, ONode.lead, ONode.core, warnsList, ONode.warns, trackNode, toksList_cons_zero_length,
        List.append_assoc, List.cons_append, List.nil_append, List.reverse_append, List.length_cons]
      apply BlockParse.ok_pos_congr
      omega

/-- the token list of a document with comments and orphans. -/
def oTreeToks (f : Frame) (name : Str) (pos : Nat → CPos) (nodes : List ONode) (trailing : List Str) : List Token :=
  f.envTok name :: f.nl0Tok ::
    (toksList pos nodes 0 0 ++ (leadToks pos 0 trailing (linesList nodes) ++ [f.endTok, f.nl1Tok, f.eofTok]))

/-- the document it denotes. -/
def oTreeDoc (name : Str) (pos : Nat → CPos) (nodes : List ONode) (trailing : List Str) : Document :=
  { name := name, sections := nodeList pos nodes 0, trailingComments := trailing }

/-- the first top-level key is `META` and no comment line precedes it. -/
def metaFirstO : List ONode → Bool
  | c :: _ => c.lead.isEmpty && c.key == "META".toList
  | [] => false

theorem obody_head (f : Frame) (pos : Nat → CPos) (nodes : List ONode) (trailing : List Str) (hm : metaFirstO nodes = false) :
    ∃ u K, toksList pos nodes 0 0 ++ (leadToks pos 0 trailing (linesList nodes) ++ [f.endTok, f.nl1Tok, f.eofTok]) = u :: K ∧
      u.type ≠ TT.newline ∧ u.type ≠ TT.separator ∧ u.type ≠ TT.grammarSentinel ∧
      u.type ≠ TT.envelopeStart ∧ ¬(u.type = TT.identifier ∧ u.value = TVal.str "META".toList) := by
  cases nodes with
  | nil =>
    cases trailing with
    | nil => exact ⟨f.endTok, _, rfl, by simp [Frame.endTok], by simp [Frame.endTok], by simp [Frame.endTok], by simp [Frame.endTok], fun h => by cases h.1⟩
    | cons s t => exact ⟨cmtTok s _ _, _, rfl, by simp [cmtTok], by simp [cmtTok], by simp [cmtTok], by simp [cmtTok], fun h => by cases h.1⟩
  | cons c r =>
    rw [toksList_cons_zero]
    cases hl : c.lead with
    | nil =>
      obtain ⟨K, hK⟩ := core_head pos c 0 (0 + ([] : List Str).length) (toksList pos r 0 (0 + c.lines) ++ (leadToks pos 0 trailing (linesList (c :: r)) ++ [f.endTok, f.nl1Tok, f.eofTok]))
      refine ⟨keyTok c.key (pos (0 + ([] : List Str).length)), K, by rw [← hK]; rfl, by simp [keyTok], by simp [keyTok], by simp [keyTok], by simp [keyTok], fun h => ?_⟩
      have := h.2
      simp only [keyTok, TVal.str.injEq] at this
      simp only [metaFirstO, hl, List.isEmpty_nil, Bool.true_and, beq_eq_false_iff_ne, ne_eq] at hm
      exact hm this
    | cons s t => exact ⟨cmtTok s _ _, _, rfl, by simp [cmtTok], by simp [cmtTok], by simp [cmtTok], by simp [cmtTok], fun h => by cases h.1⟩

/-- **`parse_document` on a whole document with comments and orphans**, with the parser's own fuel. -/
theorem parseDocument_otree (f : Frame) (name : Str) (pos : Nat → CPos) (nodes : List ONode) (trailing : List Str) (st : PState)
    (hm : metaFirstO nodes = false) (hc : colsOkList pos nodes 0 0 = true) (hr : st.rest = oTreeToks f name pos nodes trailing) :
    parseDocument st
      = .ok (oTreeDoc name pos nodes trailing,
             { st with rest := [f.nl1Tok, f.eofTok], prev := some f.endTok,
                       pos := st.pos + ((toksList pos nodes 0 0).length + 2 * trailing.length) + 3,
                       warnings := (warnsList pos nodes [] 0).reverse ++ st.warnings }) := by
  obtain ⟨u, K, hK, h1, h3, h4, h5, h6⟩ := obody_head f pos nodes trailing hm
  have hlen : (toksList pos nodes 0 0).length + 2 * trailing.length + 2 = K.length := by
    have := congrArg List.length hK
    simp only [List.length_append, List.length_cons, List.length_nil, leadToks0_length] at this
    omega
  obtain ⟨rest, p, n0, la, w, dp, wd, s, th, al⟩ := st
  simp only at hr
  subst hr
  rw [oTreeToks, hK]
  unfold parseDocument
  simp (config := {zeta := false}) only [bind, StateT.bind, Except.bind, budget_mk]
  extract_lets n doc0 jp5 jp4 jp3 jp2 jp1
  obtain ⟨p', hdoc⟩ := docLoop_otree pos n trailing f.endTok [f.nl1Tok, f.eofTok] (Or.inl rfl) nodes 0
    { rest := u :: K, prev := some f.nl0Tok, pos := n0 + 1 + 1, last := la, warnings := w, depth := dp, warned := wd, strict := s, threshold := th, alpha := al }
    [] [] (2 * n) (by simp only [Nat.zero_add]; exact hK.symm) hc
    (by simp only [n, List.length_cons]; omega) (by simp only [n, List.length_cons]; omega)
  step_simp [Frame.envTok, Frame.nl0Tok, skipWhitespace_stop]
  simp only [jp1]
  step_simp []
  simp only [jp2]
  step_simp [skipWhitespace_false_nl, pyStrVal_str, h1]
  simp only [jp3]
  step_simp [h6]
  simp only [jp4]
  step_simp [h3]
  simp only [jp5]
  step_simp []
  simp only [Frame.nl0Tok] at hdoc
  rw [hdoc]
  step_simp [Frame.endTok]
  simp only [oTreeDoc, List.nil_append]
  apply BlockParse.ok_pos_congr
  omega

mutual
/-- every block key sits right after its indentation: `column = 2·d + 1` (what the lexer produces). -/
def ONode.canonCols (pos : Nat → CPos) : ONode → Nat → Nat → Bool
  | .line _ _ _ _, _, _ => true
  | .block _ cs _ _, d, j => decide ((pos j).c1 = 2 * d + 1) && canonColsList pos cs (d + 1) (j + 1)
def canonColsList (pos : Nat → CPos) : List ONode → Nat → Nat → Bool
  | [], _, _ => true
  | c :: cs, d, i => c.canonCols pos d (i + c.lead.length) && canonColsList pos cs d (i + c.lines)
end

mutual
theorem colsOk_of_canon (pos : Nat → CPos) : ∀ (c : ONode) (d j : Nat), c.canonCols pos d j = true → c.colsOk pos d j = true
  | .line _ _ _ _, _, _, _ => rfl
  | .block _ cs _ _, d, j, h => by
    simp only [ONode.canonCols, Bool.and_eq_true, decide_eq_true_eq] at h
    simp only [ONode.colsOk, Bool.and_eq_true, colsOkList_of_canon pos cs (d + 1) (j + 1) h.2, and_true]
    split <;> simp only [decide_eq_true_eq] <;> omega
theorem colsOkList_of_canon (pos : Nat → CPos) : ∀ (cs : List ONode) (d i : Nat), canonColsList pos cs d i = true → colsOkList pos cs d i = true
  | [], _, _, _ => rfl
  | c :: cs, d, i, h => by
    simp only [canonColsList, Bool.and_eq_true] at h
    simp only [colsOkList, Bool.and_eq_true]
    exact ⟨colsOk_of_canon pos c d _ h.1, colsOkList_of_canon pos cs d _ h.2⟩
end

end Octave.CommentOrphans
