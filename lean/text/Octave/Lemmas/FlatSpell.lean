import Octave.Lemmas.FlatBridge
/-!
Lenient SPELLINGS of a flat document (envelope line, `KEY::scalar` lines, `===END===`) — lexer half.

A spelling chooses, per line and independently: the indentation, the number of spaces before and after `::`, the number
of trailing spaces, any number of blank lines after the line (each either empty or holding only spaces), whether a bare
word is written in quotes, whether a string is written with triple quotes (around any one-line body that denotes it);
and, for the document: trailing spaces and blank lines after the envelope line, `===END===` present or omitted, its
indentation, trailing spaces after it, its final newline present or omitted, blank lines after it — or the text cut
right after the last line's value (`spellTextCut`).

This file defines the spelled text (`spellText`) and proves, on the `Run`/`Adv` infrastructure of `FlatLex`, that the
lexer reads it as exactly the expected token list (`tokenize_spelled`, `tokenize_spelled_cut`): the canonical tokens at
shifted positions, one INDENT per indented line, one extra NEWLINE per blank line, `normFrom = """` plus one normalisation
receipt per triple-quoted string, a STRING instead of an IDENTIFIER for a quoted word, and nothing after the last line
when `===END===` is omitted.

New lexer steps: `step_space` / `run_spaces` (a space in the middle of a line: one iteration each, no token),
`step_blank_spaces` (spaces on a line that holds nothing else: ONE iteration, NO token, the column stays 1),
`run_indent` (spaces before something: ONE iteration, one INDENT token), `step_bool'` / `step_null'` (keywords between
any non-word chars), `step_triple` with `tripleBody_append` (the triple-quote pattern does not look beyond its closing
`"""`), `run_sbody` / `run_sline` / `run_slines` / `run_front` / `run_end`; `tokenize_of_run` packages `normalize`, the tab
check and the fuel argument for any text whose lines are fence-free, tab-free and NFC-stable (`AllLines LineFine`).
-/
namespace Octave.Spell
open Lexer Scan Emitter

/-! ### spaces: the whitespace branch of `step` -/

def spaces (n : Nat) : Str := List.replicate n ' '

theorem spaces_succ (n : Nat) (rest : Str) : spaces (n + 1) ++ rest = ' ' :: (spaces n ++ rest) := rfl

theorem Run.step1 {env : Env} {lenient : Bool} {st st1 : LState} {s s1 : Str}
    (h : step env lenient st s = .ok (st1, s1)) (hne : s ≠ []) : Run env lenient 1 st s st1 s1 := by
  cases s with
  | nil => exact absurd rfl hne
  | cons c r => exact Run.one h

/-- one space in the middle of a line (`col ≠ 1`): consumed on its own, no token. -/
theorem step_space (env : Env) (lenient : Bool) (st : LState) (rest : Str) (hr : Ready st) (hc : st.col ≠ 1) :
    ∃ st', step env lenient st (' ' :: rest) = .ok (st', rest) ∧ Adv st st' [] [] 0 (st.col + 1) (some ' ') := by
  have hc' : (st.col == 1) = false := by simpa using hc
  refine ⟨{ st with pos := st.pos + 1, prev := some ' ', col := st.col + 1, blank := false }, ?_, ?_⟩
  · unfold step
    simp only [hr.noSpan, hc', Bool.false_eq_true, if_false, beq_self_eq_true, if_true]
  · exact ⟨⟨hr.spans, rfl⟩, rfl, rfl, rfl, rfl, rfl, rfl⟩

/-- `prev` after `n` spaces. -/
def prevAfterSpaces (n : Nat) (p : Option Char) : Option Char := if n = 0 then p else some ' '

/-- `n` spaces in the middle of a line: `n` iterations, no token, column + `n`. -/
theorem run_spaces (env : Env) (lenient : Bool) : ∀ (n : Nat) (st : LState) (rest : Str), Ready st → 2 ≤ st.col →
    ∃ st', Run env lenient n st (spaces n ++ rest) st' rest ∧
      Adv st st' [] [] 0 (st.col + n) (prevAfterSpaces n st.prev) := by
  intro n
  induction n with
  | zero =>
    intro st rest hr _
    exact ⟨st, by simpa [spaces] using Run.refl st rest, ⟨hr, rfl, rfl, rfl, rfl, rfl, rfl⟩⟩
  | succ n ih =>
    intro st rest hr hc
    obtain ⟨s1, e1, a1⟩ := step_space env lenient st (spaces n ++ rest) hr (by omega)
    obtain ⟨s2, r2, a2⟩ := ih s1 rest a1.ready (by rw [a1.col]; omega)
    refine ⟨s2, ?_, ?_⟩
    · rw [spaces_succ]
      exact Run.cons e1 r2
    · have h := a1.trans a2
      rw [a1.col] at h
      refine ⟨h.ready, h.toks, h.repairs, h.stack, h.line, ?_, ?_⟩
      · rw [h.col]; omega
      · rw [h.prev, a1.prev]
        cases n <;> rfl

/-! ### blank lines: empty, or holding only spaces -/

theorem takeWhile_spaces (n : Nat) (rest : Str) (h : rest.head? ≠ some ' ') :
    takeWhile (· == ' ') (spaces n ++ rest) = (spaces n, rest) := by
  apply takeWhile_append_stop
  · intro x hx
    have : x = ' ' := by simpa [spaces] using (List.mem_replicate.mp hx).2
    subst this; rfl
  · intro d hd
    have : d ≠ ' ' := by intro e; subst e; exact h hd
    simpa using this

/-- spaces at the start of a line that holds nothing else: the whole run is consumed in one iteration and
produces NO token; the column stays 1 (as in `tokenize`: `column` is only advanced when an INDENT token is emitted). -/
theorem step_blank_spaces (env : Env) (lenient : Bool) (st : LState) (k : Nat) (rest : Str) (hr : Ready st) (hc : st.col = 1) :
    ∃ st', step env lenient st (spaces (k + 1) ++ '\n' :: rest) = .ok (st', '\n' :: rest) ∧
      Adv st st' [] [] 0 1 (some ' ') := by
  have hc' : (st.col == 1) = true := by simpa using hc
  have htw := takeWhile_spaces (k + 1) ('\n' :: rest) (by simp)
  rw [spaces_succ] at htw
  refine ⟨{ st with pos := st.pos + (k + 1), prev := some ' ', blank := false }, ?_, ?_⟩
  · rw [spaces_succ]
    unfold step
    simp only [hr.noSpan, hc', Bool.false_eq_true, if_false, beq_self_eq_true, if_true, htw]
    simp [spaces]
  · exact ⟨⟨hr.spans, rfl⟩, rfl, rfl, rfl, rfl, hc, rfl⟩

/-- text of blank lines: line `i` holds `ks[i]` spaces. -/
def blanksText : List Nat → Str → Str
  | [], rest => rest
  | k :: ks, rest => spaces k ++ '\n' :: blanksText ks rest

/-- their NEWLINE tokens (newest first): one per blank line, at column 1. -/
def blankToksRev (l : Nat) : List Nat → List Token
  | [] => []
  | _ :: ks => blankToksRev (l + 1) ks ++ [tNewline l 1]

/-- one blank line: a NEWLINE token at column 1 (whatever number of spaces the line holds). -/
theorem run_blank (env : Env) (lenient : Bool) (st : LState) (k : Nat) (rest : Str) (hr : Ready st) (hc : st.col = 1) :
    ∃ n st', Run env lenient n st (spaces k ++ '\n' :: rest) st' rest ∧
      Adv st st' [tNewline st.line 1] [] 1 1 (some '\n') := by
  cases k with
  | zero =>
    obtain ⟨s1, e1, a1⟩ := step_newline env lenient st rest hr
    rw [hc] at a1
    exact ⟨1, s1, by simpa [spaces] using Run.one e1, a1⟩
  | succ k =>
    obtain ⟨s1, e1, a1⟩ := step_blank_spaces env lenient st k rest hr hc
    obtain ⟨s2, e2, a2⟩ := step_newline env lenient s1 rest a1.ready
    refine ⟨2, s2, Run.cons (by rw [spaces_succ] at e1; exact e1) (Run.one e2), ?_⟩
    have h := a1.trans a2
    rw [a1.line, a1.col] at h
    exact ⟨h.ready, by rw [h.toks]; rfl, h.repairs, h.stack, h.line, h.col, h.prev⟩

theorem run_blanks (env : Env) (lenient : Bool) : ∀ (ks : List Nat) (st : LState) (rest : Str), Ready st → st.col = 1 →
    ∃ n st', Run env lenient n st (blanksText ks rest) st' rest ∧
      AdvL st st' (blankToksRev st.line ks) [] ks.length := by
  intro ks
  induction ks with
  | nil =>
    intro st rest hr hc
    exact ⟨0, st, Run.refl _ _, ⟨hr, rfl, rfl, rfl, rfl, hc⟩⟩
  | cons k ks ih =>
    intro st rest hr hc
    obtain ⟨n1, s1, r1, a1⟩ := run_blank env lenient st k (blanksText ks rest) hr hc
    obtain ⟨n2, s2, r2, a2⟩ := ih s1 rest a1.ready a1.col
    refine ⟨n1 + n2, s2, Run.trans r1 r2, ?_⟩
    refine ⟨a2.ready, ?_, ?_, ?_, ?_, a2.col⟩
    · rw [a2.toks, a1.toks, a1.line]; simp [blankToksRev]
    · rw [a2.repairs, a1.repairs]; rfl
    · rw [a2.stack, a1.stack]
    · rw [a2.line, a1.line]; simp; omega

/-! ### keywords after `::` or spaces, before a space, a line end or the end of the input -/

/-- no char, or a char that is not a word char (`\w`). -/
def NonWord (env : Env) (o : Option Char) : Prop := ∀ c, o = some c → env.word c = false

theorem nonWord_none (env : Env) : NonWord env none := by intro c h; cases h
theorem nonWord_colon (env : Env) : NonWord env (some ':') := by
  intro c h; cases h; exact word_colon env
theorem word_space (env : Env) : env.word ' ' = false := by simp [Env.word, isAscii, isAlnumA, isAlphaA, isDigitA, isUpper, isLower]
theorem nonWord_space (env : Env) : NonWord env (some ' ') := by
  intro c h; cases h; exact word_space env

theorem boundary_left (env : Env) (prev : Option Char) (c : Char) (hp : NonWord env prev) (hc : env.word c = true) :
    env.boundary prev (some c) = true := by
  cases prev with
  | none => simp [Env.boundary, hc]
  | some p => simp [Env.boundary, hc, hp p rfl]

theorem boundary_right (env : Env) (c : Char) (next : Option Char) (hc : env.word c = true) (hn : NonWord env next) :
    env.boundary (some c) next = true := by
  cases next with
  | none => simp [Env.boundary, hc]
  | some p => simp [Env.boundary, hc, hn p rfl]

/-- a keyword pattern `\bword\b` matches when the chars around it are not word chars. -/
theorem kw_ok (env : Env) (prev : Option Char) (c0 : Char) (w rest : Str) (cl : Char)
    (hl : (c0 :: w).getLast? = some cl) (h0 : env.word c0 = true) (hcl : env.word cl = true)
    (hp : NonWord env prev) (hr : NonWord env rest.head?) :
    kw env prev (c0 :: w) (c0 :: (w ++ rest)) = some rest := by
  have hlit : lit (c0 :: w) (c0 :: (w ++ rest)) = some rest := lit_append (c0 :: w) rest
  unfold kw
  rw [hlit, hl]
  simp only [List.head?_cons, boundary_left env prev c0 hp h0, boundary_right env cl _ hcl hr, Bool.and_self, if_true]

theorem matchPattern_bool (env : Env) (prev : Option Char) (b : Bool) (rest : Str)
    (hp : NonWord env prev) (hr : NonWord env rest.head?) :
    matchPattern env false prev ((if b then "true".toList else "false".toList) ++ rest) = .ok (some (mBool b rest)) := by
  cases b with
  | true =>
    have hd : env.isDigit 't' = false := isDigit_ascii_false env 't' (by decide) (by decide)
    show matchPattern env false prev ('t' :: ("rue".toList ++ rest)) = _
    unfold matchPattern
    simp only [Bool.false_eq_true, if_false, hd]
    have hk : kw env prev "true".toList ('t' :: ("rue".toList ++ rest)) = some rest :=
      kw_ok env prev 't' "rue".toList rest 'e' (by decide) (word_lower env 't' (by decide)) (word_lower env 'e' (by decide)) hp hr
    have : matchKeyword env prev 't' ('t' :: ("rue".toList ++ rest)) = some (mBool true rest) := by
      unfold matchKeyword
      simp only [hk]
      rfl
    rw [if_neg (by decide), if_neg (by decide), if_neg (by decide), if_pos (by decide), this]
  | false =>
    have hd : env.isDigit 'f' = false := isDigit_ascii_false env 'f' (by decide) (by decide)
    show matchPattern env false prev ('f' :: ("alse".toList ++ rest)) = _
    unfold matchPattern
    simp only [Bool.false_eq_true, if_false, hd]
    have hk : kw env prev "false".toList ('f' :: ("alse".toList ++ rest)) = some rest :=
      kw_ok env prev 'f' "alse".toList rest 'e' (by decide) (word_lower env 'f' (by decide)) (word_lower env 'e' (by decide)) hp hr
    have : matchKeyword env prev 'f' ('f' :: ("alse".toList ++ rest)) = some (mBool false rest) := by
      unfold matchKeyword
      simp only [hk]
      rfl
    rw [if_neg (by decide), if_neg (by decide), if_neg (by decide), if_pos (by decide), this]

theorem matchPattern_null' (env : Env) (prev : Option Char) (rest : Str)
    (hp : NonWord env prev) (hr : NonWord env rest.head?) :
    matchPattern env false prev ("null".toList ++ rest) = .ok (some (mNull rest)) := by
  have hd : env.isDigit 'n' = false := isDigit_ascii_false env 'n' (by decide) (by decide)
  show matchPattern env false prev ('n' :: ("ull".toList ++ rest)) = _
  unfold matchPattern
  simp only [Bool.false_eq_true, if_false, hd]
  have hk : kw env prev "null".toList ('n' :: ("ull".toList ++ rest)) = some rest :=
    kw_ok env prev 'n' "ull".toList rest 'l' (by decide) (word_lower env 'n' (by decide)) (word_lower env 'l' (by decide)) hp hr
  have : matchKeyword env prev 'n' ('n' :: ("ull".toList ++ rest)) = some (mNull rest) := by
    unfold matchKeyword
    simp only [hk]
    rfl
  rw [if_neg (by decide), if_neg (by decide), if_neg (by decide), if_pos (by decide), this]

/-- `true` / `false` between non-word chars: one BOOLEAN token. -/
theorem step_bool' (env : Env) (lenient : Bool) (st : LState) (b : Bool) (rest : Str) (hr : Ready st)
    (hp : NonWord env st.prev) (hn : NonWord env rest.head?) :
    ∃ st', step env lenient st ((if b then "true".toList else "false".toList) ++ rest) = .ok (st', rest) ∧
      Adv st st' [tBool b st.line st.col] [] 0 (st.col + (if b then "true".toList else "false".toList).length) (some 'e') := by
  have hm := matchPattern_bool env st.prev b rest hp hn
  rw [← hr.blank] at hm
  cases b with
  | true =>
    refine ⟨_, pattern_step_eq env lenient st 't' _ (mBool true rest) hr.noSpan (by decide) hm (by simp [mBool]) (by simp [mBool]), ?_⟩
    refine ⟨⟨hr.spans, by simp [patNext, hr.blank]⟩, rfl, rfl, rfl, ?_, ?_, rfl⟩
    · simp [patNext, mBool, advancePos]
    · simp [patNext, mBool, advancePos]
  | false =>
    refine ⟨_, pattern_step_eq env lenient st 'f' _ (mBool false rest) hr.noSpan (by decide) hm (by simp [mBool]) (by simp [mBool]), ?_⟩
    refine ⟨⟨hr.spans, by simp [patNext, hr.blank]⟩, rfl, rfl, rfl, ?_, ?_, rfl⟩
    · simp [patNext, mBool, advancePos]
    · simp [patNext, mBool, advancePos]

/-- `null` between non-word chars: one NULL token. -/
theorem step_null' (env : Env) (lenient : Bool) (st : LState) (rest : Str) (hr : Ready st)
    (hp : NonWord env st.prev) (hn : NonWord env rest.head?) :
    ∃ st', step env lenient st ("null".toList ++ rest) = .ok (st', rest) ∧
      Adv st st' [tNull st.line st.col] [] 0 (st.col + 4) (some 'l') := by
  have hm := matchPattern_null' env st.prev rest hp hn
  rw [← hr.blank] at hm
  refine ⟨_, pattern_step_eq env lenient st 'n' _ (mNull rest) hr.noSpan (by decide) hm (by simp [mNull]) (by simp [mNull]), ?_⟩
  refine ⟨⟨hr.spans, by simp [patNext, hr.blank]⟩, rfl, rfl, rfl, ?_, ?_, rfl⟩
  · simp [patNext, mNull, advancePos]
  · simp [patNext, mNull, advancePos]

/-! ### triple-quoted strings -/

/-- a string written with triple quotes around the raw body `b`. -/
def tq (b : Str) : Str := "\"\"\"".toList ++ b ++ "\"\"\"".toList

theorem tripleBody_cons_plain (c : Char) (r : Str) (h1 : c ≠ '"') (h2 : c ≠ '\\') :
    tripleBody (c :: r) = (tripleBody r).map fun (a, b) => (c :: a, b) := by
  rw [tripleBody]
  all_goals simp_all

theorem tripleBody_quote (r : Str) (h : ∀ t, r ≠ '"' :: '"' :: t) :
    tripleBody ('"' :: r) = (tripleBody r).map fun (a, b) => ('"' :: a, b) := by
  rw [tripleBody]
  intro t ht
  exact h t ht

theorem tripleBody_bs (c : Char) (r : Str) :
    tripleBody ('\\' :: c :: r) = if c == '\n' then none else (tripleBody r).map fun (a, b) => ('\\' :: c :: a, b) := by
  rw [tripleBody]

theorem map_some_inv {α β : Type} (f : α → β) (o : Option α) (y : β) (h : o.map f = some y) : ∃ x, o = some x ∧ f x = y := by
  cases o with
  | none => cases h
  | some x => exact ⟨x, rfl, by simpa using h⟩

/-- the triple-quoted STRING pattern does not look beyond the closing `"""` it stops at: whatever is appended to the
input stays in the rest. -/
theorem tripleBody_append (x rest : Str) : ∀ (b r : Str), tripleBody x = some (b, r) → tripleBody (x ++ rest) = some (b, r ++ rest) := by
  fun_induction tripleBody x with
  | case1 => intro b r h; cases h
  | case2 r0 => intro b r h; simp at h; obtain ⟨rfl, rfl⟩ := h; simp [tripleBody]
  | case3 r0 hno ih =>
    intro b r h
    obtain ⟨⟨a, r1⟩, h1, h2⟩ := map_some_inv _ _ _ h
    simp only [Prod.mk.injEq] at h2
    obtain ⟨rfl, rfl⟩ := h2
    have hno' : ∀ t, r0 ++ rest ≠ '"' :: '"' :: t := by
      intro t ht
      rcases r0 with _ | ⟨c, _ | ⟨d, r'⟩⟩
      · simp [tripleBody] at h1
      · simp only [List.cons_append, List.nil_append, List.cons.injEq] at ht
        obtain ⟨rfl, _⟩ := ht
        simp [tripleBody] at h1
      · simp only [List.cons_append, List.cons.injEq] at ht
        obtain ⟨rfl, rfl, _⟩ := ht
        exact hno r' rfl
    show tripleBody ('"' :: (r0 ++ rest)) = _
    rw [tripleBody_quote _ hno', ih a r1 h1]
    rfl
  | case4 c r0 hc =>
    intro b r h; cases h
  | case5 c r0 hc ih =>
    intro b r h
    obtain ⟨⟨a, r1⟩, h1, h2⟩ := map_some_inv _ _ _ h
    simp only [Prod.mk.injEq] at h2
    obtain ⟨rfl, rfl⟩ := h2
    show tripleBody ('\\' :: c :: (r0 ++ rest)) = _
    rw [tripleBody_bs, ih a r1 h1]
    simp [hc]
  | case6 => intro b r h; cases h
  | case7 c r0 h1 h2 h3 h4 ih =>
    intro b r h
    obtain ⟨⟨a, r1⟩, h5, h6⟩ := map_some_inv _ _ _ h
    simp only [Prod.mk.injEq] at h6
    obtain ⟨rfl, rfl⟩ := h6
    have hq : c ≠ '"' := fun e => h2 e
    have hb : c ≠ '\\' := by
      intro e
      cases r0 with
      | nil => exact h4 e rfl
      | cons d r' => exact h3 d r' e rfl
    show tripleBody (c :: (r0 ++ rest)) = _
    rw [tripleBody_cons_plain c _ hq hb, ih a r1 h5]
    rfl

/-- `b` is a one-line body of a triple-quoted string: the pattern `"""(?:[^"\\]|\\.|"(?!""))*"""` stops exactly at the
closing `"""` written after `b` (so `b` does not end in `"` or in an odd backslash and contains no `"""`), and `b` holds
neither a line break nor a tab.  Decidable. -/
def tripleBodyOK (b : Str) : Bool :=
  (tripleBody (b ++ "\"\"\"".toList) == some (b, [])) && b.all (fun c => c != '\n' && c != '\t')

theorem tripleBodyOK_scan (b rest : Str) (h : tripleBodyOK b = true) :
    tripleBody (b ++ '"' :: '"' :: '"' :: rest) = some (b, rest) := by
  simp only [tripleBodyOK, Bool.and_eq_true, beq_iff_eq] at h
  have := tripleBody_append (b ++ "\"\"\"".toList) rest b [] h.1
  simpa [List.append_assoc] using this

theorem tripleBodyOK_clean (b : Str) (h : tripleBodyOK b = true) : Clean b := by
  simp only [tripleBodyOK, Bool.and_eq_true] at h
  exact clean_lit b h.2

/-- the triple-quoted STRING pattern reads an escaped body up to the closing `"""`, whatever follows. -/
theorem tripleBody_escape (s rest : Str) :
    tripleBody (escape s ++ '"' :: '"' :: '"' :: rest) = some (escape s, rest) := by
  fun_induction escape s with
  | case1 => simp [tripleBody]
  | case2 cs ih => simp [tripleBody, ih]
  | case3 cs ih => simp [tripleBody, ih]
  | case4 cs ih => simp [tripleBody, ih]
  | case5 cs ih => simp [tripleBody, ih]
  | case6 c cs h1 h2 h3 h4 ih =>
    simp only [List.cons_append]
    rw [tripleBody_cons_plain c _ (by intro h; exact h2 h) (by intro h; exact h1 h), ih]
    rfl

/-- the escaped form of ANY string (the body of its canonical quoted spelling) is a one-line triple-quote body. -/
theorem tripleBodyOK_escape (s : Str) : tripleBodyOK (escape s) = true := by
  simp only [tripleBodyOK, Bool.and_eq_true, beq_iff_eq, List.all_eq_true]
  refine ⟨tripleBody_escape s [], fun d hd => ?_⟩
  have := escape_no_raw s d hd
  simp [this.1, this.2]

/-- a string with none of the four escaped chars is its own escaped form (so it is its own triple-quote body). -/
theorem escape_plain (s : Str) (h : ∀ c ∈ s, c ≠ '\\' ∧ c ≠ '"' ∧ c ≠ '\n' ∧ c ≠ '\t') : escape s = s := by
  induction s with
  | nil => rfl
  | cons c cs ih =>
    obtain ⟨h1, h2, h3, h4⟩ := h c (by simp)
    have := ih (fun d hd => h d (by simp [hd]))
    rw [escape]
    · rw [this]
    all_goals simp_all

def tTriple (s : Str) (l c : Nat) : Token :=
  { type := .string, value := .str s, line := l, col := c, normFrom := some "\"\"\"".toList }

theorem tq_clean (b : Str) (hb : tripleBodyOK b = true) : Clean (tq b) := by
  intro d hd
  simp only [tq, List.mem_append] at hd
  rcases hd with (h | h) | h
  · constructor <;> (intro he; subst he; revert h; decide)
  · exact tripleBodyOK_clean b hb d h
  · constructor <;> (intro he; subst he; revert h; decide)

theorem tq_getLast (b : Str) : (tq b).getLast? = some '"' := by
  unfold tq
  rw [List.getLast?_append]; rfl

/-- a triple-quoted string with one-line body `b`: one STRING token carrying `unescape b`, marked `normFrom = """`, and
exactly one normalisation receipt. -/
theorem step_triple (env : Env) (lenient : Bool) (st : LState) (b rest : Str) (hr : Ready st) (hb : tripleBodyOK b = true) :
    ∃ st', step env lenient st (tq b ++ rest) = .ok (st', rest) ∧
      Adv st st' [tTriple (unescape b) st.line st.col] [Repair.normalization "\"\"\"".toList (.str (unescape b)) st.line st.col] 0
        (st.col + (tq b).length) (some '"') := by
  let m : Match := { type := .string, value := .str (unescape b), text := tq b, rest := rest, normFrom := some "\"\"\"".toList }
  have hshape : tq b ++ rest = '"' :: ('"' :: '"' :: (b ++ '"' :: '"' :: '"' :: rest)) := by simp [tq]
  have hm0 : matchPattern env false st.prev ('"' :: ('"' :: '"' :: (b ++ '"' :: '"' :: '"' :: rest))) = .ok (some m) := by
    have hscan := tripleBodyOK_scan b rest hb
    unfold matchPattern
    simp only [Bool.false_eq_true, if_false, Env.isDigit, Env.digit?, isAscii, isDigitA]
    have e : matchQuote ('"' :: ('"' :: '"' :: (b ++ '"' :: '"' :: '"' :: rest))) ('"' :: '"' :: (b ++ '"' :: '"' :: '"' :: rest)) = some m := by
      have h3 : lit "\"\"\"".toList ('"' :: ('"' :: '"' :: (b ++ '"' :: '"' :: '"' :: rest))) = some (b ++ '"' :: '"' :: '"' :: rest) :=
        lit_append "\"\"\"".toList _
      unfold matchQuote
      simp only [h3, hscan, Option.map_some]
      rfl
    simp [e]
  have hm : matchPattern env st.blank st.prev ('"' :: ('"' :: '"' :: (b ++ '"' :: '"' :: '"' :: rest))) = .ok (some m) := by
    rw [hr.blank]; exact hm0
  have hstep := pattern_step_eq env lenient st '"' _ m hr.noSpan (by decide) hm (by simp [m]) (by simp [m])
  refine ⟨_, by rw [hshape]; exact hstep, ?_⟩
  have hadv := advancePos_noNl st.line st.col (tq b) (fun d hd => (tq_clean b hb d hd).1)
  refine ⟨⟨hr.spans, by simp [patNext, hr.blank]⟩, rfl, rfl, rfl, ?_, ?_, ?_⟩
  · simp [patNext, m, hadv]
  · simp [patNext, m, hadv]
  · simp [patNext, m, tq_getLast]

/-! ### spelled scalar values -/

/-- a scalar value as one of its spellings: quoted string, triple-quoted string (given by its raw body), bare word,
boolean, null, integer. -/
inductive SVal where
  | quo (s : Str)
  | tri (body : Str)
  | word (s : Str)
  | bool (b : Bool)
  | null
  | int (i : Int)
  deriving Repr, DecidableEq

def SVal.OK : SVal → Prop
  | .word s => isIdentifierText s = true ∧ hasReservedPrefix s = false
  | .tri b => tripleBodyOK b = true
  | .int i => (natStr i.natAbs).length ≤ 4300
  | _ => True

def SVal.text : SVal → Str
  | .quo s => quoted s
  | .tri s => tq s
  | .word s => s
  | .bool b => if b then "true".toList else "false".toList
  | .null => "null".toList
  | .int i => intStr i

def SVal.tok (l c : Nat) : SVal → Token
  | .quo s => tString s l c
  | .tri s => tTriple (unescape s) l c
  | .word s => tIdent s l c
  | .bool b => tBool b l c
  | .null => tNull l c
  | .int i => tInt i l c

/-- receipts of the value, newest first (as `LState.repairs` keeps them). -/
def SVal.repsRev (l c : Nat) : SVal → List Repair
  | .tri s => [Repair.normalization "\"\"\"".toList (.str (unescape s)) l c]
  | .word s => (identifierRepairs s l c).reverse
  | _ => []

/-- what follows a value on its line: a space, the line end, or the end of the input. -/
def LineEnd (rest : Str) : Prop := ∀ d, rest.head? = some d → d = ' ' ∨ d = '\n'

theorem lineEnd_nil : LineEnd [] := by intro d h; cases h
theorem lineEnd_nl (rest : Str) : LineEnd ('\n' :: rest) := by
  intro d h; right; simpa using h.symm
theorem lineEnd_spaces (n : Nat) (rest : Str) (h : LineEnd rest) : LineEnd (spaces n ++ rest) := by
  cases n with
  | zero => simpa [spaces] using h
  | succ n => intro d hd; left; rw [spaces_succ] at hd; simpa using hd.symm

theorem LineEnd.termOK {rest : Str} (h : LineEnd rest) (env : Env) : TermOK env rest := by
  intro d hd
  rcases h d hd with rfl | rfl
  · refine ⟨?_, by decide, by decide, by decide⟩
    simp [Env.idChar, isAscii, isAlnumA, isAlphaA, isDigitA, isUpper, isLower]
  · refine ⟨?_, by decide, by decide, by decide⟩
    simp [Env.idChar, isAscii, isAlnumA, isAlphaA, isDigitA, isUpper, isLower]

theorem LineEnd.nonWord {rest : Str} (h : LineEnd rest) (env : Env) : NonWord env rest.head? := by
  intro d hd
  rcases h d hd with rfl | rfl
  · exact word_space env
  · exact word_nl env

theorem LineEnd.numTerm {rest : Str} (h : LineEnd rest) (env : Env) : NumTerm env rest := by
  intro d hd
  rcases h d hd with rfl | rfl
  · exact (floatTerm_space env []).num ' ' rfl
  · exact (floatTerm_nl env []).num '\n' rfl

theorem LineEnd.noQuote {rest : Str} (h : LineEnd rest) : rest.head? ≠ some '"' := by
  intro hq
  rcases h '"' hq with h' | h' <;> cases h'

/-- **one spelled value** after `::` (and spaces), before spaces / the line end / the end of the input: one token. -/
theorem step_sval (env : Env) (lenient : Bool) (st : LState) (v : SVal) (rest : Str) (hr : Ready st)
    (hp : NonWord env st.prev) (hend : LineEnd rest) (hv : v.OK) :
    ∃ st' p, step env lenient st (v.text ++ rest) = .ok (st', rest) ∧
      Adv st st' [v.tok st.line st.col] (v.repsRev st.line st.col) 0 (st.col + v.text.length) p := by
  cases v with
  | quo s =>
    obtain ⟨st', h1, h2⟩ := step_quoted env lenient st s rest hr hend.noQuote
    exact ⟨st', _, h1, h2⟩
  | tri s =>
    obtain ⟨st', h1, h2⟩ := step_triple env lenient st s rest hr hv
    exact ⟨st', _, h1, h2⟩
  | word s =>
    obtain ⟨st', h1, h2⟩ := step_ident env lenient st s rest hr hv.1 hv.2 (hend.termOK env)
    exact ⟨st', _, h1, h2⟩
  | bool b =>
    obtain ⟨st', h1, h2⟩ := step_bool' env lenient st b rest hr hp (hend.nonWord env)
    exact ⟨st', some 'e', h1, h2⟩
  | null =>
    obtain ⟨st', h1, h2⟩ := step_null' env lenient st rest hr hp (hend.nonWord env)
    exact ⟨st', _, h1, h2⟩
  | int i =>
    obtain ⟨st', h1, h2⟩ := step_int env lenient st i rest hr (hend.numTerm env) hv
    exact ⟨st', _, h1, h2⟩

theorem sval_clean (v : SVal) (hv : v.OK) : Clean v.text := by
  cases v with
  | quo s => exact quoted_clean s
  | tri s => exact tq_clean s hv
  | word s => exact identText_clean s hv.1
  | bool b => cases b <;> exact clean_lit _ (by decide)
  | null => exact clean_lit _ (by decide)
  | int i => exact intStr_clean i

/-! ### indentation: spaces at the start of a line that holds something -/

def tIndent (n l c : Nat) : Token := { type := .indent, value := .nat n, line := l, col := c }

/-- the INDENT token of `n` leading spaces (none when `n = 0`). -/
def indentToksRev (n l : Nat) : List Token := if n = 0 then [] else [tIndent n l 1]

/-- what follows the indentation: a char that is neither a space nor a line end. -/
def Solid (rest : Str) : Prop := ∃ d r, rest = d :: r ∧ d ≠ ' ' ∧ d ≠ '\n'

/-- the state after the INDENT step. -/
def indState (st : LState) (n : Nat) : LState :=
  { st with pos := st.pos + n, prev := some ' ', col := st.col + n, blank := false,
            toks := { type := .indent, value := .nat n, line := st.line, col := st.col } :: st.toks }

/-- leading spaces of a line that holds something else: ONE iteration consumes the whole run and produces one INDENT
token carrying the width; the column advances by the width. -/
theorem run_indent (env : Env) (lenient : Bool) (st : LState) (n : Nat) (rest : Str) (hr : Ready st) (hc : st.col = 1)
    (hs : Solid rest) :
    ∃ k st', Run env lenient k st (spaces n ++ rest) st' rest ∧
      Adv st st' (indentToksRev n st.line) [] 0 (1 + n) (prevAfterSpaces n st.prev) := by
  cases n with
  | zero =>
    exact ⟨0, st, by simpa [spaces] using Run.refl st rest, ⟨hr, rfl, rfl, rfl, rfl, by rw [hc], rfl⟩⟩
  | succ m =>
    obtain ⟨d, r, rfl, hd1, hd2⟩ := hs
    have hc' : (st.col == 1) = true := by simpa using hc
    have htw := takeWhile_spaces (m + 1) (d :: r) (by simpa using hd1)
    rw [spaces_succ] at htw
    have hd2' : (d != '\n') = true := by simpa using hd2
    have hstep : step env lenient st (' ' :: (spaces m ++ d :: r)) = .ok (indState st (m + 1), d :: r) := by
      unfold step
      simp only [hr.noSpan, hc', Bool.false_eq_true, if_false, beq_self_eq_true, if_true, htw, hd2']
      simp [spaces, indState]
    refine ⟨1, _, by rw [spaces_succ]; exact Run.one hstep, ?_⟩
    refine ⟨⟨hr.spans, rfl⟩, ?_, rfl, rfl, rfl, ?_, rfl⟩
    · simp [indState, indentToksRev, tIndent, hc]
    · simp [indState, hc]

theorem fenceLine_indented (n : Nat) (a : Str) (h : ∀ c, a.head? = some c → c ≠ ' ' ∧ c ≠ '`') :
    fenceLine (spaces n ++ a) = none := by
  have h1 := takeWhile_spaces n a (fun hh => (h ' ' hh).1 rfl)
  have h2 : takeWhile (· == '`') a = ([], a) := by
    cases a with
    | nil => rfl
    | cons c r =>
      have : (c == '`') = false := by simpa using (h c rfl).2
      simp [takeWhile, this]
  simp [fenceLine, h1, h2]

/-! ### the spelling of one line -/

/-- the lenient freedoms of one line `KEY::value`. -/
structure LSpell where
  /-- leading spaces (indentation) -/
  indent : Nat := 0
  /-- spaces before `::` -/
  pre : Nat := 0
  /-- spaces after `::` -/
  post : Nat := 0
  /-- trailing spaces -/
  trail : Nat := 0
  /-- blank lines after the line: line `i` holds `blank[i]` spaces and nothing else -/
  blank : List Nat := []
  /-- a bare word is written in quotes -/
  quoteWord : Bool := false
  /-- a quoted string (also a quoted word) is written with triple quotes around this raw body; taken into account when
  the body is a one-line body (`tripleBodyOK`) that denotes the value (`unescape body = value`), see `tripleFor` -/
  triple : Option Str := none
  deriving Repr, DecidableEq

/-- the canonical spelling. -/
def LSpell.canon : LSpell := {}

/-- the triple-quote body the spelling offers for the string `s`, if it is one. -/
def tripleFor (s : Str) (sp : LSpell) : Option Str :=
  match sp.triple with
  | some b => if tripleBodyOK b && unescape b == s then some b else none
  | none => none

theorem tripleFor_some {s : Str} {sp : LSpell} {b : Str} (h : tripleFor s sp = some b) :
    tripleBodyOK b = true ∧ unescape b = s := by
  unfold tripleFor at h
  split at h
  · split at h
    · rename_i hc
      simp only [Option.some.injEq] at h
      subst h
      simpa using hc
    · cases h
  · cases h

/-- the canonical escaped body is always accepted. -/
theorem tripleFor_escape (s : Str) (sp : LSpell) (h : sp.triple = some (escape s)) : tripleFor s sp = some (escape s) := by
  simp [tripleFor, h, tripleBodyOK_escape, unescape_escape]

/-- a string value: triple-quoted when the spelling offers a body for it, quoted otherwise. -/
def strSpell (s : Str) (sp : LSpell) : SVal :=
  match tripleFor s sp with
  | some b => .tri b
  | none => .quo s

def spellVal : FScalar → LSpell → SVal
  | .qstr s, sp => strSpell s sp
  | .bare s, sp => if sp.quoteWord then strSpell s sp else .word s
  | .bool b, _ => .bool b
  | .null, _ => .null
  | .int i, _ => .int i

theorem strSpell_ok (s : Str) (sp : LSpell) : (strSpell s sp).OK := by
  unfold strSpell
  split
  · rename_i b hb; exact (tripleFor_some hb).1
  · trivial

theorem spellVal_ok (v : FScalar) (sp : LSpell) (hv : v.OK) : (spellVal v sp).OK := by
  cases v with
  | qstr s => exact strSpell_ok s sp
  | bare s =>
    simp only [spellVal]
    split
    · exact strSpell_ok s sp
    · exact hv
  | bool b => trivial
  | null => trivial
  | int i => exact hv

/-- `KEY`, spaces, `::`, spaces, value, trailing spaces (no indentation, no line end). -/
def lineCore (ln : FLine) (sp : LSpell) : Str :=
  ln.key ++ (spaces sp.pre ++ (':' :: ':' :: (spaces sp.post ++ ((spellVal ln.v sp).text ++ spaces sp.trail))))

/-- the line without its line end. -/
def lineBody (ln : FLine) (sp : LSpell) : Str := spaces sp.indent ++ lineCore ln sp

/-- the line with its line end and its blank lines, followed by `rest`. -/
def lineText (ln : FLine) (sp : LSpell) (rest : Str) : Str :=
  lineBody ln sp ++ '\n' :: blanksText sp.blank rest

def colKey (sp : LSpell) : Nat := 1 + sp.indent
def colAssign (ln : FLine) (sp : LSpell) : Nat := colKey sp + ln.key.length + sp.pre
def colVal (ln : FLine) (sp : LSpell) : Nat := colAssign ln sp + 2 + sp.post
def colNl (ln : FLine) (sp : LSpell) : Nat := colVal ln sp + (spellVal ln.v sp).text.length + sp.trail

/-- tokens of a spelled line at line `l` up to its line end (excluded), newest first. -/
def bodyToksRev (ln : FLine) (sp : LSpell) (l : Nat) : List Token :=
  [(spellVal ln.v sp).tok l (colVal ln sp), tAssign l (colAssign ln sp), tIdent ln.key l (colKey sp)] ++ indentToksRev sp.indent l

/-- all tokens of a spelled line that starts at line `l`, newest first. -/
def lineToksRev (ln : FLine) (sp : LSpell) (l : Nat) : List Token :=
  blankToksRev (l + 1) sp.blank ++ tNewline l (colNl ln sp) :: bodyToksRev ln sp l

def lineRepsRev (ln : FLine) (sp : LSpell) (l : Nat) : List Repair :=
  (spellVal ln.v sp).repsRev l (colVal ln sp) ++ (identifierRepairs ln.key l (colKey sp)).reverse

theorem termOK_space (env : Env) (rest : Str) : TermOK env (' ' :: rest) := by
  have : LineEnd (' ' :: rest) := fun d hd => Or.inl (by simpa using hd.symm)
  exact this.termOK env

/-- what follows the key: spaces and `::`. -/
theorem termOK_pre (env : Env) (n : Nat) (rest : Str) : TermOK env (spaces n ++ (':' :: ':' :: rest)) := by
  cases n with
  | zero => simpa [spaces] using termOK_colon env (':' :: rest)
  | succ n => rw [spaces_succ]; exact termOK_space env _

theorem nonWord_prevAfterSpaces (env : Env) (n : Nat) (p : Option Char) (h : NonWord env p) :
    NonWord env (prevAfterSpaces n p) := by
  unfold prevAfterSpaces
  split
  · exact h
  · exact nonWord_space env

theorem key_solid (ln : FLine) (h : ln.OK) (rest : Str) : Solid (ln.key ++ rest) := by
  have hne : ln.key ≠ [] := by
    intro e; have := h.1; rw [e] at this; simp [isIdentifierText] at this
  obtain ⟨k, t, hk⟩ := List.exists_cons_of_ne_nil hne
  have hh := identText_head ln.key h.1 k (by rw [hk]; rfl)
  refine ⟨k, t ++ rest, by rw [hk]; rfl, hh.1, ?_⟩
  have := (identText_clean ln.key h.1 k (by rw [hk]; simp)).1
  exact this

/-- **one spelled line up to its line end**: indentation, key, spaces, `::`, spaces, value, trailing spaces; `after` is a
line end or the end of the input. -/
theorem run_sbody (env : Env) (lenient : Bool) (st : LState) (ln : FLine) (sp : LSpell) (after : Str)
    (hr : Ready st) (hc : st.col = 1) (hok : ln.OK) (hafter : LineEnd after) :
    ∃ n st' p, Run env lenient n st (lineBody ln sp ++ after) st' after ∧
      Adv st st' (bodyToksRev ln sp st.line) (lineRepsRev ln sp st.line) 0 (colNl ln sp) p := by
  have hsolid := key_solid ln hok
  obtain ⟨hk1, hk2, hv⟩ := hok
  have hne : ln.key ≠ [] := by
    intro h; rw [h] at hk1; simp [isIdentifierText] at hk1
  let R5 := spaces sp.trail ++ after
  let R4 := (spellVal ln.v sp).text ++ R5
  let R3 := spaces sp.post ++ R4
  let R2 := ':' :: ':' :: R3
  let R1 := spaces sp.pre ++ R2
  have hshape : lineBody ln sp ++ after = spaces sp.indent ++ (ln.key ++ R1) := by
    simp [lineBody, lineCore, R1, R2, R3, R4, R5, List.append_assoc]
  -- indentation
  obtain ⟨n0, s0, r0, a0⟩ := run_indent env lenient st sp.indent (ln.key ++ R1) hr hc (hsolid R1)
  have c0 : s0.col = colKey sp := a0.col
  -- key
  obtain ⟨s1, e1, a1⟩ := step_ident env lenient s0 ln.key R1 a0.ready hk1 hk2 (termOK_pre env sp.pre R3)
  have c1 : s1.col = colKey sp + ln.key.length := by rw [a1.col, c0]
  have hklen : 1 ≤ ln.key.length := by
    cases hkk : ln.key with
    | nil => exact absurd hkk hne
    | cons a b => simp
  -- spaces
  obtain ⟨s2, r2, a2⟩ := run_spaces env lenient sp.pre s1 R2 a1.ready (by rw [c1]; unfold colKey; omega)
  have c2 : s2.col = colAssign ln sp := by rw [a2.col, c1]; rfl
  -- ::
  obtain ⟨s3, e3, a3⟩ := step_assign env lenient s2 R3 a2.ready
  have c3 : s3.col = colAssign ln sp + 2 := by rw [a3.col, c2]
  -- spaces
  obtain ⟨s4, r4, a4⟩ := run_spaces env lenient sp.post s3 R4 a3.ready (by omega)
  have c4 : s4.col = colVal ln sp := by rw [a4.col, c3]; rfl
  have hp4 : NonWord env s4.prev := by
    rw [a4.prev, a3.prev]; exact nonWord_prevAfterSpaces env _ _ (nonWord_colon env)
  -- value
  obtain ⟨s5, p5, e5, a5⟩ := step_sval env lenient s4 (spellVal ln.v sp) R5 a4.ready hp4
    (lineEnd_spaces _ _ hafter) (spellVal_ok ln.v sp hv)
  have c5 : s5.col = colVal ln sp + (spellVal ln.v sp).text.length := by rw [a5.col, c4]
  -- trailing spaces
  obtain ⟨s6, r6, a6⟩ := run_spaces env lenient sp.trail s5 after a5.ready
    (by rw [c5]; unfold colVal colAssign colKey; omega)
  have c6 : s6.col = colNl ln sp := by rw [a6.col, c5]; rfl
  have hR1 : ln.key ++ R1 ≠ [] := by simp [hne]
  have hR4 : R4 ≠ [] := by
    have : (spellVal ln.v sp).text ≠ [] := by
      cases hsv : spellVal ln.v sp with
      | quo s => simp [SVal.text, quoted]
      | tri s => simp [SVal.text, tq]
      | word s =>
        have := spellVal_ok ln.v sp hv
        rw [hsv] at this
        intro he; simp only [SVal.text] at he; rw [he] at this; simp [SVal.OK, isIdentifierText] at this
      | bool b => cases b <;> simp [SVal.text]
      | null => simp [SVal.text]
      | int i => exact intStr_ne_nil i
    simp [R4, this]
  have run := Run.trans (Run.trans (Run.trans (Run.trans (Run.trans (Run.trans
    r0 (Run.step1 e1 hR1)) r2) (Run.one e3)) r4) (Run.step1 e5 hR4)) r6
  refine ⟨_, s6, prevAfterSpaces sp.trail s5.prev, by rw [hshape]; exact run, ?_⟩
  have l0 : s0.line = st.line := by rw [a0.line]; rfl
  have l1 : s1.line = st.line := by rw [a1.line, l0]; rfl
  have l2 : s2.line = st.line := by rw [a2.line, l1]; rfl
  have l3 : s3.line = st.line := by rw [a3.line, l2]; rfl
  have l4 : s4.line = st.line := by rw [a4.line, l3]; rfl
  have l5 : s5.line = st.line := by rw [a5.line, l4]; rfl
  have l6 : s6.line = st.line := by rw [a6.line, l5]; rfl
  refine ⟨a6.ready, ?_, ?_, ?_, ?_, c6, a6.prev⟩
  · rw [a6.toks, a5.toks, a4.toks, a3.toks, a2.toks, a1.toks, a0.toks, l4, l2, l0, c4, c2, c0]
    simp [bodyToksRev]
  · rw [a6.repairs, a5.repairs, a4.repairs, a3.repairs, a2.repairs, a1.repairs, a0.repairs, l4, l0, c4, c0]
    simp [lineRepsRev]
  · rw [a6.stack, a5.stack, a4.stack, a3.stack, a2.stack, a1.stack, a0.stack]
  · rw [l6]; rfl

/-- **one spelled line** with its line end and its blank lines. -/
theorem run_sline (env : Env) (lenient : Bool) (st : LState) (ln : FLine) (sp : LSpell) (rest : Str)
    (hr : Ready st) (hc : st.col = 1) (hok : ln.OK) :
    ∃ n st', Run env lenient n st (lineText ln sp rest) st' rest ∧
      AdvL st st' (lineToksRev ln sp st.line) (lineRepsRev ln sp st.line) (1 + sp.blank.length) := by
  obtain ⟨n6, s6, p6, r6, a6⟩ := run_sbody env lenient st ln sp ('\n' :: blanksText sp.blank rest) hr hc hok (lineEnd_nl _)
  obtain ⟨s7, e7, a7⟩ := step_newline env lenient s6 (blanksText sp.blank rest) a6.ready
  obtain ⟨n8, s8, r8, a8⟩ := run_blanks env lenient sp.blank s7 rest a7.ready a7.col
  refine ⟨_, s8, Run.trans (Run.trans r6 (Run.one e7)) r8, ?_⟩
  have l6 : s6.line = st.line := by rw [a6.line]; rfl
  have l7 : s7.line = st.line + 1 := by rw [a7.line, l6]
  refine ⟨a8.ready, ?_, ?_, ?_, ?_, a8.col⟩
  · rw [a8.toks, a7.toks, a6.toks, l7, l6, a6.col]
    simp [lineToksRev]
  · rw [a8.repairs, a7.repairs, a6.repairs]; rfl
  · rw [a8.stack, a7.stack, a6.stack]
  · rw [a8.line, l7]; omega

/-! ### all lines -/

/-- a line together with its spelling. -/
abbrev SL := FLine × LSpell

def slinesText : List SL → Str → Str
  | [], rest => rest
  | x :: r, rest => lineText x.1 x.2 (slinesText r rest)

/-- number of text lines the spelled lines occupy. -/
def slinesHeight : List SL → Nat
  | [] => 0
  | x :: r => 1 + x.2.blank.length + slinesHeight r

def slinesToksRev (l : Nat) : List SL → List Token
  | [] => []
  | x :: r => slinesToksRev (l + (1 + x.2.blank.length)) r ++ lineToksRev x.1 x.2 l

def slinesRepsRev (l : Nat) : List SL → List Repair
  | [] => []
  | x :: r => slinesRepsRev (l + (1 + x.2.blank.length)) r ++ lineRepsRev x.1 x.2 l

theorem run_slines (env : Env) (lenient : Bool) (sl : List SL) :
    ∀ (st : LState) (rest : Str), Ready st → st.col = 1 → (∀ x ∈ sl, x.1.OK) →
    ∃ n st', Run env lenient n st (slinesText sl rest) st' rest ∧
      AdvL st st' (slinesToksRev st.line sl) (slinesRepsRev st.line sl) (slinesHeight sl) := by
  induction sl with
  | nil =>
    intro st rest hr hc _
    exact ⟨0, st, Run.refl _ _, ⟨hr, rfl, rfl, rfl, rfl, hc⟩⟩
  | cons x r ih =>
    intro st rest hr hc hok
    obtain ⟨n1, s1, r1, a1⟩ := run_sline env lenient st x.1 x.2 (slinesText r rest) hr hc (hok x (by simp))
    obtain ⟨n2, s2, r2, a2⟩ := ih s1 rest a1.ready a1.col (fun y hy => hok y (by simp [hy]))
    refine ⟨n1 + n2, s2, Run.trans r1 r2, ?_⟩
    refine ⟨a2.ready, ?_, ?_, ?_, ?_, a2.col⟩
    · rw [a2.toks, a1.toks, a1.line]; simp [slinesToksRev]
    · rw [a2.repairs, a1.repairs, a1.line]; simp [slinesRepsRev]
    · rw [a2.stack, a1.stack]
    · rw [a2.line, a1.line]; simp only [slinesHeight]; omega

/-! ### the frame: envelope line in front, `===END===` (or nothing) behind -/

/-- the lenient freedoms of the frame of a flat document. -/
structure DSpell where
  /-- trailing spaces after `===NAME===` -/
  envTrail : Nat := 0
  /-- blank lines after the envelope line -/
  envBlank : List Nat := []
  /-- `===END===` left out (the text ends after the last line and its blank lines) -/
  endOmitted : Bool := false
  /-- leading spaces before `===END===` -/
  endIndent : Nat := 0
  /-- trailing spaces after `===END===` -/
  endTrail : Nat := 0
  /-- the newline after `===END===` is present -/
  endNl : Bool := true
  /-- blank lines after `===END===` (only when `endNl`) -/
  endBlank : List Nat := []
  deriving Repr, DecidableEq

def DSpell.canon : DSpell := {}

/-- envelope line, blank lines, the spelled lines, then `tail`. -/
def frontText (name : Str) (sl : List SL) (ds : DSpell) (tail : Str) : Str :=
  "===".toList ++ name ++ "===".toList ++
    (spaces ds.envTrail ++ '\n' :: blanksText ds.envBlank (slinesText sl tail))

/-- line at which the first `KEY::value` line starts. -/
def firstLine (ds : DSpell) : Nat := 2 + ds.envBlank.length

def frontToksRev (name : Str) (sl : List SL) (ds : DSpell) : List Token :=
  slinesToksRev (firstLine ds) sl ++ blankToksRev 2 ds.envBlank ++
    [tNewline 1 (1 + (name.length + 6) + ds.envTrail), tEnvStart name 1 1]

/-- **envelope line and all lines**: from the initial state to the start of `tail`. -/
theorem run_front (env : Env) (lenient : Bool) (name : Str) (sl : List SL) (ds : DSpell) (tail : Str)
    (hn : isEnvName name = true) (hne : name ≠ "END".toList) (hok : ∀ x ∈ sl, x.1.OK) :
    ∃ n st', Run env lenient n ({ spans := [] } : LState) (frontText name sl ds tail) st' tail ∧
      Ready st' ∧ st'.toks = frontToksRev name sl ds ∧ st'.repairs = slinesRepsRev (firstLine ds) sl ∧ st'.stack = [] ∧
      st'.line = firstLine ds + slinesHeight sl ∧ st'.col = 1 := by
  let st0 : LState := { spans := [] }
  let T3 := slinesText sl tail
  let T2 := blanksText ds.envBlank T3
  let T1 := spaces ds.envTrail ++ '\n' :: T2
  obtain ⟨s1, e1, a1⟩ := step_envStart env lenient st0 name T1 rfl hn hne
  obtain ⟨s2, r2, a2⟩ := run_spaces env lenient ds.envTrail s1 ('\n' :: T2) a1.ready (by rw [a1.col]; show 2 ≤ 1 + _; omega)
  obtain ⟨s3, e3, a3⟩ := step_newline env lenient s2 T2 a2.ready
  obtain ⟨n4, s4, r4, a4⟩ := run_blanks env lenient ds.envBlank s3 T3 a3.ready a3.col
  obtain ⟨n5, s5, r5, a5⟩ := run_slines env lenient sl s4 tail a4.ready a4.col hok
  have hne1 : "===".toList ++ name ++ "===".toList ++ T1 ≠ [] := by simp
  have run := Run.trans (Run.trans (Run.trans (Run.trans (Run.step1 e1 hne1) r2) (Run.one e3)) r4) r5
  have l1 : s1.line = 1 := by rw [a1.line]
  have l2 : s2.line = 1 := by rw [a2.line, l1]
  have l3 : s3.line = 2 := by rw [a3.line, l2]
  have l4 : s4.line = firstLine ds := by rw [a4.line, l3]; rfl
  refine ⟨_, s5, run, a5.ready, ?_, ?_, ?_, ?_, a5.col⟩
  · have c2 : s2.col = 1 + (name.length + 6) + ds.envTrail := by rw [a2.col, a1.col]
    rw [a5.toks, a4.toks, a3.toks, a2.toks, a1.toks, l4, l3, l2, c2]
    simp [frontToksRev, st0]
  · rw [a5.repairs, a4.repairs, a3.repairs, a2.repairs, a1.repairs, l4]
    simp [st0]
  · rw [a5.stack, a4.stack, a3.stack, a2.stack, a1.stack]
  · rw [a5.line, l4]

def endText (ds : DSpell) : Str :=
  if ds.endOmitted then []
  else spaces ds.endIndent ++ ("===END===".toList ++ (spaces ds.endTrail ++ (if ds.endNl then '\n' :: blanksText ds.endBlank [] else [])))

/-- **the spelled text** of a flat document. -/
def spellText (name : Str) (sl : List SL) (ds : DSpell) : Str := frontText name sl ds (endText ds)

/-- the last tokens (newest first, EOF included) when the end of the lines is reached at line `l`. -/
def endToksRev (ds : DSpell) (l : Nat) : List Token :=
  if ds.endOmitted then [tEof l 1]
  else if ds.endNl then
    tEof (l + 1 + ds.endBlank.length) 1 :: (blankToksRev (l + 1) ds.endBlank ++
      ([tNewline l (10 + ds.endIndent + ds.endTrail), tEnvEnd l (1 + ds.endIndent)] ++ indentToksRev ds.endIndent l))
  else [tEof l (10 + ds.endIndent + ds.endTrail), tEnvEnd l (1 + ds.endIndent)] ++ indentToksRev ds.endIndent l

/-- **the tokens of the spelled text**, in reading order, EOF included. -/
def spellToks (name : Str) (sl : List SL) (ds : DSpell) : List Token :=
  (endToksRev ds (firstLine ds + slinesHeight sl) ++ frontToksRev name sl ds).reverse

/-- its receipts, in order. -/
def spellReps (sl : List SL) (ds : DSpell) : List Repair := (slinesRepsRev (firstLine ds) sl).reverse

theorem end_solid (rest : Str) : Solid ("===END===".toList ++ rest) :=
  ⟨'=', "==END===".toList ++ rest, rfl, by decide, by decide⟩

theorem run_end (env : Env) (lenient : Bool) (ds : DSpell) (st : LState) (hr : Ready st) (hc : st.col = 1) :
    ∃ n st', Run env lenient n st (endText ds) st' [] ∧
      tEof st'.line st'.col :: st'.toks = endToksRev ds st.line ++ st.toks ∧ st'.repairs = st.repairs ∧ st'.stack = st.stack := by
  unfold endText endToksRev
  by_cases ho : ds.endOmitted = true
  · simp only [ho, if_true]
    exact ⟨0, st, Run.refl _ _, by rw [hc]; rfl, rfl, rfl⟩
  · simp only [ho, Bool.false_eq_true, if_false]
    by_cases hnl : ds.endNl = true
    · simp only [hnl, if_true]
      obtain ⟨n0, s0, r0, a0⟩ := run_indent env lenient st ds.endIndent _ hr hc
        (end_solid (spaces ds.endTrail ++ '\n' :: blanksText ds.endBlank []))
      obtain ⟨s1, e1, a1⟩ := step_envEnd env lenient s0 (spaces ds.endTrail ++ '\n' :: blanksText ds.endBlank []) a0.ready
      obtain ⟨s2, r2, a2⟩ := run_spaces env lenient ds.endTrail s1 ('\n' :: blanksText ds.endBlank []) a1.ready (by rw [a1.col]; omega)
      obtain ⟨s3, e3, a3⟩ := step_newline env lenient s2 (blanksText ds.endBlank []) a2.ready
      obtain ⟨n4, s4, r4, a4⟩ := run_blanks env lenient ds.endBlank s3 [] a3.ready a3.col
      have e1' : step env lenient s0 ('=' :: ("==END===".toList ++ (spaces ds.endTrail ++ '\n' :: blanksText ds.endBlank []))) = .ok (s1, _) := e1
      refine ⟨_, s4, Run.trans (Run.trans (Run.trans (Run.trans r0 (Run.one e1')) r2) (Run.one e3)) r4, ?_, ?_, ?_⟩
      · have l0 : s0.line = st.line := by rw [a0.line]; rfl
        have l1 : s1.line = st.line := by rw [a1.line, l0]; rfl
        have l2 : s2.line = st.line := by rw [a2.line, l1]; rfl
        have l3 : s3.line = st.line + 1 := by rw [a3.line, l2]
        have c2 : s2.col = 10 + ds.endIndent + ds.endTrail := by rw [a2.col, a1.col, a0.col]; omega
        rw [a4.toks, a3.toks, a2.toks, a1.toks, a0.toks, a4.line, a4.col, l3, l2, l0, c2, a0.col]
        simp
      · rw [a4.repairs, a3.repairs, a2.repairs, a1.repairs, a0.repairs]; rfl
      · rw [a4.stack, a3.stack, a2.stack, a1.stack, a0.stack]
    · simp only [hnl, Bool.false_eq_true, if_false]
      obtain ⟨n0, s0, r0, a0⟩ := run_indent env lenient st ds.endIndent _ hr hc (end_solid (spaces ds.endTrail ++ []))
      obtain ⟨s1, e1, a1⟩ := step_envEnd env lenient s0 (spaces ds.endTrail ++ []) a0.ready
      obtain ⟨s2, r2, a2⟩ := run_spaces env lenient ds.endTrail s1 [] a1.ready (by rw [a1.col]; omega)
      have e1' : step env lenient s0 ('=' :: ("==END===".toList ++ (spaces ds.endTrail ++ []))) = .ok (s1, _) := e1
      refine ⟨_, s2, Run.trans (Run.trans r0 (Run.one e1')) r2, ?_, ?_, ?_⟩
      · have l0 : s0.line = st.line := by rw [a0.line]; rfl
        have l1 : s1.line = st.line := by rw [a1.line, l0]; rfl
        have l2 : s2.line = st.line := by rw [a2.line, l1]; rfl
        have c2 : s2.col = 10 + ds.endIndent + ds.endTrail := by rw [a2.col, a1.col, a0.col]; omega
        rw [a2.toks, a1.toks, a0.toks, l2, l0, c2, a0.col]
        simp
      · rw [a2.repairs, a1.repairs, a0.repairs]; rfl
      · rw [a2.stack, a1.stack, a0.stack]

/-- **the whole spelled document**: some number of iterations from the initial state consume the text and leave
exactly the expected tokens and receipts and an empty bracket stack. -/
theorem run_spelled (env : Env) (lenient : Bool) (name : Str) (sl : List SL) (ds : DSpell)
    (hn : isEnvName name = true) (hne : name ≠ "END".toList) (hok : ∀ x ∈ sl, x.1.OK) :
    ∃ n st', Run env lenient n ({ spans := [] } : LState) (spellText name sl ds) st' [] ∧
      (tEof st'.line st'.col :: st'.toks).reverse = spellToks name sl ds ∧
      st'.repairs.reverse = spellReps sl ds ∧ st'.stack = [] := by
  obtain ⟨n5, s5, r5, hr5, t5, p5, k5, l5, c5⟩ := run_front env lenient name sl ds (endText ds) hn hne hok
  obtain ⟨n6, s6, r6, h6t, h6r, h6s⟩ := run_end env lenient ds s5 hr5 c5
  refine ⟨_, s6, Run.trans r5 r6, ?_, ?_, ?_⟩
  · rw [h6t, t5, l5]; rfl
  · rw [h6r, p5]; rfl
  · rw [h6s, k5]

/-! ### the last line without its line end (and `===END===` omitted) -/

/-- the spelled text when `===END===` is omitted and the last line `(ln, sp)` is not terminated either
(`sp.blank` and the `end…` fields of `ds` play no role). -/
def spellTextCut (name : Str) (sl : List SL) (ln : FLine) (sp : LSpell) (ds : DSpell) : Str :=
  frontText name sl ds (lineBody ln sp)

def spellToksCut (name : Str) (sl : List SL) (ln : FLine) (sp : LSpell) (ds : DSpell) : List Token :=
  (tEof (firstLine ds + slinesHeight sl) (colNl ln sp) :: (bodyToksRev ln sp (firstLine ds + slinesHeight sl) ++ frontToksRev name sl ds)).reverse

def spellRepsCut (sl : List SL) (ln : FLine) (sp : LSpell) (ds : DSpell) : List Repair :=
  (lineRepsRev ln sp (firstLine ds + slinesHeight sl) ++ slinesRepsRev (firstLine ds) sl).reverse

theorem run_spelled_cut (env : Env) (lenient : Bool) (name : Str) (sl : List SL) (ln : FLine) (sp : LSpell) (ds : DSpell)
    (hn : isEnvName name = true) (hne : name ≠ "END".toList) (hok : ∀ x ∈ sl, x.1.OK) (hln : ln.OK) :
    ∃ n st', Run env lenient n ({ spans := [] } : LState) (spellTextCut name sl ln sp ds) st' [] ∧
      (tEof st'.line st'.col :: st'.toks).reverse = spellToksCut name sl ln sp ds ∧
      st'.repairs.reverse = spellRepsCut sl ln sp ds ∧ st'.stack = [] := by
  obtain ⟨n5, s5, r5, hr5, t5, p5, k5, l5, c5⟩ := run_front env lenient name sl ds (lineBody ln sp) hn hne hok
  obtain ⟨n6, s6, p6, r6, a6⟩ := run_sbody env lenient s5 ln sp [] hr5 c5 hln lineEnd_nil
  rw [List.append_nil] at r6
  refine ⟨_, s6, Run.trans r5 r6, ?_, ?_, ?_⟩
  · rw [a6.toks, a6.line, a6.col, t5, l5]; rfl
  · rw [a6.repairs, p5, l5]; rfl
  · rw [a6.stack, k5]

/-! ### `normalize` and the tab check on the spelled text -/

/-- every line of `s` (as `split("\n")` cuts it) satisfies `P`. -/
def AllLines (P : Str → Prop) (s : Str) : Prop := ∀ l ∈ splitLines s, P l

theorem splitLines_noNl (a : Str) (h : ∀ d ∈ a, d ≠ '\n') : splitLines a = [a] := by
  induction a with
  | nil => rfl
  | cons c cs ih =>
    have hc : (c == '\n') = false := by have := h c (by simp); simpa using this
    have := ih (fun d hd => h d (by simp [hd]))
    simp only [splitLines, this, hc, Bool.false_eq_true, if_false]

theorem allLines_nil (P : Str → Prop) (h : P []) : AllLines P [] := by
  intro l hl
  have : l = [] := by simpa [splitLines] using hl
  rw [this]; exact h

theorem allLines_single (P : Str → Prop) (a : Str) (ha : Clean a) (hP : P a) : AllLines P a := by
  intro l hl
  rw [splitLines_noNl a (fun d hd => (ha d hd).1)] at hl
  have : l = a := by simpa using hl
  rw [this]; exact hP

theorem allLines_cons (P : Str → Prop) (a rest : Str) (ha : Clean a) (hP : P a) (hr : AllLines P rest) :
    AllLines P (a ++ '\n' :: rest) := by
  intro l hl
  rw [splitLines_append_nl a rest (fun d hd => (ha d hd).1)] at hl
  rcases List.mem_cons.mp hl with h | h
  · rw [h]; exact hP
  · exact hr l h

theorem spaces_clean (k : Nat) : Clean (spaces k) := by
  intro d hd
  have : d = ' ' := (List.mem_replicate.mp hd).2
  subst this; exact ⟨by decide, by decide⟩

theorem allLines_blanks (P : Str → Prop) (hsp : ∀ k, P (spaces k)) (ks : List Nat) (rest : Str) (hr : AllLines P rest) :
    AllLines P (blanksText ks rest) := by
  induction ks with
  | nil => exact hr
  | cons k ks ih => exact allLines_cons P (spaces k) _ (spaces_clean k) (hsp k) ih

/-- a line without a fence marker and without a tab. -/
def LineFine (l : Str) : Prop := fenceLine l = none ∧ ∀ d ∈ l, d ≠ '\t'

theorem fenceLine_spaces (k : Nat) : fenceLine (spaces k) = none := by
  have := fenceLine_indented k [] (by intro c hc; cases hc)
  simpa using this

theorem spaces_fine (k : Nat) : LineFine (spaces k) := ⟨fenceLine_spaces k, fun d hd => (spaces_clean k d hd).2⟩

theorem lineCore_clean (ln : FLine) (sp : LSpell) (h : ln.OK) : Clean (lineCore ln sp) := by
  unfold lineCore
  refine Clean.append (identText_clean ln.key h.1) (Clean.append (spaces_clean _) ?_)
  have : Clean ("::".toList ++ (spaces sp.post ++ ((spellVal ln.v sp).text ++ spaces sp.trail))) :=
    Clean.append (clean_lit _ (by decide))
      (Clean.append (spaces_clean _) (Clean.append (sval_clean _ (spellVal_ok ln.v sp h.2.2)) (spaces_clean _)))
  exact this

theorem lineBody_clean (ln : FLine) (sp : LSpell) (h : ln.OK) : Clean (lineBody ln sp) :=
  Clean.append (spaces_clean _) (lineCore_clean ln sp h)

theorem lineCore_head (ln : FLine) (sp : LSpell) (h : ln.OK) : ∀ c, (lineCore ln sp).head? = some c → c ≠ ' ' ∧ c ≠ '`' := by
  intro c hc
  apply identText_head ln.key h.1 c
  have hne : ln.key ≠ [] := by
    intro e; have := h.1; rw [e] at this; simp [isIdentifierText] at this
  obtain ⟨k, t, hk⟩ := List.exists_cons_of_ne_nil hne
  simp only [lineCore, hk, List.cons_append, List.head?_cons] at hc ⊢
  exact hc

theorem lineBody_fine (ln : FLine) (sp : LSpell) (h : ln.OK) : LineFine (lineBody ln sp) :=
  ⟨fenceLine_indented _ _ (lineCore_head ln sp h), fun d hd => (lineBody_clean ln sp h d hd).2⟩

theorem envLine_clean' (name : Str) (k : Nat) (hn : isEnvName name = true) :
    Clean ("===".toList ++ name ++ "===".toList ++ spaces k) :=
  Clean.append (envLine_clean name hn) (spaces_clean k)

theorem envLine_fine (name : Str) (k : Nat) (hn : isEnvName name = true) :
    LineFine ("===".toList ++ name ++ "===".toList ++ spaces k) :=
  ⟨fenceLine_none_of_head _ (by intro c hc; have : c = '=' := by simpa using hc.symm
                                subst this; decide),
   fun d hd => (envLine_clean' name k hn d hd).2⟩

theorem endLine_clean (i k : Nat) : Clean (spaces i ++ ("===END===".toList ++ spaces k)) :=
  Clean.append (spaces_clean i) (Clean.append (clean_lit _ (by decide)) (spaces_clean k))

theorem endLine_fine (i k : Nat) : LineFine (spaces i ++ ("===END===".toList ++ spaces k)) :=
  ⟨fenceLine_indented i _ (by intro c hc; have : c = '=' := by simpa using hc.symm
                              subst this; decide),
   fun d hd => (endLine_clean i k d hd).2⟩

theorem slines_fine (sl : List SL) (rest : Str) (hok : ∀ x ∈ sl, x.1.OK) (hr : AllLines LineFine rest) :
    AllLines LineFine (slinesText sl rest) := by
  induction sl with
  | nil => exact hr
  | cons x r ih =>
    exact allLines_cons LineFine (lineBody x.1 x.2) _ (lineBody_clean x.1 x.2 (hok x (by simp))) (lineBody_fine x.1 x.2 (hok x (by simp)))
      (allLines_blanks LineFine spaces_fine _ _ (ih (fun y hy => hok y (by simp [hy]))))

theorem front_fine (name : Str) (sl : List SL) (ds : DSpell) (tail : Str)
    (hn : isEnvName name = true) (hok : ∀ x ∈ sl, x.1.OK) (ht : AllLines LineFine tail) :
    AllLines LineFine (frontText name sl ds tail) := by
  unfold frontText
  rw [← List.append_assoc]
  exact allLines_cons LineFine _ _ (envLine_clean' name _ hn) (envLine_fine name _ hn)
    (allLines_blanks LineFine spaces_fine _ _ (slines_fine sl _ hok ht))

theorem end_fine (ds : DSpell) : AllLines LineFine (endText ds) := by
  have h0 : LineFine [] := spaces_fine 0
  unfold endText
  by_cases ho : ds.endOmitted = true
  · simp only [ho, if_true]; exact allLines_nil LineFine h0
  · simp only [ho, Bool.false_eq_true, if_false]
    by_cases hnl : ds.endNl = true
    · simp only [hnl, if_true]
      have : spaces ds.endIndent ++ ("===END===".toList ++ (spaces ds.endTrail ++ '\n' :: blanksText ds.endBlank []))
          = (spaces ds.endIndent ++ ("===END===".toList ++ spaces ds.endTrail)) ++ '\n' :: blanksText ds.endBlank [] := by
        simp only [List.append_assoc]
      rw [this]
      exact allLines_cons LineFine _ _ (endLine_clean _ _) (endLine_fine _ _)
        (allLines_blanks LineFine spaces_fine _ _ (allLines_nil LineFine h0))
    · simp only [hnl, Bool.false_eq_true, if_false, List.append_nil]
      exact allLines_single LineFine _ (endLine_clean _ _) (endLine_fine _ _)

theorem mem_joinWith (sep : Str) (d : Char) : ∀ (ls : List Str), d ∈ joinWith sep ls → d ∈ sep ∨ ∃ l ∈ ls, d ∈ l := by
  intro ls
  induction ls with
  | nil => intro h; simp [joinWith] at h
  | cons x xs ih =>
    cases xs with
    | nil => intro h; exact Or.inr ⟨x, by simp, by simpa [joinWith] using h⟩
    | cons y ys =>
      intro h
      simp only [joinWith, List.mem_append] at h
      rcases h with (h | h) | h
      · exact Or.inr ⟨x, by simp, h⟩
      · exact Or.inl h
      · rcases ih h with h' | ⟨l, hl, hd⟩
        · exact Or.inl h'
        · exact Or.inr ⟨l, by simp [hl], hd⟩

theorem noTab_of_fine (s : Str) (h : AllLines LineFine s) : ∀ d ∈ s, d ≠ '\t' := by
  intro d hd
  rw [← joinWith_splitLines s] at hd
  rcases mem_joinWith ['\n'] d _ hd with h' | ⟨l, hl, hdl⟩
  · have : d = '\n' := by simpa using h'
    subst this; decide
  · exact (h l hl).2 d hdl

/-- `tokenize` on a text whose lines are fence-free, tab-free and NFC-stable, given a complete run of the main loop. -/
theorem tokenize_of_run (env : Env) (lenient : Bool) (text : Str) (toks : List Token) (reps : List Repair)
    (hlines : AllLines LineFine text) (hnfc : ∀ l ∈ splitLines text, env.nfc l = l)
    (hrun : ∃ n st', Run env lenient n ({ spans := [] } : LState) text st' [] ∧
      (tEof st'.line st'.col :: st'.toks).reverse = toks ∧ st'.repairs.reverse = reps ∧ st'.stack = []) :
    tokenize env text lenient = .ok (toks, reps) := by
  have hnorm := normalize_plain env text (fun l hl => ⟨(hlines l hl).1, hnfc l hl⟩)
  have htab := tabCheck_noTab [] text 0 1 1 (noTab_of_fine _ hlines)
  obtain ⟨n, st', run, ht, hr, hs⟩ := hrun
  have hloop := loop_of_run env lenient _ _ st' text run (by intro sp hsp; simp at hsp)
  unfold tokenize
  simp only [hnorm, htab, hloop, bind, Except.bind, hs, List.getLast?_nil]
  rw [← ht, ← hr]
  rfl

/-- **The lexer on every spelling of a flat document** (any name, any lines, any spelling per line and for the frame,
both lexer modes, every environment whose NFC leaves the lines of the text alone): `tokenize` succeeds with exactly
`spellToks` and `spellReps`. -/
theorem tokenize_spelled (env : Env) (lenient : Bool) (name : Str) (sl : List SL) (ds : DSpell)
    (hn : isEnvName name = true) (hne : name ≠ "END".toList) (hok : ∀ x ∈ sl, x.1.OK)
    (hnfc : ∀ l ∈ splitLines (spellText name sl ds), env.nfc l = l) :
    tokenize env (spellText name sl ds) lenient = .ok (spellToks name sl ds, spellReps sl ds) :=
  tokenize_of_run env lenient _ _ _ (front_fine name sl ds _ hn hok (end_fine ds)) hnfc
    (run_spelled env lenient name sl ds hn hne hok)

/-- … and when neither `===END===` nor the last line's newline is written. -/
theorem tokenize_spelled_cut (env : Env) (lenient : Bool) (name : Str) (sl : List SL) (ln : FLine) (sp : LSpell) (ds : DSpell)
    (hn : isEnvName name = true) (hne : name ≠ "END".toList) (hok : ∀ x ∈ sl, x.1.OK) (hln : ln.OK)
    (hnfc : ∀ l ∈ splitLines (spellTextCut name sl ln sp ds), env.nfc l = l) :
    tokenize env (spellTextCut name sl ln sp ds) lenient = .ok (spellToksCut name sl ln sp ds, spellRepsCut sl ln sp ds) :=
  tokenize_of_run env lenient _ _ _
    (front_fine name sl ds _ hn hok (allLines_single LineFine _ (lineBody_clean ln sp hln) (lineBody_fine ln sp hln))) hnfc
    (run_spelled_cut env lenient name sl ln sp ds hn hne hok hln)

end Octave.Spell
