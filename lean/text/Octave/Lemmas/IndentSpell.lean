/-
Lexer half of C03 on NESTED BLOCKS with free INDENTATION WIDTHS — `Lemmas/BlockLex.lean` restated for spelled trees.

`INode` = `line (FLine)` | `block key w children`: a block tree (`TNode` of `BlockLex`, any depth and width) in which EVERY
BLOCK CHOOSES the number `w` of spaces its children are indented by, relative to the indentation of its own header line:
a node written with `d` leading spaces is `spaces d ++ …`, the children of a block written with `d` leading spaces are
written with `d + w` leading spaces.  `INode.erase` forgets the widths (the `TNode`); `INode.canon` spells a `TNode` with
`w = 2` everywhere, and `idocText` of that IS `treeDocText` (`idocText_canon`).  Widths may differ from block to block;
all children of one block share one indentation.

`step_indent` (BlockLex) is already parametric in the number of spaces; everything above it (`run_indent`, `run_tline`,
`run_header`, `run_tree`, rows, `tokenize_tree`) is stated there for `indentStr depth` and is restated here for `spaces d`:
`tokenize_itree`: the lexer reads the spelled text as exactly `idocToks` — the tokens of the canonical text with every INDENT
token carrying the line's number of leading spaces, the columns shifted accordingly (same lines).
-/
import Octave.Lemmas.BlockLex
namespace Octave.C03.Indent
open Octave Lexer Scan Emitter

/-- `d` spaces. -/
def spaces (d : Nat) : Str := List.replicate d ' '

/-- a block tree with an indentation width chosen by every block (spaces, relative to the block's own header). -/
inductive INode where
  | line (ln : FLine)
  | block (key : Str) (w : Nat) (children : List INode)
  deriving Repr

mutual
/-- the tree that is spelled: the widths forgotten. -/
def INode.erase : INode → TNode
  | .line ln => .line ln
  | .block key _ cs => .block key (eraseList cs)
def eraseList : List INode → List TNode
  | [] => []
  | n :: ns => n.erase :: eraseList ns
end

mutual
/-- the canonical spelling of a tree: two spaces per level. -/
def canonNode : TNode → INode
  | .line ln => .line ln
  | .block key cs => .block key 2 (canonList cs)
def canonList : List TNode → List INode
  | [] => []
  | n :: ns => canonNode n :: canonList ns
end

mutual
/-- the class: every width is positive. -/
def INode.widthsOk : INode → Bool
  | .line _ => true
  | .block _ w cs => decide (0 < w) && widthsOkList cs
def widthsOkList : List INode → Bool
  | [] => true
  | n :: ns => n.widthsOk && widthsOkList ns
end

mutual
/-- the conditions of `FLine.OK` on every line, and block keys are identifiers without a reserved prefix (as `TNode.OK`). -/
def INode.OK : INode → Prop
  | .line ln => ln.OK
  | .block key _ cs => isIdentifierText key = true ∧ hasReservedPrefix key = false ∧ itreeOK cs
def itreeOK : List INode → Prop
  | [] => True
  | n :: ns => n.OK ∧ itreeOK ns
end

mutual
theorem INode.ok_erase : ∀ (n : INode), n.erase.OK → n.OK
  | .line _, h => h
  | .block _ _ cs, h => by
    simp only [INode.erase, TNode.OK] at h
    exact ⟨h.1, h.2.1, itreeOK_erase cs h.2.2⟩
theorem itreeOK_erase : ∀ (ns : List INode), treeOK (eraseList ns) → itreeOK ns
  | [], _ => trivial
  | n :: ns, h => by
    simp only [eraseList, treeOK] at h
    exact ⟨INode.ok_erase n h.1, itreeOK_erase ns h.2⟩
end

/-! ### a line and a block header with `d` leading spaces -/

/-- the INDENT token that opens a line with `d` leading spaces (none when `d = 0`): its value is `d`. -/
def iIndentToksRev (d l : Nat) : List Token := if d = 0 then [] else [tIndent d l 1]

/-- the indentation of a line with `d` leading spaces, followed by a char that is neither a space nor a line end. -/
theorem run_spaces (env : Env) (lenient : Bool) (st : LState) (d : Nat) (c : Char) (rest : Str) (hr : Ready st)
    (hcol : st.col = 1) (hc : c ≠ ' ') (hnl : c ≠ '\n') :
    ∃ st' p, Run env lenient (indentSteps d) st (spaces d ++ c :: rest) st' (c :: rest) ∧
      Adv st st' (iIndentToksRev d st.line) [] 0 (1 + d) p := by
  cases d with
  | zero =>
    refine ⟨st, st.prev, by simpa [spaces, indentSteps] using Run.refl st (c :: rest), ?_⟩
    have := Adv.refl st hr
    rw [hcol] at this
    exact this
  | succ k =>
    obtain ⟨s1, e1, a1⟩ := step_indent env lenient st ((k + 1)) c rest hr hcol (by omega) hc hnl
    refine ⟨s1, some ' ', ?_, ?_⟩
    · have : Run env lenient 1 st (spaces (k + 1) ++ c :: rest) s1 (c :: rest) := Run.one' (by simp) e1
      simpa [indentSteps] using this
    · simpa [iIndentToksRev] using a1

/-- tokens of a `KEY::value` line with `d` leading spaces, line `l`, newest first. -/
def ilineToksRev (ln : FLine) (d l : Nat) : List Token := ln.toksRev l (1 + d) ++ iIndentToksRev d l

/-- **one line with `d` leading spaces**: 4 iterations (5 when indented). -/
theorem run_iline (env : Env) (lenient : Bool) (st : LState) (ln : FLine) (d : Nat) (rest : Str) (hr : Ready st)
    (hcol : st.col = 1) (hok : ln.OK) :
    ∃ st', Run env lenient (indentSteps d + 4) st (spaces d ++ (ln.text ++ '\n' :: rest)) st' rest ∧
      AdvL st st' (ilineToksRev ln d st.line) (ln.repsRev st.line (1 + d)) 1 := by
  obtain ⟨kc, kt, hkey, h1, h2, _⟩ := identText_cons ln.key hok.1
  have hshape : ln.text ++ '\n' :: rest = kc :: (kt ++ (':' :: ':' :: ln.v.text) ++ '\n' :: rest) := by
    simp [FLine.text, hkey]
  obtain ⟨s1, p1, r1, a1⟩ := run_spaces env lenient st d kc (kt ++ (':' :: ':' :: ln.v.text) ++ '\n' :: rest) hr hcol h1 h2
  rw [← hshape] at r1
  obtain ⟨s2, r2, a2⟩ := run_line env lenient s1 ln rest a1.ready hok
  refine ⟨s2, Run.trans r1 r2, ?_⟩
  have l1 : s1.line = st.line := by rw [a1.line]; rfl
  have c1 : s1.col = 1 + d := a1.col
  rw [l1, c1] at a2
  refine ⟨a2.ready, ?_, ?_, ?_, ?_, a2.col⟩
  · rw [a2.toks, a1.toks]; simp [ilineToksRev]
  · rw [a2.repairs, a1.repairs]; simp
  · rw [a2.stack, a1.stack]
  · rw [a2.line, l1]

/-- tokens of a block header `KEY:` with `d` leading spaces, line `l`, newest first. -/
def iheaderToksRev (key : Str) (d l : Nat) : List Token :=
  [tNewline l (1 + d + key.length + 1), tBlock l (1 + d + key.length), tIdent key l (1 + d)] ++ iIndentToksRev d l

/-- **a block header with `d` leading spaces**: 3 iterations (4 when indented): INDENT?, IDENTIFIER, BLOCK, NEWLINE. -/
theorem run_iheader (env : Env) (lenient : Bool) (st : LState) (key : Str) (d : Nat) (rest : Str) (hr : Ready st)
    (hcol : st.col = 1) (hid : isIdentifierText key = true) (hres : hasReservedPrefix key = false) :
    ∃ st', Run env lenient (indentSteps d + 3) st (spaces d ++ (key ++ ':' :: '\n' :: rest)) st' rest ∧
      AdvL st st' (iheaderToksRev key d st.line) (identifierRepairs key st.line (1 + d)).reverse 1 := by
  obtain ⟨kc, kt, hkey, h1, h2, _⟩ := identText_cons key hid
  have hshape : key ++ ':' :: '\n' :: rest = kc :: (kt ++ ':' :: '\n' :: rest) := by simp [hkey]
  obtain ⟨s1, p1, r1, a1⟩ := run_spaces env lenient st d kc (kt ++ ':' :: '\n' :: rest) hr hcol h1 h2
  rw [← hshape] at r1
  obtain ⟨s2, e2, a2⟩ := step_ident env lenient s1 key (':' :: '\n' :: rest) a1.ready hid hres (termOK_colon env _)
  obtain ⟨s3, e3, a3⟩ := step_block env lenient s2 ('\n' :: rest) a2.ready (by simp)
  obtain ⟨s4, e4, a4⟩ := step_newline env lenient s3 rest a3.ready
  have run : Run env lenient (indentSteps d + 3) st (spaces d ++ (key ++ ':' :: '\n' :: rest)) s4 rest :=
    Run.trans r1 (Run.cons' (by simp) e2 (Run.cons e3 (Run.one e4)))
  refine ⟨s4, run, ?_⟩
  have h := ((a1.trans a2).trans a3).trans a4
  have l1 : s1.line = st.line := by rw [a1.line]; rfl
  have l2 : s2.line = st.line := by rw [a2.line, l1]; rfl
  have l3 : s3.line = st.line := by rw [a3.line, l2]; rfl
  have c1 : s1.col = 1 + d := a1.col
  have c2 : s2.col = 1 + d + key.length := by rw [a2.col, c1]
  have c3 : s3.col = 1 + d + key.length + 1 := by rw [a3.col, c2]
  rw [l1, l2, l3, c1, c2, c3] at h
  exact ⟨h.ready, by rw [h.toks]; simp [iheaderToksRev], by rw [h.repairs]; simp, h.stack, by rw [h.line], h.col⟩
mutual
/-- canonical text of a node with `d` leading spaces (with its line ends). -/
def INode.text (d : Nat) : INode → Str
  | .line ln => spaces d ++ (ln.text ++ ['\n'])
  | .block key w cs => spaces d ++ (key ++ ':' :: '\n' :: itreeText (d + w) cs)
def itreeText (d : Nat) : List INode → Str
  | [] => []
  | n :: ns => n.text d ++ itreeText d ns
end

mutual
/-- number of text lines of a node. -/
def INode.nlines : INode → Nat
  | .line _ => 1
  | .block _ _ cs => 1 + itreeNLines cs
def itreeNLines : List INode → Nat
  | [] => 0
  | n :: ns => n.nlines + itreeNLines ns
end

mutual
/-- tokens of a node with `d` leading spaces whose first line is line `l`, newest first. -/
def INode.toksRev (d l : Nat) : INode → List Token
  | .line ln => ilineToksRev ln d l
  | .block key w cs => itreeToksRev (d + w) (l + 1) cs ++ iheaderToksRev key d l
def itreeToksRev (d l : Nat) : List INode → List Token
  | [] => []
  | n :: ns => itreeToksRev d (l + n.nlines) ns ++ n.toksRev d l
end

mutual
/-- receipts (identifier notes only), newest first. -/
def INode.repsRev (d l : Nat) : INode → List Repair
  | .line ln => ln.repsRev l (1 + d)
  | .block key w cs => itreeRepsRev (d + w) (l + 1) cs ++ (identifierRepairs key l (1 + d)).reverse
def itreeRepsRev (d l : Nat) : List INode → List Repair
  | [] => []
  | n :: ns => itreeRepsRev d (l + n.nlines) ns ++ n.repsRev d l
end

mutual
/-- iterations of the lexer's main loop. -/
def INode.steps (d : Nat) : INode → Nat
  | .line _ => indentSteps d + 4
  | .block _ w cs => indentSteps d + 3 + itreeSteps (d + w) cs
def itreeSteps (d : Nat) : List INode → Nat
  | [] => 0
  | n :: ns => n.steps d + itreeSteps d ns
end

mutual
/-- **one node with `d` leading spaces** (a line, or a block with all its descendants). -/
theorem run_inode (env : Env) (lenient : Bool) : ∀ (n : INode) (d : Nat) (st : LState) (rest : Str),
    Ready st → st.col = 1 → n.OK →
    ∃ st', Run env lenient (n.steps d) st (n.text d ++ rest) st' rest ∧
      AdvL st st' (n.toksRev d st.line) (n.repsRev d st.line) n.nlines
  | .line ln, d, st, rest, hr, hc, hok => by
    obtain ⟨s1, r1, a1⟩ := run_iline env lenient st ln d rest hr hc (by simpa [INode.OK] using hok)
    refine ⟨s1, ?_, ?_⟩
    · simpa [INode.text, INode.steps, List.append_assoc] using r1
    · simpa [INode.toksRev, INode.repsRev, INode.nlines] using a1
  | .block key w cs, d, st, rest, hr, hc, hok => by
    simp only [INode.OK] at hok
    obtain ⟨s1, r1, a1⟩ := run_iheader env lenient st key d (itreeText (d + w) cs ++ rest) hr hc hok.1 hok.2.1
    obtain ⟨s2, r2, a2⟩ := run_itree env lenient cs (d + w) s1 rest a1.ready a1.col hok.2.2
    refine ⟨s2, ?_, ?_⟩
    · have := Run.trans r1 r2
      simpa [INode.text, INode.steps, List.append_assoc] using this
    · have h := a1.trans a2
      rw [a1.line] at h
      simpa [INode.toksRev, INode.repsRev, INode.nlines] using h
/-- **a list of sibling nodes with `d` leading spaces**, any depth and width below. -/
theorem run_itree (env : Env) (lenient : Bool) : ∀ (ns : List INode) (d : Nat) (st : LState) (rest : Str),
    Ready st → st.col = 1 → itreeOK ns →
    ∃ st', Run env lenient (itreeSteps d ns) st (itreeText d ns ++ rest) st' rest ∧
      AdvL st st' (itreeToksRev d st.line ns) (itreeRepsRev d st.line ns) (itreeNLines ns)
  | [], d, st, rest, hr, hc, _ =>
    ⟨st, by simpa [itreeText, itreeSteps] using Run.refl st rest,
      ⟨hr, by simp [itreeToksRev], by simp [itreeRepsRev], rfl, by simp [itreeNLines], hc⟩⟩
  | n :: ns, d, st, rest, hr, hc, hok => by
    simp only [itreeOK] at hok
    obtain ⟨s1, r1, a1⟩ := run_inode env lenient n d st (itreeText d ns ++ rest) hr hc hok.1
    obtain ⟨s2, r2, a2⟩ := run_itree env lenient ns d s1 rest a1.ready a1.col hok.2
    refine ⟨s2, ?_, ?_⟩
    · have := Run.trans r1 r2
      simpa [itreeText, itreeSteps, List.append_assoc] using this
    · have h := a1.trans a2
      rw [a1.line] at h
      simpa [itreeToksRev, itreeRepsRev, itreeNLines] using h
end
/-! ### the lines of the text: (depth, body) rows -/

mutual
/-- the lines of a node as (depth, text after the indentation). -/
def INode.rows (d : Nat) : INode → List (Nat × Str)
  | .line ln => [(d, ln.text)]
  | .block key w cs => (d, key ++ [':']) :: itreeRows (d + w) cs
def itreeRows (d : Nat) : List INode → List (Nat × Str)
  | [] => []
  | n :: ns => n.rows d ++ itreeRows d ns
end

/-- a row as a text line: two spaces per level, then the body. -/
def irowText (r : Nat × Str) : Str := spaces r.1 ++ r.2

mutual
theorem INode.text_rows : ∀ (n : INode) (d : Nat), n.text d = unlines ((n.rows d).map irowText)
  | .line ln, d => by simp [INode.text, INode.rows, irowText, unlines]
  | .block key w cs, d => by
    simp [INode.text, INode.rows, irowText, unlines, itreeText_rows cs (d + w)]
theorem itreeText_rows : ∀ (ns : List INode) (d : Nat), itreeText d ns = unlines ((itreeRows d ns).map irowText)
  | [], d => rfl
  | n :: ns, d => by
    simp [itreeText, itreeRows, unlines_append, INode.text_rows n d, itreeText_rows ns d]
end

mutual
theorem INode.rows_length : ∀ (n : INode) (d : Nat), (n.rows d).length = n.nlines
  | .line ln, d => rfl
  | .block key w cs, d => by simp [INode.rows, INode.nlines, itreeRows_length cs (d + w)]; omega
theorem itreeRows_length : ∀ (ns : List INode) (d : Nat), (itreeRows d ns).length = itreeNLines ns
  | [], d => rfl
  | n :: ns, d => by simp [itreeRows, itreeNLines, INode.rows_length n d, itreeRows_length ns d]
end
mutual
theorem INode.rows_ok : ∀ (n : INode) (d : Nat), n.OK → ∀ r ∈ n.rows d, BodyOK r.2
  | .line ln, d, hok, r, hr => by
    simp only [INode.rows, List.mem_singleton] at hr
    subst hr; exact bodyOK_line ln (by simpa [INode.OK] using hok)
  | .block key w cs, d, hok, r, hr => by
    simp only [INode.OK] at hok
    simp only [INode.rows, List.mem_cons] at hr
    rcases hr with h | h
    · subst h; exact bodyOK_header key hok.1
    · exact itreeRows_ok cs (d + w) hok.2.2 r h
theorem itreeRows_ok : ∀ (ns : List INode) (d : Nat), itreeOK ns → ∀ r ∈ itreeRows d ns, BodyOK r.2
  | [], d, _, r, hr => by simp [itreeRows] at hr
  | n :: ns, d, hok, r, hr => by
    simp only [itreeOK] at hok
    simp only [itreeRows, List.mem_append] at hr
    rcases hr with h | h
    · exact INode.rows_ok n d hok.1 r h
    · exact itreeRows_ok ns d hok.2 r h
end
theorem spaces_clean (d : Nat) : Clean (spaces d) := by
  intro x hx
  have : x = ' ' := (List.mem_replicate.mp hx).2
  subst this; decide

theorem irowText_clean (r : Nat × Str) (h : BodyOK r.2) : Clean (irowText r) := Clean.append (spaces_clean r.1) h.1

theorem irowText_fence (r : Nat × Str) (h : BodyOK r.2) : fenceLine (irowText r) = none := by
  obtain ⟨_, c, t, hb, h1, _, h3⟩ := h
  unfold irowText spaces
  rw [hb]
  exact fenceLine_none_of_indented _ c t h1 h3

/-- exactly `depth` leading spaces. -/
theorem irowText_spaces (r : Nat × Str) (h : BodyOK r.2) :
    takeWhile (· == ' ') (irowText r) = (List.replicate (r.1) ' ', r.2) := by
  obtain ⟨_, c, t, hb, h1, _, _⟩ := h
  unfold irowText spaces
  rw [hb]
  exact takeWhile_spaces _ c t h1
/-! ### the whole document -/

/-- canonical text of a document whose body is a tree of blocks and lines. -/
def idocText (name : Str) (nodes : List INode) : Str :=
  "===".toList ++ name ++ "===".toList ++ '\n' :: (itreeText 0 nodes ++ ("===END===".toList ++ ['\n']))

/-- its tokens, newest first (without EOF). -/
def idocToksRev (name : Str) (nodes : List INode) : List Token :=
  [tNewline (itreeNLines nodes + 2) 10, tEnvEnd (itreeNLines nodes + 2) 1] ++ itreeToksRev 0 2 nodes ++
  [tNewline 1 (1 + (name.length + 6)), tEnvStart name 1 1]

/-- its tokens in reading order, EOF included. -/
def idocToks (name : Str) (nodes : List INode) : List Token :=
  (tEof (itreeNLines nodes + 3) 1 :: idocToksRev name nodes).reverse

/-- **the whole document**: `itreeSteps 0 nodes + 4` iterations from the initial state consume the text and leave exactly
the expected tokens, the identifier notes as only receipts, an empty bracket stack, line `n + 3`, column 1. -/
theorem run_idoc (env : Env) (lenient : Bool) (name : Str) (nodes : List INode)
    (hn : isEnvName name = true) (hne : name ≠ "END".toList) (hok : itreeOK nodes) :
    ∃ st', Run env lenient (itreeSteps 0 nodes + 4) ({ spans := [] } : LState) (idocText name nodes) st' [] ∧
      st'.toks = idocToksRev name nodes ∧ st'.repairs = itreeRepsRev 0 2 nodes ∧ st'.stack = [] ∧
      st'.line = itreeNLines nodes + 3 ∧ st'.col = 1 := by
  let st0 : LState := { spans := [] }
  obtain ⟨s1, e1, a1⟩ := step_envStart env lenient st0 name ('\n' :: (itreeText 0 nodes ++ ("===END===".toList ++ ['\n']))) rfl hn hne
  obtain ⟨s2, e2, a2⟩ := step_newline env lenient s1 (itreeText 0 nodes ++ ("===END===".toList ++ ['\n'])) a1.ready
  obtain ⟨s3, r3, a3⟩ := run_itree env lenient nodes 0 s2 ("===END===".toList ++ ['\n']) a2.ready a2.col hok
  obtain ⟨s4, e4, a4⟩ := step_envEnd env lenient s3 ['\n'] a3.ready
  obtain ⟨s5, e5, a5⟩ := step_newline env lenient s4 [] a4.ready
  have run : Run env lenient (itreeSteps 0 nodes + 4) st0 (idocText name nodes) s5 [] := by
    have tail : Run env lenient (itreeSteps 0 nodes + 2) s2 (itreeText 0 nodes ++ ("===END===".toList ++ ['\n'])) s5 [] :=
      Run.trans r3 (Run.cons' (by simp) e4 (Run.one e5))
    exact Run.cons' (by simp [idocText]) (by simpa [idocText] using e1) (Run.cons e2 tail)
  refine ⟨s5, run, ?_, ?_, ?_, ?_, a5.col⟩
  · have l1 : s1.line = 1 := by rw [a1.line]
    have l2 : s2.line = 2 := by rw [a2.line, l1]
    have l3 : s3.line = itreeNLines nodes + 2 := by rw [a3.line, l2]; omega
    have l4 : s4.line = itreeNLines nodes + 2 := by rw [a4.line, l3]
    have c1 : s1.col = 1 + (name.length + 6) := a1.col
    have c3 : s3.col = 1 := a3.col
    have c4 : s4.col = 10 := by rw [a4.col, c3]
    rw [a5.toks, a4.toks, a3.toks, a2.toks, a1.toks, l1, l2, l3, l4, c1, c3, c4]
    simp [idocToksRev]
    exact ⟨rfl, rfl⟩
  · have l2 : s2.line = 2 := by rw [a2.line, a1.line]
    rw [a5.repairs, a4.repairs, a3.repairs, a2.repairs, a1.repairs, l2]; simp; rfl
  · rw [a5.stack, a4.stack, a3.stack, a2.stack, a1.stack]
  · rw [a5.line, a4.line, a3.line, a2.line, a1.line]
    show (1 : Nat) + 0 + 1 + itreeNLines nodes + 0 + 1 = itreeNLines nodes + 3
    omega

/-- the lines of the text. -/
theorem splitLines_idocText (name : Str) (nodes : List INode) (hn : isEnvName name = true) (hok : itreeOK nodes) :
    splitLines (idocText name nodes) =
      ("===".toList ++ name ++ "===".toList) :: ((itreeRows 0 nodes).map irowText ++ ["===END===".toList, []]) := by
  have h1 := splitLines_append_nl ("===".toList ++ name ++ "===".toList) (itreeText 0 nodes ++ ("===END===".toList ++ ['\n']))
    (fun d hd => (envLine_clean name hn d hd).1)
  have h2 := splitLines_unlines ((itreeRows 0 nodes).map irowText) ("===END===".toList ++ ['\n']) (by
    intro l hl d hd
    obtain ⟨r, hr, rfl⟩ := List.mem_map.mp hl
    exact (irowText_clean r (itreeRows_ok nodes 0 hok r hr) d hd).1)
  have h3 : splitLines ("===END===".toList ++ ['\n']) = ["===END===".toList, []] := by decide
  unfold idocText
  rw [h1, itreeText_rows, h2, h3]

theorem idocText_noTab (name : Str) (nodes : List INode) (hn : isEnvName name = true) (hok : itreeOK nodes) :
    ∀ d ∈ idocText name nodes, d ≠ '\t' := by
  have hl := unlines_noTab ((itreeRows 0 nodes).map irowText) (by
    intro l hl d hd
    obtain ⟨r, hr, rfl⟩ := List.mem_map.mp hl
    exact (irowText_clean r (itreeRows_ok nodes 0 hok r hr) d hd).2)
  intro d hd
  simp only [idocText, List.mem_append, List.mem_cons] at hd
  rcases hd with h' | h' | h' | h' | h'
  · exact (envLine_clean name hn d (by simp only [List.mem_append]; exact h')).2
  · subst h'; decide
  · rw [itreeText_rows] at h'; exact hl d h'
  · intro he; subst he; revert h'; decide
  · intro he; subst he; simp at h'

/-- **The lexer on the canonical text of a document with nested blocks** (any name, any tree of `KEY::scalar` lines and
`KEY:` blocks — any depth, any width, empty blocks included —, keys and scalars satisfying the emitter's own conditions,
both lexer modes, every environment whose NFC leaves the lines alone): `tokenize` succeeds with exactly the expected
tokens, positions included — one INDENT token valued `depth` in front of every line with leading spaces —, and with no
receipt other than the (non-normalisation) identifier notes of keys and bare words. -/
theorem tokenize_itree (env : Env) (lenient : Bool) (name : Str) (nodes : List INode)
    (hn : isEnvName name = true) (hne : name ≠ "END".toList) (hok : itreeOK nodes)
    (hnfc : ∀ l ∈ splitLines (idocText name nodes), env.nfc l = l) :
    tokenize env (idocText name nodes) lenient = .ok (idocToks name nodes, (itreeRepsRev 0 2 nodes).reverse) := by
  have hsplit := splitLines_idocText name nodes hn hok
  have hfence : ∀ l ∈ splitLines (idocText name nodes), fenceLine l = none ∧ env.nfc l = l := by
    intro l hl
    refine ⟨?_, hnfc l hl⟩
    rw [hsplit] at hl
    simp only [List.mem_cons, List.mem_append, List.mem_map, List.mem_nil_iff, or_false] at hl
    rcases hl with h | ⟨r, hr, rfl⟩ | h | h
    · subst h; exact fenceLine_none_of_head _ (by intro c hc; have : c = '=' := by simpa using hc.symm
                                                  subst this; decide)
    · exact irowText_fence r (itreeRows_ok nodes 0 hok r hr)
    · subst h; decide
    · subst h; decide
  have hnorm := normalize_plain env (idocText name nodes) hfence
  have htab := tabCheck_noTab [] (idocText name nodes) 0 1 1 (idocText_noTab name nodes hn hok)
  obtain ⟨st', run, ht, hr, hs, hl, hc⟩ := run_idoc env lenient name nodes hn hne hok
  have hloop := loop_of_run env lenient _ _ st' (idocText name nodes) run (by intro sp hsp; simp at hsp)
  unfold tokenize
  simp only [hnorm, htab, hloop, bind, Except.bind, hs, List.getLast?_nil, ht, hr, hl, hc]
  rfl
/-! ### the token list in reading order (for the bridge to the parser half) -/

/-- the INDENT token in front of a line with `d` leading spaces (none at depth 0). -/
def iIndentToks (d l : Nat) : List Token := if d = 0 then [] else [tIndent (d) l 1]

/-- `INDENT(2d)? IDENTIFIER(key) ASSIGN value NEWLINE` at line `l`; the key starts at column `1 + 2d`. -/
def ilineToks (ln : FLine) (d l : Nat) : List Token :=
  iIndentToks d l ++ [tIdent ln.key l (1 + d), tAssign l (1 + d + ln.key.length), ln.v.tok l (1 + d + ln.key.length + 2),
    tNewline l (1 + d + ln.key.length + 2 + ln.v.text.length)]

/-- `INDENT(2d)? IDENTIFIER(key) BLOCK NEWLINE` at line `l`. -/
def iheaderToks (key : Str) (d l : Nat) : List Token :=
  iIndentToks d l ++ [tIdent key l (1 + d), tBlock l (1 + d + key.length), tNewline l (1 + d + key.length + 1)]

mutual
def INode.toks (d l : Nat) : INode → List Token
  | .line ln => ilineToks ln d l
  | .block key w cs => iheaderToks key d l ++ itreeToks (d + w) (l + 1) cs
def itreeToks (d l : Nat) : List INode → List Token
  | [] => []
  | n :: ns => n.toks d l ++ itreeToks d (l + n.nlines) ns
end

theorem iIndentToksRev_reverse (d l : Nat) : (iIndentToksRev d l).reverse = iIndentToks d l := by
  unfold iIndentToksRev iIndentToks
  split <;> rfl

mutual
theorem INode.toksRev_reverse : ∀ (n : INode) (d l : Nat), (n.toksRev d l).reverse = n.toks d l
  | .line ln, d, l => by
    simp [INode.toksRev, INode.toks, ilineToksRev, ilineToks, FLine.toksRev, iIndentToksRev_reverse]
  | .block key w cs, d, l => by
    simp [INode.toksRev, INode.toks, iheaderToksRev, iheaderToks, iIndentToksRev_reverse, itreeToksRev_reverse cs (d + w) (l + 1)]
theorem itreeToksRev_reverse : ∀ (ns : List INode) (d l : Nat), (itreeToksRev d l ns).reverse = itreeToks d l ns
  | [], d, l => rfl
  | n :: ns, d, l => by
    simp [itreeToksRev, itreeToks, INode.toksRev_reverse n d l, itreeToksRev_reverse ns d (l + n.nlines)]
end

/-- the token list of the document in reading order. -/
theorem idocToks_eq (name : Str) (nodes : List INode) :
    idocToks name nodes =
      tEnvStart name 1 1 :: tNewline 1 (1 + (name.length + 6)) :: (itreeToks 0 2 nodes ++
        [tEnvEnd (itreeNLines nodes + 2) 1, tNewline (itreeNLines nodes + 2) 10, tEof (itreeNLines nodes + 3) 1]) := by
  simp [idocToks, idocToksRev, itreeToksRev_reverse]



/-! ### the spelled tree against the tree it spells -/

mutual
theorem INode.nlines_erase : ∀ (n : INode), n.erase.nlines = n.nlines
  | .line _ => rfl
  | .block _ _ cs => by simp only [INode.erase, TNode.nlines, INode.nlines, itreeNLines_erase cs]
theorem itreeNLines_erase : ∀ (ns : List INode), treeNLines (eraseList ns) = itreeNLines ns
  | [] => rfl
  | n :: ns => by simp only [eraseList, treeNLines, itreeNLines, INode.nlines_erase n, itreeNLines_erase ns]
end

mutual
theorem erase_canonNode : ∀ (n : TNode), (canonNode n).erase = n
  | .line _ => rfl
  | .block key cs => by simp only [canonNode, INode.erase, erase_canonList cs]
theorem erase_canonList : ∀ (ns : List TNode), eraseList (canonList ns) = ns
  | [] => rfl
  | n :: ns => by simp only [canonList, eraseList, erase_canonNode n, erase_canonList ns]
end

mutual
theorem widthsOk_canonNode : ∀ (n : TNode), (canonNode n).widthsOk = true
  | .line _ => rfl
  | .block key cs => by simp [canonNode, INode.widthsOk, widthsOk_canonList cs]
theorem widthsOk_canonList : ∀ (ns : List TNode), widthsOkList (canonList ns) = true
  | [] => rfl
  | n :: ns => by simp [canonList, widthsOkList, widthsOk_canonNode n, widthsOk_canonList ns]
end

mutual
/-- the canonical spelling (two spaces per level) written at indentation `2 * d` is the canonical text at depth `d`. -/
theorem text_canonNode : ∀ (n : TNode) (d : Nat), (canonNode n).text (2 * d) = n.text d
  | .line _, d => by simp only [canonNode, INode.text, TNode.text, spaces, indentStr]
  | .block key cs, d => by
    have h := text_canonList cs (d + 1)
    rw [show 2 * (d + 1) = 2 * d + 2 by omega] at h
    simp only [canonNode, INode.text, TNode.text, spaces, indentStr, h]
theorem text_canonList : ∀ (ns : List TNode) (d : Nat), itreeText (2 * d) (canonList ns) = treeText d ns
  | [], _ => rfl
  | n :: ns, d => by simp only [canonList, itreeText, treeText, text_canonNode n d, text_canonList ns d]
end

/-- **the canonical text is the spelling with width 2 everywhere.** -/
theorem idocText_canon (name : Str) (nodes : List TNode) : idocText name (canonList nodes) = treeDocText name nodes := by
  have := text_canonList nodes 0
  simp only [Nat.mul_zero] at this
  simp only [idocText, treeDocText, this]

/-- what the parser reads of a token when INDENT values are ignored. -/
def tokKind (t : Token) : TT × TVal := if t.type = .indent then (.indent, .none) else (t.type, t.value)

theorem iIndentToks_kind (p d l l' : Nat) (h : p = 0 ↔ d = 0) :
    (iIndentToks p l).map tokKind = (Octave.indentToks d l').map tokKind := by
  unfold iIndentToks Octave.indentToks
  by_cases hp : p = 0
  · rw [if_pos hp, if_pos (h.mp hp)]
  · rw [if_neg hp, if_neg (fun hd => hp (h.mpr hd))]; rfl

theorem scalarTok_kind (v : FScalar) (l c l' c' : Nat) : tokKind (v.tok l c) = tokKind (v.tok l' c') := by
  cases v <;> rfl

mutual
/-- **same tokens, other INDENT values, other positions**: types and values of the tokens of a spelled node are those of
the canonical text of the tree it spells, INDENT values aside (`p` leading spaces against depth `d`, `p = 0 ↔ d = 0`). -/
theorem INode.toks_kind : ∀ (n : INode) (p d l l' : Nat), (p = 0 ↔ d = 0) → n.widthsOk = true →
    (n.toks p l).map tokKind = (n.erase.toks d l').map tokKind
  | .line ln, p, d, l, l', h, _ => by
    simp only [INode.toks, INode.erase, TNode.toks, ilineToks, FLine.toksAt, List.map_append, iIndentToks_kind p d l l' h,
      List.map_cons, List.map_nil, scalarTok_kind ln.v l (1 + p + ln.key.length + 2) l' (1 + 2 * d + ln.key.length + 2)]
    rfl
  | .block key w cs, p, d, l, l', h, hw => by
    simp only [INode.widthsOk, Bool.and_eq_true, decide_eq_true_eq] at hw
    have ih := itreeToks_kind cs (p + w) (d + 1) (l + 1) (l' + 1) (by omega) hw.2
    simp only [INode.toks, INode.erase, TNode.toks, iheaderToks, headerToks, List.map_append, iIndentToks_kind p d l l' h, ih,
      List.map_cons, List.map_nil]
    rfl
theorem itreeToks_kind : ∀ (ns : List INode) (p d l l' : Nat), (p = 0 ↔ d = 0) → widthsOkList ns = true →
    (itreeToks p l ns).map tokKind = (treeToks d l' (eraseList ns)).map tokKind
  | [], _, _, _, _, _, _ => rfl
  | n :: ns, p, d, l, l', h, hw => by
    simp only [widthsOkList, Bool.and_eq_true] at hw
    simp only [itreeToks, eraseList, treeToks, List.map_append, INode.toks_kind n p d l l' h hw.1,
      itreeToks_kind ns p d (l + n.nlines) (l' + n.erase.nlines) h hw.2]
end

/-- **Stage 1, summary**: the token list of the spelled text is the token list of the canonical text except for the values
carried by the INDENT tokens (and the columns). -/
theorem idocToks_kind (name : Str) (nodes : List INode) (hw : widthsOkList nodes = true) :
    (idocToks name nodes).map tokKind = (treeDocToks name (eraseList nodes)).map tokKind := by
  rw [idocToks_eq, treeDocToks_eq]
  simp only [List.map_cons, List.map_append, itreeToks_kind nodes 0 0 2 2 Iff.rfl hw, itreeNLines_erase]

end Octave.C03.Indent
