import Octave.Lemmas.ZoneTreeLex
import Octave.Lemmas.ZoneTreeParse
import Octave.Lemmas.BlockBridge
import Octave.Lemmas.ZoneBridge
/-!
Glue between the lexer half (`ZoneTreeLex`: concrete positions, zone contents as LINES) and the parser half
(`ZoneTreeParse`: arbitrary positions) of the round trip of documents with literal zones anywhere (C05), and the emitter
on such documents.

* `ZNode.toZT` / `zforestToZT`: the forest with the positions the lexer gives to every token, in the vocabulary of the
  parser half; `ZNode.toks_bridge` / `zforestToks_bridge` / `zdocToks_bridge`: the two token descriptions agree;
  `canonCols_toZT`, `metaFirstZ_bridge`: the side conditions;
* `ZNode.node` / `zforestNodes` / `zdoc`: the document (node positions by `pos : line → depth → (line, column)`);
  `nodeList_bridge`;
* `parse_zdoc` / `parseWithWarnings_zdoc`: **lexer ∘ parser** on the text `zdocText` through the real entry points;
* `ZNode.emitLines`, `emitNode_ztree`, `emit_zdoc_lines`, `emit_zdoc`: the emitter writes exactly `zdocText` (guard
  `zforestNoEmptyLine`: no zone content is the single empty line, finding C05N1; the tag text is what `strip` returns).
-/
namespace Octave
open Lexer Emitter ZoneTreeParse

/-! ### the forest in the vocabulary of the parser half -/

/-- positions of the seven tokens of a zone assignment at depth `d` whose `KEY::` line is text line `l`, with `n` content
lines. -/
def zonePosAt (key marker : Str) (n d l : Nat) : ZoneParse.ZPos :=
  { kl := l, kc := 1 + 2 * d, al := l, ac := 1 + 2 * d + key.length, n0l := l, n0c := 1 + 2 * d + key.length + 2,
    ol := l + 1, oc := 1 + 2 * d, ll := l + 1 + 1, lc := 1, cl := l + 1 + n + 1, cc := 1, n1l := l + 1 + n + 1,
    n1c := 2 * d + marker.length + 1 }

/-- the zone assignment as the reader sees it: content = the content lines joined by line breaks, tag = `strip` of the text
after the backticks (`none` when blank). -/
def zoneItemAt (env : Env) (key marker trailing : Str) (C : List Str) (d l : Nat) : ZoneParse.Zone :=
  { key := key, content := joinWith ['\n'] C, tag := tagOf env trailing, marker := marker, p := zonePosAt key marker C.length d l }

mutual
def ZNode.toZT (env : Env) (d l : Nat) : ZNode → ZT
  | .line ln => .leaf (linePos ln d l) (.line (BlockParse.mkLine ln.key ln.v.toP (linePos ln d l)))
  | .zone key marker trailing C => .leaf (headerPos key d l) (.zone (zoneItemAt env key marker trailing C d l))
  | .block key cs => .block (headerPos key d l) key (zforestToZT env (d + 1) (l + 1) cs)
def zforestToZT (env : Env) (d l : Nat) : List ZNode → List ZT
  | [] => []
  | n :: ns => n.toZT env d l :: zforestToZT env d (l + n.nlines) ns
end

theorem zone_body_bridge (env : Env) (key marker trailing : Str) (C : List Str) (d l : Nat) :
    [tIdent key l (1 + 2 * d), tAssign l (1 + 2 * d + key.length), tNewline l (1 + 2 * d + key.length + 2),
     tFenceOpen marker (tagOf env trailing) (l + 1) (1 + 2 * d), tLiteral (joinWith ['\n'] C) (l + 1 + 1) 1,
     tFenceClose marker (l + 1 + C.length + 1) 1, tNewline (l + 1 + C.length + 1) (2 * d + marker.length + 1)]
      = (zoneItemAt env key marker trailing C d l).toks := rfl

mutual
/-- **a node**: its tokens in reading order are its INDENT followed by `body`. -/
theorem ZNode.toks_bridge (env : Env) : ∀ (n : ZNode) (d l : Nat),
    (n.toksRev env d l).reverse = BlockParse.indentToks d (n.toZT env d l).ip ++ (n.toZT env d l).body d
  | .line ln, d, l => by
    simp only [ZNode.toksRev, FLine.toksRevAt, FLine.toksRev, List.reverse_append, indentToksRev_reverse, ZNode.toZT, ZT.ip,
      ZT.body, ZoneParse.Item.toks]
    rw [indentToks_bridge d l (linePos ln d l) rfl rfl, ← line_body_bridge]
    simp only [List.reverse_cons, List.reverse_nil, List.nil_append, List.cons_append]
  | .zone key marker trailing C, d, l => by
    simp only [ZNode.toksRev, zoneToksRevAt, zkeyToksRev, List.reverse_append, indentToksRev_reverse, ZNode.toZT, ZT.ip, ZT.body,
      ZoneParse.Item.toks]
    rw [indentToks_bridge d l (headerPos key d l) rfl rfl, ← zone_body_bridge]
    simp only [List.reverse_cons, List.reverse_nil, List.nil_append, List.cons_append, List.append_assoc]
  | .block key cs, d, l => by
    simp only [ZNode.toksRev, headerToksRev, List.reverse_append, indentToksRev_reverse, ZNode.toZT, ZT.ip, ZT.body,
      zforestToks_bridge env cs (d + 1) (l + 1)]
    rw [indentToks_bridge d l (headerPos key d l) rfl rfl]
    simp only [List.reverse_cons, List.reverse_nil, List.nil_append, List.cons_append, List.append_assoc]
    rfl
/-- **a forest.** -/
theorem zforestToks_bridge (env : Env) : ∀ (ns : List ZNode) (d l : Nat),
    (zforestToksRev env d l ns).reverse = toksList (zforestToZT env d l ns) d
  | [], d, l => rfl
  | n :: ns, d, l => by
    simp only [zforestToksRev, List.reverse_append, zforestToZT, toksList, ZNode.toks_bridge env n d l,
      zforestToks_bridge env ns d (l + n.nlines), List.append_assoc]
end

/-- **the two descriptions of the token list of the whole document agree.** -/
theorem zdocToks_bridge (env : Env) (name : Str) (nodes : List ZNode) :
    zdocToks env name nodes
      = ztreeToks (treeFrame name (zforestNLines nodes)) name (zforestToZT env 0 2 nodes) := by
  simp only [zdocToks, zdocToksRev, List.reverse_cons, List.reverse_append, zforestToks_bridge, ztreeToks]
  simp [treeFrame, flatFrame, FlatParse.Frame.envTok, FlatParse.Frame.nl0Tok, FlatParse.Frame.endTok, FlatParse.Frame.nl1Tok,
    FlatParse.Frame.eofTok, tEof, tNewline, tEnvEnd, tEnvStart]

mutual
theorem ZNode.canonCols_toZT (env : Env) : ∀ (n : ZNode) (d l : Nat), (n.toZT env d l).canonCols d = true
  | .line ln, d, l => rfl
  | .zone key marker trailing C, d, l => rfl
  | .block key cs, d, l => by
    simp only [ZNode.toZT, ZT.canonCols, headerPos, zforestCanonCols_toZT env cs (d + 1) (l + 1), Bool.and_true, decide_eq_true_eq]
    omega
theorem zforestCanonCols_toZT (env : Env) : ∀ (ns : List ZNode) (d l : Nat), canonColsList (zforestToZT env d l ns) d = true
  | [], d, l => rfl
  | n :: ns, d, l => by
    simp only [zforestToZT, canonColsList, ZNode.canonCols_toZT env n d l, zforestCanonCols_toZT env ns d (l + n.nlines), Bool.and_self]
end

def ZNode.key : ZNode → Str
  | .line ln => ln.key
  | .zone key _ _ _ => key
  | .block key _ => key

/-- the first top-level key (of a line, a zone assignment or a block) is `META`. -/
def zfirstKeyIsMeta : List ZNode → Bool
  | n :: _ => n.key == "META".toList
  | [] => false

theorem metaFirstZ_bridge (env : Env) (nodes : List ZNode) (l : Nat) :
    metaFirstZ (zforestToZT env 0 l nodes) = zfirstKeyIsMeta nodes := by
  cases nodes with
  | nil => rfl
  | cons n ns => cases n <;> rfl

/-! ### the document -/

mutual
/-- the AST of a node at depth `d` whose first line is text line `l`; node positions chosen by `pos l d`.  A zone
assignment carries the content lines joined by line breaks, the tag and the marker. -/
def ZNode.node (env : Env) (pos : Nat → Nat → Nat × Nat) (d l : Nat) : ZNode → Node
  | .line ln => .assign ln.key ln.v.value (pos l d).1 (pos l d).2 [] none
  | .zone key marker trailing C =>
    .assign key (.zone (joinWith ['\n'] C) (tagOf env trailing) marker) (pos l d).1 (pos l d).2 [] none
  | .block key cs => .block key (zforestNodes env pos (d + 1) (l + 1) cs) (pos l d).1 (pos l d).2 [] none
def zforestNodes (env : Env) (pos : Nat → Nat → Nat × Nat) (d l : Nat) : List ZNode → List Node
  | [] => []
  | n :: ns => n.node env pos d l :: zforestNodes env pos d (l + n.nlines) ns
end

/-- the positions the reader stores for the canonical text: a node whose first line is text line `l`, at depth `d`, is at
line `l`, column `1 + 2·d`. -/
def zcanonPos : Nat → Nat → Nat × Nat := fun l d => (l, 1 + 2 * d)

def zdoc (env : Env) (name : Str) (pos : Nat → Nat → Nat × Nat) (nodes : List ZNode) : Document :=
  { name := name, sections := zforestNodes env pos 0 2 nodes }

mutual
theorem ZNode.node_bridge (env : Env) : ∀ (n : ZNode) (d l : Nat), (n.toZT env d l).node = n.node env zcanonPos d l
  | .line ln, d, l => by
    simp only [ZNode.toZT, ZT.node, ZoneParse.Item.node, FlatParse.Line.node, BlockParse.mkLine, linePos, ZNode.node, zcanonPos,
      FScalar.val_toP]
  | .zone key marker trailing C, d, l => rfl
  | .block key cs, d, l => by
    simp only [ZNode.toZT, ZT.node, ZNode.node, headerPos, zcanonPos, nodeList_bridge env cs (d + 1) (l + 1)]
theorem nodeList_bridge (env : Env) : ∀ (ns : List ZNode) (d l : Nat),
    nodeList (zforestToZT env d l ns) = zforestNodes env zcanonPos d l ns
  | [], d, l => rfl
  | n :: ns, d, l => by
    simp only [zforestToZT, nodeList, zforestNodes, ZNode.node_bridge env n d l, nodeList_bridge env ns d (l + n.nlines)]
end

theorem ztreeDoc_bridge (env : Env) (name : Str) (nodes : List ZNode) :
    ztreeDoc name (zforestToZT env 0 2 nodes) = zdoc env name zcanonPos nodes := by
  simp only [ztreeDoc, zdoc, nodeList_bridge]

theorem stripFrontmatter_zdoc (env : Env) (name : Str) (nodes : List ZNode) :
    Parser.stripFrontmatter env (zdocText name nodes) = (zdocText name nodes, none) := by
  unfold Parser.stripFrontmatter
  have : startsWith "---".toList (zdocText name nodes) = false := by
    simp [zdocText, envLine, startsWith, List.isPrefixOf]
  rw [this]; rfl

/-- parser warnings of the document (duplicate keys per block and at top level — zone assignments included —, bare words
under `PATTERN` / `REGEX`; never anything from inside a zone). -/
def zdocWarns (env : Env) (nodes : List ZNode) : List Parser.Warning := warnsList (zforestToZT env 0 2 nodes) []

/-- **Lexer ∘ parser, strict entry point, on a document with literal zones anywhere**: `Parser.parse` returns exactly the
document — every zone assignment at its place (top level or inside any block), carrying its content lines joined by line
breaks, its tag and its marker; every line and block as without the zones.  Hypotheses: those of `tokenize_ztree` and: the
first top-level key is not `META`. -/
theorem parse_zdoc (env : Env) (name : Str) (nodes : List ZNode)
    (hn : isEnvName name = true) (hne : name ≠ "END".toList) (hok : zforestOK nodes)
    (hmeta : zfirstKeyIsMeta nodes = false)
    (hnfc : ∀ l ∈ zdocNfcLines name nodes, env.nfc l = l) :
    Parser.parse env (zdocText name nodes) = .ok (zdoc env name zcanonPos nodes) := by
  have hlex := tokenize_ztree env false name nodes hn hne hok hnfc
  rw [zdocToks_bridge] at hlex
  have hp := parseDocument_ztree (treeFrame name (zforestNLines nodes)) name (zforestToZT env 0 2 nodes)
    (Parser.initState env (ztreeToks (treeFrame name (zforestNLines nodes)) name (zforestToZT env 0 2 nodes)) true)
    (by rw [metaFirstZ_bridge]; exact hmeta) (colsOkList_of_canon _ 0 (zforestCanonCols_toZT env nodes 0 2)) rfl
  unfold Parser.parse
  simp only [stripFrontmatter_zdoc, hlex, bind, Except.bind, StateT.run, hp, pure, Except.pure, ztreeDoc_bridge]
  rfl

/-- … and the lenient entry point: the same document, the receipts (identifier notes of keys and bare words outside the
zones — none from inside a zone), the parser warnings `zdocWarns`. -/
theorem parseWithWarnings_zdoc (env : Env) (name : Str) (nodes : List ZNode)
    (hn : isEnvName name = true) (hne : name ≠ "END".toList) (hok : zforestOK nodes)
    (hmeta : zfirstKeyIsMeta nodes = false)
    (hnfc : ∀ l ∈ zdocNfcLines name nodes, env.nfc l = l) :
    Parser.parseWithWarnings env (zdocText name nodes) =
      .ok (zdoc env name zcanonPos nodes, (zforestRepsRev 0 2 nodes).reverse, zdocWarns env nodes) := by
  have hlex := tokenize_ztree env false name nodes hn hne hok hnfc
  rw [zdocToks_bridge] at hlex
  have hp := parseDocument_ztree (treeFrame name (zforestNLines nodes)) name (zforestToZT env 0 2 nodes)
    (Parser.initState env (ztreeToks (treeFrame name (zforestNLines nodes)) name (zforestToZT env 0 2 nodes)) false)
    (by rw [metaFirstZ_bridge]; exact hmeta) (colsOkList_of_canon _ 0 (zforestCanonCols_toZT env nodes 0 2)) rfl
  unfold Parser.parseWithWarnings
  simp only [stripFrontmatter_zdoc, hlex, bind, Except.bind, StateT.run, hp, pure, Except.pure, ztreeDoc_bridge, zdocWarns]
  simp [Parser.initState]
  rfl

/-! ### the emitter -/

mutual
/-- what the emitter needs beyond `ZNode.OK` to write the lines `ZNode.emitLines`: scalars spelled its way; the text after
the backticks is what `strip` returns (it is re-written from the tag that was read). -/
def ZNode.EmitOK (env : Env) : ZNode → Prop
  | .line ln => ln.EmitOK
  | .zone _ _ trailing _ => env.strip trailing = trailing
  | .block _ cs => zforestEmitOK env cs
def zforestEmitOK (env : Env) : List ZNode → Prop
  | [] => True
  | n :: ns => n.EmitOK env ∧ zforestEmitOK env ns
end

mutual
/-- the guard of finding C05N1: no zone content is the single empty line (a zone with content `""` is written as the EMPTY
zone, so the text with one empty content line is not what the emitter writes). -/
def ZNode.NoEmptyLine : ZNode → Prop
  | .line _ => True
  | .zone _ _ _ C => C ≠ [[]]
  | .block _ cs => zforestNoEmptyLine cs
def zforestNoEmptyLine : List ZNode → Prop
  | [] => True
  | n :: ns => n.NoEmptyLine ∧ zforestNoEmptyLine ns
end

/-- the content "line" the emitter writes between the fences (none for content `""`). -/
def contentPart (C : List Str) : List Str := if (joinWith ['\n'] C).isEmpty then [] else [joinWith ['\n'] C]

mutual
/-- the lines the emitter produces for a node at depth `d` (a zone content is ONE entry, line breaks inside). -/
def ZNode.emitLines (d : Nat) : ZNode → List Str
  | .line ln => [indentStr d ++ ln.text]
  | .zone key marker trailing C =>
    [indentStr d ++ key ++ "::".toList, indentStr d ++ marker ++ trailing] ++ contentPart C ++ [indentStr d ++ marker]
  | .block key cs => (indentStr d ++ key ++ [':']) :: zforestEmitLines (d + 1) cs
def zforestEmitLines (d : Nat) : List ZNode → List Str
  | [] => []
  | n :: ns => n.emitLines d ++ zforestEmitLines d ns
end

theorem fenceLines_tagOf (env : Env) (d : Nat) (c t m : Str) (h : env.strip t = t) :
    fenceLines d c (tagOf env t) m = [indentStr d ++ m ++ t] ++ (if c.isEmpty then [] else [c]) ++ [indentStr d ++ m] := by
  unfold fenceLines tagOf
  rw [h]
  cases t with
  | nil => simp
  | cons a r => simp

theorem isIdentifierText_ne_nil (key : Str) (h : isIdentifierText key = true) : key.isEmpty = false := by
  cases key with
  | nil => simp [isIdentifierText] at h
  | cons c r => rfl

theorem fscalar_value_not_zone (v : FScalar) : ∀ c t m, v.value ≠ .zone c t m := by
  intro c t m; cases v <;> simp [FScalar.value]

mutual
theorem emitNode_ztree (env : Env) (pos : Nat → Nat → Nat × Nat) : ∀ (n : ZNode) (d l : Nat) (b : Bool), n.OK → n.EmitOK env →
    emitNode env (n.node env pos d l) d b = some (n.emitLines d)
  | .line ln, d, l, b, _, he => by
    simp only [ZNode.node, ZNode.emitLines]
    exact emitNode_line env ln _ _ d b (by simpa [ZNode.EmitOK] using he)
  | .zone key marker trailing C, d, l, b, hok, he => by
    obtain ⟨hk, _⟩ := hok
    have ht : env.strip trailing = trailing := he
    have hke := isIdentifierText_ne_nil key hk
    simp only [ZNode.node, ZNode.emitLines, emitNode, hke, Bool.and_false, Bool.false_eq_true, if_false, emitAssignment, leadingLines,
      List.map_nil, List.nil_append, fenceLines_tagOf env d _ trailing marker ht, contentPart, List.append_assoc,
      List.cons_append]
  | .block key cs, d, l, b, hok, he => by
    simp only [ZNode.OK] at hok
    simp only [ZNode.EmitOK] at he
    have ih := emitChildren_ztree env pos cs (d + 1) (l + 1) true hok.2.2 he
    simp only [ZNode.node, ZNode.emitLines, emitNode, ih, Option.map_some, leadingLines, List.map_nil, List.nil_append, List.append_nil,
      List.cons_append, List.append_assoc]
theorem emitChildren_ztree (env : Env) (pos : Nat → Nat → Nat × Nat) : ∀ (ns : List ZNode) (d l : Nat) (b : Bool),
    zforestOK ns → zforestEmitOK env ns → emitChildren env (zforestNodes env pos d l ns) d b = some (zforestEmitLines d ns)
  | [], d, l, b, _, _ => rfl
  | n :: ns, d, l, b, hok, he => by
    simp only [zforestOK] at hok
    simp only [zforestEmitOK] at he
    simp only [zforestNodes, emitChildren, emitNode_ztree env pos n d l b hok.1 he.1,
      emitChildren_ztree env pos ns d (l + n.nlines) b hok.2 he.2, zforestEmitLines]
end

theorem emitTop_ztree (env : Env) (pos : Nat → Nat → Nat × Nat) : ∀ (ns : List ZNode) (l : Nat),
    zforestOK ns → zforestEmitOK env ns → emitTop env (zforestNodes env pos 0 l ns) = some (zforestEmitLines 0 ns)
  | [], l, _, _ => rfl
  | n :: ns, l, hok, he => by
    simp only [zforestOK] at hok
    simp only [zforestEmitOK] at he
    have hn := emitNode_ztree env pos n 0 l false hok.1 he.1
    have ih := emitTop_ztree env pos ns (l + n.nlines) hok.2 he.2
    cases n with
    | line ln => simp only [zforestNodes, ZNode.node] at hn ⊢; simp only [emitTop, hn, ih, zforestEmitLines]
    | zone key marker trailing C => simp only [zforestNodes, ZNode.node] at hn ⊢; simp only [emitTop, hn, ih, zforestEmitLines]
    | block key cs => simp only [zforestNodes, ZNode.node] at hn ⊢; simp only [emitTop, hn, ih, zforestEmitLines]

/-- the content lines, each followed by a line break, are what the emitter's single content entry gives — unless the
content is the single empty line (C05N1). -/
theorem unlines_contentPart (C : List Str) (h : C ≠ [[]]) : unlines (contentPart C) = lineBlock C := by
  unfold contentPart
  cases C with
  | nil => rfl
  | cons x r =>
    cases r with
    | nil =>
      cases x with
      | nil => exact absurd rfl h
      | cons c t => simp [joinWith, unlines, lineBlock]
    | cons y s =>
      have hne : (joinWith ['\n'] (x :: y :: s)).isEmpty = false := by
        simp only [joinWith, List.isEmpty_eq_false_iff]
        simp
      rw [hne]
      simp only [Bool.false_eq_true, if_false, unlines]
      have : ∀ (L : List Str), L ≠ [] → joinWith ['\n'] L ++ ['\n'] = lineBlock L := by
        intro L
        induction L with
        | nil => intro h; exact absurd rfl h
        | cons a L ih =>
          intro _
          cases L with
          | nil => simp [joinWith, lineBlock]
          | cons b L' =>
            have := ih (by simp)
            simp only [joinWith, lineBlock, List.append_assoc] at this ⊢
            rw [this]; simp
      have h2 := this (x :: y :: s) (by simp)
      simpa using h2

mutual
theorem ZNode.unlines_emitLines : ∀ (n : ZNode) (d : Nat), n.NoEmptyLine → unlines (n.emitLines d) = n.text d
  | .line ln, d, _ => by simp [ZNode.emitLines, ZNode.text, unlines]
  | .zone key marker trailing C, d, hg => by
    simp only [ZNode.emitLines, unlines_append, unlines_contentPart C hg, ZNode.text, unlines, zoneSpanText, fenceOpenLine,
      fenceCloseLine, spaces_eq_indentStr]
    simp [List.append_assoc]
  | .block key cs, d, hg => by
    simp only [ZNode.NoEmptyLine] at hg
    simp [ZNode.emitLines, ZNode.text, unlines, zforest_unlines_emitLines cs (d + 1) hg]
theorem zforest_unlines_emitLines : ∀ (ns : List ZNode) (d : Nat), zforestNoEmptyLine ns →
    unlines (zforestEmitLines d ns) = zforestText d ns
  | [], d, _ => rfl
  | n :: ns, d, hg => by
    simp only [zforestNoEmptyLine] at hg
    simp only [zforestEmitLines, unlines_append, ZNode.unlines_emitLines n d hg.1, zforest_unlines_emitLines ns d hg.2,
      zforestText]
end

/-- the emitter's output in terms of its lines — NO guard on the contents. -/
theorem emit_zdoc_lines (env : Env) (name : Str) (pos : Nat → Nat → Nat × Nat) (nodes : List ZNode)
    (hok : zforestOK nodes) (he : zforestEmitOK env nodes) :
    emit env (zdoc env name pos nodes) =
      some (envLine name ++ '\n' :: (unlines (zforestEmitLines 0 nodes) ++ ("===END===".toList ++ ['\n']))) := by
  have ht := emitTop_ztree env pos nodes 2 hok he
  have hj := joinWith_unlines (zforestEmitLines 0 nodes) "===END===".toList
  unfold emit emitBody
  simp only [zdoc, emitMetaLines, ht, leadingLines, List.map_nil, List.isEmpty_nil, Bool.true_or, if_true,
    Bool.false_eq_true, if_false, List.nil_append, List.append_nil, bind, Option.bind, pure, Option.map]
  show some (finishText (joinWith ['\n'] (("===".toList ++ name ++ "===".toList) :: (zforestEmitLines 0 nodes ++ ["===END===".toList])))) = _
  have hne : zforestEmitLines 0 nodes ++ ["===END===".toList] ≠ [] := by simp
  obtain ⟨x, xs, hx⟩ := List.exists_cons_of_ne_nil hne
  rw [hx, joinWith, ← hx, hj]
  have hlast : (("===".toList ++ name ++ "===".toList) ++ ['\n'] ++ (unlines (zforestEmitLines 0 nodes) ++ "===END===".toList)).getLast? = some '=' := by
    rw [List.getLast?_append, List.getLast?_append]; rfl
  simp only [finishText, hlast]
  simp [envLine]

/-- **The emitter on a document with literal zones anywhere** writes exactly `zdocText`, whatever positions the nodes
carry: every zone as `indent KEY::`, `indent marker tag`, the content verbatim, `indent marker`.  Guard `zforestNoEmptyLine`:
finding C05N1. -/
theorem emit_zdoc (env : Env) (name : Str) (pos : Nat → Nat → Nat × Nat) (nodes : List ZNode)
    (hok : zforestOK nodes) (he : zforestEmitOK env nodes) (hg : zforestNoEmptyLine nodes) :
    emit env (zdoc env name pos nodes) = some (zdocText name nodes) := by
  rw [emit_zdoc_lines env name pos nodes hok he, zforest_unlines_emitLines nodes 0 hg]
  rfl

end Octave
