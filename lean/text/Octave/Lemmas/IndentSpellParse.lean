/-
Parser half of C03 on NESTED BLOCKS with free INDENTATION WIDTHS — `Lemmas/BlockParse.lean` restated with the INDENT VALUES
as data instead of `2 · depth`.

Content model: `PNode` = `line key scalar` | `block key w children`: `w` is the number of spaces the block's children are
indented by RELATIVE to the block's own header.  A node "at indentation `d`" (`d` = number of leading spaces of its line) is
preceded by the token `INDENT(d)` when `d > 0` and by nothing when `d = 0`; the children of a block at indentation `d` are at
indentation `d + w`.  Every line/column number is arbitrary (`pos : Nat → LPos`, one record per source line), exactly as in
`BlockParse`; `w = 2` everywhere gives `BlockParse`'s token list.

What `parseSection` / `blockLoop` (Model/ParserDoc.lean) need, exactly (`PNode.colsOk`):
  * a block WITH children: `key.column - 1 < d + w` (the first child's INDENT value exceeds `block_indent = key.column - 1`,
    otherwise the block is read as empty and the children are re-parented) and `0 < w` (what follows the block — an INDENT of
    value `≤ d` — must be `<` the child indentation `d + w`, which `blockLoop` takes from the FIRST child's INDENT value);
  * an EMPTY block: `d ≤ key.column - 1` (the next line, of indentation `≤ d`, must not be "indented" w.r.t. the block);
  * the children of one block all carry the same INDENT value `d + w` (built into the token model `toksList`); `blockLoop`
    itself only needs `≥` the first child's value, see the report.
The lexer gives `key.column = d + 1`, so both column clauses hold for EVERY `w ≥ 1` (`colsOk_of_canon`).

Proved (same scheme as `BlockParse`: `SecOK` / `ChildOK` / `LoopOK` indexed by the fuel, tied by strong induction):
`parseSection_block`, `blockLoop_forest`, `docLoop_tree`, `parseDocument_tree`.
-/
import Octave.Lemmas.BlockParse
namespace Octave.C03.IndentParse
open Octave Parser FlatParse BlockParse

/-! ## Content model -/

/-- document content below the envelope; a block carries the indentation width `w` of its children (spaces, relative to
its own header). -/
inductive PNode where
  | line (key : Str) (v : Scalar)
  | block (key : Str) (w : Nat) (children : List PNode)

/-- the INDENT token of a line with `d` leading spaces: its VALUE `d` is what the parser reads. -/
def indentTok (d : Nat) (p : LPos) : Token := { type := .indent, value := .nat d, line := p.li, col := p.ci }

/-- an unindented line has no INDENT token; a line with `d > 0` leading spaces starts with `INDENT(d)`. -/
def indentToks : Nat → LPos → List Token
  | 0, _ => []
  | d + 1, p => [indentTok (d + 1) p]

mutual
def PNode.lines : PNode → Nat
  | .line _ _ => 1
  | .block _ _ cs => 1 + linesList cs
def linesList : List PNode → Nat
  | [] => 0
  | c :: cs => c.lines + linesList cs
end

mutual
/-- tokens of a node at indentation `d` whose first source line is line number `i` of the body, WITHOUT the leading INDENT. -/
def PNode.body (pos : Nat → LPos) : PNode → Nat → Nat → List Token
  | .line key v, _, i => (mkLine key v (pos i)).toks
  | .block key w cs, d, i => hdrKeyTok key (pos i) :: hdrBlockTok (pos i) :: hdrNlTok (pos i) :: toksList pos cs (d + w) (i + 1)
/-- tokens of a forest whose lines all have `d` leading spaces, starting at body line `i`. -/
def toksList (pos : Nat → LPos) : List PNode → Nat → Nat → List Token
  | [], _, _ => []
  | c :: cs, d, i => indentToks d (pos i) ++ (c.body pos d i ++ toksList pos cs d (i + c.lines))
end

mutual
/-- the AST node the reader must produce (positions: those of the key token); the widths leave no trace. -/
def PNode.node (pos : Nat → LPos) : PNode → Nat → Node
  | .line key v, i => (mkLine key v (pos i)).node
  | .block key _ cs, i => .block key (nodeList pos cs (i + 1)) (pos i).l (pos i).c1 [] none
def nodeList (pos : Nat → LPos) : List PNode → Nat → List Node
  | [], _ => []
  | c :: cs, i => c.node pos i :: nodeList pos cs (i + c.lines)
end

def trackNode (kp : KeyPos) (c : PNode) (p : LPos) : KeyPos × List Warning :=
  match c with
  | .line key _ => trackPure kp key p.l
  | .block _ _ _ => (kp, [])

mutual
def PNode.warns (pos : Nat → LPos) : PNode → Nat → List Warning
  | .line key v, i => (mkLine key v (pos i)).warns
  | .block _ _ cs, i => warnsList pos cs [] (i + 1)
def warnsList (pos : Nat → LPos) : List PNode → KeyPos → Nat → List Warning
  | [], _, _ => []
  | c :: cs, kp, i => c.warns pos i ++ ((trackNode kp c (pos i)).2 ++ warnsList pos cs (trackNode kp c (pos i)).1 (i + c.lines))
end

mutual
def PNode.lastTok (pos : Nat → LPos) : PNode → Nat → Token
  | .line key v, i => (mkLine key v (pos i)).nlTok
  | .block _ _ cs, i => lastTokList pos cs (hdrNlTok (pos i)) (i + 1)
def lastTokList (pos : Nat → LPos) : List PNode → Token → Nat → Token
  | [], dflt, _ => dflt
  | c :: cs, _, i => lastTokList pos cs (c.lastTok pos i) (i + c.lines)
end

def prevAfterList (pos : Nat → LPos) (p : Option Token) (cs : List PNode) (i : Nat) : Option Token :=
  match cs with
  | [] => p
  | c :: cs => some (lastTokList pos cs (c.lastTok pos i) (i + c.lines))

mutual
/-- **what the code needs of the column of a block key and of the widths** (`block_indent = key.column - 1`), for a block
at indentation `d` with children at indentation `d + w`:
a block with children needs `0 < w` and `block_indent < d + w`; an empty block needs `d ≤ block_indent`. -/
def PNode.colsOk (pos : Nat → LPos) : PNode → Nat → Nat → Bool
  | .line _ _, _, _ => true
  | .block _ w cs, d, i =>
    (if cs.isEmpty then decide (d ≤ (pos i).c1 - 1) else decide (0 < w) && decide ((pos i).c1 - 1 < d + w))
      && colsOkList pos cs (d + w) (i + 1)
def colsOkList (pos : Nat → LPos) : List PNode → Nat → Nat → Bool
  | [], _, _ => true
  | c :: cs, d, i => c.colsOk pos d i && colsOkList pos cs d (i + c.lines)
end

/-! ## Evaluation on explicit states -/

local macro "step_simp" "[" ts:Lean.Parser.Tactic.simpLemma,* "]" : tactic =>
  `(tactic| simp only [bind, StateT.bind, Except.bind, pure, StateT.pure, Except.pure, current_mk, peek_mk, advance_mk,
      curType_mk, isAdjacentBracket_mk, budget_mk, warn_mk, get, getThe, MonadStateOf.get, StateT.get,
      Bool.false_eq_true, if_false, if_true, Bool.false_and, Bool.and_false, Bool.or_false, Bool.false_or,
      List.length_cons, List.length_nil, beq_iff_eq, bne_iff_ne, ne_eq, reduceCtorEq, not_true_eq_false, not_false_eq_true,
      Bool.and_eq_true, Bool.or_eq_true, Bool.not_eq_true', beq_eq_false_iff_ne, false_and, and_false, true_and, and_true,
      false_or, or_false, true_or, or_true, decide_eq_true_eq,
      beq_self_eq_true, Bool.true_or, Bool.or_true, Bool.true_and, Bool.and_true, Bool.not_true, Bool.not_false, $ts,*])

/-! ## The three mutually dependent statements, indexed by the fuel -/

/-- `parseSection` on a block at depth `d` (cursor on its key, INDENT already consumed), followed by a token that
`stopsAt` depth `d`: the Block node with exactly the children; cursor on that token; only warnings added. -/
def SecOK (pos : Nat → LPos) (F : Nat) : Prop :=
  ∀ (key : Str) (bw : Nat) (cs : List PNode) (d i : Nat) (st : PState) (e : Token) (k : List Token),
    st.rest = (PNode.block key bw cs).body pos d i ++ e :: k →
    stopsAt (d + 1) e = true →
    (PNode.block key bw cs).colsOk pos d i = true →
    ((PNode.block key bw cs).body pos d i).length ≤ F →
    parseSection F [] st = .ok (some ((PNode.block key bw cs).node pos i),
      { st with rest := e :: k, prev := some ((PNode.block key bw cs).lastTok pos i),
                pos := st.pos + ((PNode.block key bw cs).body pos d i).length,
                warnings := ((PNode.block key bw cs).warns pos i).reverse ++ st.warnings })

/-- the child loop with the cursor on the key of child `c` (its INDENT consumed: `lineIndent = li ≥ childIndent`),
further children `cs` behind it. -/
def ChildOK (pos : Nat → LPos) (F : Nat) : Prop :=
  ∀ (c : PNode) (cs : List PNode) (d i li : Nat) (st : PState) (e : Token) (k : List Token) (acc : List Node) (kp : KeyPos),
    st.rest = c.body pos (d + 1) i ++ (toksList pos cs (d + 1) (i + c.lines) ++ e :: k) →
    (d + 1) ≤ li →
    stopsAt ((d + 1)) e = true →
    c.colsOk pos (d + 1) i = true → colsOkList pos cs (d + 1) (i + c.lines) = true →
    (c.body pos (d + 1) i).length + (toksList pos cs (d + 1) (i + c.lines)).length + 1 ≤ F →
    blockLoop F ((d + 1)) li [] acc kp st = .ok (acc ++ nodeList pos (c :: cs) i,
      { st with rest := e :: k, prev := some (lastTokList pos cs (c.lastTok pos i) (i + c.lines)),
                pos := st.pos + ((c.body pos (d + 1) i).length + (toksList pos cs (d + 1) (i + c.lines)).length),
                warnings := (warnsList pos (c :: cs) kp i).reverse ++ st.warnings })

/-- the child loop at the start of a line (`lineIndent = 0`), children `cs` (each with its INDENT) ahead. -/
def LoopOK (pos : Nat → LPos) (F : Nat) : Prop :=
  ∀ (cs : List PNode) (d i : Nat) (st : PState) (e : Token) (k : List Token) (acc : List Node) (kp : KeyPos),
    st.rest = toksList pos cs (d + 1) i ++ e :: k →
    stopsAt ((d + 1)) e = true →
    colsOkList pos cs (d + 1) i = true →
    (toksList pos cs (d + 1) i).length + 1 ≤ F →
    blockLoop F ((d + 1)) 0 [] acc kp st = .ok (acc ++ nodeList pos cs i,
      { st with rest := e :: k, prev := prevAfterList pos st.prev cs i,
                pos := st.pos + (toksList pos cs (d + 1) i).length,
                warnings := (warnsList pos cs kp i).reverse ++ st.warnings })

theorem body_ne_nil (pos : Nat → LPos) (c : PNode) (d i : Nat) (r : List Token) : c.body pos d i ++ r ≠ [] := by
  cases c <;> simp [PNode.body, Line.toks]

theorem loop_of (pos : Nat → LPos) (F : Nat) (ih : ∀ F' < F, ChildOK pos F') : LoopOK pos F := by
  intro cs d i st e k acc kp hr hs hc hF
  obtain ⟨rest, p, n, la, w, dp, wd, s, th, al⟩ := st
  simp only at hr
  subst hr
  obtain ⟨F', rfl⟩ : ∃ F', F = F' + 1 := ⟨F - 1, by omega⟩
  cases cs with
  | nil =>
    simp only [toksList, List.nil_append]
    rw [blockLoop_stop (hci := by omega) (hs := hs)]
    simp only [nodeList, List.append_nil, prevAfterList, List.length_nil, Nat.add_zero, warnsList, List.reverse_nil, List.nil_append]
  | cons c cs =>
    simp only [toksList, indentToks, List.cons_append, List.nil_append, List.append_assoc, colsOkList, Bool.and_eq_true,
      List.length_cons, List.length_append] at hF hc ⊢
    rw [blockLoop]
    step_simp [indentTok, Nat.lt_irrefl]
    rw [advance_ne (h := body_ne_nil pos c (d + 1) i _)]
    simp only []
    rw [ih F' (Nat.lt_succ_self _) c cs d i ((d + 1)) _ e k acc kp rfl (Nat.le_refl _) hs hc.1 hc.2 (by omega)]
    simp only [prevAfterList]
    have hp : n + 1 + ((c.body pos (d + 1) i).length + (toksList pos cs (d + 1) (i + c.lines)).length)
        = n + ((c.body pos (d + 1) i).length + (toksList pos cs (d + 1) (i + c.lines)).length + 1) := by omega
    rw [hp]


/-- the first token after a node at depth `d` (a sibling's INDENT or key, or what follows the forest) `stopsAt` depth `d`. -/
theorem cont_head (pos : Nat → LPos) (cs : List PNode) (d i : Nat) (e : Token) (k : List Token)
    (hs : stopsAt (d + 1) e = true) :
    ∃ e' k', toksList pos cs d i ++ e :: k = e' :: k' ∧ stopsAt (d + 1) e' = true := by
  cases cs with
  | nil => exact ⟨e, k, rfl, hs⟩
  | cons c cs =>
    cases d with
    | zero =>
      cases c with
      | line key v => exact ⟨_, _, rfl, by simp [stopsAt, Line.keyTok]⟩
      | block key w' cs' => exact ⟨_, _, rfl, by simp [stopsAt, hdrKeyTok]⟩
    | succ d => exact ⟨_, _, rfl, by simp [stopsAt, indentTok, indentVal]⟩

theorem prevAfterList_some (pos : Nat → LPos) (t : Token) (cs : List PNode) (i : Nat) :
    prevAfterList pos (some t) cs i = some (lastTokList pos cs t i) := by
  cases cs <;> rfl

theorem prevAfterList_cons (pos : Nat → LPos) (p : Option Token) (c : PNode) (cs : List PNode) (i : Nat) :
    prevAfterList pos p (c :: cs) i = some (lastTokList pos cs (c.lastTok pos i) (i + c.lines)) := rfl

theorem child_of (pos : Nat → LPos) (F : Nat) (ihS : ∀ F' < F, SecOK pos F') (ihL : ∀ F' < F, LoopOK pos F') :
    ChildOK pos F := by
  intro c cs d i li st e k acc kp hr hli hs hc hcs hF
  have hnlt : ¬ li < (d + 1) := by omega
  cases c with
  | line key v =>
    obtain ⟨rest, p, n, la, w, dp, wd, s, th, al⟩ := st
    simp only at hr
    subst hr
    have hlen : ((PNode.line key v).body pos (d + 1) i).length = 4 := rfl
    rw [hlen] at hF ⊢
    simp only [PNode.lines] at hF hcs ⊢
    obtain ⟨G, rfl⟩ : ∃ G, F = G + 5 := ⟨F - 5, by omega⟩
    simp only [PNode.body, Line.toks, List.cons_append, List.nil_append]
    rw [blockLoop]
    step_simp [Line.keyTok, hnlt]
    rw [parseSection_flat_line (ln := mkLine key v (pos i)) (fuel := G + 1)
      (k := toksList pos cs (d + 1) (i + 1) ++ e :: k) (hr := rfl)]
    step_simp [Line.node, nodeAssignKey?, trackKey_eq]
    rw [blockLoop]
    step_simp [Line.nlTok]
    rw [advance_ne (h := by simp)]
    simp only []
    rw [ihL (G + 3) (by omega) cs d (i + 1) _ e k _ _ rfl hs hcs (by omega)]
    simp only [nodeList, PNode.node, PNode.lines, PNode.lastTok, Line.node, Line.nlTok, warnsList, PNode.warns, trackNode, mkLine,
      prevAfterList_some, List.append_assoc, List.cons_append, List.nil_append, List.reverse_append,
      trackPure_warns_reverse, Line.warns_reverse]
    have hp : n + 3 + 1 + (toksList pos cs (d + 1) (i + 1)).length = n + (4 + (toksList pos cs (d + 1) (i + 1)).length) := by omega
    rw [hp]
  | block key' bw' cs' =>
    obtain ⟨e', k', hek, hs'⟩ := cont_head pos cs (d + 1) (i + (PNode.block key' bw' cs').lines) e k
      (stopsAt_mono (by omega) hs)
    rw [hek] at hr
    obtain ⟨rest, p, n, la, w, dp, wd, s, th, al⟩ := st
    simp only at hr
    subst hr
    obtain ⟨F', rfl⟩ : ∃ F', F = F' + 1 := ⟨F - 1, by omega⟩
    have hlen3 : 3 ≤ ((PNode.block key' bw' cs').body pos (d + 1) i).length := by
      simp only [PNode.body, List.length_cons]; omega
    have hsec := ihS F' (Nat.lt_succ_self _) key' bw' cs' (d + 1) i
      { rest := (PNode.block key' bw' cs').body pos (d + 1) i ++ e' :: k', prev := p, pos := n, last := la, warnings := w, depth := dp,
        warned := wd, strict := s, threshold := th, alpha := al } e' k' rfl hs' hc (by omega)
    rw [blockLoop]
    simp only [PNode.body, List.cons_append] at hsec ⊢
    step_simp [hdrKeyTok, hnlt]
    simp only [hdrKeyTok] at hsec
    rw [hsec]
    step_simp [PNode.node, nodeAssignKey?]
    rw [ihL F' (Nat.lt_succ_self _) cs d (i + (PNode.block key' bw' cs').lines) _ e k _ _ hek.symm hs hcs (by omega)]
    simp only [nodeList, PNode.node, PNode.lastTok, warnsList, PNode.warns, trackNode,
      prevAfterList_some, List.append_assoc, List.cons_append, List.nil_append, List.reverse_append, Nat.add_assoc]


/-- `advance` over a token followed by the tokens of a node. -/
theorem advance_body (pos : Nat → LPos) (c : PNode) (d' i' : Nat) (X : List Token) (t : Token) (p : Option Token) (n : Nat) (la : Token)
    (w : List Warning) (d : Nat) (wd : List Nat) (s : Bool) (th : Nat) (al : Char → Bool) :
    advance { rest := t :: (c.body pos d' i' ++ X), prev := p, pos := n, last := la, warnings := w, depth := d, warned := wd, strict := s, threshold := th, alpha := al }
      = .ok (t, { rest := c.body pos d' i' ++ X, prev := some t, pos := n + 1, last := la, warnings := w, depth := d, warned := wd, strict := s, threshold := th, alpha := al }) :=
  advance_ne (h := body_ne_nil pos c d' i' X) ..

theorem sec_of (pos : Nat → LPos) (F : Nat) (ih : ∀ F' < F, ChildOK pos F') : SecOK pos F := by
  intro key bw cs d i st e k hr hs hc hF
  obtain ⟨rest, p, n, la, w, dp, wd, s, th, al⟩ := st
  simp only at hr
  subst hr
  have hs0 := hs
  simp only [stopsAt, Bool.and_eq_true, Bool.or_eq_true, bne_iff_ne, ne_eq, decide_eq_true_eq] at hs0
  obtain ⟨⟨⟨h1, h2⟩, h3⟩, h4⟩ := hs0
  cases cs with
  | nil =>
    simp only [PNode.colsOk, List.isEmpty_nil, if_true, colsOkList, Bool.and_true, decide_eq_true_eq] at hc
    simp only [PNode.body, toksList, List.cons_append, List.nil_append, List.length_cons, List.length_nil] at hF ⊢
    obtain ⟨F', rfl⟩ : ∃ F', F = F' + 1 := ⟨F - 1, by omega⟩
    rw [parseSection]
    step_simp [hdrKeyTok, hdrBlockTok, hdrNlTok, pyStrVal_str]
    rw [skipWhitespace_newline (h := rfl) (h1 := h1) (h2 := h2)]
    step_simp []
    rw [preIndentComments_stop (h1 := h2) (h2 := h1)]
    step_simp []
    have hfin : n + 1 + 1 + 1 = n + (0 + 1 + 1 + 1) := by omega
    by_cases hi : e.type = TT.indent
    · have h5 : indentVal e < d + 1 := by
        rcases h4 with h | h
        · exact absurd hi h
        · exact h
      cases hv : e.value with
      | nat m =>
        simp only [indentVal, hv] at h5
        have h6 : ¬ (m > (pos i).c1 - 1) := by omega
        step_simp [hi, h3, h6, set_mk, decide_false, eq_self, Option.isSome_none]
        simp only [PNode.node, nodeList, PNode.lastTok, lastTokList, PNode.warns, warnsList, List.reverse_nil, List.nil_append, hdrNlTok, hfin]
      | _ =>
        step_simp [hi, h3, set_mk, decide_false, eq_self, Option.isSome_none, gt_iff_lt, Nat.not_lt_zero]
        simp only [PNode.node, nodeList, PNode.lastTok, lastTokList, PNode.warns, warnsList, List.reverse_nil, List.nil_append, hdrNlTok, hfin]
    · have hib : (e.type == TT.indent) = false := by simp [hi]
      step_simp [hi, hib, h3, set_mk, decide_false, eq_self, Option.isSome_none]
      simp only [PNode.node, nodeList, PNode.lastTok, lastTokList, PNode.warns, warnsList, List.reverse_nil, List.nil_append, hdrNlTok, hfin]
  | cons c cs =>
    simp only [PNode.colsOk, List.isEmpty_cons, Bool.false_eq_true, if_false, colsOkList, Bool.and_eq_true, decide_eq_true_eq] at hc
    obtain ⟨⟨hw, hc1⟩, hc2, hc3⟩ := hc
    obtain ⟨q, hq⟩ : ∃ q, d + bw = q + 1 := ⟨d + bw - 1, by omega⟩
    rw [hq] at hc1 hc2 hc3
    simp only [PNode.body, hq, toksList, indentToks, List.cons_append, List.nil_append, List.append_assoc, List.length_cons,
      List.length_append] at hF ⊢
    obtain ⟨F', rfl⟩ : ∃ F', F = F' + 1 := ⟨F - 1, by omega⟩
    rw [parseSection]
    step_simp [hdrKeyTok, hdrBlockTok, hdrNlTok, pyStrVal_str]
    rw [skipWhitespace_newline (h := rfl) (h1 := by simp [indentTok]) (h2 := by simp [indentTok])]
    step_simp []
    rw [preIndentComments_stop (h1 := by simp [indentTok]) (h2 := by simp [indentTok])]
    have h6 : q + 1 > (pos i).c1 - 1 := hc1
    step_simp [indentTok, h6, decide_true, Option.isSome_none, advance_body]
    rw [ih F' (Nat.lt_succ_self _) c cs q (i + 1) (q + 1) _ e k [] [] rfl (Nat.le_refl _)
      (stopsAt_mono (by omega) hs) hc2 hc3 (by omega)]
    simp only [PNode.node, nodeList, PNode.lastTok, lastTokList, PNode.warns, warnsList, List.nil_append]
    have hp : n + 1 + 1 + 1 + 1 + ((c.body pos (q + 1) (i + 1)).length + (toksList pos cs (q + 1) (i + 1 + c.lines)).length)
        = n + ((c.body pos (q + 1) (i + 1)).length + (toksList pos cs (q + 1) (i + 1 + c.lines)).length + 1 + 1 + 1 + 1) := by omega
    rw [hp]


/-- all three statements hold for every fuel (strong induction on the fuel; the fuel bounds inside the statements
make every recursive call land on a smaller fuel that is still large enough). -/
theorem all_ok (pos : Nat → LPos) (F : Nat) : SecOK pos F ∧ ChildOK pos F ∧ LoopOK pos F := by
  induction F using Nat.strongRecOn with
  | _ F ih =>
    have hC : ∀ F' < F, ChildOK pos F' := fun F' h => (ih F' h).2.1
    exact ⟨sec_of pos F hC, child_of pos F (fun F' h => (ih F' h).1) (fun F' h => (ih F' h).2.2), loop_of pos F hC⟩

/-- **`parse_section` on a block** of any depth and width, at any depth `d`, at arbitrary token positions (the key column
subject to `colsOk`), followed by a token `e` that is not deeper than the block (`stopsAt (d + 1) e`), with
fuel at least the number of the block's tokens: returns the Block node with exactly the children, leaves the cursor on
`e`; `warnings` grows by exactly `warns` (duplicate keys per block, PATTERN/REGEX bare words); `depth`, `warned`
and everything else unchanged. -/
theorem parseSection_block (pos : Nat → LPos) (key : Str) (bw : Nat) (cs : List PNode) (d i : Nat) (st : PState) (e : Token) (k : List Token)
    (F : Nat) (hr : st.rest = (PNode.block key bw cs).body pos d i ++ e :: k) (hs : stopsAt (d + 1) e = true)
    (hc : (PNode.block key bw cs).colsOk pos d i = true) (hF : ((PNode.block key bw cs).body pos d i).length ≤ F) :
    parseSection F [] st = .ok (some ((PNode.block key bw cs).node pos i),
      { st with rest := e :: k, prev := some ((PNode.block key bw cs).lastTok pos i),
                pos := st.pos + ((PNode.block key bw cs).body pos d i).length,
                warnings := ((PNode.block key bw cs).warns pos i).reverse ++ st.warnings }) :=
  (all_ok pos F).1 key bw cs d i st e k hr hs hc hF

/-- **the child loop of a block** from the start of a line, on any forest of children at depth `d + 1`. -/
theorem blockLoop_forest (pos : Nat → LPos) (cs : List PNode) (d i : Nat) (st : PState) (e : Token) (k : List Token)
    (acc : List Node) (kp : KeyPos) (F : Nat)
    (hr : st.rest = toksList pos cs (d + 1) i ++ e :: k) (hs : stopsAt ((d + 1)) e = true)
    (hc : colsOkList pos cs (d + 1) i = true) (hF : (toksList pos cs (d + 1) i).length + 1 ≤ F) :
    blockLoop F ((d + 1)) 0 [] acc kp st = .ok (acc ++ nodeList pos cs i,
      { st with rest := e :: k, prev := prevAfterList pos st.prev cs i,
                pos := st.pos + (toksList pos cs (d + 1) i).length,
                warnings := (warnsList pos cs kp i).reverse ++ st.warnings }) :=
  (all_ok pos F).2.2 cs d i st e k acc kp hr hs hc hF

/-! ## The body loop of `parseDocument` on a forest (lines and blocks mixed) -/

theorem docLoop_tree (pos : Nat → LPos) (vf : Nat) (nodes : List PNode) (e : Token) (tail : List Token)
    (he : e.type = .envelopeEnd ∨ e.type = .eof) (i : Nat) (st : PState) (acc : List Node) (kp : KeyPos) (extra : Nat)
    (hr : st.rest = toksList pos nodes 0 i ++ e :: tail)
    (hc : colsOkList pos nodes 0 i = true)
    (hvf : (toksList pos nodes 0 i).length + 3 ≤ vf) :
    docLoop vf (2 * nodes.length + 1 + extra) [] acc kp st
      = .ok ((acc ++ nodeList pos nodes i, []),
             { st with rest := e :: tail, prev := prevAfterList pos st.prev nodes i,
                       pos := st.pos + (toksList pos nodes 0 i).length,
                       warnings := (warnsList pos nodes kp i).reverse ++ st.warnings }) := by
  have hse : stopsAt 1 e = true := by
    rcases he with h | h <;> simp [stopsAt, h]
  induction nodes generalizing st acc kp i extra with
  | nil =>
    obtain ⟨rest, p, n, la, w, dp, wd, s, th, al⟩ := st
    simp only [toksList, List.nil_append] at hr
    subst hr
    have hf : 2 * ([] : List PNode).length + 1 + extra = extra + 1 := by simp only [List.length_nil]; omega
    rw [hf, docLoop]
    step_simp [he]
    simp only [nodeList, List.append_nil, prevAfterList, toksList, List.length_nil, Nat.add_zero, warnsList, List.reverse_nil,
      List.nil_append]
  | cons c r ih =>
    have hf : 2 * (c :: r).length + 1 + extra = (2 * r.length + 1 + extra) + 1 + 1 := by
      simp only [List.length_cons]; omega
    simp only [colsOkList, Bool.and_eq_true] at hc
    rw [hf]
    cases c with
    | line key v =>
      obtain ⟨rest, p, n, la, w, dp, wd, s, th, al⟩ := st
      simp only at hr
      subst hr
      simp only [toksList, indentToks, PNode.body, Line.toks, PNode.lines, List.nil_append, List.cons_append, List.length_cons] at hvf ⊢
      obtain ⟨vf0, rfl⟩ : ∃ vf0, vf = vf0 + 3 := ⟨vf - 3, by omega⟩
      rw [docLoop]
      step_simp [Line.keyTok]
      rw [parseSection_flat_line (ln := mkLine key v (pos i)) (fuel := vf0)
        (k := toksList pos r 0 (i + 1) ++ e :: tail) (hr := rfl)]
      step_simp [Line.node, nodeAssignKey?, trackKey_eq]
      rw [docLoop]
      step_simp [Line.nlTok]
      rw [advance_ne (h := by simp)]
      simp only []
      rw [ih (i + 1) _ _ _ extra rfl hc.2 (by omega)]
      simp only [nodeList, PNode.node, PNode.lines, PNode.lastTok, Line.node, Line.nlTok, warnsList, PNode.warns, trackNode, mkLine,
        prevAfterList_some, prevAfterList_cons, List.append_assoc, List.cons_append, List.nil_append, List.reverse_append,
        trackPure_warns_reverse, Line.warns_reverse]
      have hp : n + 3 + 1 + (toksList pos r 0 (i + 1)).length = n + ((toksList pos r 0 (i + 1)).length + 1 + 1 + 1 + 1) := by omega
      rw [hp]
    | block key bw cs =>
      obtain ⟨e', k', hek, hs'⟩ := cont_head pos r 0 (i + (PNode.block key bw cs).lines) e tail hse
      simp only [toksList, indentToks, List.nil_append, List.append_assoc] at hr hvf
      rw [hek] at hr
      obtain ⟨rest, p, n, la, w, dp, wd, s, th, al⟩ := st
      simp only at hr
      subst hr
      have hsec := parseSection_block pos key bw cs 0 i
        { rest := (PNode.block key bw cs).body pos 0 i ++ e' :: k', prev := p, pos := n, last := la, warnings := w, depth := dp,
          warned := wd, strict := s, threshold := th, alpha := al } e' k' vf rfl hs' hc.1
          (by simp only [List.length_append] at hvf; omega)
      rw [docLoop]
      simp only [PNode.body, List.cons_append] at hsec ⊢
      step_simp [hdrKeyTok]
      simp only [hdrKeyTok] at hsec
      rw [hsec]
      step_simp [PNode.node, nodeAssignKey?]
      have hfm : 2 * r.length + 1 + extra + 1 = 2 * r.length + 1 + (extra + 1) := by omega
      rw [hfm, ih (i + (PNode.block key bw cs).lines) _ _ _ (extra + 1) hek.symm hc.2
        (by simp only [List.length_append] at hvf; omega)]
      simp only [nodeList, PNode.node, PNode.lastTok, warnsList, PNode.warns, trackNode, toksList, indentToks, PNode.body,
        prevAfterList_some, prevAfterList_cons, List.append_assoc, List.cons_append, List.nil_append, List.reverse_append,
        List.length_cons, List.length_append]
      apply ok_pos_congr
      omega


/-- `docLoop_tree` with fuel given by lower bounds. -/
theorem docLoop_tree' (pos : Nat → LPos) (vf fuel : Nat) (nodes : List PNode) (e : Token) (tail : List Token)
    (he : e.type = .envelopeEnd ∨ e.type = .eof) (i : Nat) (st : PState) (acc : List Node) (kp : KeyPos)
    (hr : st.rest = toksList pos nodes 0 i ++ e :: tail)
    (hc : colsOkList pos nodes 0 i = true)
    (hvf : (toksList pos nodes 0 i).length + 3 ≤ vf) (hfuel : 2 * nodes.length + 1 ≤ fuel) :
    docLoop vf fuel [] acc kp st
      = .ok ((acc ++ nodeList pos nodes i, []),
             { st with rest := e :: tail, prev := prevAfterList pos st.prev nodes i,
                       pos := st.pos + (toksList pos nodes 0 i).length,
                       warnings := (warnsList pos nodes kp i).reverse ++ st.warnings }) := by
  obtain ⟨extra, rfl⟩ : ∃ extra, fuel = 2 * nodes.length + 1 + extra := ⟨fuel - (2 * nodes.length + 1), by omega⟩
  exact docLoop_tree pos vf nodes e tail he i st acc kp extra hr hc hvf

/-- every node has at least one token. -/
theorem length_le_toks (pos : Nat → LPos) (nodes : List PNode) (d i : Nat) : nodes.length ≤ (toksList pos nodes d i).length := by
  induction nodes generalizing i with
  | nil => simp [toksList]
  | cons c r ih =>
    have := ih (i + c.lines)
    have hb : 1 ≤ (c.body pos d i).length := by
      cases c <;> simp [PNode.body, Line.toks]
    simp only [toksList, List.length_append, List.length_cons]
    omega

/-! ## `parseDocument` on a whole tree document -/

/-- the token list of a tree document: envelope line, the forest at depth 0 (body lines numbered from 0), `===END===`. -/
def treeToks (f : Frame) (name : Str) (pos : Nat → LPos) (nodes : List PNode) : List Token :=
  f.envTok name :: f.nl0Tok :: (toksList pos nodes 0 0 ++ [f.endTok, f.nl1Tok, f.eofTok])

/-- the document it denotes (all other fields at their defaults). -/
def treeDoc (name : Str) (pos : Nat → LPos) (nodes : List PNode) : Document := { name := name, sections := nodeList pos nodes 0 }

def PNode.key : PNode → Str
  | .line key _ => key
  | .block key _ _ => key

/-- the first top-level key is `META` (then `parse_document` reads a META block, not a section). -/
def metaFirstT : List PNode → Bool
  | c :: _ => c.key == "META".toList
  | [] => false

/-- what follows the envelope line: the first key (not `META`) or `===END===`. -/
theorem tree_body_head (f : Frame) (pos : Nat → LPos) (nodes : List PNode) (hm : metaFirstT nodes = false) :
    ∃ u K, toksList pos nodes 0 0 ++ [f.endTok, f.nl1Tok, f.eofTok] = u :: K ∧
      u.type ≠ TT.newline ∧ u.type ≠ TT.comment ∧ u.type ≠ TT.separator ∧ u.type ≠ TT.grammarSentinel ∧
      u.type ≠ TT.envelopeStart ∧ ¬(u.type = TT.identifier ∧ u.value = TVal.str "META".toList) := by
  cases nodes with
  | nil => exact ⟨f.endTok, _, rfl, by simp [Frame.endTok], by simp [Frame.endTok], by simp [Frame.endTok], by simp [Frame.endTok], by simp [Frame.endTok], fun h => by cases h.1⟩
  | cons c r =>
    simp only [metaFirstT, beq_eq_false_iff_ne, ne_eq] at hm
    cases c with
    | line key v =>
      refine ⟨(mkLine key v (pos 0)).keyTok, _, rfl, by simp [Line.keyTok], by simp [Line.keyTok], by simp [Line.keyTok], by simp [Line.keyTok], by simp [Line.keyTok], fun h => ?_⟩
      have := h.2
      simp only [Line.keyTok, mkLine, TVal.str.injEq] at this
      exact hm this
    | block key bw cs =>
      refine ⟨hdrKeyTok key (pos 0), _, rfl, by simp [hdrKeyTok], by simp [hdrKeyTok], by simp [hdrKeyTok], by simp [hdrKeyTok], by simp [hdrKeyTok], fun h => ?_⟩
      have := h.2
      simp only [hdrKeyTok, TVal.str.injEq] at this
      exact hm this

theorem parseDocument_tree (f : Frame) (name : Str) (pos : Nat → LPos) (nodes : List PNode) (st : PState)
    (hm : metaFirstT nodes = false) (hc : colsOkList pos nodes 0 0 = true) (hr : st.rest = treeToks f name pos nodes) :
    parseDocument st
      = .ok (treeDoc name pos nodes,
             { st with rest := [f.nl1Tok, f.eofTok], prev := some f.endTok, pos := st.pos + (toksList pos nodes 0 0).length + 3,
                       warnings := (warnsList pos nodes [] 0).reverse ++ st.warnings }) := by
  obtain ⟨u, K, hK, h1, h2, h3, h4, h5, h6⟩ := tree_body_head f pos nodes hm
  have hlen : (toksList pos nodes 0 0).length + 2 = K.length := by
    have := congrArg List.length hK
    simp only [List.length_append, List.length_cons, List.length_nil] at this
    omega
  have hnl := length_le_toks pos nodes 0 0
  have hst : st = { st with rest := f.envTok name :: f.nl0Tok :: u :: K } := by rw [← hK, ← treeToks, ← hr]
  rw [hst]
  unfold parseDocument
  simp (config := {zeta := false}) only [bind, StateT.bind, Except.bind, budget_mk]
  extract_lets n doc0 jp5 jp4 jp3 jp2 jp1
  step_simp [Frame.envTok, Frame.nl0Tok, skipWhitespace_stop]
  simp only [jp1]
  step_simp []
  simp only [jp2]
  step_simp [skipWhitespace_newline, pyStrVal_str, h1, h2]
  simp only [jp3]
  step_simp [h6]
  simp only [jp4]
  step_simp [h3]
  simp only [jp5]
  step_simp []
  rw [docLoop_tree' (pos := pos) (nodes := nodes) (e := f.endTok) (tail := [f.nl1Tok, f.eofTok]) (he := Or.inl rfl) (i := 0)
    (hr := hK.symm) (hc := hc)
    (hvf := by simp only [n, List.length_cons]; omega) (hfuel := by simp only [n, List.length_cons]; omega)]
  step_simp [Frame.endTok]
  have hp : st.pos + 1 + 1 + (toksList pos nodes 0 0).length + 1 = st.pos + (toksList pos nodes 0 0).length + 3 := by omega
  rw [hp, List.nil_append]
  rfl


/-! ## The lexer's columns satisfy `colsOk`, for every width `w ≥ 1` -/

mutual
/-- every block key sits right after its indentation (`column = d + 1`: what the lexer produces) and every width is positive. -/
def PNode.canonCols (pos : Nat → LPos) : PNode → Nat → Nat → Bool
  | .line _ _, _, _ => true
  | .block _ w cs, d, i => decide ((pos i).c1 = d + 1) && decide (0 < w) && canonColsList pos cs (d + w) (i + 1)
def canonColsList (pos : Nat → LPos) : List PNode → Nat → Nat → Bool
  | [], _, _ => true
  | c :: cs, d, i => c.canonCols pos d i && canonColsList pos cs d (i + c.lines)
end

mutual
theorem colsOk_of_canon (pos : Nat → LPos) : ∀ (c : PNode) (d i : Nat), c.canonCols pos d i = true → c.colsOk pos d i = true
  | .line _ _, _, _, _ => rfl
  | .block _ w cs, d, i, h => by
    simp only [PNode.canonCols, Bool.and_eq_true, decide_eq_true_eq] at h
    simp only [PNode.colsOk, Bool.and_eq_true, colsOkList_of_canon pos cs (d + w) (i + 1) h.2, and_true]
    split <;> simp only [decide_eq_true_eq, Bool.and_eq_true] <;> omega
theorem colsOkList_of_canon (pos : Nat → LPos) : ∀ (cs : List PNode) (d i : Nat), canonColsList pos cs d i = true → colsOkList pos cs d i = true
  | [], _, _, _ => rfl
  | c :: cs, d, i, h => by
    simp only [canonColsList, Bool.and_eq_true] at h
    simp only [colsOkList, Bool.and_eq_true]
    exact ⟨colsOk_of_canon pos c d i h.1, colsOkList_of_canon pos cs d (i + c.lines) h.2⟩
end

end Octave.C03.IndentParse
